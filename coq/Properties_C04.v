(** C04 - mutex: mutual exclusion, no lost wake-up, non-blocking trylock.

    Model: Sync/SyncModel.v (Abs(mutex, its condition variables, felock status); one step = one
    shared access between two MYTH_VERIF_POINTs; replayed against the real library on every run).
    Proofs: Sync/MutexProofs.v.  All theorems are for EVERY number of threads (length of [thr]),
    every number of condition variables, every schedule [list (nat * ev)] from [init_state nt nc]
    ([C04_every_run_reachable]), all operations of the model (lock, trylock, timedlock, unlock,
    cond wait/signal/broadcast, felock operations), several callbacks of a thread in flight.

    Measures (MutexProofs.v): [SH s] = number of threads whose [own] flag is set (= count_holders);
    [SR s] = R = number of pending enqueue callbacks on the mutex queue ([CbEnq QM _] entries: the
    seat CAS +2 succeeded, the thread is not yet in [mq]); [SD s] = D = number of unlock activities
    (own context or callback) at [UDeq] (CAS -2 done, sleeper not yet dequeued).

    NOT claimed: liveness ("every lock call eventually returns") - it needs scheduler fairness;
    replaced by [C04_no_lost_wakeup] / [C04_quiescent_no_sleeper].  [C04_blocked_idle] is the
    model-level statement (a sleeper has no enabled main-context step); that the worker it left
    runs something else is the machine-level counterpart, checked on traces only (partial). *)
From Coq Require Import ZArith List Bool Lia Arith.
From MT Require Import Lib.Interleave Sync.SyncModel Sync.MutexProofs Sync.MutexProgress.
Import ListNotations.
Local Open Scope nat_scope.

Theorem C04_every_run_reachable : forall nt nc (sched : list (nat * ev)),
  reachable init step (run step sched (init_state nt nc)).
Proof. exact reach_run. Qed.
Print Assumptions C04_every_run_reachable.

Theorem C04_inv_reachable : forall s, reachable init step s -> Inv s.
Proof. exact inv_reach. Qed.
Print Assumptions C04_inv_reachable.

Theorem C04_inv_inductive : forall s a s', Inv s -> step s a = Some s' -> Inv s'.
Proof. exact inv_step. Qed.
Print Assumptions C04_inv_inductive.

(** (a) *)
Theorem C04_lock_bit_is_owner_count : forall s, reachable init step s ->
  (mword s mod 2 = Z.of_nat (count_holders s))%Z /\ count_holders s <= 1.
Proof. exact lock_bit_is_owner_count. Qed.
Print Assumptions C04_lock_bit_is_owner_count.

Theorem C04_mutual_exclusion : forall s t1 t2, reachable init step s ->
  t1 <> t2 -> holds s t1 = true -> holds s t2 = true -> False.
Proof. exact mutual_exclusion. Qed.
Print Assumptions C04_mutual_exclusion.

(** trace form: along every run the successful acquiring CASes ([Acq t]: lock.cas1 / try.cas that
    succeed, whoever called them - lock, trylock, timedlock, the relock of cond_wait, felock
    operations) and the clearing steps ([Clr t]: unlock.cas1 1->0 that succeeds, mutex.clearbit; in
    the thread's own context or in its cond-wait callback) alternate, starting with an acquire,
    and each clear is executed on behalf of the thread that acquired. *)
Theorem C04_acquire_clear_alternate : forall nt nc (sched : list (nat * ev)),
  alt None (marks sched (init_state nt nc)).
Proof. exact acquire_clear_alternate_init. Qed.
Print Assumptions C04_acquire_clear_alternate.

Theorem C04_holder_changes_only_at_marks : forall s t e s' j, step s (t, e) = Some s' ->
  (j <> t -> holds s' j = holds s j) /\
  holds s' t = (if acq_ev s (t, e) then true else if clr_ev s (t, e) then false else holds s t).
Proof. intros s t e s' j H. split; [intros Hj; eapply holds_frame; eauto | apply holds_self; exact H]. Qed.
Print Assumptions C04_holder_changes_only_at_marks.

(** (b) *)
Theorem C04_seats : forall s, reachable init step s ->
  (mword s / 2 + Z.of_nat (SD s) = Z.of_nat (SR s + length (mq s)))%Z /\ (0 <= mword s)%Z /\ SD s <= 1.
Proof. exact seats. Qed.
Print Assumptions C04_seats.

Theorem C04_deq_spin_someone_coming : forall s, reachable init step s ->
  1 <= SD s -> mq s = [] -> 1 <= SR s.
Proof. exact deq_spin_someone_coming. Qed.
Print Assumptions C04_deq_spin_someone_coming.

Theorem C04_fast_path_nobody_reserved : forall s t th nf w, reachable init step s ->
  get_thread s t = Some th -> has_act th (UCas1 nf w) -> mword s = 1%Z -> SR s + length (mq s) = 0.
Proof. exact unlock_fast_path_nobody_reserved. Qed.
Print Assumptions C04_fast_path_nobody_reserved.

(** (c) *)
Theorem C04_queue_wf : forall s, reachable init step s ->
  NoDup (mq s) /\ (forall c, NoDup (nth c (cqs s) [])) /\
  (forall x c, In x (mq s) -> ~ In x (nth c (cqs s) [])) /\
  (forall x c1 c2, c1 <> c2 -> In x (nth c1 (cqs s) []) -> ~ In x (nth c2 (cqs s) [])) /\
  (forall x, In x (mq s) ->
     exists th k, get_thread s x = Some th /\ main th = Susp k /\ (forall q u, ~ In (CbEnq q u) (cbs th))) /\
  (forall x c, In x (nth c (cqs s) []) ->
     exists th k, get_thread s x = Some th /\ main th = Susp k /\ (forall q u, ~ In (CbEnq q u) (cbs th))).
Proof. exact queue_wf. Qed.
Print Assumptions C04_queue_wf.

(** no resume before save: a thread in a waker's hand is suspended, in no queue, and the push
    step is enabled ([step] is never stuck on a push) *)
Theorem C04_wake_never_fails : forall s t th x, reachable init step s ->
  get_thread s t = Some th -> in_hand th x ->
  (exists s', wake s x = Some s') /\ ~ In x (mq s) /\ (forall c, ~ In x (nth c (cqs s) [])).
Proof.
  intros s t th x R Hth Hh. split; [eapply wake_never_fails; eauto|].
  destruct (hand_parked s t th x R Hth Hh) as (_ & H2 & H3). split; assumption.
Qed.
Print Assumptions C04_wake_never_fails.

Theorem C04_push_steps_enabled : forall s t th, reachable init step s -> get_thread s t = Some th ->
  (forall nf x, main th = Unl (UPush nf x) -> tick s t <> None) /\
  (forall c k x, main th = SigPush c k x -> tick s t <> None) /\
  (forall i nf x, nth_error (cbs th) i = Some (CbUnl (UPush nf x)) -> cbtick s t i <> None).
Proof.
  intros s t th R Hth. repeat split.
  - intros nf x Hm. eapply (tick_enabled_hand s t th _ x R Hth Hm). right; eauto.
  - intros c k x Hm. eapply tick_enabled_sigpush; eauto.
  - intros i nf x Hi. eapply (cbtick_enabled_hand s t th i _ x R Hth Hi). right; eauto.
Qed.
Print Assumptions C04_push_steps_enabled.

(** (d) *)
Theorem C04_no_lost_wakeup : forall s, reachable init step s -> 0 < SR s + length (mq s) ->
  Z.odd (mword s) = true \/
  (exists t th u, get_thread s t = Some th /\ has_act th u /\ exists nf x, u = UClear nf x \/ u = UPush nf x) \/
  (exists t th, get_thread s t = Some th /\ mL (main th) = 1).
Proof. exact no_lost_wakeup. Qed.
Print Assumptions C04_no_lost_wakeup.

Theorem C04_quiescent_no_sleeper : forall s, reachable init step s ->
  (forall t, tick s t = None) -> (forall t i, cbtick s t i = None) ->
  SR s = 0 /\ (mq s <> [] -> Z.odd (mword s) = true).
Proof. intros s R Q1 Q2. apply quiescent_no_sleeper; [exact R | split; assumption]. Qed.
Print Assumptions C04_quiescent_no_sleeper.

(** (e) *)
Theorem C04_trylock_nonblocking : forall s t th s', reachable init step s ->
  get_thread s t = Some th -> in_try (main th) = true -> tick s t = Some s' ->
  mq s' = mq s /\ cqs s' = cqs s /\
  exists th', get_thread s' t = Some th' /\ cbs th' = cbs th /\
    (in_try (main th') = true \/ main th' = Done 0 \/ main th' = Done EBUSY) /\
    (main th' = Done EBUSY \/ main th' = TryBusy -> Z.odd (mword s) = true) /\
    (main th' = Done 0 -> Z.even (mword s) = true /\ mword s' = (mword s + 1)%Z /\ own th' = true).
Proof. exact trylock_nonblocking. Qed.
Print Assumptions C04_trylock_nonblocking.

Theorem C04_trylock_frame : forall s t th, reachable init step s -> get_thread s t = Some th ->
  in_try (main th) = true ->
  (forall q u, ~ In (CbEnq q u) (cbs th)) /\
  (forall t' e s', step s (t', e) = Some s' -> t <> t' -> get_thread s' t = Some th) /\
  (forall v s', ret s t v = Some s' -> main th = TryBusy -> v = ETIMEDOUT).
Proof.
  intros s t th R Hth Htry. repeat split.
  - eapply try_no_enqueue_pending; eauto.
  - intros t' e s' H Hne. eapply try_undisturbed; eauto.
  - intros v s' H Hm. destruct (try_call_ret s t) as (_ & _ & H3). destruct (H3 th v s' Hth H) as (H4 & _). auto.
Qed.
Print Assumptions C04_trylock_frame.

(** (f) *)
Theorem C04_blocked_idle : forall s x, reachable init step s -> In x (mq s) ->
  tick s x = None /\ (forall o, call s x o = None) /\ (forall v, ret s x v = None).
Proof. exact blocked_idle. Qed.
Print Assumptions C04_blocked_idle.

(* ---------------------------------------------------------------------------------------- *)
(** Non-vacuity: concrete schedules with 3 threads, by computation. *)

(** t0 locks; t1 finds the bit set, reserves a seat and goes to sleep; t2 reserves a seat and has
    not yet enqueued *)
Definition sched_sleeper : list (nat * ev) :=
  [(0, ECall Lock); (0, ETick); (0, ETick); (0, ERet 0%Z);
   (1, ECall Lock); (1, ETick); (1, ETick); (1, ECbTick 0);
   (2, ECall Lock); (2, ETick); (2, ETick)].
Definition st_sleeper := run step sched_sleeper (init_state 3 1).

Example ex_sleeper :
  mq st_sleeper = [1] /\ mword st_sleeper = 5%Z /\ count_holders st_sleeper = 1 /\ SR st_sleeper = 1 /\
  holds st_sleeper 0 = true /\ 0 < SR st_sleeper + length (mq st_sleeper).
Proof. vm_compute. repeat split; auto. Qed.

(** ... t2 enqueues too: a quiescent state with two sleepers, the bit set *)
Definition st_quiet := run step (sched_sleeper ++ [(2, ECbTick 0)]) (init_state 3 1).
Example ex_quiescent :
  mq st_quiet = [1; 2] /\ Z.odd (mword st_quiet) = true /\
  (forall t, tick st_quiet t = None) /\ (forall t i, cbtick st_quiet t i = None) /\
  In 1 (mq st_quiet) /\ tick st_quiet 1 = None.
Proof.
  pose (s := st_quiet). assert (Es : st_quiet = s) by reflexivity. vm_compute in s. rewrite Es. subst s.
  assert (Hout : forall t (a b c : thread), nth_error [a; b; c] (S (S (S t))) = None)
    by (intros [|t] a b c; reflexivity).
  split; [reflexivity|]. split; [reflexivity|]. split; [|split; [|split]].
  - intros [|[|[|t]]]; try (vm_compute; reflexivity). unfold tick, get_thread. cbn [thr]. rewrite Hout. reflexivity.
  - intros [|[|[|t]]] i; try (destruct i; vm_compute; reflexivity). unfold cbtick, get_thread. cbn [thr]. rewrite Hout. reflexivity.
  - left; reflexivity.
  - vm_compute; reflexivity.
Qed.

(** t0 unlocks with waiters: CAS -2, dequeue t1, clear the bit: t1 is in hand and the bit is clear
    (the second disjunct of (d)), then the push; a barging trylock of t2 fails / succeeds *)
Definition sched_unlock : list (nat * ev) :=
  [(0, ECall Lock); (0, ETick); (0, ETick); (0, ERet 0%Z);
   (1, ECall Lock); (1, ETick); (1, ETick); (1, ECbTick 0);
   (2, ECall TryLock); (2, ETick); (2, ERet EBUSY);
   (0, ECall Unlock); (0, ETick); (0, ETick); (0, ETick); (0, ETick)].
Definition st_hand := run step sched_unlock (init_state 3 1).
Example ex_hand :
  mword st_hand = 0%Z /\ mq st_hand = [] /\ SD st_hand = 0 /\
  (exists th, get_thread st_hand 0 = Some th /\ main th = Unl (UPush 0 1) /\ in_hand th 1) /\
  (exists th k, get_thread st_hand 1 = Some th /\ main th = Susp k).
Proof.
  pose (s := st_hand). assert (Es : st_hand = s) by reflexivity. vm_compute in s. rewrite Es. subst s.
  split; [reflexivity|]. split; [reflexivity|]. split; [vm_compute; reflexivity|]. split.
  - eexists. split; [reflexivity|]. split; [reflexivity|]. right; left. exists 0%Z. left. reflexivity.
  - eexists _, _. split; reflexivity.
Qed.

Example ex_spin :   (* the unlocker did -2 while the sleeper has not yet enqueued: D = 1, R = 1 *)
  let s := run step [(0, ECall Lock); (0, ETick); (0, ETick); (0, ERet 0%Z);
                     (1, ECall Lock); (1, ETick); (1, ETick);
                     (0, ECall Unlock); (0, ETick); (0, ETick); (0, ETick)] (init_state 3 1) in
  SD s = 1 /\ SR s = 1 /\ mq s = [] /\ mword s = 1%Z.
Proof. vm_compute. repeat split; reflexivity. Qed.

Example ex_marks :
  marks (sched_unlock ++ [(0, ETick); (0, ERet 0%Z); (1, ETick); (1, ETick); (1, ERet 0%Z);
                          (1, ECall Unlock); (1, ETick); (1, ETick)]) (init_state 3 1)
  = [Acq 0; Clr 0; Acq 1; Clr 1].
Proof. vm_compute. reflexivity. Qed.

(** the callback-unlock path: t0 locks and cond-waits; its callback enqueues on the condition
    queue and unlocks on its behalf; t1 then acquires *)
Example ex_marks_cond :
  marks [(0, ECall Lock); (0, ETick); (0, ETick); (0, ERet 0%Z);
         (0, ECall (CondWait 0)); (0, ECbTick 0); (0, ECbTick 0); (0, ECbTick 0);
         (1, ECall TryLock); (1, ETick); (1, ETick); (1, ERet 0%Z)] (init_state 3 1)
  = [Acq 0; Clr 0; Acq 1].
Proof. vm_compute. reflexivity. Qed.

Example ex_trylock_busy :
  let s := run step [(0, ECall Lock); (0, ETick); (0, ETick); (0, ERet 0%Z); (2, ECall TryLock)] (init_state 3 1) in
  exists th s' th', get_thread s 2 = Some th /\ in_try (main th) = true /\ tick s 2 = Some s' /\
                    get_thread s' 2 = Some th' /\ main th' = Done EBUSY /\ Z.odd (mword s) = true.
Proof. vm_compute. eexists _, _, _. repeat split; reflexivity. Qed.

(* ---------------------------------------------------------------------------------------- *)
(** "each lock call eventually returns": what holds WITHOUT scheduler fairness (possibility of
    progress), and why nothing stronger is claimed (starvation witness).  [runs s sched = Some s']:
    every step of [sched] is enabled; then [run step sched s = s']. *)

(** all operations, every reachable state: an awake locker on a free mutex acquires within three
    steps of its own *)
Theorem C04_lock_progress_free : forall s t th k, reachable init step s ->
  get_thread s t = Some th ->
  (main th = LockRead k \/ (exists w, main th = LockCas1 k w) \/ (exists w, main th = LockCas2 k w)) ->
  Z.even (mword s) = true ->
  exists n s', n <= 3 /\ runs s (repeat (t, ETick) n) = Some s' /\ run step (repeat (t, ETick) n) s = s' /\
    holds s' t = true /\ exists th', get_thread s' t = Some th' /\ main th' = acquired k.
Proof. exact lock_progress_free. Qed.
Print Assumptions C04_lock_progress_free.

(** _partial (quiescent-holder case): mutex free, every thread idle / inside lock, trylock,
    timedlock / between calls ([FQ]: nobody inside unlock, a condition wait or a felock operation).
    Then for every thread inside lock() - awake, asleep in the sleep queue, or with its enqueue
    pending - there is a schedule of at most 10 * nthreads + 4 enabled steps after which that call
    has acquired (pc [Done 0], owner).  This is POSSIBILITY of progress: an adversarial scheduler
    can still starve the call ([C04_starvation_possible]).  Missing for the full statement: states
    with a holder at an arbitrary position, under the hypothesis that it releases. *)
Theorem C04_lock_progress_partial : forall s t, reachable init step s ->
  (forall u th, get_thread s u = Some th -> qpc (main th) = true /\ forallb mcb (cbs th) = true) ->
  Z.even (mword s) = true ->
  ((exists th, get_thread s t = Some th /\ is_lock_pc (main th) ALRet) \/ In t (mq s) \/
   (exists th i, get_thread s t = Some th /\ nth_error (cbs th) i = Some (CbEnq QM false))) ->
  exists sched s', length sched <= 10 * length (thr s) + 4 /\
    runs s sched = Some s' /\ run step sched s = s' /\
    exists th, get_thread s' t = Some th /\ main th = Done 0 /\ own th = true.
Proof. exact lock_progress_partial. Qed.
Print Assumptions C04_lock_progress_partial.

(** starvation: from the reachable state [starve_state] (t0 holds, t1 asleep in the queue) the cycle
    [starve_cycle] (28 enabled steps: the holder releases and wakes t1, the third thread barges, t1
    finds the bit set and sleeps again; then the same with the roles of t0 and t2 exchanged) leads
    back to the same state: repeated for ever, every thread keeps taking steps, the mutex is released
    and acquired twice per round, and t1's lock() call never returns.  So "eventually returns" needs
    more than weak fairness of the scheduler (a hand-off or a bounded-barging rule the code
    deliberately does not have). *)
Theorem C04_starvation_possible : forall n,
  runs starve_state (iterate n starve_cycle) = Some starve_state /\
  In 1 (mq starve_state) /\ reachable init step starve_state /\
  (forall t, In t [0; 1; 2] -> exists e, In (t, e) starve_cycle).
Proof. exact starvation_possible. Qed.
Print Assumptions C04_starvation_possible.

Example ex_starve_marks :    (* two releases and two barging acquisitions per round; t1 never acquires *)
  marks starve_cycle starve_state = [Clr 0; Acq 2; Clr 2; Acq 0] /\ length starve_cycle = 28 /\
  mword starve_state = 3%Z /\ holds starve_state 0 = true.
Proof. vm_compute. repeat split; reflexivity. Qed.

Example ex_progress_partial_hyp :     (* the hypotheses of the partial theorem are satisfiable with a sleeper *)
  let s := run step [(0, ECall Lock); (0, ETick); (0, ETick); (0, ERet 0%Z); (1, ECall Lock); (1, ETick); (1, ETick); (1, ECbTick 0);
                     (2, ECall Lock); (2, ETick); (2, ETick);
                     (0, ECall Unlock); (0, ETick); (0, ETick); (0, ETick); (0, ETick); (0, ETick); (0, ERet 0%Z);
                     (2, ECbTick 0)] (init_state 3 1) in
  Z.even (mword s) = true /\ mword s = 2%Z /\ mq s = [2] /\ holds s 0 = false /\ holds s 1 = false /\
  forallb (fun th => qpc (main th) && forallb mcb (cbs th)) (thr s) = true.
Proof. vm_compute. repeat split; reflexivity. Qed.
