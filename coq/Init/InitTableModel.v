(** C15 (d) — which public entry points initialise the library before they touch worker state.

    The data ([funcs], [entries]) is regenerated from the current sources on every run by
    tools/props/c15_translate.py (gcc -E of the library's translation units; include/myth/myth.h):
    for every function body, in textual order,

      EEnsure     call of myth_ensure_init / myth_ensure_init_ex / myth_init_ex_body
      EUse        use of worker state (myth_get_current_env, g_envs, g_envs_sz, g_worker_rank)
      ECall f     call of a function of the table
      EGuard      `if (g_myth_init_state == myth_init_state_uninit) return ...;`
      EReturn     a return statement
      EBlock b    a nested block or the conditional part of a statement: executed zero or more
                  times (if / else / loops / switch / ?: / && / ||)

    Everything that stands directly in a list is executed unconditionally, in order, when the list
    is executed.  This file is the executable checker; Init/InitTableProofs.v gives the path
    semantics and proves the checker sound. *)
From Coq Require Import List String Bool.
Import ListNotations.
Local Open Scope string_scope.

Inductive event :=
| EUse
| EEnsure
| ECall (f : string)
| EGuard
| EReturn
| EBlock (b : evlist)
with evlist :=
| ENil
| ECons (e : event) (r : evlist).

(** the generated data writes bodies as ordinary lists *)
Definition bl (l : list event) : evlist := fold_right ECons ENil l.

Record fn := { f_name : string; f_events : evlist }.
Record entry := { e_name : string; e_first : bool }.
(** [e_first]: the function can be the first library call of a process (it takes no thread handle,
    which only an earlier library call could have produced) *)

(** result of scanning a list that is entered while the library is uninitialised *)
Inductive cls :=
| Uses                 (* some path touches worker state while still uninitialised *)
| Safe (init : bool).  (* no such path; [init] = every completed execution ends initialised *)

Fixpoint lookup (funcs : list fn) (f : string) : option evlist :=
  match funcs with
  | [] => None
  | x :: r => if String.eqb (f_name x) f then Some (f_events x) else lookup r f
  end.

(** does the list contain a return (or the uninit guard) outside calls *)
Fixpoint may_return (evs : evlist) : bool :=
  match evs with
  | ENil => false
  | ECons e r =>
      match e with
      | EReturn => true
      | EGuard => true
      | EBlock b => may_return b || may_return r
      | _ => may_return r
      end
  end.

(** [fuel] bounds the call depth; running out of it is reported as [Uses] *)
Fixpoint scan (funcs : list fn) (fuel : nat) (evs : evlist) {struct fuel} : cls :=
  match fuel with
  | O => Uses
  | S f =>
    (fix go (evs : evlist) : cls :=
       match evs with
       | ENil => Safe false
       | ECons e r =>
           match e with
           | EUse => Uses
           | EEnsure => Safe true
           | EGuard => Safe false
           | EReturn => Safe false
           | EBlock b =>
               match go b with
               | Uses => Uses
               | Safe _ => match go r with
                           | Uses => Uses
                           | Safe i => Safe (i && negb (may_return b))
                           end
               end
           | ECall g =>
               match lookup funcs g with
               | None => go r                       (* no body in the table: libc, function pointers *)
               | Some body =>
                   match scan funcs f body with
                   | Uses => Uses
                   | Safe true => Safe true
                   | Safe false => go r
                   end
               end
           end
       end) evs
  end.

Definition classify (funcs : list fn) (fuel : nat) (name : string) : cls :=
  match lookup funcs name with
  | Some body => scan funcs fuel body
  | None => Uses
  end.

Definition is_safe (c : cls) : bool := match c with Uses => false | Safe _ => true end.

Fixpoint mem (x : string) (l : list string) : bool :=
  match l with [] => false | y :: r => String.eqb x y || mem x r end.

(** every entry that can be a first call is safe, except the [exempt] ones (known unprotected
    entry points, listed by hand and reported as candidate defects) *)
Definition init_table_ok (exempt : list string) (funcs : list fn) (entries : list entry) (fuel : nat) : bool :=
  forallb (fun e => negb (e_first e) || mem (e_name e) exempt || is_safe (classify funcs fuel (e_name e))) entries.

(** Entry points known to touch worker state without initialising the library although they can be a
    process's first call.  Empty since commit 34be022 (myth_exit and the myth_wsapi_runqueue_* functions
    were the members; see notes/C15.md).  The table check is stated modulo this list; [exempt_all_unsafe]
    would show that a non-empty list is not stale. *)
Definition known_unprotected : list string := [].

(** the exemptions are not stale: each exempt name is an entry that is really classified [Uses] *)
Definition exempt_all_unsafe (exempt : list string) (funcs : list fn) (entries : list entry) (fuel : nat) : bool :=
  forallb (fun x => existsb (fun e => String.eqb (e_name e) x) entries && negb (is_safe (classify funcs fuel x))) exempt.

Definition failing (exempt : list string) (funcs : list fn) (entries : list entry) (fuel : nat) : list string :=
  map e_name (filter (fun e => e_first e && negb (mem (e_name e) exempt) && negb (is_safe (classify funcs fuel (e_name e)))) entries).

Definition cls_code (c : cls) : nat := match c with Uses => 0 | Safe false => 1 | Safe true => 2 end.
Definition classes (funcs : list fn) (entries : list entry) (fuel : nat) : list (string * nat) :=
  map (fun e => (e_name e, cls_code (classify funcs fuel (e_name e)))) entries.
