(** C15 (b) — the MYTH_CPU_LIST parser and the worker-to-CPU table.

    Source: src/myth_bind_worker.c  cur_char / next_char / set_ok_pos / parse_error /
    int_list_add / parse_int / parse_range / parse_range_list / myth_parse_cpu_list /
    myth_get_available_cpus / myth_get_worker_cpu.

    Transliteration, one definition per C function.  The character stream
    [char_stream] is (rest of the string, position [i], [ok_pos]); the string
    ends at the end of the list or at a 0 byte ([cur_char] of an empty rest is 0).
    [next_char] contains the C assertion: the byte it refuses to step over is the
    argument [ac] - 0 in the current code (commit a5dd2b3), 10 (newline) before.
    An assertion failure is the outcome [AssertFail].  The three C loops run on
    explicit fuel; [OutOfFuel] is a distinguished outcome.  [int] arithmetic that
    can overflow ([x * 10 + d], [a + 1], [x += c]) wraps to 32 bits ([to_int]), which
    is what the -O0 build of the harness and of the library does (ISO C leaves it
    undefined; the functional theorems carry a no-overflow guard, the safety
    theorems hold for the wrapping model on all strings).  The output list
    [int_list] is (elements so far, newest first; count [i]; capacity [n]). *)
From Coq Require Import ZArith List Bool.
From MT Require Import Init.EnvModel.
Import ListNotations.
Local Open Scope Z_scope.

Inductive msg := ExpectedDigit | TooMany | Junk | MinusOne.
(** [MinusOne]: parse_int's result wrapped to exactly -1, which its callers take
    for the error value: failure without a parse_error diagnostic. *)

(** what parse_error prints: the message, [ok_pos] and [i] (the caret line has
    2 + ok_pos blanks and i - ok_pos carets) *)
Record diag := { d_msg : msg; d_ok : Z; d_i : Z }.

Inductive res (A : Type) :=
| Val (a : A)
| Err (d : diag)
| AssertFail
| OutOfFuel.
Arguments Val {A} a.
Arguments Err {A} d.
Arguments AssertFail {A}.
Arguments OutOfFuel {A}.

Definition bind {A B} (r : res A) (f : A -> res B) : res B :=
  match r with
  | Val a => f a
  | Err d => Err d
  | AssertFail => AssertFail
  | OutOfFuel => OutOfFuel
  end.

Record cstream := { cs_rest : bytes; cs_i : Z; cs_ok : Z }.
Record int_list := { il_a : list Z; il_i : Z; il_n : Z }.

Definition init_char_stream (s : bytes) : cstream := {| cs_rest := s; cs_i := 0; cs_ok := 0 |}.
Definition init_int_list (n : Z) : int_list := {| il_a := []; il_i := 0; il_n := n |}.

Definition int_list_add (il : int_list) (x : Z) : option int_list :=
  if il_i il <? il_n il
  then Some {| il_a := x :: il_a il; il_i := il_i il + 1; il_n := il_n il |}
  else None.

Definition cur_char (cs : cstream) : Z :=
  match cs_rest cs with c :: _ => c | [] => 0 end.

Definition next_char (ac : Z) (cs : cstream) : res cstream :=
  if cur_char cs =? ac then AssertFail
  else Val {| cs_rest := tl (cs_rest cs); cs_i := cs_i cs + 1; cs_ok := cs_ok cs |}.

Definition set_ok_pos (cs : cstream) : cstream :=
  {| cs_rest := cs_rest cs; cs_i := cs_i cs; cs_ok := cs_i cs |}.

Definition parse_error {A} (cs : cstream) (m : msg) : res A :=
  Err {| d_msg := m; d_ok := cs_ok cs; d_i := cs_i cs |}.

(** [while (isdigit(cur_char(cs))) { n_digits++; x = x * 10 + (cur_char(cs) - '0'); next_char(cs); }] *)
Fixpoint parse_int_loop (ac : Z) (fuel : nat) (cs : cstream) (x nd : Z) : res (cstream * Z * Z) :=
  match fuel with
  | O => OutOfFuel
  | S f =>
    if is_digit (cur_char cs)
    then bind (next_char ac cs) (fun cs' =>
           parse_int_loop ac f cs' (to_int (x * 10 + (cur_char cs - 48))) (nd + 1))
    else Val (cs, x, nd)
  end.

Definition parse_int (ac : Z) (fuel : nat) (cs : cstream) : res (cstream * Z) :=
  bind (parse_int_loop ac fuel cs 0 0) (fun r =>
    let '(cs', x, nd) := r in
    if nd =? 0 then parse_error cs' ExpectedDigit else Val (cs', x)).

(** [for (x = a; x < b; x += c) if (!int_list_add(il, x)) { parse_error(...); return 0; }] *)
Fixpoint range_loop (fuel : nat) (cs : cstream) (il : int_list) (x b c : Z) : res int_list :=
  match fuel with
  | O => OutOfFuel
  | S f =>
    if x <? b
    then match int_list_add il x with
         | Some il' => range_loop f cs il' (to_int (x + c)) b c
         | None => parse_error cs TooMany
         end
    else Val il
  end.

(** a caller's [if (v == -1) return 0;] *)
Definition check_m1 {A} (cs : cstream) (v : Z) (k : res A) : res A :=
  if v =? -1 then parse_error cs MinusOne else k.

Definition parse_range (ac : Z) (fs fl : nat) (cs : cstream) (il : int_list)
  : res (cstream * int_list) :=
  bind (parse_int ac fs cs) (fun r1 =>
    let (cs1, a) := r1 in
    check_m1 cs1 a
      (if cur_char cs1 =? 45
       then bind (next_char ac cs1) (fun cs2 =>
            bind (parse_int ac fs cs2) (fun r3 =>
              let (cs3, b) := r3 in
              check_m1 cs3 b
                (if cur_char cs3 =? 58
                 then bind (next_char ac cs3) (fun cs4 =>
                      bind (parse_int ac fs cs4) (fun r5 =>
                        let (cs5, c) := r5 in
                        check_m1 cs5 c
                          (bind (range_loop fl cs5 il a b c) (fun il' => Val (cs5, il')))))
                 else bind (range_loop fl cs3 il a b 1) (fun il' => Val (cs3, il')))))
       else bind (range_loop fl cs1 il a (to_int (a + 1)) 1) (fun il' => Val (cs1, il')))).

(** [while (cur_char(cs) == ',') { next_char(cs); if (!parse_range(cs, il)) return 0; set_ok_pos(cs); }
     if (cur_char(cs) != '\0') { next_char(cs); parse_error(cs, "junk ..."); return 0; } return 1;] *)
Fixpoint range_list_loop (ac : Z) (fuel fs fl : nat) (cs : cstream) (il : int_list) : res int_list :=
  match fuel with
  | O => OutOfFuel
  | S f =>
    if cur_char cs =? 44
    then bind (next_char ac cs) (fun cs1 =>
         bind (parse_range ac fs fl cs1 il) (fun r =>
           let (cs2, il2) := r in
           range_list_loop ac f fs fl (set_ok_pos cs2) il2))
    else if cur_char cs =? 0 then Val il
    else bind (next_char ac cs) (fun cs1 => parse_error cs1 Junk)
  end.

Definition parse_range_list (ac : Z) (fuel fs fl : nat) (cs : cstream) (il : int_list) : res int_list :=
  bind (parse_range ac fs fl cs il) (fun r =>
    let (cs1, il1) := r in
    range_list_loop ac fuel fs fl (set_ok_pos cs1) il1).

(** fuel that always suffices (proved): one unit per byte plus one, one unit
    per list cell plus one *)
Definition str_fuel (s : bytes) : nat := S (length s).
Definition list_fuel (n : Z) : nat := S (Z.to_nat n).

(** [myth_parse_cpu_list]: [Val l] = the C function returns [length l] having
    stored [l]; [Err] = it returns -1 *)
Definition parse_cpu_list_gen (ac : Z) (e : option bytes) (n : Z) : res (list Z) :=
  match e with
  | None => Val []
  | Some s =>
    bind (parse_range_list ac (str_fuel s) (str_fuel s) (list_fuel n)
                           (init_char_stream s) (init_int_list n))
         (fun il => Val (rev (il_a il)))
  end.

Definition parse_cpu_list := parse_cpu_list_gen 0.            (* current code *)
Definition parse_cpu_list_prefix := parse_cpu_list_gen 10.    (* before commit a5dd2b3 *)

(** [myth_get_available_cpus]: the table [worker_cpu]; [ncpu] = sysconf's
    answer (-1: unknown), [aff] = CPU_ISSET on the affinity mask (false outside
    the mask's range) *)
Definition specified_cpus (r : res (list Z)) (ncpu : Z) : list Z :=
  let l := match r with Val l => l | _ => [] end in
  match l with
  | [] => ranks_from 0 (Z.to_nat ncpu)
  | _ => l
  end.

Definition available_cpus (r : res (list Z)) (ncpu : Z) (aff : Z -> bool) : list Z :=
  filter aff (specified_cpus r ncpu).

(** [myth_get_worker_cpu]: -1 = do not bind *)
Definition worker_cpu (tbl : list Z) (rank : Z) : Z :=
  match tbl with
  | [] => -1
  | _ => nth (Z.to_nat (Z.rem rank (Z.of_nat (length tbl)))) tbl (-1)
  end.
