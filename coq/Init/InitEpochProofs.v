(** C15 (c) — further consequences of the protocol invariant: a new epoch can
    start with different attributes; finalisation leaves the migration loop on
    worker 0 with every exit flag raised (partial); the test-then-set variant of
    the election initialises twice. *)
From Coq Require Import ZArith List Bool Lia Arith.
From MT Require Import Lib.Interleave Init.InitProtoModel Init.InitProtoProofs.
Import ListNotations.
Local Open Scope Z_scope.

Lemma nth_error_set_same {A} (l : list A) i x : nth_error l i <> None -> nth_error (set_nth l i x) i = Some x.
Proof. intros H. rewrite nth_error_set_nth by exact H. rewrite Nat.eqb_refl. reflexivity. Qed.

Lemma set_nth_set_nth {A} (l : list A) : forall i x y, set_nth (set_nth l i x) i y = set_nth l i y.
Proof.
  induction l as [|z l IH]; intros i x y; cbn [set_nth]; [reflexivity|].
  destruct i as [|j]; cbn [set_nth]; [reflexivity|]. rewrite IH. reflexivity.
Qed.

(** from the uninitialised state any idle caller can start a new epoch, alone,
    with the worker count of its attribute: five of its own steps *)
Theorem new_epoch s i t a d :
  st s = 0 -> nth_error (threads s) i = Some t -> t_pc t = Idle -> no_fini s = true ->
  let s' := run step [(i, Call (OpInit (Some a) d)); (i, Tick); (i, Tick); (i, Tick); (i, Tick)] s in
  st s' = 2 /\ nworkers s' = a /\ gnw s' = Some a /\ flags s' = start_flags a /\
  n_really s' = S (n_really s) /\ n_fini s' = n_fini s /\ result s' i = Some 1 /\ rank_of s' i = 0.
Proof.
  intros Hst Hn Hpc Hnf. cbn zeta.
  assert (Hne : nth_error (threads s) i <> None) by (rewrite Hn; discriminate).
  set (t1 := at_pc t (IRead (Some a) d)).
  set (s1 := with_thread s i t1).
  assert (E1 : exec1 step s (i, Call (OpInit (Some a) d)) = s1).
  { unfold exec1, step. rewrite Hn, Hpc, Hnf. reflexivity. }
  assert (Hn1 : nth_error (threads s1) i = Some t1)
    by (unfold s1; cbn [threads with_thread]; apply nth_error_set_same; exact Hne).
  set (t2 := at_pc t1 (ICas (Some a) d)).
  set (s2 := with_thread s1 i t2).
  assert (E2 : exec1 step s1 (i, Tick) = s2).
  { unfold exec1, step. rewrite Hn1. unfold t1 at 1. cbn [t_pc at_pc].
    replace (st s1) with 0 by (unfold s1; cbn [st with_thread]; lia). reflexivity. }
  assert (Hn2 : nth_error (threads s2) i = Some t2).
  { unfold s2; cbn [threads with_thread]. apply nth_error_set_same. rewrite Hn1. discriminate. }
  set (t3 := at_pc t2 (IReally (Some a) d)).
  set (s3 := {| st := 1; gnw := gnw s2; nworkers := nworkers s2; flags := flags s2; n_cas := S (n_cas s2);
                n_really := n_really s2; n_fini := n_fini s2; threads := set_nth (threads s2) i t3 |}).
  assert (E3 : exec1 step s2 (i, Tick) = s3).
  { unfold exec1, step. rewrite Hn2. unfold t2 at 1. cbn [t_pc at_pc].
    replace (st s2) with 0 by (unfold s2, s1; cbn [st with_thread]; lia). reflexivity. }
  assert (Hn3 : nth_error (threads s3) i = Some t3).
  { unfold s3; cbn [threads]. apply nth_error_set_same. rewrite Hn2. discriminate. }
  set (t4 := {| t_pc := IPublish; t_rank := Some 0 |}).
  set (s4 := {| st := st s3; gnw := Some a; nworkers := a; flags := start_flags a; n_cas := n_cas s3;
                n_really := S (n_really s3); n_fini := n_fini s3; threads := set_nth (threads s3) i t4 |}).
  assert (E4 : exec1 step s3 (i, Tick) = s4).
  { unfold exec1, step. rewrite Hn3. unfold t3 at 1. cbn [t_pc at_pc effective_nw]. reflexivity. }
  assert (Hn4 : nth_error (threads s4) i = Some t4).
  { unfold s4; cbn [threads]. apply nth_error_set_same. rewrite Hn3. discriminate. }
  set (s5 := {| st := 2; gnw := gnw s4; nworkers := nworkers s4; flags := flags s4; n_cas := n_cas s4;
                n_really := n_really s4; n_fini := n_fini s4; threads := set_nth (threads s4) i (at_pc t4 (DoneI 1)) |}).
  assert (E5 : exec1 step s4 (i, Tick) = s5).
  { unfold exec1, step. rewrite Hn4. unfold t4 at 1. cbn [t_pc at_pc]. reflexivity. }
  unfold run. cbn [fold_left]. rewrite E1, E2, E3, E4, E5.
  unfold result, rank_of. unfold s5 at 7 8. cbn [threads].
  rewrite nth_error_set_same by (rewrite Hn4; discriminate). cbn [t_pc t_rank at_pc t4].
  unfold s5, s4, s3, s2, s1; cbn [st nworkers gnw flags n_really n_fini threads with_thread].
  repeat split; reflexivity.
Qed.

(** ** finalisation: on worker 0 with the exit flags raised (partial) *)
Lemma raise_start_flags nw : raise_flags (start_flags nw) = (-1) :: repeat 1 (Z.to_nat (nw - 1)).
Proof.
  unfold raise_flags, start_flags. cbn [map]. change (-1 =? 0) with false. cbn iota. f_equal.
  induction (Z.to_nat (nw - 1)) as [|k IH]; cbn [repeat map]; [reflexivity|]. rewrite IH. reflexivity.
Qed.

Theorem fini_on_worker0_partial n s : reachable (initial n) step s ->
  forall i t, nth_error (threads s) i = Some t ->
  (* once the migration loop has been left the caller runs on worker 0 *)
  (t_pc t = FFlags \/ t_pc t = FJoin -> t_rank t = Some 0) /\
  (* and after myth_notify_workers_exit every worker other than 0 has exit_flag = 1 (worker 0 keeps its -1) *)
  (t_pc t = FJoin -> st s = 2 /\ flags s = (-1) :: repeat 1 (Z.to_nat (nworkers s - 1))) /\
  (* while it is in the loop or about to raise the flags nothing has been torn down *)
  (t_pc t = FMigrate \/ t_pc t = FFlags -> st s = 2 /\ flags s = start_flags (nworkers s) /\ n_really s = S (n_fini s)).
Proof.
  intros Hr i t Hi. pose proof (inv_reachable n s Hr) as HI. pose proof (local_reachable n s Hr i t Hi) as [HL _].
  pose proof (cntl_total (threads s)) as Htot.
  split; [exact HL|]. split.
  - intros Hpc.
    assert (H10 : (1 <= cntl 10 (threads s))%nat)
      by (apply (cntl_ge1 10 (threads s) i t Hi); unfold klass; rewrite Hpc; reflexivity).
    by_phase HI; try (exfalso; lia). split; [assumption|]. rewrite <- raise_start_flags. assumption.
  - intros Hpc.
    assert (H89 : (1 <= cntl 8 (threads s) + cntl 9 (threads s))%nat).
    { destruct Hpc as [Hpc|Hpc].
      - pose proof (cntl_ge1 8 (threads s) i t Hi) as H. unfold klass in H. rewrite Hpc in H. specialize (H eq_refl). lia.
      - pose proof (cntl_ge1 9 (threads s) i t Hi) as H. unfold klass in H. rewrite Hpc in H. specialize (H eq_refl). lia. }
    by_phase HI; try (exfalso; lia). repeat split; assumption.
Qed.

(** ** the election by a plain test followed by a plain store initialises twice *)
Definition ts_init (n : nat) : state_ts := {| ts_st := 0; ts_really := 0; ts_threads := repeat TIdle n |}.
Definition run_ts (sched : list (nat * ev_ts)) (s : state_ts) : state_ts :=
  fold_left (fun s a => match step_ts s a with Some s' => s' | None => s end) sched s.

Lemma test_then_set_refuted :
  exists sched, ts_really (run_ts sched (ts_init 2)) = 2%nat.
Proof.
  exists [(0%nat, TCall None 4); (1%nat, TCall None 4); (0%nat, TTick); (1%nat, TTick); (0%nat, TTick); (1%nat, TTick);
          (0%nat, TTick); (1%nat, TTick); (0%nat, TTick); (1%nat, TTick)].
  vm_compute. reflexivity.
Qed.

(** ** an initialisation call on an initialised library is ignored *)

Lemma option_Z_eq_dec (x y : option Z) : {x = y} + {x <> y}.
Proof. decide equality. apply Z.eq_dec. Qed.

(** [myth_init()] / [myth_init_ex(&attr)] called while the state is "initialized": two steps of the
    caller (the call, the state test); it returns 1 and nothing else changes - not the library's
    attribute object, not the workers, not the counters, not the other callers *)
Theorem reinit_ignored s i t a d :
  st s = 2 -> nth_error (threads s) i = Some t -> t_pc t = Idle -> no_fini s = true ->
  let s' := run step [(i, Call (OpInit a d)); (i, Tick)] s in
  st s' = 2 /\ gnw s' = gnw s /\ nworkers s' = nworkers s /\ flags s' = flags s /\
  n_cas s' = n_cas s /\ n_really s' = n_really s /\ n_fini s' = n_fini s /\
  result s' i = Some 1 /\ rank_of s' i = rank_of s i /\
  threads s' = set_nth (threads s) i {| t_pc := DoneI 1; t_rank := t_rank t |}.
Proof.
  intros Hst Hn Hpc Hnf. cbn zeta.
  assert (Hne : nth_error (threads s) i <> None) by (rewrite Hn; discriminate).
  set (t1 := at_pc t (IRead a d)).
  set (s1 := with_thread s i t1).
  assert (E1 : exec1 step s (i, Call (OpInit a d)) = s1).
  { unfold exec1, step. rewrite Hn, Hpc, Hnf. reflexivity. }
  assert (Hn1 : nth_error (threads s1) i = Some t1)
    by (unfold s1; cbn [threads with_thread]; apply nth_error_set_same; exact Hne).
  set (s2 := with_thread s1 i (at_pc t1 (DoneI 1))).
  assert (E2 : exec1 step s1 (i, Tick) = s2).
  { unfold exec1, step. rewrite Hn1. unfold t1 at 1. cbn [t_pc at_pc].
    replace (st s1) with 2 by (unfold s1; cbn [st with_thread]; lia). reflexivity. }
  unfold run. cbn [fold_left]. rewrite E1, E2.
  unfold result, rank_of, s2, s1. cbn [st gnw nworkers flags n_cas n_really n_fini threads with_thread].
  rewrite set_nth_set_nth. rewrite nth_error_set_same by exact Hne. rewrite Hn.
  unfold t1. cbn [t_pc t_rank at_pc]. repeat split; assumption || reflexivity.
Qed.

(** in any interleaving, the library's attribute object and the worker set are written only by the
    real initialisation (reached only through the CAS from "uninit"), by the tear-down, and by the
    attribute setter (enabled only while uninitialised) *)
Theorem attr_written_only_by_really s i e s' t :
  step s (i, e) = Some s' -> nth_error (threads s) i = Some t ->
  gnw s' <> gnw s \/ nworkers s' <> nworkers s ->
  (exists a d, t_pc t = IReally a d) \/ t_pc t = FJoin \/ (exists n, e = Call (OpSetNW n) /\ st s = 0).
Proof.
  intros Hs Hn Hch. unfold step in Hs. rewrite Hn in Hs.
  destruct e as [[a d| |n|r]| |r|]; destruct (t_pc t) eqn:Hpc; try discriminate;
    repeat match type of Hs with
           | (if ?b then _ else _) = _ => destruct b eqn:?; try discriminate
           end;
    injection Hs as Hs; subst s'; cbn [gnw nworkers with_thread] in Hch;
    try (destruct Hch as [Hch|Hch]; contradiction Hch; reflexivity).
  - right. right. exists n. split; [reflexivity|].
    match goal with H : (_ && (st s =? 0)) = true |- _ => apply andb_prop in H; destruct H as [_ H]; apply Z.eqb_eq in H; exact H end.
  - left. eauto.
  - right. left. reflexivity.
Qed.

(** hence, in every reachable state in which the library is initialised, no step of any caller other than
    the tear-down of myth_fini changes the attribute object or the worker set - whatever initialisation
    calls are made, with whatever attributes, by whichever callers *)
Theorem initialised_attr_stable n s i e s' t : reachable (initial n) step s ->
  st s = 2 -> step s (i, e) = Some s' -> nth_error (threads s) i = Some t ->
  t_pc t = FJoin \/ (gnw s' = gnw s /\ nworkers s' = nworkers s).
Proof.
  intros Hr Hst Hs Hn.
  destruct (option_Z_eq_dec (gnw s') (gnw s)) as [Eg|Eg]; [destruct (Z.eq_dec (nworkers s') (nworkers s)) as [En|En]|].
  - right. split; assumption.
  - destruct (attr_written_only_by_really s i e s' t Hs Hn (or_intror En)) as [(a & d & Hpc)|[Hpc|(m & _ & H0)]].
    + exfalso. pose proof (inv_reachable n s Hr) as HI. pose proof (cntl_total (threads s)) as Htot.
      assert (H4 : (1 <= cntl 4 (threads s))%nat) by (apply (cntl_ge1 4 (threads s) i t Hn); unfold klass; rewrite Hpc; reflexivity).
      by_phase HI; lia.
    + left. exact Hpc.
    + lia.
  - destruct (attr_written_only_by_really s i e s' t Hs Hn (or_introl Eg)) as [(a & d & Hpc)|[Hpc|(m & _ & H0)]].
    + exfalso. pose proof (inv_reachable n s Hr) as HI. pose proof (cntl_total (threads s)) as Htot.
      assert (H4 : (1 <= cntl 4 (threads s))%nat) by (apply (cntl_ge1 4 (threads s) i t Hn); unfold klass; rewrite Hpc; reflexivity).
      by_phase HI; lia.
    + left. exact Hpc.
    + lia.
Qed.
