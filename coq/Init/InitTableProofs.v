(** C15 (d) — path semantics of the event lists and soundness of the checker of
    Init/InitTableModel.v.

    [exec funcs evs o]: an execution of the list [evs], entered while the library is uninitialised,
    has outcome [o]:
      OBad   it touched worker state while still uninitialised
      OInit  it reached an ensure-init call (from there on the library is initialised: C15_init_once)
      ONorm  it ran to the end of the list, still uninitialised
      ORet   it executed a return, still uninitialised
    A block is executed any number of times (zero included); an unknown callee has no effect; a callee
    that returns uninitialised lets the caller continue. *)
From Coq Require Import List String Bool.
From MT Require Import Init.InitTableModel.
Import ListNotations.
Local Open Scope string_scope.

Inductive outcome := OBad | OInit | ONorm | ORet.

Inductive exec (funcs : list fn) : evlist -> outcome -> Prop :=
| X_nil : exec funcs ENil ONorm
| X_use r : exec funcs (ECons EUse r) OBad
| X_ensure r : exec funcs (ECons EEnsure r) OInit
| X_guard r : exec funcs (ECons EGuard r) ORet
| X_return r : exec funcs (ECons EReturn r) ORet
| X_block_skip b r o : exec funcs r o -> exec funcs (ECons (EBlock b) r) o
| X_block_bad b r : exec funcs b OBad -> exec funcs (ECons (EBlock b) r) OBad
| X_block_init b r : exec funcs b OInit -> exec funcs (ECons (EBlock b) r) OInit
| X_block_ret b r : exec funcs b ORet -> exec funcs (ECons (EBlock b) r) ORet
| X_block_again b r o : exec funcs b ONorm -> exec funcs (ECons (EBlock b) r) o -> exec funcs (ECons (EBlock b) r) o
| X_call_unknown g r o : lookup funcs g = None -> exec funcs r o -> exec funcs (ECons (ECall g) r) o
| X_call_bad g body r : lookup funcs g = Some body -> exec funcs body OBad -> exec funcs (ECons (ECall g) r) OBad
| X_call_init g body r : lookup funcs g = Some body -> exec funcs body OInit -> exec funcs (ECons (ECall g) r) OInit
| X_call_back g body r o' o : lookup funcs g = Some body -> exec funcs body o' -> o' = ONorm \/ o' = ORet ->
                              exec funcs r o -> exec funcs (ECons (ECall g) r) o.

Lemma scan_cons funcs f e r :
  scan funcs (S f) (ECons e r) =
  match e with
  | EUse => Uses
  | EEnsure => Safe true
  | EGuard => Safe false
  | EReturn => Safe false
  | EBlock b =>
      match scan funcs (S f) b with
      | Uses => Uses
      | Safe _ => match scan funcs (S f) r with
                  | Uses => Uses
                  | Safe i => Safe (i && negb (may_return b))
                  end
      end
  | ECall g =>
      match lookup funcs g with
      | None => scan funcs (S f) r
      | Some body =>
          match scan funcs f body with
          | Uses => Uses
          | Safe true => Safe true
          | Safe false => scan funcs (S f) r
          end
      end
  end.
Proof. destruct e; reflexivity. Qed.

Lemma scan_nil funcs f : scan funcs (S f) ENil = Safe false.
Proof. reflexivity. Qed.

Lemma exec_ret_may_return funcs evs o : exec funcs evs o -> o = ORet -> may_return evs = true.
Proof.
  induction 1 as [ |r|r|r|r|b r o Hr IHr|b r Hb IHb|b r Hb IHb|b r Hb IHb|b r o Hb IHb Hr IHr
                 |g r o Hl Hr IHr|g body r Hl Hb IHb|g body r Hl Hb IHb|g body r o' o Hl Hb IHb Ho' Hr IHr];
    intros Ho; try discriminate; cbn [may_return]; try reflexivity.
  - rewrite (IHr Ho). apply orb_true_r.
  - rewrite (IHb eq_refl). reflexivity.
  - exact (IHr Ho).
  - exact (IHr Ho).
  - exact (IHr Ho).
Qed.

Lemma scan_sound funcs evs o : exec funcs evs o ->
  forall fuel i, scan funcs fuel evs = Safe i -> o <> OBad /\ (i = true -> o = OInit).
Proof.
  induction 1 as [ |r|r|r|r|b r o Hr IHr|b r Hb IHb|b r Hb IHb|b r Hb IHb|b r o Hb IHb Hr IHr
                 |g r o Hl Hr IHr|g body r Hl Hb IHb|g body r Hl Hb IHb|g body r o' o Hl Hb IHb Ho' Hr IHr];
    intros fuel i Hs; (destruct fuel as [|f]; [discriminate|]);
    try (rewrite scan_cons in Hs); try (rewrite scan_nil in Hs).
  - injection Hs as <-. split; [discriminate|discriminate].
  - discriminate.
  - injection Hs as <-. split; [discriminate|reflexivity].
  - injection Hs as <-. split; [discriminate|discriminate].
  - injection Hs as <-. split; [discriminate|discriminate].
  - (* block skipped *)
    destruct (scan funcs (S f) b) as [|ib]; [discriminate|].
    destruct (scan funcs (S f) r) as [|j] eqn:Er; [discriminate|]. injection Hs as <-.
    destruct (IHr (S f) j Er) as [H1 H2]. split; [exact H1|].
    intros Hi. apply andb_prop in Hi. apply H2. tauto.
  - (* block bad *)
    destruct (scan funcs (S f) b) as [|ib] eqn:Eb; [discriminate|].
    destruct (IHb (S f) ib Eb) as [H1 _]. contradiction H1; reflexivity.
  - split; [discriminate|reflexivity].
  - (* block returns *)
    destruct (scan funcs (S f) b) as [|ib]; [discriminate|].
    destruct (scan funcs (S f) r) as [|j]; [discriminate|]. injection Hs as <-.
    split; [discriminate|]. intros Hi. apply andb_prop in Hi. destruct Hi as [_ Hi].
    rewrite (exec_ret_may_return funcs b ORet Hb eq_refl) in Hi. discriminate.
  - (* block executed once more *)
    apply (IHr (S f) i). rewrite scan_cons. exact Hs.
  - rewrite Hl in Hs. exact (IHr (S f) i Hs).
  - (* callee bad *)
    rewrite Hl in Hs. destruct (scan funcs f body) as [|ib] eqn:Eb; [discriminate|].
    destruct (IHb f ib Eb) as [H1 _]. contradiction H1; reflexivity.
  - split; [discriminate|reflexivity].
  - (* callee returned uninitialised *)
    rewrite Hl in Hs. destruct (scan funcs f body) as [|ib] eqn:Eb; [discriminate|].
    destruct ib.
    + destruct (IHb f true Eb) as [_ H2]. specialize (H2 eq_refl). destruct Ho' as [Ho'|Ho']; rewrite Ho' in H2; discriminate.
    + exact (IHr (S f) i Hs).
Qed.

Lemma mem_false x l : mem x l = false -> ~ In x l.
Proof.
  induction l as [|y l IH]; cbn [mem In]; [tauto|]. intros H. apply orb_false_iff in H. destruct H as [H1 H2].
  intros [->|Hin]; [rewrite String.eqb_refl in H1; discriminate|exact (IH H2 Hin)].
Qed.

(** Soundness of the table check: an entry point that can be the first library call of a process
    and is not one of the listed exemptions has a body in the table, and NO execution of that body
    started with the library uninitialised touches worker state before an ensure-init call.  When the
    class is [Safe true], every such execution moreover reaches an ensure-init call. *)
Theorem init_table_sound exempt funcs entries fuel :
  init_table_ok exempt funcs entries fuel = true ->
  forall e, In e entries -> e_first e = true -> mem (e_name e) exempt = false ->
  exists body, lookup funcs (e_name e) = Some body /\
               (forall o, exec funcs body o -> o <> OBad) /\
               (classify funcs fuel (e_name e) = Safe true -> forall o, exec funcs body o -> o = OInit).
Proof.
  intros Hok e Hin Hfirst Hex. unfold init_table_ok in Hok. rewrite forallb_forall in Hok.
  specialize (Hok e Hin). rewrite Hfirst, Hex in Hok. cbn [negb orb] in Hok.
  unfold classify in *. destruct (lookup funcs (e_name e)) as [body|]; [|discriminate].
  exists body. split; [reflexivity|]. destruct (scan funcs fuel body) as [|i] eqn:Es; [discriminate|].
  split.
  - intros o Ho. exact (proj1 (scan_sound funcs body o Ho fuel i Es)).
  - intros Hc o Ho. injection Hc as ->. exact (proj2 (scan_sound funcs body o Ho fuel true Es) eq_refl).
Qed.

(** the checker is not vacuous: a body that uses the worker before ensuring is rejected, one that
    ensures first (directly or through a callee, also inside the block it shares with the use) passes *)
Example table_checker_example :
  let funcs := [ {| f_name := "get_env"; f_events := bl [EUse] |};
                 {| f_name := "good_body"; f_events := bl [ECall "ensure_wrapper"; ECall "get_env"] |};
                 {| f_name := "ensure_wrapper"; f_events := bl [EEnsure] |};
                 {| f_name := "bad_body"; f_events := bl [EBlock (bl [EEnsure]); ECall "get_env"] |};
                 {| f_name := "block_body"; f_events := bl [EBlock (bl [EEnsure; ECall "get_env"])] |};
                 {| f_name := "early_return"; f_events := bl [EBlock (bl [EReturn]); EEnsure] |};
                 {| f_name := "relies_on_early_return"; f_events := bl [ECall "early_return"; EUse] |};
                 {| f_name := "guarded"; f_events := bl [EGuard; EUse] |} ] in
  map (fun n => cls_code (classify funcs 5 n))
      ["good_body"; "bad_body"; "block_body"; "early_return"; "relies_on_early_return"; "guarded"]
  = [2; 0; 1; 1; 0; 1]%nat.
Proof. vm_compute. reflexivity. Qed.
