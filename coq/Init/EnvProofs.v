(** C15 (a) — proofs about the environment model (Init/EnvModel.v). *)
From Coq Require Import ZArith List Bool Lia.
From MT Require Import Init.EnvModel.
Import ListNotations.
Local Open Scope Z_scope.

(** ** integer conversions *)
Lemma to_int_range z : -2147483648 <= to_int z < 2147483648.
Proof.
  unfold to_int. pose proof (Z.mod_pos_bound (z + 2147483648) 4294967296 ltac:(lia)). lia.
Qed.

Lemma to_int_id z : -2147483648 <= z < 2147483648 -> to_int z = z.
Proof. intros H. unfold to_int. rewrite Z.mod_small by lia. lia. Qed.

Lemma to_size_t_range z : 0 <= to_size_t z < 18446744073709551616.
Proof. unfold to_size_t. apply Z.mod_pos_bound. lia. Qed.

Lemma to_size_t_id z : 0 <= z < 18446744073709551616 -> to_size_t z = z.
Proof. intros H. unfold to_size_t. apply Z.mod_small. exact H. Qed.

Lemma to_size_t_neg z : -18446744073709551616 <= z < 0 -> to_size_t z = z + 18446744073709551616.
Proof.
  intros H. unfold to_size_t.
  replace z with (z + 18446744073709551616 + (-1) * 18446744073709551616) at 1 by lia.
  rewrite Z.mod_add by lia. apply Z.mod_small. lia.
Qed.

Lemma atoi_range s : -2147483648 <= atoi s < 2147483648.
Proof. apply to_int_range. Qed.

Lemma to_int_to_size_t z : -2147483648 <= z < 2147483648 -> to_int (to_size_t z) = z.
Proof.
  intros H. destruct (Z_lt_le_dec z 0) as [Hn|Hp].
  - rewrite to_size_t_neg by lia. unfold to_int.
    replace (z + 18446744073709551616 + 2147483648)
      with (z + 2147483648 + 4294967296 * 4294967296) by lia.
    rewrite Z.mod_add by lia. rewrite Z.mod_small by lia. lia.
  - rewrite to_size_t_id by lia. apply to_int_id. exact H.
Qed.

(** ** what a string without a number converts to *)
Definition has_number (s : bytes) : bool :=
  match snd (split_sign (skip_space s)) with
  | c :: _ => is_digit c
  | [] => false
  end.

Lemma digits_val_nodigit s acc :
  match s with c :: _ => is_digit c | [] => false end = false -> digits_val s acc = acc.
Proof. destruct s as [|c r]; cbn [digits_val]; [reflexivity|]. intros ->. reflexivity. Qed.

Lemma atoi_malformed s : has_number s = false -> atoi s = 0.
Proof.
  unfold has_number, atoi, strtol. destruct (split_sign (skip_space s)) as [neg s2]. cbn [snd].
  intros H. rewrite (digits_val_nodigit s2 0 H). destruct neg; reflexivity.
Qed.

(** ** meaning of [atoi] on a numeral: blanks, an optional sign, digits, anything *)
Definition dec_value (ds : list Z) : Z := fold_left (fun a c => a * 10 + (c - 48)) ds 0.

Lemma skip_space_app ws rest :
  forallb is_space ws = true ->
  match rest with c :: _ => is_space c | [] => false end = false ->
  skip_space (ws ++ rest) = rest.
Proof.
  induction ws as [|w ws IH]; cbn [app forallb skip_space]; intros Hw Hr.
  - destruct rest as [|c r]; [reflexivity|]. cbn [skip_space]. rewrite Hr. reflexivity.
  - apply andb_prop in Hw. destruct Hw as [Hw1 Hw2]. rewrite Hw1. apply IH; assumption.
Qed.

Lemma digits_val_app ds rest : forall acc,
  forallb is_digit ds = true ->
  match rest with c :: _ => is_digit c | [] => false end = false ->
  digits_val (ds ++ rest) acc = fold_left (fun a c => a * 10 + (c - 48)) ds acc.
Proof.
  induction ds as [|d ds IH]; cbn [app forallb digits_val fold_left]; intros acc Hd Hr.
  - apply digits_val_nodigit. exact Hr.
  - apply andb_prop in Hd. destruct Hd as [Hd1 Hd2]. rewrite Hd1. apply IH; assumption.
Qed.

Definition saturate (neg : bool) (v : Z) : Z :=
  if neg then Z.max LONG_MIN (- v) else Z.min LONG_MAX v.

Lemma is_digit_not_sign c : is_digit c = true -> (c =? 45) = false /\ (c =? 43) = false /\ is_space c = false.
Proof.
  unfold is_digit, is_space. intros H. apply andb_prop in H. destruct H as [H1 H2].
  apply Z.leb_le in H1. apply Z.leb_le in H2.
  repeat split.
  - apply Z.eqb_neq. lia.
  - apply Z.eqb_neq. lia.
  - apply orb_false_iff. split; [apply Z.eqb_neq; lia|].
    apply andb_false_iff. right. apply Z.leb_gt. lia.
Qed.

(** [sg] is the sign text: empty, "+" or "-" *)
Lemma atoi_numeral ws sg neg ds rest :
  forallb is_space ws = true ->
  (sg = [] /\ neg = false) \/ (sg = [43] /\ neg = false) \/ (sg = [45] /\ neg = true) ->
  forallb is_digit ds = true -> ds <> [] ->
  match rest with c :: _ => is_digit c | [] => false end = false ->
  atoi (ws ++ sg ++ ds ++ rest) = to_int (saturate neg (dec_value ds)).
Proof.
  intros Hws Hsg Hds Hne Hrest. unfold atoi, strtol. f_equal.
  destruct ds as [|d ds]; [contradiction|].
  assert (Hd : is_digit d = true) by (cbn [forallb] in Hds; apply andb_prop in Hds; tauto).
  destruct (is_digit_not_sign d Hd) as (Hm & Hp & Hsp).
  assert (Hskip : skip_space (ws ++ sg ++ (d :: ds) ++ rest) = sg ++ (d :: ds) ++ rest).
  { apply skip_space_app; [exact Hws|].
    destruct Hsg as [[-> _]|[[-> _]|[-> _]]]; cbn [app]; [exact Hsp|reflexivity|reflexivity]. }
  rewrite Hskip.
  destruct Hsg as [[-> ->]|[[-> ->]|[-> ->]]]; cbn [app split_sign].
  - rewrite Hm, Hp. unfold saturate, dec_value.
    change (d :: ds ++ rest) with ((d :: ds) ++ rest). rewrite digits_val_app by assumption. reflexivity.
  - change (43 =? 45) with false. change (43 =? 43) with true. cbn iota. unfold saturate, dec_value.
    change (d :: ds ++ rest) with ((d :: ds) ++ rest). rewrite digits_val_app by assumption. reflexivity.
  - change (45 =? 45) with true. cbn iota. unfold saturate, dec_value.
    change (d :: ds ++ rest) with ((d :: ds) ++ rest). rewrite digits_val_app by assumption. reflexivity.
Qed.

(** ** the default functions *)
Definition env_int (e : option bytes) : Z := match e with Some s => atoi s | None => 0 end.

Lemma stacksize_spec d e : 0 < d < 18446744073709551616 ->
  let r := default_stacksize d e in
  0 < r < 18446744073709551616 /\
  r = (if 0 <? env_int e then env_int e else d) /\
  (r < 2147483648 \/ r = d).
Proof.
  intros Hd. cbn zeta. unfold default_stacksize, env_int.
  destruct e as [s|].
  - pose proof (atoi_range s) as Ha.
    destruct (atoi s >? 0) eqn:E.
    + assert (Hp : 0 < atoi s) by (rewrite Z.gtb_ltb in E; apply Z.ltb_lt in E; exact E).
      rewrite to_size_t_id by lia.
      destruct (atoi s <=? 0) eqn:E2; [apply Z.leb_le in E2; lia|].
      destruct (0 <? atoi s) eqn:E3; [|apply Z.ltb_ge in E3; lia].
      repeat split; lia.
    + assert (Hp : atoi s <= 0) by (rewrite Z.gtb_ltb in E; apply Z.ltb_ge in E; exact E).
      change (0 <=? 0) with true. cbn iota. rewrite to_size_t_id by lia.
      destruct (0 <? atoi s) eqn:E3; [apply Z.ltb_lt in E3; lia|].
      repeat split; lia.
  - change (0 <=? 0) with true. change (0 <? 0) with false. cbn iota. rewrite to_size_t_id by lia.
    repeat split; lia.
Qed.

Lemma size_unsigned_spec d e : 0 < d < 18446744073709551616 ->
  let r := default_size_unsigned d e in
  0 < r < 18446744073709551616 /\
  (env_int e = 0 -> r = d) /\ (0 < env_int e -> r = env_int e) /\
  (env_int e < 0 -> r = env_int e + 18446744073709551616).
Proof.
  intros Hd. cbn zeta. unfold default_size_unsigned, env_int.
  destruct e as [s|].
  - pose proof (atoi_range s) as Ha. pose proof (to_size_t_range (atoi s)) as Hr.
    destruct (to_size_t (atoi s) <=? 0) eqn:E.
    + apply Z.leb_le in E. assert (Hz : to_size_t (atoi s) = 0) by lia.
      assert (atoi s = 0).
      { destruct (Z_lt_le_dec (atoi s) 0) as [Hn|Hp].
        - rewrite to_size_t_neg in Hz by lia. lia.
        - rewrite to_size_t_id in Hz by lia. exact Hz. }
      rewrite to_size_t_id by lia. repeat split; lia.
    + apply Z.leb_gt in E. split; [lia|].
      repeat split; intros H.
      * rewrite H in E. rewrite to_size_t_id in E by lia. lia.
      * apply to_size_t_id. lia.
      * apply to_size_t_neg. lia.
  - change (0 <=? 0) with true. cbn iota. rewrite to_size_t_id by lia. repeat split; lia.
Qed.

Definition requested_nw (e_nw e_wn : option bytes) : Z :=
  match e_nw with
  | Some s => atoi s
  | None => match e_wn with Some s => atoi s | None => 0 end
  end.

Lemma requested_nw_range e1 e2 : -2147483648 <= requested_nw e1 e2 < 2147483648.
Proof.
  unfold requested_nw. destruct e1 as [s|]; [apply atoi_range|]. destruct e2 as [s|]; [apply atoi_range|lia].
Qed.

Lemma num_workers_spec ncpu e1 e2 : 0 < ncpu < 2147483648 ->
  let r := default_num_workers ncpu e1 e2 in
  0 < r < 2147483648 /\
  r = (if 0 <? requested_nw e1 e2 then requested_nw e1 e2 else ncpu) /\
  to_int r = r.
Proof.
  intros Hn. cbn zeta. unfold default_num_workers. fold (requested_nw e1 e2).
  pose proof (requested_nw_range e1 e2) as Hr.
  destruct (requested_nw e1 e2 <=? 0) eqn:E.
  - apply Z.leb_le in E. rewrite to_int_id by lia. rewrite to_size_t_id by lia.
    destruct (0 <? requested_nw e1 e2) eqn:E2; [apply Z.ltb_lt in E2; lia|].
    rewrite to_int_id by lia. repeat split; lia.
  - apply Z.leb_gt in E. rewrite to_size_t_id by lia.
    destruct (0 <? requested_nw e1 e2) eqn:E2; [|apply Z.ltb_ge in E2; lia].
    rewrite to_int_id by lia. repeat split; lia.
Qed.

Lemma flag_spec d e :
  to_int (default_flag d e) = match e with Some s => atoi s | None => to_int d end.
Proof.
  unfold default_flag. destruct e as [s|]; apply to_int_to_size_t; [apply atoi_range|apply to_int_range].
Qed.

(** every default function, on every string: a positive value that fits its C
    type; a string without a number (or an unset variable) gives the built-in
    default *)
Record good_defaults (d : defaults) : Prop := {
  gd_stack : 0 < d_stack d < 18446744073709551616;
  gd_guard : 0 < d_guard d < 18446744073709551616 }.

Definition env_has_number (e : option bytes) : bool :=
  match e with Some s => has_number s | None => false end.

Lemma env_int_malformed e : env_has_number e = false -> env_int e = 0.
Proof. destruct e as [s|]; cbn [env_has_number env_int]; [apply atoi_malformed|reflexivity]. Qed.

Theorem env_total d ncpu ev : good_defaults d -> 0 < ncpu < 2147483648 ->
  let a := globalattr_init d ncpu ev in
  (* stack size: positive, the requested value if that is positive, else the default *)
  (0 < ga_stack a < 18446744073709551616 /\
   ga_stack a = (if 0 <? env_int (e_stksize ev) then env_int (e_stksize ev) else d_stack d) /\
   (ga_stack a < 2147483648 \/ ga_stack a = d_stack d)) /\
  (* worker count *)
  (0 < ga_nw a < 2147483648 /\
   ga_nw a = (if 0 <? requested_nw (e_num_workers ev) (e_worker_num ev)
              then requested_nw (e_num_workers ev) (e_worker_num ev) else ncpu)) /\
  (* guard size: positive; the default for 0 / no number *)
  (0 < ga_guard a < 18446744073709551616 /\
   (env_int (e_guardsize ev) = 0 -> ga_guard a = d_guard d) /\
   (0 < env_int (e_guardsize ev) -> ga_guard a = env_int (e_guardsize ev))) /\
  (* flags: the converted value, any int is usable *)
  (ga_bind a = match e_bind ev with Some s => atoi s | None => to_int (d_bind d) end /\
   ga_cf a = match e_child_first ev with Some s => atoi s | None => to_int (d_cf d) end /\
   ga_init a = 1) /\
  (* malformed => built-in default *)
  (env_has_number (e_stksize ev) = false -> ga_stack a = d_stack d) /\
  (env_has_number (e_guardsize ev) = false -> ga_guard a = d_guard d) /\
  (env_has_number (e_num_workers ev) = false -> env_has_number (e_worker_num ev) = false -> ga_nw a = ncpu) /\
  (forall s, e_bind ev = Some s -> has_number s = false -> binds a = false).
Proof.
  intros [Hs Hg] Hn. cbn zeta. unfold globalattr_init; cbn [ga_stack ga_guard ga_nw ga_bind ga_cf ga_init].
  pose proof (stacksize_spec (d_stack d) (e_stksize ev) Hs) as H1. cbn zeta in H1.
  pose proof (num_workers_spec ncpu (e_num_workers ev) (e_worker_num ev) Hn) as H2. cbn zeta in H2.
  pose proof (size_unsigned_spec (d_guard d) (e_guardsize ev) Hg) as H3. cbn zeta in H3.
  destruct H1 as (H1a & H1b & H1c). destruct H2 as (H2a & H2b & H2c). destruct H3 as (H3a & H3b & H3c & H3d).
  unfold default_bind_workers, default_child_first, default_guardsize. rewrite !flag_spec. rewrite H2c.
  split; [repeat split; try lia; assumption|].
  split; [split; [lia|exact H2b]|].
  split; [split; [lia|split; assumption]|].
  split; [repeat split|].
  split.
  { intros Hm. rewrite H1b. rewrite (env_int_malformed _ Hm). reflexivity. }
  split.
  { intros Hm. apply H3b. apply env_int_malformed. exact Hm. }
  split.
  { intros Hm1 Hm2. rewrite H2b.
    assert (Hz : requested_nw (e_num_workers ev) (e_worker_num ev) = 0).
    { unfold requested_nw. destruct (e_num_workers ev) as [s|].
      - apply atoi_malformed. exact Hm1.
      - destruct (e_worker_num ev) as [s|]; [apply atoi_malformed; exact Hm2|reflexivity]. }
    rewrite Hz. reflexivity. }
  intros s Hs' Hm. unfold binds; cbn [ga_bind]. rewrite Hs'. rewrite (atoi_malformed s Hm). reflexivity.
Qed.

(** the function as it was before commit 210245e hands out 2^64 - 1 for "-1" *)
Lemma stksize_prefix_refuted :
  exists s, has_number s = true /\ atoi s < 0 /\
            default_stacksize_prefix 131072 (Some s) = 18446744073709551615 /\
            default_stacksize 131072 (Some s) = 131072.
Proof. exists [45; 49]. vm_compute. repeat split; reflexivity. Qed.

(** the guard-size function still has that shape (the value is stored in the
    attribute and never used for an allocation) *)
Lemma guardsize_negative_latent :
  exists s, default_guardsize 4096 (Some s) = 18446744073709551615.
Proof. exists [45; 49]. vm_compute. reflexivity. Qed.

(** ** worker ranks *)
Lemma ranks_from_spec k : forall i r, In r (ranks_from i k) <-> i <= r < i + Z.of_nat k.
Proof.
  induction k as [|k IH]; intros i r; cbn [ranks_from In].
  - lia.
  - rewrite IH. lia.
Qed.

Lemma ranks_from_length k i : length (ranks_from i k) = k.
Proof. revert i. induction k as [|k IH]; intros i; cbn [ranks_from length]; [reflexivity|]. rewrite IH. reflexivity. Qed.

Lemma ranks_from_nodup k : forall i, NoDup (ranks_from i k).
Proof.
  induction k as [|k IH]; intros i; cbn [ranks_from]; constructor.
  - rewrite ranks_from_spec. lia.
  - apply IH.
Qed.

Lemma nodup_snoc (l : list Z) x : NoDup l -> ~ In x l -> NoDup (l ++ [x]).
Proof.
  induction l as [|y l IH]; cbn [app]; intros Hn Hx.
  - constructor; [intros []|constructor].
  - inversion Hn as [|y' l' Hy Hl]; subst. constructor.
    + intros Hin. apply in_app_or in Hin. destruct Hin as [Hin|[Hin|[]]]; [contradiction|].
      subst. apply Hx. left. reflexivity.
    + apply IH; [exact Hl|]. intros Hin. apply Hx. right. exact Hin.
Qed.

Lemma worker_ranks_spec nw : 0 < nw ->
  (forall r, In r (worker_ranks nw) <-> 0 <= r < nw) /\
  NoDup (worker_ranks nw) /\
  Z.of_nat (length (worker_ranks nw)) = nw.
Proof.
  intros Hn. unfold worker_ranks. split; [|split].
  - intros r. split.
    + intros Hin. apply in_app_or in Hin. destruct Hin as [Hin|[Hin|[]]].
      * apply ranks_from_spec in Hin. lia.
      * lia.
    + intros [H1 H2]. apply in_or_app. destruct (Z.eq_dec r 0) as [->|Hne].
      * right. left. reflexivity.
      * left. apply ranks_from_spec. lia.
  - apply nodup_snoc; [apply ranks_from_nodup|]. rewrite ranks_from_spec. lia.
  - rewrite app_length, ranks_from_length. cbn [length]. lia.
Qed.

Theorem workers_spec d ncpu ev attr g : 0 < ncpu < 2147483648 ->
  let a := effective_attr d ncpu ev attr g in
  ga_nw a = match attr with
            | Some a' => ga_nw a'
            | None => if ga_init g =? 0
                      then (if 0 <? requested_nw (e_num_workers ev) (e_worker_num ev)
                            then requested_nw (e_num_workers ev) (e_worker_num ev) else ncpu)
                      else ga_nw g
            end /\
  (attr = None -> ga_init g = 0 -> 0 < ga_nw a < 2147483648) /\
  (0 < ga_nw a ->
   (forall r, In r (worker_ranks (ga_nw a)) <-> 0 <= r < ga_nw a) /\
   NoDup (worker_ranks (ga_nw a)) /\
   Z.of_nat (length (worker_ranks (ga_nw a))) = ga_nw a).
Proof.
  intros Hn. cbn zeta.
  pose proof (num_workers_spec ncpu (e_num_workers ev) (e_worker_num ev) Hn) as H2. cbn zeta in H2.
  destruct H2 as (H2a & H2b & H2c).
  split; [|split].
  - unfold effective_attr. destruct attr as [a'|]; [reflexivity|].
    destruct (ga_init g =? 0); [|reflexivity].
    unfold globalattr_init; cbn [ga_nw]. rewrite H2c. exact H2b.
  - intros -> Hg. unfold effective_attr. rewrite Hg. change (0 =? 0) with true. cbn iota.
    unfold globalattr_init; cbn [ga_nw]. rewrite H2c. exact H2a.
  - apply worker_ranks_spec.
Qed.
