(** C15 (b) — proofs about the MYTH_CPU_LIST parser (Init/CpuListModel.v).

    Part 1: totality and safety on every string (no assertion failure, enough fuel,
            capacity respected, diagnostics point inside the string).
    Part 2: the pre-fix parser fails its assertion on "0\n".
    Part 3: soundness - an accepted string is a range list.
    Part 4: completeness - a range list is accepted and the result is the
            concatenation of the arithmetic progressions, or it does not fit.
    Part 5: the worker-to-CPU table. *)
From Coq Require Import ZArith List Bool Lia.
From MT Require Import Init.EnvModel Init.EnvProofs Init.CpuListModel.
Import ListNotations.
Local Open Scope Z_scope.

(** * Part 1: totality *)

(** [safe P D r]: [r] is a value satisfying [P] or an error whose diagnostic
    satisfies [D]; never an assertion failure, never out of fuel *)
Definition safe {A} (P : A -> Prop) (D : diag -> Prop) (r : res A) : Prop :=
  match r with
  | Val a => P a
  | Err d => D d
  | AssertFail => False
  | OutOfFuel => False
  end.

Lemma safe_bind {A B} (P : A -> Prop) (Q : B -> Prop) D (r : res A) (f : A -> res B) :
  safe P D r -> (forall a, P a -> safe Q D (f a)) -> safe Q D (bind r f).
Proof. destruct r as [a|d| |]; cbn [safe bind]; intros H Hf; auto. Qed.

Lemma safe_weaken {A} (P P' : A -> Prop) D (r : res A) :
  safe P D r -> (forall a, P a -> P' a) -> safe P' D r.
Proof. destruct r as [a|d| |]; cbn [safe]; intros H Hf; auto. Qed.

Section Total.
  Variable L : Z.   (* length of the whole string *)

  (** stream invariant: position + remaining length = L, 0 <= ok_pos <= i *)
  Definition cs_inv (cs : cstream) : Prop :=
    cs_i cs + Z.of_nat (length (cs_rest cs)) = L /\ 0 <= cs_ok cs <= cs_i cs.
  Definition diag_inv (d : diag) : Prop := 0 <= d_ok d <= d_i d /\ d_i d <= L.
  Definition il_inv (il : int_list) : Prop :=
    il_i il = Z.of_nat (length (il_a il)) /\ il_i il <= Z.max 0 (il_n il).

  Definition rlen (cs : cstream) : nat := length (cs_rest cs).

  Lemma cur_char_nonzero cs : cur_char cs <> 0 -> exists c r, cs_rest cs = c :: r /\ c = cur_char cs.
  Proof.
    unfold cur_char. destruct (cs_rest cs) as [|c r]; [intros H; contradiction H; reflexivity|].
    intros _. exists c, r. split; reflexivity.
  Qed.

  Lemma next_char_safe cs : cs_inv cs -> cur_char cs <> 0 ->
    safe (fun cs' => cs_inv cs' /\ S (rlen cs') = rlen cs /\ cs_ok cs' = cs_ok cs /\ cs_i cs' = cs_i cs + 1)
         diag_inv (next_char 0 cs).
  Proof.
    intros [Hl Ho] Hc. unfold next_char. destruct (cur_char cs =? 0) eqn:E; [apply Z.eqb_eq in E; contradiction|].
    destruct (cur_char_nonzero cs Hc) as (c & r & Hr & _).
    cbn [safe]. unfold cs_inv, rlen; cbn [cs_rest cs_i cs_ok]. rewrite Hr in *. cbn [tl length] in *.
    repeat split; lia.
  Qed.

  Lemma is_digit_nonzero c : is_digit c = true -> c <> 0.
  Proof. unfold is_digit. intros H. apply andb_prop in H. destruct H as [H _]. apply Z.leb_le in H. lia. Qed.

  Lemma parse_int_loop_safe fuel : forall cs x nd, cs_inv cs -> (rlen cs < fuel)%nat ->
    safe (fun r => let '(cs', _, _) := r in cs_inv cs' /\ (rlen cs' <= rlen cs)%nat /\ cs_ok cs' = cs_ok cs)
         diag_inv (parse_int_loop 0 fuel cs x nd).
  Proof.
    induction fuel as [|f IH]; intros cs x nd Hi Hf; [lia|]. cbn [parse_int_loop].
    destruct (is_digit (cur_char cs)) eqn:E.
    - eapply safe_bind; [apply next_char_safe; [exact Hi|apply is_digit_nonzero; exact E]|].
      intros cs' (Hi' & Hl' & Ho' & _). cbv beta.
      eapply safe_weaken; [apply IH; [exact Hi'|lia]|].
      intros [[cs'' x''] nd'']. intros (H1 & H2 & H3). repeat split; [apply H1|apply H1|apply H1|lia|congruence].
    - cbn [safe]. repeat split; try apply Hi; lia.
  Qed.

  Lemma parse_int_safe fuel cs : cs_inv cs -> (rlen cs < fuel)%nat ->
    safe (fun r => cs_inv (fst r) /\ (rlen (fst r) <= rlen cs)%nat /\ cs_ok (fst r) = cs_ok cs)
         diag_inv (parse_int 0 fuel cs).
  Proof.
    intros Hi Hf. unfold parse_int. eapply safe_bind; [apply parse_int_loop_safe; eassumption|].
    intros [[cs' x] nd] (H1 & H2 & H3).
    destruct (nd =? 0).
    - unfold parse_error. cbn [safe]. unfold diag_inv; cbn [d_ok d_i]. destruct H1 as [Ha Hb]. lia.
    - cbn [safe fst]. auto.
  Qed.

  Lemma int_list_add_inv il x il' : il_inv il -> int_list_add il x = Some il' ->
    il_inv il' /\ il_n il' = il_n il /\ il_i il' = il_i il + 1.
  Proof.
    unfold int_list_add, il_inv. intros [H1 H2]. destruct (il_i il <? il_n il) eqn:E; [|discriminate].
    apply Z.ltb_lt in E. intros H; inversion H; subst; clear H. cbn [il_a il_i il_n length].
    repeat split; lia.
  Qed.

  Lemma range_loop_safe fuel : forall cs il x b c, cs_inv cs -> il_inv il ->
    (Z.to_nat (il_n il - il_i il) < fuel)%nat ->
    safe (fun il' => il_inv il' /\ il_n il' = il_n il) diag_inv (range_loop fuel cs il x b c).
  Proof.
    induction fuel as [|f IH]; intros cs il x b c Hc Hi Hf; [lia|]. cbn [range_loop].
    destruct (x <? b).
    - destruct (int_list_add il x) as [il'|] eqn:E.
      + destruct (int_list_add_inv il x il' Hi E) as (Hi' & Hn & Hii).
        eapply safe_weaken; [apply IH; [exact Hc|exact Hi'|]|].
        * unfold int_list_add in E. destruct (il_i il <? il_n il) eqn:E2; [|discriminate].
          apply Z.ltb_lt in E2. rewrite Hn, Hii. lia.
        * intros il'' [H1 H2]. split; [exact H1|congruence].
      + unfold parse_error. cbn [safe]. unfold diag_inv; cbn [d_ok d_i]. destruct Hc as [Ha Hb]. lia.
    - cbn [safe]. auto.
  Qed.

  Lemma check_m1_safe {A} (P : A -> Prop) cs v (k : res A) :
    cs_inv cs -> safe P diag_inv k -> safe P diag_inv (check_m1 cs v k).
  Proof.
    intros Hc Hk. unfold check_m1. destruct (v =? -1); [|exact Hk].
    unfold parse_error. cbn [safe]. unfold diag_inv; cbn [d_ok d_i]. destruct Hc as [Ha Hb]. lia.
  Qed.

  Definition range_post (cs : cstream) (il : int_list) (r : cstream * int_list) : Prop :=
    cs_inv (fst r) /\ (rlen (fst r) <= rlen cs)%nat /\ cs_ok (fst r) = cs_ok cs /\
    il_inv (snd r) /\ il_n (snd r) = il_n il.

  Lemma parse_range_safe fs fl cs il : cs_inv cs -> il_inv il -> (rlen cs < fs)%nat ->
    (Z.to_nat (il_n il - il_i il) < fl)%nat ->
    safe (range_post cs il) diag_inv (parse_range 0 fs fl cs il).
  Proof.
    intros Hc Hi Hfs Hfl. unfold parse_range.
    eapply safe_bind; [apply parse_int_safe; eassumption|].
    intros [cs1 a] (Hc1 & Hl1 & Ho1). cbn [fst] in *. apply check_m1_safe; [exact Hc1|].
    assert (Hloop : forall cs' x b c, cs_inv cs' -> (rlen cs' <= rlen cs)%nat -> cs_ok cs' = cs_ok cs ->
              safe (range_post cs il) diag_inv (bind (range_loop fl cs' il x b c) (fun il' => Val (cs', il')))).
    { intros cs' x b c Hc' Hl' Ho'. eapply safe_bind; [apply range_loop_safe; eassumption|].
      intros il' [H1 H2]. cbn [safe]. unfold range_post; cbn [fst snd]. auto. }
    destruct (cur_char cs1 =? 45) eqn:E45; [|apply Hloop; assumption].
    apply Z.eqb_eq in E45.
    eapply safe_bind; [apply next_char_safe; [exact Hc1|lia]|].
    intros cs2 (Hc2 & Hl2 & Ho2 & _). cbv beta.
    eapply safe_bind; [apply parse_int_safe; [exact Hc2|lia]|].
    intros [cs3 b] (Hc3 & Hl3 & Ho3). cbn [fst] in *. apply check_m1_safe; [exact Hc3|].
    destruct (cur_char cs3 =? 58) eqn:E58; [|apply Hloop; [assumption|lia|congruence]].
    apply Z.eqb_eq in E58.
    eapply safe_bind; [apply next_char_safe; [exact Hc3|lia]|].
    intros cs4 (Hc4 & Hl4 & Ho4 & _). cbv beta.
    eapply safe_bind; [apply parse_int_safe; [exact Hc4|lia]|].
    intros [cs5 c] (Hc5 & Hl5 & Ho5). cbn [fst] in *. apply check_m1_safe; [exact Hc5|].
    apply Hloop; [assumption|lia|congruence].
  Qed.

  Lemma set_ok_pos_inv cs : cs_inv cs -> cs_inv (set_ok_pos cs) /\ rlen (set_ok_pos cs) = rlen cs.
  Proof. unfold cs_inv, set_ok_pos, rlen; cbn [cs_rest cs_i cs_ok]. intros [H1 H2]. repeat split; lia. Qed.

  Lemma range_list_loop_safe fuel : forall fs fl cs il, cs_inv cs -> il_inv il ->
    (rlen cs < fuel)%nat -> (rlen cs < fs)%nat -> (Z.to_nat (il_n il) < fl)%nat ->
    safe (fun il' => il_inv il' /\ il_n il' = il_n il) diag_inv (range_list_loop 0 fuel fs fl cs il).
  Proof.
    induction fuel as [|f IH]; intros fs fl cs il Hc Hi Hf Hfs Hfl; [lia|]. cbn [range_list_loop].
    destruct (cur_char cs =? 44) eqn:E44.
    - apply Z.eqb_eq in E44.
      eapply safe_bind; [apply next_char_safe; [exact Hc|lia]|].
      intros cs1 (Hc1 & Hl1 & Ho1 & _). cbv beta.
      eapply safe_bind; [apply parse_range_safe; [exact Hc1|exact Hi|lia|]|].
      { destruct Hi as [Hi1 Hi2]. lia. }
      intros [cs2 il2] (Hc2 & Hl2 & Ho2 & Hi2 & Hn2). cbn [fst snd] in *.
      destruct (set_ok_pos_inv cs2 Hc2) as [Hc2' Hl2'].
      eapply safe_weaken; [apply IH; [exact Hc2'|exact Hi2|lia|lia|rewrite Hn2; exact Hfl]|].
      intros il' [H1 H2]. split; [exact H1|congruence].
    - destruct (cur_char cs =? 0) eqn:E0; [cbn [safe]; auto|].
      apply Z.eqb_neq in E0.
      eapply safe_bind; [apply next_char_safe; [exact Hc|exact E0]|].
      intros cs1 (Hc1 & _). unfold parse_error. cbn [safe]. unfold diag_inv; cbn [d_ok d_i].
      destruct Hc1 as [Ha Hb]. lia.
  Qed.
End Total.

Lemma init_inv s n : cs_inv (Z.of_nat (length s)) (init_char_stream s) /\ il_inv (init_int_list n).
Proof.
  unfold cs_inv, il_inv, init_char_stream, init_int_list; cbn [cs_rest cs_i cs_ok il_a il_i il_n length].
  repeat split; lia.
Qed.

(** for EVERY byte string and every capacity: the current parser terminates
    within the fuel given, with a list that fits the capacity or with an error
    whose positions lie inside the string; no assertion failure *)
Theorem cpulist_total s n :
  match parse_cpu_list (Some s) n with
  | Val l => Z.of_nat (length l) <= Z.max 0 n
  | Err d => 0 <= d_ok d <= d_i d /\ d_i d <= Z.of_nat (length s)
  | AssertFail => False
  | OutOfFuel => False
  end.
Proof.
  unfold parse_cpu_list, parse_cpu_list_gen, parse_range_list.
  destruct (init_inv s n) as [Hc Hi].
  set (L := Z.of_nat (length s)) in *.
  assert (H : safe (fun il' => il_inv il' /\ il_n il' = n) (diag_inv L)
            (bind (parse_range 0 (str_fuel s) (list_fuel n) (init_char_stream s) (init_int_list n))
                  (fun r => let (cs1, il1) := r in
                            range_list_loop 0 (str_fuel s) (str_fuel s) (list_fuel n) (set_ok_pos cs1) il1))).
  { eapply safe_bind.
    - apply parse_range_safe; [exact Hc|exact Hi| |].
      + unfold rlen, str_fuel, init_char_stream; cbn [cs_rest]. lia.
      + unfold list_fuel, init_int_list; cbn [il_n il_i]. lia.
    - intros [cs1 il1] (Hc1 & Hl1 & Ho1 & Hi1 & Hn1). cbn [fst snd] in *.
      destruct (set_ok_pos_inv L cs1 Hc1) as [Hc1' Hl1'].
      unfold rlen, init_char_stream in Hl1; cbn [cs_rest] in Hl1.
      eapply safe_weaken.
      + apply range_list_loop_safe; [exact Hc1'|exact Hi1| | |].
        * unfold str_fuel. unfold rlen in *. lia.
        * unfold str_fuel. unfold rlen in *. lia.
        * rewrite Hn1. unfold list_fuel, init_int_list; cbn [il_n]. lia.
      + intros il' [H1 H2]. split; [exact H1|]. rewrite H2, Hn1. reflexivity. }
  destruct (bind (parse_range 0 (str_fuel s) (list_fuel n) (init_char_stream s) (init_int_list n)) _) as [il|d| |];
    cbn [safe bind] in *.
  - destruct H as [[H1 H2] H3]. rewrite rev_length. rewrite <- H3. lia.
  - exact H.
  - exact H.
  - exact H.
Qed.

(** an unset variable is the empty list *)
Lemma cpulist_unset n : parse_cpu_list None n = Val [].
Proof. reflexivity. Qed.

(** * Part 2: the parser before commit a5dd2b3 *)
Lemma cpulist_prefix_refuted :
  exists s, parse_cpu_list_prefix (Some s) 1024 = AssertFail /\
            exists d, parse_cpu_list (Some s) 1024 = Err d /\ d_msg d = Junk.
Proof. exists [48; 10]. split; [vm_compute; reflexivity|]. eexists. split; [vm_compute; reflexivity|reflexivity]. Qed.

(** * Part 3 and 4: the grammar *)

(** a numeral: a non-empty string of digits; [ival] is its value as the C code
    computes it (32-bit wrap at every step) *)
Definition digits (ds : bytes) : Prop := ds <> [] /\ forallb is_digit ds = true.
Definition ival (ds : bytes) : Z := fold_left (fun x c => to_int (x * 10 + (c - 48))) ds 0.
Definition nodigit_hd (rest : bytes) : Prop :=
  match rest with c :: _ => is_digit c = false | [] => True end.

(** text of one range and the triple (first, bound, stride) it denotes *)
Inductive range_text : bytes -> Z * Z * Z -> Prop :=
| RT_single ds : digits ds -> range_text ds (ival ds, to_int (ival ds + 1), 1)
| RT_range ds es : digits ds -> digits es -> range_text (ds ++ 45 :: es) (ival ds, ival es, 1)
| RT_stride ds es fs : digits ds -> digits es -> digits fs ->
    range_text (ds ++ 45 :: es ++ 58 :: fs) (ival ds, ival es, ival fs).

(** [, range]* *)
Inductive tail_text : bytes -> list (Z * Z * Z) -> Prop :=
| TT_nil : tail_text [] []
| TT_cons t r u rs : range_text t r -> tail_text u rs -> tail_text (44 :: t ++ u) (r :: rs).

(** range [, range]* *)
Definition list_text (s : bytes) (rs : list (Z * Z * Z)) : Prop :=
  exists t r u rs', range_text t r /\ tail_text u rs' /\ s = t ++ u /\ rs = r :: rs'.

(** the C string ends here *)
Definition end_hd (rest : bytes) : Prop := match rest with [] => True | c :: _ => c = 0 end.
(** what may follow a range *)
Definition stop_hd (rest : bytes) : Prop := match rest with [] => True | c :: _ => c = 44 \/ c = 0 end.

Definition mk_cs (rest : bytes) (i ok : Z) : cstream := {| cs_rest := rest; cs_i := i; cs_ok := ok |}.

Lemma cs_eta cs : cs = mk_cs (cs_rest cs) (cs_i cs) (cs_ok cs).
Proof. destruct cs; reflexivity. Qed.

Lemma bind_val {A B} (r : res A) (f : A -> res B) v :
  bind r f = Val v -> exists a, r = Val a /\ f a = Val v.
Proof. destruct r as [a|d| |]; cbn [bind]; intros H; try discriminate. exists a. auto. Qed.

Lemma check_m1_val {A} cs v (k : res A) r : check_m1 cs v k = Val r -> v <> -1 /\ k = Val r.
Proof.
  unfold check_m1. destruct (v =? -1) eqn:E; [unfold parse_error; discriminate|].
  apply Z.eqb_neq in E. auto.
Qed.

Lemma next_char_cons c r i ok : c <> 0 -> next_char 0 (mk_cs (c :: r) i ok) = Val (mk_cs r (i + 1) ok).
Proof.
  intros Hc. unfold next_char, cur_char, mk_cs; cbn [cs_rest cs_i cs_ok tl].
  destruct (c =? 0) eqn:E; [apply Z.eqb_eq in E; contradiction|reflexivity].
Qed.

(** the digit loop consumes exactly a maximal run of digits *)
Lemma parse_int_loop_digits ds : forall rest i ok x nd fuel,
  forallb is_digit ds = true -> nodigit_hd rest -> (length (ds ++ rest) < fuel)%nat ->
  parse_int_loop 0 fuel (mk_cs (ds ++ rest) i ok) x nd =
  Val (mk_cs rest (i + Z.of_nat (length ds)) ok,
       fold_left (fun x c => to_int (x * 10 + (c - 48))) ds x, nd + Z.of_nat (length ds)).
Proof.
  induction ds as [|d ds IH]; intros rest i ok x nd fuel Hd Hr Hf.
  - cbn [app length fold_left] in *. destruct fuel as [|f]; [lia|]. cbn [parse_int_loop].
    replace (is_digit (cur_char (mk_cs rest i ok))) with false.
    + rewrite !Z.add_0_r. reflexivity.
    + unfold cur_char, mk_cs; cbn [cs_rest]. destruct rest as [|c r]; [reflexivity|]. cbn in Hr. rewrite Hr. reflexivity.
  - cbn [app length fold_left forallb] in *. apply andb_prop in Hd. destruct Hd as [Hd1 Hd2].
    destruct fuel as [|f]; [lia|]. cbn [parse_int_loop].
    replace (cur_char (mk_cs (d :: ds ++ rest) i ok)) with d by reflexivity. rewrite Hd1.
    rewrite next_char_cons by (apply is_digit_nonzero; exact Hd1). cbn [bind].
    rewrite IH by (try assumption; lia).
    replace (i + 1 + Z.of_nat (length ds)) with (i + Z.of_nat (S (length ds))) by lia.
    replace (nd + 1 + Z.of_nat (length ds)) with (nd + Z.of_nat (S (length ds))) by lia.
    reflexivity.
Qed.

Fixpoint span_digits (s : bytes) : bytes * bytes :=
  match s with
  | c :: r => if is_digit c then let (d, r') := span_digits r in (c :: d, r') else ([], s)
  | [] => ([], [])
  end.

Lemma span_digits_spec s : let (ds, rest) := span_digits s in
  s = ds ++ rest /\ forallb is_digit ds = true /\ nodigit_hd rest.
Proof.
  induction s as [|c r IH]; cbn [span_digits].
  - repeat split.
  - destruct (is_digit c) eqn:E.
    + destruct (span_digits r) as [d r']. destruct IH as (H1 & H2 & H3). cbn [app forallb].
      rewrite E, H2. repeat split; [congruence|exact H3].
    + cbn [app forallb nodigit_hd]. repeat split. exact E.
Qed.

Lemma parse_int_digits fuel ds rest i ok : digits ds -> nodigit_hd rest -> (length (ds ++ rest) < fuel)%nat ->
  parse_int 0 fuel (mk_cs (ds ++ rest) i ok) = Val (mk_cs rest (i + Z.of_nat (length ds)) ok, ival ds).
Proof.
  intros [Hne Hd] Hr Hf. unfold parse_int. rewrite parse_int_loop_digits by assumption. cbn [bind].
  destruct ds as [|d ds]; [contradiction|]. cbn [length].
  destruct (0 + Z.of_nat (S (length ds)) =? 0) eqn:E; [apply Z.eqb_eq in E; lia|]. reflexivity.
Qed.

Lemma parse_int_val fuel cs cs' x : (length (cs_rest cs) < fuel)%nat -> parse_int 0 fuel cs = Val (cs', x) ->
  exists ds, digits ds /\ cs_rest cs = ds ++ cs_rest cs' /\ nodigit_hd (cs_rest cs') /\ x = ival ds /\
             cs' = mk_cs (cs_rest cs') (cs_i cs + Z.of_nat (length ds)) (cs_ok cs).
Proof.
  intros Hf. pose proof (span_digits_spec (cs_rest cs)) as Hs.
  destruct (span_digits (cs_rest cs)) as [ds rest]. destruct Hs as (H1 & H2 & H3).
  rewrite (cs_eta cs). cbn [cs_rest cs_i cs_ok]. rewrite H1. unfold parse_int.
  rewrite parse_int_loop_digits by (try assumption; rewrite <- H1; exact Hf). cbn [bind].
  destruct (0 + Z.of_nat (length ds) =? 0) eqn:E; [unfold parse_error; discriminate|].
  intros H. inversion H; subst; clear H. cbn [cs_rest].
  exists ds. repeat split; try assumption.
  intros ->. cbn in E. discriminate.
Qed.

(** ** Part 3: soundness *)
Lemma parse_range_val fs fl cs il cs' il' : (length (cs_rest cs) < fs)%nat ->
  parse_range 0 fs fl cs il = Val (cs', il') ->
  exists t r, range_text t r /\ cs_rest cs = t ++ cs_rest cs' /\ (length (cs_rest cs') <= length (cs_rest cs))%nat.
Proof.
  intros Hf. unfold parse_range. intros H.
  apply bind_val in H. destruct H as ([cs1 a] & H1 & H).
  apply parse_int_val in H1; [|exact Hf]. destruct H1 as (ds & Hds & Hr1 & Hn1 & -> & Hcs1).
  apply check_m1_val in H. destruct H as [_ H].
  assert (Hl1 : (length (cs_rest cs1) <= length (cs_rest cs))%nat) by (rewrite Hr1, app_length; lia).
  destruct (cur_char cs1 =? 45) eqn:E45.
  - apply Z.eqb_eq in E45. unfold cur_char in E45. destruct (cs_rest cs1) as [|c1 r1] eqn:Er1; [discriminate|]. subst c1.
    rewrite Hcs1 in H. rewrite next_char_cons in H by lia. cbn [bind] in H.
    apply bind_val in H. destruct H as ([cs3 b] & H3 & H).
    apply parse_int_val in H3; [|cbn [mk_cs cs_rest]; cbn [length] in Hl1; lia].
    cbn [mk_cs cs_rest cs_i cs_ok] in H3. destruct H3 as (es & Hes & Hr3 & Hn3 & -> & Hcs3).
    apply check_m1_val in H. destruct H as [_ H].
    assert (Hl3 : (length (cs_rest cs3) <= length r1)%nat) by (rewrite Hr3, app_length; lia).
    destruct (cur_char cs3 =? 58) eqn:E58.
    + apply Z.eqb_eq in E58. unfold cur_char in E58. destruct (cs_rest cs3) as [|c3 r3] eqn:Er3; [discriminate|]. subst c3.
      rewrite Hcs3 in H. rewrite next_char_cons in H by lia. cbn [bind] in H.
      apply bind_val in H. destruct H as ([cs5 c] & H5 & H).
      apply parse_int_val in H5; [|cbn [mk_cs cs_rest]; cbn [length] in *; lia].
      cbn [mk_cs cs_rest cs_i cs_ok] in H5. destruct H5 as (gs & Hgs & Hr5 & Hn5 & -> & Hcs5).
      apply check_m1_val in H. destruct H as [_ H].
      apply bind_val in H. destruct H as (il2 & _ & H). inversion H; subst cs' il'; clear H.
      exists (ds ++ 45 :: es ++ 58 :: gs), (ival ds, ival es, ival gs).
      split; [apply RT_stride; assumption|]. split.
      * rewrite Hr1, Hr3, Hr5. rewrite <- !app_assoc. cbn [app]. rewrite <- !app_assoc. reflexivity.
      * assert (length r3 = length gs + length (cs_rest cs5))%nat by (rewrite Hr5, app_length; reflexivity).
        cbn [length] in *. lia.
    + apply bind_val in H. destruct H as (il2 & _ & H). inversion H; subst cs' il'; clear H.
      exists (ds ++ 45 :: es), (ival ds, ival es, 1).
      split; [apply RT_range; assumption|]. split.
      * rewrite Hr1, Hr3. rewrite <- !app_assoc. reflexivity.
      * cbn [length] in *. lia.
  - apply bind_val in H. destruct H as (il2 & _ & H). inversion H; subst cs' il'; clear H.
    exists ds, (ival ds, to_int (ival ds + 1), 1).
    split; [apply RT_single; assumption|]. split; [exact Hr1|exact Hl1].
Qed.

Lemma range_list_loop_val fuel : forall fs fl cs il il',
  (length (cs_rest cs) < fuel)%nat -> (length (cs_rest cs) < fs)%nat ->
  range_list_loop 0 fuel fs fl cs il = Val il' ->
  exists u rs rest, tail_text u rs /\ cs_rest cs = u ++ rest /\ end_hd rest.
Proof.
  induction fuel as [|f IH]; intros fs fl cs il il' Hf Hfs; [lia|]. cbn [range_list_loop].
  destruct (cur_char cs =? 44) eqn:E44.
  - apply Z.eqb_eq in E44. unfold cur_char in E44. destruct (cs_rest cs) as [|c0 r0] eqn:Er0; [discriminate|]. subst c0.
    rewrite (cs_eta cs), Er0. rewrite next_char_cons by lia. cbn [bind]. intros H.
    apply bind_val in H. destruct H as ([cs2 il2] & H2 & H).
    cbn [length] in *.
    apply parse_range_val in H2; [|cbn [mk_cs cs_rest]; lia].
    cbn [mk_cs cs_rest] in H2. destruct H2 as (t & r & Ht & Hr2 & Hl2).
    apply IH in H; [|unfold set_ok_pos; cbn [cs_rest]; lia|unfold set_ok_pos; cbn [cs_rest]; lia].
    unfold set_ok_pos in H; cbn [cs_rest] in H. destruct H as (u & rs & rest & Hu & Hr & He).
    exists (44 :: t ++ u), (r :: rs), rest. split; [apply TT_cons; assumption|]. split; [|exact He].
    rewrite Hr2, Hr. cbn [app]. rewrite <- app_assoc. reflexivity.
  - destruct (cur_char cs =? 0) eqn:E0.
    + intros _. apply Z.eqb_eq in E0. exists [], [], (cs_rest cs). split; [constructor|]. split; [reflexivity|].
      unfold cur_char in E0. unfold end_hd. destruct (cs_rest cs); [exact I|exact E0].
    + intros H. apply bind_val in H. destruct H as (cs1 & _ & H). unfold parse_error in H. discriminate.
Qed.

(** an accepted string is a range list followed by the end of the C string *)
Theorem cpulist_sound s n l : parse_cpu_list (Some s) n = Val l ->
  exists t rs rest, list_text t rs /\ s = t ++ rest /\ end_hd rest.
Proof.
  unfold parse_cpu_list, parse_cpu_list_gen, parse_range_list. intros H.
  apply bind_val in H. destruct H as (il & H & _).
  apply bind_val in H. destruct H as ([cs1 il1] & H1 & H).
  apply parse_range_val in H1; [|unfold str_fuel, init_char_stream; cbn [cs_rest]; lia].
  unfold init_char_stream in H1; cbn [cs_rest] in H1. destruct H1 as (t & r & Ht & Hs & Hl).
  apply range_list_loop_val in H; [|unfold set_ok_pos, str_fuel; cbn [cs_rest]; lia|unfold set_ok_pos, str_fuel; cbn [cs_rest]; lia].
  unfold set_ok_pos in H; cbn [cs_rest] in H. destruct H as (u & rs & rest & Hu & Hr & He).
  exists (t ++ u), (r :: rs), rest. split; [|split; [|exact He]].
  - exists t, r, u, rs. auto.
  - rewrite Hs, Hr, app_assoc. reflexivity.
Qed.

(** ** Part 4: completeness and meaning *)

(** [l] is the expansion of the range (a, b, c): the arithmetic progression
    a, a+c, a+2c, ... of exactly those terms that are below b *)
Definition progression (a c : Z) (k : nat) : list Z := map (fun j => a + Z.of_nat j * c) (seq 0 k).
Definition is_expansion (r : Z * Z * Z) (l : list Z) : Prop :=
  let '(a, b, c) := r in
  l = progression a c (length l) /\ (forall x, In x l -> x < b) /\ b <= a + Z.of_nat (length l) * c.

(** no 32-bit overflow while expanding: non-negative numbers, bound + stride
    representable *)
Definition guard3 (r : Z * Z * Z) : Prop :=
  let '(a, b, c) := r in 0 <= a /\ 0 <= b /\ 0 <= c /\ b + c < 2147483648.

Lemma progression_S a c k : progression a c (S k) = a :: progression (a + c) c k.
Proof.
  unfold progression. cbn [seq map]. f_equal; [lia|].
  rewrite <- seq_shift, map_map. apply map_ext. intros j. lia.
Qed.

Lemma progression_length a c k : length (progression a c k) = k.
Proof. unfold progression. rewrite map_length, seq_length. reflexivity. Qed.

Lemma progression_in a c k j : (j < k)%nat -> In (a + Z.of_nat j * c) (progression a c k).
Proof. intros H. unfold progression. apply in_map_iff. exists j. split; [reflexivity|]. apply in_seq. lia. Qed.

Lemma is_expansion_nil a b c : b <= a -> is_expansion (a, b, c) [].
Proof. intros H. cbn. repeat split; [intros x []|lia]. Qed.

Lemma is_expansion_cons a b c l : a < b -> is_expansion (a + c, b, c) l -> is_expansion (a, b, c) (a :: l).
Proof.
  cbn [is_expansion]. intros Hab (H1 & H2 & H3). cbn [length]. split; [|split].
  - rewrite progression_S. f_equal. exact H1.
  - intros x [<-|Hx]; [exact Hab|apply H2; exact Hx].
  - lia.
Qed.

Lemma is_expansion_cons_inv a b c l : a < b -> is_expansion (a, b, c) l ->
  exists l', l = a :: l' /\ is_expansion (a + c, b, c) l'.
Proof.
  cbn [is_expansion]. intros Hab (H1 & H2 & H3). destruct l as [|x l'].
  - cbn [length] in H3. lia.
  - cbn [length] in H1. rewrite progression_S in H1. injection H1 as Hx Hl. subst x. exists l'.
    split; [reflexivity|]. split; [|split].
    + exact Hl.
    + intros y Hy. apply H2. right. exact Hy.
    + cbn [length] in H3. lia.
Qed.

(** the expansion of a range is unique (stride >= 0) *)
Lemma is_expansion_length r l l' : (let '(_, _, c) := r in 0 <= c) ->
  is_expansion r l -> is_expansion r l' -> length l = length l'.
Proof.
  destruct r as [[a b] c]. cbn [is_expansion]. intros Hc (H1 & H2 & H3) (H1' & H2' & H3').
  destruct (Nat.lt_trichotomy (length l) (length l')) as [Hlt|[Heq|Hgt]]; [|exact Heq|].
  - exfalso. assert (Hin : In (a + Z.of_nat (length l) * c) l') by (rewrite H1'; apply progression_in; exact Hlt).
    apply H2' in Hin. lia.
  - exfalso. assert (Hin : In (a + Z.of_nat (length l') * c) l) by (rewrite H1; apply progression_in; exact Hgt).
    apply H2 in Hin. lia.
Qed.

Lemma is_expansion_unique r l l' : (let '(_, _, c) := r in 0 <= c) ->
  is_expansion r l -> is_expansion r l' -> l = l'.
Proof.
  intros Hc H H'. pose proof (is_expansion_length r l l' Hc H H') as Hl.
  destruct r as [[a b] c]. destruct H as (H1 & _). destruct H' as (H1' & _). rewrite H1, H1', Hl. reflexivity.
Qed.

(** a zero stride over a non-empty interval has no expansion *)
Lemma stride_zero_no_expansion a b l : a < b -> ~ is_expansion (a, b, 0) l.
Proof. cbn [is_expansion]. intros Hab (_ & _ & H). lia. Qed.

(** the expansion loop under the guard *)
Lemma range_loop_spec fuel : forall cs il x b c,
  0 <= c -> b + c < 2147483648 -> -2147483648 <= x ->
  il_inv il -> (Z.to_nat (il_n il - il_i il) < fuel)%nat ->
  match range_loop fuel cs il x b c with
  | Val il' => exists l, is_expansion (x, b, c) l /\ il_a il' = rev l ++ il_a il /\
                         il_i il' = il_i il + Z.of_nat (length l) /\ il_n il' = il_n il /\ il_inv il'
  | Err d => d_msg d = TooMany /\ forall l, is_expansion (x, b, c) l -> il_n il < il_i il + Z.of_nat (length l)
  | AssertFail => False
  | OutOfFuel => False
  end.
Proof.
  induction fuel as [|f IH]; intros cs il x b c Hc Hbc Hx Hi Hf; [lia|]. cbn [range_loop].
  destruct (x <? b) eqn:E.
  - apply Z.ltb_lt in E. destruct (int_list_add il x) as [il1|] eqn:Ea.
    + destruct (int_list_add_inv il x il1 Hi Ea) as (Hi1 & Hn1 & Hii1).
      assert (Hadd : il_a il1 = x :: il_a il).
      { unfold int_list_add in Ea. destruct (il_i il <? il_n il); [|discriminate]. inversion Ea; reflexivity. }
      assert (Hlt : il_i il < il_n il).
      { unfold int_list_add in Ea. destruct (il_i il <? il_n il) eqn:E2; [apply Z.ltb_lt in E2; exact E2|discriminate]. }
      rewrite to_int_id by lia.
      specialize (IH cs il1 (x + c) b c Hc Hbc ltac:(lia) Hi1 ltac:(rewrite Hn1, Hii1; lia)).
      destruct (range_loop f cs il1 (x + c) b c) as [il2|d| |]; try exact IH.
      * destruct IH as (l & Hl & Ha & Hii & Hn & Hinv). exists (x :: l). split; [apply is_expansion_cons; assumption|].
        cbn [rev length]. rewrite Ha, Hadd, <- app_assoc. cbn [app]. repeat split; [lia|congruence|apply Hinv|apply Hinv].
      * destruct IH as [Hm Hall]. split; [exact Hm|]. intros l Hl.
        destruct (is_expansion_cons_inv x b c l E Hl) as (l' & -> & Hl'). specialize (Hall l' Hl'). cbn [length]. lia.
    + unfold parse_error. cbn [d_msg]. split; [reflexivity|]. intros l Hl.
      destruct (is_expansion_cons_inv x b c l E Hl) as (l' & -> & _). cbn [length].
      unfold int_list_add in Ea. destruct (il_i il <? il_n il) eqn:E2; [discriminate|]. apply Z.ltb_ge in E2. lia.
  - apply Z.ltb_ge in E. exists []. split; [apply is_expansion_nil; exact E|]. cbn [rev app length].
    repeat split; [lia|apply Hi|apply Hi].
Qed.

Lemma digits_nonempty_hd ds rest : digits ds -> exists d r, ds ++ rest = d :: r /\ is_digit d = true.
Proof.
  intros [Hne Hd]. destruct ds as [|d ds]; [contradiction|]. cbn [forallb] in Hd. apply andb_prop in Hd.
  exists d, (ds ++ rest). split; [reflexivity|tauto].
Qed.

Lemma stop_nodigit rest : stop_hd rest -> nodigit_hd rest.
Proof. destruct rest as [|c r]; cbn; [auto|]. intros [->| ->]; reflexivity. Qed.

Lemma cur_char_mk rest i ok : cur_char (mk_cs rest i ok) = match rest with c :: _ => c | [] => 0 end.
Proof. reflexivity. Qed.

Lemma stop_not_45 rest i ok : stop_hd rest -> (cur_char (mk_cs rest i ok) =? 45) = false.
Proof. rewrite cur_char_mk. destruct rest as [|c r]; cbn; [reflexivity|]. intros [->| ->]; reflexivity. Qed.
Lemma stop_not_58 rest i ok : stop_hd rest -> (cur_char (mk_cs rest i ok) =? 58) = false.
Proof. rewrite cur_char_mk. destruct rest as [|c r]; cbn; [reflexivity|]. intros [->| ->]; reflexivity. Qed.

Lemma check_m1_pass {A} cs v (k : res A) : v <> -1 -> check_m1 cs v k = k.
Proof. intros H. unfold check_m1. destruct (v =? -1) eqn:E; [apply Z.eqb_eq in E; contradiction|reflexivity]. Qed.

(** a range text followed by a stop character is consumed entirely and its
    triple is expanded *)
Lemma parse_range_complete t a b c rest i ok il fs fl :
  range_text t (a, b, c) -> a <> -1 -> b <> -1 -> c <> -1 -> stop_hd rest ->
  (length (t ++ rest) < fs)%nat ->
  parse_range 0 fs fl (mk_cs (t ++ rest) i ok) il =
  bind (range_loop fl (mk_cs rest (i + Z.of_nat (length t)) ok) il a b c)
       (fun il' => Val (mk_cs rest (i + Z.of_nat (length t)) ok, il')).
Proof.
  intros Ht Ha Hb Hc Hs Hf. pose proof (stop_nodigit rest Hs) as Hnd.
  inversion Ht as [ds Hds|ds es Hds Hes|ds es gs Hds Hes Hgs]; subst; unfold parse_range.
  - rewrite parse_int_digits by assumption. cbn [bind]. rewrite check_m1_pass by assumption.
    rewrite stop_not_45 by assumption. reflexivity.
  - rewrite <- app_assoc in *. cbn [app] in *.
    rewrite parse_int_digits; [|assumption|cbn; reflexivity|assumption]. cbn [bind].
    rewrite check_m1_pass by assumption. rewrite cur_char_mk. change (45 =? 45) with true. cbn iota.
    rewrite next_char_cons by lia. cbn [bind].
    rewrite parse_int_digits; [|assumption|assumption|rewrite app_length in Hf; cbn [length] in Hf; lia]. cbn [bind].
    rewrite check_m1_pass by assumption. rewrite stop_not_58 by assumption.
    rewrite app_length. cbn [length].
    replace (i + Z.of_nat (length ds) + 1 + Z.of_nat (length es)) with (i + Z.of_nat (length ds + S (length es))) by lia.
    reflexivity.
  - rewrite <- !app_assoc in *. cbn [app] in *. rewrite <- !app_assoc in *. cbn [app] in *.
    rewrite parse_int_digits; [|assumption|cbn; reflexivity|assumption]. cbn [bind].
    rewrite check_m1_pass by assumption. rewrite cur_char_mk. change (45 =? 45) with true. cbn iota.
    rewrite next_char_cons by lia. cbn [bind].
    rewrite parse_int_digits; [|assumption|cbn; reflexivity|rewrite app_length in Hf; cbn [length] in Hf; lia]. cbn [bind].
    rewrite check_m1_pass by assumption. rewrite cur_char_mk. change (58 =? 58) with true. cbn iota.
    rewrite next_char_cons by lia. cbn [bind].
    rewrite parse_int_digits; [|assumption|assumption|rewrite !app_length in Hf; cbn [length] in Hf; rewrite app_length in Hf; cbn [length] in Hf; lia].
    cbn [bind]. rewrite check_m1_pass by assumption.
    rewrite !app_length. cbn [length]. rewrite app_length. cbn [length].
    replace (i + Z.of_nat (length ds) + 1 + Z.of_nat (length es) + 1 + Z.of_nat (length gs))
      with (i + Z.of_nat (length ds + S (length es + S (length gs)))) by lia.
    reflexivity.
Qed.

Lemma ival_range ds : -2147483648 <= ival ds < 2147483648.
Proof.
  unfold ival. assert (H : forall x, -2147483648 <= x < 2147483648 ->
    -2147483648 <= fold_left (fun x c => to_int (x * 10 + (c - 48))) ds x < 2147483648).
  { induction ds as [|d ds IH]; intros x Hx; cbn [fold_left]; [exact Hx|]. apply IH. apply to_int_range. }
  apply H. lia.
Qed.

(** outcome of filling the list with the expansions of [rs], starting from [il] *)
Definition fill_post (il : int_list) (rs : list (Z * Z * Z)) (r : res int_list) : Prop :=
  match r with
  | Val il' => exists ls, Forall2 is_expansion rs ls /\ il_a il' = rev (concat ls) ++ il_a il /\
                          il_i il' = il_i il + Z.of_nat (length (concat ls)) /\ il_n il' = il_n il
  | Err d => d_msg d = TooMany /\
             forall ls, Forall2 is_expansion rs ls -> il_n il < il_i il + Z.of_nat (length (concat ls))
  | AssertFail => False
  | OutOfFuel => False
  end.

Lemma guard3_stride r : guard3 r -> let '(_, _, c) := r in 0 <= c.
Proof. destruct r as [[a b] c]. cbn. tauto. Qed.

(** one range followed by the rest of the work [k] *)
Lemma range_then (il : int_list) r rs (k : int_list -> res int_list) (rl : res int_list) :
  guard3 r ->
  (match rl with
   | Val il' => exists l, is_expansion r l /\ il_a il' = rev l ++ il_a il /\
                          il_i il' = il_i il + Z.of_nat (length l) /\ il_n il' = il_n il /\ il_inv il'
   | Err d => d_msg d = TooMany /\ forall l, is_expansion r l -> il_n il < il_i il + Z.of_nat (length l)
   | _ => False
   end) ->
  (forall il1, il_inv il1 -> il_n il1 = il_n il -> fill_post il1 rs (k il1)) ->
  fill_post il (r :: rs) (bind rl k).
Proof.
  intros Hg Hrl Hk. destruct rl as [il1|d| |]; cbn [bind]; try contradiction.
  - destruct Hrl as (l & Hl & Ha & Hi & Hn & Hinv). specialize (Hk il1 Hinv Hn).
    destruct (k il1) as [il2|d| |]; cbn [fill_post] in *; try contradiction.
    + destruct Hk as (ls & Hls & Ha2 & Hi2 & Hn2). exists (l :: ls). split; [constructor; assumption|].
      cbn [concat]. rewrite rev_app_distr, app_length, <- app_assoc. rewrite Ha2, Ha. repeat split; [lia|congruence].
    + destruct Hk as [Hm Hall]. split; [exact Hm|]. intros ls Hls. inversion Hls as [|r' l' rs' ls' Hl' Hls']; subst.
      specialize (Hall ls' Hls'). pose proof (is_expansion_length r l l' (guard3_stride r Hg) Hl Hl') as Hlen.
      cbn [concat]. rewrite app_length. lia.
  - cbn [fill_post]. destruct Hrl as [Hm Hall]. split; [exact Hm|]. intros ls Hls.
    inversion Hls as [|r' l' rs' ls' Hl' Hls']; subst. specialize (Hall l' Hl'). cbn [concat]. rewrite app_length. lia.
Qed.

Lemma range_text_ne1 t a b c : range_text t (a, b, c) -> guard3 (a, b, c) -> a <> -1 /\ b <> -1 /\ c <> -1.
Proof. cbn [guard3]. intros _ H. lia. Qed.

Lemma tail_complete u rs : tail_text u rs -> forall rest i ok il fuel fs fl,
  Forall guard3 rs -> end_hd rest -> il_inv il ->
  (length (u ++ rest) < fuel)%nat -> (length (u ++ rest) < fs)%nat -> (Z.to_nat (il_n il) < fl)%nat ->
  fill_post il rs (range_list_loop 0 fuel fs fl (mk_cs (u ++ rest) i ok) il).
Proof.
  induction 1 as [|t r u rs Ht Hu IH]; intros rest i ok il fuel fs fl Hg He Hi Hf Hfs Hfl.
  - cbn [app] in *. destruct fuel as [|f]; [lia|]. cbn [range_list_loop]. rewrite cur_char_mk.
    assert (Hc : match rest with c :: _ => c | [] => 0 end = 0) by (destruct rest; [reflexivity|exact He]).
    rewrite Hc. change (0 =? 44) with false. change (0 =? 0) with true. cbn iota. cbn [fill_post].
    exists []. split; [constructor|]. cbn [concat rev app length]. repeat split; lia.
  - cbn [app] in *. destruct fuel as [|f]; [cbn [length] in Hf; lia|]. cbn [range_list_loop]. rewrite cur_char_mk.
    change (44 =? 44) with true. cbn iota. rewrite next_char_cons by lia. cbn [bind].
    inversion Hg as [|r' rs' Hgr Hgrs]; subst. destruct r as [[a b] c].
    destruct (range_text_ne1 t a b c Ht Hgr) as (Ha & Hb & Hc).
    rewrite <- app_assoc in *. cbn [length] in Hf, Hfs.
    assert (Hstop : stop_hd (u ++ rest)).
    { inversion Hu; subst; cbn [app stop_hd]; [|left; reflexivity]. destruct rest; [exact I|right; exact He]. }
    rewrite (parse_range_complete t a b c) by (try assumption; lia).
    set (cs' := mk_cs (u ++ rest) (i + 1 + Z.of_nat (length t)) ok).
    replace (bind (bind (range_loop fl cs' il a b c) (fun il' => Val (cs', il')))
                  (fun r0 => let (cs2, il2) := r0 in range_list_loop 0 f fs fl (set_ok_pos cs2) il2))
      with (bind (range_loop fl cs' il a b c) (fun il' => range_list_loop 0 f fs fl (set_ok_pos cs') il'))
      by (destruct (range_loop fl cs' il a b c); reflexivity).
    apply range_then; [exact Hgr| |].
    + cbn [guard3] in Hgr. apply range_loop_spec; try lia; [exact Hi|]. destruct Hi as [Hi1 Hi2]. lia.
    + intros il1 Hi1 Hn1. unfold cs', set_ok_pos; cbn [cs_rest cs_i cs_ok mk_cs].
      apply (IH rest (i + 1 + Z.of_nat (length t)) (i + 1 + Z.of_nat (length t)) il1 f fs fl); try assumption.
      * rewrite app_length in Hf. lia.
      * rewrite app_length in Hfs. lia.
      * rewrite Hn1. exact Hfl.
Qed.

(** a range list whose numbers do not overflow, followed by the end of the
    string: the result is the concatenation of the expansions - or the
    "too many" diagnostic exactly when that does not fit the capacity *)
Theorem cpulist_complete t rs rest n :
  list_text t rs -> Forall guard3 rs -> end_hd rest ->
  match parse_cpu_list (Some (t ++ rest)) n with
  | Val l => exists ls, Forall2 is_expansion rs ls /\ l = concat ls
  | Err d => d_msg d = TooMany /\ forall ls, Forall2 is_expansion rs ls -> n < Z.of_nat (length (concat ls))
  | AssertFail => False
  | OutOfFuel => False
  end.
Proof.
  intros (t1 & r & u & rs' & Ht & Hu & -> & ->) Hg He.
  inversion Hg as [|r' rs'' Hgr Hgrs]; subst. destruct r as [[a b] c].
  destruct (range_text_ne1 t1 a b c Ht Hgr) as (Ha & Hb & Hc).
  unfold parse_cpu_list, parse_cpu_list_gen, parse_range_list, init_char_stream.
  fold (mk_cs ((t1 ++ u) ++ rest) 0 0). rewrite <- app_assoc.
  assert (Hstop : stop_hd (u ++ rest)).
  { inversion Hu; subst; cbn [app stop_hd]; [|left; reflexivity]. destruct rest; [exact I|right; exact He]. }
  rewrite (parse_range_complete t1 a b c); [|assumption|assumption|assumption|assumption|assumption|unfold str_fuel; lia].
  set (s := t1 ++ u ++ rest).
  set (cs' := mk_cs (u ++ rest) (0 + Z.of_nat (length t1)) 0).
  set (body := bind (bind (range_loop (list_fuel n) cs' (init_int_list n) a b c) (fun il' => Val (cs', il')))
                    (fun r0 => let (cs1, il1) := r0 in
                               range_list_loop 0 (str_fuel s) (str_fuel s) (list_fuel n) (set_ok_pos cs1) il1)).
  assert (Hpost : fill_post (init_int_list n) ((a, b, c) :: rs') body).
  { unfold body.
    replace (bind (bind (range_loop (list_fuel n) cs' (init_int_list n) a b c) (fun il' => Val (cs', il')))
                  (fun r0 => let (cs1, il1) := r0 in
                             range_list_loop 0 (str_fuel s) (str_fuel s) (list_fuel n) (set_ok_pos cs1) il1))
      with (bind (range_loop (list_fuel n) cs' (init_int_list n) a b c)
                 (fun il' => range_list_loop 0 (str_fuel s) (str_fuel s) (list_fuel n) (set_ok_pos cs') il'))
      by (destruct (range_loop (list_fuel n) cs' (init_int_list n) a b c); reflexivity).
    destruct (init_inv s n) as [_ Hi0].
    apply range_then; [exact Hgr| |].
    - cbn [guard3] in Hgr. apply range_loop_spec; try lia; [exact Hi0|].
      unfold list_fuel, init_int_list; cbn [il_n il_i]. lia.
    - intros il1 Hi1 Hn1. unfold cs', set_ok_pos; cbn [cs_rest cs_i cs_ok mk_cs].
      apply (tail_complete u rs' Hu rest); try assumption.
      + unfold str_fuel, s. rewrite (app_length t1). lia.
      + unfold str_fuel, s. rewrite (app_length t1). lia.
      + rewrite Hn1. unfold list_fuel, init_int_list; cbn [il_n]. lia. }
  fold s. fold body. destruct body as [il|d| |]; cbn [bind fill_post] in *; try contradiction.
  - destruct Hpost as (ls & Hls & Ha' & _). exists ls. split; [exact Hls|].
    rewrite Ha'. unfold init_int_list; cbn [il_a]. rewrite app_nil_r, rev_involutive. reflexivity.
  - destruct Hpost as [Hm Hall]. split; [exact Hm|]. intros ls Hls. specialize (Hall ls Hls).
    unfold init_int_list in Hall; cbn [il_n il_i] in Hall. lia.
Qed.

(** the wrapped value of a numeral is its decimal value when that is below 2^31 *)
Lemma ival_exact ds : forallb is_digit ds = true -> dec_value ds < 2147483648 -> ival ds = dec_value ds.
Proof.
  unfold ival, dec_value.
  assert (H : forall x, 0 <= x -> forallb is_digit ds = true ->
            fold_left (fun a c => a * 10 + (c - 48)) ds x < 2147483648 ->
            fold_left (fun x c => to_int (x * 10 + (c - 48))) ds x = fold_left (fun a c => a * 10 + (c - 48)) ds x /\
            x <= fold_left (fun a c => a * 10 + (c - 48)) ds x).
  { induction ds as [|d ds IH]; intros x Hx Hd Hlt; cbn [fold_left forallb] in *; [split; [reflexivity|lia]|].
    apply andb_prop in Hd. destruct Hd as [Hd1 Hd2].
    assert (Hdr : 48 <= d <= 57).
    { unfold is_digit in Hd1. apply andb_prop in Hd1. destruct Hd1 as [A B]. apply Z.leb_le in A. apply Z.leb_le in B. lia. }
    destruct (IH (x * 10 + (d - 48)) ltac:(lia) Hd2 Hlt) as [IH1 IH2].
    rewrite to_int_id by lia. split; [exact IH1|lia]. }
  intros Hd Hlt. apply H; [lia|exact Hd|exact Hlt].
Qed.

(** * Part 5: the worker-to-CPU table *)
Lemma available_cpus_in_mask r ncpu aff c : In c (available_cpus r ncpu aff) -> aff c = true.
Proof. unfold available_cpus. intros H. apply filter_In in H. tauto. Qed.

Lemma worker_cpu_in tbl rank : worker_cpu tbl rank = -1 \/ In (worker_cpu tbl rank) tbl.
Proof.
  unfold worker_cpu. destruct tbl as [|c0 tbl']; [left; reflexivity|]. right.
  apply nth_In. set (n := length (c0 :: tbl')). assert (Hn : (0 < n)%nat) by (unfold n; cbn [length]; lia).
  destruct (Z_lt_le_dec rank 0) as [Hneg|Hpos].
  - pose proof (Z.rem_nonpos rank (Z.of_nat n) ltac:(lia) ltac:(lia)). lia.
  - pose proof (Z.rem_bound_pos rank (Z.of_nat n) Hpos ltac:(lia)). lia.
Qed.

(** whatever MYTH_CPU_LIST holds, a worker is either left unbound or bound to a
    CPU of the affinity mask; and for ranks >= 0 the table is used round-robin *)
Theorem bind_total e n ncpu aff rank :
  let tbl := available_cpus (parse_cpu_list e n) ncpu aff in
  worker_cpu tbl rank = -1 \/ aff (worker_cpu tbl rank) = true.
Proof.
  cbn zeta. destruct (worker_cpu_in (available_cpus (parse_cpu_list e n) ncpu aff) rank) as [H|H]; [left; exact H|right].
  eapply available_cpus_in_mask. exact H.
Qed.
