(** C15 (a) — configuration read from the environment.

    Source: src/myth_init_func.h  myth_globalattr_default_stacksize / _guardsize /
    _num_workers / _bind_workers / _child_first, myth_globalattr_init_body;
    src/myth_init.c myth_init_ex_body_really (choice of the effective attributes,
    creation order of the workers); src/myth_worker_func.h myth_worker_thread_fn
    ([bind_workers > 0]).

    A C string is a [list Z] of bytes; the string ends at the end of the list or
    at the first 0 byte, whichever comes first (no function below looks past a 0
    byte, exactly like the C code).  [atoi] is glibc's: [(int) strtol (s, NULL, 10)]
    - leading isspace() bytes of the C locale, one optional sign, decimal digits,
    saturation at LONG_MIN / LONG_MAX (64-bit long), then truncation to the 32-bit
    [int].  The default functions are written WITH THEIR C TYPES: every
    assignment between [int] and [size_t] is an explicit [to_int] / [to_size_t].
    The built-in defaults (configure-time macros MYTH_DEF_STACK_SIZE, ...) and
    the CPU count (sysconf) are arguments. *)
From Coq Require Import ZArith List Bool.
Import ListNotations.
Local Open Scope Z_scope.

Definition bytes := list Z.

Definition is_space (c : Z) : bool := (c =? 32) || ((9 <=? c) && (c <=? 13)).
Definition is_digit (c : Z) : bool := (48 <=? c) && (c <=? 57).

Fixpoint skip_space (s : bytes) : bytes :=
  match s with
  | c :: r => if is_space c then skip_space r else s
  | [] => []
  end.

(** value of the maximal digit prefix (exact, unbounded) *)
Fixpoint digits_val (s : bytes) (acc : Z) : Z :=
  match s with
  | c :: r => if is_digit c then digits_val r (acc * 10 + (c - 48)) else acc
  | [] => acc
  end.

Definition LONG_MAX : Z := 9223372036854775807.
Definition LONG_MIN : Z := -9223372036854775808.

Definition split_sign (s : bytes) : bool * bytes :=
  match s with
  | c :: r => if c =? 45 then (true, r) else if c =? 43 then (false, r) else (false, s)
  | [] => (false, s)
  end.

Definition strtol (s : bytes) : Z :=
  let (neg, s2) := split_sign (skip_space s) in
  let v := digits_val s2 0 in
  if neg then Z.max LONG_MIN (- v) else Z.min LONG_MAX v.

(** conversion of an integer value to [int] (32 bit, two's complement) and to
    [size_t] (64 bit) *)
Definition to_int (z : Z) : Z := (z + 2147483648) mod 4294967296 - 2147483648.
Definition to_size_t (z : Z) : Z := z mod 18446744073709551616.

Definition atoi (s : bytes) : Z := to_int (strtol s).

(** [size_t sz = 0; if (env) { int x = atoi(env); if (x > 0) sz = x; }
     if (sz <= 0) sz = DEF; return sz;]          (after commit 210245e) *)
Definition default_stacksize (dflt : Z) (e : option bytes) : Z :=
  let sz := match e with
            | Some s => let x := atoi s in if x >? 0 then to_size_t x else 0
            | None => 0
            end in
  if sz <=? 0 then to_size_t dflt else sz.

(** [size_t sz = 0; if (env) sz = atoi(env); if (sz <= 0) sz = DEF; return sz;]
    - the stack-size function before commit 210245e, and today's guard-size
    function *)
Definition default_size_unsigned (dflt : Z) (e : option bytes) : Z :=
  let sz := match e with
            | Some s => to_size_t (atoi s)
            | None => 0
            end in
  if sz <=? 0 then to_size_t dflt else sz.

Definition default_stacksize_prefix := default_size_unsigned.
Definition default_guardsize := default_size_unsigned.

(** [int nw = 0; if (env) nw = atoi(env); else if (env2) nw = atoi(env2);
     if (nw <= 0) nw = ncpu; return nw;]   (returned as size_t) *)
Definition default_num_workers (ncpu : Z) (e_nw e_wn : option bytes) : Z :=
  let nw := match e_nw with
            | Some s => atoi s
            | None => match e_wn with Some s => atoi s | None => 0 end
            end in
  let nw := if nw <=? 0 then to_int ncpu else nw in
  to_size_t nw.

(** [int v = DEF; if (env) v = atoi(env); return v;]   (returned as size_t) *)
Definition default_flag (dflt : Z) (e : option bytes) : Z :=
  let v := match e with Some s => atoi s | None => to_int dflt end in
  to_size_t v.

Definition default_bind_workers := default_flag.
Definition default_child_first := default_flag.

(** the built-in defaults *)
Record defaults := { d_stack : Z; d_guard : Z; d_bind : Z; d_cf : Z }.

(** the six configuration variables, [None] = unset *)
Record environ := {
  e_stksize : option bytes; e_guardsize : option bytes; e_num_workers : option bytes;
  e_worker_num : option bytes; e_bind : option bytes; e_child_first : option bytes }.

(** [myth_globalattr_t]: two size_t and four int fields *)
Record gattr := { ga_stack : Z; ga_guard : Z; ga_nw : Z; ga_bind : Z; ga_cf : Z; ga_init : Z }.

Definition globalattr_init (d : defaults) (ncpu : Z) (ev : environ) : gattr :=
  {| ga_stack := default_stacksize (d_stack d) (e_stksize ev);
     ga_guard := default_guardsize (d_guard d) (e_guardsize ev);
     ga_nw := to_int (default_num_workers ncpu (e_num_workers ev) (e_worker_num ev));
     ga_bind := to_int (default_bind_workers (d_bind d) (e_bind ev));
     ga_cf := to_int (default_child_first (d_cf d) (e_child_first ev));
     ga_init := 1 |}.

(** [if (attr) g_attr = *attr; else if (!g_attr.initialized) init(&g_attr);] *)
Definition effective_attr (d : defaults) (ncpu : Z) (ev : environ)
           (attr : option gattr) (g : gattr) : gattr :=
  match attr with
  | Some a => a
  | None => if ga_init g =? 0 then globalattr_init d ncpu ev else g
  end.

(** ranks handed to [myth_worker_thread_fn]: [for (i = 1; i < nw; i++) create(i);] then
    the caller itself runs rank 0 *)
Fixpoint ranks_from (i : Z) (k : nat) : list Z :=
  match k with
  | O => []
  | S k' => i :: ranks_from (i + 1) k'
  end.
Definition worker_ranks (nw : Z) : list Z := ranks_from 1 (Z.to_nat (nw - 1)) ++ [0].

(** [if (g_attr.bind_workers > 0) myth_bind_worker(rank);] *)
Definition binds (a : gattr) : bool := ga_bind a >? 0.
