(** C15 (c) — proofs about the initialise-once / finalise protocol
    (Init/InitProtoModel.v), for any number of callers, any programs and any
    schedule, by an inductive invariant over Lib/Interleave.v.

    The invariant is stated on the number of callers at each program point
    ([cnt k]): every step moves exactly one caller from one point to another, so
    each proof obligation is linear arithmetic. *)
From Coq Require Import ZArith List Bool Lia Arith.
From MT Require Import Lib.Interleave Init.InitProtoModel.
Import ListNotations.
Local Open Scope Z_scope.

(** ** program points as numbers *)
Definition klass (t : thread) : nat :=
  match t_pc t with
  | Idle => 0 | IRead _ _ => 1 | ICas _ _ => 2 | IWait => 3 | IReally _ _ => 4 | IPublish => 5
  | FRead => 6 | FWait => 7 | FMigrate => 8 | FFlags => 9 | FJoin => 10 | FPublish => 11
  | DoneI _ => 12 | DoneF _ => 13 | DoneO => 14
  end%nat.

Definition b2n (b : bool) : nat := if b then 1%nat else 0%nat.

Fixpoint cntl (k : nat) (l : list thread) : nat :=
  match l with
  | [] => 0%nat
  | t :: r => (b2n (klass t =? k)%nat + cntl k r)%nat
  end.

Definition cnt (k : nat) (s : state) : nat := cntl k (threads s).

Lemma set_nth_length {A} (l : list A) : forall i x, length (set_nth l i x) = length l.
Proof.
  induction l as [|y l IH]; intros i x; cbn [set_nth length]; [reflexivity|].
  destruct i as [|j]; cbn [length]; [reflexivity|]. rewrite IH. reflexivity.
Qed.

Lemma nth_error_set_nth {A} (l : list A) : forall i j x, nth_error l i <> None ->
  nth_error (set_nth l i x) j = if Nat.eqb i j then Some x else nth_error l j.
Proof.
  induction l as [|y l IH]; intros i j x Hi.
  - destruct i; cbn in Hi; contradiction Hi; reflexivity.
  - destruct i as [|i'], j as [|j']; cbn [set_nth nth_error Nat.eqb]; try reflexivity.
    apply IH. exact Hi.
Qed.

Lemma cntl_set_nth k (l : list thread) : forall i t t', nth_error l i = Some t ->
  (cntl k (set_nth l i t') + b2n (klass t =? k) = cntl k l + b2n (klass t' =? k))%nat.
Proof.
  induction l as [|y l IH]; intros i t t' Hi.
  - destruct i; discriminate.
  - destruct i as [|j]; cbn [set_nth nth_error cntl] in *.
    + inversion Hi; subst. lia.
    + specialize (IH j t t' Hi). lia.
Qed.

Lemma cntl_ge1 k (l : list thread) : forall i t, nth_error l i = Some t -> klass t = k -> (1 <= cntl k l)%nat.
Proof.
  induction l as [|y l IH]; intros i t Hi Hk.
  - destruct i; discriminate.
  - destruct i as [|j]; cbn [nth_error cntl] in *.
    + inversion Hi; subst. rewrite Nat.eqb_refl. cbn. lia.
    + specialize (IH j t Hi Hk). lia.
Qed.

(** the fifteen counts add up to the number of callers *)
Lemma cntl_total (l : list thread) :
  (cntl 0 l + cntl 1 l + cntl 2 l + cntl 3 l + cntl 4 l + cntl 5 l + cntl 6 l + cntl 7 l + cntl 8 l +
   cntl 9 l + cntl 10 l + cntl 11 l + cntl 12 l + cntl 13 l + cntl 14 l = length l)%nat.
Proof.
  induction l as [|t l IH]; cbn [cntl length]; [reflexivity|].
  assert (Hk : (klass t < 15)%nat) by (unfold klass; destruct (t_pc t); lia).
  destruct (klass t) as [|[|[|[|[|[|[|[|[|[|[|[|[|[|[|k]]]]]]]]]]]]]]]; cbn [Nat.eqb b2n]; lia.
Qed.

Definition fini_sum (l : list thread) : nat :=
  (cntl 6 l + cntl 7 l + cntl 8 l + cntl 9 l + cntl 10 l + cntl 11 l + cntl 13 l)%nat.

Lemma no_fini_counts (l : list thread) :
  forallb (fun t => negb (in_fini t)) l = true -> fini_sum l = 0%nat.
Proof.
  unfold fini_sum. induction l as [|t l IH]; cbn [forallb cntl]; [reflexivity|].
  intros H. apply andb_prop in H. destruct H as [H1 H2]. specialize (IH H2).
  unfold in_fini, klass in *. destruct (t_pc t); cbn in H1; try discriminate; cbn [Nat.eqb b2n]; lia.
Qed.

Lemma forallb_idle_counts (l : list thread) : forallb is_idle l = true -> cntl 0 l = length l.
Proof.
  induction l as [|t l IH]; cbn [forallb cntl length]; [reflexivity|].
  intros H. apply andb_prop in H. destruct H as [H1 H2]. rewrite (IH H2).
  unfold is_idle, klass in *. destruct (t_pc t); try discriminate. reflexivity.
Qed.

Lemma others_idle_counts (l : list thread) : forall i t, nth_error l i = Some t ->
  others is_idle l i = true -> (cntl 0 l + 1 = length l + b2n (klass t =? 0))%nat.
Proof.
  induction l as [|y l IH]; intros i t Hi Ho.
  - destruct i; discriminate.
  - destruct i as [|j]; cbn [others nth_error cntl length] in *.
    + inversion Hi; subst. rewrite (forallb_idle_counts l Ho). lia.
    + apply andb_prop in Ho. destruct Ho as [H1 H2]. specialize (IH j t Hi H2).
      assert (klass y = 0%nat) by (unfold is_idle, klass in *; destruct (t_pc y); try discriminate; reflexivity).
      rewrite H. cbn [Nat.eqb b2n]. lia.
Qed.

(** ** the invariant *)
Definition live (s : state) : Prop := cnt 5 s = 1%nat \/ (st s = 2 /\ cnt 11 s = 0%nat).

Record Inv (s : state) : Prop := {
  i_st : st s = 0 \/ st s = 1 \/ st s = 2;
  i_one : (cnt 4 s + cnt 5 s <= 1)%nat;                          (* at most one initialiser *)
  i_st1 : st s = 1 <-> (cnt 4 s + cnt 5 s = 1)%nat;               (* and then the state is "initializing" *)
  i_cas : n_cas s = (n_really s + cnt 4 s)%nat;
  i_excl : fini_sum (threads s) = 0%nat \/
           (fini_sum (threads s) = 1%nat /\ (cnt 0 s + 1 = length (threads s))%nat);  (* fini runs alone *)
  i_donei : (1 <= cnt 12 s)%nat -> st s = 2;
  i_live : live s -> n_really s = S (n_fini s) /\ gnw s = Some (nworkers s);
  i_dead : ~ live s -> n_really s = n_fini s /\ nworkers s = 0;
  i_fwait : (1 <= cnt 7 s + cnt 8 s + cnt 9 s + cnt 10 s + cnt 11 s)%nat -> st s = 2;
  i_fread : (1 <= cnt 6 s)%nat -> st s <> 1;
  i_flags0 : live s -> cnt 10 s = 0%nat -> flags s = start_flags (nworkers s);
  i_flags1 : cnt 10 s = 1%nat -> flags s = raise_flags (start_flags (nworkers s)) }.

Definition initial (n : nat) (s : state) : Prop := s = init_state n.

Lemma cntl_repeat_idle k n : cntl k (repeat {| t_pc := Idle; t_rank := None |} n) = if (k =? 0)%nat then n else 0%nat.
Proof.
  induction n as [|n IH]; cbn [repeat cntl]; [destruct (k =? 0)%nat; reflexivity|].
  rewrite IH. unfold klass; cbn [t_pc]. destruct k as [|k]; cbn [Nat.eqb b2n]; lia.
Qed.

Lemma inv_init n : Inv (init_state n).
Proof.
  assert (Hc : forall k, cnt k (init_state n) = if (k =? 0)%nat then n else 0%nat)
    by (intros k; unfold cnt, init_state; cbn [threads]; apply cntl_repeat_idle).
  assert (Hf : fini_sum (threads (init_state n)) = 0%nat).
  { unfold fini_sum. fold (cnt 6 (init_state n)) (cnt 7 (init_state n)) (cnt 8 (init_state n)) (cnt 9 (init_state n))
      (cnt 10 (init_state n)) (cnt 11 (init_state n)) (cnt 13 (init_state n)). rewrite !Hc. reflexivity. }
  assert (Hnl : ~ live (init_state n)).
  { unfold live. rewrite !Hc. cbn. lia. }
  constructor; rewrite ?Hc; cbn [init_state st n_cas n_really n_fini gnw nworkers flags Nat.eqb]; try lia.
  - intros H. contradiction.
  - intros H. contradiction.
Qed.

(** effect of one step on the counts: the acting caller moves from its old
    program point to the new one *)
Ltac counts s i t t' Hn Hpc :=
  let go k := (let H := fresh "Hc" in
               pose proof (cntl_set_nth k (threads s) i t t' Hn) as H;
               unfold klass in H; cbn [t_pc at_pc] in H; rewrite ?Hpc in H; cbn [Nat.eqb b2n] in H) in
  go 0%nat; go 1%nat; go 2%nat; go 3%nat; go 4%nat; go 5%nat; go 6%nat; go 7%nat; go 8%nat; go 9%nat;
  go 10%nat; go 11%nat; go 12%nat; go 13%nat; go 14%nat.

Ltac open_state :=
  unfold live, cnt, fini_sum in *;
  cbn [threads st gnw nworkers flags n_cas n_really n_fini with_thread] in *;
  rewrite ?set_nth_length in *.

(** what is left after linear arithmetic: facts inherited from the old state
    (premises re-established by arithmetic) or contradictory premises *)
Ltac oldf Ilive Idead Iflags0 Iflags1 :=
  intros; first [ lia | apply Ilive; lia | apply Idead; lia | apply Iflags0; lia | apply Iflags1; lia | exfalso; lia ].

Lemma inv_step s a s' : Inv s -> step s a = Some s' -> Inv s'.
Proof.
  intros HI Hs. destruct a as [i e]. unfold step in Hs.
  destruct (nth_error (threads s) i) as [t|] eqn:Hn; [|discriminate].
  pose proof (cntl_total (threads s)) as Htot.
  destruct HI as [Ist Ione Ist1 Icas Iexcl Idonei Ilive Idead Ifwait Ifread Iflags0 Iflags1].
  destruct e as [o| |r|]; destruct (t_pc t) eqn:Hpc; try discriminate.
  - (* Call *)
    destruct o as [a d| |n|r].
    + (* OpInit *)
      destruct (no_fini s) eqn:Hnf; [|discriminate]. inversion Hs; subst s'; clear Hs.
      pose proof (no_fini_counts (threads s) Hnf) as Hf0.
      counts s i t (at_pc t (IRead a d)) Hn Hpc.
      constructor; open_state; try lia; oldf Ilive Idead Iflags0 Iflags1.
    + (* OpFini *)
      destruct (others is_idle (threads s) i && ((st s =? 0) || has_rank t)) eqn:Hg; [|discriminate].
      apply andb_prop in Hg. destruct Hg as [Hoth _]. inversion Hs; subst s'; clear Hs.
      pose proof (others_idle_counts (threads s) i t Hn Hoth) as Hid.
      unfold klass in Hid. rewrite Hpc in Hid. cbn [Nat.eqb b2n] in Hid.
      counts s i t (at_pc t FRead) Hn Hpc.
      constructor; open_state; try lia; oldf Ilive Idead Iflags0 Iflags1.
    + (* OpSetNW *)
      destruct (others is_idle (threads s) i && (st s =? 0)) eqn:Hg; [|discriminate].
      apply andb_prop in Hg. destruct Hg as [Hoth Hst0]. apply Z.eqb_eq in Hst0. inversion Hs; subst s'; clear Hs.
      pose proof (others_idle_counts (threads s) i t Hn Hoth) as Hid.
      unfold klass in Hid. rewrite Hpc in Hid. cbn [Nat.eqb b2n] in Hid.
      counts s i t (at_pc t DoneO) Hn Hpc.
      constructor; open_state; try lia; oldf Ilive Idead Iflags0 Iflags1.
    + (* OpMove *)
      destruct (no_fini s && (st s =? 2) && has_rank t && (0 <=? r) && (r <? nworkers s)) eqn:Hg; [|discriminate].
      repeat (apply andb_prop in Hg; destruct Hg as [Hg ?]). inversion Hs; subst s'; clear Hs.
      pose proof (no_fini_counts (threads s) Hg) as Hf0.
      counts s i t {| t_pc := DoneO; t_rank := Some r |} Hn Hpc.
      constructor; open_state; try lia; oldf Ilive Idead Iflags0 Iflags1.
  - (* Tick, IRead *)
    inversion Hs; subst s'; clear Hs.
    destruct (st s =? 2) eqn:E2.
    + apply Z.eqb_eq in E2. counts s i t (at_pc t (DoneI 1)) Hn Hpc.
      constructor; open_state; try lia; oldf Ilive Idead Iflags0 Iflags1.
    + counts s i t (at_pc t (ICas a d)) Hn Hpc.
      constructor; open_state; try lia; oldf Ilive Idead Iflags0 Iflags1.
  - (* Tick, ICas *)
    destruct (st s =? 0) eqn:E0; inversion Hs; subst s'; clear Hs.
    + apply Z.eqb_eq in E0. counts s i t (at_pc t (IReally a d)) Hn Hpc.
      constructor; open_state; try lia; oldf Ilive Idead Iflags0 Iflags1.
    + counts s i t (at_pc t IWait) Hn Hpc.
      constructor; open_state; try lia; oldf Ilive Idead Iflags0 Iflags1.
  - (* Tick, IWait *)
    inversion Hs; subst s'; clear Hs.
    destruct (st s =? 2) eqn:E2.
    + apply Z.eqb_eq in E2. counts s i t (at_pc t (DoneI 1)) Hn Hpc.
      constructor; open_state; try lia; oldf Ilive Idead Iflags0 Iflags1.
    + counts s i t (at_pc t IWait) Hn Hpc.
      constructor; open_state; try lia; oldf Ilive Idead Iflags0 Iflags1.
  - (* Tick, IReally *)
    inversion Hs; subst s'; clear Hs.
    counts s i t {| t_pc := IPublish; t_rank := Some 0 |} Hn Hpc.
    assert (Hnl : ~ (cntl 5 (threads s) = 1%nat \/ st s = 2 /\ cntl 11 (threads s) = 0%nat))
      by (unfold cnt in *; lia).
    destruct (Idead Hnl) as [Hd1 Hd2].
    constructor; open_state; try lia.
    * intros _. split; [lia|reflexivity].
    * intros Hl. exfalso. apply Hl. left. lia.
    * intros _ _. reflexivity.
  - (* Tick, IPublish *)
    inversion Hs; subst s'; clear Hs.
    counts s i t (at_pc t (DoneI 1)) Hn Hpc.
    assert (Hl0 : cntl 5 (threads s) = 1%nat \/ st s = 2 /\ cntl 11 (threads s) = 0%nat)
      by (unfold cnt in *; left; lia).
    destruct (Ilive Hl0) as [Hl1 Hl2].
    constructor; open_state; try lia; oldf Ilive Idead Iflags0 Iflags1.
  - (* Tick, FRead *)
    inversion Hs; subst s'; clear Hs.
    destruct (st s =? 0) eqn:E0.
    + apply Z.eqb_eq in E0. counts s i t (at_pc t (DoneF 1)) Hn Hpc.
      constructor; open_state; try lia; oldf Ilive Idead Iflags0 Iflags1.
    + apply Z.eqb_neq in E0. counts s i t (at_pc t FWait) Hn Hpc.
      constructor; open_state; try lia; oldf Ilive Idead Iflags0 Iflags1.
  - (* Tick, FWait *)
    inversion Hs; subst s'; clear Hs.
    destruct (st s =? 2) eqn:E2.
    + apply Z.eqb_eq in E2. counts s i t (at_pc t FMigrate) Hn Hpc.
      constructor; open_state; try lia; oldf Ilive Idead Iflags0 Iflags1.
    + counts s i t (at_pc t FWait) Hn Hpc.
      constructor; open_state; try lia; oldf Ilive Idead Iflags0 Iflags1.
  - (* Tick, FMigrate *)
    destruct (rank_is t 0); inversion Hs; subst s'; clear Hs.
    counts s i t (at_pc t FFlags) Hn Hpc.
    constructor; open_state; try lia; oldf Ilive Idead Iflags0 Iflags1.
  - (* Tick, FFlags *)
    inversion Hs; subst s'; clear Hs.
    counts s i t (at_pc t FJoin) Hn Hpc.
    assert (H9 : (1 <= cntl 9 (threads s))%nat) by (apply (cntl_ge1 9 (threads s) i t Hn); unfold klass; rewrite Hpc; reflexivity).
    assert (Hst2 : st s = 2) by (apply Ifwait; unfold cnt; lia).
    assert (Hl0 : cntl 5 (threads s) = 1%nat \/ st s = 2 /\ cntl 11 (threads s) = 0%nat)
      by (unfold cnt, fini_sum in *; right; lia).
    assert (Hfl : flags s = start_flags (nworkers s)) by (apply Iflags0; [exact Hl0|unfold cnt, fini_sum in *; lia]).
    constructor; open_state; try lia.
    * oldf Ilive Idead Iflags0 Iflags1.
    * oldf Ilive Idead Iflags0 Iflags1.
    * intros. exfalso. lia.
    * intros _. rewrite Hfl. reflexivity.
  - (* Tick, FJoin *)
    inversion Hs; subst s'; clear Hs.
    counts s i t {| t_pc := FPublish; t_rank := None |} Hn Hpc.
    assert (H10 : (1 <= cntl 10 (threads s))%nat) by (apply (cntl_ge1 10 (threads s) i t Hn); unfold klass; rewrite Hpc; reflexivity).
    assert (Hst2 : st s = 2) by (apply Ifwait; unfold cnt; lia).
    assert (Hl0 : cntl 5 (threads s) = 1%nat \/ st s = 2 /\ cntl 11 (threads s) = 0%nat)
      by (unfold cnt, fini_sum in *; right; lia).
    destruct (Ilive Hl0) as [Hl1 Hl2].
    constructor; open_state; try lia.
    * intros Hl. exfalso. lia.
    * intros _. split; [lia|reflexivity].
    * intros Hl. exfalso. lia.
    * intros Hl. exfalso. lia.
  - (* Tick, FPublish *)
    inversion Hs; subst s'; clear Hs.
    counts s i t (at_pc t (DoneF 0)) Hn Hpc.
    assert (H11 : (1 <= cntl 11 (threads s))%nat) by (apply (cntl_ge1 11 (threads s) i t Hn); unfold klass; rewrite Hpc; reflexivity).
    assert (Hnl : ~ (cntl 5 (threads s) = 1%nat \/ st s = 2 /\ cntl 11 (threads s) = 0%nat)).
    { unfold cnt, fini_sum in *. intros [H|[_ H]]; [|lia].
      assert (st s = 2) by (apply Ifwait; lia). lia. }
    destruct (Idead Hnl) as [Hd1 Hd2].
    constructor; open_state; try lia.
    * intros Hl. exfalso. lia.
    * intros _. split; [lia|exact Hd2].
    * intros Hl. exfalso. lia.
    * intros Hl. exfalso. lia.
  - (* Mig, FMigrate *)
    destruct (has_rank t && negb (rank_is t 0) && (0 <=? r) && (r <? nworkers s)); inversion Hs; subst s'; clear Hs.
    counts s i t {| t_pc := FMigrate; t_rank := Some r |} Hn Hpc.
    constructor; open_state; try lia; oldf Ilive Idead Iflags0 Iflags1.
  - (* Ret, DoneI *)
    inversion Hs; subst s'; clear Hs. counts s i t (at_pc t Idle) Hn Hpc.
    constructor; open_state; try lia; oldf Ilive Idead Iflags0 Iflags1.
  - (* Ret, DoneF *)
    inversion Hs; subst s'; clear Hs. counts s i t (at_pc t Idle) Hn Hpc.
    constructor; open_state; try lia; oldf Ilive Idead Iflags0 Iflags1.
  - (* Ret, DoneO *)
    inversion Hs; subst s'; clear Hs. counts s i t (at_pc t Idle) Hn Hpc.
    constructor; open_state; try lia; oldf Ilive Idead Iflags0 Iflags1.
Qed.
