(** C15 (c) — proofs about the initialise-once / finalise protocol
    (Init/InitProtoModel.v), for any number of callers, any programs and any
    schedule, by an inductive invariant over Lib/Interleave.v.

    The invariant is stated on the number of callers at each program point
    ([cnt k]): every step moves exactly one caller from one point to another, so
    each proof obligation is linear arithmetic. *)
From Coq Require Import ZArith List Bool Lia Arith.
From MT Require Import Lib.Interleave Init.InitProtoModel.
Import ListNotations.
Local Open Scope Z_scope.

(** ** program points as numbers *)
Definition klass (t : thread) : nat :=
  match t_pc t with
  | Idle => 0 | IRead _ _ => 1 | ICas _ _ => 2 | IWait => 3 | IReally _ _ => 4 | IPublish => 5
  | FRead => 6 | FWait => 7 | FMigrate => 8 | FFlags => 9 | FJoin => 10 | FPublish => 11
  | DoneI _ => 12 | DoneF _ => 13 | DoneO => 14
  end%nat.

Definition b2n (b : bool) : nat := if b then 1%nat else 0%nat.

Fixpoint cntl (k : nat) (l : list thread) : nat :=
  match l with
  | [] => 0%nat
  | t :: r => (b2n (klass t =? k)%nat + cntl k r)%nat
  end.

Definition cnt (k : nat) (s : state) : nat := cntl k (threads s).

Lemma set_nth_length {A} (l : list A) : forall i x, length (set_nth l i x) = length l.
Proof.
  induction l as [|y l IH]; intros i x; cbn [set_nth length]; [reflexivity|].
  destruct i as [|j]; cbn [length]; [reflexivity|]. rewrite IH. reflexivity.
Qed.

Lemma nth_error_set_nth {A} (l : list A) : forall i j x, nth_error l i <> None ->
  nth_error (set_nth l i x) j = if Nat.eqb i j then Some x else nth_error l j.
Proof.
  induction l as [|y l IH]; intros i j x Hi.
  - destruct i; cbn in Hi; contradiction Hi; reflexivity.
  - destruct i as [|i'], j as [|j']; cbn [set_nth nth_error Nat.eqb]; try reflexivity.
    apply IH. exact Hi.
Qed.

Lemma cntl_set_nth k (l : list thread) : forall i t t', nth_error l i = Some t ->
  (cntl k (set_nth l i t') + b2n (klass t =? k) = cntl k l + b2n (klass t' =? k))%nat.
Proof.
  induction l as [|y l IH]; intros i t t' Hi.
  - destruct i; discriminate.
  - destruct i as [|j]; cbn [set_nth nth_error cntl] in *.
    + inversion Hi; subst. lia.
    + specialize (IH j t t' Hi). lia.
Qed.

Lemma cntl_ge1 k (l : list thread) : forall i t, nth_error l i = Some t -> klass t = k -> (1 <= cntl k l)%nat.
Proof.
  induction l as [|y l IH]; intros i t Hi Hk.
  - destruct i; discriminate.
  - destruct i as [|j]; cbn [nth_error cntl] in *.
    + inversion Hi; subst. rewrite Nat.eqb_refl. cbn. lia.
    + specialize (IH j t Hi Hk). lia.
Qed.

(** the fifteen counts add up to the number of callers *)
Lemma cntl_total (l : list thread) :
  (cntl 0 l + cntl 1 l + cntl 2 l + cntl 3 l + cntl 4 l + cntl 5 l + cntl 6 l + cntl 7 l + cntl 8 l +
   cntl 9 l + cntl 10 l + cntl 11 l + cntl 12 l + cntl 13 l + cntl 14 l = length l)%nat.
Proof.
  induction l as [|t l IH]; cbn [cntl length]; [reflexivity|].
  assert (Hk : (klass t < 15)%nat) by (unfold klass; destruct (t_pc t); lia).
  destruct (klass t) as [|[|[|[|[|[|[|[|[|[|[|[|[|[|[|k]]]]]]]]]]]]]]]; cbn [Nat.eqb b2n]; lia.
Qed.

Definition fini_sum (l : list thread) : nat :=
  (cntl 6 l + cntl 7 l + cntl 8 l + cntl 9 l + cntl 10 l + cntl 11 l + cntl 13 l)%nat.

Lemma no_fini_counts (l : list thread) :
  forallb (fun t => negb (in_fini t)) l = true -> fini_sum l = 0%nat.
Proof.
  unfold fini_sum. induction l as [|t l IH]; cbn [forallb cntl]; [reflexivity|].
  intros H. apply andb_prop in H. destruct H as [H1 H2]. specialize (IH H2).
  unfold in_fini, klass in *. destruct (t_pc t); cbn in H1; try discriminate; cbn [Nat.eqb b2n]; lia.
Qed.

Lemma forallb_idle_counts (l : list thread) : forallb is_idle l = true -> cntl 0 l = length l.
Proof.
  induction l as [|t l IH]; cbn [forallb cntl length]; [reflexivity|].
  intros H. apply andb_prop in H. destruct H as [H1 H2]. rewrite (IH H2).
  unfold is_idle, klass in *. destruct (t_pc t); try discriminate. reflexivity.
Qed.

Lemma others_idle_counts (l : list thread) : forall i t, nth_error l i = Some t ->
  others is_idle l i = true -> (cntl 0 l + 1 = length l + b2n (klass t =? 0))%nat.
Proof.
  induction l as [|y l IH]; intros i t Hi Ho.
  - destruct i; discriminate.
  - destruct i as [|j]; cbn [others nth_error cntl length] in *.
    + inversion Hi; subst. rewrite (forallb_idle_counts l Ho). lia.
    + apply andb_prop in Ho. destruct Ho as [H1 H2]. specialize (IH j t Hi H2).
      assert (klass y = 0%nat) by (unfold is_idle, klass in *; destruct (t_pc y); try discriminate; reflexivity).
      rewrite H. cbn [Nat.eqb b2n]. lia.
Qed.

(** ** the invariant: the system is in one of eight phases *)
Section Phases.
  Variable s : state.
  Let c (k : nat) := cnt k s.
  Let n := length (threads s).
  Let F := fini_sum (threads s).

  (* uninitialised, nobody finalising *)
  Definition phA : Prop :=
    st s = 0 /\ F = 0%nat /\ c 4 = 0%nat /\ c 5 = 0%nat /\ c 12 = 0%nat /\
    n_cas s = n_really s /\ n_really s = n_fini s /\ nworkers s = 0.
  (* uninitialised, one caller inside myth_fini (entering, or returning), everybody else outside *)
  Definition phB : Prop :=
    st s = 0 /\ (c 0 + 1 = n)%nat /\ (c 6 + c 13 = 1)%nat /\
    n_cas s = n_really s /\ n_really s = n_fini s /\ nworkers s = 0.
  (* the CAS winner is about to run the real initialisation *)
  Definition phC : Prop :=
    st s = 1 /\ F = 0%nat /\ c 4 = 1%nat /\ c 5 = 0%nat /\ c 12 = 0%nat /\
    n_cas s = S (n_really s) /\ n_really s = n_fini s /\ nworkers s = 0.
  (* the real initialisation is complete, not yet published *)
  Definition phD : Prop :=
    st s = 1 /\ F = 0%nat /\ c 4 = 0%nat /\ c 5 = 1%nat /\ c 12 = 0%nat /\
    n_cas s = n_really s /\ n_really s = S (n_fini s) /\
    gnw s = Some (nworkers s) /\ flags s = start_flags (nworkers s).
  (* initialised, nobody finalising *)
  Definition phE : Prop :=
    st s = 2 /\ F = 0%nat /\ c 4 = 0%nat /\ c 5 = 0%nat /\
    n_cas s = n_really s /\ n_really s = S (n_fini s) /\
    gnw s = Some (nworkers s) /\ flags s = start_flags (nworkers s).
  (* finalisation before the exit flags are raised *)
  Definition phF : Prop :=
    st s = 2 /\ (c 0 + 1 = n)%nat /\ (c 6 + c 7 + c 8 + c 9 = 1)%nat /\
    n_cas s = n_really s /\ n_really s = S (n_fini s) /\
    gnw s = Some (nworkers s) /\ flags s = start_flags (nworkers s).
  (* exit flags raised, workers not yet joined *)
  Definition phG : Prop :=
    st s = 2 /\ (c 0 + 1 = n)%nat /\ c 10 = 1%nat /\
    n_cas s = n_really s /\ n_really s = S (n_fini s) /\
    gnw s = Some (nworkers s) /\ flags s = raise_flags (start_flags (nworkers s)).
  (* torn down, "uninit" not yet published *)
  Definition phH : Prop :=
    st s = 2 /\ (c 0 + 1 = n)%nat /\ c 11 = 1%nat /\
    n_cas s = n_really s /\ n_really s = n_fini s /\ nworkers s = 0.

  Definition Inv : Prop := phA \/ phB \/ phC \/ phD \/ phE \/ phF \/ phG \/ phH.
End Phases.

Definition initial (n : nat) (s : state) : Prop := s = init_state n.

Lemma cntl_repeat_idle k n : cntl k (repeat {| t_pc := Idle; t_rank := None |} n) = if (k =? 0)%nat then n else 0%nat.
Proof.
  induction n as [|n IH]; cbn [repeat cntl]; [destruct (k =? 0)%nat; reflexivity|].
  rewrite IH. unfold klass; cbn [t_pc]. destruct k as [|k]; cbn [Nat.eqb b2n]; lia.
Qed.

Lemma inv_init n : Inv (init_state n).
Proof.
  left. unfold phA, cnt, fini_sum, init_state; cbn [threads st n_cas n_really n_fini nworkers].
  rewrite !cntl_repeat_idle. cbn [Nat.eqb]. repeat split.
Qed.

(** effect of one step on the counts: the acting caller moves from its old
    program point to the new one *)
Ltac counts s i t t' Hn Hpc :=
  let go k := (let H := fresh "Hc" in
               pose proof (cntl_set_nth k (threads s) i t t' Hn) as H;
               unfold klass in H; cbn [t_pc at_pc] in H; rewrite ?Hpc in H; cbn [Nat.eqb b2n] in H) in
  go 0%nat; go 1%nat; go 2%nat; go 3%nat; go 4%nat; go 5%nat; go 6%nat; go 7%nat; go 8%nat; go 9%nat;
  go 10%nat; go 11%nat; go 12%nat; go 13%nat; go 14%nat.

Ltac open_state :=
  unfold phA, phB, phC, phD, phE, phF, phG, phH, cnt, fini_sum in *;
  cbn [threads st gnw nworkers flags n_cas n_really n_fini with_thread] in *;
  rewrite ?set_nth_length in *.

Ltac conj := repeat split; first [ lia | reflexivity | assumption | congruence ].

(** the new state is in one of the phases (or the step was impossible) *)
Ltac phase :=
  first [ solve [exfalso; lia]
        | solve [left; conj]
        | solve [right; left; conj]
        | solve [right; right; left; conj]
        | solve [right; right; right; left; conj]
        | solve [right; right; right; right; left; conj]
        | solve [right; right; right; right; right; left; conj]
        | solve [right; right; right; right; right; right; left; conj]
        | solve [right; right; right; right; right; right; right; conj] ].

Ltac phases HI :=
  destruct HI as [HI|[HI|[HI|[HI|[HI|[HI|[HI|HI]]]]]]];
  open_state; decompose [and] HI; clear HI; phase.

Lemma inv_step s a s' : Inv s -> step s a = Some s' -> Inv s'.
Proof.
  intros HI Hs. destruct a as [i e]. unfold step in Hs.
  destruct (nth_error (threads s) i) as [t|] eqn:Hn; [|discriminate].
  pose proof (cntl_total (threads s)) as Htot.
  unfold Inv in *.
  destruct e as [[a d| |n|r]| |r|]; destruct (t_pc t) eqn:Hpc; try discriminate.
  - (* Call OpInit *)
      destruct (no_fini s) eqn:Hnf; [|discriminate]. injection Hs as Hs; subst s'.
      pose proof (no_fini_counts (threads s) Hnf) as Hf0. unfold fini_sum in Hf0.
      counts s i t (at_pc t (IRead a d)) Hn Hpc. phases HI.
  - (* Call OpFini *)
      destruct (others is_idle (threads s) i && ((st s =? 0) || has_rank t)) eqn:Hg; [|discriminate].
      apply andb_prop in Hg. destruct Hg as [Hoth _]. injection Hs as Hs; subst s'.
      pose proof (others_idle_counts (threads s) i t Hn Hoth) as Hid.
      unfold klass in Hid. rewrite Hpc in Hid. cbn [Nat.eqb b2n] in Hid.
      counts s i t (at_pc t FRead) Hn Hpc. phases HI.
  - (* Call OpSetNW *)
      destruct (others is_idle (threads s) i && (st s =? 0)) eqn:Hg; [|discriminate].
      apply andb_prop in Hg. destruct Hg as [Hoth Hst0]. apply Z.eqb_eq in Hst0. injection Hs as Hs; subst s'.
      pose proof (others_idle_counts (threads s) i t Hn Hoth) as Hid.
      unfold klass in Hid. rewrite Hpc in Hid. cbn [Nat.eqb b2n] in Hid.
      counts s i t (at_pc t DoneO) Hn Hpc. phases HI.
  - (* Call OpMove *)
      destruct (no_fini s && (st s =? 2) && has_rank t && (0 <=? r) && (r <? nworkers s)) eqn:Hg; [|discriminate].
      repeat (apply andb_prop in Hg; destruct Hg as [Hg ?]). injection Hs as Hs; subst s'.
      pose proof (no_fini_counts (threads s) Hg) as Hf0. unfold fini_sum in Hf0.
      counts s i t {| t_pc := DoneO; t_rank := Some r |} Hn Hpc. phases HI.
  - (* Tick, IRead *)
    injection Hs as Hs; subst s'.
    destruct (st s =? 2) eqn:E2.
    + apply Z.eqb_eq in E2. counts s i t (at_pc t (DoneI 1)) Hn Hpc. phases HI.
    + apply Z.eqb_neq in E2. counts s i t (at_pc t (ICas a d)) Hn Hpc. phases HI.
  - (* Tick, ICas *)
    destruct (st s =? 0) eqn:E0; injection Hs as Hs; subst s'.
    + apply Z.eqb_eq in E0. counts s i t (at_pc t (IReally a d)) Hn Hpc. phases HI.
    + apply Z.eqb_neq in E0. counts s i t (at_pc t IWait) Hn Hpc. phases HI.
  - (* Tick, IWait *)
    injection Hs as Hs; subst s'.
    destruct (st s =? 2) eqn:E2.
    + apply Z.eqb_eq in E2. counts s i t (at_pc t (DoneI 1)) Hn Hpc. phases HI.
    + apply Z.eqb_neq in E2. counts s i t (at_pc t IWait) Hn Hpc. phases HI.
  - (* Tick, IReally *)
    injection Hs as Hs; subst s'.
    counts s i t {| t_pc := IPublish; t_rank := Some 0 |} Hn Hpc. phases HI.
  - (* Tick, IPublish *)
    injection Hs as Hs; subst s'.
    counts s i t (at_pc t (DoneI 1)) Hn Hpc. phases HI.
  - (* Tick, FRead *)
    injection Hs as Hs; subst s'.
    destruct (st s =? 0) eqn:E0.
    + apply Z.eqb_eq in E0. counts s i t (at_pc t (DoneF 1)) Hn Hpc. phases HI.
    + apply Z.eqb_neq in E0. counts s i t (at_pc t FWait) Hn Hpc. phases HI.
  - (* Tick, FWait *)
    injection Hs as Hs; subst s'.
    destruct (st s =? 2) eqn:E2.
    + apply Z.eqb_eq in E2. counts s i t (at_pc t FMigrate) Hn Hpc. phases HI.
    + apply Z.eqb_neq in E2. counts s i t (at_pc t FWait) Hn Hpc. phases HI.
  - (* Tick, FMigrate *)
    destruct (rank_is t 0); [|discriminate]. injection Hs as Hs; subst s'.
    counts s i t (at_pc t FFlags) Hn Hpc. phases HI.
  - (* Tick, FFlags *)
    injection Hs as Hs; subst s'.
    counts s i t (at_pc t FJoin) Hn Hpc. phases HI.
  - (* Tick, FJoin *)
    injection Hs as Hs; subst s'.
    counts s i t {| t_pc := FPublish; t_rank := None |} Hn Hpc. phases HI.
  - (* Tick, FPublish *)
    injection Hs as Hs; subst s'.
    counts s i t (at_pc t (DoneF 0)) Hn Hpc. phases HI.
  - (* Mig, FMigrate *)
    destruct (has_rank t && negb (rank_is t 0) && (0 <=? r) && (r <? nworkers s)); [|discriminate]. injection Hs as Hs; subst s'.
    counts s i t {| t_pc := FMigrate; t_rank := Some r |} Hn Hpc. phases HI.
  - (* Ret, DoneI *)
    injection Hs as Hs; subst s'. counts s i t (at_pc t Idle) Hn Hpc. phases HI.
  - (* Ret, DoneF *)
    injection Hs as Hs; subst s'. counts s i t (at_pc t Idle) Hn Hpc. phases HI.
  - (* Ret, DoneO *)
    injection Hs as Hs; subst s'. counts s i t (at_pc t Idle) Hn Hpc. phases HI.
Qed.

Theorem inv_reachable n s : reachable (initial n) step s -> Inv s.
Proof.
  apply (@invariant_rule state (nat * ev) (initial n) step Inv).
  - intros s0 ->. apply inv_init.
  - intros s0 a s1 HI Hs. eapply inv_step; eassumption.
Qed.

(** ** facts local to one caller *)
Definition local_ok (t : thread) : Prop :=
  (t_pc t = FFlags \/ t_pc t = FJoin -> t_rank t = Some 0) /\ (forall r, t_pc t = DoneI r -> r = 1).

Lemma rank_is_some t r : rank_is t r = true -> t_rank t = Some r.
Proof. unfold rank_is. destruct (t_rank t) as [k|]; [|discriminate]. intros H. apply Z.eqb_eq in H. subst. reflexivity. Qed.

Lemma local_step s i e s' : step s (i, e) = Some s' ->
  exists t t', nth_error (threads s) i = Some t /\ threads s' = set_nth (threads s) i t' /\ (local_ok t -> local_ok t').
Proof.
  unfold step. destruct (nth_error (threads s) i) as [t|] eqn:Hn; [|discriminate].
  intros Hs. exists t.
  destruct e as [[a d| |n|r]| |r|]; destruct (t_pc t) eqn:Hpc; try discriminate;
    repeat match type of Hs with
           | (if ?b then _ else _) = _ => destruct b eqn:?; try discriminate
           end;
    injection Hs as Hs; subst s'; cbn [threads with_thread];
    (eexists; split; [reflexivity|split; [reflexivity|]]);
    unfold local_ok; cbn [t_pc t_rank at_pc]; intros [H1 H2];
    (split; [intros [H|H]; try discriminate|intros r0 H; try discriminate]).
  all: try (injection H as <-; reflexivity).
  all: try (apply rank_is_some; assumption).
  all: try (apply H1; left; exact Hpc).
  all: try (destruct (st s =? 2); discriminate).
  all: try (destruct (st s =? 0); discriminate).
  all: try (destruct (st s =? 2); [injection H as <-; reflexivity|discriminate]).
Qed.

Lemma local_reachable n s : reachable (initial n) step s ->
  forall i t, nth_error (threads s) i = Some t -> local_ok t.
Proof.
  apply (@invariant_rule state (nat * ev) (initial n) step
           (fun s => forall i t, nth_error (threads s) i = Some t -> local_ok t)).
  - intros s0 -> i t Hn. unfold init_state in Hn; cbn [threads] in Hn.
    apply nth_error_In, repeat_spec in Hn. subst t. unfold local_ok; cbn [t_pc]. split; [intros [H|H]; discriminate|intros r H; discriminate].
  - intros s0 [i e] s1 HI Hs j tj Hj.
    destruct (local_step s0 i e s1 Hs) as (t & t' & Hn & Hth & Hloc).
    rewrite Hth in Hj. rewrite nth_error_set_nth in Hj by (rewrite Hn; discriminate).
    destruct (Nat.eqb i j) eqn:E.
    + injection Hj as <-. apply Hloc. eapply HI. exact Hn.
    + eapply HI. exact Hj.
Qed.

(** ** consequences *)
Definition initialiser (t : thread) : bool :=
  match t_pc t with IReally _ _ | IPublish => true | _ => false end.

Fixpoint cntp (p : thread -> bool) (l : list thread) : nat :=
  match l with [] => 0%nat | t :: r => (b2n (p t) + cntp p r)%nat end.

Lemma cntp_ge1 p l : forall i t, nth_error l i = Some t -> p t = true -> (1 <= cntp p l)%nat.
Proof.
  induction l as [|y l IH]; intros i t Hi Hp; [destruct i; discriminate|].
  destruct i as [|i']; cbn [nth_error cntp] in *.
  - injection Hi as ->. rewrite Hp. cbn. lia.
  - specialize (IH i' t Hi Hp). lia.
Qed.

Lemma cntp_two p l : forall i j ti tj, nth_error l i = Some ti -> nth_error l j = Some tj -> i <> j ->
  p ti = true -> p tj = true -> (2 <= cntp p l)%nat.
Proof.
  induction l as [|y l IH]; intros i j ti tj Hi Hj Hne Hpi Hpj; [destruct i; discriminate|].
  destruct i as [|i'], j as [|j']; cbn [nth_error cntp] in *.
  - contradiction Hne; reflexivity.
  - injection Hi as ->. rewrite Hpi. pose proof (cntp_ge1 p l j' tj Hj Hpj). cbn. lia.
  - injection Hj as ->. rewrite Hpj. pose proof (cntp_ge1 p l i' ti Hi Hpi). cbn. lia.
  - assert (i' <> j') by lia. specialize (IH i' j' ti tj Hi Hj H Hpi Hpj). lia.
Qed.

Lemma cntp_initialiser l : cntp initialiser l = (cntl 4 l + cntl 5 l)%nat.
Proof.
  induction l as [|t l IH]; cbn [cntp cntl]; [reflexivity|]. rewrite IH.
  unfold initialiser, klass. destruct (t_pc t); cbn [b2n Nat.eqb]; lia.
Qed.

Ltac by_phase HI :=
  destruct HI as [HI|[HI|[HI|[HI|[HI|[HI|[HI|HI]]]]]]];
  unfold phA, phB, phC, phD, phE, phF, phG, phH, cnt, fini_sum in HI; decompose [and] HI; clear HI.

Theorem init_once n s : reachable (initial n) step s ->
  (* the real initialisation and the tear-down alternate: exactly one initialisation per epoch *)
  (n_fini s <= n_really s <= S (n_fini s))%nat /\
  (n_really s <= n_cas s <= S (n_really s))%nat /\
  (* at most one caller is ever inside the real initialisation *)
  (forall i j ti tj, nth_error (threads s) i = Some ti -> nth_error (threads s) j = Some tj ->
                     initialiser ti = true -> initialiser tj = true -> i = j) /\
  (* a caller whose initialisation call has returned: it returned 1, the state is "initialized", the
     real initialisation of this epoch is complete and not torn down, the workers are those of g_attr *)
  (forall i t r, nth_error (threads s) i = Some t -> t_pc t = DoneI r ->
                 r = 1 /\ st s = 2 /\ n_really s = S (n_fini s) /\ gnw s = Some (nworkers s) /\
                 flags s = start_flags (nworkers s) /\ no_fini s = true) /\
  (* a caller whose finalisation has returned: the state is "uninit", everything is torn down *)
  (forall i t r, nth_error (threads s) i = Some t -> t_pc t = DoneF r ->
                 st s = 0 /\ n_really s = n_fini s /\ nworkers s = 0) /\
  (st s = 0 -> n_cas s = n_really s /\ n_really s = n_fini s /\ nworkers s = 0).
Proof.
  intros Hr. pose proof (inv_reachable n s Hr) as HI. pose proof (local_reachable n s Hr) as HL.
  pose proof (cntl_total (threads s)) as Htot.
  split; [by_phase HI; lia|]. split; [by_phase HI; lia|]. split; [|split; [|split]].
  - intros i j ti tj Hi Hj Hpi Hpj. destruct (Nat.eq_dec i j) as [E|E]; [exact E|exfalso].
    pose proof (cntp_two initialiser (threads s) i j ti tj Hi Hj E Hpi Hpj) as H2.
    rewrite cntp_initialiser in H2. by_phase HI; lia.
  - intros i t r Hi Hpc.
    assert (H12 : (1 <= cntl 12 (threads s))%nat)
      by (apply (cntl_ge1 12 (threads s) i t Hi); unfold klass; rewrite Hpc; reflexivity).
    split; [exact (proj2 (HL i t Hi) r Hpc)|].
    by_phase HI; try (exfalso; lia).
    repeat split; try assumption.
    unfold no_fini. apply forallb_forall. intros x Hx. apply In_nth_error in Hx. destruct Hx as [k Hk].
    destruct (in_fini x) eqn:Ef; [|reflexivity]. exfalso.
    assert (Hq' : exists q, (q = 6 \/ q = 7 \/ q = 8 \/ q = 9 \/ q = 10 \/ q = 11 \/ q = 13)%nat /\ klass x = q).
    { unfold in_fini, klass in *. destruct (t_pc x); try discriminate; eexists; (split; [|reflexivity]); lia. }
    destruct Hq' as (q & Hq & Hkq). pose proof (cntl_ge1 q (threads s) k x Hk Hkq). 
    destruct Hq as [->|[->|[->|[->|[->|[->| ->]]]]]]; lia.
  - intros i t r Hi Hpc.
    assert (H13 : (1 <= cntl 13 (threads s))%nat)
      by (apply (cntl_ge1 13 (threads s) i t Hi); unfold klass; rewrite Hpc; reflexivity).
    by_phase HI; try (exfalso; lia). repeat split; assumption.
  - intros H0. by_phase HI; try lia; repeat split; assumption.
Qed.
