(** C15 (c) — the initialise-once / finalise protocol as an interleaving system.

    Source: src/myth_init.c  myth_init_ex_body (state test, CAS uninit ->
    initializing, waiters spin for initialized, the winner runs
    myth_init_ex_body_really and publishes), myth_fini_body (uninit -> return;
    wait for initialized; myth_startpoint_exit_ex_body(0): migration loop back to
    worker 0, myth_notify_workers_exit; join; myth_fini_body_really; publish
    uninit); src/myth_worker_func.h myth_startpoint_exit_ex_body /
    myth_startpoint_exit_ex_1 / myth_notify_workers_exit / myth_setup_worker /
    myth_startpoint_init_ex_body (exit_flag values); src/myth_init_func.h
    myth_globalattr_set_n_workers_body with a NULL attribute.

    Any number of callers (the length of [threads]); each runs any sequence of
    calls.  One [Tick] = one access to the shared word [g_myth_init_state], or one
    of the big internal steps (really-init; raise the exit flags; join + tear
    down), which touch only data that no other caller may touch at that time (see
    the usage contract below).  [Mig r] is one round of the migration loop of
    myth_startpoint_exit_ex_body: the caller is put into some worker's queue and
    resumed there - which worker is the schedule's choice.  The source has no
    MYTH_VERIF_POINT in this code, so [label] is always empty.

    Usage contract (enabledness of [Call]):
      - [OpFini] only when every other caller is outside the library, and by a
        caller that runs on a worker (or when nothing is initialised);
      - nothing is called while a finalisation is in flight;
      - [OpSetNW] (attribute setter on the library's own [g_attr]) only while the
        library is uninitialised and nobody is inside a call;
      - [OpMove r] (the caller blocks and is resumed on worker [r]) only for a
        caller that runs on a worker of the initialised library.

    Ghost counters: [n_cas] successful CASes (epochs begun), [n_really] completed
    really-inits, [n_fini] completed tear-downs. *)
From Coq Require Import ZArith List Bool String.
Import ListNotations.
Local Open Scope Z_scope.

Inductive op :=
| OpInit (a : option Z) (d : Z)  (* myth_init_ex(&attr) with attr.n_workers = a / myth_init();
                                    d = n_workers that myth_globalattr_init_body would compute now *)
| OpFini
| OpSetNW (n : Z)                (* myth_globalattr_set_n_workers(NULL, n) *)
| OpMove (r : Z).

Inductive ev := Call (o : op) | Tick | Mig (r : Z) | Ret.

Inductive pc :=
| Idle
| IRead (a : option Z) (d : Z)    (* if (state == initialized) return 1 *)
| ICas (a : option Z) (d : Z)     (* CAS(state, uninit, initializing) *)
| IWait                           (* while (state != initialized) yield *)
| IReally (a : option Z) (d : Z)  (* myth_init_ex_body_really *)
| IPublish                        (* state = initialized *)
| FRead                           (* if (state == uninit) return 1 *)
| FWait                           (* wait for initialized *)
| FMigrate                        (* while (env->rank != 0) switch with callback *)
| FFlags                          (* myth_notify_workers_exit *)
| FJoin                           (* cleanup, pthread_join of the workers, myth_fini_body_really *)
| FPublish                        (* state = uninit *)
| DoneI (r : Z)                   (* myth_init_ex_body returned r *)
| DoneF (r : Z)                   (* myth_fini_body returned r *)
| DoneO.                          (* OpSetNW / OpMove returned *)

Record thread := { t_pc : pc; t_rank : option Z }.

Record state := {
  st : Z;                 (* g_myth_init_state: 0 uninit, 1 initializing, 2 initialized *)
  gnw : option Z;         (* g_attr.initialized ? Some g_attr.n_workers : None *)
  nworkers : Z;           (* number of running workers (g_envs_sz); 0 = none *)
  flags : list Z;         (* exit_flag of worker 0, 1, ... *)
  n_cas : nat; n_really : nat; n_fini : nat;
  threads : list thread }.

Definition init_state (n : nat) : state :=
  {| st := 0; gnw := None; nworkers := 0; flags := []; n_cas := 0; n_really := 0; n_fini := 0;
     threads := repeat {| t_pc := Idle; t_rank := None |} n |}.

Definition is_idle (t : thread) : bool := match t_pc t with Idle => true | _ => false end.
Definition in_fini (t : thread) : bool :=
  match t_pc t with
  | FRead | FWait | FMigrate | FFlags | FJoin | FPublish | DoneF _ => true
  | _ => false
  end.

Fixpoint set_nth {A} (l : list A) (i : nat) (x : A) : list A :=
  match l, i with
  | [], _ => []
  | _ :: r, O => x :: r
  | y :: r, S j => y :: set_nth r j x
  end.

(** all threads except index [i] satisfy [p] *)
Fixpoint others (p : thread -> bool) (l : list thread) (i : nat) : bool :=
  match l with
  | [] => true
  | t :: r => match i with
              | O => forallb p r
              | S j => p t && others p r j
              end
  end.

Definition no_fini (s : state) : bool := forallb (fun t => negb (in_fini t)) (threads s).

Definition with_thread (s : state) (i : nat) (t : thread) : state :=
  {| st := st s; gnw := gnw s; nworkers := nworkers s; flags := flags s;
     n_cas := n_cas s; n_really := n_really s; n_fini := n_fini s;
     threads := set_nth (threads s) i t |}.

Definition at_pc (t : thread) (p : pc) : thread := {| t_pc := p; t_rank := t_rank t |}.

Definition effective_nw (a : option Z) (g : option Z) (d : Z) : Z :=
  match a with
  | Some n => n
  | None => match g with Some n => n | None => d end
  end.

(** exit_flag after start-up: worker 0 runs myth_startpoint_init_ex_body (-1),
    the others myth_setup_worker (0) *)
Definition start_flags (nw : Z) : list Z := (-1) :: repeat 0 (Z.to_nat (nw - 1)).
Definition raise_flags (l : list Z) : list Z := map (fun f => if f =? 0 then 1 else f) l.

Definition rank_is (t : thread) (r : Z) : bool :=
  match t_rank t with Some k => k =? r | None => false end.
Definition has_rank (t : thread) : bool :=
  match t_rank t with Some _ => true | None => false end.

Definition step (s : state) (act : nat * ev) : option state :=
  let (i, e) := act in
  match nth_error (threads s) i with
  | None => None
  | Some t =>
    match e, t_pc t with
    | Call (OpInit a d), Idle =>
        if no_fini s then Some (with_thread s i (at_pc t (IRead a d))) else None
    | Call OpFini, Idle =>
        if others is_idle (threads s) i && ((st s =? 0) || has_rank t)
        then Some (with_thread s i (at_pc t FRead)) else None
    | Call (OpSetNW n), Idle =>
        if others is_idle (threads s) i && (st s =? 0)
        then Some {| st := st s; gnw := Some n; nworkers := nworkers s; flags := flags s;
                     n_cas := n_cas s; n_really := n_really s; n_fini := n_fini s;
                     threads := set_nth (threads s) i (at_pc t DoneO) |}
        else None
    | Call (OpMove r), Idle =>
        if no_fini s && (st s =? 2) && has_rank t && (0 <=? r) && (r <? nworkers s)
        then Some (with_thread s i {| t_pc := DoneO; t_rank := Some r |}) else None
    | Tick, IRead a d =>
        Some (with_thread s i (at_pc t (if st s =? 2 then DoneI 1 else ICas a d)))
    | Tick, ICas a d =>
        if st s =? 0
        then Some {| st := 1; gnw := gnw s; nworkers := nworkers s; flags := flags s;
                     n_cas := S (n_cas s); n_really := n_really s; n_fini := n_fini s;
                     threads := set_nth (threads s) i (at_pc t (IReally a d)) |}
        else Some (with_thread s i (at_pc t IWait))
    | Tick, IWait =>
        Some (with_thread s i (at_pc t (if st s =? 2 then DoneI 1 else IWait)))
    | Tick, IReally a d =>
        let nw := effective_nw a (gnw s) d in
        Some {| st := st s; gnw := Some nw; nworkers := nw; flags := start_flags nw;
                n_cas := n_cas s; n_really := S (n_really s); n_fini := n_fini s;
                threads := set_nth (threads s) i {| t_pc := IPublish; t_rank := Some 0 |} |}
    | Tick, IPublish =>
        Some {| st := 2; gnw := gnw s; nworkers := nworkers s; flags := flags s;
                n_cas := n_cas s; n_really := n_really s; n_fini := n_fini s;
                threads := set_nth (threads s) i (at_pc t (DoneI 1)) |}
    | Tick, FRead =>
        Some (with_thread s i (at_pc t (if st s =? 0 then DoneF 1 else FWait)))
    | Tick, FWait =>
        Some (with_thread s i (at_pc t (if st s =? 2 then FMigrate else FWait)))
    | Tick, FMigrate =>
        if rank_is t 0 then Some (with_thread s i (at_pc t FFlags)) else None
    | Mig r, FMigrate =>
        if has_rank t && negb (rank_is t 0) && (0 <=? r) && (r <? nworkers s)
        then Some (with_thread s i {| t_pc := FMigrate; t_rank := Some r |}) else None
    | Tick, FFlags =>
        Some {| st := st s; gnw := gnw s; nworkers := nworkers s; flags := raise_flags (flags s);
                n_cas := n_cas s; n_really := n_really s; n_fini := n_fini s;
                threads := set_nth (threads s) i (at_pc t FJoin) |}
    | Tick, FJoin =>
        Some {| st := st s; gnw := gnw s; nworkers := 0; flags := [];
                n_cas := n_cas s; n_really := n_really s; n_fini := S (n_fini s);
                threads := set_nth (threads s) i {| t_pc := FPublish; t_rank := None |} |}
    | Tick, FPublish =>
        Some {| st := 0; gnw := gnw s; nworkers := nworkers s; flags := flags s;
                n_cas := n_cas s; n_really := n_really s; n_fini := n_fini s;
                threads := set_nth (threads s) i (at_pc t (DoneF 0)) |}
    | Ret, DoneI _ => Some (with_thread s i (at_pc t Idle))
    | Ret, DoneF _ => Some (with_thread s i (at_pc t Idle))
    | Ret, DoneO => Some (with_thread s i (at_pc t Idle))
    | _, _ => None
    end
  end.

(** the same protocol with the CAS replaced by a plain test followed by a plain
    store (two steps): used only to show that the model can exhibit a double
    initialisation *)
Inductive ev_ts := TCall (a : option Z) (d : Z) | TTick.
Inductive pc_ts := TIdle | TRead (a : option Z) (d : Z) | TTest (a : option Z) (d : Z)
                   | TSet (a : option Z) (d : Z) | TReally (a : option Z) (d : Z) | TPublish | TWait | TDone.
Record state_ts := { ts_st : Z; ts_really : nat; ts_threads : list pc_ts }.
Definition step_ts (s : state_ts) (act : nat * ev_ts) : option state_ts :=
  let (i, e) := act in
  match nth_error (ts_threads s) i with
  | None => None
  | Some p =>
    let go st' r' p' := Some {| ts_st := st'; ts_really := r'; ts_threads := set_nth (ts_threads s) i p' |} in
    match e, p with
    | TCall a d, TIdle => go (ts_st s) (ts_really s) (TRead a d)
    | TTick, TRead a d => go (ts_st s) (ts_really s) (if ts_st s =? 2 then TDone else TTest a d)
    | TTick, TTest a d => go (ts_st s) (ts_really s) (if ts_st s =? 0 then TSet a d else TWait)
    | TTick, TSet a d => go 1 (ts_really s) (TReally a d)
    | TTick, TReally a d => go (ts_st s) (S (ts_really s)) TPublish
    | TTick, TPublish => go 2 (ts_really s) TDone
    | TTick, TWait => go (ts_st s) (ts_really s) (if ts_st s =? 2 then TDone else TWait)
    | _, _ => None
    end
  end.

(** uniform interface of the protocol models *)
Definition label (s : state) (t : nat) : string := EmptyString.
Definition obs (s : state) : list Z :=
  [st s; match gnw s with Some n => n | None => -1 end; nworkers s].
Definition result (s : state) (i : nat) : option Z :=
  match nth_error (threads s) i with
  | Some t => match t_pc t with DoneI r => Some r | DoneF r => Some r | DoneO => Some 0 | _ => None end
  | None => None
  end.
Definition rank_of (s : state) (i : nat) : Z :=
  match nth_error (threads s) i with
  | Some t => match t_rank t with Some r => r | None => -1 end
  | None => -1
  end.
