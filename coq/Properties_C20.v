(** C20 — sleeping and timed waits respect their deadlines.
    Statements only; every proof is [exact] of a lemma of Time/TimeProofs.v. *)
From Coq Require Import ZArith List.
From MT Require Import Time.TimeModel Time.TimeProofs Time.TimeLib.
From MT Require Import Machine.MachineModel Machine.MachineProofs Machine.MachineMore.
Import ListNotations.
Local Open Scope Z_scope.

(** timespec addition is exact and keeps the nanosecond field in range *)
Theorem C20_add_exact : forall a b, valid a -> valid b ->
  valid (ts_add a b) /\ to_ns (ts_add a b) = to_ns a + to_ns b.
Proof. exact ts_add_spec. Qed.
Print Assumptions C20_add_exact.

Theorem C20_gt_exact : forall a b, valid a -> valid b ->
  (ts_gt a b = true <-> to_ns a > to_ns b).
Proof. exact ts_gt_spec. Qed.
Print Assumptions C20_gt_exact.

(** EINVAL exactly for malformed durations, and then without reading the clock *)
Theorem C20_sleep_einval : forall clk fuel req,
  (exists r y, nanosleep clk fuel req = Ret EINVAL r y) <-> bad_req req.
Proof. exact nanosleep_einval. Qed.
Print Assumptions C20_sleep_einval.

(** returns 0 only at the first clock reading strictly later than
    start + request, having yielded once between consecutive readings *)
Theorem C20_sleep_not_early : forall clk, (forall k, valid (clk k)) -> forall fuel req r y,
  nanosleep clk fuel req = Ret 0 r y ->
  ~ bad_req req /\ (2 <= r)%nat /\
  to_ns (clk (r - 1)%nat) > to_ns (clk 0%nat) + to_ns req /\
  (forall j, (1 <= j < r - 1)%nat -> to_ns (clk j) <= to_ns (clk 0%nat) + to_ns req) /\
  y = (r - 2)%nat.
Proof. exact nanosleep_not_early. Qed.
Print Assumptions C20_sleep_not_early.

Theorem C20_sleep_returns : forall clk, (forall k, valid (clk k)) -> forall fuel req j,
  ~ bad_req req -> (1 <= j)%nat ->
  to_ns (clk j) > to_ns (clk 0%nat) + to_ns req -> (j <= fuel)%nat ->
  exists r y, nanosleep clk fuel req = Ret 0 r y.
Proof. exact nanosleep_terminates. Qed.
Print Assumptions C20_sleep_returns.

Theorem C20_usleep_conversion : forall usec, 0 <= usec < 2 ^ 32 ->
  valid (usleep_req usec) /\ 0 <= fst (usleep_req usec) /\ to_ns (usleep_req usec) = usec * 1000.
Proof. exact usleep_req_spec. Qed.
Print Assumptions C20_usleep_conversion.

Theorem C20_sleep_conversion : forall s, 0 <= s < 2 ^ 32 ->
  valid (sleep_req s) /\ 0 <= fst (sleep_req s) /\ to_ns (sleep_req s) = s * NS.
Proof. exact sleep_req_spec. Qed.
Print Assumptions C20_sleep_conversion.

(** timed lock / join: a timeout only strictly after the deadline and only
    after every attempt failed *)
Theorem C20_timed_timeout : forall clk att, (forall k, valid (clk k)) ->
  forall tocode, tocode <> 0 -> forall fuel abst r y, valid abst ->
  timed clk att tocode fuel abst = Ret tocode r y ->
  (1 <= r)%nat /\ to_ns (clk (r - 1)%nat) > to_ns abst /\
  (forall i, (i < r)%nat -> att i = false) /\
  (forall j, (j < r - 1)%nat -> to_ns (clk j) <= to_ns abst).
Proof. exact timed_timeout. Qed.
Print Assumptions C20_timed_timeout.

Theorem C20_timed_success : forall clk att tocode, tocode <> 0 -> forall fuel abst r y,
  timed clk att tocode fuel abst = Ret 0 r y ->
  att r = true /\ (forall i, (i < r)%nat -> att i = false) /\ y = (r - 1)%nat.
Proof. exact timed_success. Qed.
Print Assumptions C20_timed_success.

Theorem C20_timed_first_attempt : forall clk att tocode fuel abst,
  att 0%nat = true -> timed clk att tocode fuel abst = Ret 0 0 0.
Proof. exact timed_first_attempt. Qed.
Print Assumptions C20_timed_first_attempt.

Theorem C20_timed_success_complete : forall clk att, (forall k, valid (clk k)) ->
  forall tocode fuel abst i, valid abst -> att i = true ->
  (forall j, (j < i)%nat -> to_ns (clk j) <= to_ns abst) -> (i <= fuel)%nat ->
  exists r y, timed clk att tocode fuel abst = Ret 0 r y.
Proof. exact timed_success_complete. Qed.
Print Assumptions C20_timed_success_complete.

(** non-vacuity: a concrete clock for which the sleep hypotheses hold and the
    call returns at the third reading *)
Example C20_sleep_example :
  let clk := clk_of [(5, 999999999); (6, 100); (6, 499999999); (6, 500000000)] in
  nanosleep clk 10 (0, 500000000) = Ret 0 4 2.
Proof. vm_compute. reflexivity. Qed.

Example C20_timed_example :
  let clk := clk_of [(1, 0); (2, 0); (3, 1)] in
  timedlock clk (att_of [false; false; false]) 10 (3, 0) = Ret ETIMEDOUT 3 2 /\
  timedlock clk (att_of [false; false; true]) 10 (3, 0) = Ret 0 2 1.
Proof. vm_compute. split; reflexivity. Qed.

(** * Library tier: all interleavings, and the worker in the meantime *)

(** the models that also return the order of actions (what a controlled run of the real library logs) have the
    outcome of [nanosleep] / [timed] *)
Theorem C20_actions_outcome : forall clk att tocode fuel req abst,
  fst (nanosleep_ev clk fuel req) = nanosleep clk fuel req /\
  fst (timed_ev clk att tocode fuel abst) = timed clk att tocode fuel abst.
Proof. exact (fun clk att tocode fuel req abst => conj (nanosleep_ev_outcome clk fuel req) (timed_ev_outcome clk att tocode fuel abst)). Qed.
Print Assumptions C20_actions_outcome.

(** the [rem] argument of nanosleep: NULL, a separate object or the request object itself ([nanosleep(&ts, &ts)]) -
    same outcome, namely [nanosleep] of the request as it was at the call, and no object is written *)
Theorem C20_sleep_rem_irrelevant : forall clk fuel m preq prem,
  fst (nanosleep_mem clk fuel m preq prem) = nanosleep clk fuel (m preq) /\
  (forall prem', fst (nanosleep_mem clk fuel m preq prem') = fst (nanosleep_mem clk fuel m preq prem)) /\
  (forall l, snd (nanosleep_mem clk fuel m preq prem) l = m l).
Proof. exact nanosleep_rem_irrelevant. Qed.
Print Assumptions C20_sleep_rem_irrelevant.

(** a completed sleep that made r readings:  read 0; (read k; yield) for k = 1..r-2; read r-1.  The number of yields is
    exactly readings - 2, and every yield lies between reading k and reading k+1 *)
Theorem C20_sleep_yields_between_reads : forall clk fuel req r y,
  nanosleep clk fuel req = Ret 0 r y ->
  snd (nanosleep_ev clk fuel req) = sleep_shape r /\
  n_yields (snd (nanosleep_ev clk fuel req)) = y /\ y = (r - 2)%nat /\ (2 <= r)%nat /\
  yields_between_reads (snd (nanosleep_ev clk fuel req)).
Proof.
  exact (fun clk fuel req r y H =>
    match nanosleep_ev_shape clk fuel req r y H with
    | conj a (conj b (conj c d)) => conj a (conj b (conj c (conj d (nanosleep_yield_between clk fuel req r y H))))
    end).
Qed.
Print Assumptions C20_sleep_yields_between_reads.

(** a malformed request performs no action (no clock reading, no yield) *)
Theorem C20_sleep_einval_no_action : forall clk fuel req r y,
  nanosleep clk fuel req = Ret EINVAL r y -> snd (nanosleep_ev clk fuel req) = [].
Proof. exact nanosleep_ev_einval. Qed.
Print Assumptions C20_sleep_einval_no_action.

(** a completed timed lock / join:  attempt 0; (read k; attempt k+1; yield) for k = 0..r-2; read r-1 [; attempt r] *)
Theorem C20_timed_action_shape : forall clk att tocode fuel abst c r y, tocode <> 0 ->
  timed clk att tocode fuel abst = Ret c r y ->
  snd (timed_ev clk att tocode fuel abst) = timed_shape c r /\
  n_yields (snd (timed_ev clk att tocode fuel abst)) = y /\ y = (r - 1)%nat.
Proof. exact timed_ev_shape. Qed.
Print Assumptions C20_timed_action_shape.

(** the result depends only on the readings and the attempt outcomes that were actually observed *)
Theorem C20_sleep_observed_only : forall clk clk' fuel req c r y,
  nanosleep clk fuel req = Ret c r y -> (forall j, (j < r)%nat -> clk' j = clk j) ->
  nanosleep clk' fuel req = Ret c r y.
Proof. exact nanosleep_observed_only. Qed.
Print Assumptions C20_sleep_observed_only.

Theorem C20_timed_observed_only : forall clk att clk' att' tocode fuel abst c r y, tocode <> 0 ->
  timed clk att tocode fuel abst = Ret c r y ->
  (forall j, (j < r)%nat -> clk' j = clk j) ->
  (forall i, (i < r)%nat \/ (c = 0 /\ i = r) -> att' i = att i) ->
  timed clk' att' tocode fuel abst = Ret c r y.
Proof. exact timed_observed_only. Qed.
Print Assumptions C20_timed_observed_only.

(** ALL interleavings with the holder / the target.  An environment is any type of states [E] of everything outside
    the caller, any [free : E -> bool] (does an attempt succeed), any [clock : E -> ts], and any interference
    [interf n : E -> E] of the other threads before the caller's n-th shared access (0 = attempt 0, 2k+1 = reading k,
    2k+2 = attempt k+1; so [interf (2k+2)] acts between clock reading k and the following attempt).  The call executed
    step by step inside the environment ([env_timed]) is [timed] on the readings and attempt outcomes seen there; and
    every pair of scripts (clk, att) is seen in some environment.  Hence the theorems above, which quantify over all
    [clk] and [att], are statements about all environments and only about them. *)
Theorem C20_timed_any_environment :
  (forall (E : Type) (free : E -> bool) (clock : E -> ts) (interf : nat -> E -> E) tocode fuel e0 abst,
     env_timed E free clock interf tocode fuel e0 abst =
     timed (clk_env E clock interf e0) (att_env E free interf e0) tocode fuel abst) /\
  (forall (clk : nat -> ts) (att : nat -> bool),
     exists (E : Type) (free : E -> bool) (clock : E -> ts) (interf : nat -> E -> E) (e0 : E),
       (forall k, clk_env E clock interf e0 k = clk k) /\ (forall i, att_env E free interf e0 i = att i)).
Proof. exact (conj env_timed_is_timed every_script_is_an_environment). Qed.
Print Assumptions C20_timed_any_environment.

(** the deadline statements in an arbitrary environment: a timeout only at a reading strictly past the deadline and
    only if the resource was unavailable in the state of every attempt; success only in the first state in which an
    attempt found it available *)
Theorem C20_timed_env_timeout : forall E free clock interf tocode fuel e0 abst r y,
  (forall e, valid (clock e)) -> tocode <> 0 -> valid abst ->
  env_timed E free clock interf tocode fuel e0 abst = Ret tocode r y ->
  (1 <= r)%nat /\ to_ns (clk_env E clock interf e0 (r - 1)%nat) > to_ns abst /\
  (forall i, (i < r)%nat -> free (seen E interf e0 i) = false).
Proof. exact env_timed_timeout. Qed.
Print Assumptions C20_timed_env_timeout.

Theorem C20_timed_env_success : forall E free clock interf tocode fuel e0 abst r y, tocode <> 0 ->
  env_timed E free clock interf tocode fuel e0 abst = Ret 0 r y ->
  free (seen E interf e0 r) = true /\ (forall i, (i < r)%nat -> free (seen E interf e0 i) = false).
Proof. exact env_timed_success. Qed.
Print Assumptions C20_timed_env_success.

(** "let other runnable threads use the worker in the meantime", on the scheduler-level machine of coq/Machine
    (theorem [M_yield_gives_way]): a completed sleep with r readings went through the polling iterations
    read j; yield  for j = 1 .. r-2; in each of them, if the sleeper t runs on worker w whose run queue is q ++ [x],
    the iteration leaves x running on w and t at the base of the queue, behind everything that was queued *)
Theorem C20_sleeper_gives_way : forall clk fuel req r y j,
  nanosleep clk fuel req = Ret 0 r y -> (1 <= j < r - 1)%nat ->
  (exists l1 l2, snd (nanosleep_ev clk fuel req) = l1 ++ PRead j :: PYield :: l2) /\
  forall s w t q x, Inv s ->
    nth_error (cur s) w = Some (Run t) -> nth_error (hand s) w = Some None -> nth_error (dq s) w = Some (q ++ [x]) ->
    runo s (poll_moves w [PRead j; PYield]) =
      Some {| cur := upd (cur s) w (Run x); hand := hand s; dq := upd (dq s) w (t :: q); stat := stat s |}.
Proof. exact sleeper_gives_way. Qed.
Print Assumptions C20_sleeper_gives_way.

(** the same for one polling iteration of a timed lock / join (read; failed attempt; yield) *)
Theorem C20_poller_gives_way : forall s w t q x k i, Inv s ->
  nth_error (cur s) w = Some (Run t) -> nth_error (hand s) w = Some None -> nth_error (dq s) w = Some (q ++ [x]) ->
  let s' := {| cur := upd (cur s) w (Run x); hand := hand s; dq := upd (dq s) w (t :: q); stat := stat s |} in
  runo s (poll_moves w [PRead k; PYield]) = Some s' /\
  runo s (poll_moves w [PRead k; PAttempt i; PYield]) = Some s'.
Proof. exact poll_iteration_gives_way. Qed.
Print Assumptions C20_poller_gives_way.

(** the yield of a sleep uses option half_half and may steal first: then the stolen thread runs on w and the
    sleeper goes to the base of its own queue all the same *)
Theorem C20_sleeper_gives_way_steal : forall s w v t q x r, Inv s -> v <> w ->
  nth_error (cur s) w = Some (Run t) -> nth_error (hand s) w = Some None ->
  nth_error (dq s) w = Some q -> nth_error (dq s) v = Some (x :: r) ->
  runo s (yield_steal_moves w v) =
    Some {| cur := upd (cur s) w (Run x); hand := hand s; dq := upd (upd (dq s) v r) w (t :: q); stat := stat s |}.
Proof. exact poll_iteration_gives_way_steal. Qed.
Print Assumptions C20_sleeper_gives_way_steal.

(** non-vacuity.  An environment in which the holder releases the mutex exactly between the caller's clock reading 1
    and the following attempt: states (clock ticks, held?), every interference ticks the clock, interference 4
    (= between reading 1 and attempt 2) releases.  With the deadline at tick 10 the call succeeds at attempt 2; with
    the deadline at tick 3 reading 1 (tick 4) is past it and the call times out without that attempt. *)
Example C20_environment_example :
  let free := fun e : nat * bool => negb (snd e) in
  let clock := fun e : nat * bool => (1, Z.of_nat (fst e)) in
  let interf := fun (n : nat) (e : nat * bool) => (S (fst e), if Nat.eqb n 4 then false else snd e) in
  env_timed _ free clock interf ETIMEDOUT 10 (0%nat, true) (1, 10) = Ret 0 2 1 /\
  env_timed _ free clock interf ETIMEDOUT 10 (0%nat, true) (1, 3) = Ret ETIMEDOUT 2 1 /\
  snd (timed_ev (clk_env _ clock interf (0%nat, true)) (att_env _ free interf (0%nat, true)) ETIMEDOUT 10 (1, 10)) =
    [PAttempt 0; PRead 0; PAttempt 1; PYield; PRead 1; PAttempt 2].
Proof. vm_compute. repeat split; reflexivity. Qed.

Example C20_sleep_actions_example :
  let clk := clk_of [(5, 999999999); (6, 100); (6, 499999999); (6, 500000000)] in
  snd (nanosleep_ev clk 10 (0, 500000000)) = [PRead 0; PRead 1; PYield; PRead 2; PYield; PRead 3].
Proof. vm_compute. reflexivity. Qed.

(** a machine state that satisfies the hypotheses of [C20_sleeper_gives_way]: one worker running thread 1 (the sleeper)
    with threads 2 and 3 in its run queue; after the polling iteration 3 runs and the queue is [1; 2] *)
Example C20_gives_way_example :
  let s := {| cur := [Run 1]; hand := [None]; dq := [[2; 3]%nat]; stat := [Live; Live; Live; Live] |} in
  Inv s /\ nth_error (cur s) 0 = Some (Run 1) /\ nth_error (hand s) 0 = Some None /\ nth_error (dq s) 0 = Some ([2] ++ [3])%nat /\
  runo s (poll_moves 0 [PRead 1; PYield]) =
    Some {| cur := [Run 3]; hand := [None]; dq := [[1; 2]%nat]; stat := [Live; Live; Live; Live] |}.
Proof.
  split; [|vm_compute; repeat split; reflexivity].
  intros t. do 4 (destruct t as [|t]; [vm_compute; split; [repeat constructor | discriminate]|]).
  vm_compute. split; [repeat constructor | reflexivity].
Qed.
