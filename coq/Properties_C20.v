(** C20 — sleeping and timed waits respect their deadlines.
    Statements only; every proof is [exact] of a lemma of Time/TimeProofs.v. *)
From Coq Require Import ZArith List.
From MT Require Import Time.TimeModel Time.TimeProofs.
Import ListNotations.
Local Open Scope Z_scope.

(** timespec addition is exact and keeps the nanosecond field in range *)
Theorem C20_add_exact : forall a b, valid a -> valid b ->
  valid (ts_add a b) /\ to_ns (ts_add a b) = to_ns a + to_ns b.
Proof. exact ts_add_spec. Qed.
Print Assumptions C20_add_exact.

Theorem C20_gt_exact : forall a b, valid a -> valid b ->
  (ts_gt a b = true <-> to_ns a > to_ns b).
Proof. exact ts_gt_spec. Qed.
Print Assumptions C20_gt_exact.

(** EINVAL exactly for malformed durations, and then without reading the clock *)
Theorem C20_sleep_einval : forall clk fuel req,
  (exists r y, nanosleep clk fuel req = Ret EINVAL r y) <-> bad_req req.
Proof. exact nanosleep_einval. Qed.
Print Assumptions C20_sleep_einval.

(** returns 0 only at the first clock reading strictly later than
    start + request, having yielded once between consecutive readings *)
Theorem C20_sleep_not_early : forall clk, (forall k, valid (clk k)) -> forall fuel req r y,
  nanosleep clk fuel req = Ret 0 r y ->
  ~ bad_req req /\ (2 <= r)%nat /\
  to_ns (clk (r - 1)%nat) > to_ns (clk 0%nat) + to_ns req /\
  (forall j, (1 <= j < r - 1)%nat -> to_ns (clk j) <= to_ns (clk 0%nat) + to_ns req) /\
  y = (r - 2)%nat.
Proof. exact nanosleep_not_early. Qed.
Print Assumptions C20_sleep_not_early.

Theorem C20_sleep_returns : forall clk, (forall k, valid (clk k)) -> forall fuel req j,
  ~ bad_req req -> (1 <= j)%nat ->
  to_ns (clk j) > to_ns (clk 0%nat) + to_ns req -> (j <= fuel)%nat ->
  exists r y, nanosleep clk fuel req = Ret 0 r y.
Proof. exact nanosleep_terminates. Qed.
Print Assumptions C20_sleep_returns.

Theorem C20_usleep_conversion : forall usec, 0 <= usec < 2 ^ 32 ->
  valid (usleep_req usec) /\ 0 <= fst (usleep_req usec) /\ to_ns (usleep_req usec) = usec * 1000.
Proof. exact usleep_req_spec. Qed.
Print Assumptions C20_usleep_conversion.

Theorem C20_sleep_conversion : forall s, 0 <= s < 2 ^ 32 ->
  valid (sleep_req s) /\ 0 <= fst (sleep_req s) /\ to_ns (sleep_req s) = s * NS.
Proof. exact sleep_req_spec. Qed.
Print Assumptions C20_sleep_conversion.

(** timed lock / join: a timeout only strictly after the deadline and only
    after every attempt failed *)
Theorem C20_timed_timeout : forall clk att, (forall k, valid (clk k)) ->
  forall tocode, tocode <> 0 -> forall fuel abst r y, valid abst ->
  timed clk att tocode fuel abst = Ret tocode r y ->
  (1 <= r)%nat /\ to_ns (clk (r - 1)%nat) > to_ns abst /\
  (forall i, (i < r)%nat -> att i = false) /\
  (forall j, (j < r - 1)%nat -> to_ns (clk j) <= to_ns abst).
Proof. exact timed_timeout. Qed.
Print Assumptions C20_timed_timeout.

Theorem C20_timed_success : forall clk att tocode, tocode <> 0 -> forall fuel abst r y,
  timed clk att tocode fuel abst = Ret 0 r y ->
  att r = true /\ (forall i, (i < r)%nat -> att i = false) /\ y = (r - 1)%nat.
Proof. exact timed_success. Qed.
Print Assumptions C20_timed_success.

Theorem C20_timed_first_attempt : forall clk att tocode fuel abst,
  att 0%nat = true -> timed clk att tocode fuel abst = Ret 0 0 0.
Proof. exact timed_first_attempt. Qed.
Print Assumptions C20_timed_first_attempt.

Theorem C20_timed_success_complete : forall clk att, (forall k, valid (clk k)) ->
  forall tocode fuel abst i, valid abst -> att i = true ->
  (forall j, (j < i)%nat -> to_ns (clk j) <= to_ns abst) -> (i <= fuel)%nat ->
  exists r y, timed clk att tocode fuel abst = Ret 0 r y.
Proof. exact timed_success_complete. Qed.
Print Assumptions C20_timed_success_complete.

(** non-vacuity: a concrete clock for which the sleep hypotheses hold and the
    call returns at the third reading *)
Example C20_sleep_example :
  let clk := clk_of [(5, 999999999); (6, 100); (6, 499999999); (6, 500000000)] in
  nanosleep clk 10 (0, 500000000) = Ret 0 4 2.
Proof. vm_compute. reflexivity. Qed.

Example C20_timed_example :
  let clk := clk_of [(1, 0); (2, 0); (3, 1)] in
  timedlock clk (att_of [false; false; false]) 10 (3, 0) = Ret ETIMEDOUT 3 2 /\
  timedlock clk (att_of [false; false; true]) 10 (3, 0) = Ret 0 2 1.
Proof. vm_compute. split; reflexivity. Qed.
