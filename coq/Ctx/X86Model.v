(** C03 - a small x86-64 machine: exactly the instruction forms that the four
    context-switch macros of src/myth_context_func.h expand to (amd64 branch).

    Registers: rsp, the six callee-saved registers of the SysV ABI, the nine
    caller-saved integer registers.  Memory: a total map from byte addresses to
    64-bit words, used at 8-byte granularity (push/pop/mov move whole words; the
    model is faithful when rsp and the context cells are 8-aligned, which the
    checker enforces for every rsp adjustment).  Executable definitions only. *)
From Coq Require Import ZArith List Bool.
Import ListNotations.
Local Open Scope Z_scope.

Inductive reg := RSP | RBP | RBX | R12 | R13 | R14 | R15
               | RAX | RCX | RDX | RSI | RDI | R8 | R9 | R10 | R11.

Definition reg_idx (r : reg) : Z :=
  match r with
  | RSP => 0 | RBP => 1 | RBX => 2 | R12 => 3 | R13 => 4 | R14 => 5 | R15 => 6
  | RAX => 7 | RCX => 8 | RDX => 9 | RSI => 10 | RDI => 11
  | R8 => 12 | R9 => 13 | R10 => 14 | R11 => 15
  end.

Definition reg_eqb (a b : reg) : bool := reg_idx a =? reg_idx b.

Definition all_regs : list reg :=
  [RSP; RBP; RBX; R12; R13; R14; R15; RAX; RCX; RDX; RSI; RDI; R8; R9; R10; R11].
Definition callee_saved : list reg := [RBP; RBX; R12; R13; R14; R15].
Definition caller_saved : list reg := [RAX; RCX; RDX; RSI; RDI; R8; R9; R10; R11].

Definition reg_in (r : reg) (l : list reg) : bool := existsb (reg_eqb r) l.

(** instruction forms (AT&T operand order in the comments) *)
Inductive instr :=
| ISubRsp (n : Z)            (* sub $n,%rsp *)
| IAddRsp (n : Z)            (* add $n,%rsp *)
| IPush (r : reg)            (* push %r *)
| IPop (r : reg)             (* pop %r *)
| ILea (l : Z) (r : reg)     (* leaq <l>f(%rip),%r   - address of local label l *)
| IStoreRsp (r : reg)        (* mov %rsp,(%r) *)
| ILoadRsp (r : reg)         (* mov (%r),%rsp *)
| IMov (a b : reg)           (* mov %a,%b *)
| ICall (f : Z)              (* call f   - f indexes the generated table of callback names *)
| IJmp (r : reg)             (* jmp *%r *)
| ILabel (l : Z)             (* <l>: *)
| IUd2                       (* ud2 *)
| IUnknown (n : Z).          (* anything the translator could not parse (line n of the block) *)

Record state := mkState { rg : reg -> Z; mem : Z -> Z }.

Definition setr (r : reg) (v : Z) (s : state) : state :=
  mkState (fun x => if reg_eqb x r then v else rg s x) (mem s).
Definition setm (a v : Z) (s : state) : state :=
  mkState (rg s) (fun x => if x =? a then v else mem s x).

Inductive outcome := Next (s : state) | Jump (v : Z) (s : state) | Stuck.

Section Machine.
  (** [lbl l] = code address of local label [l] of the asm statement being executed;
      [cb f s] = state in which callback [f], called in state [s], returns (the push of the
      return address and the matching [ret] are inside [cb]: [rg s RSP] is rsp at the [call]) *)
  Variable lbl : Z -> Z.
  Variable cb : Z -> state -> state.

  Definition step (i : instr) (s : state) : outcome :=
    match i with
    | ISubRsp n => Next (setr RSP (rg s RSP - n) s)
    | IAddRsp n => Next (setr RSP (rg s RSP + n) s)
    | IPush r => let sp := rg s RSP - 8 in Next (setr RSP sp (setm sp (rg s r) s))
    | IPop r => let v := mem s (rg s RSP) in Next (setr r v (setr RSP (rg s RSP + 8) s))
    | ILea l r => Next (setr r (lbl l) s)
    | IStoreRsp r => Next (setm (rg s r) (rg s RSP) s)
    | ILoadRsp r => Next (setr RSP (mem s (rg s r)) s)
    | IMov a b => Next (setr b (rg s a) s)
    | ICall f => Next (cb f s)
    | IJmp r => Jump (rg s r) s
    | ILabel _ => Next s
    | IUd2 => Stuck
    | IUnknown _ => Stuck
    end.

  Fixpoint run (c : list instr) (s : state) : outcome :=
    match c with
    | [] => Next s
    | i :: c' => match step i s with
                 | Next s' => run c' s'
                 | o => o
                 end
    end.

  (** rsp at every [call] executed by [run c s], in order *)
  Fixpoint call_rsps (c : list instr) (s : state) : list Z :=
    match c with
    | [] => []
    | i :: c' =>
        (match i with ICall _ => [rg s RSP] | _ => [] end) ++
        match step i s with
        | Next s' => call_rsps c' s'
        | _ => []
        end
    end.
End Machine.

(* ------------------------------------------------------------------ *)
(** * floating-point control state

    The control bits of MXCSR (rounding mode, exception masks, FZ, DAZ) and the x87 control word
    (precision and rounding control, exception masks) are callee-saved under the SysV AMD64 ABI.
    None of the instruction forms above reads or writes them (the PUSH_FPCSR / POP_FPCSR macros
    of src/myth_context_func.h - stmxcsr / fnstcw / fldcw / ldmxcsr - are compiled out because
    src/myth_config.h defines MYTH_SAVE_FPCSR 0), and a *called* function returns with them
    unchanged (ABI), so executing any instruction list leaves them as they are: an extended state
    carries them next to the integer state, and [xrun] is [run] on the integer part. *)
Record fpctl := mkFp { fp_mxcsr : Z; fp_x87cw : Z }.
Record xstate := mkX { xcore : state; xfp : fpctl }.
Inductive xoutcome := XNext (x : xstate) | XJump (v : Z) (x : xstate) | XStuck.

Definition xrun (lbl : Z -> Z) (cb : Z -> state -> state) (c : list instr) (x : xstate) : xoutcome :=
  match run lbl cb c (xcore x) with
  | Next s => XNext (mkX s (xfp x))
  | Jump v s => XJump v (mkX s (xfp x))
  | Stuck => XStuck
  end.

Definition fp_eqb (a b : fpctl) : bool :=
  (fp_mxcsr a =? fp_mxcsr b) && (fp_x87cw a =? fp_x87cw b).
