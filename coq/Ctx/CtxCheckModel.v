(** C03 - the boolean checker applied to every context-switch asm statement that the
    translator (tools/translate_ctx.py) extracts from `gcc -S` of the current tree,
    the model of myth_make_context_empty / _voidcall, and the concrete diagnosis run
    used to look for a failing register file when the checker rejects a site.
    Executable definitions only; proofs are in CtxProofs.v. *)
From Coq Require Import ZArith List Bool.
From MT Require Import Ctx.X86Model.
Import ListNotations.
Local Open Scope Z_scope.

(** one asm statement as found in the compiler output, with its operand lists as
    written in the (preprocessed) source *)
Record site := mkSite {
  sid : Z;                 (* index in the generated list *)
  code : list instr;       (* the instructions between #APP and #NO_APP *)
  outs : list reg;         (* registers named by output constraints (the dummy outputs "=&a"(d0) ...) *)
  ins : list reg;          (* registers named by input constraints (through matching constraints) *)
  clobs : list reg;        (* registers in the clobber list *)
  clob_mem : bool;         (* "memory" in the clobber list *)
  clob_cc : bool           (* "cc" in the clobber list *)
}.

(* ------------------------------------------------------------------ *)
(** * structure of a site:  [save ; store rsp] ; load rsp ; call* ; pop ; jmp ; [label ; restore] *)

Record parts := mkParts {
  p_save : option (list instr * reg);   (* instructions before the store, register holding the context address *)
  p_load : reg;                         (* register holding the target context address *)
  p_calls : list Z;                     (* callbacks called on the target stack *)
  p_ret : reg;                          (* scratch register of  pop r ; jmp *r *)
  p_cont : option (Z * list instr)      (* resume label and the instructions after it *)
}.

Fixpoint split_store (c : list instr) : option (list instr * reg * list instr) :=
  match c with
  | [] => None
  | IStoreRsp r :: rest => Some ([], r, rest)
  | i :: rest => match split_store rest with
                 | Some (p, r, q) => Some (i :: p, r, q)
                 | None => None
                 end
  end.

Fixpoint take_calls (c : list instr) : list Z * list instr :=
  match c with
  | ICall f :: rest => let (fs, q) := take_calls rest in (f :: fs, q)
  | _ => ([], c)
  end.

Definition all_ud2 (c : list instr) : bool :=
  forallb (fun i => match i with IUd2 => true | _ => false end) c.

(** the part from the load of the target rsp on; [want_cont] says whether a label and a
    restore sequence must follow (swap kinds) or nothing but ud2 may follow (set kinds) *)
Definition parse_tail (sv : option (list instr * reg)) (c : list instr) : option parts :=
  match c with
  | ILoadRsp r :: rest =>
      let (fs, q) := take_calls rest in
      match q with
      | IPop rt :: IJmp rt' :: q' =>
          if reg_eqb rt rt' then
            match sv, q' with
            | Some _, ILabel l :: rs => Some (mkParts sv r fs rt (Some (l, rs)))
            | None, _ => if all_ud2 q' then Some (mkParts None r fs rt None) else None
            | _, _ => None
            end
          else None
      | _ => None
      end
  | _ => None
  end.

Definition site_parts (c : list instr) : option parts :=
  match split_store c with
  | Some (sv, r, rest) => parse_tail (Some (sv, r)) rest
  | None => parse_tail None c
  end.

Definition save_code (p : parts) : list instr :=
  match p_save p with Some (sv, r) => sv ++ [IStoreRsp r] | None => [] end.
Definition tail_code (p : parts) : list instr :=
  ILoadRsp (p_load p) :: map ICall (p_calls p) ++ [IPop (p_ret p); IJmp (p_ret p)].
Definition restore_code (p : parts) : list instr :=
  match p_cont p with Some (_, rs) => rs | None => [] end.

(* ------------------------------------------------------------------ *)
(** * symbolic execution relative to the state at the asm statement *)

Inductive sv := SInit (r : reg)     (* the value register r had at the asm statement *)
              | SLbl (l : Z)        (* the address of local label l *)
              | STop.               (* unknown *)

Definition sv_eqb (a b : sv) : bool :=
  match a, b with
  | SInit r, SInit r' => reg_eqb r r'
  | SLbl l, SLbl l' => l =? l'
  | _, _ => false
  end.

(** [sd] : rsp = rsp0 - sd ;  [sr] : register contents ;
    [sl] : stack slots, key D = the word at address rsp0 - D (first match wins) *)
Record sst := mkS { sd : Z; sr : reg -> sv; sl : list (Z * sv) }.

Fixpoint lookup (D : Z) (l : list (Z * sv)) : sv :=
  match l with
  | [] => STop
  | (k, v) :: l' => if k =? D then v else lookup D l'
  end.

Definition upd (r : reg) (v : sv) (f : reg -> sv) : reg -> sv :=
  fun x => if reg_eqb x r then v else f x.

Definition is_rsp (r : reg) : bool := reg_eqb r RSP.

Definition RED_ZONE : Z := 128.

Definition sym_step (i : instr) (t : sst) : option sst :=
  match i with
  | ISubRsp n => if (0 <=? n) && (n mod 8 =? 0) then Some (mkS (sd t + n) (sr t) (sl t)) else None
  | IAddRsp n => if (0 <=? n) && (n mod 8 =? 0) then Some (mkS (sd t - n) (sr t) (sl t)) else None
  | IPush r =>
      if is_rsp r then None else
      let D := sd t + 8 in
      (* the word written lies at rsp0 - D: it must be below the red zone *)
      if RED_ZONE <? D then Some (mkS D (sr t) ((D, sr t r) :: sl t)) else None
  | IPop r =>
      if is_rsp r then None else
      Some (mkS (sd t - 8) (upd r (lookup (sd t) (sl t)) (sr t)) (sl t))
  | ILea l r => if is_rsp r then None else Some (mkS (sd t) (upd r (SLbl l) (sr t)) (sl t))
  | IMov a b => if is_rsp a || is_rsp b then None else Some (mkS (sd t) (upd b (sr t a) (sr t)) (sl t))
  | ILabel _ => Some t
  | _ => None
  end.

Fixpoint sym_run (c : list instr) (t : sst) : option sst :=
  match c with
  | [] => Some t
  | i :: c' => match sym_step i t with Some t' => sym_run c' t' | None => None end
  end.

Definition sym_init : sst := mkS 0 SInit [].

(** the symbolic state in which the code after the resume label starts: rsp is one word
    above the saved rsp (the resume address has been popped), every register is unknown
    (another thread / the callback ran), the saved words at and above the saved rsp are
    those of the suspension; everything below the saved rsp is unknown *)
Definition sym_resume (t : sst) : sst :=
  mkS (sd t - 8) (fun _ => STop)
      (filter (fun kv => (RED_ZONE <? fst kv) && (fst kv <=? sd t)) (sl t)).

Definition is_init (r : reg) (v : sv) : bool := sv_eqb v (SInit r).

Definition origin (v : sv) : option reg := match v with SInit r => Some r | _ => None end.

(** save/restore symmetry of a swap-kind site; returns the symbolic states at the store and at the end *)
Definition sym_site (p : parts) : option (sst * sst) :=
  match p_save p, p_cont p with
  | Some (svc, r), Some (l, rs) =>
      match sym_run svc sym_init with
      | Some t1 =>
          if sv_eqb (lookup (sd t1) (sl t1)) (SLbl l) then
            match sym_run rs (sym_resume t1) with
            | Some t3 => Some (t1, t3)
            | None => None
            end
          else None
      | None => None
      end
  | _, _ => None
  end.

(** (distance of the saved rsp below the rsp at the asm statement, register that held the address of
    the context record at the asm statement) of a suspending site *)
Definition site_summary (s : site) : option (Z * reg) :=
  match site_parts (code s) with
  | Some p =>
      match p_save p, sym_site p with
      | Some (_, r), Some (t1, _) =>
          match origin (sr t1 r) with Some r0 => Some (sd t1, r0) | None => None end
      | _, _ => None
      end
  | None => None
  end.

Definition declared_dead (s : site) (r : reg) : bool := reg_in r (outs s ++ clobs s).

(** the registers the tail reads still hold declared input operands *)
Definition input_ok (s : site) (t : sst) (r : reg) : bool :=
  negb (is_rsp r) &&
  match origin (sr t r) with Some r0 => reg_in r0 (ins s) | None => false end.

Definition tail_ok (s : site) (p : parts) (t : sst) : bool :=
  negb (is_rsp (p_ret p)) && input_ok s t (p_load p) &&
  match p_calls p with
  | [] => true
  | _ => input_ok s t RDI && input_ok s t RSI && input_ok s t RDX   (* the callback's three arguments *)
  end.

Definition ctx_check (s : site) : bool :=
  match site_parts (code s) with
  | None => false
  | Some p =>
      match p_save p with
      | None => tail_ok s p sym_init
      | Some (_, r) =>
          match sym_site p with
          | None => false
          | Some (t1, t3) =>
              tail_ok s p t1 && input_ok s t1 r &&
              (sd t1 mod 16 =? 0) && (RED_ZONE <? sd t1) &&        (* saved rsp = rsp0 - sd t1 *)
              (sd t3 =? 0) &&
              forallb (fun x => is_init x (sr t3 x)) callee_saved &&
              forallb (fun x => is_rsp x || is_init x (sr t3 x) || declared_dead s x) all_regs &&
              clob_mem s
          end
      end
  end.

(** which conjunct of [ctx_check] fails (used only for the message of a rejection):
    1 shape not recognised, 2 tail / input operands, 3 symbolic execution of save or restore part
    failed (push into the red zone, unknown instruction, resume address not on top of the saved
    area), 4 saved rsp not a multiple of 16 below, 5 saved rsp not below the red zone,
    6 rsp not restored, 7 callee-saved register not restored, 8 register neither restored nor
    declared dead, 9 no memory clobber *)
Definition reasons (s : site) : list Z :=
  match site_parts (code s) with
  | None => [1]
  | Some p =>
      match p_save p with
      | None => if tail_ok s p sym_init then [] else [2]
      | Some (_, r) =>
          match sym_site p with
          | None => [3]
          | Some (t1, t3) =>
              (if tail_ok s p t1 && input_ok s t1 r then [] else [2]) ++
              (if sd t1 mod 16 =? 0 then [] else [4]) ++
              (if RED_ZONE <? sd t1 then [] else [5]) ++
              (if sd t3 =? 0 then [] else [6]) ++
              (if forallb (fun x => is_init x (sr t3 x)) callee_saved then [] else [7]) ++
              (if forallb (fun x => is_rsp x || is_init x (sr t3 x) || declared_dead s x) all_regs
               then [] else [8]) ++
              (if clob_mem s then [] else [9])
          end
      end
  end.

(* ------------------------------------------------------------------ *)
(** * initial contexts (myth_make_context_empty / myth_make_context_voidcall, amd64 branch) *)

Inductive mkop :=
| MkSub (n : Z)          (* stack_tail -= n *)
| MkAdd (n : Z)          (* stack_tail += n *)
| MkAnd (m : Z)          (* stack_tail &= m *)
| MkSetRsp (off : Z)     (* ctx->rsp = stack_tail + off *)
| MkStoreFunc (off : Z)  (* *(uint64_t* )(stack_tail + off) = func   (dest_addr assigned from stack_tail) *)
| MkUnknown (n : Z).

(** result: (stack_tail, saved rsp, address where func was stored); 64-bit wrap-around explicit *)
Record mkres := mkR { m_tail : Z; m_rsp : option Z; m_func : option Z; m_ok : bool }.

Definition W64 : Z := 2 ^ 64.

Definition mk_step (r : mkres) (o : mkop) : mkres :=
  match o with
  | MkSub n => mkR ((m_tail r - n) mod W64) (m_rsp r) (m_func r) (m_ok r)
  | MkAdd n => mkR ((m_tail r + n) mod W64) (m_rsp r) (m_func r) (m_ok r)
  | MkAnd m => mkR (Z.land (m_tail r) m) (m_rsp r) (m_func r) (m_ok r)
  | MkSetRsp off => mkR (m_tail r) (Some ((m_tail r + off) mod W64)) (m_func r) (m_ok r)
  | MkStoreFunc off => mkR (m_tail r) (m_rsp r) (Some ((m_tail r + off) mod W64)) (m_ok r)
  | MkUnknown _ => mkR (m_tail r) (m_rsp r) (m_func r) false
  end.

Definition mk_run (ops : list mkop) (stack : Z) : mkres :=
  fold_left mk_step ops (mkR stack None None true).

(** static check of the two constructors: decrements, then the mask 0xFFFFFFFFFFFFFFF0, then
    only the assignments of ctx->rsp and of the function slot *)
Fixpoint mk_pre (ops : list mkop) (dec : Z) : option (Z * list mkop) :=
  match ops with
  | MkSub n :: r => if 0 <=? n then mk_pre r (dec + n) else None
  | MkAnd m :: r => if m =? W64 - 16 then Some (dec, r) else None
  | _ => None
  end.

Fixpoint mk_post (ops : list mkop) : option (list Z * list Z) :=
  match ops with
  | [] => Some ([], [])
  | MkSetRsp o :: r => match mk_post r with Some (rs, fs) => Some (o :: rs, fs) | None => None end
  | MkStoreFunc o :: r => match mk_post r with Some (rs, fs) => Some (rs, o :: fs) | None => None end
  | _ => None
  end.

Definition off_ok (off : Z) : bool := (off mod 16 =? 0) && (off <=? 0) && (-16 <=? off).

(** empty context: rsp = 16-aligned address in (stack-48, stack] ; nothing stored *)
Definition mk_check_empty (ops : list mkop) : bool :=
  match mk_pre ops 0 with
  | Some (dec, r) =>
      match mk_post r with
      | Some ([off], []) => off_ok off && (dec <=? 16)
      | _ => false
      end
  | None => false
  end.

(** voidcall context: the function address is stored exactly where the saved rsp points, at least
    one word below the stack top *)
Definition mk_check_voidcall (ops : list mkop) : bool :=
  match mk_pre ops 0 with
  | Some (dec, r) =>
      match mk_post r with
      | Some ([off], [foff]) => off_ok off && (off =? foff) && (8 <=? dec) && (dec <=? 16)
      | _ => false
      end
  | None => false
  end.

(* ------------------------------------------------------------------ *)
(** * concrete diagnosis run (search for a failing register file after a rejection)

    The site is suspended from a state with pairwise distinct register values and a
    memory holding a distinct value in every word; then an adversarial but
    ABI-conforming environment runs (all registers overwritten, everything below the
    saved rsp scribbled, callbacks clobber every caller-saved register and scribble below
    their rsp); then the site's own tail resumes the saved context and the code after the
    label runs.  Reported: (1, reg, expected, got) register differs; (2, addr, expected, got)
    stack word at or above rsp0-128 differs; (3, k, rsp, 0) rsp not 16-aligned at the k-th call;
    (4, phase, 0, 0) execution stuck / ran off in phase; (5, expected, got, 0) resumed at the
    wrong address. *)

Definition d_rsp0 : Z := 140737488347136.        (* 0x7fffffffe000, 16-aligned *)
Definition d_heap : Z := 123145302310912.        (* context records live here, away from the stack *)
Definition d_lbl (sidv l : Z) : Z := 4194304 + sidv * 4096 + l * 16.

Definition d_regs0 : reg -> Z :=
  fun r => if reg_eqb r RSP then d_rsp0 else d_heap + reg_idx r * 4096.
Definition d_mem0 : Z -> Z := fun a => a * 7 + 3.
Definition d_state0 : state := mkState d_regs0 d_mem0.

Definition d_cb (f : Z) (s : state) : state :=
  mkState (fun r => if reg_in r caller_saved then 57005 + f * 65536 + reg_idx r else rg s r)
          (fun a => if a <? rg s RSP then (if d_heap <=? a then mem s a else 48879) else mem s a).

(** what other threads may do between suspension and resumption *)
Definition d_env (sp ctxaddr : Z) (loadreg : reg) (s : state) : state :=
  mkState (fun r => if reg_eqb r loadreg then ctxaddr else 3735879680 + reg_idx r)
          (fun a => if a <? sp then (if d_heap <=? a then mem s a else 47806) else mem s a).

Definition diag_regs (s : site) (s3 : state) : list (Z * Z * Z * Z) :=
  flat_map (fun r =>
              if (is_rsp r || reg_in r callee_saved || negb (declared_dead s r))
                   && negb (rg s3 r =? d_regs0 r)
              then [(1, reg_idx r, d_regs0 r, rg s3 r)] else []) all_regs.

Fixpoint diag_mem (n : nat) (a : Z) (m : Z -> Z) : list (Z * Z * Z * Z) :=
  match n with
  | O => []
  | S n' => (if m a =? d_mem0 a then [] else [(2, a, d_mem0 a, m a)]) ++ diag_mem n' (a + 8) m
  end.

Fixpoint diag_calls (k : Z) (l : list Z) : list (Z * Z * Z * Z) :=
  match l with
  | [] => []
  | x :: l' => (if x mod 16 =? 0 then [] else [(3, k, x, 0)]) ++ diag_calls (k + 1) l'
  end.

Definition diagnose (s : site) : list (Z * Z * Z * Z) :=
  let lb := d_lbl (sid s) in
  match site_parts (code s) with
  | None => [(4, 0, 0, 0)]
  | Some p =>
      match p_save p, p_cont p with
      | Some (svc, r), Some (l, rs) =>
          match run lb d_cb svc d_state0 with
          | Next spre =>
              let ctxaddr := rg spre r in
              match step lb d_cb (IStoreRsp r) spre with
              | Next s1 =>
                  let sp := rg s1 RSP in
                  let sB := d_env sp ctxaddr (p_load p) s1 in
                  let calls := diag_calls 0 (call_rsps lb d_cb (tail_code p) sB) in
                  match run lb d_cb (tail_code p) sB with
                  | Jump v s2 =>
                      if v =? lb l then
                        match run lb d_cb rs s2 with
                        | Next s3 => calls ++ diag_regs s s3 ++ diag_mem 48 (d_rsp0 - 128) (mem s3)
                                     ++ (if sp mod 16 =? 0 then [] else [(3, -1, sp, 0)])
                        | _ => calls ++ [(4, 3, 0, 0)]
                        end
                      else calls ++ [(5, lb l, v, 0)]
                  | _ => calls ++ [(4, 2, 0, 0)]
                  end
              | _ => [(4, 1, 0, 0)]
              end
          | _ => [(4, 1, 0, 0)]
          end
      | _, _ =>
          (* set kinds: enter a context whose saved rsp is 16-aligned and holds a resume address *)
          let sp := d_rsp0 - 4096 in
          let ctxaddr := d_regs0 (p_load p) in
          let s0 := setm ctxaddr sp (setm sp 4198400 d_state0) in
          let calls := diag_calls 0 (call_rsps lb d_cb (tail_code p) s0) in
          match run lb d_cb (tail_code p) s0 with
          | Jump v s2 => calls ++ (if v =? 4198400 then [] else [(5, 4198400, v, 0)])
                         ++ (if rg s2 RSP =? sp + 8 then [] else [(1, 0, sp + 8, rg s2 RSP)])
          | _ => calls ++ [(4, 2, 0, 0)]
          end
      end
  end.

(** misaligned initial contexts: first stack top in a small window for which the context is wrong *)
Definition diag_mk (voidcall : bool) (ops : list mkop) : list (Z * Z * Z * Z) :=
  flat_map (fun k =>
              let stack := d_rsp0 + k in
              let r := mk_run ops stack in
              match m_rsp r with
              | Some sp =>
                  (if sp mod 16 =? 0 then [] else [(6, stack, sp, 0)]) ++
                  (if (sp <=? stack) && (stack - 32 <=? sp) then [] else [(7, stack, sp, 0)]) ++
                  (if voidcall then
                     match m_func r with
                     | Some fa => if (fa =? sp) && (fa + 8 <=? stack) then [] else [(8, stack, sp, fa)]
                     | None => [(8, stack, sp, -1)]
                     end
                   else [])
              | None => [(9, stack, 0, 0)]
              end)
           [0; 8; 16; 24; 4; 1; -8; -16].

(* ------------------------------------------------------------------ *)
(** * custom-data (work-stealing hint) carve-out of myth_create_ex_body, case custom_data_size > 0

    The translator evaluates the statements of the current myth_create_ex_body (inlining helpers
    with C's by-value parameter passing) over linear forms
        l_stk * stk + l_const + l_r16 * round16 size + l_size * size
    where [stk] is the stack top returned by the allocator (the block's size word lies at stk + 8)
    and [size] = custom_data_size. *)

Record lin := mkLin { l_stk : Z; l_const : Z; l_r16 : Z; l_size : Z }.

Definition round16 (size : Z) : Z := (size + 15) / 16 * 16.

Definition lin_eval (stk size : Z) (l : lin) : Z :=
  l_stk l * stk + l_const l + l_r16 l * round16 size + l_size l * size.

Record carve := mkCarve {
  cd_empty_top : option lin;      (* stack top handed to myth_make_context_empty *)
  cd_voidcall_top : option lin;   (* stack top handed to myth_make_context_voidcall *)
  cd_ptr : option lin;            (* value stored in th->custom_data_ptr *)
  cd_copy_dst : option lin;       (* destination and length of the memcpy of the hint *)
  cd_copy_len : option lin;
  cd_understood : bool            (* no statement touching these values was left uninterpreted *)
}.

Definition lin_eqb (a b : lin) : bool :=
  (l_stk a =? l_stk b) && (l_const a =? l_const b) && (l_r16 a =? l_r16 b) && (l_size a =? l_size b).

Definition SIZE_WORD_OFF : Z := 8.

(** [top] = stk - (16-multiple) - k*round16 size, k >= 0, not above stk;
    [ptr] at or above [top] for every size, 16-aligned relative to stk, and ptr + size <= stk + 8 *)
Definition top_ok (t p : lin) : bool :=
  (l_stk t =? 1) && (l_size t =? 0) && (l_const t mod 16 =? 0) &&
  (l_r16 t <=? 0) && (l_const t + 16 * l_r16 t <=? 0) &&
  (0 <=? l_r16 p - l_r16 t) && (0 <=? (l_const p - l_const t) + 16 * (l_r16 p - l_r16 t)).

Definition ptr_ok (p : lin) : bool :=
  (l_stk p =? 1) && (l_size p =? 0) && (l_const p mod 16 =? 0) &&
  (l_r16 p + 1 <=? 0) && (l_const p + 16 * (l_r16 p + 1) <=? SIZE_WORD_OFF).

Definition cd_check (c : carve) : bool :=
  cd_understood c &&
  match cd_empty_top c, cd_voidcall_top c, cd_ptr c, cd_copy_dst c, cd_copy_len c with
  | Some te, Some tv, Some p, Some d, Some n =>
      ptr_ok p && top_ok te p && top_ok tv p && lin_eqb d p && lin_eqb n (mkLin 0 0 0 1)
  | _, _, _, _, _ => false
  end.

(** concrete search after a rejection: (10, size, first overlapping byte, one past the last) when
    the hint region [ptr, ptr+size) reaches below the stack top handed to make_context (the new
    thread's frames grow down from there), (11, size, ptr+size, stk+8) when it reaches the size
    word, (12, size, top, 0) when the stack top loses 16-alignment, (13, ..) copy elsewhere *)
Definition diag_cd (c : carve) : list (Z * Z * Z * Z) :=
  match cd_empty_top c, cd_voidcall_top c, cd_ptr c with
  | Some te, Some tv, Some p =>
      flat_map (fun size =>
        let stk := d_rsp0 in
        let pv := lin_eval stk size p in
        flat_map (fun t =>
          let tvv := lin_eval stk size t in
          (if pv <? tvv then [(10, size, pv, Z.min (pv + size) tvv)] else []) ++
          (if tvv mod 16 =? 0 then [] else [(12, size, tvv, 0)])) [te; tv] ++
        (if stk + SIZE_WORD_OFF <? pv + size then [(11, size, pv + size, stk + SIZE_WORD_OFF)] else []) ++
        match cd_copy_dst c, cd_copy_len c with
        | Some d, Some n => if (lin_eval stk size d =? pv) && (lin_eval stk size n =? size) then []
                            else [(13, size, lin_eval stk size d, lin_eval stk size n)]
        | _, _ => []
        end) [1; 16; 24; 100; 512; 4000]
  | _, _, _ => []
  end.

(* ------------------------------------------------------------------ *)
(** * publication of the running thread versus the save of its context

    Events of one non-callback function body, in source order, as extracted by the translator
    (tools/translate_ctx.py : extract_publish). *)
Inductive pev :=
| PPubSelf                 (* the running thread is handed to a run queue / sleep queue / wake-up field *)
| PPubOther                (* some other thread is published *)
| PSwitchCall (f : Z)      (* switch with callback f; saves the running thread's context *)
| PSwitchCallSched (f : Z) (* switch with callback; saves the scheduler's context *)
| PSwitchPlainThread       (* switch without callback that saves a thread's context *)
| PSwitchPlainSched        (* switch without callback that saves the scheduler's context *)
| PSetCall (f : Z)         (* switch that saves nothing (the running thread has finished) *)
| PSetPlain.

(** what the running thread's own code does, step by step: a switch with callback is
    save ; (callback, on the next stack: may publish the saved thread) ; ... ; resumed by whoever took it *)
Inductive micro := MSave | MPublish | MResume.

Definition expand (e : pev) : list micro :=
  match e with
  | PPubSelf => [MPublish]
  | PSwitchCall _ => [MSave; MPublish; MResume]
  | PSwitchPlainThread => [MSave; MResume]
  | _ => []
  end.

Record pst := mkPst { p_saved : bool; p_visible : bool }.

Definition mstep (m : micro) (s : pst) : pst :=
  match m with
  | MSave => mkPst true (p_visible s)
  | MPublish => mkPst (p_saved s) true
  | MResume => mkPst false false      (* taken out of the queue and running again *)
  end.

(** the thread can be taken by another worker only when it is visible; that is safe only if its context is saved *)
Definition pst_safe (s : pst) : bool := implb (p_visible s) (p_saved s).

Fixpoint safe_run (ms : list micro) (s : pst) : bool :=
  pst_safe s && match ms with [] => true | m :: r => safe_run r (mstep m s) end.

(** the checker: the body never publishes the running thread itself and never suspends a thread
    without a callback (such a thread could only be resumed by somebody who learnt of it before
    its context was saved) *)
Definition pub_ok (e : pev) : bool :=
  match e with PPubSelf => false | PSwitchPlainThread => false | _ => true end.
Definition pub_check (evs : list pev) : bool := forallb pub_ok evs.

(* ------------------------------------------------------------------ *)
(** * witness data for the floating-point control state (C03_fp_control_refuted)

    [fp_witness_site] is myth_swap_context as compiled on the pinned tree (Properties_C03.v shows
    that it has the same code as the pinned site_2).  Thread A runs with round-upward
    (MXCSR 0x5F80, x87 CW 0x0B7F); the thread that runs on the worker in between sets
    round-downward (MXCSR 0x3F80, x87 CW 0x077F) and overwrites every integer register. *)
Definition fp_witness_site : site :=
  mkSite 0
    [ISubRsp 128; IPush RBP; IPush RBX; IPush R12; IPush R13; IPush R14; IPush R15; ISubRsp 8;
     ILea 1 RBP; IPush RBP; IStoreRsp RAX; ILoadRsp RDX; IPop RAX; IJmp RAX; ILabel 1;
     IAddRsp 8; IPop R15; IPop R14; IPop R13; IPop R12; IPop RBX; IPop RBP; IAddRsp 128]
    [RAX; RCX; RDX; RSI; RDI] [RAX; RDX] [R8; R9; R10; R11] true true.

Definition FP_UPWARD : fpctl := mkFp 24448 2943.      (* 0x5F80, 0x0B7F *)
Definition FP_DOWNWARD : fpctl := mkFp 16256 1919.    (* 0x3F80, 0x077F *)

(** what the other thread leaves behind: the context cell address in the load register so that
    the tail resumes A's context, garbage in every other register, memory untouched *)
Definition fp_witness_env (loadreg : reg) (ctxaddr : Z) (s1 : state) : state :=
  mkState (fun r => if reg_eqb r loadreg then ctxaddr else 3735879680 + reg_idx r) (mem s1).
