(** C03 - soundness of the context-switch checker (Ctx/CtxCheckModel.v) with respect to the
    machine of Ctx/X86Model.v, alignment, and the initial contexts. *)
From Coq Require Import ZArith List Bool Lia.
From MT Require Import Ctx.X86Model Ctx.CtxCheckModel.
Import ListNotations.
Local Open Scope Z_scope.

(* ------------------------------------------------------------------ *)
(** * registers, state updates *)

Lemma reg_idx_inj : forall a b, reg_idx a = reg_idx b -> a = b.
Proof. intros a b; destruct a; destruct b; cbn; intros H; try reflexivity; discriminate H. Qed.

Lemma reg_eqb_eq : forall a b, reg_eqb a b = true <-> a = b.
Proof.
  intros a b; unfold reg_eqb; rewrite Z.eqb_eq; split.
  - apply reg_idx_inj.
  - intros H; subst; reflexivity.
Qed.

Lemma reg_eqb_refl : forall a, reg_eqb a a = true.
Proof. intros a; apply reg_eqb_eq; reflexivity. Qed.

Lemma reg_eqb_neq : forall a b, a <> b -> reg_eqb a b = false.
Proof.
  intros a b H; destruct (reg_eqb a b) eqn:E; [|reflexivity].
  apply reg_eqb_eq in E; contradiction.
Qed.

Lemma reg_in_In : forall r l, reg_in r l = true <-> In r l.
Proof.
  intros r l; unfold reg_in; rewrite existsb_exists; split.
  - intros [x [Hx E]]; apply reg_eqb_eq in E; subst; exact Hx.
  - intros H; exists r; split; [exact H|apply reg_eqb_refl].
Qed.

Lemma is_rsp_false : forall r, is_rsp r = false -> r <> RSP.
Proof. intros r H E; subst; discriminate H. Qed.

Lemma rg_setr_same : forall r v s, rg (setr r v s) r = v.
Proof. intros; cbn; rewrite reg_eqb_refl; reflexivity. Qed.

Lemma rg_setr_other : forall r v s x, x <> r -> rg (setr r v s) x = rg s x.
Proof. intros; cbn; rewrite reg_eqb_neq by assumption; reflexivity. Qed.

Lemma mem_setr : forall r v s a, mem (setr r v s) a = mem s a.
Proof. reflexivity. Qed.

Lemma rg_setm : forall a v s x, rg (setm a v s) x = rg s x.
Proof. reflexivity. Qed.

Lemma mem_setm_same : forall a v s, mem (setm a v s) a = v.
Proof. intros; cbn; rewrite Z.eqb_refl; reflexivity. Qed.

Lemma mem_setm_other : forall a v s x, x <> a -> mem (setm a v s) x = mem s x.
Proof.
  intros a v s x H; cbn; destruct (x =? a) eqn:E; [|reflexivity].
  apply Z.eqb_eq in E; contradiction.
Qed.

Lemma run_app : forall lb cb a b s,
  run lb cb (a ++ b) s = match run lb cb a s with Next s' => run lb cb b s' | o => o end.
Proof.
  intros lb cb a; induction a as [|i a IH]; intros b s; cbn [app run].
  - reflexivity.
  - destruct (step lb cb i s) as [s'| |]; [apply IH|reflexivity|reflexivity].
Qed.

(* ------------------------------------------------------------------ *)
(** * structure of a parsed site *)

Lemma split_store_code : forall c p r q,
  split_store c = Some (p, r, q) -> c = p ++ IStoreRsp r :: q.
Proof.
  induction c as [|i c IH]; intros p r q H; cbn in H; [discriminate|].
  destruct i;
    try (destruct (split_store c) as [[[p' r'] q']|] eqn:E; [|discriminate];
         inversion H; subst; cbn; f_equal; apply IH; reflexivity).
  inversion H; subst; reflexivity.
Qed.

Lemma take_calls_code : forall c fs q, take_calls c = (fs, q) -> c = map ICall fs ++ q.
Proof.
  induction c as [|i c IH]; intros fs q H; cbn in H.
  - inversion H; reflexivity.
  - destruct i; try (inversion H; reflexivity).
    destruct (take_calls c) as [fs' q'] eqn:E; inversion H; subst; cbn; f_equal; apply IH; reflexivity.
Qed.

(** the parts are a decomposition of the instruction list itself *)
Lemma parse_tail_code : forall sv c p,
  parse_tail sv c = Some p ->
  p_save p = sv /\
  exists tl, c = tail_code p ++ tl /\
             match p_cont p with
             | Some (l, rs) => tl = ILabel l :: rs /\ sv <> None
             | None => all_ud2 tl = true /\ sv = None
             end.
Proof.
  intros sv c p H; unfold parse_tail in H.
  destruct c as [|i rest]; [discriminate|]; destruct i; try discriminate.
  destruct (take_calls rest) as [fs q] eqn:Etc.
  destruct q as [|i1 q]; [discriminate|]; destruct i1; try discriminate.
  destruct q as [|i2 q']; [discriminate|]; destruct i2; try discriminate.
  destruct (reg_eqb r0 r1) eqn:Er; [|discriminate].
  apply reg_eqb_eq in Er; subst r1.
  apply take_calls_code in Etc; subst rest.
  destruct sv as [x|].
  - destruct q' as [|i3 rs]; [discriminate|]; destruct i3; try discriminate.
    inversion H; subst; cbn; split; [reflexivity|].
    exists (ILabel l :: rs); split.
    + unfold tail_code; cbn; rewrite <- app_assoc; reflexivity.
    + split; [reflexivity|discriminate].
  - destruct (all_ud2 q') eqn:Eu; [|discriminate].
    inversion H; subst; cbn; split; [reflexivity|].
    exists q'; split.
    + unfold tail_code; cbn; rewrite <- app_assoc; reflexivity.
    + split; [exact Eu|reflexivity].
Qed.

Theorem site_parts_code : forall c p,
  site_parts c = Some p ->
  exists tl, c = save_code p ++ tail_code p ++ tl /\
             match p_cont p with
             | Some (l, rs) => tl = ILabel l :: rs /\ p_save p <> None
             | None => all_ud2 tl = true /\ p_save p = None
             end.
Proof.
  intros c p H; unfold site_parts in H.
  destruct (split_store c) as [[[svc r] rest]|] eqn:Es.
  - apply split_store_code in Es.
    apply parse_tail_code in H; destruct H as [Hs [tl [Hc Ht]]].
    exists tl; split.
    + unfold save_code; rewrite Hs; subst c rest; rewrite <- app_assoc; reflexivity.
    + rewrite Hs; exact Ht.
  - apply parse_tail_code in H; destruct H as [Hs [tl [Hc Ht]]].
    exists tl; split.
    + unfold save_code; rewrite Hs; exact Hc.
    + rewrite Hs; exact Ht.
Qed.

(* ------------------------------------------------------------------ *)
(** * symbolic execution is sound *)

Definition sval (s0 : state) (lb : Z -> Z) (v : sv) (z : Z) : Prop :=
  match v with
  | SInit r => z = rg s0 r
  | SLbl l => z = lb l
  | STop => True
  end.

(** [abs s0 lb hi t s]: the concrete state [s] is described by the symbolic state [t],
    relative to the state [s0] at the asm statement *)
Definition abs (s0 : state) (lb : Z -> Z) (hi : Z) (t : sst) (s : state) : Prop :=
  rg s RSP = rg s0 RSP - sd t /\
  (forall r, r <> RSP -> sval s0 lb (sr t r) (rg s r)) /\
  (forall D, sval s0 lb (lookup D (sl t)) (mem s (rg s0 RSP - D))) /\
  (forall a, rg s0 RSP - 128 <= a < hi -> mem s a = mem s0 a).

Lemma sv_eqb_eq : forall a b, sv_eqb a b = true -> a = b.
Proof.
  intros a b H; destruct a; destruct b; cbn in H; try discriminate.
  - apply reg_eqb_eq in H; subst; reflexivity.
  - apply Z.eqb_eq in H; subst; reflexivity.
Qed.

Lemma abs_init : forall s0 lb hi, abs s0 lb hi sym_init s0.
Proof.
  intros s0 lb hi; unfold abs, sym_init; cbn; repeat split; intros; try reflexivity; lia.
Qed.

Lemma sym_step_sound : forall s0 lb cb hi i t t' s,
  abs s0 lb hi t s -> sym_step i t = Some t' ->
  exists s', step lb cb i s = Next s' /\ abs s0 lb hi t' s'.
Proof.
  intros s0 lb cb hi i t t' s [Hsp [Hr [Hm Hf]]] H.
  destruct i; cbn [sym_step] in H; try discriminate.
  - (* sub *)
    destruct ((0 <=? n) && (n mod 8 =? 0)); [|discriminate]; inversion H; subst; clear H.
    eexists; split; [reflexivity|]; unfold abs; cbn [sd sr sl].
    split; [rewrite rg_setr_same; lia|]. split.
    + intros r Hne; rewrite rg_setr_other by exact Hne; apply Hr; exact Hne.
    + split; intros; rewrite mem_setr; auto.
  - (* add *)
    destruct ((0 <=? n) && (n mod 8 =? 0)); [|discriminate]; inversion H; subst; clear H.
    eexists; split; [reflexivity|]; unfold abs; cbn [sd sr sl].
    split; [rewrite rg_setr_same; lia|]. split.
    + intros r Hne; rewrite rg_setr_other by exact Hne; apply Hr; exact Hne.
    + split; intros; rewrite mem_setr; auto.
  - (* push *)
    destruct (is_rsp r) eqn:Er; [discriminate|]. apply is_rsp_false in Er.
    destruct (RED_ZONE <? sd t + 8) eqn:Ez; [|discriminate]. apply Z.ltb_lt in Ez. unfold RED_ZONE in Ez.
    inversion H; subst; clear H.
    eexists; split; [reflexivity|]; unfold abs; cbn [sd sr sl].
    split; [rewrite rg_setr_same; lia|]. split.
    + intros x Hne; rewrite rg_setr_other by exact Hne; rewrite rg_setm; apply Hr; exact Hne.
    + split.
      * intros D; rewrite mem_setr; cbn [lookup].
        destruct (sd t + 8 =? D) eqn:ED.
        -- apply Z.eqb_eq in ED; subst D.
           replace (rg s0 RSP - (sd t + 8)) with (rg s RSP - 8) by lia.
           rewrite mem_setm_same; apply Hr; exact Er.
        -- apply Z.eqb_neq in ED. rewrite mem_setm_other by lia. apply Hm.
      * intros a Ha; rewrite mem_setr; rewrite mem_setm_other by lia; apply Hf; exact Ha.
  - (* pop *)
    destruct (is_rsp r) eqn:Er; [discriminate|]. apply is_rsp_false in Er.
    inversion H; subst; clear H.
    eexists; split; [reflexivity|]; unfold abs; cbn [sd sr sl].
    split; [rewrite rg_setr_other by congruence; rewrite rg_setr_same; lia|]. split.
    + intros x Hne; unfold upd. destruct (reg_eqb x r) eqn:Ex.
      * apply reg_eqb_eq in Ex; subst x; rewrite rg_setr_same.
        rewrite Hsp; apply Hm.
      * assert (x <> r) by (intros E; subst; rewrite reg_eqb_refl in Ex; discriminate).
        rewrite rg_setr_other by assumption. rewrite rg_setr_other by exact Hne. apply Hr; exact Hne.
    + split; intros; rewrite !mem_setr; auto.
  - (* lea *)
    destruct (is_rsp r) eqn:Er; [discriminate|]. apply is_rsp_false in Er.
    inversion H; subst; clear H.
    eexists; split; [reflexivity|]; unfold abs; cbn [sd sr sl].
    split; [rewrite rg_setr_other by congruence; lia|]. split.
    + intros x Hne; unfold upd. destruct (reg_eqb x r) eqn:Ex.
      * apply reg_eqb_eq in Ex; subst x; rewrite rg_setr_same; reflexivity.
      * assert (x <> r) by (intros E; subst; rewrite reg_eqb_refl in Ex; discriminate).
        rewrite rg_setr_other by assumption. apply Hr; exact Hne.
    + split; intros; rewrite mem_setr; auto.
  - (* mov *)
    destruct (is_rsp a) eqn:Ea; [discriminate|]. destruct (is_rsp b) eqn:Eb; [discriminate|].
    apply is_rsp_false in Ea; apply is_rsp_false in Eb. cbn in H.
    inversion H; subst; clear H.
    eexists; split; [reflexivity|]; unfold abs; cbn [sd sr sl].
    split; [rewrite rg_setr_other by congruence; lia|]. split.
    + intros x Hne; unfold upd. destruct (reg_eqb x b) eqn:Ex.
      * apply reg_eqb_eq in Ex; subst x; rewrite rg_setr_same; apply Hr; exact Ea.
      * assert (x <> b) by (intros E; subst; rewrite reg_eqb_refl in Ex; discriminate).
        rewrite rg_setr_other by assumption. apply Hr; exact Hne.
    + split; intros; rewrite mem_setr; auto.
  - (* label *)
    inversion H; subst; clear H.
    eexists; split; [reflexivity|]; unfold abs; auto.
Qed.

Lemma sym_run_sound : forall s0 lb cb hi c t t' s,
  abs s0 lb hi t s -> sym_run c t = Some t' ->
  exists s', run lb cb c s = Next s' /\ abs s0 lb hi t' s'.
Proof.
  intros s0 lb cb hi c; induction c as [|i c IH]; intros t t' s Ha H; cbn [sym_run] in H.
  - inversion H; subst; exists s; split; [reflexivity|exact Ha].
  - destruct (sym_step i t) as [t1|] eqn:E; [|discriminate].
    destruct (sym_step_sound s0 lb cb hi i t t1 s Ha E) as [s1 [Hs1 Ha1]].
    destruct (IH t1 t' s1 Ha1 H) as [s' [Hr Ha']].
    exists s'; split; [|exact Ha']. cbn [run]; rewrite Hs1; exact Hr.
Qed.

Lemma lookup_filter : forall (g : Z -> bool) D l,
  lookup D (filter (fun kv => g (fst kv)) l) = if g D then lookup D l else STop.
Proof.
  intros g D l; induction l as [|[k v] l IH]; cbn [filter lookup fst].
  - destruct (g D); reflexivity.
  - destruct (g k) eqn:Ek; cbn [lookup].
    + destruct (k =? D) eqn:EkD.
      * apply Z.eqb_eq in EkD; subst; rewrite Ek; reflexivity.
      * exact IH.
    + rewrite IH. destruct (g D) eqn:EgD; [|reflexivity].
      destruct (k =? D) eqn:EkD; [|reflexivity].
      apply Z.eqb_eq in EkD; subst; congruence.
Qed.

(* ------------------------------------------------------------------ *)
(** * the resuming tail *)

(** what the ABI guarantees about a callback called with rsp = [rg s RSP] on a stack whose
    top is [hi]: it returns with the same rsp and callee-saved registers and has written
    nothing at or above the rsp of the call (its frame, the return address and the red zone
    below it are all below that address).  It may write any other memory. *)
Definition abi_callee (hi : Z) (cb : Z -> state -> state) : Prop :=
  forall f s,
    rg (cb f s) RSP = rg s RSP /\
    (forall r, In r callee_saved -> rg (cb f s) r = rg s r) /\
    (forall a, rg s RSP <= a < hi -> mem (cb f s) a = mem s a).

Lemma calls_run : forall lb cb hi fs rest s,
  abi_callee hi cb ->
  exists s', run lb cb (map ICall fs ++ rest) s = run lb cb rest s' /\
             rg s' RSP = rg s RSP /\
             (forall a, rg s RSP <= a < hi -> mem s' a = mem s a) /\
             call_rsps lb cb (map ICall fs ++ rest) s
               = repeat (rg s RSP) (length fs) ++ call_rsps lb cb rest s'.
Proof.
  intros lb cb hi fs rest s Habi; revert s; induction fs as [|f fs IH]; intros s.
  - exists s; cbn; auto.
  - destruct (Habi f s) as [H1 [_ H3]].
    destruct (IH (cb f s)) as [s' [Hr [Hsp [Hm Hc]]]].
    exists s'; cbn [map app run step call_rsps length repeat]. split; [exact Hr|].
    split; [congruence|]. split.
    + intros a Ha. rewrite Hm by (rewrite H1; exact Ha). apply H3; exact Ha.
    + rewrite Hc, H1; reflexivity.
Qed.

Lemma tail_run : forall lb cb hi p sB,
  abi_callee hi cb -> p_ret p <> RSP ->
  let sp := mem sB (rg sB (p_load p)) in
  exists s2, run lb cb (tail_code p) sB = Jump (mem s2 sp) s2 /\
             rg s2 RSP = sp + 8 /\
             (forall a, sp <= a < hi -> mem s2 a = mem sB a) /\
             call_rsps lb cb (tail_code p) sB = repeat sp (length (p_calls p)).
Proof.
  intros lb cb hi p sB Habi Hret sp. unfold tail_code.
  cbn [run step call_rsps app].
  set (s1 := setr RSP (mem sB (rg sB (p_load p))) sB).
  destruct (calls_run lb cb hi (p_calls p) [IPop (p_ret p); IJmp (p_ret p)] s1 Habi)
    as [s' [Hr [Hsp [Hm Hc]]]].
  assert (Hs1 : rg s1 RSP = sp) by (unfold s1; rewrite rg_setr_same; reflexivity).
  rewrite Hs1 in *.
  exists (setr (p_ret p) (mem s' (rg s' RSP)) (setr RSP (rg s' RSP + 8) s')).
  split; [|split; [|split]].
  - rewrite Hr; cbn [run step]. rewrite rg_setr_same, !mem_setr, Hsp; reflexivity.
  - rewrite rg_setr_other by congruence. rewrite rg_setr_same, Hsp; reflexivity.
  - intros a Ha; rewrite !mem_setr. rewrite Hm by exact Ha. unfold s1; rewrite mem_setr; reflexivity.
  - rewrite Hc; cbn [call_rsps step app]. rewrite app_nil_r; reflexivity.
Qed.

(* ------------------------------------------------------------------ *)
(** * what an accepted site satisfies *)

Lemma input_ok_inv : forall s t r, input_ok s t r = true ->
  r <> RSP /\ exists r0, sr t r = SInit r0 /\ In r0 (ins s).
Proof.
  intros s t r H; unfold input_ok in H. apply andb_prop in H; destruct H as [H1 H2].
  split.
  - apply is_rsp_false. destruct (is_rsp r); [discriminate|reflexivity].
  - destruct (sr t r) as [r0| |]; cbn in H2; try discriminate.
    exists r0; split; [reflexivity|apply reg_in_In; exact H2].
Qed.

Lemma tail_ok_ret : forall s p t, tail_ok s p t = true -> p_ret p <> RSP.
Proof.
  intros s p t H; unfold tail_ok in H.
  apply andb_prop in H; destruct H as [H _]. apply andb_prop in H; destruct H as [H _].
  apply is_rsp_false. destruct (is_rsp (p_ret p)); [discriminate|reflexivity].
Qed.

Lemma ctx_check_ret : forall B pb,
  ctx_check B = true -> site_parts (code B) = Some pb -> p_ret pb <> RSP.
Proof.
  intros B pb H Hp; unfold ctx_check in H; rewrite Hp in H.
  destruct (p_save pb) as [[svc r]|].
  - destruct (sym_site pb) as [[t1 t3]|]; [|discriminate].
    do 7 (apply andb_prop in H; destruct H as [H _]).
    eapply tail_ok_ret; exact H.
  - eapply tail_ok_ret; exact H.
Qed.

Lemma ctx_check_swap_inv : forall A pa depth r0,
  ctx_check A = true -> site_parts (code A) = Some pa -> site_summary A = Some (depth, r0) ->
  exists svc r l rs t1 t3,
    p_save pa = Some (svc, r) /\ p_cont pa = Some (l, rs) /\
    sym_run svc sym_init = Some t1 /\ lookup (sd t1) (sl t1) = SLbl l /\
    sym_run rs (sym_resume t1) = Some t3 /\
    sd t1 = depth /\ sr t1 r = SInit r0 /\ r <> RSP /\ In r0 (ins A) /\
    p_ret pa <> RSP /\ depth mod 16 = 0 /\ 128 < depth /\ sd t3 = 0 /\
    (forall x, In x callee_saved -> sr t3 x = SInit x) /\
    (forall x, x <> RSP -> declared_dead A x = false -> sr t3 x = SInit x) /\
    clob_mem A = true.
Proof.
  intros A pa depth r0 H Hp Hs.
  unfold ctx_check in H; unfold site_summary in Hs; rewrite Hp in H, Hs.
  destruct (p_save pa) as [[svc r]|] eqn:Esv; [|discriminate].
  destruct (sym_site pa) as [[t1 t3]|] eqn:Esym; [|discriminate].
  unfold sym_site in Esym; rewrite Esv in Esym.
  destruct (p_cont pa) as [[l rs]|] eqn:Ec; [|discriminate].
  destruct (sym_run svc sym_init) as [t1'|] eqn:E1; [|discriminate].
  destruct (sv_eqb (lookup (sd t1') (sl t1')) (SLbl l)) eqn:El; [|discriminate].
  destruct (sym_run rs (sym_resume t1')) as [t3'|] eqn:E3; [|discriminate].
  inversion Esym; subst t1' t3'; clear Esym.
  apply sv_eqb_eq in El.
  apply andb_prop in H; destruct H as [H Hmem].
  apply andb_prop in H; destruct H as [H Hall].
  apply andb_prop in H; destruct H as [H Hcs].
  apply andb_prop in H; destruct H as [H Hd3].
  apply andb_prop in H; destruct H as [H Hrz].
  apply andb_prop in H; destruct H as [H H16].
  apply andb_prop in H; destruct H as [Htail Hin].
  apply input_ok_inv in Hin; destruct Hin as [Hr [r0' [Hsr Hin]]].
  rewrite Hsr in Hs; cbn in Hs; inversion Hs; subst r0' depth; clear Hs.
  exists svc, r, l, rs, t1, t3.
  repeat split; try assumption; try reflexivity.
  - eapply tail_ok_ret; exact Htail.
  - apply Z.eqb_eq; exact H16.
  - apply Z.ltb_lt in Hrz; exact Hrz.
  - apply Z.eqb_eq; exact Hd3.
  - intros x Hx. rewrite forallb_forall in Hcs. specialize (Hcs x Hx).
    unfold is_init in Hcs; apply sv_eqb_eq in Hcs; exact Hcs.
  - intros x Hx Hdd. rewrite forallb_forall in Hall.
    assert (Hxin : In x all_regs) by (destruct x; cbn; tauto).
    specialize (Hall x Hxin). rewrite Hdd in Hall.
    rewrite (reg_eqb_neq x RSP Hx : is_rsp x = false) in Hall.
    cbn in Hall. rewrite orb_false_r in Hall.
    unfold is_init in Hall; apply sv_eqb_eq in Hall; exact Hall.
Qed.

(* ------------------------------------------------------------------ *)
(** * soundness *)

Section Sound.
  Variable lblf : Z -> Z -> Z.        (* code address of local label l of site number n *)
  Variable cb : Z -> state -> state.  (* the callbacks *)
  Variable hi : Z.                    (* top of the suspended thread's stack *)
  Hypothesis cb_abi : abi_callee hi cb.

  Theorem ctx_check_sound : forall A B pa pb depth r0,
    ctx_check A = true -> ctx_check B = true ->
    site_parts (code A) = Some pa -> site_parts (code B) = Some pb ->
    site_summary A = Some (depth, r0) ->
    forall s0,
      rg s0 RSP <= hi ->
      ~ (rg s0 RSP - depth <= rg s0 r0 < hi) ->
      exists s1,
        run (lblf (sid A)) cb (save_code pa) s0 = Next s1 /\
        rg s1 RSP = rg s0 RSP - depth /\ mem s1 (rg s0 r0) = rg s1 RSP /\
        forall sB,
          (forall a, rg s1 RSP <= a < hi -> mem sB a = mem s1 a) ->
          mem sB (rg sB (p_load pb)) = rg s1 RSP ->
          exists s2 l rs,
            p_cont pa = Some (l, rs) /\
            run (lblf (sid B)) cb (tail_code pb) sB = Jump (lblf (sid A) l) s2 /\
            exists s3,
              run (lblf (sid A)) cb rs s2 = Next s3 /\
              rg s3 RSP = rg s0 RSP /\
              (forall r, In r callee_saved -> rg s3 r = rg s0 r) /\
              (forall r, r <> RSP -> declared_dead A r = false -> rg s3 r = rg s0 r) /\
              (forall a, rg s0 RSP - 128 <= a < hi -> mem s3 a = mem s0 a).
  Proof.
    intros A B pa pb depth r0 HA HB HpA HpB Hsum s0 Hhi Hcell.
    destruct (ctx_check_swap_inv A pa depth r0 HA HpA Hsum)
      as [svc [r [l [rs [t1 [t3 [Hsv [Hct [E1 [El [E3 [Hd [Hsr [Hr [_ [_ [_ [Hrz [Hd3 [Hcs [Hdead _]]]]]]]]]]]]]]]]]]]]].
    pose (lb := lblf (sid A)).
    destruct (sym_run_sound s0 lb cb hi svc sym_init t1 s0 (abs_init s0 lb hi) E1)
      as [spre [Hrun1 [Hsp1 [Hr1 [Hm1 Hf1]]]]].
    assert (Hcelladdr : rg spre r = rg s0 r0).
    { specialize (Hr1 r Hr). rewrite Hsr in Hr1. exact Hr1. }
    exists (setm (rg spre r) (rg spre RSP) spre).
    split; [|split; [|split]].
    - unfold save_code; rewrite Hsv. rewrite run_app. fold lb. rewrite Hrun1. reflexivity.
    - rewrite rg_setm. lia.
    - rewrite rg_setm. rewrite <- Hcelladdr. apply mem_setm_same.
    - rewrite rg_setm. intros sB HmB HloadB.
      set (sp := rg spre RSP) in *.
      assert (Hspv : sp = rg s0 RSP - depth) by (unfold sp; lia).
      pose proof (ctx_check_ret B pb HB HpB) as HretB.
      destruct (tail_run (lblf (sid B)) cb hi pb sB cb_abi HretB) as [s2 [Hrun2 [Hsp2 [Hm2 _]]]].
      cbv zeta in Hrun2, Hsp2, Hm2. rewrite HloadB in Hrun2, Hsp2, Hm2.
      (* memory of s2 on [sp, hi) is that of spre except possibly at the context cell, which is outside *)
      assert (Hmem2 : forall a, sp <= a < hi -> mem s2 a = mem spre a).
      { intros a Ha. rewrite Hm2 by exact Ha. rewrite HmB by exact Ha.
        apply mem_setm_other. rewrite Hcelladdr. intros E; subst a. apply Hcell. lia. }
      assert (Hlbl : mem s2 sp = lb l).
      { rewrite Hmem2 by lia.
        specialize (Hm1 (sd t1)). rewrite El in Hm1. cbn in Hm1.
        replace (rg s0 RSP - sd t1) with sp in Hm1 by lia. exact Hm1. }
      exists s2, l, rs. split; [exact Hct|]. split; [rewrite Hrun2, Hlbl; reflexivity|].
      assert (Habs2 : abs s0 lb hi (sym_resume t1) s2).
      { unfold abs, sym_resume; cbn [sd sr sl]. split; [lia|]. split; [intros; exact I|]. split.
        - intros D.
          rewrite (lookup_filter (fun k => (RED_ZONE <? k) && (k <=? sd t1)) D (sl t1)).
          destruct ((RED_ZONE <? D) && (D <=? sd t1)) eqn:ED; [|exact I].
          apply andb_prop in ED; destruct ED as [ED1 ED2].
          apply Z.ltb_lt in ED1; apply Z.leb_le in ED2; unfold RED_ZONE in ED1.
          rewrite Hmem2 by lia. apply Hm1.
        - intros a Ha. rewrite Hmem2 by lia. apply Hf1; exact Ha. }
      destruct (sym_run_sound s0 lb cb hi rs (sym_resume t1) t3 s2 Habs2 E3)
        as [s3 [Hrun3 [Hsp3 [Hr3 [_ Hf3]]]]].
      exists s3. split; [exact Hrun3|]. split; [lia|]. split; [|split].
      + intros x Hx. assert (Hne : x <> RSP) by (intros E; subst; cbn in Hx; intuition discriminate).
        specialize (Hr3 x Hne). rewrite (Hcs x Hx) in Hr3. exact Hr3.
      + intros x Hne Hdd. specialize (Hr3 x Hne). rewrite (Hdead x Hne Hdd) in Hr3. exact Hr3.
      + exact Hf3.
  Qed.

  (** the saved rsp keeps the alignment the asm statement was entered with *)
  Theorem save_keeps_alignment : forall A pa depth r0,
    ctx_check A = true -> site_parts (code A) = Some pa -> site_summary A = Some (depth, r0) ->
    depth mod 16 = 0 /\ 128 < depth.
  Proof.
    intros A pa depth r0 HA HpA Hsum.
    destruct (ctx_check_swap_inv A pa depth r0 HA HpA Hsum)
      as [svc [r [l [rs [t1 [t3 [_ [_ [_ [_ [_ [_ [_ [_ [_ [_ [H16 [Hrz _]]]]]]]]]]]]]]]]]].
    split; assumption.
  Qed.

  (** every callback called by an accepted site's tail is called with rsp = the rsp stored in the
      context it switches to, and the context's continuation is entered with that rsp + 8 *)
  Theorem tail_calls_at_saved_rsp : forall B pb sB,
    ctx_check B = true -> site_parts (code B) = Some pb ->
    let sp := mem sB (rg sB (p_load pb)) in
    Forall (fun x => x = sp) (call_rsps (lblf (sid B)) cb (tail_code pb) sB) /\
    exists s2 v, run (lblf (sid B)) cb (tail_code pb) sB = Jump v s2 /\ rg s2 RSP = sp + 8 /\
                 (sp < hi -> v = mem sB sp).
  Proof.
    intros B pb sB HB HpB sp.
    pose proof (ctx_check_ret B pb HB HpB) as HretB.
    destruct (tail_run (lblf (sid B)) cb hi pb sB cb_abi HretB) as [s2 [Hrun2 [Hsp2 [Hm2 Hc]]]].
    fold sp in Hrun2, Hsp2, Hm2, Hc. split.
    - rewrite Hc. apply Forall_forall. intros x Hx. apply repeat_spec in Hx. exact Hx.
    - exists s2, (mem s2 sp). split; [exact Hrun2|]. split; [exact Hsp2|].
      intros Hlt. apply Hm2. lia.
  Qed.
End Sound.

(* ------------------------------------------------------------------ *)
(** * initial contexts *)

Lemma land_mask16 : forall x, 0 <= x < W64 -> Z.land x (W64 - 16) = x - x mod 16.
Proof.
  intros x Hx.
  replace (W64 - 16) with (Z.land (Z.lnot (Z.ones 4)) (Z.ones 64)) by reflexivity.
  rewrite Z.land_assoc. rewrite Z.land_ones by lia.
  rewrite <- Z.ldiff_land. rewrite Z.ldiff_ones_r by lia.
  rewrite Z.shiftr_div_pow2 by lia. rewrite Z.shiftl_mul_pow2 by lia.
  change (2 ^ 4) with 16. change (2 ^ 64) with W64.
  pose proof (Z.div_mod x 16 ltac:(lia)) as Hdm.
  pose proof (Z.mod_pos_bound x 16 ltac:(lia)) as Hmb.
  assert (E : x / 16 * 16 = x - x mod 16) by lia.
  rewrite E. apply Z.mod_small. lia.
Qed.

Lemma mk_pre_run : forall stack ops dec0 dec r a b c,
  mk_pre ops dec0 = Some (dec, r) -> 0 <= dec0 -> dec <= stack -> stack < W64 ->
  dec0 <= dec /\
  fold_left mk_step ops (mkR (stack - dec0) a b c)
  = fold_left mk_step r (mkR (stack - dec - (stack - dec) mod 16) a b c).
Proof.
  intros stack ops; induction ops as [|o ops IH]; intros dec0 dec r a b c H H0 Hd Hs; cbn [mk_pre] in H.
  - discriminate.
  - destruct o; try discriminate.
    + destruct (0 <=? n) eqn:En; [|discriminate]. apply Z.leb_le in En.
      destruct (IH (dec0 + n) dec r a b c H ltac:(lia) Hd Hs) as [Hle Hf].
      split; [lia|]. cbn [fold_left mk_step m_tail m_rsp m_func m_ok].
      rewrite Z.mod_small by lia.
      replace (stack - dec0 - n) with (stack - (dec0 + n)) by lia. exact Hf.
    + destruct (m =? W64 - 16) eqn:Em; [|discriminate]. apply Z.eqb_eq in Em; subst m.
      inversion H; subst; clear H. split; [lia|].
      cbn [fold_left mk_step m_tail m_rsp m_func m_ok].
      rewrite land_mask16 by lia. reflexivity.
Qed.

Lemma off_ok_inv : forall off, off_ok off = true -> off mod 16 = 0 /\ -16 <= off <= 0.
Proof.
  intros off H; unfold off_ok in H.
  apply andb_prop in H; destruct H as [H H3]. apply andb_prop in H; destruct H as [H1 H2].
  apply Z.eqb_eq in H1; apply Z.leb_le in H2; apply Z.leb_le in H3. lia.
Qed.

Lemma aligned_plus : forall t off, t mod 16 = 0 -> off mod 16 = 0 -> (t + off) mod 16 = 0.
Proof.
  intros t off Ht Ho. rewrite Z.add_mod by lia. rewrite Ht, Ho. reflexivity.
Qed.

Lemma sub_mod_aligned : forall x, (x - x mod 16) mod 16 = 0.
Proof.
  intros x. pose proof (Z.div_mod x 16 ltac:(lia)) as H.
  replace (x - x mod 16) with (x / 16 * 16) by lia. apply Z.mod_mul. lia.
Qed.

(** myth_make_context_empty: for every stack top the saved rsp is 16-aligned, so the callback
    that a withcall tail calls on the fresh context is called with the alignment the ABI requires *)
Theorem mk_empty_aligned : forall ops stack,
  mk_check_empty ops = true -> 64 <= stack < W64 ->
  exists sp, m_rsp (mk_run ops stack) = Some sp /\ m_func (mk_run ops stack) = None /\
             m_ok (mk_run ops stack) = true /\
             sp mod 16 = 0 /\ stack - 48 < sp <= stack.
Proof.
  intros ops stack H Hs; unfold mk_check_empty in H.
  destruct (mk_pre ops 0) as [[dec r]|] eqn:Ep; [|discriminate].
  destruct (mk_post r) as [[rs fs]|] eqn:Eq; [|discriminate].
  destruct rs as [|off rs]; [discriminate|]. destruct rs; [|discriminate].
  destruct fs; [|discriminate].
  apply andb_prop in H; destruct H as [Hoff Hdec]. apply Z.leb_le in Hdec.
  apply off_ok_inv in Hoff; destruct Hoff as [Ho1 Ho2].
  destruct (mk_pre_run stack ops 0 dec r None None true Ep ltac:(lia) ltac:(lia) ltac:(lia)) as [Hle Hf].
  assert (Hrun : mk_run ops stack = fold_left mk_step r (mkR (stack - dec - (stack - dec) mod 16) None None true))
    by (unfold mk_run; rewrite <- Hf; rewrite Z.sub_0_r; reflexivity).
  rewrite Hrun; clear Hrun Hf.
  pose proof (Z.mod_pos_bound (stack - dec) 16 ltac:(lia)) as Hmb.
  pose proof (sub_mod_aligned (stack - dec)) as Hal.
  set (m := (stack - dec) mod 16) in *; clearbody m.
  (* r = [MkSetRsp off] *)
  destruct r as [|o1 r1]; [discriminate|].
  destruct o1; cbn in Eq; try discriminate.
  - destruct (mk_post r1) as [[rs' fs']|] eqn:Eq1; [|discriminate].
    inversion Eq; subst. destruct r1 as [|o2 r2].
    + cbn [fold_left mk_step m_tail m_rsp m_func m_ok].
      eexists; split; [reflexivity|]. split; [reflexivity|]. split; [reflexivity|].
      rewrite (Z.mod_small (stack - dec - m + off) W64) by (clear Ep Eq Eq1 Hal Ho1; lia).
      split; [apply aligned_plus; assumption|clear Ep Eq Eq1 Hal Ho1; lia].
    + destruct o2; cbn in Eq1; try discriminate;
        destruct (mk_post r2) as [[a b]|]; discriminate.
  - destruct (mk_post r1) as [[rs' fs']|]; discriminate.
Qed.

(** myth_make_context_voidcall: the function address lies exactly at the saved rsp (the tail's
    pop ; jmp enters it), at least one word below the stack top, and the function is entered
    with rsp = saved rsp + 8, i.e. 8 modulo 16 as after a call instruction *)
Theorem mk_voidcall_aligned : forall ops stack,
  mk_check_voidcall ops = true -> 64 <= stack < W64 ->
  exists sp, m_rsp (mk_run ops stack) = Some sp /\ m_func (mk_run ops stack) = Some sp /\
             m_ok (mk_run ops stack) = true /\
             sp mod 16 = 0 /\ (sp + 8) mod 16 = 8 /\ stack - 48 < sp /\ sp + 8 <= stack.
Proof.
  intros ops stack H Hs; unfold mk_check_voidcall in H.
  destruct (mk_pre ops 0) as [[dec r]|] eqn:Ep; [|discriminate].
  destruct (mk_post r) as [[rs fs]|] eqn:Eq; [|discriminate].
  destruct rs as [|off rs]; [discriminate|]. destruct rs; [|discriminate].
  destruct fs as [|foff fs]; [discriminate|]. destruct fs; [|discriminate].
  apply andb_prop in H; destruct H as [H Hdec]. apply Z.leb_le in Hdec.
  apply andb_prop in H; destruct H as [H Hdec8]. apply Z.leb_le in Hdec8.
  apply andb_prop in H; destruct H as [Hoff Hfo]. apply Z.eqb_eq in Hfo; subst foff.
  apply off_ok_inv in Hoff; destruct Hoff as [Ho1 Ho2].
  destruct (mk_pre_run stack ops 0 dec r None None true Ep ltac:(lia) ltac:(lia) ltac:(lia)) as [Hle Hf].
  assert (Hrun : mk_run ops stack = fold_left mk_step r (mkR (stack - dec - (stack - dec) mod 16) None None true))
    by (unfold mk_run; rewrite <- Hf; rewrite Z.sub_0_r; reflexivity).
  rewrite Hrun; clear Hrun Hf.
  pose proof (Z.mod_pos_bound (stack - dec) 16 ltac:(lia)) as Hmb.
  pose proof (sub_mod_aligned (stack - dec)) as Hal.
  set (m := (stack - dec) mod 16) in *; clearbody m.
  assert (Hfin : forall t, t = stack - dec - m ->
            (t + off) mod W64 = t + off /\ (t + off) mod 16 = 0 /\ (t + off + 8) mod 16 = 8 /\
            stack - 48 < t + off /\ t + off + 8 <= stack).
  { clear Ep Eq. intros t Et. split; [apply Z.mod_small; clear Hal Ho1; lia|].
    assert (Ha : (t + off) mod 16 = 0) by (apply aligned_plus; [subst t|]; assumption).
    split; [exact Ha|]. split; [|clear Hal Ho1 Ha; lia].
    rewrite Z.add_mod by lia. rewrite Ha. reflexivity. }
  destruct (Hfin _ eq_refl) as [F1 [F2 [F3 [F4 F5]]]].
  (* r is the two assignments in either order *)
  destruct r as [|o1 r1]; [discriminate|].
  destruct o1; cbn in Eq; try discriminate;
    (destruct (mk_post r1) as [[rs' fs']|] eqn:Eq1; [|discriminate]);
    inversion Eq; subst; clear Eq;
    (destruct r1 as [|o2 r2]; [discriminate|]);
    destruct o2; cbn in Eq1; try discriminate;
    (destruct (mk_post r2) as [[rs2 fs2]|] eqn:Eq2; [|discriminate]);
    inversion Eq1; subst; clear Eq1;
    (destruct r2 as [|o3 r3];
     [| destruct o3; cbn in Eq2; try discriminate; destruct (mk_post r3) as [[a b]|]; discriminate]);
    cbn [fold_left mk_step m_tail m_rsp m_func m_ok]; rewrite F1; eexists; (split; [reflexivity|]); (split; [reflexivity|]);
    (split; [reflexivity|]); repeat split; assumption.
Qed.

(* ------------------------------------------------------------------ *)
(** * corollaries stated for Properties_C03.v *)

Lemma declared_dead_false : forall A r, ~ In r (outs A ++ clobs A) -> declared_dead A r = false.
Proof.
  intros A r H; unfold declared_dead.
  destruct (reg_in r (outs A ++ clobs A)) eqn:E; [|reflexivity].
  apply reg_in_In in E; contradiction.
Qed.

(** a register that the asm statement does not declare dead (neither a dummy output nor a
    clobber) is restored by the code after the label; and every accepted suspending site has the
    "memory" clobber *)
Theorem dead_regs_declared : forall lblf cb hi, abi_callee hi cb ->
  forall A B pa pb depth r0,
    ctx_check A = true -> ctx_check B = true ->
    site_parts (code A) = Some pa -> site_parts (code B) = Some pb ->
    site_summary A = Some (depth, r0) ->
    clob_mem A = true /\
    forall s0 s1 sB s2 l rs s3,
      rg s0 RSP <= hi -> ~ (rg s0 RSP - depth <= rg s0 r0 < hi) ->
      run (lblf (sid A)) cb (save_code pa) s0 = Next s1 ->
      (forall a, rg s1 RSP <= a < hi -> mem sB a = mem s1 a) ->
      mem sB (rg sB (p_load pb)) = rg s1 RSP ->
      p_cont pa = Some (l, rs) ->
      run (lblf (sid B)) cb (tail_code pb) sB = Jump (lblf (sid A) l) s2 ->
      run (lblf (sid A)) cb rs s2 = Next s3 ->
      forall r, r <> RSP -> ~ In r (outs A ++ clobs A) -> rg s3 r = rg s0 r.
Proof.
  intros lblf cb hi Habi A B pa pb depth r0 HA HB HpA HpB Hsum. split.
  - destruct (ctx_check_swap_inv A pa depth r0 HA HpA Hsum)
      as [svc [r [l [rs [t1 [t3 H]]]]]]. intuition.
  - intros s0 s1 sB s2 l rs s3 Hhi Hcell Hrun1 HmB Hload Hct Hrun2 Hrun3 r Hne Hnd.
    destruct (ctx_check_sound lblf cb hi Habi A B pa pb depth r0 HA HB HpA HpB Hsum s0 Hhi Hcell)
      as [s1' [Hr1 [_ [_ Hrest]]]].
    rewrite Hrun1 in Hr1; inversion Hr1; subst s1'; clear Hr1.
    destruct (Hrest sB HmB Hload) as [s2' [l' [rs' [Hct' [Hr2 [s3' [Hr3 [_ [_ [Hd _]]]]]]]]]].
    rewrite Hct in Hct'; inversion Hct'; subst l' rs'; clear Hct'.
    rewrite Hrun2 in Hr2; inversion Hr2; subst s2'; clear Hr2.
    rewrite Hrun3 in Hr3; inversion Hr3; subst s3'; clear Hr3.
    apply Hd; [exact Hne|apply declared_dead_false; exact Hnd].
Qed.

Lemma sub_aligned : forall a d, a mod 16 = 0 -> d mod 16 = 0 -> (a - d) mod 16 = 0.
Proof.
  intros a d Ha Hd. rewrite Zminus_mod. rewrite Ha, Hd. reflexivity.
Qed.

(** if rsp is 16-aligned at the asm statement of the suspending site, every callback that any
    accepted site calls while resuming that context is called with a 16-aligned rsp *)
Theorem alignment_resume : forall lblf cb hi, abi_callee hi cb ->
  forall A B pa pb depth r0,
    ctx_check A = true -> ctx_check B = true ->
    site_parts (code A) = Some pa -> site_parts (code B) = Some pb ->
    site_summary A = Some (depth, r0) ->
    forall s0 sB,
      rg s0 RSP mod 16 = 0 ->
      mem sB (rg sB (p_load pb)) = rg s0 RSP - depth ->
      Forall (fun x => x mod 16 = 0) (call_rsps (lblf (sid B)) cb (tail_code pb) sB).
Proof.
  intros lblf cb hi Habi A B pa pb depth r0 HA HB HpA HpB Hsum s0 sB Hal Hload.
  destruct (save_keeps_alignment A pa depth r0 HA HpA Hsum) as [H16 _].
  destruct (tail_calls_at_saved_rsp lblf cb hi Habi B pb sB HB HpB) as [Hc _].
  cbv zeta in Hc. rewrite Hload in Hc.
  eapply Forall_impl; [|exact Hc]. intros x Hx; cbn in Hx; subst x.
  apply sub_aligned; assumption.
Qed.

(** a fresh context from myth_make_context_empty: the callback a withcall tail calls on it
    (myth_create_1 in the library) is called with a 16-aligned rsp *)
Theorem alignment_fresh_empty : forall lblf cb hi, abi_callee hi cb ->
  forall ops stack B pb sB sp,
    mk_check_empty ops = true -> 64 <= stack < W64 ->
    m_rsp (mk_run ops stack) = Some sp ->
    ctx_check B = true -> site_parts (code B) = Some pb ->
    mem sB (rg sB (p_load pb)) = sp ->
    sp mod 16 = 0 /\ stack - 48 < sp <= stack /\
    Forall (fun x => x mod 16 = 0) (call_rsps (lblf (sid B)) cb (tail_code pb) sB).
Proof.
  intros lblf cb hi Habi ops stack B pb sB sp Hck Hst Hsp HB HpB Hload.
  destruct (mk_empty_aligned ops stack Hck Hst) as [sp' [E [_ [_ [Hal Hb]]]]].
  rewrite Hsp in E; inversion E; subst sp'; clear E.
  split; [exact Hal|]. split; [exact Hb|].
  destruct (tail_calls_at_saved_rsp lblf cb hi Habi B pb sB HB HpB) as [Hc _].
  cbv zeta in Hc. rewrite Hload in Hc.
  eapply Forall_impl; [|exact Hc]. intros x Hx; cbn in Hx; subst x. exact Hal.
Qed.

(** a fresh context from myth_make_context_voidcall: any accepted tail calls its callbacks with
    a 16-aligned rsp and then enters the function stored in the context with rsp = 8 modulo 16,
    as immediately after a call instruction *)
Theorem alignment_fresh_voidcall : forall lblf cb hi, abi_callee hi cb ->
  forall ops stack B pb sB sp func,
    mk_check_voidcall ops = true -> 64 <= stack < W64 -> stack <= hi ->
    m_rsp (mk_run ops stack) = Some sp ->
    ctx_check B = true -> site_parts (code B) = Some pb ->
    mem sB (rg sB (p_load pb)) = sp ->
    (forall fa, m_func (mk_run ops stack) = Some fa -> mem sB fa = func) ->
    Forall (fun x => x mod 16 = 0) (call_rsps (lblf (sid B)) cb (tail_code pb) sB) /\
    exists s2, run (lblf (sid B)) cb (tail_code pb) sB = Jump func s2 /\
               rg s2 RSP mod 16 = 8 /\ rg s2 RSP <= stack.
Proof.
  intros lblf cb hi Habi ops stack B pb sB sp func Hck Hst Hhi Hsp HB HpB Hload Hfunc.
  destruct (mk_voidcall_aligned ops stack Hck Hst) as [sp' [E [Ef [_ [Hal [Hal8 [Hb1 Hb2]]]]]]].
  rewrite Hsp in E; inversion E; subst sp'; clear E.
  destruct (tail_calls_at_saved_rsp lblf cb hi Habi B pb sB HB HpB) as [Hc [s2 [v [Hrun [Hsp2 Hv]]]]].
  cbv zeta in Hc, Hsp2, Hv. rewrite Hload in Hc, Hsp2, Hv. split.
  - eapply Forall_impl; [|exact Hc]. intros x Hx; cbn in Hx; subst x. exact Hal.
  - exists s2. rewrite Hv in Hrun by lia. rewrite (Hfunc sp Ef) in Hrun.
    split; [exact Hrun|]. rewrite Hsp2. split; [exact Hal8|lia].
Qed.

(** the adversarial callback of the diagnosis run obeys the ABI hypothesis (so the hypothesis
    is satisfiable by a callback that clobbers every caller-saved register and scribbles below rsp) *)
Lemma d_cb_abi : forall hi, abi_callee hi d_cb.
Proof.
  intros hi f s. split; [reflexivity|]. split.
  - intros r Hr; cbn in Hr.
    destruct Hr as [E|[E|[E|[E|[E|[E|[]]]]]]]; subst r; reflexivity.
  - intros a Ha. cbn. destruct (a <? rg s RSP) eqn:E; [|reflexivity].
    apply Z.ltb_lt in E; lia.
Qed.

(* ------------------------------------------------------------------ *)
(** * the custom-data carve-out *)

Lemma round16_facts : forall size, 0 < size ->
  round16 size mod 16 = 0 /\ size <= round16 size /\ 16 <= round16 size.
Proof.
  intros size Hs; unfold round16.
  pose proof (Z.div_mod (size + 15) 16 ltac:(lia)) as Hdm.
  pose proof (Z.mod_pos_bound (size + 15) 16 ltac:(lia)) as Hmb.
  split; [apply Z.mod_mul; lia|]. lia.
Qed.

Lemma scaled_bound : forall c k R, 0 <= k -> 16 <= R -> 0 <= c + 16 * k -> 0 <= c + k * R.
Proof.
  intros c k R Hk HR Hc.
  assert (k * 16 <= k * R) by (apply Z.mul_le_mono_nonneg_l; lia). lia.
Qed.

Lemma aligned_shift : forall stk c k R, c mod 16 = 0 -> R mod 16 = 0 ->
  (1 * stk + c + k * R + 0 * 0) mod 16 = stk mod 16.
Proof.
  intros stk c k R Hc HR.
  apply Z.mod_divide in Hc; [|lia]. apply Z.mod_divide in HR; [|lia].
  destruct Hc as [c' Hc]; destruct HR as [R' HR]; subst c R.
  replace (1 * stk + c' * 16 + k * (R' * 16) + 0 * 0) with (stk + (c' + k * R') * 16) by lia.
  apply Z.mod_add; lia.
Qed.

Lemma lin_eqb_eq : forall a b, lin_eqb a b = true -> a = b.
Proof.
  intros [a1 a2 a3 a4] [b1 b2 b3 b4] H; unfold lin_eqb in H; cbn in H.
  apply andb_prop in H; destruct H as [H H4]. apply andb_prop in H; destruct H as [H H3].
  apply andb_prop in H; destruct H as [H1 H2].
  apply Z.eqb_eq in H1; apply Z.eqb_eq in H2; apply Z.eqb_eq in H3; apply Z.eqb_eq in H4.
  subst; reflexivity.
Qed.

Lemma ptr_ok_inv : forall p stk size, ptr_ok p = true -> 0 < size ->
  lin_eval stk size p mod 16 = stk mod 16 /\ lin_eval stk size p + size <= stk + 8.
Proof.
  intros [ps pc pr pl] stk size H Hs; unfold ptr_ok in H; cbn [l_stk l_const l_r16 l_size] in H.
  apply andb_prop in H; destruct H as [H H5]. apply andb_prop in H; destruct H as [H H4].
  apply andb_prop in H; destruct H as [H H3]. apply andb_prop in H; destruct H as [H1 H2].
  apply Z.eqb_eq in H1; apply Z.eqb_eq in H2; apply Z.eqb_eq in H3.
  apply Z.leb_le in H4; apply Z.leb_le in H5. unfold SIZE_WORD_OFF in H5. subst ps pl.
  destruct (round16_facts size Hs) as [R1 [R2 R3]].
  unfold lin_eval; cbn [l_stk l_const l_r16 l_size]. split.
  - replace (0 * size) with (0 * 0) by lia. apply aligned_shift; assumption.
  - pose proof (scaled_bound (8 - pc) (- (pr + 1)) (round16 size) ltac:(lia) R3 ltac:(lia)).
    lia.
Qed.

Lemma top_ok_inv : forall t p stk size, top_ok t p = true -> l_stk p = 1 -> l_size p = 0 -> 0 < size ->
  lin_eval stk size t mod 16 = stk mod 16 /\
  lin_eval stk size t <= stk /\ lin_eval stk size t <= lin_eval stk size p.
Proof.
  intros [ts tc tr tl] [ps pc pr pl] stk size H Hps Hpl Hs; unfold top_ok in H.
  cbn [l_stk l_const l_r16 l_size] in *.
  apply andb_prop in H; destruct H as [H H7]. apply andb_prop in H; destruct H as [H H6].
  apply andb_prop in H; destruct H as [H H5]. apply andb_prop in H; destruct H as [H H4].
  apply andb_prop in H; destruct H as [H H3]. apply andb_prop in H; destruct H as [H1 H2].
  apply Z.eqb_eq in H1; apply Z.eqb_eq in H2; apply Z.eqb_eq in H3.
  apply Z.leb_le in H4; apply Z.leb_le in H5; apply Z.leb_le in H6; apply Z.leb_le in H7.
  subst ts tl ps pl.
  destruct (round16_facts size Hs) as [R1 [R2 R3]].
  unfold lin_eval; cbn [l_stk l_const l_r16 l_size]. split; [|split].
  - replace (0 * size) with (0 * 0) by lia. apply aligned_shift; assumption.
  - pose proof (scaled_bound (- tc) (- tr) (round16 size) ltac:(lia) R3 ltac:(lia)). lia.
  - pose proof (scaled_bound (pc - tc) (pr - tr) (round16 size) ltac:(lia) R3 ltac:(lia)). lia.
Qed.

(** For every hint size > 0 and every stack top of the allocator: the hint region
    [ptr, ptr+size) is the destination of the creation-time copy, ends at or below the block's
    size word, and starts at or above the stack top handed to myth_make_context_*; the initial rsp
    of either entry style is 16-aligned and at or below that stack top (for voidcall the word
    holding the function address too), so every frame of the new thread - they grow down from
    the initial rsp - lies strictly below the hint region. *)
Theorem custom_data_disjoint : forall c te tv p eops vops,
  cd_check c = true ->
  cd_empty_top c = Some te -> cd_voidcall_top c = Some tv -> cd_ptr c = Some p ->
  mk_check_empty eops = true -> mk_check_voidcall vops = true ->
  forall stk size, 0 < size -> stk < W64 ->
    64 <= lin_eval stk size te -> 64 <= lin_eval stk size tv ->
    let ptr := lin_eval stk size p in
    ptr mod 16 = stk mod 16 /\ ptr + size <= stk + 8 /\
    (exists d n, cd_copy_dst c = Some d /\ cd_copy_len c = Some n /\
                 lin_eval stk size d = ptr /\ lin_eval stk size n = size) /\
    (exists sp, m_rsp (mk_run eops (lin_eval stk size te)) = Some sp /\
                sp mod 16 = 0 /\ sp <= lin_eval stk size te <= ptr /\
                lin_eval stk size te mod 16 = stk mod 16) /\
    (exists sp, m_rsp (mk_run vops (lin_eval stk size tv)) = Some sp /\
                m_func (mk_run vops (lin_eval stk size tv)) = Some sp /\
                sp mod 16 = 0 /\ sp + 8 <= lin_eval stk size tv <= ptr /\
                lin_eval stk size tv mod 16 = stk mod 16).
Proof.
  intros c te tv p eops vops H Hte Htv Hp He Hv stk size Hs Hstk Hle Hlv ptr.
  unfold cd_check in H. apply andb_prop in H; destruct H as [_ H].
  rewrite Hte, Htv, Hp in H.
  destruct (cd_copy_dst c) as [d|] eqn:Ed; [|discriminate].
  destruct (cd_copy_len c) as [n|] eqn:En; [|discriminate].
  apply andb_prop in H; destruct H as [H Hn]. apply andb_prop in H; destruct H as [H Hd].
  apply andb_prop in H; destruct H as [H Htvok]. apply andb_prop in H; destruct H as [Hpok Hteok].
  apply lin_eqb_eq in Hd; apply lin_eqb_eq in Hn; subst d n.
  assert (Hps : l_stk p = 1 /\ l_size p = 0).
  { unfold ptr_ok in Hpok. repeat (apply andb_prop in Hpok; destruct Hpok as [Hpok ?]).
    split; apply Z.eqb_eq; assumption. }
  destruct Hps as [Hps Hpl].
  destruct (ptr_ok_inv p stk size Hpok Hs) as [P1 P2].
  destruct (top_ok_inv te p stk size Hteok Hps Hpl Hs) as [E1 [E2 E3]].
  destruct (top_ok_inv tv p stk size Htvok Hps Hpl Hs) as [V1 [V2 V3]].
  split; [exact P1|]. split; [exact P2|]. split.
  - exists p, (mkLin 0 0 0 1). repeat split. unfold lin_eval; cbn [l_stk l_const l_r16 l_size]; ring.
  - split.
    + destruct (mk_empty_aligned eops (lin_eval stk size te) He ltac:(lia)) as [sp [S1 [_ [_ [S2 S3]]]]].
      exists sp. split; [exact S1|]. split; [exact S2|]. split; [fold ptr in E3; lia|exact E1].
    + destruct (mk_voidcall_aligned vops (lin_eval stk size tv) Hv ltac:(lia)) as [sp [S1 [S1f [_ [S2 [_ [_ S4]]]]]]].
      exists sp. split; [exact S1|]. split; [exact S1f|]. split; [exact S2|].
      split; [fold ptr in V3; lia|exact V1].
Qed.

(* ------------------------------------------------------------------ *)
(** * every publication of the running thread happens after its context is saved *)

Lemma safe_run_app_init : forall e rest,
  pub_ok e = true -> safe_run rest (mkPst false false) = true ->
  safe_run (expand e ++ rest) (mkPst false false) = true.
Proof.
  intros e rest He Hr; destruct e; cbn in He; try discriminate; cbn [expand app]; try exact Hr.
Qed.

(** Control flow is abstracted away: ANY sequence of events drawn from an accepted body (any
    path, any number of loop iterations) keeps the invariant "visible to other workers => context
    saved" at every intermediate step, and every suspension of a thread is a switch with callback;
    the only publications of the running thread are the MPublish steps between a save and the
    matching resume, i.e. inside a context-switch callback. *)
Theorem pub_check_sound : forall evs, pub_check evs = true ->
  forall trace, Forall (fun e => In e evs) trace ->
    safe_run (flat_map expand trace) (mkPst false false) = true /\
    Forall (fun e => e <> PPubSelf /\ e <> PSwitchPlainThread) trace.
Proof.
  intros evs Hc trace Ht. unfold pub_check in Hc. rewrite forallb_forall in Hc.
  induction Ht as [|e tr He Htr IH].
  - split; [reflexivity|constructor].
  - destruct IH as [IH1 IH2]. split.
    + cbn [flat_map]. apply safe_run_app_init; [apply Hc; exact He|exact IH1].
    + constructor; [|exact IH2]. specialize (Hc e He).
      split; intros E; subst e; discriminate Hc.
Qed.

(** conversely, a publication of the running thread outside a callback is unsafe in this model *)
Lemma pub_self_unsafe : safe_run (flat_map expand [PPubSelf; PSwitchPlainThread]) (mkPst false false) = false.
Proof. reflexivity. Qed.

(* ------------------------------------------------------------------ *)
(** * floating-point control state is NOT preserved *)

Lemma xrun_next : forall lbl cb c x s, run lbl cb c (xcore x) = Next s -> xrun lbl cb c x = XNext (mkX s (xfp x)).
Proof. intros lbl cb c x s H; unfold xrun; rewrite H; reflexivity. Qed.

Lemma xrun_jump : forall lbl cb c x v s, run lbl cb c (xcore x) = Jump v s -> xrun lbl cb c x = XJump v (mkX s (xfp x)).
Proof. intros lbl cb c x v s H; unfold xrun; rewrite H; reflexivity. Qed.

(** Same setting as [ctx_check_sound], on extended states.  [fp0]: the control state thread A runs
    with; [fpB]: the control state of the worker that resumes A (left there by whichever thread ran
    last on it - another thread is not a callee of A and owes A nothing).  The integer conclusions
    hold as before; the floating-point control state A finds after resumption is [fpB]. *)
Theorem fp_control_follows_worker : forall lblf cb hi, abi_callee hi cb ->
  forall A B pa pb depth r0,
    ctx_check A = true -> ctx_check B = true ->
    site_parts (code A) = Some pa -> site_parts (code B) = Some pb ->
    site_summary A = Some (depth, r0) ->
    forall s0 fp0,
      rg s0 RSP <= hi -> ~ (rg s0 RSP - depth <= rg s0 r0 < hi) ->
      exists x1,
        xrun (lblf (sid A)) cb (save_code pa) (mkX s0 fp0) = XNext x1 /\
        rg (xcore x1) RSP = rg s0 RSP - depth /\ mem (xcore x1) (rg s0 r0) = rg (xcore x1) RSP /\
        xfp x1 = fp0 /\
        forall sB fpB,
          (forall a, rg (xcore x1) RSP <= a < hi -> mem sB a = mem (xcore x1) a) ->
          mem sB (rg sB (p_load pb)) = rg (xcore x1) RSP ->
          exists x2 l rs x3,
            p_cont pa = Some (l, rs) /\
            xrun (lblf (sid B)) cb (tail_code pb) (mkX sB fpB) = XJump (lblf (sid A) l) x2 /\
            xrun (lblf (sid A)) cb rs x2 = XNext x3 /\
            rg (xcore x3) RSP = rg s0 RSP /\
            (forall r, In r callee_saved -> rg (xcore x3) r = rg s0 r) /\
            (forall a, rg s0 RSP - 128 <= a < hi -> mem (xcore x3) a = mem s0 a) /\
            xfp x3 = fpB.
Proof.
  intros lblf cb hi Habi A B pa pb depth r0 HA HB HpA HpB Hsum s0 fp0 Hhi Hcell.
  destruct (ctx_check_sound lblf cb hi Habi A B pa pb depth r0 HA HB HpA HpB Hsum s0 Hhi Hcell)
    as [s1 [Hr1 [Hsp1 [Hm1 Hrest]]]].
  exists (mkX s1 fp0). split; [apply (xrun_next _ _ _ (mkX s0 fp0)); exact Hr1|].
  split; [exact Hsp1|]. split; [exact Hm1|]. split; [reflexivity|].
  intros sB fpB HmB Hload. cbn [xcore] in HmB, Hload.
  destruct (Hrest sB HmB Hload) as [s2 [l [rs [Hct [Hr2 [s3 [Hr3 [Hsp3 [Hcs [_ Hmem]]]]]]]]]].
  exists (mkX s2 fpB), l, rs, (mkX s3 fpB).
  split; [exact Hct|]. split; [apply (xrun_jump _ _ _ (mkX sB fpB)); exact Hr2|].
  split; [apply (xrun_next _ _ _ (mkX s2 fpB)); exact Hr3|].
  cbn [xcore xfp]. repeat split; assumption.
Qed.

(** The full property for the floating-point control state ("exactly as it left them", whatever
    another thread does on the worker in between) is FALSE of the faithful model.  Witness:
    myth_swap_context of the pinned tree, thread A with round-upward, the worker left in
    round-downward by the thread that ran in between: every hypothesis of the soundness theorem
    holds, rsp and the integer callee-saved registers are restored, the control state is not. *)
Theorem fp_control_refuted :
  exists (A : site) (pa : parts) (hi : Z) (x0 x1 xB x2 x3 : xstate) (l : Z) (rs : list instr),
    ctx_check A = true /\ site_parts (code A) = Some pa /\ p_cont pa = Some (l, rs) /\
    abi_callee hi d_cb /\
    xrun (d_lbl (sid A)) d_cb (save_code pa) x0 = XNext x1 /\
    (forall a, rg (xcore x1) RSP <= a < hi -> mem (xcore xB) a = mem (xcore x1) a) /\
    mem (xcore xB) (rg (xcore xB) (p_load pa)) = rg (xcore x1) RSP /\
    xrun (d_lbl (sid A)) d_cb (tail_code pa) xB = XJump (d_lbl (sid A) l) x2 /\
    xrun (d_lbl (sid A)) d_cb rs x2 = XNext x3 /\
    rg (xcore x3) RSP = rg (xcore x0) RSP /\
    (forall r, In r callee_saved -> rg (xcore x3) r = rg (xcore x0) r) /\
    xfp x0 = FP_UPWARD /\ xfp x3 = FP_DOWNWARD /\ fp_eqb (xfp x3) (xfp x0) = false.
Proof.
  pose (A := fp_witness_site). pose (hi := d_rsp0 + 4096).
  assert (HA : ctx_check A = true) by (vm_compute; reflexivity).
  assert (Hp : exists pa, site_parts (code A) = Some pa /\ p_load pa = RDX)
    by (eexists; split; vm_compute; reflexivity).
  destruct Hp as [pa [HpA Hload]].
  assert (Hsum : site_summary A = Some (192, RAX)) by (vm_compute; reflexivity).
  assert (Hhi : rg d_state0 RSP <= hi) by (vm_compute; discriminate).
  assert (Hcell : ~ (rg d_state0 RSP - 192 <= rg d_state0 RAX < hi))
    by (vm_compute; intros [H1 _]; apply H1; reflexivity).
  destruct (fp_control_follows_worker d_lbl d_cb hi (d_cb_abi hi) A A pa pa 192 RAX HA HA HpA HpA Hsum
              d_state0 FP_UPWARD Hhi Hcell) as [x1 [Hr1 [Hsp1 [Hm1 [Hfp1 Hrest]]]]].
  pose (sB := fp_witness_env RDX (rg d_state0 RAX) (xcore x1)).
  assert (HmB : forall a, rg (xcore x1) RSP <= a < hi -> mem sB a = mem (xcore x1) a) by (intros; reflexivity).
  assert (HlB : mem sB (rg sB (p_load pa)) = rg (xcore x1) RSP).
  { rewrite Hload. unfold sB, fp_witness_env. cbn [rg mem]. rewrite reg_eqb_refl. exact Hm1. }
  destruct (Hrest sB FP_DOWNWARD HmB HlB) as [x2 [l [rs [x3 [Hct [Hr2 [Hr3 [Hsp3 [Hcs [_ Hfp3]]]]]]]]]].
  exists A, pa, hi, (mkX d_state0 FP_UPWARD), x1, (mkX sB FP_DOWNWARD), x2, x3, l, rs.
  split; [exact HA|]. split; [exact HpA|]. split; [exact Hct|]. split; [apply d_cb_abi|].
  split; [exact Hr1|]. split; [exact HmB|]. split; [exact HlB|]. split; [exact Hr2|].
  split; [exact Hr3|]. split; [exact Hsp3|]. split; [exact Hcs|].
  split; [reflexivity|]. split; [exact Hfp3|]. rewrite Hfp3. reflexivity.
Qed.

(** what does hold: if the worker that resumes the thread still has the control state the thread
    was suspended with (no thread changes the control state, or every thread that does restores it
    before it switches), the thread finds it unchanged *)
Corollary fp_control_partial : forall lblf cb hi, abi_callee hi cb ->
  forall A B pa pb depth r0,
    ctx_check A = true -> ctx_check B = true ->
    site_parts (code A) = Some pa -> site_parts (code B) = Some pb ->
    site_summary A = Some (depth, r0) ->
    forall s0 fp0 x1 sB x2 l rs x3,
      rg s0 RSP <= hi -> ~ (rg s0 RSP - depth <= rg s0 r0 < hi) ->
      xrun (lblf (sid A)) cb (save_code pa) (mkX s0 fp0) = XNext x1 ->
      (forall a, rg (xcore x1) RSP <= a < hi -> mem sB a = mem (xcore x1) a) ->
      mem sB (rg sB (p_load pb)) = rg (xcore x1) RSP ->
      xrun (lblf (sid B)) cb (tail_code pb) (mkX sB fp0) = XJump (lblf (sid A) l) x2 ->   (* guard: the worker's control state is fp0 *)
      xrun (lblf (sid A)) cb rs x2 = XNext x3 ->
      xfp x3 = fp0.
Proof.
  intros lblf cb hi Habi A B pa pb depth r0 HA HB HpA HpB Hsum s0 fp0 x1 sB x2 l rs x3 Hhi Hcell Hr1 HmB Hl Hr2 Hr3.
  unfold xrun in Hr2. cbn [xcore xfp] in Hr2.
  destruct (run (lblf (sid B)) cb (tail_code pb) sB) as [s|v s|]; try discriminate.
  inversion Hr2; subst x2; clear Hr2.
  unfold xrun in Hr3. cbn [xcore xfp] in Hr3.
  destruct (run (lblf (sid A)) cb rs s) as [s'|v' s'|]; try discriminate.
  inversion Hr3; subst x3; reflexivity.
Qed.
