(** Snapshot of the distinct context-switch asm statements of the pinned tree (gcc -S -O0),
    written by `python3 tools/translate_ctx.py --pinned`.  Used only for the Examples of
    Properties_C03.v; the check regenerates the data from the current tree on every run
    (build/C03/gen/CtxAsmGen.v). *)
From Coq Require Import ZArith List Bool.
From MT Require Import Ctx.X86Model Ctx.CtxCheckModel.
Import ListNotations.
Local Open Scope Z_scope.

(* callback table (ICall n): 0=myth_entry_point_1, 1=myth_entry_point_2, 2=myth_startpoint_init_ex_1, 3=myth_startpoint_exit_ex_1, 4=myth_create_1, 5=myth_join_2, 6=myth_join_3, 7=myth_yield_ex_1, 8=myth_block_on_queue_cb, 9=myth_block_on_stack_cb, 10=myth_uncond_wait_cb *)

(* myth_log.c -O0  src/myth_sched_func.h:1274 *)
Definition site_0 : site :=
  mkSite 0
    [ILoadRsp RAX; ICall 0; IPop RAX; IJmp RAX]
    [RAX; RCX; RDX; RSI; RDI] [RAX; RDI; RSI; RDX] [R8; R9; R10; R11] true true.

(* myth_log.c -O0  src/myth_sched_func.h:1317 *)
Definition site_1 : site :=
  mkSite 1
    [ILoadRsp RAX; ICall 1; IPop RAX; IJmp RAX]
    [RAX; RCX; RDX; RSI; RDI] [RAX; RDI; RSI; RDX] [R8; R9; R10; R11] true true.

(* myth_log.c -O0  src/myth_worker_func.h:606 *)
Definition site_2 : site :=
  mkSite 2
    [ISubRsp 128; IPush RBP; IPush RBX; IPush R12; IPush R13; IPush R14; IPush R15; ISubRsp 8; ILea 1 RBP; IPush RBP; IStoreRsp RAX; ILoadRsp RDX; IPop RAX; IJmp RAX; ILabel 1; IAddRsp 8; IPop R15; IPop R14; IPop R13; IPop R12; IPop RBX; IPop RBP; IAddRsp 128]
    [RAX; RCX; RDX; RSI; RDI] [RAX; RDX] [R8; R9; R10; R11] true true.

(* myth_init.c -O0  src/myth_worker_func.h:352 *)
Definition site_3 : site :=
  mkSite 3
    [ISubRsp 128; IPush RBP; IPush RBX; IPush R12; IPush R13; IPush R14; IPush R15; ISubRsp 8; ILea 1 RBP; IPush RBP; IStoreRsp RAX; ILoadRsp RCX; ICall 2; IPop RAX; IJmp RAX; ILabel 1; IAddRsp 8; IPop R15; IPop R14; IPop R13; IPop R12; IPop RBX; IPop RBP; IAddRsp 128]
    [RAX; RCX; RDX; RSI; RDI] [RAX; RCX; RDI; RSI; RDX] [R8; R9; R10; R11] true true.

(* myth_init.c -O0  src/myth_worker_func.h:416 *)
Definition site_4 : site :=
  mkSite 4
    [ISubRsp 128; IPush RBP; IPush RBX; IPush R12; IPush R13; IPush R14; IPush R15; ISubRsp 8; ILea 1 RBP; IPush RBP; IStoreRsp RAX; ILoadRsp RCX; ICall 3; IPop RAX; IJmp RAX; ILabel 1; IAddRsp 8; IPop R15; IPop R14; IPop R13; IPop R12; IPop RBX; IPop RBP; IAddRsp 128]
    [RAX; RCX; RDX; RSI; RDI] [RAX; RCX; RDI; RSI; RDX] [R8; R9; R10; R11] true true.

(* myth_if_native.c -O0  src/myth_sched_func.h:463 *)
Definition site_5 : site :=
  mkSite 5
    [ISubRsp 128; IPush RBP; IPush RBX; IPush R12; IPush R13; IPush R14; IPush R15; ISubRsp 8; ILea 1 RBP; IPush RBP; IStoreRsp RAX; ILoadRsp RCX; ICall 4; IPop RAX; IJmp RAX; ILabel 1; IAddRsp 8; IPop R15; IPop R14; IPop R13; IPop R12; IPop RBX; IPop RBP; IAddRsp 128]
    [RAX; RCX; RDX; RSI; RDI] [RAX; RCX; RDI; RSI; RDX] [R8; R9; R10; R11] true true.

(* myth_if_native.c -O0  src/myth_sched_func.h:654 *)
Definition site_6 : site :=
  mkSite 6
    [ISubRsp 128; IPush RBP; IPush RBX; IPush R12; IPush R13; IPush R14; IPush R15; ISubRsp 8; ILea 1 RBP; IPush RBP; IStoreRsp RAX; ILoadRsp RCX; ICall 5; IPop RAX; IJmp RAX; ILabel 1; IAddRsp 8; IPop R15; IPop R14; IPop R13; IPop R12; IPop RBX; IPop RBP; IAddRsp 128]
    [RAX; RCX; RDX; RSI; RDI] [RAX; RCX; RDI; RSI; RDX] [R8; R9; R10; R11] true true.

(* myth_if_native.c -O0  src/myth_sched_func.h:664 *)
Definition site_7 : site :=
  mkSite 7
    [ISubRsp 128; IPush RBP; IPush RBX; IPush R12; IPush R13; IPush R14; IPush R15; ISubRsp 8; ILea 1 RBP; IPush RBP; IStoreRsp RAX; ILoadRsp RCX; ICall 6; IPop RAX; IJmp RAX; ILabel 1; IAddRsp 8; IPop R15; IPop R14; IPop R13; IPop R12; IPop RBX; IPop RBP; IAddRsp 128]
    [RAX; RCX; RDX; RSI; RDI] [RAX; RCX; RDI; RSI; RDX] [R8; R9; R10; R11] true true.

(* myth_if_native.c -O0  src/myth_sched_func.h:1051 *)
Definition site_8 : site :=
  mkSite 8
    [ISubRsp 128; IPush RBP; IPush RBX; IPush R12; IPush R13; IPush R14; IPush R15; ISubRsp 8; ILea 1 RBP; IPush RBP; IStoreRsp RAX; ILoadRsp RCX; ICall 7; IPop RAX; IJmp RAX; ILabel 1; IAddRsp 8; IPop R15; IPop R14; IPop R13; IPop R12; IPop RBX; IPop RBP; IAddRsp 128]
    [RAX; RCX; RDX; RSI; RDI] [RAX; RCX; RDI; RSI; RDX] [R8; R9; R10; R11] true true.

(* myth_if_native.c -O0  src/myth_sync_func.h:108 *)
Definition site_9 : site :=
  mkSite 9
    [ISubRsp 128; IPush RBP; IPush RBX; IPush R12; IPush R13; IPush R14; IPush R15; ISubRsp 8; ILea 1 RBP; IPush RBP; IStoreRsp RAX; ILoadRsp RCX; ICall 8; IPop RAX; IJmp RAX; ILabel 1; IAddRsp 8; IPop R15; IPop R14; IPop R13; IPop R12; IPop RBX; IPop RBP; IAddRsp 128]
    [RAX; RCX; RDX; RSI; RDI] [RAX; RCX; RDI; RSI; RDX] [R8; R9; R10; R11] true true.

(* myth_if_native.c -O0  src/myth_sync_func.h:160 *)
Definition site_10 : site :=
  mkSite 10
    [ISubRsp 128; IPush RBP; IPush RBX; IPush R12; IPush R13; IPush R14; IPush R15; ISubRsp 8; ILea 1 RBP; IPush RBP; IStoreRsp RAX; ILoadRsp RCX; ICall 9; IPop RAX; IJmp RAX; ILabel 1; IAddRsp 8; IPop R15; IPop R14; IPop R13; IPop R12; IPop RBX; IPop RBP; IAddRsp 128]
    [RAX; RCX; RDX; RSI; RDI] [RAX; RCX; RDI; RSI; RDX] [R8; R9; R10; R11] true true.

(* myth_if_native.c -O0  src/myth_sync_func.h:1143 *)
Definition site_11 : site :=
  mkSite 11
    [ISubRsp 128; IPush RBP; IPush RBX; IPush R12; IPush R13; IPush R14; IPush R15; ISubRsp 8; ILea 1 RBP; IPush RBP; IStoreRsp RAX; ILoadRsp RCX; ICall 10; IPop RAX; IJmp RAX; ILabel 1; IAddRsp 8; IPop R15; IPop R14; IPop R13; IPop R12; IPop RBX; IPop RBP; IAddRsp 128]
    [RAX; RCX; RDX; RSI; RDI] [RAX; RCX; RDI; RSI; RDX] [R8; R9; R10; R11] true true.

Definition sites : list site :=
  [site_0; site_1; site_2; site_3; site_4; site_5; site_6; site_7; site_8; site_9; site_10; site_11].

Definition mk_empty_ops : list mkop := [MkAnd 18446744073709551600; MkSetRsp 0].
Definition mk_voidcall_ops : list mkop := [MkSub 8; MkAnd 18446744073709551600; MkSetRsp 0; MkStoreFunc 0].

(* custom-data carve-out of myth_create_ex_body, case custom_data_size > 0:
     stk := stack top from the allocator
     i_stk = (intptr_t)stk   => i_stk = 1*stk+0+0*round16(size)+0*size
     i_stk -= 16 + (((custom_data_size + 15) >> 4) << 4)   => i_stk = 1*stk-16-1*round16(size)+0*size
     ->custom_data_ptr = (void* )(i_stk + 16)   => 1*stk+0-1*round16(size)+0*size
     memcpy((void* )(i_stk + 16), .., custom_data_size)
     stk = (void* )i_stk   => stk = 1*stk-16-1*round16(size)+0*size
     myth_make_context_empty(.., stk, ..)   => stack top 1*stk-16-1*round16(size)+0*size
     myth_make_context_voidcall(.., stk, ..)   => stack top 1*stk-16-1*round16(size)+0*size *)
Definition cd_layout : carve :=
  mkCarve (Some (mkLin 1 (-16) (-1) 0)) (Some (mkLin 1 (-16) (-1) 0)) (Some (mkLin 1 0 (-1) 0)) (Some (mkLin 1 0 (-1) 0)) (Some (mkLin 0 0 0 1)) true.

(* publication of the running thread vs. the save of its context, per non-callback function body;
   callbacks (PSwitchCall n / PSetCall n): 0=myth_block_on_queue_cb, 1=myth_block_on_stack_cb, 2=myth_create_1, 3=myth_entry_point_1, 4=myth_entry_point_2, 5=myth_join_2, 6=myth_join_3, 7=myth_startpoint_exit_ex_1, 8=myth_startpoint_init_ex_1, 9=myth_uncond_wait_cb, 10=myth_yield_ex_1 *)
(* myth_block_on_queue  (src/myth_sync_func.h:86)  PSwitchCall myth_block_on_queue_cb *)
Definition body_0 : list pev := [PSwitchCall 0].
(* myth_block_on_stack  (src/myth_sync_func.h:138)  PSwitchCall myth_block_on_stack_cb *)
Definition body_1 : list pev := [PSwitchCall 1].
(* myth_create_ex_body  (src/myth_sched_func.h:383)  PSwitchCall myth_create_1; PPubOther myth_queue_push(new_thread) *)
Definition body_2 : list pev := [PSwitchCall 2; PPubOther].
(* myth_entry_point_cleanup  (src/myth_sched_func.h:1224)  PSetCall myth_entry_point_1; PSetCall myth_entry_point_1; PSetCall myth_entry_point_2 *)
Definition body_3 : list pev := [PSetCall 3; PSetCall 3; PSetCall 4].
(* myth_join_body  (src/myth_sched_func.h:550)  PSwitchCall myth_join_2; PSwitchCall myth_join_3 *)
Definition body_4 : list pev := [PSwitchCall 5; PSwitchCall 6].
(* myth_sched_loop  (src/myth_worker_func.h:575)  PSwitchPlainSched &env->sched.context; PSwitchPlainSched &env->sched.context *)
Definition body_5 : list pev := [PSwitchPlainSched; PSwitchPlainSched].
(* myth_startpoint_exit_ex_body  (src/myth_worker_func.h:392)  PSwitchCall myth_startpoint_exit_ex_1 *)
Definition body_6 : list pev := [PSwitchCall 7].
(* myth_startpoint_init_ex_body  (src/myth_worker_func.h:324)  PSwitchCall myth_startpoint_init_ex_1 *)
Definition body_7 : list pev := [PSwitchCall 8].
(* myth_uncond_wait_body  (src/myth_sync_func.h:1122)  PSwitchCall myth_uncond_wait_cb *)
Definition body_8 : list pev := [PSwitchCall 9].
(* myth_yield_ex_body  (src/myth_sched_func.h:995)  PSwitchCall myth_yield_ex_1 *)
Definition body_9 : list pev := [PSwitchCall 10].
Definition bodies : list (list pev) := [body_0; body_1; body_2; body_3; body_4; body_5; body_6; body_7; body_8; body_9].


