(** C05 - condition variables: atomic release-and-wait, signal and broadcast reach waiters.
    Statements only; every proof is [exact] of a lemma of Sync/CondProofs.v (invariants in
    Sync/CondInv.v, traces in Sync/CondTrace.v).  Model: Sync/SyncModel.v (validated against
    the library on every run of the check).  All theorems: every number of threads [nt], every
    number of condition variables [nc], every schedule.  Liveness is not claimed. *)
From Coq Require Import ZArith List Bool Lia Arith.
From MT Require Import Lib.Interleave Sync.SyncModel Sync.CondBase Sync.CondInv Sync.CondTrace Sync.CondProofs.
Import ListNotations.
Local Open Scope Z_scope.

(** lock bit = number of owners (<= 1), proved locally (C04 is not needed) *)
Theorem C05_lock_bit : forall s, reach s ->
  count_holders s = (if Z.odd (mword s) then 1 else 0)%nat.
Proof. exact lock_bit_reach. Qed.
Print Assumptions C05_lock_bit.

(** occupancy: a thread sits in at most one of {sleep queues, wakers' hands, pending enqueue
    callbacks}, and only while its context is saved *)
Theorem C05_occupancy : forall s, reach s -> forall x,
  (inqs s x + hands s x + enqp s x <= susp s x)%nat.
Proof. exact I1_reach. Qed.
Print Assumptions C05_occupancy.

(** pc invariant of the callback: while the enqueue is pending, the waiter is suspended, in no
    queue, in nobody's hand; if the callback is going to unlock, the waiter still owns the mutex *)
Theorem C05_enq_entry : forall s w th q unl,
  reach s -> get_thread s w = Some th -> In (CbEnq q unl) (cbs th) ->
  (exists k, main th = Susp k) /\ ~ In w (mq s) /\ (forall c, ~ In w (getq s (QC c))) /\
  hands s w = 0%nat /\
  (unl = true -> own th = true /\ Z.odd (mword s) = true /\ exists c, q = QC c).
Proof. exact enq_entry_not_queued. Qed.
Print Assumptions C05_enq_entry.

(** ORDER: in every run, a step that clears the mutex's lock bit in a callback of [w] is
    preceded by the step that appended [w] to the condition queue in the same cond-wait *)
Theorem C05_enq_before_release : forall nt nc sched pre r post w,
  trace sched (init_state nt nc) = pre ++ r :: post -> is_release w r ->
  exists pre1 e pre2 c, pre = pre1 ++ e :: pre2 /\ is_enq w (QC c) e /\ Forall (quiet w) pre2.
Proof. exact enq_before_release. Qed.
Print Assumptions C05_enq_before_release.

(** enqueued and not dequeued by a signal / broadcast since => member of the queue, blocked *)
Theorem C05_not_missed : forall nt nc sched pre e post w c,
  (c < nc)%nat -> trace sched (init_state nt nc) = pre ++ e :: post ->
  is_enq w (QC c) e -> Forall (fun y => ~ is_deq c w y) post ->
  In w (getq (run step sched (init_state nt nc)) (QC c)) /\
  blocked_in (run step sched (init_state nt nc)) c w /\
  Forall (fun y => In w (getq (fst y) (QC c))) post.
Proof. exact not_missed. Qed.
Print Assumptions C05_not_missed.

(** ... in particular at every moment after the callback released the mutex: whoever acquires
    the mutex after that and signals / broadcasts finds [w] in the queue, unless an earlier
    signal already dequeued it *)
Theorem C05_release_then_member : forall nt nc sched pre r post w,
  trace sched (init_state nt nc) = pre ++ r :: post -> is_release w r ->
  exists pre1 e pre2 c, pre = pre1 ++ e :: pre2 /\ is_enq w (QC c) e /\ Forall (quiet w) pre2 /\
    ((c < nc)%nat -> Forall (fun y => ~ is_deq c w y) (pre2 ++ r :: post) ->
     In w (getq (run step sched (init_state nt nc)) (QC c)) /\
     blocked_in (run step sched (init_state nt nc)) c w).
Proof. exact release_then_member. Qed.
Print Assumptions C05_release_then_member.

(** signal on a non-empty queue: takes exactly the head, a thread blocked at that moment;
    nothing else changes (the successor state is given in full) *)
Theorem C05_signal_deq : forall s t th c k x r,
  reach s -> get_thread s t = Some th -> main th = SigDeq c k -> getq s (QC c) = x :: r ->
  step s (t, ETick) = Some (set_thread (setq s (QC c) r) t (set_main th (SigPush c k x))) /\
  blocked_in s c x /\ x <> t /\ ~ In x r.
Proof. exact signal_deq. Qed.
Print Assumptions C05_signal_deq.

(** signal on an empty queue: nothing changes but the caller's pc *)
Theorem C05_signal_empty : forall s t th c k,
  get_thread s t = Some th -> main th = SigDeq c k -> getq s (QC c) = [] ->
  step s (t, ETick) =
  Some (set_thread s t (set_main th (match k with ASUnlock => Unl (URead 0) | _ => Done 0 end))).
Proof. exact signal_empty. Qed.
Print Assumptions C05_signal_empty.

(** the push is always enabled and wakes exactly the dequeued thread: its main goes from
    [Susp k] to [LockRead k]; nobody else changes *)
Theorem C05_signal_push : forall s t th c k x,
  reach s -> get_thread s t = Some th -> main th = SigPush c k x ->
  exists thx kx, get_thread s x = Some thx /\ main thx = Susp kx /\ x <> t /\
    step s (t, ETick) =
    Some (set_thread (set_thread s x (set_main thx (LockRead kx))) t (set_main th (after_push c k))).
Proof. exact signal_push. Qed.
Print Assumptions C05_signal_push.

(** only dequeued threads are pushed *)
Theorem C05_push_preceded : forall nt nc sched pre p post a c x,
  trace sched (init_state nt nc) = pre ++ p :: post -> is_push_by a c x p ->
  exists pre1 d pre2, pre = pre1 ++ d :: pre2 /\ is_deq_by a c x d /\
                      Forall (fun y : estep => snd y <> (a, ETick)) pre2.
Proof. exact push_preceded. Qed.
Print Assumptions C05_push_preceded.

(** broadcast: every thread in the queue when a dequeue step of the broadcast (e.g. the first)
    is about to run has, when the call returns, been dequeued and woken - or is in the hand of
    ANOTHER, concurrent signaller that stands at its push step *)
Theorem C05_broadcast : forall s1 tr s2 t th2 c x,
  reach s1 -> main_of s1 t = Some (SigDeq c ASLoop) -> exec s1 tr s2 ->
  get_thread s2 t = Some th2 -> main th2 = SigDeq c ASLoop -> getq s2 (QC c) = [] ->
  In x (getq s1 (QC c)) ->
  step s2 (t, ETick) = Some (set_thread s2 t (set_main th2 (Done 0))) /\
  blocked_in s1 c x /\
  exists pre d post a, tr = pre ++ d :: post /\ is_deq_by a c x d /\
    ((exists p1 p p2, post = p1 ++ p :: p2 /\ is_push_by a c x p) \/
     (a <> t /\ exists k, main_of s2 a = Some (SigPush c k x))).
Proof. exact broadcast_reaches. Qed.
Print Assumptions C05_broadcast.

(** cond_wait enters the wait path holding the mutex ... *)
Theorem C05_condwait_enters : forall s w c s',
  step s (w, ECall (CondWait c)) = Some s' ->
  holds s w = true /\ main_of s' w = Some (Susp ALRet) /\
  exists i, cb_entry s' w i = Some (CbEnq (QC c) true) /\ mword s' = mword s.
Proof. exact condwait_enters. Qed.
Print Assumptions C05_condwait_enters.

(** ... and leaves it only through a successful acquiring CAS: it returns holding the mutex,
    as the only holder *)
Theorem C05_returns_holding : forall s a s' w p,
  reach s -> step s a = Some s' -> main_of s w = Some p -> waitpath p = true ->
  (exists p', main_of s' w = Some p' /\ waitpath p' = true) \/
  (main_of s' w = Some (Done 0) /\ a = (w, ETick) /\ p = LockCas1 ALRet (mword s) /\
   Z.even (mword s) = true /\ mword s' = mword s + 1 /\ holds s' w = true /\
   forall t, holds s' t = true -> t = w).
Proof. exact returns_holding. Qed.
Print Assumptions C05_returns_holding.

(** safety form of "no lost wake-up": a thread still in the condition queue since its enqueue
    is there because every dequeue since took a thread enqueued BEFORE it; in a quiescent
    state no broadcast dequeued after its enqueue, no signal is in flight and every callback
    has finished *)
Theorem C05_quiescent : forall s e post s2 w c,
  reach s -> exec s (e :: post) s2 -> is_enq w (QC c) e -> (c < length (cqs s))%nat ->
  Forall (fun y => ~ is_deq c w y) post ->
  In w (getq s2 (QC c)) /\ blocked_in s2 c w /\
  ~ In w (getq s (QC c)) /\
  (forall d x, In d post -> is_deq c x d -> In x (getq s (QC c))) /\
  (quiescent s2 ->
     (forall d a x, In d post -> is_deq_by a c x d -> main_of (fst d) a <> Some (SigDeq c ASLoop)) /\
     (forall t th, get_thread s2 t = Some th ->
        cbs th = [] /\ (forall c' k, main th <> SigDeq c' k) /\ (forall c' k x, main th <> SigPush c' k x))).
Proof. exact quiescent_sleeper. Qed.
Print Assumptions C05_quiescent.

(** ---- non-vacuity: concrete runs (3 threads, 1 condition variable) ---- *)
Definition lock_ev (t : nat) : list actor := [(t, ECall Lock); (t, ETick); (t, ETick); (t, ERet 0)].
Definition unlock_ev (t : nat) : list actor := [(t, ECall Unlock); (t, ETick); (t, ETick); (t, ERet 0)].
(** cond_wait up to the release: call; callback: enqueue, unlock.read, unlock.cas1 (clears the bit) *)
Definition wait_ev (t : nat) : list actor :=
  [(t, ECall (CondWait 0)); (t, ECbTick 0); (t, ECbTick 0); (t, ECbTick 0)].
Definition relock_ev (t : nat) : list actor := [(t, ETick); (t, ETick); (t, ERet 0)].
Definition signal_ev (t : nat) : list actor := [(t, ECall (Signal 0)); (t, ETick); (t, ETick); (t, ERet 0)].

(** thread 0 waits; thread 1 locks, signals, unlocks; thread 0 re-acquires and returns *)
Definition sched1 : list actor :=
  lock_ev 0 ++ wait_ev 0 ++ lock_ev 1 ++ signal_ev 1 ++ unlock_ev 1 ++ relock_ev 0.
Definition s0 := init_state 3 1.


(** C05_enq_before_release: step 7 of the run clears the lock bit in thread 0's callback;
    step 5 is its enqueue *)
Example ex_release :
  exists pre r post, trace sched1 s0 = pre ++ r :: post /\ is_release 0 r /\ length pre = 7%nat /\
    is_enq 0 (QC 0) (nth 5 pre r).
Proof.
  exists (firstn 7 (trace sched1 s0)), (nth 7 (trace sched1 s0) (s0, (0%nat, ETick))),
         (skipn 8 (trace sched1 s0)).
  split; [apply split_at; vm_compute; lia|].
  split; [exists 0%nat, (UCas1 0 1); vsplit|].
  split; [vm_compute; reflexivity|].
  exists 0%nat. vsplit.
Qed.

(** C05_not_missed: after the enqueue (step 5) thread 1 acquires the mutex; no signal yet *)
Definition sched2 : list actor := lock_ev 0 ++ wait_ev 0 ++ lock_ev 1.
Example ex_not_missed :
  exists pre e post, trace sched2 s0 = pre ++ e :: post /\ is_enq 0 (QC 0) e /\
    Forall (fun y => ~ is_deq 0 0 y) post /\ length post = 6%nat /\
    holds (run step sched2 s0) 1 = true.
Proof.
  exists (firstn 5 (trace sched2 s0)), (nth 5 (trace sched2 s0) (s0, (0%nat, ETick))),
         (skipn 6 (trace sched2 s0)).
  split; [apply split_at; vm_compute; lia|].
  split; [exists 0%nat; vsplit|].
  split; [|vsplit].
  apply Forall_not_deq. vm_compute. reflexivity.
Qed.

(** C05_signal_deq / C05_signal_push / C05_signal_empty *)
Definition s_sig := run step (sched2 ++ [(1%nat, ECall (Signal 0))]) s0.
Example ex_signal_deq :
  exists th, reach s_sig /\ get_thread s_sig 1 = Some th /\ main th = SigDeq 0 ASRet /\
             getq s_sig (QC 0) = [0%nat].
Proof. eexists. split; [apply run_reach|]. vsplit. Qed.

Definition s_push := run step (sched2 ++ [(1%nat, ECall (Signal 0)); (1%nat, ETick)]) s0.
Example ex_signal_push :
  exists th, reach s_push /\ get_thread s_push 1 = Some th /\ main th = SigPush 0 ASRet 0.
Proof. eexists. split; [apply run_reach|]. vsplit. Qed.

Example ex_signal_empty :
  exists th, get_thread (run step [(1%nat, ECall (Signal 0))] s0) 1 = Some th /\
             main th = SigDeq 0 ASRet /\ getq (run step [(1%nat, ECall (Signal 0))] s0) (QC 0) = [].
Proof. eexists. vsplit. Qed.

(** C05_push_preceded: step 14 of the first run is the push of thread 0 by thread 1 *)
Example ex_push :
  exists pre p post, trace sched1 s0 = pre ++ p :: post /\ is_push_by 1 0 0 p.
Proof.
  exists (firstn 14 (trace sched1 s0)), (nth 14 (trace sched1 s0) (s0, (0%nat, ETick))),
         (skipn 15 (trace sched1 s0)).
  split; [apply split_at; vm_compute; lia|].
  exists ASRet. vsplit.
Qed.

(** C05_broadcast: two waiters, thread 2 broadcasts *)
Definition schedB : list actor :=
  lock_ev 0 ++ wait_ev 0 ++ lock_ev 1 ++ wait_ev 1 ++ [(2%nat, ECall (Broadcast 0))].
Definition sB1 := run step schedB s0.
Definition bticks : list actor := [(2%nat, ETick); (2%nat, ETick); (2%nat, ETick); (2%nat, ETick)].
Example ex_broadcast :
  exists th2, reach sB1 /\ main_of sB1 2 = Some (SigDeq 0 ASLoop) /\
    exec sB1 (trace bticks sB1) (run step bticks sB1) /\
    get_thread (run step bticks sB1) 2 = Some th2 /\ main th2 = SigDeq 0 ASLoop /\
    getq (run step bticks sB1) (QC 0) = [] /\ getq sB1 (QC 0) = [0%nat; 1%nat] /\
    main_of (run step bticks sB1) 0 = Some (LockRead ALRet) /\
    main_of (run step bticks sB1) 1 = Some (LockRead ALRet).
Proof.
  eexists. split; [apply run_reach|]. split; [vm_compute; reflexivity|].
  split; [apply exec_trace|]. vsplit.
Qed.

(** C05_returns_holding: step 21 of the first run is thread 0's acquiring CAS *)
Definition s_cas := run step (firstn 21 sched1) s0.
Example ex_returns :
  exists s', reach s_cas /\ step s_cas (0%nat, ETick) = Some s' /\
    main_of s_cas 0 = Some (LockCas1 ALRet 0) /\ waitpath (LockCas1 ALRet 0) = true /\
    main_of s' 0 = Some (Done 0) /\ holds s' 0 = true.
Proof. eexists. split; [apply run_reach|]. vsplit. Qed.

(** C05_quiescent: thread 0 waits, nobody signals: the final state is quiescent, with thread 0
    asleep in the condition queue *)
Definition s_w := run step (lock_ev 0 ++ [(0%nat, ECall (CondWait 0))]) s0.
Definition cbticks : list actor := [(0%nat, ECbTick 0); (0%nat, ECbTick 0); (0%nat, ECbTick 0)].
Example ex_quiescent :
  exists e post, reach s_w /\ trace cbticks s_w = e :: post /\
    exec s_w (e :: post) (run step cbticks s_w) /\ is_enq 0 (QC 0) e /\
    (0 < length (cqs s_w))%nat /\ Forall (fun y => ~ is_deq 0 0 y) post /\
    quiescent (run step cbticks s_w) /\ getq (run step cbticks s_w) (QC 0) = [0%nat].
Proof.
  exists (nth 0 (trace cbticks s_w) (s0, (0%nat, ETick))), (skipn 1 (trace cbticks s_w)).
  split; [apply run_reach|].
  assert (E : trace cbticks s_w = nth 0 (trace cbticks s_w) (s0, (0%nat, ETick)) :: skipn 1 (trace cbticks s_w))
    by (apply (split_at _ 0); vm_compute; lia).
  split; [exact E|]. split; [rewrite <- E; apply exec_trace|].
  split; [exists 0%nat; vsplit|].
  split; [vm_compute; lia|].
  split; [apply Forall_not_deq; vm_compute; reflexivity|].
  split; [|vm_compute; reflexivity].
  intros t. destruct t as [|[|[|[|t]]]]; (split; [vm_compute; reflexivity|]);
    intros i; destruct i; vm_compute; reflexivity.
Qed.
