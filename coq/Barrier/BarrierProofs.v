(** C06: the theorems about the barrier, derived from the inductive invariant [Inv]
    (BarrierGhost.v, preserved by every step: BarrierPres.v). *)
From Coq Require Import ZArith List Bool Lia Arith.
From MT Require Import Lib.Interleave Barrier.BarrierModel Barrier.BarrierLib Barrier.BarrierGhost
  Barrier.BarrierInv Barrier.BarrierSteps Barrier.BarrierPres.
Import ListNotations.

Definition greach (N : nat) (g : gstate) : Prop := reachable (ginit N) gstep g.
Definition mreach (N : nat) (s : state) : Prop := reachable (minit N) step s.

(** thread [t]'s [k]-th wait has produced its return value (or has returned to the caller) *)
Definition passed (g : gstate) (t k : nat) : Prop :=
  k < clv (gh g) t \/ (k = clv (gh g) t /\ (mn (st g) t = Idle \/ exists r, mn (st g) t = Done r)).

(** thread [t] has returned from its [k]-th wait *)
Definition returned (g : gstate) (t k : nat) : Prop :=
  k < clv (gh g) t \/ (k = clv (gh g) t /\ mn (st g) t = Idle).

(** ---- per-thread consequences of the invariant ---- *)
Lemma T_bounds N s h u :
  T N s h u ->
  gR h <= arv h u <= S (gR h) /\ arv h u <= clv h u <= S (gR h) /\
  (mn s u = Idle \/ (exists r, mn s u = Done r) -> clv h u = gR h) /\
  (clv h u = S (arv h u) -> arv h u = gR h).
Proof.
  unfold T. destruct (mn s u) eqn:E; intros H; try contradiction;
    repeat split; try lia; try (intros [H1|[r H1]]; try discriminate; lia).
Qed.

Lemma no_early_pass N g t k :
  greach N g -> t < N -> 1 <= k -> passed g t k -> forall u, u < N -> k <= arv (gh g) u.
Proof.
  intros Hr Ht Hk Hp u Hu. apply inv_reachable in Hr.
  pose proof (T_bounds _ _ _ _ (I_T _ _ _ Hr t Ht)) as (B1 & B2 & B3 & B4).
  pose proof (T_bounds _ _ _ _ (I_T _ _ _ Hr u Hu)) as (C1 & _).
  destruct Hp as [Hp|[Hp1 Hp2]].
  - destruct (Nat.eq_dec (clv (gh g) t) (S (arv (gh g) t))) as [E|E].
    + specialize (B4 E). lia.
    + lia.
  - specialize (B3 Hp2). lia.
Qed.

Lemma ret_needs_all N g t v :
  greach N g -> t < N -> ret_ok (st g) t v = true ->
  1 <= clv (gh g) t /\ forall u, u < N -> clv (gh g) t <= arv (gh g) u.
Proof.
  intros Hr Ht Hv. unfold ret_ok in Hv. destruct (get_thread (st g) t) as [th|] eqn:Eg; [|discriminate].
  apply get_thread_at in Eg. destruct Eg as [_ Eg]. destruct (main th) eqn:Em; try discriminate.
  assert (Hm : mn (st g) t = Done r) by (unfold mn; rewrite Eg; exact Em).
  pose proof (inv_reachable _ _ Hr) as HI. pose proof (I_T _ _ _ HI t Ht) as HT. unfold T in HT. rewrite Hm in HT.
  assert (H1 : 1 <= clv (gh g) t) by lia. split; auto.
  assert (Hp : passed g t (clv (gh g) t)) by (unfold passed; right; split; auto; right; eauto).
  intros u Hu. exact (no_early_pass N g t (clv (gh g) t) Hr Ht H1 Hp u Hu).
Qed.

Ltac fold_hs g h s :=
  repeat match goal with
         | H : context [gh g] |- _ => progress change (gh g) with h in H
         | H : context [st g] |- _ => progress change (st g) with s in H
         end.

(** ---- one serial thread per round ---- *)
Lemma cnt_in_pos k v u l : In (u, k, v) l -> 1 <= cnt k v l.
Proof.
  induction l as [|[[u' k'] v'] r IH]; intros H; [destruct H|].
  rewrite cnt_cons. destruct H as [E|H].
  - inversion E; subst. rewrite Nat.eqb_refl, Z.eqb_refl. cbn [andb]. lia.
  - specialize (IH H). lia.
Qed.

Lemma one_serial N g :
  greach N g ->
  (forall u k v, In (u, k, v) (rets (gh g)) -> (v = 0 \/ v = 1)%Z) /\
  (forall k, cnt k 1 (rets (gh g)) <= 1) /\
  (forall k, 1 <= k -> (forall u, u < N -> returned g u k) ->
             cnt k 1 (rets (gh g)) = 1 /\ cnt k 0 (rets (gh g)) = N - 1).
Proof.
  intros Hr. apply inv_reachable in Hr. pose proof Hr as HI.
  destruct Hr as [Hlen HT Harrs Hstk Hslp Hwk Hsum Hldr (G1 & G2 & G3)].
  destruct Hlen as (L1 & L2 & L3 & L4 & L5 & L6).
  set (h := gh g) in *. set (s := st g) in *.
  assert (Hz : forall k v, (k = 0 \/ gR h < k) -> cnt k v (rets h) = 0).
  { intros k v Hk. apply cnt_zero. intros u k' v' Hin. destruct (G1 u k' v' Hin). lia. }
  refine (conj _ (conj _ _)).
  - intros u k v Hin. apply (G1 u k v Hin).
  - intros k. destruct (Nat.eq_dec k 0) as [->|Hk0]; [rewrite Hz by auto; lia|].
    destruct (lt_eq_lt_dec k (gR h)) as [[Hlt| ->]|Hgt].
    + destruct (G2 k) as [-> _]; lia.
    + destruct (G3 ltac:(lia)) as [-> _]. destruct (in_release _); lia.
    + rewrite Hz by auto. lia.
  - intros k Hk Hall.
    assert (H0 : returned g 0 k) by (apply Hall; lia).
    pose proof (T_bounds _ _ _ _ (HT 0 ltac:(lia))) as (B1 & B2 & B3 & B4).
    assert (HkR : k <= gR h).
    { destruct H0 as [H0|[H0 H0']]; fold_hs g h s; [|rewrite (B3 (or_introl H0')) in H0; lia]. destruct (Nat.eq_dec (clv h 0) (S (arv h 0))) as [E|E]; [specialize (B4 E)|]; lia. }
    destruct (Nat.eq_dec k (gR h)) as [->|Hne]; [|apply G2; lia].
    destruct (G3 Hk) as [G3a G3b]. destruct Hsum as [_ Q]. destruct (Q Hk) as [Q1 Q2].
    (* nobody of round R is still asleep, on the private list, or holding an undelivered 0 *)
    assert (Hnot : forall x, x < N -> arv h x = gR h -> (mn s x = Susp \/ exists r, mn s x = Done r) -> False).
    { intros x Hx Ha Hm. pose proof (HT x Hx) as HTx. unfold T in HTx.
      destruct (Hall x Hx) as [Hc|[Hc Hi]]; fold_hs g h s.
      - destruct Hm as [Hm|[r Hm]]; rewrite Hm in HTx; lia.
      - destruct Hm as [Hm|[r Hm]]; congruence. }
    assert (Hslp0 : slp h = []).
    { destruct (slp h) as [|x r] eqn:E; auto. destruct Hslp as (_ & S2).
      destruct (S2 x (or_introl eq_refl)) as (B5 & B6 & B7). exfalso. eapply Hnot; eauto. }
    assert (Hacc0 : acc h = []).
    { destruct (acc h) as [|x r] eqn:E; auto. destruct Hstk as (_ & _ & _ & S4).
      destruct (S4 x (or_introl eq_refl)) as ((B5 & B6 & _) & B7). exfalso. eapply Hnot; eauto. }
    assert (Hwk0 : wk h = []).
    { destruct (wk h) as [|x r] eqn:E; auto. destruct Hwk as (_ & S2).
      destruct (S2 x (or_introl eq_refl)) as (B5 & B6). exfalso.
      pose proof (HT x B5) as HTx. unfold T in HTx. rewrite B6 in HTx.
      eapply (Hnot x); eauto. lia. }
    rewrite G3a, G3b. rewrite Hslp0, Hacc0, Hwk0 in Q1. cbn [length] in Q1. split; [|lia].
    destruct (in_release (mn s (ldr h))) eqn:Erel; auto. exfalso.
    pose proof (HT (ldr h) Q2) as HTl. unfold T in HTl.
    destruct (mn s (ldr h)) eqn:Em; try discriminate;
      (eapply (Hnot (ldr h)); [auto|lia|]); try (right; rewrite Em; eauto);
      destruct (Hall (ldr h) Q2) as [Hc|[Hc Hi]]; fold_hs g h s; try lia; congruence.
Qed.

(** ---- everybody is released ---- *)
(** a suspended participant either waits for the round that is filling up (gR+1), or belongs to
    round gR whose last arriver [ldr] is still in its pop / wake loops *)
Lemma susp_classified N g u :
  greach N g -> u < N -> mn (st g) u = Susp ->
  arv (gh g) u = S (gR (gh g)) \/
  (arv (gh g) u = gR (gh g) /\ 1 <= gR (gh g) /\ releasing (mn (st g) (ldr (gh g))) = true).
Proof.
  intros Hr Hu Hm. apply inv_reachable in Hr.
  pose proof (I_T _ _ _ Hr u Hu) as HT. unfold T in HT. rewrite Hm in HT.
  destruct HT as (_ & [[Ha _]|(Ha & HR & Hne & Hin)] & _); [left; auto|right].
  repeat split; auto. pose proof (I_ldr _ _ _ Hr HR) as HG. unfold GL in HG.
  destruct (mn (st g) (ldr (gh g))); try reflexivity; destruct HG as [E1 E2]; rewrite E1, E2 in Hin;
    destruct Hin as [[]|[]].
Qed.

Lemma all_released N g :
  greach N g -> 1 <= gR (gh g) -> releasing (mn (st g) (ldr (gh g))) = false ->
  forall u, u < N -> mn (st g) u = Susp -> arv (gh g) u = S (gR (gh g)).
Proof.
  intros Hr HR Hrel u Hu Hm. destruct (susp_classified N g u Hr Hu Hm) as [H|(_ & _ & H)]; auto. congruence.
Qed.

(** log form: once the serial thread of round k has returned (its 1 is in the log), every
    suspended participant is waiting in a later round: all sleepers of round k were woken *)
Lemma all_released_log N g w k :
  greach N g -> In (w, k, 1%Z) (rets (gh g)) ->
  forall u, u < N -> mn (st g) u = Susp -> k < arv (gh g) u.
Proof.
  intros Hr Hin u Hu Hm. pose proof (inv_reachable _ _ Hr) as HI.
  destruct (I_log _ _ _ HI) as (G1 & G2 & G3). destruct (G1 _ _ _ Hin) as [Hk _].
  destruct (susp_classified N g u Hr Hu Hm) as [H|(Ha & HR & Hrel)]; [lia|].
  destruct (Nat.eq_dec k (gR (gh g))) as [->|Hne]; [|lia]. exfalso.
  destruct (G3 HR) as [G3a _]. pose proof (cnt_in_pos _ _ _ _ Hin) as Hc. rewrite G3a in Hc.
  destruct (mn (st g) (ldr (gh g))); cbn [releasing in_release] in *; try discriminate; lia.
Qed.

(** ---- reusability ---- *)
Lemma single_releaser N g t u :
  greach N g -> t < N -> u < N -> in_release (mn (st g) t) = true -> releasing (mn (st g) u) = true ->
  (exists r, mn (st g) t = Done r /\ r <> 1%Z) \/ t = u.
Proof.
  intros Hr Ht Hu H1 H2. apply inv_reachable in Hr.
  pose proof (I_T _ _ _ Hr t Ht) as HTt. pose proof (I_T _ _ _ Hr u Hu) as HTu. unfold T in *.
  assert (Eu : u = ldr (gh g)) by (destruct (mn (st g) u); try discriminate; tauto).
  destruct (mn (st g) t) eqn:Em; try discriminate; try (right; intuition congruence).
  destruct HTt as (_ & _ & _ & _ & [[-> E]|[-> _]]); [right; congruence|left]. eexists; split; eauto. discriminate.
Qed.

Lemma popper_sees_own_round N g t :
  greach N g -> t < N -> popping (mn (st g) t) = true ->
  t = ldr (gh g) /\ arrs (gh g) = [] /\ bstate (st g) = 0%Z /\
  forall x, In x (stk (gh g)) -> arv (gh g) x = gR (gh g) /\ In x (slp (gh g)).
Proof.
  intros Hr Ht Hp. apply inv_reachable in Hr.
  pose proof (I_T _ _ _ Hr t Ht) as HTt. unfold T in HTt.
  assert (Hl : t = ldr (gh g) /\ 1 <= gR (gh g)) by (destruct (mn (st g) t); try discriminate; tauto).
  destruct Hl as [Hl HR]. pose proof (I_ldr _ _ _ Hr HR) as HG. unfold GL in HG. rewrite <- Hl in HG.
  assert (Ha : arrs (gh g) = []) by (destruct (mn (st g) t); try discriminate; tauto).
  destruct (I_arrs _ _ _ Hr) as (A1 & _). rewrite Ha in A1. cbn [length] in A1.
  refine (conj Hl (conj Ha (conj A1 _))). intros x Hx.
  destruct (I_stk _ _ _ Hr) as (_ & S2 & S3 & _). destruct (S3 x Hx) as (Hxn & Hm & Hc).
  pose proof (I_T _ _ _ Hr x Hxn) as HTx. unfold T in HTx. rewrite Hm in HTx.
  destruct HTx as (_ & [[_ B]|B] & _); [rewrite Ha in B; destruct B|].
  destruct B as (B1 & _ & _ & [B|B]); [auto|]. exfalso. eapply NoDup_app_disj; eauto.
Qed.

Lemma waker_sees_next_round N g t n i cur :
  greach N g -> t < N -> mn (st g) t = WPush n i cur ->
  forall x, In x (stk (gh g)) -> arv (gh g) x = S (gR (gh g)).
Proof.
  intros Hr Ht Hm x Hx. apply inv_reachable in Hr.
  pose proof (I_T _ _ _ Hr t Ht) as HTt. unfold T in HTt. rewrite Hm in HTt.
  destruct HTt as (_ & _ & _ & HR & Hl). pose proof (I_ldr _ _ _ Hr HR) as HG. unfold GL in HG.
  rewrite <- Hl, Hm in HG. destruct HG as (_ & _ & _ & Hs & _).
  destruct (I_stk _ _ _ Hr) as (_ & S2 & S3 & _). destruct (S3 x Hx) as (Hxn & Hxm & Hc).
  pose proof (I_T _ _ _ Hr x Hxn) as HTx. unfold T in HTx. rewrite Hxm in HTx.
  destruct HTx as (_ & [[B _]|B] & _); auto. destruct B as (_ & _ & _ & [B|B]).
  - rewrite Hs in B. destruct B.
  - exfalso. eapply NoDup_app_disj; eauto.
Qed.

(** ABA-freedom of the popper's CAS: since its read of top only pushes happened, and whenever top
    still equals the value read, the stack is exactly the list it was at the read; the CAS then
    installs the second element of that list *)
Lemma pop_cas_aba_free N g t n i hd tl x :
  greach N g -> t < N -> mn (st g) t = PopCas n i hd tl x ->
  (exists pre, stk (gh g) = pre ++ snap (gh g)) /\ hd_error (snap (gh g)) = Some x /\
  (top (st g) = Some x ->
   stk (gh g) = snap (gh g) /\
   exists rest, stk (gh g) = x :: rest /\ chain (nxt (st g)) (nx (st g) x) rest).
Proof.
  intros Hr Ht Hm. apply inv_reachable in Hr.
  pose proof (I_T _ _ _ Hr t Ht) as HTt. unfold T in HTt. rewrite Hm in HTt.
  destruct HTt as (_ & _ & _ & HR & Hl). pose proof (I_ldr _ _ _ Hr HR) as HG. unfold GL in HG.
  rewrite <- Hl, Hm in HG. destruct HG as (_ & _ & _ & _ & _ & _ & _ & _ & (pre & Hpre) & Hsn).
  refine (conj _ (conj Hsn _)); [eauto|].
  intros Htop. destruct (I_stk _ _ _ Hr) as (S1 & S2 & _).
  destruct (stk (gh g)) as [|y rest] eqn:Es; cbn [chain] in S1; [congruence|].
  destruct S1 as [E S1]. rewrite Htop in E. inversion E; subst y. split; [|exists rest; split; auto].
  destruct pre as [|p pre']; [exact Hpre|]. exfalso.
  cbn [app] in Hpre. inversion Hpre as [[Ep Er]]. subst p.
  apply NoDup_app_l in S2. apply NoDup_cons_iff in S2. destruct S2 as [S2 _]. apply S2. rewrite Er.
  apply in_or_app. right. destruct (snap (gh g)); cbn [hd_error] in Hsn; [discriminate|]. inversion Hsn. left; auto.
Qed.

Lemma reusable :
  forall N g t, greach N g -> t < N ->
  (forall u, u < N -> in_release (mn (st g) t) = true -> releasing (mn (st g) u) = true ->
             (exists r, mn (st g) t = Done r /\ r <> 1%Z) \/ t = u) /\
  (popping (mn (st g) t) = true ->
   t = ldr (gh g) /\ arrs (gh g) = [] /\ bstate (st g) = 0%Z /\
   forall x, In x (stk (gh g)) -> arv (gh g) x = gR (gh g) /\ In x (slp (gh g))) /\
  (forall n i cur, mn (st g) t = WPush n i cur -> forall x, In x (stk (gh g)) -> arv (gh g) x = S (gR (gh g))) /\
  (forall n i hd tl x, mn (st g) t = PopCas n i hd tl x ->
   (exists pre, stk (gh g) = pre ++ snap (gh g)) /\ hd_error (snap (gh g)) = Some x /\
   (top (st g) = Some x ->
    stk (gh g) = snap (gh g) /\ exists rest, stk (gh g) = x :: rest /\ chain (nxt (st g)) (nx (st g) x) rest)).
Proof.
  intros N g t Hr Ht. refine (conj _ (conj _ (conj _ _))).
  - intros u Hu. exact (single_releaser N g t u Hr Ht Hu).
  - exact (popper_sees_own_round N g t Hr Ht).
  - intros n i cur. exact (waker_sees_next_round N g t n i cur Hr Ht).
  - intros n i hd tl x. exact (pop_cas_aba_free N g t n i hd tl x Hr Ht).
Qed.

(** ---- the exit(1) branch and the assert are unreachable ---- *)
Lemma no_excess_ghost N g t : greach N g -> mn (st g) t <> Excess /\ mn (st g) t <> AssertFail.
Proof.
  intros Hr. apply inv_reachable in Hr. destruct (Nat.lt_ge_cases t N) as [Ht|Ht].
  - pose proof (I_T _ _ _ Hr t Ht) as HT. unfold T in HT. split; intros E; rewrite E in HT; exact HT.
  - destruct (I_len _ _ _ Hr) as (L1 & _). unfold mn, thr_at. rewrite nth_overflow by lia. cbn. split; discriminate.
Qed.

Lemma excess_unreachable N s t : mreach N s -> mn s t <> Excess /\ mn s t <> AssertFail.
Proof.
  intros Hr. destruct (reachable_lift N s Hr) as (g & Hg & <-). apply (no_excess_ghost N g t Hg).
Qed.

(** ---- the links always represent a duplicate-free list of sleeping threads ---- *)
Lemma walk_chain nx l : forall h fuel, chain nx h l -> length l < fuel -> walk nx fuel h = (l, true).
Proof.
  induction l as [|x r IH]; intros h fuel Hc Hf; cbn [chain] in Hc.
  - subst h. destruct fuel; reflexivity.
  - destruct Hc as [-> Hc]. destruct fuel as [|f]; [cbn [length] in Hf; lia|].
    cbn [walk]. rewrite (IH _ f Hc) by (cbn [length] in Hf; lia). reflexivity.
Qed.

Lemma stack_repr N s :
  mreach N s ->
  exists l, chain (nxt s) (top s) l /\ NoDup l /\
            (forall x, In x l -> x < N /\ mn s x = Susp /\ cbk s x = CbNone) /\
            stack_list s = (l, true).
Proof.
  intros Hr. destruct (reachable_lift N s Hr) as (g & Hg & <-). apply inv_reachable in Hg.
  destruct (I_stk _ _ _ Hg) as (S1 & S2 & S3 & _). destruct (I_len _ _ _ Hg) as (_ & L2 & _).
  exists (stk (gh g)). apply NoDup_app_l in S2. refine (conj S1 (conj S2 (conj S3 _))).
  unfold stack_list. apply walk_chain; auto. rewrite L2.
  pose proof (nodup_bound_length (stk (gh g)) N S2 (fun x Hx => proj1 (S3 x Hx))). lia.
Qed.

(** ---- strict runners and concrete schedules for the non-vacuity examples ---- *)
Fixpoint grun (l : list (nat * ev)) (g : gstate) : option gstate :=
  match l with
  | [] => Some g
  | a :: r => match gstep g a with Some g' => grun r g' | None => None end
  end.

Fixpoint mrun (l : list (nat * ev)) (s : state) : option state :=
  match l with
  | [] => Some s
  | a :: r => match step s a with Some s' => mrun r s' | None => None end
  end.

Lemma grun_reach N l : forall g g', greach N g -> grun l g = Some g' -> greach N g'.
Proof.
  induction l as [|a r IH]; intros g g' Hr H; cbn [grun] in H.
  - inversion H; subst; auto.
  - destruct (gstep g a) as [g1|] eqn:E; [|discriminate]. eapply IH; [|exact H]. eapply reach_step; eauto.
Qed.

Definition ginit_state (N : nat) : gstate := mkGS (init_state N (Z.of_nat N)) (ghost0 N).

Lemma ginit_reach N : 1 <= N -> greach N (ginit_state N).
Proof. intros H. apply reach_init. split; auto. Qed.

Definition C (t : nat) : nat * ev := (t, ECall Wait).
Definition K (t : nat) : nat * ev := (t, ETick).
Definition B (t : nat) : nat * ev := (t, ECbTick).
Definition Rv (t : nat) (v : Z) : nat * ev := (t, ERet v).

(** N = 3.  Round 1: 0 sleeps on the stack; 1 is suspended but late with its push; 2 arrives last,
    resets, pops 0, spins on the empty stack, 1 pushes, 2 pops 1 and wakes 0.  Then 0 races ahead:
    it returns, calls wait again and performs its round-2 arrival CAS while 1 is still on 2's
    private list (not yet woken). *)
Definition ex_sched_racer : list (nat * ev) :=
  [C 0; K 0; K 0; B 0; B 0;
   C 1; K 1; K 1;
   C 2; K 2; K 2; K 2;
   K 2; K 2;
   K 2;
   B 1; B 1;
   K 2; K 2;
   K 2;
   Rv 0 0; C 0; K 0; K 0].

(** ... 0 pushes itself (round-2 sleeper on the stack while round 1 is still being released), 2 wakes 1
    and returns 1; round 2 completes with 2 popping 1 and 0. *)
Definition ex_sched_rest : list (nat * ev) :=
  [B 0; B 0; K 2; Rv 2 1; Rv 1 0;
   C 1; K 1; K 1; B 1; B 1;
   C 2; K 2; K 2; K 2; K 2; K 2; K 2; K 2; K 2; K 2; Rv 2 1; Rv 1 0; Rv 0 0].

(** a push between the popper's read of top and its CAS: the CAS fails (top changed) *)
Definition ex_sched_popfail : list (nat * ev) :=
  [C 0; K 0; K 0; B 0; B 0;
   C 1; K 1; K 1;
   C 2; K 2; K 2; K 2;
   K 2;
   B 1; B 1].

(** three threads on a barrier for two: the third reaches the exit(1) branch *)
Definition ex_sched_excess : list (nat * ev) :=
  [C 0; K 0; K 0; C 1; K 1; K 1; C 2; K 2].
