(** [Inv] is an invariant of the ghost system: it holds initially and every [gstep] preserves it. *)
From Coq Require Import ZArith List Bool Lia Arith Permutation.
From MT Require Import Lib.Interleave Barrier.BarrierModel Barrier.BarrierLib Barrier.BarrierGhost
  Barrier.BarrierInv Barrier.BarrierSteps.
Import ListNotations.

Lemma onat_eqb_true a b : onat_eqb a b = true <-> a = b.
Proof.
  destruct a as [x|], b as [y|]; cbn [onat_eqb]; split; intros H; try congruence; try discriminate.
  - apply Nat.eqb_eq in H. congruence.
  - inversion H. apply Nat.eqb_refl.
Qed.

Lemma nth_repeat_any {A} (x : A) n i d : i < n -> nth i (repeat x n) d = x.
Proof.
  revert i; induction n as [|n IH]; intros [|i] H; cbn [repeat nth]; try lia; auto. apply IH; lia.
Qed.

Lemma inv_init N : 1 <= N -> Inv N (init_state N (Z.of_nat N)) (ghost0 N).
Proof.
  intros HN. unfold init_state, ghost0.
  constructor; cbn [thr nxt nthr bstate top gR ar cl ldr arrs slp acc wk zret stk snap rets].
  - rewrite !repeat_length. repeat split; auto.
  - intros u Hu. unfold T, mn, cbk, thr_at, arv, clv. cbn [thr ar cl gR].
    rewrite !nth_repeat_any by auto. cbn [thread0 main cb]. repeat split; auto. intros; lia.
  - cbn [length]. refine (conj _ (conj _ _)); [reflexivity|constructor|intros u []].
  - cbn [chain app]. refine (conj _ (conj _ (conj _ _))); [reflexivity|constructor|intros x []|intros x []].
  - split; [constructor|intros x []].
  - split; [constructor|intros x []].
  - split; [auto|intros; lia].
  - intros; lia.
  - refine (conj _ (conj _ _)); [intros u k v []|intros; lia|intros; lia].
Qed.

Lemma ghost_eta h :
  h = mkG (gR h) (ar h) (cl h) (ldr h) (arrs h) (slp h) (acc h) (wk h) (zret h) (stk h) (snap h) (rets h).
Proof. destruct h; reflexivity. Qed.

(** local steps keep the ghost except possibly [snap] *)
Lemma inv_local_same N s h t th' snap' :
  Inv N s h -> t < N ->
  ~ In t (stk h) -> ~ In t (acc h) -> (In t (slp h) -> main th' = Susp) -> (In t (wk h) -> main th' = Done 0) ->
  T N (set_thread s t th')
      (mkG (gR h) (ar h) (cl h) (ldr h) (arrs h) (slp h) (acc h) (wk h) (zret h) (stk h) snap' (rets h)) t ->
  (1 <= gR h -> ldr h = t ->
   GL N (set_thread s t th')
        (mkG (gR h) (ar h) (cl h) (ldr h) (arrs h) (slp h) (acc h) (wk h) (zret h) (stk h) snap' (rets h))) ->
  (ldr h <> t -> snap' = snap h) ->
  (ldr h = t -> in_release (main th') = in_release (mn s t)) ->
  Inv N (set_thread s t th')
        (mkG (gR h) (ar h) (cl h) (ldr h) (arrs h) (slp h) (acc h) (wk h) (zret h) (stk h) snap' (rets h)).
Proof.
  intros HI Ht. apply inv_local; auto. destruct HI as [Hlen _ _ _ _ _ _ _ _]. tauto.
Qed.

Lemma inv_local_h N s h t th' :
  Inv N s h -> t < N ->
  ~ In t (stk h) -> ~ In t (acc h) -> (In t (slp h) -> main th' = Susp) -> (In t (wk h) -> main th' = Done 0) ->
  T N (set_thread s t th') h t ->
  (1 <= gR h -> ldr h = t -> GL N (set_thread s t th') h) ->
  (ldr h = t -> in_release (main th') = in_release (mn s t)) ->
  Inv N (set_thread s t th') h.
Proof.
  intros HI Ht H1 H2 H3 H4 H5 H6 H7. rewrite (ghost_eta h) in H5, H6 |- *.
  cbn [gR ar cl ldr arrs slp acc wk zret stk snap rets] in *.
  apply inv_local_same; auto.
Qed.

Lemma thr_at_set_eq s t x : t < length (thr s) -> thr_at (set_thread s t x) t = x.
Proof. intros H. vw. updsimp. reflexivity. Qed.

Lemma put_some s t th p : get_thread s t = Some th -> put s t p = Some (set_thread s t (set_main th p)).
Proof. intros H. unfold put. rewrite H. reflexivity. Qed.

(** the acting thread is none of the sleeping / woken lists when it is running *)
Ltac running_facts HI Hmt :=
  let H := fresh "Hrun" in
  pose proof (not_susp_notin_stk _ _ _ _ HI ltac:(rewrite Hmt; discriminate)) as H;
  destruct H as (Hn1 & Hn2 & Hn3);
  pose proof (not_done0_notin_wk _ _ _ _ HI ltac:(rewrite Hmt; discriminate)) as Hn4.

Lemma inv_tick N s h t s' : Inv N s h -> tick s t = Some s' -> Inv N s' (gh_step s h t ETick).
Proof.
  intros HI Hst. unfold tick in Hst. unfold gh_step.
  destruct (get_thread s t) as [th|] eqn:Eg; [|discriminate].
  pose proof (get_thread_at _ _ _ Eg) as [Hlt Hth].
  assert (Ht : t < N) by (destruct HI as [(L1 & _) _ _ _ _ _ _ _ _]; lia).
  pose proof (I_T _ _ _ HI t Ht) as HTt. unfold T in HTt.
  assert (Hmth : mn s t = main th) by (unfold mn; rewrite Hth; reflexivity).
  assert (Hcbth : cbk s t = cb th) by (unfold cbk; rewrite Hth; reflexivity).
  destruct (main th) eqn:Em; try discriminate.
  - (* BRead *)
    rewrite Hmth in HTt. destruct HTt as (Tc & Tcl & Ta & Tz).
    running_facts HI Hmth.
    assert (Hlt2 : (bstate s < nthr s)%Z).
    { destruct HI as [(L1 & L2 & L3 & L4 & L5 & L6) _ (A1 & A2 & A3) _ _ _ _ _ _].
      assert (~ In t (arrs h)) by (intros Hin; apply A3 in Hin; lia).
      pose proof (nodup_missing_lt (arrs h) N t A2 (fun x Hx => proj1 (A3 x Hx)) Ht H). lia. }
    destruct (bstate s >=? nthr s)%Z eqn:E; [apply Z.geb_le in E; lia|].
    rewrite (put_some _ _ _ _ Eg) in Hst. inversion Hst; subst s'. clear Hst.
    apply inv_local_h; auto; try (intros; contradiction).
    + unfold T, mn, cbk. rewrite thr_at_set_eq by auto. cbn [set_main main cb]. rewrite <- Hcbth.
      repeat split; auto. destruct HI as [(_ & _ & _ & _ & L5 & _) _ _ _ _ _ _ _ _]. lia.
    + intros HR El. pose proof (I_ldr _ _ _ HI HR) as HG. unfold GL in *. unfold mn in *. rewrite El in *.
      rewrite thr_at_set_eq by auto. rewrite Hth, Em in HG. cbn [set_main main]. exact HG.
    + intros _. rewrite Hmth. reflexivity.
  - (* BCas *)
    rewrite Hmth in HTt. destruct HTt as (Tc & Tcl & Ta & Tz & Tlt).
    running_facts HI Hmth.
    destruct (Z.eqb_spec (bstate s) c) as [Eb|Eb].
    + assert (Hs' : s' = set_thread (set_bstate s (c + 1)) t
                          (if (c =? nthr s - 1)%Z then {| main := BReset c; cb := CbNone |}
                           else {| main := Susp; cb := CbPushRead |})).
      { destruct (c =? nthr s - 1)%Z.
        - unfold put, get_thread in *. cbn [set_bstate thr] in Hst. rewrite Eg in Hst. inversion Hst.
          unfold set_main. rewrite <- Hcbth, Tc. cbn [nthr set_bstate]. reflexivity.
        - inversion Hst. reflexivity. }
      rewrite Hs'. apply inv_bcas_ok; auto.
    + rewrite (put_some _ _ _ _ Eg) in Hst. inversion Hst; subst s'. clear Hst.
      apply inv_local_h; auto; try (intros; contradiction).
      * unfold T, mn, cbk. rewrite thr_at_set_eq by auto. cbn [set_main main cb]. rewrite <- Hcbth.
        repeat split; auto.
      * intros HR El. pose proof (I_ldr _ _ _ HI HR) as HG. unfold GL in *. unfold mn in *. rewrite El in *.
        rewrite thr_at_set_eq by auto. rewrite Hth, Em in HG. cbn [set_main main]. exact HG.
      * intros _. rewrite Hmth. reflexivity.
  - (* BReset *)
    unfold put, get_thread in *. cbn [set_bstate thr] in Hst. rewrite Eg in Hst. inversion Hst.
    apply inv_breset; auto.
  - (* PopRead *)
    rewrite Hmth in HTt. destruct HTt as (Tc & Tcl & Ta & TR & Tl).
    running_facts HI Hmth.
    pose proof (I_ldr _ _ _ HI TR) as HG. unfold GL in HG. rewrite <- Tl, Hmth in HG.
    destruct HG as (G1 & G2 & G3 & G4 & G5 & G6 & G7 & G8).
    assert (Hs' : exists p, s' = set_thread s t (set_main th p) /\
                  (p = PopRead n i h0 tl \/ exists x, p = PopCas n i h0 tl x /\ top s = Some x)).
    { destruct (top s) as [x|] eqn:Etop; rewrite (put_some _ _ _ _ Eg) in Hst; inversion Hst; eexists; split; eauto. }
    destruct Hs' as (p & -> & Hp). clear Hst.
    apply inv_local_same; auto; try (intros; contradiction).
    + unfold T, mn, cbk. rewrite thr_at_set_eq by auto. cbn [set_main main cb gR ldr]. rewrite <- Hcbth.
      unfold arv, clv in *. cbn [ar cl].
      destruct Hp as [->|(x & -> & _)]; repeat split; auto.
    + intros _ _. unfold GL, mn. cbn [ldr arrs slp acc wk zret stk snap]. rewrite <- Tl.
      rewrite thr_at_set_eq by auto. cbn [set_main main set_thread nxt].
      destruct Hp as [->|(x & -> & Etop)]; repeat split; auto; try lia.
      * exists []. reflexivity.
      * destruct (I_stk _ _ _ HI) as (S1 & _). destruct (stk h) as [|y r]; cbn [chain] in S1.
        -- congruence.
        -- destruct S1 as [S1 _]. cbn [hd_error]. congruence.
    + intros E. congruence.
    + intros _. rewrite Hmth. cbn [set_main main]. destruct Hp as [->|(x & -> & _)]; reflexivity.
  - (* PopCas *)
    rewrite Hmth in HTt. destruct HTt as (Tc & Tcl & Ta & TR & Tl).
    running_facts HI Hmth.
    destruct (onat_eqb (top s) (Some x)) eqn:Eo.
    + apply onat_eqb_true in Eo.
      unfold put, get_thread in Hst.
      set (s2 := (let s1 := set_next (set_top s (get_next s x)) x None in
                  match tl with Some y => set_next s1 y (Some x) | None => s1 end)) in *.
      assert (Hthr2 : thr s2 = thr s) by (subst s2; destruct tl; reflexivity).
      cbn zeta in Hst.
      assert (Hst' : s' = set_thread s2 t (set_main th (after_pops n (i + 1)
                            (match tl with Some _ => h0 | None => Some x end) (Some x)))).
      { subst s2. cbn zeta. destruct tl; cbn [set_next set_top thr] in Hst; unfold get_thread in Eg;
          rewrite Eg in Hst; inversion Hst; reflexivity. }
      rewrite Hst'. eapply inv_popcas_ok; eauto.
    + rewrite (put_some _ _ _ _ Eg) in Hst. inversion Hst; subst s'. clear Hst.
      pose proof (I_ldr _ _ _ HI TR) as HG. unfold GL in HG. rewrite <- Tl, Hmth in HG.
      destruct HG as (G1 & G2 & G3 & G4 & G5 & G6 & G7 & G8 & G9 & G10).
      apply inv_local_h; auto; try (intros; contradiction).
      * unfold T, mn, cbk. rewrite thr_at_set_eq by auto. cbn [set_main main cb]. rewrite <- Hcbth.
        repeat split; auto.
      * intros _ _. unfold GL, mn. rewrite <- Tl. rewrite thr_at_set_eq by auto. cbn [set_main main set_thread nxt].
        repeat split; auto; lia.
      * intros _. rewrite Hmth. reflexivity.
  - (* WPush *)
    rewrite Hmth in HTt. destruct HTt as (Tc & Tcl & Ta & TR & Tl).
    destruct cur as [x|].
    + destruct (inv_wpush N s h t th n i x HI Ht Hth Em) as (HI' & Hxm & Hxn & Hxt).
      unfold wake in Hst.
      assert (Egx : get_thread s x = Some (thr_at s x)).
      { apply get_thread_lt. destruct HI as [(L1 & _) _ _ _ _ _ _ _ _]. lia. }
      rewrite Egx in Hst. unfold mn in Hxm. rewrite Hxm in Hst.
      unfold put, get_thread in Hst. cbn [set_thread thr] in Hst.
      rewrite nth_error_nth with (d := thread0) in Hst by (rewrite upd_length; exact Hlt).
      rewrite nth_upd_neq in Hst by auto. fold (thr_at s t) in Hst. rewrite Hth in Hst.
      inversion Hst. exact HI'.
    + exfalso. pose proof (I_ldr _ _ _ HI TR) as HG. unfold GL in HG. rewrite <- Tl, Hmth in HG.
      destruct HG as (G1 & G2 & G3 & G4 & G5). destruct (acc h); cbn [chain length] in *; [lia|].
      destruct G5; discriminate.
Qed.

Lemma inv_cbtick N s h t s' : Inv N s h -> cbtick s t = Some s' -> Inv N s' (gh_step s h t ECbTick).
Proof.
  intros HI Hst. unfold cbtick in Hst. unfold gh_step.
  destruct (get_thread s t) as [th|] eqn:Eg; [|discriminate].
  pose proof (get_thread_at _ _ _ Eg) as [Hlt Hth].
  assert (Ht : t < N) by (destruct HI as [(L1 & _) _ _ _ _ _ _ _ _]; lia).
  destruct (cb th) as [| |tp] eqn:Ec; try discriminate.
  - inversion Hst. apply inv_cbread; auto.
  - destruct (onat_eqb (top s) tp) eqn:Eo.
    + apply onat_eqb_true in Eo. inversion Hst. apply inv_cbcas_ok with (tp := tp); auto.
    + inversion Hst; subst s'. clear Hst.
      assert (Hcb : cbk s t = CbPushCas tp) by (unfold cbk; rewrite Hth; exact Ec).
      pose proof (cb_pending_susp N s h t HI Ht ltac:(rewrite Hcb; discriminate)) as Hmt.
      pose proof (I_T _ _ _ HI t Ht) as HTt. unfold T in HTt. rewrite Hmt, Hcb in HTt.
      destruct HTt as (Tcl & Td & Tnx & Tn1 & Tn2).
      assert (Hmth : main th = Susp) by (unfold mn in Hmt; rewrite Hth in Hmt; exact Hmt).
      apply inv_local_h; auto.
      * intros Hin. destruct (I_wk _ _ _ HI) as (_ & P2). destruct (P2 t Hin). congruence.
      * unfold T, mn, cbk. rewrite thr_at_set_eq by auto. cbn [set_cb main cb]. rewrite Hmth.
        repeat split; auto.
      * intros HR El. pose proof (I_ldr _ _ _ HI HR) as HG. unfold GL in *. unfold mn in *. rewrite El in *.
        rewrite thr_at_set_eq by auto. rewrite Hth, Hmth in HG. cbn [set_cb main]. rewrite Hmth. exact HG.
      * intros _. rewrite Hmt. cbn [set_cb main]. rewrite Hmth. reflexivity.
Qed.

Lemma inv_ecall N s h t o s' : Inv N s h -> call s t o = Some s' -> Inv N s' (gh_step s h t (ECall o)).
Proof.
  intros HI Hst. unfold call in Hst. unfold gh_step.
  destruct (get_thread s t) as [th|] eqn:Eg; [|discriminate].
  pose proof (get_thread_at _ _ _ Eg) as [Hlt Hth].
  assert (Ht : t < N) by (destruct HI as [(L1 & _) _ _ _ _ _ _ _ _]; lia).
  destruct (main th) eqn:Em; try discriminate. destruct (cb th) eqn:Ec; try discriminate.
  destruct o. inversion Hst. apply inv_call; auto.
Qed.

Lemma inv_eret N s h t v s' : Inv N s h -> ret s t v = Some s' -> Inv N s' (gh_step s h t (ERet v)).
Proof.
  intros HI Hst. unfold ret, ret_ok in Hst. unfold gh_step.
  destruct (get_thread s t) as [th|] eqn:Eg; [|discriminate].
  pose proof (get_thread_at _ _ _ Eg) as [Hlt Hth].
  assert (Ht : t < N) by (destruct HI as [(L1 & _) _ _ _ _ _ _ _ _]; lia).
  destruct (main th) eqn:Em; try discriminate.
  destruct (Z.eqb_spec v r) as [->|]; [|discriminate].
  rewrite (put_some _ _ _ _ Eg) in Hst. inversion Hst.
  pose proof (inv_ret N s h t th r HI Ht Hth Em) as H. destruct (r =? 0)%Z; exact H.
Qed.

Theorem inv_gstep N g a g' : Inv N (st g) (gh g) -> gstep g a = Some g' -> Inv N (st g') (gh g').
Proof.
  intros HI Hst. unfold gstep in Hst. destruct (step (st g) a) as [s'|] eqn:Es; [|discriminate].
  inversion Hst; subst g'. clear Hst. cbn [st gh]. destruct a as [t e]. cbn [fst snd]. unfold step in Es.
  destruct e.
  - apply inv_ecall; auto.
  - apply inv_tick; auto.
  - apply inv_cbtick; auto.
  - apply inv_eret; auto.
Qed.

Theorem inv_reachable N g : reachable (ginit N) gstep g -> Inv N (st g) (gh g).
Proof.
  apply (@invariant_rule _ _ (ginit N) gstep (fun g => Inv N (st g) (gh g))).
  - intros g0 [HN ->]. cbn [st gh]. apply inv_init; auto.
  - intros g0 a g1 HI Hs. eapply inv_gstep; eauto.
Qed.
