(** Preservation of the barrier invariant [Inv] by every step of the ghost system. *)
From Coq Require Import ZArith List Bool Lia Arith Permutation.
From MT Require Import Lib.Interleave Barrier.BarrierModel Barrier.BarrierLib Barrier.BarrierGhost.
Import ListNotations.

Ltac vw :=
  unfold mn, cbk, thr_at, nx, arv, clv;
  cbn [thr nxt bstate nthr top ar cl gR ldr arrs slp acc wk zret stk snap rets main cb
       set_thread set_bstate set_top set_next set_main set_cb].
Tactic Notation "vw" "in" hyp(H) :=
  unfold mn, cbk, thr_at, nx, arv, clv in H;
  cbn [thr nxt bstate nthr top ar cl gR ldr arrs slp acc wk zret stk snap rets main cb
       set_thread set_bstate set_top set_next set_main set_cb] in H.

Ltac updsimp :=
  repeat (first
    [ rewrite nth_upd_eq by (rewrite ?upd_length; (lia || congruence || assumption))
    | rewrite nth_upd_neq by (lia || congruence || auto) ]).

(** a thread whose own record, links and ghost counters are untouched, and whose membership in
    the ghost lists is untouched, keeps its clause *)
Lemma T_frame N s h s' h' u :
  thr_at s' u = thr_at s u -> (forall tp, cbk s u = CbPushCas tp -> nx s' u = nx s u) ->
  arv h' u = arv h u -> clv h' u = clv h u ->
  gR h' = gR h -> ldr h' = ldr h ->
  (In u (arrs h') <-> In u (arrs h)) -> (In u (slp h') <-> In u (slp h)) ->
  (In u (acc h') <-> In u (acc h)) -> (In u (wk h') <-> In u (wk h)) ->
  (In u (zret h') <-> In u (zret h)) -> (In u (stk h') <-> In u (stk h)) ->
  ((hd_error (arrs h') = hd_error (arrs h) /\ length (arrs h') = length (arrs h)) \/
   (forall c, mn s u <> BReset c)) ->
  T N s h u -> T N s' h' u.
Proof.
  intros Hth Hnx Har Hcl HR Hl Ha Hs Hc Hw Hz Hk Hb HT.
  unfold T in *. unfold mn, cbk in *. rewrite Hth, Har, Hcl, HR, Hl.
  destruct (main (thr_at s u)) eqn:E; try tauto.
  - (* BReset *)
    destruct Hb as [[Hb1 Hb2]|Hb]; [|exfalso; eapply Hb; reflexivity].
    rewrite Hb1, Hb2. exact HT.
  - (* Susp *)
    destruct (cb (thr_at s u)) eqn:E2; try tauto.
    rewrite (Hnx _ eq_refl). tauto.
Qed.

(** ---- small helpers ---- *)
Lemma asleep_keep N s s' x : thr_at s' x = thr_at s x -> asleep N s x -> asleep N s' x.
Proof. unfold asleep, mn, cbk. intros ->. auto. Qed.

Lemma get_thread_at s t th : get_thread s t = Some th -> t < length (thr s) /\ thr_at s t = th.
Proof.
  unfold get_thread, thr_at. intros H. apply nth_error_some_lt in H. destruct H as [H1 H2]. split; auto.
Qed.

Lemma get_thread_lt s t : t < length (thr s) -> get_thread s t = Some (thr_at s t).
Proof. intros H. unfold get_thread, thr_at. apply nth_error_nth; auto. Qed.

(** members of the sleeping lists are suspended; a running thread is none of them *)
Lemma not_susp_notin_stk N s h t : Inv N s h -> mn s t <> Susp -> ~ In t (stk h) /\ ~ In t (acc h) /\ ~ In t (slp h).
Proof.
  intros HI Hm. destruct HI as [_ _ _ (_ & _ & Hs & Ha) (_ & Hsl) _ _ _ _].
  repeat split; intros Hin.
  - apply Hs in Hin. destruct Hin as (_ & E & _). congruence.
  - apply Ha in Hin. destruct Hin as ((_ & E & _) & _). congruence.
  - apply Hsl in Hin. destruct Hin as (_ & E & _). congruence.
Qed.

Lemma not_done0_notin_wk N s h t : Inv N s h -> mn s t <> Done 0 -> ~ In t (wk h).
Proof.
  intros HI Hm Hin. destruct HI as [_ _ _ _ _ (_ & Hw) _ _ _]. apply Hw in Hin. tauto.
Qed.

Lemma GL_frame N s h s' h' :
  mn s' (ldr h) = mn s (ldr h) -> nxt s' = nxt s -> ldr h' = ldr h ->
  arrs h' = arrs h -> slp h' = slp h -> acc h' = acc h -> wk h' = wk h -> zret h' = zret h ->
  stk h' = stk h -> snap h' = snap h ->
  GL N s h -> GL N s' h'.
Proof.
  intros Hm Hn Hl Ha Hs Hc Hw Hz Hk Hp. unfold GL. rewrite Hl, Hm, Hn, Ha, Hs, Hc, Hw, Hz, Hk, Hp. auto.
Qed.

(** ---- ECall ---- *)
Lemma inv_call N s h t th :
  Inv N s h -> t < N -> thr_at s t = th -> main th = Idle -> cb th = CbNone ->
  Inv N (set_thread s t (set_main th BRead))
        (mkG (gR h) (ar h) (upd (cl h) t (S (nth t (cl h) 0))) (ldr h) (arrs h) (slp h) (acc h) (wk h) (zret h)
             (stk h) (snap h) (rets h)).
Proof.
  intros HI Ht Hth Hm Hc.
  pose proof (not_susp_notin_stk N s h t HI ltac:(unfold mn; rewrite Hth, Hm; discriminate)) as (Hn1 & Hn2 & Hn3).
  pose proof (not_done0_notin_wk N s h t HI ltac:(unfold mn; rewrite Hth, Hm; discriminate)) as Hn4.
  destruct HI as [Hlen HT Harrs Hstk Hslp Hwk Hsum Hldr Hlog].
  destruct Hlen as (L1 & L2 & L3 & L4 & L5 & L6).
  assert (Hoth : forall x, x <> t -> thr_at (set_thread s t (set_main th BRead)) x = thr_at s x).
  { intros x Hx. vw. updsimp. reflexivity. }
  assert (Hme : thr_at (set_thread s t (set_main th BRead)) t = set_main th BRead).
  { vw. updsimp. reflexivity. }
  constructor; cbn [gR ar cl ldr arrs slp acc wk zret stk snap rets].
  - cbn [set_thread thr nxt nthr]. rewrite !upd_length. repeat split; auto.
  - intros u Hu. destruct (Nat.eq_dec u t) as [->|Hne].
    + specialize (HT t Ht). unfold T, mn, cbk in *. rewrite Hme. rewrite Hth in HT. rewrite Hm, Hc in HT.
      cbn [set_main main cb gR ldr zret]. rewrite Hc. vw. updsimp. vw in HT. intuition lia.
    + eapply T_frame; try apply (HT u Hu); try reflexivity; auto.
      vw. updsimp. reflexivity.
  - exact Harrs.
  - destruct Hstk as (S1 & S2 & S3 & S4). refine (conj _ (conj _ (conj _ _))); auto.
    + intros x Hx. apply asleep_keep with (s := s); auto. apply Hoth. intros ->; auto.
    + intros x Hx. split; [|apply S4; auto].
      apply asleep_keep with (s := s); [|apply S4; auto]. apply Hoth. intros ->; auto.
  - destruct Hslp as (S1 & S2). split; auto. intros x Hx. unfold mn. rewrite Hoth by (intros ->; auto).
    apply S2; auto.
  - destruct Hwk as (S1 & S2). split; auto. intros x Hx. unfold mn. rewrite Hoth by (intros ->; auto).
    apply S2; auto.
  - exact Hsum.
  - intros HR. specialize (Hldr HR).
    destruct (Nat.eq_dec (ldr h) t) as [E|E].
    + unfold GL, mn in *. cbn [ldr]. rewrite E in *. rewrite Hme. rewrite Hth, Hm in Hldr.
      cbn [set_main main]. exact Hldr.
    + eapply GL_frame; try apply Hldr; try reflexivity. unfold mn. rewrite Hoth; auto.
  - destruct Hlog as (G1 & G2 & G3). refine (conj G1 (conj G2 _)).
    intros HR. destruct (G3 HR) as [G3a G3b]. split; [|exact G3b]. rewrite G3a. unfold mn.
    destruct (Nat.eq_dec (ldr h) t) as [E|E].
    + rewrite E. rewrite Hme, Hth, Hm. reflexivity.
    + rewrite Hoth; auto.
Qed.

(** ---- steps that change only the acting thread's record (and its call count / the popper's
        snapshot): everything about the other threads and the lists is framed ---- *)
Lemma inv_local N s h t th' cl' snap' :
  Inv N s h -> t < N ->
  length cl' = N -> (forall u, u <> t -> nth u cl' 0 = clv h u) ->
  ~ In t (stk h) -> ~ In t (acc h) -> (In t (slp h) -> main th' = Susp) -> (In t (wk h) -> main th' = Done 0) ->
  T N (set_thread s t th')
      (mkG (gR h) (ar h) cl' (ldr h) (arrs h) (slp h) (acc h) (wk h) (zret h) (stk h) snap' (rets h)) t ->
  (1 <= gR h -> ldr h = t ->
   GL N (set_thread s t th')
        (mkG (gR h) (ar h) cl' (ldr h) (arrs h) (slp h) (acc h) (wk h) (zret h) (stk h) snap' (rets h))) ->
  (ldr h <> t -> snap' = snap h) ->
  (ldr h = t -> in_release (main th') = in_release (mn s t)) ->
  Inv N (set_thread s t th')
        (mkG (gR h) (ar h) cl' (ldr h) (arrs h) (slp h) (acc h) (wk h) (zret h) (stk h) snap' (rets h)).
Proof.
  intros HI Ht Hcl1 Hcl2 Hn1 Hn2 Hn3 Hn4 HTt HGt Hsn Hrel.
  destruct HI as [Hlen HT Harrs Hstk Hslp Hwk Hsum Hldr Hlog].
  destruct Hlen as (L1 & L2 & L3 & L4 & L5 & L6).
  assert (Hoth : forall x, x <> t -> thr_at (set_thread s t th') x = thr_at s x).
  { intros x Hx. vw. updsimp. reflexivity. }
  assert (Hme : thr_at (set_thread s t th') t = th').
  { vw. updsimp. reflexivity. }
  constructor; cbn [gR ar cl ldr arrs slp acc wk zret stk snap rets].
  - cbn [set_thread thr nxt nthr]. rewrite !upd_length. repeat split; auto.
  - intros u Hu. destruct (Nat.eq_dec u t) as [->|Hne]; [exact HTt|].
    eapply T_frame; try apply (HT u Hu); try reflexivity; auto.
    unfold clv. cbn [cl]. apply Hcl2; auto.
  - exact Harrs.
  - destruct Hstk as (S1 & S2 & S3 & S4). refine (conj _ (conj _ (conj _ _))); auto.
    + intros x Hx. apply asleep_keep with (s := s); auto. apply Hoth. intros ->; auto.
    + intros x Hx. split; [|apply S4; auto].
      apply asleep_keep with (s := s); [|apply S4; auto]. apply Hoth. intros ->; auto.
  - destruct Hslp as (S1 & S2). split; auto. intros x Hx. unfold mn.
    destruct (Nat.eq_dec x t) as [->|Hne].
    + rewrite Hme. destruct (S2 t Hx) as (A & B & C). auto.
    + rewrite Hoth by auto. apply S2; auto.
  - destruct Hwk as (S1 & S2). split; auto. intros x Hx. unfold mn.
    destruct (Nat.eq_dec x t) as [->|Hne].
    + rewrite Hme. destruct (S2 t Hx) as (A & B). auto.
    + rewrite Hoth by auto. apply S2; auto.
  - exact Hsum.
  - intros HR. destruct (Nat.eq_dec (ldr h) t) as [E|E]; [apply HGt; auto|].
    specialize (Hldr HR). eapply GL_frame; try apply Hldr; try reflexivity.
    + unfold mn. rewrite Hoth; auto.
    + cbn [snap]. auto.
  - destruct Hlog as (G1 & G2 & G3). refine (conj G1 (conj G2 _)).
    intros HR. destruct (G3 HR) as [G3a G3b]. split; [|exact G3b]. rewrite G3a. unfold mn at 2.
    destruct (Nat.eq_dec (ldr h) t) as [E|E].
    + rewrite E at 2. rewrite Hme. rewrite Hrel by auto. rewrite E. reflexivity.
    + rewrite Hoth; auto.
Qed.
