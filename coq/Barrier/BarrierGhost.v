(** The barrier model wrapped with ghost state (round numbers, per-thread arrival / call counts,
    who is where, the list the stack's links represent, the log of returned values), and the
    inductive invariant of DESIGN.md Appendix B.4 over the wrapped system.

    The ghost never influences [step]: [gstep] runs the extracted [step] on the model component
    and updates the ghost next to it ([gstep_erasure], [gstep_total]). *)
From Coq Require Import ZArith List Bool Lia Arith.
From MT Require Import Lib.Interleave Barrier.BarrierModel Barrier.BarrierLib.
Import ListNotations.

Record ghost := mkG {
  gR : nat;                    (* number of resets so far = number of completed rounds *)
  ar : list nat;               (* per thread: successful arrival CASes so far *)
  cl : list nat;               (* per thread: calls of wait so far *)
  ldr : nat;                   (* the thread that performed the latest reset (last arriver of round gR) *)
  arrs : list nat;             (* threads that have arrived in round gR+1, latest first *)
  slp : list nat;              (* sleepers of round gR not yet popped by [ldr] *)
  acc : list nat;              (* [ldr]'s private list: popped, not yet woken *)
  wk : list nat;               (* woken in round gR, 0 not yet returned to the caller *)
  zret : list nat;             (* returned 0 from round gR *)
  stk : list nat;              (* the list represented by top / next links, top first *)
  snap : list nat;             (* [stk] at the popper's latest read of top *)
  rets : list (nat * nat * Z)  (* log of returns: thread, its call number, value; latest first *)
}.

Record gstate := mkGS { st : state; gh : ghost }.

Definition gh_step (s : state) (h : ghost) (t : nat) (e : ev) : ghost :=
  match get_thread s t with
  | None => h
  | Some th =>
    match e with
    | ECall _ =>
        mkG (gR h) (ar h) (upd (cl h) t (S (nth t (cl h) 0))) (ldr h) (arrs h) (slp h) (acc h) (wk h) (zret h)
            (stk h) (snap h) (rets h)
    | ETick =>
        match main th with
        | BCas c =>
            if (bstate s =? c)%Z then
              mkG (gR h) (upd (ar h) t (S (nth t (ar h) 0))) (cl h) (ldr h) (t :: arrs h) (slp h) (acc h) (wk h)
                  (zret h) (stk h) (snap h) (rets h)
            else h
        | BReset _ =>
            mkG (S (gR h)) (ar h) (cl h) t [] (tl (arrs h)) [] [] [] (stk h) (snap h) (rets h)
        | PopRead _ _ _ _ =>
            mkG (gR h) (ar h) (cl h) (ldr h) (arrs h) (slp h) (acc h) (wk h) (zret h) (stk h) (stk h) (rets h)
        | PopCas _ _ _ _ x =>
            if onat_eqb (top s) (Some x) then
              mkG (gR h) (ar h) (cl h) (ldr h) (arrs h) (remove Nat.eq_dec x (slp h)) (acc h ++ [x]) (wk h)
                  (zret h) (tl (stk h)) (snap h) (rets h)
            else h
        | WPush _ _ (Some x) =>
            mkG (gR h) (ar h) (cl h) (ldr h) (arrs h) (slp h) (tl (acc h)) (x :: wk h) (zret h) (stk h) (snap h)
                (rets h)
        | _ => h
        end
    | ECbTick =>
        match cb th with
        | CbPushCas tp =>
            if onat_eqb (top s) tp then
              mkG (gR h) (ar h) (cl h) (ldr h) (arrs h) (slp h) (acc h) (wk h) (zret h) (t :: stk h) (snap h)
                  (rets h)
            else h
        | _ => h
        end
    | ERet v =>
        if (v =? 0)%Z then
          mkG (gR h) (ar h) (cl h) (ldr h) (arrs h) (slp h) (acc h) (remove Nat.eq_dec t (wk h)) (t :: zret h)
              (stk h) (snap h) ((t, nth t (cl h) 0, v) :: rets h)
        else
          mkG (gR h) (ar h) (cl h) (ldr h) (arrs h) (slp h) (acc h) (wk h) (zret h) (stk h) (snap h)
              ((t, nth t (cl h) 0, v) :: rets h)
    end
  end.

Definition gstep (g : gstate) (a : nat * ev) : option gstate :=
  match step (st g) a with
  | Some s' => Some (mkGS s' (gh_step (st g) (gh g) (fst a) (snd a)))
  | None => None
  end.

Definition ghost0 (N : nat) : ghost :=
  mkG 0 (repeat 0 N) (repeat 0 N) 0 [] [] [] [] [] [] [] [].

(** N participants, barrier initialised for N *)
Definition ginit (N : nat) (g : gstate) : Prop :=
  1 <= N /\ g = mkGS (init_state N (Z.of_nat N)) (ghost0 N).

Definition minit (N : nat) (s : state) : Prop := 1 <= N /\ s = init_state N (Z.of_nat N).

Lemma gstep_erasure g a g' : gstep g a = Some g' -> step (st g) a = Some (st g').
Proof.
  unfold gstep. destruct (step (st g) a) as [s'|]; intros H; inversion H; reflexivity.
Qed.

Lemma gstep_total g a s' : step (st g) a = Some s' -> exists g', gstep g a = Some g' /\ st g' = s'.
Proof.
  intros H. unfold gstep. rewrite H. eexists; split; reflexivity.
Qed.

(** every reachable model state is the erasure of a reachable ghost state *)
Lemma reachable_lift N s :
  reachable (minit N) step s -> exists g, reachable (ginit N) gstep g /\ st g = s.
Proof.
  intros Hr. induction Hr as [s [H1 ->] | s a s' Hr IH Hst].
  - exists (mkGS (init_state N (Z.of_nat N)) (ghost0 N)). split; auto.
    apply reach_init. split; auto.
  - destruct IH as (g & Hg & <-).
    destruct (gstep_total g a s' Hst) as (g' & Hg' & <-).
    exists g'. split; auto. eapply reach_step; eauto.
Qed.

Lemma reachable_erase N g : reachable (ginit N) gstep g -> reachable (minit N) step (st g).
Proof.
  intros Hr. induction Hr as [g [H1 ->] | g a g' Hr IH Hst].
  - apply reach_init. split; auto.
  - eapply reach_step; eauto. apply gstep_erasure; exact Hst.
Qed.

(** ---- views ---- *)
Definition thr_at (s : state) (u : nat) : thread := nth u (thr s) thread0.
Definition mn (s : state) (u : nat) : pc := main (thr_at s u).
Definition cbk (s : state) (u : nat) : cbpc := cb (thr_at s u).
Definition nx (s : state) (u : nat) : option nat := nth u (nxt s) None.
Definition arv (h : ghost) (u : nat) : nat := nth u (ar h) 0.
Definition clv (h : ghost) (u : nat) : nat := nth u (cl h) 0.

(** pcs of the release phase of the last arriver *)
Definition popping (p : pc) : bool :=
  match p with PopRead _ _ _ _ | PopCas _ _ _ _ _ => true | _ => false end.
Definition releasing (p : pc) : bool :=
  match p with PopRead _ _ _ _ | PopCas _ _ _ _ _ | WPush _ _ _ => true | _ => false end.
(** ... including the not yet delivered return value *)
Definition in_release (p : pc) : bool :=
  match p with PopRead _ _ _ _ | PopCas _ _ _ _ _ | WPush _ _ _ | Done _ => true | _ => false end.

(** number of log entries of call number [k] with value [v] *)
Definition cnt (k : nat) (v : Z) (l : list (nat * nat * Z)) : nat :=
  length (filter (fun e => (Nat.eqb (snd (fst e)) k && (snd e =? v)%Z)%bool) l).

(** ---- the invariant ---- *)
Section Inv.
  Variable N : nat.
  Variable s : state.
  Variable h : ghost.

  Let NZ := Z.of_nat N.
  Let R := gR h.

  (** per-thread clause *)
  Definition T (u : nat) : Prop :=
    let a := arv h u in
    let c := clv h u in
    match mn s u with
    | Idle =>
        cbk s u = CbNone /\ c = a /\ a = R /\ (1 <= R -> u = ldr h \/ In u (zret h))
    | BRead =>
        cbk s u = CbNone /\ c = S a /\ a = R /\ (1 <= R -> u = ldr h \/ In u (zret h))
    | BCas c0 =>
        cbk s u = CbNone /\ c = S a /\ a = R /\ (1 <= R -> u = ldr h \/ In u (zret h)) /\ (c0 < NZ)%Z
    | BReset c0 =>
        cbk s u = CbNone /\ c = a /\ a = S R /\ c0 = (NZ - 1)%Z /\ hd_error (arrs h) = Some u /\
        length (arrs h) = N
    | PopRead _ _ _ _ | PopCas _ _ _ _ _ | WPush _ _ _ =>
        cbk s u = CbNone /\ c = a /\ a = R /\ 1 <= R /\ u = ldr h
    | Done r =>
        cbk s u = CbNone /\ c = a /\ a = R /\ 1 <= R /\
        ((r = 1%Z /\ u = ldr h) \/ (r = 0%Z /\ In u (wk h) /\ u <> ldr h))
    | Susp =>
        c = a /\
        ((a = S R /\ In u (arrs h)) \/ (a = R /\ 1 <= R /\ u <> ldr h /\ (In u (slp h) \/ In u (acc h)))) /\
        match cbk s u with
        | CbNone => In u (stk h) \/ In u (acc h)
        | CbPushRead => ~ In u (stk h) /\ ~ In u (acc h)
        | CbPushCas tp => nx s u = tp /\ ~ In u (stk h) /\ ~ In u (acc h)
        end
    | Excess | AssertFail => False
    end.

  Definition asleep (u : nat) : Prop := u < N /\ mn s u = Susp /\ cbk s u = CbNone.

  (** what the last arriver knows, by its pc *)
  Definition GL : Prop :=
    match mn s (ldr h) with
    | PopRead n i hd tl =>
        n = (NZ - 1)%Z /\ (0 <= i < n)%Z /\ Z.of_nat (length (acc h)) = i /\ arrs h = [] /\ wk h = [] /\
        zret h = [] /\ chain (nxt s) hd (acc h) /\ tl = last_opt (acc h)
    | PopCas n i hd tl x =>
        n = (NZ - 1)%Z /\ (0 <= i < n)%Z /\ Z.of_nat (length (acc h)) = i /\ arrs h = [] /\ wk h = [] /\
        zret h = [] /\ chain (nxt s) hd (acc h) /\ tl = last_opt (acc h) /\
        (exists pre, stk h = pre ++ snap h) /\ hd_error (snap h) = Some x
    | WPush n i cur =>
        n = (NZ - 1)%Z /\ (0 <= i < n)%Z /\ Z.of_nat (length (acc h)) = (n - i)%Z /\ slp h = [] /\
        chain (nxt s) cur (acc h)
    | _ => slp h = [] /\ acc h = []
    end.

  Record Inv : Prop := {
    I_len : length (thr s) = N /\ length (nxt s) = N /\ length (ar h) = N /\ length (cl h) = N /\
            nthr s = NZ /\ 1 <= N;
    I_T : forall u, u < N -> T u;
    I_arrs : bstate s = Z.of_nat (length (arrs h)) /\ NoDup (arrs h) /\
             forall u, In u (arrs h) -> u < N /\ arv h u = S R;
    I_stk : chain (nxt s) (top s) (stk h) /\ NoDup (stk h ++ acc h) /\
            (forall x, In x (stk h) -> asleep x) /\
            (forall x, In x (acc h) -> asleep x /\ arv h x = R);
    I_slp : NoDup (slp h) /\ forall x, In x (slp h) -> x < N /\ mn s x = Susp /\ arv h x = R;
    I_wk : NoDup (wk h) /\ forall x, In x (wk h) -> x < N /\ mn s x = Done 0;
    I_sum : (R = 0 -> slp h = [] /\ acc h = [] /\ wk h = [] /\ zret h = []) /\
            (1 <= R -> length (slp h) + length (acc h) + length (wk h) + length (zret h) = N - 1 /\ ldr h < N);
    I_ldr : 1 <= R -> GL;
    I_log : (forall u k v, In (u, k, v) (rets h) -> 1 <= k <= R /\ (v = 0 \/ v = 1)%Z) /\
            (forall k, 1 <= k < R -> cnt k 1 (rets h) = 1 /\ cnt k 0 (rets h) = N - 1) /\
            (1 <= R -> cnt R 1 (rets h) = (if in_release (mn s (ldr h)) then 0 else 1) /\
                       cnt R 0 (rets h) = length (zret h))
  }.
End Inv.
