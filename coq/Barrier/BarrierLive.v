(** C06, the "every participant returns" half: enabledness and round completion (possibility form).

    - [enabled_or_asleep]: in a reachable state the only thread without an enabled step is a sleeper
      waiting for its wake-up (suspended, callback finished).
    - [pop_cas_fails_only_after_push], [arrival_cas_fails_only_after_cas]: a CAS fails only because a
      competing CAS succeeded since the read.
    - [settle]: from EVERY reachable state there is a schedule without calls, of length <= 27 N + 3,
      after which every thread is idle or asleep.
    - [round_completes]: if all N participants have entered their k-th wait, that schedule ends in a
      state where all N have returned from it; if nobody has entered wait k+1, the barrier is then in
      its initial state (count 0, empty stack, everybody idle). *)
From Coq Require Import ZArith List Bool Lia Arith.
From MT Require Import Lib.Interleave Barrier.BarrierModel Barrier.BarrierLib Barrier.BarrierGhost
  Barrier.BarrierInv Barrier.BarrierSteps Barrier.BarrierPres Barrier.BarrierProofs.
Import ListNotations.

(** ---- what one step does to the other threads and to [arrs] ---- *)
Lemma nth_upd2_other {A} (l : list A) x t X Y u d :
  u <> t -> nth u (upd (upd l x X) t Y) d = nth u (upd l x X) d.
Proof. intros H. apply nth_upd_neq. auto. Qed.

Lemma step_frame_main s t e s' u :
  step s (t, e) = Some s' -> u <> t -> mn s' u = mn s u \/ mn s u = Susp.
Proof.
  intros H Hu. unfold step, call, tick, cbtick, ret, put, wake in H.
  destruct (get_thread s t) as [th|] eqn:Eg;
    [|destruct e; try discriminate H; destruct (ret_ok s t v); discriminate H].
  assert (Hs : forall s1 X, thr s1 = thr s -> mn (set_thread s1 t X) u = mn s u).
  { intros s1 X E. unfold mn, thr_at. cbn [set_thread thr]. rewrite E. rewrite nth_upd_neq by auto. reflexivity. }
  destruct e.
  - destruct (main th); try discriminate. destruct (cb th); try discriminate. destruct o.
    inversion H. left. apply Hs. reflexivity.
  - destruct (main th) eqn:Em; try discriminate.
    + destruct (bstate s >=? nthr s)%Z; inversion H; left; apply Hs; reflexivity.
    + destruct (bstate s =? c)%Z.
      * destruct (c =? nthr s - 1)%Z.
        -- unfold get_thread in *. cbn [set_bstate thr] in H. rewrite Eg in H. inversion H. left. apply Hs. reflexivity.
        -- inversion H. left. apply Hs. reflexivity.
      * inversion H. left. apply Hs. reflexivity.
    + unfold get_thread in *. cbn [set_bstate thr] in H. rewrite Eg in H. inversion H. left. apply Hs. reflexivity.
    + destruct (top s); inversion H; left; apply Hs; reflexivity.
    + destruct (onat_eqb (top s) (Some x)).
      * destruct tl; unfold get_thread in *; cbn [set_next set_top thr] in H; rewrite Eg in H; inversion H;
          left; apply Hs; reflexivity.
      * inversion H. left. apply Hs. reflexivity.
    + destruct cur as [x|]; [|inversion H; left; apply Hs; reflexivity].
      destruct (get_thread s x) as [thx|] eqn:Ex; [|discriminate].
      destruct (main thx) eqn:Emx; try discriminate.
      destruct (get_thread (set_thread s x (set_main thx (Done 0))) t) as [th2|]; [|discriminate].
      inversion H. unfold mn, thr_at. cbn [set_thread thr]. rewrite nth_upd_neq by auto.
      destruct (Nat.eq_dec u x) as [->|Hx].
      * right. apply get_thread_at in Ex. destruct Ex as [_ Ex]. unfold thr_at in Ex. rewrite Ex. exact Emx.
      * left. rewrite nth_upd_neq by auto. reflexivity.
  - destruct (cb th); try discriminate.
    + inversion H. left. apply Hs. reflexivity.
    + destruct (onat_eqb (top s) t0); inversion H; left; apply Hs; reflexivity.
  - unfold ret_ok in H. rewrite Eg in H. destruct (main th); try discriminate.
    destruct (v =? r)%Z; [|discriminate]. inversion H. left. apply Hs. reflexivity.
Qed.

Lemma mn_set_self s1 s t X : thr s1 = thr s -> t < length (thr s) -> mn (set_thread s1 t X) t = main X.
Proof.
  intros E Hl. unfold mn, thr_at. cbn [set_thread thr]. rewrite E. rewrite nth_upd_eq by auto. reflexivity.
Qed.

Lemma gstep_frame_arrs g t e g' :
  gstep g (t, e) = Some g' ->
  (arrs (gh g') = arrs (gh g) /\ forall c, mn (st g) t = BReset c -> exists c', mn (st g') t = BReset c') \/
  (exists c, mn (st g) t = BCas c /\ bstate (st g) = c /\ arrs (gh g') = t :: arrs (gh g) /\
             (c = nthr (st g) - 1 -> mn (st g') t = BReset c)%Z) \/
  arrs (gh g') = [].
Proof.
  intros H. unfold gstep in H. destruct (step (st g) (t, e)) as [s'|] eqn:Es; [|discriminate].
  inversion H; subst g'. clear H. cbn [st gh fst snd]. set (s := st g) in *. set (h := gh g) in *.
  unfold step, call, tick, cbtick, ret, put, wake in Es. unfold gh_step.
  destruct (get_thread s t) as [th|] eqn:Eg;
    [|destruct e; try discriminate Es; destruct (ret_ok s t v); discriminate Es].
  pose proof (get_thread_at _ _ _ Eg) as [Hlt Hth].
  assert (Hmn : mn s t = main th) by (unfold mn; rewrite Hth; reflexivity).
  assert (Hkeep : forall s1 X, thr s1 = thr s -> main X = main th ->
                  forall c, mn s t = BReset c -> exists c', mn (set_thread s1 t X) t = BReset c').
  { intros s1 X E EX c Hc. rewrite (mn_set_self s1 s) by auto. rewrite EX, <- Hmn. eauto. }
  assert (Hno : forall p, (forall c, main th <> BReset c) -> forall c, mn s t = BReset c -> exists c', p = BReset c').
  { intros p Hn c Hc. exfalso. apply (Hn c). congruence. }
  destruct e.
  - left. split; [reflexivity|]. destruct (main th) eqn:Em; try discriminate. apply Hno. intros c. discriminate.
  - destruct (main th) eqn:Em; try discriminate.
    + left. split; [reflexivity|]. apply Hno. intros c. discriminate.
    + destruct (Z.eqb_spec (bstate s) c) as [Eb|Eb].
      * right. left. exists c. repeat split; auto. intros Ec. rewrite Ec in Es. rewrite Z.eqb_refl in Es.
        unfold get_thread in *. cbn [set_bstate thr] in Es. rewrite Eg in Es. inversion Es.
        rewrite (mn_set_self _ s) by auto. cbn [set_main main]. congruence.
      * left. split; [reflexivity|]. apply Hno. intros c0. discriminate.
    + right. right. reflexivity.
    + left. split; [reflexivity|]. apply Hno. intros c. discriminate.
    + left. split; [destruct (onat_eqb (top s) (Some x)); reflexivity|]. apply Hno. intros c. discriminate.
    + left. split; [destruct cur; reflexivity|]. apply Hno. intros c. discriminate.
  - left. destruct (cb th) eqn:Ec; try discriminate.
    + split; [reflexivity|]. inversion Es. apply Hkeep; reflexivity.
    + destruct (onat_eqb (top s) t0); (split; [reflexivity|]); inversion Es; apply Hkeep; reflexivity.
  - left. unfold ret_ok in Es. rewrite Eg in Es. destruct (main th) eqn:Em; try discriminate.
    split; [destruct (v =? 0)%Z; reflexivity|]. apply Hno. intros c. discriminate.
Qed.

(** ---- the count is N only while the last arriver sits between its CAS and the reset ---- *)
Definition J (N : nat) (g : gstate) : Prop :=
  length (arrs (gh g)) = N -> exists c, mn (st g) (hd 0 (arrs (gh g))) = BReset c.

Lemma J_reachable N g : greach N g -> J N g.
Proof.
  intros Hr. induction Hr as [g [HN ->] | g a g' Hr IH Hst].
  - unfold J. cbn. intros E. lia.
  - pose proof (inv_reachable _ _ Hr) as HI. destruct a as [t e].
    pose proof (gstep_erasure _ _ _ Hst) as Hms.
    destruct (I_len _ _ _ HI) as (_ & _ & _ & _ & L5 & L6).
    destruct (gstep_frame_arrs _ _ _ _ Hst) as [[Ea Hk]|[(c & Hc & Hb & Ea & Hl)|Ea]]; unfold J; rewrite Ea.
    + intros El. destruct (IH El) as [c Hc]. destruct (Nat.eq_dec (hd 0 (arrs (gh g))) t) as [E|E].
      * rewrite E in *. apply (Hk c Hc).
      * destruct (step_frame_main _ _ _ _ _ Hms E) as [E2|E2]; [rewrite E2; eauto|congruence].
    + intros El. cbn [hd]. exists c. apply Hl. destruct (I_arrs _ _ _ HI) as (A1 & _).
      cbn [length] in El. lia.
    + cbn [length]. intros E. lia.
Qed.

(** ---- the steps as equations ---- *)
Section Equations.
  Variable s : state.
  Variable t : nat.
  Variable th : thread.
  Hypothesis Hg : get_thread s t = Some th.

  Lemma E_call : main th = Idle -> cb th = CbNone ->
    step s (t, ECall Wait) = Some (set_thread s t (set_main th BRead)).
  Proof. intros H1 H2. cbn [step]. unfold call. rewrite Hg, H1, H2. reflexivity. Qed.

  Lemma E_bread : main th = BRead -> (bstate s < nthr s)%Z ->
    step s (t, ETick) = Some (set_thread s t (set_main th (BCas (bstate s)))).
  Proof.
    intros H1 H2. cbn [step]. unfold tick. rewrite Hg, H1.
    destruct (bstate s >=? nthr s)%Z eqn:E; [apply Z.geb_le in E; lia|]. apply put_some; auto.
  Qed.

  Lemma E_bcas_ok c : main th = BCas c -> cb th = CbNone -> bstate s = c ->
    step s (t, ETick) =
    Some (set_thread (set_bstate s (c + 1)) t
            (if (c =? nthr s - 1)%Z then {| main := BReset c; cb := CbNone |} else {| main := Susp; cb := CbPushRead |})).
  Proof.
    intros H1 H2 H3. cbn [step]. unfold tick. rewrite Hg, H1. rewrite (proj2 (Z.eqb_eq _ _) H3).
    destruct (c =? nthr s - 1)%Z; [|reflexivity].
    unfold put, get_thread in *. cbn [set_bstate thr]. rewrite Hg. unfold set_main. rewrite H2. reflexivity.
  Qed.

  Lemma E_bcas_fail c : main th = BCas c -> bstate s <> c ->
    step s (t, ETick) = Some (set_thread s t (set_main th BRead)).
  Proof.
    intros H1 H3. cbn [step]. unfold tick. rewrite Hg, H1. rewrite (proj2 (Z.eqb_neq _ _) H3). apply put_some; auto.
  Qed.

  Lemma E_breset c : main th = BReset c ->
    step s (t, ETick) = Some (set_thread (set_bstate s 0) t (set_main th (after_pops c 0 None None))).
  Proof.
    intros H1. cbn [step]. unfold tick. rewrite Hg, H1. unfold put, get_thread in *. cbn [set_bstate thr].
    rewrite Hg. reflexivity.
  Qed.

  Lemma E_popread n i hd tl : main th = PopRead n i hd tl ->
    step s (t, ETick) =
    Some (set_thread s t (set_main th (match top s with None => PopRead n i hd tl | Some x => PopCas n i hd tl x end))).
  Proof.
    intros H1. cbn [step]. unfold tick. rewrite Hg, H1. destruct (top s); apply put_some; auto.
  Qed.

  Definition popped (tl : option nat) (x : nat) : state :=
    let s1 := set_next (set_top s (get_next s x)) x None in
    match tl with Some y => set_next s1 y (Some x) | None => s1 end.

  Lemma popped_thr tl x : thr (popped tl x) = thr s.
  Proof. unfold popped. destruct tl; reflexivity. Qed.

  Lemma E_popcas_ok n i hd tl x : main th = PopCas n i hd tl x -> top s = Some x ->
    step s (t, ETick) =
    Some (set_thread (popped tl x) t
            (set_main th (after_pops n (i + 1) (match tl with Some _ => hd | None => Some x end) (Some x)))).
  Proof.
    intros H1 H2. cbn [step]. unfold tick. rewrite Hg, H1. rewrite (proj2 (onat_eqb_true _ _) H2).
    unfold put, popped. cbn zeta. unfold get_thread in *. destruct tl; cbn [set_next set_top thr]; rewrite Hg; reflexivity.
  Qed.

  Lemma E_popcas_fail n i hd tl x : main th = PopCas n i hd tl x -> top s <> Some x ->
    step s (t, ETick) = Some (set_thread s t (set_main th (PopRead n i hd tl))).
  Proof.
    intros H1 H2. cbn [step]. unfold tick. rewrite Hg, H1.
    destruct (onat_eqb (top s) (Some x)) eqn:E; [apply onat_eqb_true in E; congruence|]. apply put_some; auto.
  Qed.

  Lemma E_wpush n i x thx : main th = WPush n i (Some x) -> x <> t -> get_thread s x = Some thx -> main thx = Susp ->
    step s (t, ETick) =
    Some (set_thread (set_thread s x (set_main thx (Done 0))) t
            (set_main th (if (i + 1 <? n)%Z then WPush n (i + 1) (get_next s x) else Done SERIAL))).
  Proof.
    intros H1 H2 H3 H4. cbn [step]. unfold tick. rewrite Hg, H1. unfold wake. rewrite H3, H4.
    unfold put, get_thread in *. cbn [set_thread thr].
    pose proof (nth_error_some_lt _ _ _ Hg) as [Hl Hn].
    rewrite nth_error_nth with (d := thread0) by (rewrite upd_length; exact Hl).
    rewrite nth_upd_neq by auto. rewrite Hn. reflexivity.
  Qed.

  Lemma E_cbread : cb th = CbPushRead ->
    step s (t, ECbTick) = Some (set_thread (set_next s t (top s)) t (set_cb th (CbPushCas (top s)))).
  Proof. intros H1. cbn [step]. unfold cbtick. rewrite Hg, H1. reflexivity. Qed.

  Lemma E_cbcas_ok tp : cb th = CbPushCas tp -> top s = tp ->
    step s (t, ECbTick) = Some (set_thread (set_top s (Some t)) t (set_cb th CbNone)).
  Proof.
    intros H1 H2. cbn [step]. unfold cbtick. rewrite Hg, H1. rewrite (proj2 (onat_eqb_true _ _) H2). reflexivity.
  Qed.

  Lemma E_cbcas_fail tp : cb th = CbPushCas tp -> top s <> tp ->
    step s (t, ECbTick) = Some (set_thread s t (set_cb th CbPushRead)).
  Proof.
    intros H1 H2. cbn [step]. unfold cbtick. rewrite Hg, H1.
    destruct (onat_eqb (top s) tp) eqn:E; [apply onat_eqb_true in E; congruence|]. reflexivity.
  Qed.

  Lemma E_ret r : main th = Done r -> step s (t, ERet r) = Some (set_thread s t (set_main th Idle)).
  Proof.
    intros H1. cbn [step]. unfold ret, ret_ok. rewrite Hg, H1, Z.eqb_refl. apply put_some; auto.
  Qed.
End Equations.

Lemma get_set_eq s t X : t < length (thr s) -> get_thread (set_thread s t X) t = Some X.
Proof.
  intros H. unfold get_thread. cbn [set_thread thr].
  rewrite nth_error_nth with (d := X) by (rewrite upd_length; exact H). rewrite nth_upd_eq by auto. reflexivity.
Qed.

(** ---- enabledness ---- *)
Lemma room_to_arrive N g t :
  greach N g -> t < N -> arv (gh g) t = gR (gh g) -> (bstate (st g) < nthr (st g))%Z.
Proof.
  intros Hr Ht Ha. apply inv_reachable in Hr.
  destruct Hr as [(L1 & L2 & L3 & L4 & L5 & L6) _ (A1 & A2 & A3) _ _ _ _ _ _].
  assert (Hn : ~ In t (arrs (gh g))) by (intros Hin; apply A3 in Hin; lia).
  pose proof (nodup_missing_lt (arrs (gh g)) N t A2 (fun x Hx => proj1 (A3 x Hx)) Ht Hn). lia.
Qed.

Lemma wpush_target N g t n i cur :
  greach N g -> t < N -> mn (st g) t = WPush n i cur ->
  exists x, cur = Some x /\ x <> t /\ x < N /\ mn (st g) x = Susp /\ cbk (st g) x = CbNone.
Proof.
  intros Hr Ht Hm. apply inv_reachable in Hr.
  pose proof (I_T _ _ _ Hr t Ht) as HT. unfold T in HT. rewrite Hm in HT. destruct HT as (_ & _ & _ & HR & Hl).
  pose proof (I_ldr _ _ _ Hr HR) as HG. unfold GL in HG. rewrite <- Hl, Hm in HG.
  destruct HG as (G1 & G2 & G3 & G4 & G5). destruct (acc (gh g)) as [|x r] eqn:Ea; cbn [chain length] in *; [lia|].
  destruct G5 as [-> _]. exists x. split; auto.
  destruct (I_stk _ _ _ Hr) as (_ & _ & _ & S4). rewrite Ea in S4.
  destruct (S4 x (or_introl eq_refl)) as ((B1 & B2 & B3) & _). repeat split; auto. intros ->. congruence.
Qed.

Theorem enabled_or_asleep N g t :
  greach N g -> t < N ->
  (mn (st g) t = Susp /\ cbk (st g) t = CbNone) \/ exists e s', step (st g) (t, e) = Some s'.
Proof.
  intros Hr Ht. pose proof (inv_reachable _ _ Hr) as HI.
  destruct (I_len _ _ _ HI) as (L1 & _).
  assert (Hg : get_thread (st g) t = Some (thr_at (st g) t)) by (apply get_thread_lt; lia).
  pose proof (I_T _ _ _ HI t Ht) as HT. unfold T in HT.
  destruct (cbk (st g) t) eqn:Ec.
  2: { right. exists ECbTick. eexists. eapply E_cbread; eauto. }
  2: { right. exists ECbTick. destruct (onat_eqb (top (st g)) t0) eqn:E.
       - apply onat_eqb_true in E. eexists. eapply E_cbcas_ok; eauto.
       - eexists. eapply E_cbcas_fail; eauto. intros E2. apply onat_eqb_true in E2. congruence. }
  destruct (mn (st g) t) eqn:Em; try contradiction.
  - right. exists (ECall Wait). eexists. eapply E_call; eauto.
  - right. exists ETick. eexists. eapply E_bread; eauto. eapply room_to_arrive; eauto. tauto.
  - right. exists ETick. destruct (Z.eq_dec (bstate (st g)) c) as [E|E]; eexists.
    + eapply E_bcas_ok; eauto.
    + eapply E_bcas_fail; eauto.
  - right. exists ETick. eexists. eapply E_breset; eauto.
  - right. exists ETick. eexists. eapply E_popread; eauto.
  - right. exists ETick. destruct (onat_eqb (top (st g)) (Some x)) eqn:E.
    + apply onat_eqb_true in E. eexists. eapply E_popcas_ok; eauto.
    + eexists. eapply E_popcas_fail; eauto. intros E2. apply onat_eqb_true in E2. congruence.
  - right. exists ETick. destruct (wpush_target N g t n i cur Hr Ht Em) as (x & -> & Hx1 & Hx2 & Hx3 & Hx4).
    eexists. eapply E_wpush; eauto. apply get_thread_lt; lia.
  - left. auto.
  - right. exists (ERet r). eexists. eapply E_ret; eauto.
Qed.

(** a failed CAS is always due to a competing successful CAS since the read *)
Lemma pop_cas_fails_only_after_push N g t n i hd tl x :
  greach N g -> t < N -> mn (st g) t = PopCas n i hd tl x -> top (st g) <> Some x ->
  exists p pre, stk (gh g) = (p :: pre) ++ snap (gh g) /\ top (st g) = Some p.
Proof.
  intros Hr Ht Hm Htop. destruct (pop_cas_aba_free N g t n i hd tl x Hr Ht Hm) as ((pre & Hp) & Hs & _).
  apply inv_reachable in Hr. destruct (I_stk _ _ _ Hr) as (S1 & _).
  destruct pre as [|p pre].
  - exfalso. apply Htop. cbn [app] in Hp. rewrite Hp in S1.
    destruct (snap (gh g)) as [|y r]; cbn [hd_error chain] in *; [discriminate|]. destruct S1 as [S1 _]. congruence.
  - exists p, pre. split; auto. rewrite Hp in S1. cbn [app chain] in S1. tauto.
Qed.

(** ---- a potential that every macro-step of a non-settled state decreases ---- *)
Definition pot (th : thread) : nat :=
  match main th with
  | Idle => 0
  | Done _ => 1
  | BRead | BCas _ => 3
  | BReset c => 2 * Z.to_nat c + 2
  | PopRead n i _ _ | PopCas n i _ _ _ => Z.to_nat (n - i) + Z.to_nat n + 1
  | WPush n i _ => Z.to_nat (n - i) + 1
  | Susp => match cb th with CbNone => 1 | _ => 2 end
  | Excess | AssertFail => 0
  end.

Definition arriving (th : thread) : bool :=
  match main th with BRead | BCas _ => true | _ => false end.

Definition sumpot (s : state) : nat := list_sum (map pot (thr s)).
Definition g2 (N : nat) (s : state) : nat := if existsb arriving (thr s) then 2 * N + 1 else 0.
Definition Phi (N : nat) (s : state) : nat := sumpot s + g2 N s.

Definition settled_th (th : thread) : bool :=
  match main th, cb th with
  | Idle, _ => true
  | Susp, CbNone => true
  | _, _ => false
  end.

Lemma sum_upd {A} (f : A -> nat) l t x d :
  t < length l -> list_sum (map f (upd l t x)) + f (nth t l d) = list_sum (map f l) + f x.
Proof.
  revert t; induction l as [|y r IH]; intros [|t] H; cbn [length upd map list_sum fold_right nth] in *; try lia.
  specialize (IH t ltac:(lia)). unfold list_sum in IH. lia.
Qed.

Lemma existsb_upd_mono {A} (p : A -> bool) l t x d :
  t < length l -> (p x = true -> p (nth t l d) = true) -> existsb p (upd l t x) = true -> existsb p l = true.
Proof.
  revert t; induction l as [|y r IH]; intros [|t] H Hp E; cbn [length upd existsb nth] in *; try lia.
  - apply orb_true_iff in E. apply orb_true_iff. destruct E as [E|E]; auto.
  - apply orb_true_iff in E. apply orb_true_iff. destruct E as [E|E]; auto. right. apply (IH t); auto. lia.
Qed.

Lemma existsb_nth_true {A} (p : A -> bool) l t d : t < length l -> p (nth t l d) = true -> existsb p l = true.
Proof.
  intros H Hp. apply existsb_exists. exists (nth t l d). split; auto. apply nth_In; auto.
Qed.

Lemma forallb_false_nth {A} (p : A -> bool) l d :
  forallb p l = false -> exists i, i < length l /\ p (nth i l d) = false.
Proof.
  induction l as [|y r IH]; intros H; cbn [forallb] in H; [discriminate|].
  apply andb_false_iff in H. destruct H as [H|H].
  - exists 0. cbn [length nth]. split; auto. lia.
  - destruct (IH H) as (i & Hi & Hp). exists (S i). cbn [length nth]. split; auto. lia.
Qed.

Lemma Phi_set N s sa t X :
  thr sa = thr s -> t < length (thr s) -> (arriving X = true -> arriving (thr_at s t) = true) ->
  Phi N (set_thread sa t X) + pot (thr_at s t) <= Phi N s + pot X.
Proof.
  intros E Hl Ha. unfold Phi, sumpot, g2, thr_at in *. cbn [set_thread thr]. rewrite E.
  pose proof (sum_upd pot (thr s) t X thread0 Hl) as Hs.
  destruct (existsb arriving (upd (thr s) t X)) eqn:E1.
  - rewrite (existsb_upd_mono arriving (thr s) t X thread0 Hl Ha E1). lia.
  - destruct (existsb arriving (thr s)); lia.
Qed.

Lemma sumpot_set s sa t X :
  thr sa = thr s -> t < length (thr s) -> sumpot (set_thread sa t X) + pot (thr_at s t) = sumpot s + pot X.
Proof.
  intros E Hl. unfold sumpot, thr_at. cbn [set_thread thr]. rewrite E. apply sum_upd; auto.
Qed.

Lemma thr_at_set_same sa s t X : thr sa = thr s -> t < length (thr s) -> thr_at (set_thread sa t X) t = X.
Proof. intros E Hl. unfold thr_at. cbn [set_thread thr]. rewrite E. apply nth_upd_eq; auto. Qed.

Lemma thr_at_set_other sa s t X u : thr sa = thr s -> u <> t -> thr_at (set_thread sa t X) u = thr_at s u.
Proof. intros E Hu. unfold thr_at. cbn [set_thread thr]. rewrite E. apply nth_upd_neq; auto. Qed.

Definition nocall (l : list (nat * ev)) : Prop :=
  Forall (fun a => match snd a with ECall _ => False | _ => True end) l.

Lemma mrun_lift l : forall g s', mrun l (st g) = Some s' -> exists g', grun l g = Some g' /\ st g' = s'.
Proof.
  induction l as [|a r IH]; intros g s' H; cbn [mrun grun] in *.
  - inversion H. eauto.
  - destruct (step (st g) a) as [s1|] eqn:E; [|discriminate].
    destruct (gstep_total g a s1 E) as (g1 & Hg1 & Hs1). rewrite Hg1. apply IH. rewrite Hs1. exact H.
Qed.

Lemma mrun_app l1 : forall l2 s s1 s2, mrun l1 s = Some s1 -> mrun l2 s1 = Some s2 -> mrun (l1 ++ l2) s = Some s2.
Proof.
  induction l1 as [|a r IH]; intros l2 s s1 s2 H1 H2; cbn [mrun app] in *.
  - inversion H1; subst. exact H2.
  - destruct (step s a) as [sa|]; [|discriminate]. eapply IH; eauto.
Qed.

Definition prog (N : nat) (s : state) : Prop :=
  exists sched s', 1 <= length sched <= 3 /\ nocall sched /\ mrun sched s = Some s' /\ Phi N s' < Phi N s.

Lemma nocall_K t : match snd (K t) with ECall _ => False | _ => True end. Proof. exact I. Qed.
Lemma nocall_B t : match snd (B t) with ECall _ => False | _ => True end. Proof. exact I. Qed.
Lemma nocall_R t v : match snd (Rv t v) with ECall _ => False | _ => True end. Proof. exact I. Qed.

Lemma not_arriving_susp X Y : main X = Susp -> arriving X = true -> arriving Y = true.
Proof. unfold arriving. intros ->. discriminate. Qed.

(** a suspended thread with a pending callback pushes itself: read + CAS, nobody in between *)
Lemma M_push_read N s t th :
  get_thread s t = Some th -> main th = Susp -> cb th = CbPushRead ->
  exists s2, mrun [B t; B t] s = Some s2 /\ Phi N s2 < Phi N s.
Proof.
  intros Hg Hm Hc. pose proof (get_thread_at _ _ _ Hg) as [Hl Hth].
  set (X1 := set_cb th (CbPushCas (top s))). set (s1 := set_thread (set_next s t (top s)) t X1).
  assert (E1 : step s (B t) = Some s1) by (apply E_cbread; auto).
  assert (Hg1 : get_thread s1 t = Some X1) by (apply get_set_eq; exact Hl).
  set (X2 := set_cb X1 CbNone). set (s2 := set_thread (set_top s1 (Some t)) t X2).
  assert (E2 : step s1 (B t) = Some s2) by (eapply E_cbcas_ok; eauto; reflexivity).
  exists s2. split; [cbn [mrun]; rewrite E1, E2; reflexivity|].
  pose proof (Phi_set N s (set_next s t (top s)) t X1 eq_refl Hl (not_arriving_susp X1 _ Hm)) as P1.
  assert (Hl1 : t < length (thr s1)) by (unfold s1; cbn [set_thread thr set_next]; rewrite upd_length; exact Hl).
  pose proof (Phi_set N s1 (set_top s1 (Some t)) t X2 eq_refl Hl1 (not_arriving_susp X2 _ Hm)) as P2.
  rewrite Hth in P1. replace (thr_at s1 t) with X1 in P2 by (symmetry; apply (thr_at_set_same _ s); auto).
  assert (pot th = 2) by (unfold pot; rewrite Hm, Hc; reflexivity).
  assert (pot X1 = 2) by (unfold pot; cbn [X1 set_cb main cb]; rewrite Hm; reflexivity).
  assert (pot X2 = 1) by (unfold pot; cbn [X2 X1 set_cb main cb]; rewrite Hm; reflexivity).
  fold s1 in P1. fold s2 in P2. lia.
Qed.

Lemma M_push N s t th :
  get_thread s t = Some th -> main th = Susp -> cb th <> CbNone -> prog N s.
Proof.
  intros Hg Hm Hc. pose proof (get_thread_at _ _ _ Hg) as [Hl Hth].
  destruct (cb th) as [| |tp] eqn:Ec; [congruence| |].
  - destruct (M_push_read N s t th Hg Hm Ec) as (s2 & H1 & H2).
    exists [B t; B t], s2. repeat split; auto; cbn [length]; try lia. repeat constructor.
  - destruct (onat_eqb (top s) tp) eqn:Eo.
    + apply onat_eqb_true in Eo. set (X := set_cb th CbNone). set (s1 := set_thread (set_top s (Some t)) t X).
      assert (E1 : step s (B t) = Some s1) by (eapply E_cbcas_ok; eauto).
      exists [B t], s1. repeat split; cbn [length]; try lia; [repeat constructor|cbn [mrun]; rewrite E1; reflexivity|].
      pose proof (Phi_set N s (set_top s (Some t)) t X eq_refl Hl (not_arriving_susp X _ Hm)) as P1.
      rewrite Hth in P1. fold s1 in P1.
      assert (pot th = 2) by (unfold pot; rewrite Hm, Ec; reflexivity).
      assert (pot X = 1) by (unfold pot; cbn [X set_cb main cb]; rewrite Hm; reflexivity). lia.
    + assert (Hne : top s <> tp) by (intros E; apply onat_eqb_true in E; congruence).
      set (X := set_cb th CbPushRead). set (s1 := set_thread s t X).
      assert (E1 : step s (B t) = Some s1) by (eapply E_cbcas_fail; eauto).
      assert (Hg1 : get_thread s1 t = Some X) by (apply get_set_eq; exact Hl).
      destruct (M_push_read N s1 t X Hg1 Hm eq_refl) as (s2 & H1 & H2).
      exists ([B t] ++ [B t; B t]), s2. repeat split; cbn [length app]; try lia; [repeat constructor| |].
      * eapply (mrun_app [B t]); [cbn [mrun]; rewrite E1; reflexivity|exact H1].
      * pose proof (Phi_set N s s t X eq_refl Hl (not_arriving_susp X _ Hm)) as P1.
        rewrite Hth in P1. fold s1 in P1.
        assert (pot th = 2) by (unfold pot; rewrite Hm, Ec; reflexivity).
        assert (pot X = 2) by (unfold pot; cbn [X set_cb main cb]; rewrite Hm; reflexivity). lia.
Qed.

Lemma not_arriving X Y : arriving X = false -> arriving X = true -> arriving Y = true.
Proof. intros ->. discriminate. Qed.

Lemma M_ret N s t th r : get_thread s t = Some th -> main th = Done r -> prog N s.
Proof.
  intros Hg Hm. pose proof (get_thread_at _ _ _ Hg) as [Hl Hth].
  set (X := set_main th Idle). set (s1 := set_thread s t X).
  assert (E1 : step s (Rv t r) = Some s1) by (eapply E_ret; eauto).
  exists [Rv t r], s1. repeat split; cbn [length]; try lia; [repeat constructor|cbn [mrun]; rewrite E1; reflexivity|].
  pose proof (Phi_set N s s t X eq_refl Hl (not_arriving X _ eq_refl)) as P1. rewrite Hth in P1. fold s1 in P1.
  assert (pot th = 1) by (unfold pot; rewrite Hm; reflexivity).
  assert (pot X = 0) by reflexivity. lia.
Qed.

Lemma M_reset N s t th c : get_thread s t = Some th -> main th = BReset c -> prog N s.
Proof.
  intros Hg Hm. pose proof (get_thread_at _ _ _ Hg) as [Hl Hth].
  set (X := set_main th (after_pops c 0 None None)). set (s1 := set_thread (set_bstate s 0) t X).
  assert (E1 : step s (K t) = Some s1) by (eapply E_breset; eauto).
  exists [K t], s1. repeat split; cbn [length]; try lia; [repeat constructor|cbn [mrun]; rewrite E1; reflexivity|].
  assert (Hna : arriving X = false).
  { unfold arriving, X, after_pops. cbn [set_main main]. destruct (0 <? c)%Z; reflexivity. }
  pose proof (Phi_set N s (set_bstate s 0) t X eq_refl Hl (not_arriving X _ Hna)) as P1. rewrite Hth in P1. fold s1 in P1.
  assert (pot th = 2 * Z.to_nat c + 2) by (unfold pot; rewrite Hm; reflexivity).
  assert (pot X < 2 * Z.to_nat c + 2).
  { unfold pot, X, after_pops. cbn [set_main main]. destruct (Z.ltb_spec 0 c); cbn [main]; lia. }
  lia.
Qed.

Lemma M_wpush N s t th n i x thx :
  get_thread s t = Some th -> main th = WPush n i (Some x) -> (0 <= i < n)%Z ->
  x <> t -> get_thread s x = Some thx -> main thx = Susp -> cb thx = CbNone -> prog N s.
Proof.
  intros Hg Hm Hi Hx Hgx Hmx Hcx.
  pose proof (get_thread_at _ _ _ Hg) as [Hl Hth]. pose proof (get_thread_at _ _ _ Hgx) as [Hlx Hthx].
  set (Xx := set_main thx (Done 0)). set (sa := set_thread s x Xx).
  set (X := set_main th (if (i + 1 <? n)%Z then WPush n (i + 1) (get_next s x) else Done SERIAL)).
  set (s1 := set_thread sa t X).
  assert (E1 : step s (K t) = Some s1) by (eapply E_wpush; eauto).
  exists [K t], s1. repeat split; cbn [length]; try lia; [repeat constructor|cbn [mrun]; rewrite E1; reflexivity|].
  pose proof (Phi_set N s s x Xx eq_refl Hlx (not_arriving Xx _ eq_refl)) as P1. rewrite Hthx in P1. fold sa in P1.
  assert (Hla : t < length (thr sa)) by (unfold sa; cbn [set_thread thr]; rewrite upd_length; exact Hl).
  assert (Hna : arriving X = false).
  { unfold arriving, X. cbn [set_main main]. destruct (i + 1 <? n)%Z; reflexivity. }
  pose proof (Phi_set N sa sa t X eq_refl Hla (not_arriving X _ Hna)) as P2. fold s1 in P2.
  replace (thr_at sa t) with th in P2 by (unfold sa; rewrite (thr_at_set_other s s) by auto; auto).
  assert (pot thx = 1) by (unfold pot; rewrite Hmx, Hcx; reflexivity).
  assert (pot Xx = 1) by reflexivity.
  assert (pot th = Z.to_nat (n - i) + 1) by (unfold pot; rewrite Hm; reflexivity).
  assert (pot X < Z.to_nat (n - i) + 1).
  { unfold pot, X. cbn [set_main main]. destruct (Z.ltb_spec (i + 1) n); cbn [main]; lia. }
  lia.
Qed.

(** the popper: CAS with top still equal to the value read *)
Lemma M_pop_cas N s t th n i hd tl x :
  get_thread s t = Some th -> main th = PopCas n i hd tl x -> (0 <= i < n)%Z -> top s = Some x ->
  exists s1, step s (K t) = Some s1 /\ Phi N s1 < Phi N s.
Proof.
  intros Hg Hm Hi Htop. pose proof (get_thread_at _ _ _ Hg) as [Hl Hth].
  set (X := set_main th (after_pops n (i + 1) (match tl with Some _ => hd | None => Some x end) (Some x))).
  set (s1 := set_thread (popped s tl x) t X).
  assert (E1 : step s (K t) = Some s1) by (eapply E_popcas_ok; eauto).
  exists s1. split; auto.
  assert (Hna : arriving X = false).
  { unfold arriving, X, after_pops. cbn [set_main main]. destruct (i + 1 <? n)%Z; [reflexivity|]. destruct (0 <? n)%Z; reflexivity. }
  pose proof (Phi_set N s (popped s tl x) t X (popped_thr s tl x) Hl (not_arriving X _ Hna)) as P1.
  rewrite Hth in P1. fold s1 in P1.
  assert (pot th = Z.to_nat (n - i) + Z.to_nat n + 1) by (unfold pot; rewrite Hm; reflexivity).
  assert (pot X < Z.to_nat (n - i) + Z.to_nat n + 1).
  { unfold pot, X, after_pops. cbn [set_main main]. destruct (Z.ltb_spec (i + 1) n); cbn [main]; [lia|].
    destruct (Z.ltb_spec 0 n); cbn [main]; lia. }
  lia.
Qed.

Lemma M_pop_read N s t th n i hd tl x :
  get_thread s t = Some th -> main th = PopRead n i hd tl -> (0 <= i < n)%Z -> top s = Some x ->
  exists s2, mrun [K t; K t] s = Some s2 /\ Phi N s2 < Phi N s.
Proof.
  intros Hg Hm Hi Htop. pose proof (get_thread_at _ _ _ Hg) as [Hl Hth].
  set (X := set_main th (PopCas n i hd tl x)). set (s1 := set_thread s t X).
  assert (E1 : step s (K t) = Some s1).
  { unfold K. rewrite (E_popread s t th Hg n i hd tl Hm). rewrite Htop. reflexivity. }
  assert (Hg1 : get_thread s1 t = Some X) by (apply get_set_eq; exact Hl).
  destruct (M_pop_cas N s1 t X n i hd tl x Hg1 eq_refl Hi Htop) as (s2 & E2 & P2).
  exists s2. split; [cbn [mrun]; rewrite E1, E2; reflexivity|].
  pose proof (Phi_set N s s t X eq_refl Hl (not_arriving X _ eq_refl)) as P1. rewrite Hth in P1. fold s1 in P1.
  assert (pot th = pot X) by (unfold pot; rewrite Hm; reflexivity). lia.
Qed.

Lemma M_pop N s t th :
  get_thread s t = Some th -> top s <> None ->
  (exists n i hd tl, main th = PopRead n i hd tl /\ (0 <= i < n)%Z) \/
  (exists n i hd tl x, main th = PopCas n i hd tl x /\ (0 <= i < n)%Z) ->
  prog N s.
Proof.
  intros Hg Htop Hm. pose proof (get_thread_at _ _ _ Hg) as [Hl Hth].
  destruct (top s) as [y|] eqn:Et; [|congruence].
  destruct Hm as [(n & i & hd & tl & Hm & Hi)|(n & i & hd & tl & x & Hm & Hi)].
  - destruct (M_pop_read N s t th n i hd tl y Hg Hm Hi Et) as (s2 & H1 & H2).
    exists [K t; K t], s2. repeat split; auto; cbn [length]; try lia. repeat constructor.
  - destruct (Nat.eq_dec y x) as [->|Hne].
    + destruct (M_pop_cas N s t th n i hd tl x Hg Hm Hi Et) as (s1 & E1 & P1).
      exists [K t], s1. repeat split; auto; cbn [length]; try lia; [repeat constructor|cbn [mrun]; rewrite E1; reflexivity].
    + set (X := set_main th (PopRead n i hd tl)). set (s1 := set_thread s t X).
      assert (E1 : step s (K t) = Some s1) by (eapply E_popcas_fail; eauto; rewrite Et; congruence).
      assert (Hg1 : get_thread s1 t = Some X) by (apply get_set_eq; exact Hl).
      destruct (M_pop_read N s1 t X n i hd tl y Hg1 eq_refl Hi Et) as (s2 & H1 & H2).
      exists ([K t] ++ [K t; K t]), s2. repeat split; cbn [length app]; try lia; [repeat constructor| |].
      * eapply (mrun_app [K t]); [cbn [mrun]; rewrite E1; reflexivity|exact H1].
      * pose proof (Phi_set N s s t X eq_refl Hl (not_arriving X _ eq_refl)) as P1. rewrite Hth in P1. fold s1 in P1.
        assert (pot th = pot X) by (unfold pot; rewrite Hm; reflexivity). lia.
Qed.

(** arrival: either the potential drops, or the thread became the last arriver (then the caller shows
    that nobody is arriving any more, so the reserve [g2] is released) *)
Definition arr_res (N : nat) (s : state) (t : nat) (s' : state) : Prop :=
  Phi N s' < Phi N s \/
  (exists c, mn s' t = BReset c /\ c = (nthr s - 1)%Z /\ sumpot s' + 3 = sumpot s + 2 * Z.to_nat c + 2 /\
             g2 N s = 2 * N + 1).

Lemma g2_arriving N s t : t < length (thr s) -> arriving (thr_at s t) = true -> g2 N s = 2 * N + 1.
Proof.
  intros Hl Ha. unfold g2. rewrite (existsb_nth_true arriving (thr s) t thread0 Hl Ha). reflexivity.
Qed.

Lemma M_arr_cas N s t th c :
  get_thread s t = Some th -> main th = BCas c -> cb th = CbNone -> bstate s = c ->
  exists s1, step s (K t) = Some s1 /\ arr_res N s t s1.
Proof.
  intros Hg Hm Hc Hb. pose proof (get_thread_at _ _ _ Hg) as [Hl Hth].
  set (X := if (c =? nthr s - 1)%Z then {| main := BReset c; cb := CbNone |} else {| main := Susp; cb := CbPushRead |}).
  set (s1 := set_thread (set_bstate s (c + 1)) t X).
  assert (E1 : step s (K t) = Some s1) by (eapply E_bcas_ok; eauto).
  exists s1. split; auto.
  assert (Hp : pot th = 3) by (unfold pot; rewrite Hm; reflexivity).
  assert (Ha : arriving th = true) by (unfold arriving; rewrite Hm; reflexivity).
  unfold arr_res. destruct (Z.eqb_spec c (nthr s - 1)) as [Ec|Ec].
  - right. exists c. split; [|split; [exact Ec|split]].
    + unfold mn, s1. rewrite (thr_at_set_same _ s) by auto. reflexivity.
    + pose proof (sumpot_set s (set_bstate s (c + 1)) t X eq_refl Hl) as P1. rewrite Hth in P1. fold s1 in P1.
      assert (pot X = 2 * Z.to_nat c + 2) by reflexivity. lia.
    + apply (g2_arriving N s t Hl). rewrite Hth. exact Ha.
  - left. pose proof (Phi_set N s (set_bstate s (c + 1)) t X eq_refl Hl (not_arriving X _ eq_refl)) as P1.
    rewrite Hth in P1. fold s1 in P1. assert (pot X = 2) by reflexivity. lia.
Qed.

Lemma arr_res_after N s t s1 s2 :
  Phi N s1 <= Phi N s -> sumpot s1 = sumpot s -> nthr s1 = nthr s -> g2 N s = 2 * N + 1 ->
  arr_res N s1 t s2 -> arr_res N s t s2.
Proof.
  intros H1 H2 H3 H4 [H|(c & A & B & C & D)]; [left; lia|right]. exists c. rewrite <- H3, <- H2. auto.
Qed.

Lemma M_arr_read N s t th :
  get_thread s t = Some th -> main th = BRead -> cb th = CbNone -> (bstate s < nthr s)%Z ->
  exists s2, mrun [K t; K t] s = Some s2 /\ arr_res N s t s2.
Proof.
  intros Hg Hm Hc Hb. pose proof (get_thread_at _ _ _ Hg) as [Hl Hth].
  set (X := set_main th (BCas (bstate s))). set (s1 := set_thread s t X).
  assert (E1 : step s (K t) = Some s1) by (eapply E_bread; eauto).
  assert (Hg1 : get_thread s1 t = Some X) by (apply get_set_eq; exact Hl).
  destruct (M_arr_cas N s1 t X (bstate s) Hg1 eq_refl Hc eq_refl) as (s2 & E2 & R2).
  exists s2. split; [cbn [mrun]; rewrite E1, E2; reflexivity|].
  assert (Ha : arriving th = true) by (unfold arriving; rewrite Hm; reflexivity).
  assert (Hpp : pot th = pot X) by (unfold pot; rewrite Hm; reflexivity).
  apply (arr_res_after N s t s1 s2); auto.
  - pose proof (Phi_set N s s t X eq_refl Hl) as P1. rewrite Hth in P1. fold s1 in P1. specialize (P1 (fun _ => Ha)). lia.
  - pose proof (sumpot_set s s t X eq_refl Hl) as P1. rewrite Hth in P1. fold s1 in P1. lia.
  - apply (g2_arriving N s t Hl). rewrite Hth. exact Ha.
Qed.

Lemma M_arr N s t th :
  get_thread s t = Some th -> arriving th = true -> cb th = CbNone -> (bstate s < nthr s)%Z ->
  exists sched s', 1 <= length sched <= 3 /\ nocall sched /\ mrun sched s = Some s' /\ arr_res N s t s'.
Proof.
  intros Hg Ha Hc Hb. pose proof (get_thread_at _ _ _ Hg) as [Hl Hth].
  unfold arriving in Ha. destruct (main th) eqn:Hm; try discriminate.
  - destruct (M_arr_read N s t th Hg Hm Hc Hb) as (s2 & H1 & H2).
    exists [K t; K t], s2. repeat split; auto; cbn [length]; try lia. repeat constructor.
  - destruct (Z.eq_dec (bstate s) c) as [Eb|Eb].
    + destruct (M_arr_cas N s t th c Hg Hm Hc Eb) as (s1 & E1 & R1).
      exists [K t], s1. repeat split; auto; cbn [length]; try lia; [repeat constructor|cbn [mrun]; rewrite E1; reflexivity].
    + set (X := set_main th BRead). set (s1 := set_thread s t X).
      assert (E1 : step s (K t) = Some s1) by (eapply E_bcas_fail; eauto).
      assert (Hg1 : get_thread s1 t = Some X) by (apply get_set_eq; exact Hl).
      destruct (M_arr_read N s1 t X Hg1 eq_refl Hc Hb) as (s2 & H1 & H2).
      exists ([K t] ++ [K t; K t]), s2. repeat split; cbn [length app]; try lia; [repeat constructor| |].
      * eapply (mrun_app [K t]); [cbn [mrun]; rewrite E1; reflexivity|exact H1].
      * assert (Ha' : arriving th = true) by (unfold arriving; rewrite Hm; reflexivity).
        assert (Hpp : pot th = pot X) by (unfold pot; rewrite Hm; reflexivity).
        apply (arr_res_after N s t s1 s2); auto.
        -- pose proof (Phi_set N s s t X eq_refl Hl) as P1. rewrite Hth in P1. fold s1 in P1.
           specialize (P1 (fun _ => Ha')). lia.
        -- pose proof (sumpot_set s s t X eq_refl Hl) as P1. rewrite Hth in P1. fold s1 in P1. lia.
        -- apply (g2_arriving N s t Hl). rewrite Hth. exact Ha'.
Qed.

(** ---- progress ---- *)
Definition settled (N : nat) (s : state) : Prop :=
  forall u, u < N -> mn s u = Idle \/ (mn s u = Susp /\ cbk s u = CbNone).

Lemma exists_missing (l : list nat) N : length l < N -> exists u, u < N /\ ~ In u l.
Proof.
  intros Hl. destruct (forallb (fun u => existsb (Nat.eqb u) l) (seq 0 N)) eqn:E.
  - exfalso. assert (Hi : incl (seq 0 N) l).
    { intros u Hu. rewrite forallb_forall in E. specialize (E u Hu). apply existsb_exists in E.
      destruct E as (y & Hy & Ey). apply Nat.eqb_eq in Ey. congruence. }
    pose proof (NoDup_incl_length (seq_NoDup N 0) Hi) as H. rewrite seq_length in H. lia.
  - destruct (forallb_false_nth _ _ 0 E) as (i & Hi & Hp). rewrite seq_length in Hi.
    rewrite seq_nth in Hp by auto. cbn [plus] in Hp. exists i. split; auto. intros Hin.
    assert (existsb (Nat.eqb i) l = true) by (apply existsb_exists; exists i; split; auto; apply Nat.eqb_refl).
    congruence.
Qed.

Lemma existsb_all_false {A} (p : A -> bool) l d :
  (forall i, i < length l -> p (nth i l d) = false) -> existsb p l = false.
Proof.
  intros H. destruct (existsb p l) eqn:E; auto. apply existsb_exists in E. destruct E as (x & Hx & Hp).
  destruct (In_nth l x d Hx) as (i & Hi & Ei). rewrite <- Ei, H in Hp by auto. discriminate.
Qed.

(** while the popper faces an empty stack, some sleeper of its round still has its push pending *)
Lemma pusher_exists N g t n i hd tl :
  greach N g -> t < N -> mn (st g) t = PopRead n i hd tl -> top (st g) = None ->
  exists u, u < N /\ mn (st g) u = Susp /\ cbk (st g) u <> CbNone.
Proof.
  intros Hr Ht Hm Htop. apply inv_reachable in Hr.
  pose proof (I_T _ _ _ Hr t Ht) as HT. unfold T in HT. rewrite Hm in HT. destruct HT as (_ & _ & _ & HR & Hl).
  pose proof (I_ldr _ _ _ Hr HR) as HG. unfold GL in HG. rewrite <- Hl, Hm in HG.
  destruct HG as (G1 & G2 & G3 & G4 & G5 & G6 & G7 & G8).
  destruct (I_stk _ _ _ Hr) as (S1 & _).
  assert (Hs0 : stk (gh g) = []).
  { destruct (stk (gh g)); auto. cbn [chain] in S1. destruct S1; congruence. }
  destruct (exists_missing (t :: acc (gh g)) N) as (u & Hu & Hnin); [cbn [length]; lia|].
  assert (Hut : u <> t) by (intros ->; apply Hnin; left; auto).
  assert (Hua : ~ In u (acc (gh g))) by (intros H; apply Hnin; right; auto).
  exists u. split; auto. pose proof (I_T _ _ _ Hr u Hu) as HTu. unfold T in HTu.
  destruct (mn (st g) u) eqn:Emu; try contradiction.
  - exfalso. destruct HTu as (_ & _ & _ & Hz). destruct (Hz HR) as [E|E]; [congruence|]. rewrite G6 in E. destruct E.
  - exfalso. destruct HTu as (_ & _ & _ & Hz). destruct (Hz HR) as [E|E]; [congruence|]. rewrite G6 in E. destruct E.
  - exfalso. destruct HTu as (_ & _ & _ & Hz & _). destruct (Hz HR) as [E|E]; [congruence|]. rewrite G6 in E. destruct E.
  - exfalso. destruct HTu as (_ & _ & _ & _ & Hh & _). rewrite G4 in Hh. discriminate.
  - exfalso. destruct HTu as (_ & _ & _ & _ & E). congruence.
  - exfalso. destruct HTu as (_ & _ & _ & _ & E). congruence.
  - exfalso. destruct HTu as (_ & _ & _ & _ & E). congruence.
  - split; auto. destruct HTu as (_ & _ & Hc). intros Ec. rewrite Ec in Hc. rewrite Hs0 in Hc.
    destruct Hc as [[]|Hc]; auto.
  - exfalso. destruct HTu as (_ & _ & _ & _ & [[_ E]|(_ & E & _)]); [congruence|]. rewrite G5 in E. destruct E.
Qed.

Lemma arrive_progress N g t : greach N g -> t < N -> arriving (thr_at (st g) t) = true -> prog N (st g).
Proof.
  intros Hr Ht Ha. pose proof (inv_reachable _ _ Hr) as HI.
  destruct (I_len _ _ _ HI) as (L1 & L2 & L3 & L4 & L5 & L6).
  assert (Hg : get_thread (st g) t = Some (thr_at (st g) t)) by (apply get_thread_lt; lia).
  pose proof (I_T _ _ _ HI t Ht) as HT. unfold T, mn, cbk in HT.
  assert (Hc : cb (thr_at (st g) t) = CbNone /\ arv (gh g) t = gR (gh g)).
  { unfold arriving in Ha. destruct (main (thr_at (st g) t)); try discriminate; tauto. }
  destruct Hc as [Hc Hav].
  pose proof (room_to_arrive N g t Hr Ht Hav) as Hroom.
  destruct (M_arr N (st g) t _ Hg Ha Hc Hroom) as (sched & s' & Hlen & Hnc & Hrun & [Hres|Hres]).
  - exists sched, s'. auto.
  - exists sched, s'. repeat split; auto; try lia.
    destruct Hres as (c & Hm' & Ec & Hsum & Hg2).
    destruct (mrun_lift sched g s' Hrun) as (g' & Hrun' & Hst').
    pose proof (grun_reach N sched g g' Hr Hrun') as Hr'. pose proof (inv_reachable _ _ Hr') as HI'.
    rewrite Hst' in HI'.
    pose proof (I_T _ _ _ HI' t Ht) as HT'. unfold T in HT'. rewrite Hm' in HT'.
    destruct HT' as (_ & _ & _ & _ & _ & Hfull).
    destruct (I_arrs _ _ _ HI') as (_ & A2 & A3). destruct (I_len _ _ _ HI') as (L1' & _).
    assert (Hall : forall u, u < N -> In u (arrs (gh g'))).
    { apply nodup_full; auto. intros x Hx. apply A3; auto. }
    assert (Hz : g2 N s' = 0).
    { unfold g2. rewrite (existsb_all_false arriving (thr s') thread0); auto.
      intros u Hu. rewrite L1' in Hu. pose proof (I_T _ _ _ HI' u Hu) as HTu. unfold T, mn in HTu.
      destruct (A3 u (Hall u Hu)) as [_ Eav]. fold (thr_at s' u). unfold arriving.
      destruct (main (thr_at s' u)); try reflexivity; exfalso; lia. }
    unfold Phi. rewrite Hz, Hg2. lia.
Qed.

Lemma progress N g : greach N g -> settled N (st g) \/ prog N (st g).
Proof.
  intros Hr. pose proof (inv_reachable _ _ Hr) as HI. set (s := st g) in *.
  destruct (I_len _ _ _ HI) as (L1 & L2 & L3 & L4 & L5 & L6).
  destruct (forallb settled_th (thr s)) eqn:Ef.
  - left. intros u Hu. rewrite forallb_forall in Ef.
    assert (Hs : settled_th (thr_at s u) = true) by (apply Ef; apply nth_In; lia).
    unfold settled_th, mn, cbk in *. destruct (main (thr_at s u)); try discriminate; auto.
    destruct (cb (thr_at s u)); try discriminate; auto.
  - right. destruct (forallb_false_nth _ _ thread0 Ef) as (t & Htl & Hns). fold (thr_at s t) in Hns.
    assert (Ht : t < N) by lia.
    assert (Hg : get_thread s t = Some (thr_at s t)) by (apply get_thread_lt; exact Htl).
    pose proof (I_T _ _ _ HI t Ht) as HT. unfold T in HT. fold s in HT.
    destruct (cb (thr_at s t)) eqn:Ec.
    2: { eapply M_push; eauto; [|rewrite Ec; discriminate].
         apply (cb_pending_susp N s (gh g) t HI Ht). unfold cbk. rewrite Ec. discriminate. }
    2: { eapply M_push; eauto; [|rewrite Ec; discriminate].
         apply (cb_pending_susp N s (gh g) t HI Ht). unfold cbk. rewrite Ec. discriminate. }
    unfold settled_th in Hns. rewrite Ec in Hns. unfold mn in HT.
    destruct (main (thr_at s t)) eqn:Em; try discriminate; try contradiction.
    + (* BRead *) apply (arrive_progress N g t Hr Ht). unfold arriving. fold s. rewrite Em. reflexivity.
    + (* BCas *) apply (arrive_progress N g t Hr Ht). unfold arriving. fold s. rewrite Em. reflexivity.
    + eapply M_reset; eauto.
    + (* PopRead *)
      destruct HT as (_ & _ & _ & HR & Hl). pose proof (I_ldr _ _ _ HI HR) as HG. unfold GL in HG. fold s in HG.
      rewrite <- Hl in HG. unfold mn in HG. rewrite Em in HG. destruct HG as (G1 & G2 & _).
      destruct (top s) as [y|] eqn:Et.
      * eapply M_pop; eauto; [rewrite Et; discriminate|]. left. eauto 8.
      * assert (Hmt : mn (st g) t = PopRead n i h tl) by (unfold mn; fold s; exact Em).
        destruct (pusher_exists N g t n i h tl Hr Ht Hmt Et) as (u & Hu & Hmu & Hcu).
        eapply (M_push N s u (thr_at s u)); auto. apply get_thread_lt; lia.
    + (* PopCas *)
      destruct HT as (_ & _ & _ & HR & Hl). pose proof (I_ldr _ _ _ HI HR) as HG. unfold GL in HG. fold s in HG.
      rewrite <- Hl in HG. unfold mn in HG. rewrite Em in HG.
      destruct HG as (G1 & G2 & _ & _ & _ & _ & _ & _ & (pre & G9) & G10).
      eapply M_pop; eauto; [|right; eauto 10].
      destruct (I_stk _ _ _ HI) as (S1 & _). fold s in S1. intros Etop. rewrite Etop in S1.
      destruct (stk (gh g)) as [|y r] eqn:Es; [|cbn [chain] in S1; destruct S1; discriminate].
      destruct pre; cbn [app] in G9; [|discriminate]. rewrite <- G9 in G10. discriminate.
    + (* WPush *)
      assert (Hmt : mn (st g) t = WPush n i cur) by (unfold mn; fold s; exact Em).
      destruct (wpush_target N g t n i cur Hr Ht Hmt) as (x & -> & Hx1 & Hx2 & Hx3 & Hx4).
      destruct HT as (_ & _ & _ & HR & Hl). pose proof (I_ldr _ _ _ HI HR) as HG. unfold GL in HG. fold s in HG.
      rewrite <- Hl in HG. unfold mn in HG. rewrite Em in HG. destruct HG as (G1 & G2 & _).
      eapply (M_wpush N s t (thr_at s t) n i x (thr_at s x)); eauto. apply get_thread_lt; lia.
    + eapply M_ret; eauto.
Qed.

(** ---- the potential is linear in N ---- *)
Lemma sum_one {A} (f : A -> nat) d M : forall l e,
  (forall i, i < length l -> f (nth i l d) = 0 \/ i = e) -> (forall i, i < length l -> f (nth i l d) <= M) ->
  list_sum (map f l) <= M.
Proof.
  induction l as [|y r IH]; intros e H1 H2; cbn [map list_sum fold_right]; [lia|]. fold (list_sum (map f r)).
  destruct (H1 0 ltac:(cbn [length]; lia)) as [E|E]; cbn [nth] in E.
  - rewrite E. apply (IH (pred e)).
    + intros i Hi. destruct (H1 (S i) ltac:(cbn [length]; lia)) as [E2|E2]; cbn [nth] in E2; [auto|right; lia].
    + intros i Hi. apply (H2 (S i)). cbn [length]. lia.
  - assert (Hz : list_sum (map f r) = 0).
    { assert (Hr : forall i, i < length r -> f (nth i r d) = 0).
      { intros i Hi. destruct (H1 (S i) ltac:(cbn [length]; lia)) as [E2|E2]; cbn [nth] in E2; [auto|lia]. }
      clear -Hr. induction r as [|z r IH]; [reflexivity|]. cbn [map list_sum fold_right]. fold (list_sum (map f r)).
      pose proof (Hr 0 ltac:(cbn [length]; lia)) as H0. cbn [nth] in H0. rewrite H0.
      rewrite IH; auto. intros i Hi. apply (Hr (S i)). cbn [length]. lia. }
    rewrite Hz. specialize (H2 0 ltac:(cbn [length]; lia)). cbn [nth] in H2. lia.
Qed.

Lemma sum_two {A} (f : A -> nat) d M : forall l e1 e2,
  (forall i, i < length l -> f (nth i l d) = 0 \/ i = e1 \/ i = e2) -> (forall i, i < length l -> f (nth i l d) <= M) ->
  list_sum (map f l) <= 2 * M.
Proof.
  induction l as [|y r IH]; intros e1 e2 H1 H2; cbn [map list_sum fold_right]; [lia|]. fold (list_sum (map f r)).
  assert (H2' : forall i, i < length r -> f (nth i r d) <= M) by (intros i Hi; apply (H2 (S i)); cbn [length]; lia).
  destruct (H1 0 ltac:(cbn [length]; lia)) as [E|E]; cbn [nth] in E.
  - rewrite E. apply (IH (pred e1) (pred e2)); auto.
    intros i Hi. destruct (H1 (S i) ltac:(cbn [length]; lia)) as [E2|[E2|E2]]; cbn [nth] in E2; [auto|right; left; lia|right; right; lia].
  - specialize (H2 0 ltac:(cbn [length]; lia)). cbn [nth] in H2.
    assert (list_sum (map f r) <= M); [|lia].
    destruct E as [E|E].
    + apply (sum_one f d M r (pred e2)); auto.
      intros i Hi. destruct (H1 (S i) ltac:(cbn [length]; lia)) as [E2|[E2|E2]]; cbn [nth] in E2; [auto|lia|right; lia].
    + apply (sum_one f d M r (pred e1)); auto.
      intros i Hi. destruct (H1 (S i) ltac:(cbn [length]; lia)) as [E2|[E2|E2]]; cbn [nth] in E2; [auto|right; lia|lia].
Qed.

Definition smallpot (th : thread) : nat :=
  match main th with BReset _ | PopRead _ _ _ _ | PopCas _ _ _ _ _ | WPush _ _ _ => 0 | _ => pot th end.
Definition bigpot (th : thread) : nat :=
  match main th with BReset _ | PopRead _ _ _ _ | PopCas _ _ _ _ _ | WPush _ _ _ => pot th | _ => 0 end.

Lemma sum_split (l : list thread) : list_sum (map pot l) = list_sum (map smallpot l) + list_sum (map bigpot l).
Proof.
  induction l as [|y r IH]; [reflexivity|]. cbn [map list_sum fold_right].
  fold (list_sum (map pot r)) (list_sum (map smallpot r)) (list_sum (map bigpot r)). rewrite IH.
  unfold smallpot, bigpot. destruct (main y); lia.
Qed.

Lemma sum_le_const (f : thread -> nat) c l : (forall x, f x <= c) -> list_sum (map f l) <= c * length l.
Proof.
  intros H. induction l as [|y r IH]; cbn [map list_sum fold_right length]; [lia|].
  fold (list_sum (map f r)). specialize (H y). lia.
Qed.

Lemma Phi_bound N g : greach N g -> Phi N (st g) <= 9 * N + 1.
Proof.
  intros Hr. apply inv_reachable in Hr. destruct (I_len _ _ _ Hr) as (L1 & L2 & L3 & L4 & L5 & L6).
  unfold Phi, sumpot. rewrite sum_split.
  assert (H1 : list_sum (map smallpot (thr (st g))) <= 3 * N).
  { rewrite <- L1. apply sum_le_const. intros x. unfold smallpot, pot. destruct (main x); try lia. destruct (cb x); lia. }
  assert (H2 : list_sum (map bigpot (thr (st g))) <= 2 * (2 * N)).
  { apply (sum_two bigpot thread0 (2 * N) (thr (st g)) (ldr (gh g)) (hd 0 (arrs (gh g)))).
    - intros i Hi. rewrite L1 in Hi. pose proof (I_T _ _ _ Hr i Hi) as HT. unfold T, mn, thr_at in HT.
      unfold bigpot. destruct (main (nth i (thr (st g)) thread0)); auto; right.
      + right. destruct HT as (_ & _ & _ & _ & Hh & _). destruct (arrs (gh g)); cbn [hd_error hd] in *; congruence.
      + left. tauto.
      + left. tauto.
      + left. tauto.
    - intros i Hi. rewrite L1 in Hi. pose proof (I_T _ _ _ Hr i Hi) as HT. unfold T, mn, thr_at in HT.
      unfold bigpot, pot. destruct (main (nth i (thr (st g)) thread0)) eqn:Em; try lia.
      + destruct HT as (_ & _ & _ & HR & Hl). pose proof (I_ldr _ _ _ Hr HR) as HG. unfold GL, mn, thr_at in HG.
        rewrite <- Hl, Em in HG. lia.
      + destruct HT as (_ & _ & _ & HR & Hl). pose proof (I_ldr _ _ _ Hr HR) as HG. unfold GL, mn, thr_at in HG.
        rewrite <- Hl, Em in HG. lia.
      + destruct HT as (_ & _ & _ & HR & Hl). pose proof (I_ldr _ _ _ Hr HR) as HG. unfold GL, mn, thr_at in HG.
        rewrite <- Hl, Em in HG. lia. }
  unfold g2. destruct (existsb arriving (thr (st g))); lia.
Qed.

(** ---- from every reachable state the system can settle, in a number of steps linear in N ---- *)
Lemma grun_app l1 : forall l2 g g1 g2, grun l1 g = Some g1 -> grun l2 g1 = Some g2 -> grun (l1 ++ l2) g = Some g2.
Proof.
  induction l1 as [|a r IH]; intros l2 g g1 g2 H1 H2; cbn [grun app] in *.
  - inversion H1; subst. exact H2.
  - destruct (gstep g a) as [ga|]; [|discriminate]. eapply IH; eauto.
Qed.

Lemma settle_aux N : forall m g, greach N g -> Phi N (st g) <= m ->
  exists sched g', length sched <= 3 * m /\ nocall sched /\ grun sched g = Some g' /\ settled N (st g').
Proof.
  induction m as [|m IH]; intros g Hr Hm.
  - destruct (progress N g Hr) as [Hs|(sched & s' & _ & _ & _ & Hlt)]; [|lia].
    exists [], g. repeat split; auto. constructor.
  - destruct (progress N g Hr) as [Hs|(sched & s' & Hlen & Hnc & Hrun & Hlt)].
    + exists [], g. repeat split; auto; [cbn [length]; lia|constructor].
    + destruct (mrun_lift sched g s' Hrun) as (g1 & Hrun1 & Hst1).
      pose proof (grun_reach N sched g g1 Hr Hrun1) as Hr1.
      destruct (IH g1 Hr1 ltac:(rewrite Hst1; lia)) as (sched2 & g2 & Hlen2 & Hnc2 & Hrun2 & Hs2).
      exists (sched ++ sched2), g2. repeat split; auto.
      * rewrite app_length. lia.
      * apply Forall_app. split; auto.
      * eapply grun_app; eauto.
Qed.

Theorem settle N g :
  greach N g ->
  exists sched g', length sched <= 27 * N + 3 /\ nocall sched /\ grun sched g = Some g' /\ settled N (st g').
Proof.
  intros Hr. destruct (settle_aux N (Phi N (st g)) g Hr (le_n _)) as (sched & g' & H1 & H2 & H3 & H4).
  exists sched, g'. repeat split; auto. pose proof (Phi_bound N g Hr). lia.
Qed.

(** a schedule without calls does not change the call counts *)
Lemma nocall_step_cl g t e g' :
  gstep g (t, e) = Some g' -> match e with ECall _ => False | _ => True end -> cl (gh g') = cl (gh g).
Proof.
  intros H He. unfold gstep in H. destruct (step (st g) (t, e)); [|discriminate]. inversion H; subst g'.
  cbn [gh fst snd]. unfold gh_step. destruct (get_thread (st g) t) as [th|]; [|reflexivity].
  destruct e; try contradiction.
  - destruct (main th); try reflexivity.
    + destruct (bstate (st g) =? c)%Z; reflexivity.
    + destruct (onat_eqb (top (st g)) (Some x)); reflexivity.
    + destruct cur; reflexivity.
  - destruct (cb th); try reflexivity. destruct (onat_eqb (top (st g)) t0); reflexivity.
  - destruct (v =? 0)%Z; reflexivity.
Qed.

Lemma nocall_run_cl l : forall g g', nocall l -> grun l g = Some g' -> cl (gh g') = cl (gh g).
Proof.
  induction l as [|[t e] r IH]; intros g g' Hn H; cbn [grun] in H.
  - inversion H; reflexivity.
  - inversion Hn as [|? ? Ha Hr]; subst. destruct (gstep g (t, e)) as [g1|] eqn:E; [|discriminate].
    rewrite (IH g1 g' Hr H). eapply nocall_step_cl; eauto.
Qed.

(** in a settled state not everybody can be asleep in the same round *)
Lemma settled_not_all_asleep N g u :
  greach N g -> settled N (st g) -> u < N -> mn (st g) u = Susp ->
  arv (gh g) u = S (gR (gh g)) /\ clv (gh g) u = S (gR (gh g)) /\
  exists v, v < N /\ mn (st g) v = Idle.
Proof.
  intros Hr Hs Hu Hm. pose proof (inv_reachable _ _ Hr) as HI.
  destruct (I_len _ _ _ HI) as (L1 & L2 & L3 & L4 & L5 & L6).
  (* u waits in round gR+1: the release phase of round gR is over in a settled state *)
  assert (Hau : forall w, w < N -> mn (st g) w = Susp ->
                arv (gh g) w = S (gR (gh g)) /\ clv (gh g) w = S (gR (gh g)) /\ In w (arrs (gh g))).
  { intros w Hw Hmw. pose proof (I_T _ _ _ HI w Hw) as HT. unfold T in HT. rewrite Hmw in HT.
    destruct HT as (Hc & [[Ha Hin]|(Ha & HR & Hne & Hin)] & _); [repeat split; auto; lia|exfalso].
    pose proof (I_ldr _ _ _ HI HR) as HG. unfold GL in HG. destruct (I_sum _ _ _ HI) as (_ & Q).
    destruct (Q HR) as (_ & Hl). destruct (Hs _ Hl) as [E|[E _]]; rewrite E in HG; destruct HG as [E1 E2];
      rewrite E1, E2 in Hin; destruct Hin as [[]|[]]. }
  destruct (Hau u Hu Hm) as (A1 & A2 & A3). repeat split; auto.
  (* otherwise all N are asleep in arrs: the count is N, so the head of arrs sits at the reset *)
  destruct (forallb (fun v => match mn (st g) v with Idle => false | _ => true end) (seq 0 N)) eqn:E.
  - exfalso. rewrite forallb_forall in E.
    assert (Hall : forall v, v < N -> In v (arrs (gh g))).
    { intros v Hv. specialize (E v ltac:(apply in_seq; lia)). destruct (Hs v Hv) as [Ei|[Es _]].
      - rewrite Ei in E. discriminate.
      - apply (Hau v Hv Es). }
    destruct (I_arrs _ _ _ HI) as (_ & A4 & A5).
    assert (Hlen : length (arrs (gh g)) = N).
    { apply Nat.le_antisymm.
      - apply nodup_bound_length; auto. intros x Hx. apply A5; auto.
      - rewrite <- (seq_length N 0). apply NoDup_incl_length; [apply seq_NoDup|]. intros v Hv. apply in_seq in Hv. apply Hall. lia. }
    destruct (J_reachable N g Hr Hlen) as (c & Hc).
    assert (Hh : hd 0 (arrs (gh g)) < N).
    { destruct (arrs (gh g)) as [|y r] eqn:Ea; [cbn [length] in Hlen; lia|]. cbn [hd]. apply (A5 y). left; auto. }
    destruct (Hs _ Hh) as [Ei|[Es _]]; congruence.
  - destruct (forallb_false_nth _ _ 0 E) as (i & Hi & Hp). rewrite seq_length in Hi. rewrite seq_nth in Hp by auto.
    cbn [plus] in Hp. exists i. split; auto. destruct (mn (st g) i); try discriminate. reflexivity.
Qed.

Theorem round_completes N g k :
  greach N g -> (forall u, u < N -> k <= clv (gh g) u) ->
  exists sched g',
    length sched <= 27 * N + 3 /\ nocall sched /\ grun sched g = Some g' /\
    (forall u, u < N -> returned g' u k) /\
    ((forall u, u < N -> clv (gh g) u = k) ->
     (forall u, u < N -> mn (st g') u = Idle) /\ bstate (st g') = 0%Z /\ top (st g') = None /\ gR (gh g') = k).
Proof.
  intros Hr Hk. destruct (settle N g Hr) as (sched & g' & Hlen & Hnc & Hrun & Hs).
  exists sched, g'.
  pose proof (grun_reach N sched g g' Hr Hrun) as Hr'. pose proof (nocall_run_cl sched g g' Hnc Hrun) as Hcl.
  pose proof (inv_reachable _ _ Hr') as HI.
  destruct (I_len _ _ _ HI) as (L1 & L2 & L3 & L4 & L5 & L6).
  assert (Hclv : forall u, clv (gh g') u = clv (gh g) u) by (intros u; unfold clv; rewrite Hcl; reflexivity).
  refine (conj Hlen (conj Hnc (conj Hrun (conj _ _)))).
  - intros u Hu. unfold returned. pose proof (Hk u Hu) as Hku. rewrite <- Hclv in Hku.
    destruct (Hs u Hu) as [Ei|[Es _]].
    + destruct (Nat.eq_dec k (clv (gh g') u)); [right; auto|left; lia].
    + destruct (settled_not_all_asleep N g' u Hr' Hs Hu Es) as (A1 & A2 & v & Hv & Hvi).
      pose proof (I_T _ _ _ HI v Hv) as HTv. unfold T in HTv. rewrite Hvi in HTv.
      pose proof (Hk v Hv) as Hkv. rewrite <- Hclv in Hkv. left. lia.
  - intros Hall.
    assert (Hidle : forall u, u < N -> mn (st g') u = Idle).
    { intros u Hu. destruct (Hs u Hu) as [Ei|[Es _]]; auto. exfalso.
      destruct (settled_not_all_asleep N g' u Hr' Hs Hu Es) as (A1 & A2 & v & Hv & Hvi).
      pose proof (I_T _ _ _ HI v Hv) as HTv. unfold T in HTv. rewrite Hvi in HTv.
      pose proof (Hall u Hu) as E1. pose proof (Hall v Hv) as E2. rewrite <- Hclv in E1, E2. lia. }
    refine (conj Hidle (conj _ (conj _ _))).
    + destruct (I_arrs _ _ _ HI) as (A1 & _ & A3). destruct (arrs (gh g')) as [|y r] eqn:Ea; [exact A1|exfalso].
      destruct (A3 y (or_introl eq_refl)) as [Hy Hay]. pose proof (I_T _ _ _ HI y Hy) as HTy. unfold T in HTy.
      rewrite (Hidle y Hy) in HTy. lia.
    + destruct (I_stk _ _ _ HI) as (S1 & _ & S3 & _). destruct (stk (gh g')) as [|y r] eqn:Es; [exact S1|exfalso].
      destruct (S3 y (or_introl eq_refl)) as (Hy & Hmy & _). rewrite (Hidle y Hy) in Hmy. discriminate.
    + pose proof (I_T _ _ _ HI 0 ltac:(lia)) as HT0. unfold T in HT0. rewrite (Hidle 0 ltac:(lia)) in HT0.
      pose proof (Hall 0 ltac:(lia)) as E0. rewrite <- Hclv in E0. lia.
Qed.

(** ---- object lifecycle: destroying / re-initialising the barrier right after a round ----
    Once the last arriver has left its pop / wake loops and nobody has called wait again, no participant will ever
    touch the barrier's words again in that round: every thread is idle or only has its (already fixed) return
    value to deliver, no callback is pending, no POINT is ahead of anybody, and the words are exactly what
    myth_barrier_init writes (count 0, empty stack).  So a destroy + re-init (any count) by a participant whose own
    wait has returned cannot be observed by the participants that are released but not yet resumed. *)
Lemma quiescent_after_release N g :
  greach N g -> 1 <= gR (gh g) -> (forall u, u < N -> clv (gh g) u = gR (gh g)) ->
  releasing (mn (st g) (ldr (gh g))) = false ->
  bstate (st g) = 0%Z /\ top (st g) = None /\
  forall t, t < N ->
    cbk (st g) t = CbNone /\ (mn (st g) t = Idle \/ exists r, mn (st g) t = Done r) /\
    label (st g) t false = String.EmptyString /\ label (st g) t true = String.EmptyString.
Proof.
  intros Hr HR Hcl Hrel. pose proof (inv_reachable _ _ Hr) as HI.
  destruct (I_len _ _ _ HI) as (L1 & L2 & L3 & L4 & L5 & L6).
  assert (Hth : forall t, t < N -> cbk (st g) t = CbNone /\ (mn (st g) t = Idle \/ exists r, mn (st g) t = Done r)).
  { intros t Ht. pose proof (I_T _ _ _ HI t Ht) as HT. unfold T in HT. specialize (Hcl t Ht).
    destruct (mn (st g) t) eqn:Em; try contradiction; try (exfalso; lia).
    - split; [tauto|left; reflexivity].
    - exfalso. destruct HT as (_ & _ & _ & _ & El). rewrite <- El, Em in Hrel. discriminate.
    - exfalso. destruct HT as (_ & _ & _ & _ & El). rewrite <- El, Em in Hrel. discriminate.
    - exfalso. destruct HT as (_ & _ & _ & _ & El). rewrite <- El, Em in Hrel. discriminate.
    - exfalso. destruct HT as (Hc & [[Ha _]|(Ha & _ & _ & Hin)] & _); [lia|].
      pose proof (I_ldr _ _ _ HI HR) as HG. unfold GL in HG.
      destruct (mn (st g) (ldr (gh g))); try discriminate; destruct HG as [E1 E2]; rewrite E1, E2 in Hin;
        destruct Hin as [[]|[]].
    - split; [tauto|right; eauto]. }
  refine (conj _ (conj _ _)).
  - destruct (I_arrs _ _ _ HI) as (A1 & _ & A3). destruct (arrs (gh g)) as [|y r] eqn:Ea; [exact A1|exfalso].
    destruct (A3 y (or_introl eq_refl)) as [Hy Hay]. pose proof (I_T _ _ _ HI y Hy) as HTy. unfold T in HTy.
    destruct (Hth y Hy) as [_ [E|[r0 E]]]; rewrite E in HTy; lia.
  - destruct (I_stk _ _ _ HI) as (S1 & _ & S3 & _). destruct (stk (gh g)) as [|y r] eqn:Es; [exact S1|exfalso].
    destruct (S3 y (or_introl eq_refl)) as (Hy & Hmy & _). destruct (Hth y Hy) as [_ [E|[r0 E]]]; congruence.
  - intros t Ht. destruct (Hth t Ht) as [Hc Hm]. refine (conj Hc (conj Hm _)).
    unfold label. rewrite (get_thread_lt (st g) t) by lia. unfold cbk in Hc. unfold mn in Hm. rewrite Hc.
    destruct Hm as [->|[r ->]]; split; reflexivity.
Qed.
