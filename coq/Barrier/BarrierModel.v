(** Abs(barrier): the protocol model behind C06.

    Source: src/myth_sync_func.h  myth_barrier_wait_body, myth_block_on_stack(_cb),
    myth_wake_many_from_stack;  src/myth_sleep_queue_func.h  myth_sleep_stack_push / _pop.

    One model step ([ETick] / [ECbTick]) = the code between two consecutive MYTH_VERIF_POINTs
    = one access to a shared word; [label] returns the id of the POINT the activity executes
    next.  The correspondence check replays real traces of the library (harness/lib_interp.c)
    through [step], comparing labels, hook values and the barrier's words before every step.

    The lock-free sleep stack is modelled WITH its links: [top] and one [next] field per thread
    ([nxt], indexed by the thread number), exactly the two kinds of words the C code reads and
    writes.  The private list the last arriver builds while popping is threaded through the same
    [next] fields (locals: head / tail / cursor), as in the C code.  That the links always
    represent a duplicate-free list is a theorem (BarrierProofs.v), not an assumption.

    A thread has two activities: its own code ([main]) and, after it has saved its context in
    myth_block_on_stack, the context-switch callback that runs on the worker it just left
    ([cb]: the CAS-push of the thread onto the sleep stack). *)
From Coq Require Import ZArith List Bool String.
Import ListNotations.
Local Open Scope Z_scope.

Definition SERIAL : Z := 1.          (* MYTH_BARRIER_SERIAL_THREAD *)

Inductive op := Wait.

Inductive pc :=
| Idle
| BRead                                            (* P barrier.read *)
| BCas (c : Z)                                     (* P barrier.cas : CAS(state, c, c+1) *)
| BReset (c : Z)                                   (* P barrier.reset : state := 0; then wake_many(c) *)
| PopRead (n i : Z) (h tl : option nat)            (* P sstack.pop.read ; i sleepers popped so far, private list h..tl *)
| PopCas (n i : Z) (h tl : option nat) (x : nat)   (* P sstack.pop.cas : CAS(top, x, x->next) *)
| WPush (n i : Z) (cur : option nat)               (* P wakemanys.push : run-queue push of cur *)
| Susp                                             (* context saved in myth_block_on_stack; resumes into [Done 0] *)
| Done (r : Z)                                     (* myth_barrier_wait returns r *)
| Excess                                           (* the exit(1) branch: more than n_threads arrivals *)
| AssertFail.                                      (* assert(to_wake) in the wake loop *)

Inductive cbpc :=
| CbNone
| CbPushRead                                       (* P sstack.push.read : t := top; me->next := t *)
| CbPushCas (t : option nat).                      (* P sstack.push.cas : CAS(top, t, me) *)

Record thread := { main : pc; cb : cbpc }.

Record state := {
  bstate : Z;                       (* barrier->state *)
  nthr : Z;                         (* barrier->n_threads *)
  top : option nat;                 (* barrier->sleep_s->top *)
  nxt : list (option nat);          (* thread u's  ->next  field = nth u nxt None *)
  thr : list thread
}.

Inductive ev := ECall (o : op) | ETick | ECbTick | ERet (v : Z).

Definition thread0 : thread := {| main := Idle; cb := CbNone |}.

(** [nthreads] program threads use a barrier initialised with [myth_barrier_init(.., n)] *)
Definition init_state (nthreads : nat) (n : Z) : state :=
  {| bstate := 0; nthr := n; top := None; nxt := repeat None nthreads; thr := repeat thread0 nthreads |}.

Fixpoint upd {A} (l : list A) (i : nat) (x : A) : list A :=
  match l, i with
  | [], _ => []
  | _ :: r, O => x :: r
  | y :: r, S j => y :: upd r j x
  end.

Definition get_thread (s : state) (t : nat) : option thread := nth_error (thr s) t.
Definition get_next (s : state) (x : nat) : option nat := nth x (nxt s) None.

Definition set_thread (s : state) (t : nat) (x : thread) : state :=
  {| bstate := bstate s; nthr := nthr s; top := top s; nxt := nxt s; thr := upd (thr s) t x |}.
Definition set_bstate (s : state) (w : Z) : state :=
  {| bstate := w; nthr := nthr s; top := top s; nxt := nxt s; thr := thr s |}.
Definition set_top (s : state) (w : option nat) : state :=
  {| bstate := bstate s; nthr := nthr s; top := w; nxt := nxt s; thr := thr s |}.
Definition set_next (s : state) (x : nat) (w : option nat) : state :=
  {| bstate := bstate s; nthr := nthr s; top := top s; nxt := upd (nxt s) x w; thr := thr s |}.

Definition set_main (th : thread) (p : pc) : thread := {| main := p; cb := cb th |}.
Definition set_cb (th : thread) (c : cbpc) : thread := {| main := main th; cb := c |}.

Definition onat_eqb (a b : option nat) : bool :=
  match a, b with
  | None, None => true
  | Some x, Some y => Nat.eqb x y
  | _, _ => false
  end.

(** run-queue push of [x]: it must be suspended (context saved); it resumes after
    myth_block_on_stack, i.e. myth_barrier_wait_body returns 0 *)
Definition wake (s : state) (x : nat) : option state :=
  match get_thread s x with
  | Some th => match main th with
               | Susp => Some (set_thread s x (set_main th (Done 0)))
               | _ => None
               end
  | None => None
  end.

(** what myth_wake_many_from_stack(s, 0, 0, n) does after [i] completed pops *)
Definition after_pops (n i : Z) (h tl : option nat) : pc :=
  if i <? n then PopRead n i h tl
  else if 0 <? n then WPush n 0 h      (* second loop, i = 0 < n *)
  else Done SERIAL.

Definition put (s : state) (t : nat) (p : pc) : option state :=
  match get_thread s t with
  | Some th => Some (set_thread s t (set_main th p))
  | None => None
  end.

(** main-activity step of thread [t] *)
Definition tick (s : state) (t : nat) : option state :=
  match get_thread s t with
  | None => None
  | Some th =>
    match main th with
    | BRead =>
        let c := bstate s in
        if c >=? nthr s then put s t Excess else put s t (BCas c)
    | BCas c =>
        if bstate s =? c then
          let s1 := set_bstate s (c + 1) in
          if c =? nthr s - 1 then put s1 t (BReset c)
          else Some (set_thread s1 t {| main := Susp; cb := CbPushRead |})
        else put s t BRead
    | BReset c =>
        put (set_bstate s 0) t (after_pops c 0 None None)
    | PopRead n i h tl =>
        match top s with
        | None => put s t (PopRead n i h tl)          (* pop returned 0: S wakemanys.spin, retry *)
        | Some x => put s t (PopCas n i h tl x)
        end
    | PopCas n i h tl x =>
        if onat_eqb (top s) (Some x) then
          (* CAS(top, x, x->next) succeeded; to_wake->next = 0; append to the private list *)
          let s1 := set_next (set_top s (get_next s x)) x None in
          let s2 := match tl with Some y => set_next s1 y (Some x) | None => s1 end in
          let h' := match tl with Some _ => h | None => Some x end in
          put s2 t (after_pops n (i + 1) h' (Some x))
        else put s t (PopRead n i h tl)
    | WPush n i cur =>
        match cur with
        | None => put s t AssertFail
        | Some x =>
            let nx := get_next s x in
            match wake s x with
            | Some s' => put s' t (if i + 1 <? n then WPush n (i + 1) nx else Done SERIAL)
            | None => None
            end
        end
    | Idle | Susp | Done _ | Excess | AssertFail => None
    end
  end.

(** callback-activity step of thread [t] (myth_block_on_stack_cb = myth_sleep_stack_push(me)) *)
Definition cbtick (s : state) (t : nat) : option state :=
  match get_thread s t with
  | None => None
  | Some th =>
    match cb th with
    | CbNone => None
    | CbPushRead =>
        let tp := top s in
        Some (set_thread (set_next s t tp) t (set_cb th (CbPushCas tp)))
    | CbPushCas tp =>
        if onat_eqb (top s) tp then Some (set_thread (set_top s (Some t)) t (set_cb th CbNone))
        else Some (set_thread s t (set_cb th CbPushRead))
    end
  end.

(** a call is enabled only when the thread exists, is idle and has no callback pending *)
Definition call (s : state) (t : nat) (o : op) : option state :=
  match get_thread s t with
  | None => None
  | Some th =>
    match main th, cb th with
    | Idle, CbNone => match o with Wait => Some (set_thread s t (set_main th BRead)) end
    | _, _ => None
    end
  end.

Definition ret_ok (s : state) (t : nat) (v : Z) : bool :=
  match get_thread s t with
  | Some th => match main th with
               | Done r => v =? r
               | _ => false
               end
  | None => false
  end.

Definition ret (s : state) (t : nat) (v : Z) : option state :=
  if ret_ok s t v then put s t Idle else None.

Definition step (s : state) (a : nat * ev) : option state :=
  let (t, e) := a in
  match e with
  | ECall o => call s t o
  | ETick => tick s t
  | ECbTick => cbtick s t
  | ERet v => ret s t v
  end.

(** the POINT id the activity executes at its next step ("" = none) *)
Definition label (s : state) (t : nat) (in_cb : bool) : string :=
  match get_thread s t with
  | None => ""
  | Some th =>
    if in_cb then
      match cb th with
      | CbNone => ""
      | CbPushRead => "sstack.push.read"
      | CbPushCas _ => "sstack.push.cas"
      end
    else
      match main th with
      | BRead => "barrier.read"
      | BCas _ => "barrier.cas"
      | BReset _ => "barrier.reset"
      | PopRead _ _ _ _ => "sstack.pop.read"
      | PopCas _ _ _ _ _ => "sstack.pop.cas"
      | WPush _ _ _ => "wakemanys.push"
      | Idle | Susp | Done _ | Excess | AssertFail => ""
      end
  end%string.

(** the value the hook reports; None = not compared *)
Definition lval (s : state) (t : nat) (in_cb : bool) : option Z :=
  match get_thread s t with
  | None => None
  | Some th =>
    if in_cb then
      match cb th with
      | CbNone => None
      | CbPushRead | CbPushCas _ => Some (Z.of_nat t)
      end
    else
      match main th with
      | BRead => Some 0
      | BCas c | BReset c => Some c
      | PopRead _ _ _ _ => Some 0
      | PopCas _ _ _ _ x => Some (Z.of_nat x)
      | WPush _ _ (Some x) => Some (Z.of_nat x)
      | _ => None
      end
  end.

(** the sleep stack as the chain of links from [top] (fuel-bounded walk, for the snapshot
    comparison of the trace validator); the boolean is false if the walk did not end within
    [fuel] links (a cycle) *)
Fixpoint walk (nx : list (option nat)) (fuel : nat) (h : option nat) : list nat * bool :=
  match h with
  | None => ([], true)
  | Some x =>
      match fuel with
      | O => ([], false)
      | S f => let (l, ok) := walk nx f (nth x nx None) in (x :: l, ok)
      end
  end.

Definition stack_list (s : state) : list nat * bool := walk (nxt s) (S (List.length (nxt s))) (top s).

(** outcome classification of a thread (used by the trace validator's final report) *)
Definition is_excess (s : state) (t : nat) : bool :=
  match get_thread s t with
  | Some th => match main th with Excess => true | _ => false end
  | None => false
  end.
