(** List facts used by the barrier proofs: functional update, pigeonhole, [remove], link chains. *)
From Coq Require Import ZArith List Bool Lia Arith.
From MT Require Import Barrier.BarrierModel.
Import ListNotations.

(** ---- upd ---- *)
Lemma upd_length {A} (l : list A) i x : length (upd l i x) = length l.
Proof.
  revert i; induction l as [|y r IH]; intros [|j]; cbn [upd length]; auto.
Qed.

Lemma nth_upd_eq {A} (l : list A) i x d : i < length l -> nth i (upd l i x) d = x.
Proof.
  revert i; induction l as [|y r IH]; intros [|j] H; cbn [upd nth length] in *; try lia; auto.
  apply IH; lia.
Qed.

Lemma nth_upd_neq {A} (l : list A) i j x d : i <> j -> nth j (upd l i x) d = nth j l d.
Proof.
  revert i j; induction l as [|y r IH]; intros [|i] [|j] H; cbn [upd nth]; auto; try congruence.
Qed.

Lemma nth_upd {A} (l : list A) i j x d :
  nth j (upd l i x) d = if (Nat.eqb j i && Nat.ltb i (length l))%bool then x else nth j l d.
Proof.
  destruct (Nat.eqb_spec j i) as [->|Hn]; cbn [andb].
  - destruct (Nat.ltb_spec i (length l)) as [Hl|Hl].
    + apply nth_upd_eq; exact Hl.
    + clear -Hl. revert i Hl; induction l as [|y r IH]; intros [|i] Hl; cbn [upd nth length] in *; auto; try lia.
      apply IH; lia.
  - apply nth_upd_neq; auto.
Qed.

Lemma nth_error_nth {A} (l : list A) i d : i < length l -> nth_error l i = Some (nth i l d).
Proof.
  revert i; induction l as [|y r IH]; intros [|i] H; cbn [nth_error nth length] in *; try lia; auto.
  apply IH; lia.
Qed.

Lemma nth_error_some_lt {A} (l : list A) i x : nth_error l i = Some x -> i < length l /\ forall d, nth i l d = x.
Proof.
  intros H.
  assert (Hl : i < length l) by (apply nth_error_Some; congruence).
  split; auto.
  intros d. pose proof (nth_error_nth l i d Hl) as H'. congruence.
Qed.

(** ---- pigeonhole ---- *)
Lemma incl_seq (l : list nat) N : (forall x, In x l -> x < N) -> incl l (seq 0 N).
Proof. intros H x Hx. apply in_seq. specialize (H x Hx). lia. Qed.

Lemma nodup_bound_length (l : list nat) N : NoDup l -> (forall x, In x l -> x < N) -> length l <= N.
Proof.
  intros Hnd Hb. rewrite <- (seq_length N 0). apply NoDup_incl_length; auto. apply incl_seq; auto.
Qed.

Lemma nodup_full (l : list nat) N :
  NoDup l -> (forall x, In x l -> x < N) -> length l = N -> forall u, u < N -> In u l.
Proof.
  intros Hnd Hb Hl u Hu.
  assert (Hi : incl (seq 0 N) l).
  { apply NoDup_length_incl; auto.
    - rewrite seq_length; lia.
    - apply incl_seq; auto. }
  apply Hi. apply in_seq. lia.
Qed.

Lemma nodup_missing_lt (l : list nat) N u :
  NoDup l -> (forall x, In x l -> x < N) -> u < N -> ~ In u l -> length l < N.
Proof.
  intros Hnd Hb Hu Hn.
  assert (H : length (u :: l) <= N).
  { apply nodup_bound_length.
    - constructor; auto.
    - intros x [<-|Hx]; auto. }
  cbn [length] in H. lia.
Qed.

(** ---- remove ---- *)
Lemma remove_length_nodup (x : nat) l :
  NoDup l -> In x l -> S (length (remove Nat.eq_dec x l)) = length l.
Proof.
  induction l as [|y r IH]; intros Hnd Hin; [destruct Hin|].
  inversion Hnd as [|? ? Hy Hr]; subst.
  cbn [remove]. destruct (Nat.eq_dec x y) as [->|Hne].
  - rewrite notin_remove; auto.
  - cbn [length]. f_equal. apply IH; auto. destruct Hin; congruence.
Qed.

Lemma remove_nodup (x : nat) l : NoDup l -> NoDup (remove Nat.eq_dec x l).
Proof.
  induction l as [|y r IH]; intros Hnd; cbn [remove]; auto.
  inversion Hnd as [|? ? Hy Hr]; subst.
  destruct (Nat.eq_dec x y); auto. constructor; auto.
  intros Hin. apply in_remove in Hin. tauto.
Qed.

Lemma in_remove_iff (x y : nat) l : In y (remove Nat.eq_dec x l) <-> In y l /\ y <> x.
Proof.
  split.
  - apply in_remove.
  - intros [H1 H2]. apply in_in_remove; auto.
Qed.

(** ---- chains of [next] links ---- *)
Fixpoint chain (nx : list (option nat)) (h : option nat) (l : list nat) : Prop :=
  match l with
  | [] => h = None
  | x :: r => h = Some x /\ chain nx (nth x nx None) r
  end.

Lemma chain_frame nx nx' h l :
  (forall y, In y l -> nth y nx' None = nth y nx None) -> chain nx h l -> chain nx' h l.
Proof.
  revert h; induction l as [|x r IH]; intros h Hf Hc; cbn [chain] in *; auto.
  destruct Hc as [-> Hc]. split; auto.
  rewrite Hf by (left; auto). apply IH; auto. intros y Hy. apply Hf. right; auto.
Qed.

Lemma chain_upd_notin nx h l x v : ~ In x l -> chain nx h l -> chain (upd nx x v) h l.
Proof.
  intros Hn. apply chain_frame. intros y Hy. apply nth_upd_neq. intros ->. auto.
Qed.

Lemma chain_det nx h l1 l2 : chain nx h l1 -> chain nx h l2 -> l1 = l2.
Proof.
  revert h l2; induction l1 as [|x r IH]; intros h [|y r2] H1 H2; cbn [chain] in *; auto.
  - destruct H2; congruence.
  - destruct H1; congruence.
  - destruct H1 as [-> H1], H2 as [E H2]. inversion E; subst. f_equal. eapply IH; eauto.
Qed.

Definition last_opt (l : list nat) : option nat :=
  match l with [] => None | _ => Some (last l 0) end.

Lemma last_opt_snoc l x : last_opt (l ++ [x]) = Some x.
Proof.
  unfold last_opt. destruct (l ++ [x]) eqn:E.
  - destruct l; discriminate.
  - rewrite <- E. rewrite last_last. reflexivity.
Qed.

Lemma last_in (l : list nat) d : l <> [] -> In (last l d) l.
Proof.
  induction l as [|x r IH]; intros H; [congruence|].
  destruct r as [|y r']; [left; reflexivity|].
  right. apply IH. discriminate.
Qed.

(** appending the popped element [x] to the private list: x->next := 0; tail->next := x *)
Lemma chain_snoc nx h acc x :
  acc <> [] -> NoDup acc -> ~ In x acc -> x < length nx -> (forall y, In y acc -> y < length nx) ->
  chain nx h acc ->
  chain (upd (upd nx x None) (last acc 0) (Some x)) h (acc ++ [x]).
Proof.
  revert h. induction acc as [|y r IH]; intros h Hne Hnd Hx Hxl Hb Hc; [congruence|].
  inversion Hnd as [|? ? Hy Hr]; subst.
  destruct r as [|z r'].
  - cbn [chain app last] in *. destruct Hc as [-> Hc]. split; auto.
    assert (y <> x) by (intros ->; apply Hx; left; auto).
    rewrite nth_upd_eq by (rewrite upd_length; apply Hb; left; auto).
    split; auto. rewrite nth_upd_neq by auto. rewrite nth_upd_eq; auto.
  - change ((y :: z :: r') ++ [x]) with (y :: ((z :: r') ++ [x])).
    change (last (y :: z :: r') 0) with (last (z :: r') 0).
    cbn [chain] in Hc. destruct Hc as [-> Hc]. cbn [chain]. split; auto.
    assert (Hl : In (last (z :: r') 0) (z :: r')) by (apply last_in; discriminate).
    rewrite nth_upd_neq by (intros E; apply Hy; rewrite <- E at 1; exact Hl).
    rewrite nth_upd_neq by (intros ->; apply Hx; left; auto).
    apply IH; auto; try discriminate.
    + intros Hin; apply Hx; right; auto.
    + intros w Hw; apply Hb; right; auto.
Qed.

Lemma chain_single nx x : x < length nx -> chain (upd nx x None) (Some x) [x].
Proof.
  intros H. cbn [chain]. split; auto. apply nth_upd_eq; auto.
Qed.

(** ---- counting ---- *)
Lemma NoDup_app_l {A} (l1 l2 : list A) : NoDup (l1 ++ l2) -> NoDup l1.
Proof.
  induction l1 as [|x r IH]; intros H; [constructor|].
  inversion H as [|? ? Hx Hr]; subst. constructor; auto.
  intros Hin; apply Hx; apply in_or_app; auto.
Qed.

Lemma NoDup_app_r {A} (l1 l2 : list A) : NoDup (l1 ++ l2) -> NoDup l2.
Proof.
  induction l1 as [|x r IH]; intros H; auto.
  inversion H; subst; auto.
Qed.

Lemma NoDup_app_disj {A} (l1 l2 : list A) x : NoDup (l1 ++ l2) -> In x l1 -> In x l2 -> False.
Proof.
  induction l1 as [|y r IH]; intros H H1 H2; [destruct H1|].
  inversion H as [|? ? Hy Hr]; subst. destruct H1 as [->|H1].
  - apply Hy. apply in_or_app; auto.
  - apply IH; auto.
Qed.
