(** Preservation of [Inv] by the steps that touch shared words or several ghost lists:
    the arrival CAS, the reset, the popper's CAS, the wake-up push, the sleeper's push, return. *)
From Coq Require Import ZArith List Bool Lia Arith Permutation.
From MT Require Import Lib.Interleave Barrier.BarrierModel Barrier.BarrierLib Barrier.BarrierGhost
  Barrier.BarrierInv.
Import ListNotations.

Ltac inv_open HI :=
  let Hlen := fresh "Hlen" in
  destruct HI as [Hlen HT Harrs Hstk Hslp Hwk Hsum Hldr Hlog];
  destruct Hlen as (L1 & L2 & L3 & L4 & L5 & L6).

(** ---- successful arrival CAS ---- *)
Lemma inv_bcas_ok N s h t c th' :
  Inv N s h -> t < N -> mn s t = BCas c -> bstate s = c ->
  th' = (if (c =? nthr s - 1)%Z then {| main := BReset c; cb := CbNone |} else {| main := Susp; cb := CbPushRead |}) ->
  Inv N (set_thread (set_bstate s (c + 1)) t th')
        (mkG (gR h) (upd (ar h) t (S (nth t (ar h) 0))) (cl h) (ldr h) (t :: arrs h) (slp h) (acc h) (wk h)
             (zret h) (stk h) (snap h) (rets h)).
Proof.
  intros HI Ht Hm Hb Hth'.
  pose proof (not_susp_notin_stk N s h t HI ltac:(rewrite Hm; discriminate)) as (Hn1 & Hn2 & Hn3).
  pose proof (not_done0_notin_wk N s h t HI ltac:(rewrite Hm; discriminate)) as Hn4.
  inv_open HI.
  pose proof (HT t Ht) as HTt. unfold T in HTt. rewrite Hm in HTt.
  destruct HTt as (Tc & Tcl & Ta & Tz & Tlt).
  destruct Harrs as (A1 & A2 & A3).
  assert (Hnotin : ~ In t (arrs h)).
  { intros Hin. apply A3 in Hin. lia. }
  assert (Hlt : length (arrs h) < N) by (rewrite A1 in Hb; lia).
  assert (Hnb : forall u c0, u < N -> mn s u <> BReset c0).
  { intros u c0 Hu E. specialize (HT u Hu). unfold T in HT. rewrite E in HT. lia. }
  set (s' := set_thread (set_bstate s (c + 1)) t th').
  assert (Hoth : forall x, x <> t -> thr_at s' x = thr_at s x).
  { intros x Hx. subst s'. vw. updsimp. reflexivity. }
  assert (Hme : thr_at s' t = th').
  { subst s'. vw. updsimp. reflexivity. }
  assert (Harv : forall x, x <> t -> nth x (upd (ar h) t (S (nth t (ar h) 0))) 0 = arv h x).
  { intros x Hx. unfold arv. updsimp. reflexivity. }
  assert (Harvt : nth t (upd (ar h) t (S (nth t (ar h) 0))) 0 = S (gR h)).
  { updsimp. unfold arv in Ta. lia. }
  assert (Hmain' : main th' <> Done 0 /\ in_release (main th') = false /\ (main th' = Susp \/ exists c0, main th' = BReset c0)).
  { subst th'. destruct (c =? nthr s - 1)%Z; cbn [main]; repeat split; try discriminate; eauto. }
  destruct Hmain' as (Hnd & Hnr & Hms).
  constructor; cbn [gR ar cl ldr arrs slp acc wk zret stk snap rets].
  - subst s'. cbn [set_thread set_bstate thr nxt nthr]. rewrite !upd_length. repeat split; auto.
  - intros u Hu. destruct (Nat.eq_dec u t) as [->|Hne].
    + unfold T, mn, cbk. rewrite Hme. unfold arv, clv. cbn [ar cl gR arrs stk acc]. rewrite Harvt.
      unfold clv in Tcl. unfold arv in Tcl, Ta. subst th'.
      destruct (Z.eqb_spec c (nthr s - 1)) as [E|E]; cbn [main cb].
      * repeat split; auto; try lia. cbn [length]. rewrite A1 in Hb. lia.
      * repeat split; auto; try lia. left. split; [lia|left; reflexivity].
    + eapply T_frame; try apply (HT u Hu); try reflexivity; auto.
      * unfold arv. cbn [ar]. apply Harv; auto.
      * cbn [arrs]. split; [intros [E|H]; [congruence|auto]|intros H; right; auto].
  - refine (conj _ (conj _ _)).
    + subst s'. cbn [set_thread set_bstate bstate length]. rewrite Nat2Z.inj_succ. lia.
    + constructor; auto.
    + intros u [<-|Hin].
      * split; auto.
      * destruct (A3 u Hin) as [B1 B2]. split; auto. unfold arv. cbn [ar]. rewrite Harv; auto. congruence.
  - destruct Hstk as (S1 & S2 & S3 & S4). refine (conj _ (conj _ (conj _ _))); auto.
    + intros x Hx. apply asleep_keep with (s := s); auto. apply Hoth. intros ->; auto.
    + intros x Hx. assert (x <> t) by (intros ->; auto). split.
      * apply asleep_keep with (s := s); [|apply S4; auto]. apply Hoth; auto.
      * unfold arv. cbn [ar]. rewrite Harv by auto. apply S4; auto.
  - destruct Hslp as (S1 & S2). split; auto. intros x Hx. assert (x <> t) by (intros ->; auto).
    unfold mn, arv. cbn [ar]. rewrite Hoth, Harv by auto. apply S2; auto.
  - destruct Hwk as (S1 & S2). split; auto. intros x Hx. assert (x <> t) by (intros ->; auto).
    unfold mn. rewrite Hoth by auto. apply S2; auto.
  - exact Hsum.
  - intros HR. specialize (Hldr HR). unfold GL in *. cbn [ldr arrs slp acc wk zret stk snap].
    destruct (Nat.eq_dec (ldr h) t) as [E|E].
    + unfold mn in *. rewrite E in *. rewrite Hme. rewrite Hm in Hldr.
      destruct Hms as [-> | [c0 ->]]; exact Hldr.
    + unfold mn in *. rewrite Hoth by auto.
      assert (Hz : In t (zret h)) by (destruct (Tz HR); congruence).
      destruct (main (thr_at s (ldr h))); auto.
      * destruct Hldr as (_ & _ & _ & _ & _ & Z0 & _). rewrite Z0 in Hz. destruct Hz.
      * destruct Hldr as (_ & _ & _ & _ & _ & Z0 & _). rewrite Z0 in Hz. destruct Hz.
  - destruct Hlog as (G1 & G2 & G3). refine (conj G1 (conj G2 _)).
    intros HR. destruct (G3 HR) as [G3a G3b]. split; [|exact G3b]. rewrite G3a. unfold mn.
    destruct (Nat.eq_dec (ldr h) t) as [E|E].
    + rewrite E. rewrite Hme, Hnr. unfold mn in Hm. rewrite Hm. reflexivity.
    + rewrite Hoth; auto.
Qed.

(** ---- counting log entries ---- *)
Lemma cnt_cons k v u k' v' l :
  cnt k v ((u, k', v') :: l) = (if (Nat.eqb k' k && (v' =? v)%Z)%bool then 1 else 0) + cnt k v l.
Proof.
  unfold cnt. cbn [filter fst snd]. destruct (Nat.eqb k' k && (v' =? v)%Z)%bool; reflexivity.
Qed.

Lemma cnt_zero k v l : (forall u k' v', In (u, k', v') l -> k' <> k) -> cnt k v l = 0.
Proof.
  induction l as [|[[u k'] v'] r IH]; intros H; [reflexivity|].
  rewrite cnt_cons. rewrite IH by (intros; eapply H; right; eauto).
  destruct (Nat.eqb_spec k' k) as [E|E]; [|reflexivity].
  exfalso. eapply H; [left; reflexivity|exact E].
Qed.

(** ---- the reset by the last arriver ---- *)
Lemma inv_breset N s h t c th :
  Inv N s h -> t < N -> thr_at s t = th -> main th = BReset c ->
  Inv N (set_thread (set_bstate s 0) t (set_main th (after_pops c 0 None None)))
        (mkG (S (gR h)) (ar h) (cl h) t [] (tl (arrs h)) [] [] [] (stk h) (snap h) (rets h)).
Proof.
  intros HI Ht Hth Hm.
  assert (Hmt : mn s t = BReset c) by (unfold mn; rewrite Hth; exact Hm).
  pose proof (not_susp_notin_stk N s h t HI ltac:(rewrite Hmt; discriminate)) as (Hn1 & Hn2 & Hn3).
  inv_open HI.
  pose proof (HT t Ht) as HTt. unfold T in HTt. rewrite Hmt in HTt.
  destruct HTt as (Tc & Tcl & Ta & Tcv & Thd & Tlen).
  destruct Harrs as (A1 & A2 & A3).
  destruct (arrs h) as [|t0 rest] eqn:Earr; [discriminate|].
  cbn [hd_error] in Thd. inversion Thd; subst t0. cbn [tl].
  assert (Hall : forall u, u < N -> In u (t :: rest)).
  { apply nodup_full; auto. intros x Hx. apply A3; auto. }
  assert (Harv : forall u, u < N -> arv h u = S (gR h)).
  { intros u Hu. apply A3. apply Hall; auto. }
  pose proof (proj1 (NoDup_cons_iff _ _) A2) as [Hnr Hndr].
  assert (Hsusp : forall u, u < N -> u <> t -> mn s u = Susp /\ In u rest).
  { intros u Hu Hne. pose proof (HT u Hu) as HTu. unfold T in HTu. pose proof (Harv u Hu) as Ea.
    assert (Hir : In u rest) by (destruct (Hall u Hu); [congruence|assumption]).
    destruct (mn s u); try (exfalso; lia); try tauto.
    destruct HTu as (_ & _ & _ & _ & Hhd & _). rewrite Earr in Hhd. cbn [hd_error] in Hhd. congruence. }
  set (s' := set_thread (set_bstate s 0) t (set_main th (after_pops c 0 None None))).
  assert (Hoth : forall x, x <> t -> thr_at s' x = thr_at s x).
  { intros x Hx. subst s'. vw. updsimp. reflexivity. }
  assert (Hme : thr_at s' t = set_main th (after_pops c 0 None None)).
  { subst s'. vw. updsimp. reflexivity. }
  assert (Hcb : cb th = CbNone) by (unfold cbk in Tc; rewrite Hth in Tc; exact Tc).
  assert (Hc1 : (c = Z.of_nat N - 1)%Z) by exact Tcv.
  assert (Hlr : length rest = N - 1) by (cbn [length] in Tlen; lia).
  assert (Hap : (after_pops c 0 None None = PopRead c 0 None None /\ 2 <= N) \/
                (after_pops c 0 None None = Done 1 /\ N = 1)).
  { unfold after_pops. destruct (Z.ltb_spec 0 c); [left|right]; split; auto; lia. }
  (* the lists of the old round are empty: their members have not arrived in the new round *)
  assert (Hslp0 : slp h = []).
  { destruct (slp h) as [|x r] eqn:E; auto. destruct Hslp as (_ & S2).
    destruct (S2 x (or_introl eq_refl)) as (B1 & _ & B3). rewrite Harv in B3 by auto. lia. }
  assert (Hacc0 : acc h = []).
  { destruct (acc h) as [|x r] eqn:E; auto. destruct Hstk as (_ & _ & _ & S4).
    destruct (S4 x (or_introl eq_refl)) as ((B1 & _) & B3). rewrite Harv in B3 by auto. lia. }
  assert (Hwk0 : wk h = []).
  { destruct (wk h) as [|x r] eqn:E; auto. destruct Hwk as (_ & S2).
    destruct (S2 x (or_introl eq_refl)) as (B1 & B2). pose proof (HT x B1) as HTx. unfold T in HTx.
    rewrite B2 in HTx. rewrite Harv in HTx by auto. lia. }
  constructor; cbn [gR ar cl ldr arrs slp acc wk zret stk snap rets].
  - subst s'. cbn [set_thread set_bstate thr nxt nthr]. rewrite !upd_length. repeat split; auto.
  - intros u Hu. destruct (Nat.eq_dec u t) as [->|Hne].
    + unfold T, mn, cbk. rewrite Hme. cbn [set_main main cb gR ldr wk]. rewrite Hcb.
      unfold arv, clv in *. cbn [ar cl].
      destruct Hap as [[-> _]|[-> _]]; repeat split; auto; try lia.
    + destruct (Hsusp u Hu Hne) as [Hsu Hir].
      pose proof (HT u Hu) as HTu. unfold T in *. unfold mn, cbk, nx, arv, clv in *. rewrite Hoth by auto.
      cbn [gR ar cl ldr arrs slp acc stk]. rewrite Hsu in *.
      destruct HTu as (U1 & U2 & U3). split; auto. split.
      * right. pose proof (Harv u Hu) as Ea. unfold arv in Ea. repeat split; auto; lia.
      * subst s'. cbn [set_thread set_bstate nxt]. rewrite Hacc0 in U3.
        destruct (cb (thr_at s u)); cbn [In] in *; tauto.
  - subst s'. cbn [set_thread set_bstate bstate length]. refine (conj _ (conj _ _)); [reflexivity|constructor|intros u []].
  - destruct Hstk as (S1 & S2 & S3 & S4). refine (conj _ (conj _ (conj _ _))); auto.
    + rewrite app_nil_r. apply NoDup_app_l in S2. exact S2.
    + intros x Hx. apply asleep_keep with (s := s); auto. apply Hoth. intros ->; auto.
    + intros x [].
  - split; auto. intros x Hx.
    assert (Hxn : x < N) by (apply A3; right; auto).
    assert (Hxt : x <> t) by (intros ->; auto).
    repeat split; auto.
    + unfold mn. rewrite Hoth by auto. apply Hsusp; auto.
    + apply Harv; auto.
  - split; [constructor|intros x []].
  - split; [intros; lia|]. intros _. cbn [length]. split; auto. lia.
  - intros _. unfold GL, mn. cbn [ldr arrs slp acc wk zret]. rewrite Hme. cbn [set_main main].
    destruct Hap as [[-> Hn]|[-> Hn]].
    + repeat split; auto; try lia; try reflexivity.
    + split; auto. apply length_zero_iff_nil. lia.
  - destruct Hlog as (G1 & G2 & G3). refine (conj _ (conj _ _)).
    + intros u k v Hin. destruct (G1 u k v Hin). split; auto. lia.
    + intros k Hk. destruct (Nat.eq_dec k (gR h)) as [->|Hne]; [|apply G2; lia].
      assert (HR : 1 <= gR h) by lia. destruct (G3 HR) as [G3a G3b]. destruct Hsum as [_ Hs2].
      destruct (Hs2 HR) as [Hs3 Hlt]. rewrite G3a, G3b. split.
      * destruct (Nat.eq_dec (ldr h) t) as [E|E].
        -- rewrite E, Hmt. reflexivity.
        -- destruct (Hsusp (ldr h) Hlt E) as [-> _]. reflexivity.
      * rewrite Hslp0, Hacc0, Hwk0 in Hs3. cbn [length] in Hs3. lia.
    + intros _. unfold mn. rewrite Hme. cbn [set_main main].
      rewrite !cnt_zero by (intros u k' v' Hin; destruct (G1 u k' v' Hin); lia).
      destruct Hap as [[-> _]|[-> _]]; split; reflexivity.
Qed.

(** a thread with a pending callback is suspended *)
Lemma cb_pending_susp N s h t : Inv N s h -> t < N -> cbk s t <> CbNone -> mn s t = Susp.
Proof.
  intros HI Ht Hc. destruct HI as [_ HT _ _ _ _ _ _ _]. specialize (HT t Ht). unfold T in HT.
  destruct (mn s t); try reflexivity; try (exfalso; tauto).
Qed.

(** ---- the sleeper's callback reads top and links itself ---- *)
Lemma inv_cbread N s h t th :
  Inv N s h -> t < N -> thr_at s t = th -> cb th = CbPushRead ->
  Inv N (set_thread (set_next s t (top s)) t (set_cb th (CbPushCas (top s)))) h.
Proof.
  intros HI Ht Hth Hc.
  assert (Hcb : cbk s t = CbPushRead) by (unfold cbk; rewrite Hth; exact Hc).
  pose proof (cb_pending_susp N s h t HI Ht ltac:(rewrite Hcb; discriminate)) as Hmt.
  inv_open HI.
  pose proof (HT t Ht) as HTt. unfold T in HTt. rewrite Hmt, Hcb in HTt.
  destruct HTt as (Tcl & Td & Tn1 & Tn2).
  set (s' := set_thread (set_next s t (top s)) t (set_cb th (CbPushCas (top s)))).
  assert (Hoth : forall x, x <> t -> thr_at s' x = thr_at s x).
  { intros x Hx. subst s'. vw. updsimp. reflexivity. }
  assert (Hme : thr_at s' t = set_cb th (CbPushCas (top s))).
  { subst s'. vw. updsimp. reflexivity. }
  assert (Hmn : forall x, mn s' x = mn s x).
  { intros x. unfold mn. destruct (Nat.eq_dec x t) as [->|Hx]; [|rewrite Hoth; auto].
    rewrite Hme, Hth. reflexivity. }
  assert (Hnx : nxt s' = upd (nxt s) t (top s)) by reflexivity.
  destruct h as [R0 ar0 cl0 ldr0 arrs0 slp0 acc0 wk0 zret0 stk0 snap0 rets0].
  cbn [gR ar cl ldr arrs slp acc wk zret stk snap rets] in *.
  constructor; cbn [gR ar cl ldr arrs slp acc wk zret stk snap rets].
  - subst s'. cbn [set_thread set_next thr nxt nthr]. rewrite !upd_length. repeat split; auto.
  - intros u Hu. destruct (Nat.eq_dec u t) as [->|Hne].
    + unfold T. rewrite Hmn, Hmt. unfold cbk, nx. rewrite Hme, Hnx. cbn [set_cb cb]. updsimp.
      repeat split; auto.
    + eapply T_frame; try apply (HT u Hu); try reflexivity; auto.
      intros tp _. unfold nx. rewrite Hnx. updsimp. reflexivity.
  - exact Harrs.
  - destruct Hstk as (S1 & S2 & S3 & S4). refine (conj _ (conj _ (conj _ _))); auto.
    + rewrite Hnx. apply chain_upd_notin; auto.
    + intros x Hx. apply asleep_keep with (s := s); auto. apply Hoth. intros ->; auto.
    + intros x Hx. split; [|apply S4; auto].
      apply asleep_keep with (s := s); [|apply S4; auto]. apply Hoth. intros ->; auto.
  - destruct Hslp as (S1 & S2). split; auto. intros x Hx. rewrite Hmn. apply S2; auto.
  - destruct Hwk as (S1 & S2). split; auto. intros x Hx. rewrite Hmn. apply S2; auto.
  - exact Hsum.
  - intros HR. specialize (Hldr HR). unfold GL in *. cbn [ldr arrs slp acc wk zret stk snap] in *.
    rewrite Hmn, Hnx.
    destruct (mn s ldr0); auto.
    + destruct Hldr as (G1 & G2 & G3 & G4 & G5 & G6 & G7 & G8). repeat split; auto; try lia.
      apply chain_upd_notin; auto.
    + destruct Hldr as (G1 & G2 & G3 & G4 & G5 & G6 & G7 & G8 & G9 & G10). repeat split; auto; try lia.
      apply chain_upd_notin; auto.
    + destruct Hldr as (G1 & G2 & G3 & G4 & G5). repeat split; auto; try lia.
      apply chain_upd_notin; auto.
  - rewrite Hmn. exact Hlog.
Qed.

(** ---- the sleeper's callback CAS succeeds: it is on the stack ---- *)
Lemma inv_cbcas_ok N s h t th tp :
  Inv N s h -> t < N -> thr_at s t = th -> cb th = CbPushCas tp -> top s = tp ->
  Inv N (set_thread (set_top s (Some t)) t (set_cb th CbNone))
        (mkG (gR h) (ar h) (cl h) (ldr h) (arrs h) (slp h) (acc h) (wk h) (zret h) (t :: stk h) (snap h) (rets h)).
Proof.
  intros HI Ht Hth Hc Htop.
  assert (Hcb : cbk s t = CbPushCas tp) by (unfold cbk; rewrite Hth; exact Hc).
  pose proof (cb_pending_susp N s h t HI Ht ltac:(rewrite Hcb; discriminate)) as Hmt.
  inv_open HI.
  pose proof (HT t Ht) as HTt. unfold T in HTt. rewrite Hmt, Hcb in HTt.
  destruct HTt as (Tcl & Td & Tnx & Tn1 & Tn2).
  set (s' := set_thread (set_top s (Some t)) t (set_cb th CbNone)).
  assert (Hoth : forall x, x <> t -> thr_at s' x = thr_at s x).
  { intros x Hx. subst s'. vw. updsimp. reflexivity. }
  assert (Hme : thr_at s' t = set_cb th CbNone).
  { subst s'. vw. updsimp. reflexivity. }
  assert (Hmn : forall x, mn s' x = mn s x).
  { intros x. unfold mn. destruct (Nat.eq_dec x t) as [->|Hx]; [|rewrite Hoth; auto].
    rewrite Hme, Hth. reflexivity. }
  assert (Hnx : nxt s' = nxt s) by reflexivity.
  constructor; cbn [gR ar cl ldr arrs slp acc wk zret stk snap rets].
  - subst s'. cbn [set_thread set_top thr nxt nthr]. rewrite !upd_length. repeat split; auto.
  - intros u Hu. destruct (Nat.eq_dec u t) as [->|Hne].
    + unfold T. rewrite Hmn, Hmt. unfold cbk. rewrite Hme. cbn [set_cb cb gR arrs slp acc stk ldr].
      unfold arv, clv in *. cbn [ar cl]. repeat split; auto. left; left; reflexivity.
    + eapply T_frame; try apply (HT u Hu); try reflexivity; auto.
      cbn [stk]. split; [intros [E|H]; [congruence|auto]|intros H; right; auto].
  - exact Harrs.
  - destruct Hstk as (S1 & S2 & S3 & S4). refine (conj _ (conj _ (conj _ _))).
    + rewrite Hnx. subst s'. cbn [set_thread set_top top chain]. split; auto.
      unfold nx in Tnx. rewrite Tnx, <- Htop. exact S1.
    + cbn [app]. constructor; auto. intros Hin. apply in_app_or in Hin. tauto.
    + intros x [<-|Hx].
      * unfold asleep. rewrite Hmn. unfold cbk. rewrite Hme. auto.
      * apply asleep_keep with (s := s); auto. apply Hoth. intros ->; auto.
    + intros x Hx. split; [|apply S4; auto].
      apply asleep_keep with (s := s); [|apply S4; auto]. apply Hoth. intros ->; auto.
  - destruct Hslp as (S1 & S2). split; auto. intros x Hx. rewrite Hmn. apply S2; auto.
  - destruct Hwk as (S1 & S2). split; auto. intros x Hx. rewrite Hmn. apply S2; auto.
  - exact Hsum.
  - intros HR. specialize (Hldr HR). unfold GL in *. cbn [ldr arrs slp acc wk zret stk snap] in *.
    rewrite Hmn, Hnx.
    destruct (mn s (ldr h)); auto.
    destruct Hldr as (G1 & G2 & G3 & G4 & G5 & G6 & G7 & G8 & (pre & G9) & G10). repeat split; auto; try lia.
    exists (t :: pre). rewrite G9. reflexivity.
  - rewrite Hmn. exact Hlog.
Qed.

(** ---- return to the caller ---- *)
Lemma inv_ret N s h t th r :
  Inv N s h -> t < N -> thr_at s t = th -> main th = Done r ->
  Inv N (set_thread s t (set_main th Idle))
        (if (r =? 0)%Z then
           mkG (gR h) (ar h) (cl h) (ldr h) (arrs h) (slp h) (acc h) (remove Nat.eq_dec t (wk h)) (t :: zret h)
               (stk h) (snap h) ((t, nth t (cl h) 0, r) :: rets h)
         else
           mkG (gR h) (ar h) (cl h) (ldr h) (arrs h) (slp h) (acc h) (wk h) (zret h) (stk h) (snap h)
               ((t, nth t (cl h) 0, r) :: rets h)).
Proof.
  intros HI Ht Hth Hm.
  assert (Hmt : mn s t = Done r) by (unfold mn; rewrite Hth; exact Hm).
  pose proof (not_susp_notin_stk N s h t HI ltac:(rewrite Hmt; discriminate)) as (Hn1 & Hn2 & Hn3).
  inv_open HI.
  pose proof (HT t Ht) as HTt. unfold T in HTt. rewrite Hmt in HTt.
  destruct HTt as (Tc & Tcl & Ta & TR & Tr).
  set (s' := set_thread s t (set_main th Idle)).
  assert (Hoth : forall x, x <> t -> thr_at s' x = thr_at s x).
  { intros x Hx. subst s'. vw. updsimp. reflexivity. }
  assert (Hme : thr_at s' t = set_main th Idle).
  { subst s'. vw. updsimp. reflexivity. }
  assert (Hcb : cb th = CbNone) by (unfold cbk in Tc; rewrite Hth in Tc; exact Tc).
  assert (Hclt : nth t (cl h) 0 = gR h) by (unfold clv, arv in *; lia).
  assert (Hlen' : length (thr s') = N /\ length (nxt s') = N /\ length (ar h) = N /\ length (cl h) = N /\
                  nthr s' = Z.of_nat N /\ 1 <= N).
  { subst s'. cbn [set_thread thr nxt nthr]. rewrite !upd_length. repeat split; auto. }
  assert (Hstk' : forall l, (forall x, In x l -> asleep N s x) -> forall x, In x l -> asleep N s' x).
  { intros l Hl x Hx. apply asleep_keep with (s := s); auto. apply Hoth. intros ->.
    destruct (Hl t Hx) as (_ & E & _). congruence. }
  destruct Tr as [[-> Tl]|(-> & Tw & Tnl)]; cbn [Z.eqb].
  - (* the serial thread returns 1 *)
    assert (Hnw : ~ In t (wk h)).
    { intros Hin. destruct Hwk as (_ & S2). destruct (S2 t Hin). congruence. }
    constructor; cbn [gR ar cl ldr arrs slp acc wk zret stk snap rets]; auto.
    + intros u Hu. destruct (Nat.eq_dec u t) as [->|Hne].
      * unfold T, mn, cbk. rewrite Hme. cbn [set_main main cb gR ldr zret]. rewrite Hcb.
        unfold arv, clv in *. cbn [ar cl]. repeat split; auto.
      * eapply T_frame; try apply (HT u Hu); try reflexivity; auto.
    + destruct Hstk as (S1 & S2 & S3 & S4). refine (conj _ (conj _ (conj _ _))); auto.
      * apply Hstk'; auto.
      * intros x Hx. split; [|apply S4; auto]. apply (Hstk' (acc h)); auto. intros y Hy. apply S4; auto.
    + destruct Hslp as (S1 & S2). split; auto. intros x Hx. unfold mn. rewrite Hoth by (intros ->; auto).
      apply S2; auto.
    + destruct Hwk as (S1 & S2). split; auto. intros x Hx. unfold mn. rewrite Hoth by (intros ->; auto).
      apply S2; auto.
    + intros HR. specialize (Hldr HR). unfold GL in *. cbn [ldr arrs slp acc wk zret stk snap].
      unfold mn in *. rewrite <- Tl in *. rewrite Hme. rewrite Hth, Hm in Hldr. cbn [set_main main]. exact Hldr.
    + destruct Hlog as (G1 & G2 & G3). refine (conj _ (conj _ _)).
      * intros u k v [E|Hin]; [|apply G1 with (u := u); auto]. inversion E; subst u k v. split; auto. lia.
      * intros k Hk. rewrite !cnt_cons. rewrite Hclt.
        destruct (Nat.eqb_spec (gR h) k) as [E|E]; [lia|]. cbn [andb]. apply G2; auto.
      * intros HR. destruct (G3 HR) as [G3a G3b]. rewrite !cnt_cons, Hclt, Nat.eqb_refl. cbn [andb Z.eqb Pos.eqb].
        rewrite G3a, G3b. unfold mn. rewrite <- Tl. rewrite Hme. rewrite Hth, Hm. cbn [set_main main in_release].
        split; reflexivity.
  - (* a woken sleeper returns 0 *)
    constructor; cbn [gR ar cl ldr arrs slp acc wk zret stk snap rets]; auto.
    + intros u Hu. destruct (Nat.eq_dec u t) as [->|Hne].
      * unfold T, mn, cbk. rewrite Hme. cbn [set_main main cb gR ldr zret]. rewrite Hcb.
        unfold arv, clv in *. cbn [ar cl]. repeat split; auto. intros _. right. left. reflexivity.
      * eapply T_frame; try apply (HT u Hu); try reflexivity; auto.
        -- cbn [wk]. rewrite in_remove_iff. tauto.
        -- cbn [zret]. split; [intros [E|H]; [congruence|auto]|intros H; right; auto].
    + destruct Hstk as (S1 & S2 & S3 & S4). refine (conj _ (conj _ (conj _ _))); auto.
      * apply Hstk'; auto.
      * intros x Hx. split; [|apply S4; auto]. apply (Hstk' (acc h)); auto. intros y Hy. apply S4; auto.
    + destruct Hslp as (S1 & S2). split; auto. intros x Hx. unfold mn. rewrite Hoth by (intros ->; auto).
      apply S2; auto.
    + destruct Hwk as (S1 & S2). split; [apply remove_nodup; auto|]. intros x Hx.
      apply in_remove_iff in Hx. destruct Hx as [Hx Hne]. unfold mn. rewrite Hoth by auto. apply S2; auto.
    + destruct Hsum as (Q1 & Q2). split; [intros E; lia|]. intros HR. destruct (Q2 HR) as [Q3 Q4]. split; auto.
      destruct Hwk as (S1 & S2). pose proof (remove_length_nodup t (wk h) S1 Tw). cbn [length]. lia.
    + intros HR. specialize (Hldr HR). unfold GL in *. cbn [ldr arrs slp acc wk zret stk snap].
      unfold mn in *. rewrite Hoth by auto.
      destruct (main (thr_at s (ldr h))); auto.
      * destruct Hldr as (_ & _ & _ & _ & W0 & _). rewrite W0 in Tw. destruct Tw.
      * destruct Hldr as (_ & _ & _ & _ & W0 & _). rewrite W0 in Tw. destruct Tw.
    + destruct Hlog as (G1 & G2 & G3). refine (conj _ (conj _ _)).
      * intros u k v [E|Hin]; [|apply G1 with (u := u); auto]. inversion E; subst u k v. split; auto. lia.
      * intros k Hk. rewrite !cnt_cons. rewrite Hclt.
        destruct (Nat.eqb_spec (gR h) k) as [E|E]; [lia|]. cbn [andb]. apply G2; auto.
      * intros HR. destruct (G3 HR) as [G3a G3b]. rewrite !cnt_cons, Hclt, Nat.eqb_refl. cbn [andb Z.eqb length].
        rewrite G3a, G3b. unfold mn. rewrite Hoth by auto. split; reflexivity.
Qed.

Lemma NoDup_rotate {A} (x : A) l1 l2 : NoDup ((x :: l1) ++ l2) -> NoDup (l1 ++ l2 ++ [x]).
Proof.
  intros H. rewrite app_assoc. apply (Permutation_NoDup (l := x :: (l1 ++ l2))); auto.
  apply Permutation_cons_append.
Qed.

(** ---- the popper's CAS succeeds: [x] moves from the stack to the private list ---- *)
Lemma inv_popcas_ok N s h t th n i hd tl x s2 :
  Inv N s h -> t < N -> thr_at s t = th -> main th = PopCas n i hd tl x -> top s = Some x ->
  s2 = (let s1 := set_next (set_top s (get_next s x)) x None in
        match tl with Some y => set_next s1 y (Some x) | None => s1 end) ->
  Inv N (set_thread s2 t (set_main th (after_pops n (i + 1) (match tl with Some _ => hd | None => Some x end) (Some x))))
        (mkG (gR h) (ar h) (cl h) (ldr h) (arrs h) (remove Nat.eq_dec x (slp h)) (acc h ++ [x]) (wk h)
             (zret h) (List.tl (stk h)) (snap h) (rets h)).
Proof.
  intros HI Ht Hth Hm Htop Hs2.
  assert (Hmt : mn s t = PopCas n i hd tl x) by (unfold mn; rewrite Hth; exact Hm).
  pose proof (not_susp_notin_stk N s h t HI ltac:(rewrite Hmt; discriminate)) as (Hn1 & Hn2 & Hn3).
  pose proof (not_done0_notin_wk N s h t HI ltac:(rewrite Hmt; discriminate)) as Hn4.
  inv_open HI.
  pose proof (HT t Ht) as HTt. unfold T in HTt. rewrite Hmt in HTt.
  destruct HTt as (Tc & Tcl & Ta & TR & Tl).
  pose proof (Hldr TR) as HG. unfold GL in HG. rewrite <- Tl, Hmt in HG.
  destruct HG as (G1 & G2 & G3 & G4 & G5 & G6 & G7 & G8 & G9 & G10).
  destruct Hstk as (S1 & S2 & S3 & S4).
  destruct (stk h) as [|x0 rest] eqn:Estk; [cbn [chain] in S1; congruence|].
  cbn [chain] in S1. destruct S1 as [E1 S1]. rewrite Htop in E1. inversion E1; subst x0. clear E1.
  cbn [List.tl].
  assert (Hax : asleep N s x) by (apply S3; left; auto).
  destruct Hax as (Hxn & Hxm & Hxc).
  assert (Hxr : ~ In x rest /\ ~ In x (acc h) /\ NoDup (rest ++ acc h)).
  { cbn [app] in S2. apply NoDup_cons_iff in S2. destruct S2 as [B1 B2]. repeat split; auto;
    intros Hin; apply B1; apply in_or_app; auto. }
  destruct Hxr as (Hxr & Hxa & Hnd).
  assert (Hxs : In x (slp h) /\ arv h x = gR h).
  { pose proof (HT x Hxn) as HTx. unfold T in HTx. rewrite Hxm in HTx. destruct HTx as (_ & [[_ B]|B] & _).
    - rewrite G4 in B. destruct B.
    - destruct B as (B1 & _ & _ & [B|B]); [auto|contradiction]. }
  destruct Hxs as [Hxs Hxa0].
  assert (Hxt : x <> t) by (intros ->; congruence).
  assert (Hcb : cb th = CbNone) by (unfold cbk in Tc; rewrite Hth in Tc; exact Tc).
  assert (Hnda : NoDup (acc h)) by (apply NoDup_app_r in Hnd; exact Hnd).
  (* the new links *)
  set (nxt' := match acc h with
               | [] => upd (nxt s) x None
               | _ => upd (upd (nxt s) x None) (last (acc h) 0) (Some x)
               end).
  assert (Hs2n : nxt s2 = nxt' /\ top s2 = nth x (nxt s) None /\ thr s2 = thr s /\ nthr s2 = nthr s /\ bstate s2 = bstate s).
  { subst s2 nxt'. rewrite G8. unfold last_opt, get_next. destruct (acc h); cbn; repeat split; reflexivity. }
  destruct Hs2n as (Hnx2 & Htop2 & Hthr2 & Hnthr2 & Hbs2).
  assert (Hh' : (match tl with Some _ => hd | None => Some x end) = match acc h with [] => Some x | _ => hd end).
  { rewrite G8. unfold last_opt. destruct (acc h); reflexivity. }
  rewrite Hh'.
  assert (Hlast : acc h <> [] -> In (last (acc h) 0) (acc h)) by (apply last_in).
  assert (Hnxo : forall u, u <> x -> ~ In u (acc h) -> nth u nxt' None = nth u (nxt s) None).
  { intros u Hu1 Hu2. subst nxt'. destruct (acc h) as [|a0 r0] eqn:Ea.
    - updsimp. reflexivity.
    - rewrite nth_upd_neq; [rewrite nth_upd_neq; auto|]. intros E. apply Hu2. rewrite <- E. apply Hlast. discriminate. }
  assert (Hlen' : length nxt' = N).
  { subst nxt'. destruct (acc h); rewrite ?upd_length; auto. }
  assert (Hchain' : chain nxt' (match acc h with [] => Some x | _ => hd end) (acc h ++ [x])).
  { subst nxt'. destruct (acc h) as [|a0 r0] eqn:Ea.
    - cbn [app]. apply chain_single. lia.
    - apply chain_snoc; auto; try discriminate; try lia.
      intros y Hy. rewrite L2. apply S4; auto. }
  set (pc' := after_pops n (i + 1) match acc h with [] => Some x | _ => hd end (Some x)).
  set (s' := set_thread s2 t (set_main th pc')).
  assert (Hoth : forall u, u <> t -> thr_at s' u = thr_at s u).
  { intros u Hu. subst s'. unfold thr_at. cbn [set_thread thr]. rewrite Hthr2. updsimp. reflexivity. }
  assert (Hme : thr_at s' t = set_main th pc').
  { subst s'. unfold thr_at. cbn [set_thread thr]. rewrite Hthr2. updsimp. reflexivity. }
  assert (Hnx' : nxt s' = nxt') by (subst s'; cbn [set_thread nxt]; exact Hnx2).
  assert (Hsum2 : length (slp h) + length (acc h) = N - 1).
  { destruct Hsum as [_ Q]. destruct (Q TR) as [Q1 _]. rewrite G5, G6 in Q1. cbn [length] in Q1. lia. }
  assert (Hrem : S (length (remove Nat.eq_dec x (slp h))) = length (slp h)).
  { apply remove_length_nodup; auto. apply Hslp. }
  assert (Hpc : (pc' = PopRead n (i + 1) match acc h with [] => Some x | _ => hd end (Some x) /\ (i + 1 < n)%Z) \/
                (pc' = WPush n 0 match acc h with [] => Some x | _ => hd end /\ (i + 1 = n)%Z)).
  { subst pc'. unfold after_pops. destruct (Z.ltb_spec (i + 1) n); [left; split; auto|right].
    destruct (Z.ltb_spec 0 n); [split; auto; lia|lia]. }
  assert (Hrel : releasing pc' = true /\ in_release pc' = true).
  { destruct Hpc as [[-> _]|[-> _]]; split; reflexivity. }
  constructor; cbn [gR ar cl ldr arrs slp acc wk zret stk snap rets].
  - subst s'. cbn [set_thread thr nxt nthr]. rewrite Hthr2, Hnx2, Hnthr2, !upd_length. repeat split; auto.
  - intros u Hu. destruct (Nat.eq_dec u t) as [->|Hne]; [|destruct (Nat.eq_dec u x) as [->|Hnx]].
    + unfold T, mn, cbk. rewrite Hme. cbn [set_main main cb gR ldr]. rewrite Hcb. unfold arv, clv in *. cbn [ar cl].
      destruct Hpc as [[-> _]|[-> _]]; repeat split; auto.
    + pose proof (HT x Hu) as HTx. unfold T in *. unfold mn, cbk in *. rewrite Hoth by auto.
      rewrite Hxm in *. unfold cbk in Hxc. rewrite Hxc in *. unfold arv, clv in *.
      cbn [gR ar cl ldr arrs slp acc stk]. destruct HTx as (U1 & U2 & U3). split; auto. split.
      * right. destruct U2 as [[U2 U2']|U2]; [rewrite G4 in U2'; destruct U2'|].
        destruct U2 as (V1 & V2 & V3 & V4). repeat split; auto. right. apply in_or_app. right. left. reflexivity.
      * right. apply in_or_app. right. left. reflexivity.
    + eapply T_frame; try apply (HT u Hu); try reflexivity; auto.
      * intros tp Hcp. unfold nx. rewrite Hnx'. apply Hnxo; auto.
        intros Hin. destruct (S4 u Hin) as ((_ & _ & B) & _). congruence.
      * cbn [slp]. rewrite in_remove_iff. tauto.
      * cbn [acc]. rewrite in_app_iff. cbn [In]. split; [intros [H|[H|[]]]; [auto|congruence]|auto].
      * cbn [stk]. rewrite Estk. cbn [In]. split; [auto|intros [H|H]; [congruence|auto]].
  - subst s'. cbn [set_thread bstate]. rewrite Hbs2. exact Harrs.
  - refine (conj _ (conj _ (conj _ _))).
    + rewrite Hnx'. subst s'. cbn [set_thread top]. rewrite Htop2.
      eapply chain_frame; [|exact S1]. intros y Hy. apply Hnxo.
      * intros ->; auto.
      * intros Hin. eapply NoDup_app_disj; eauto.
    + apply NoDup_rotate. exact S2.
    + intros y Hy. apply asleep_keep with (s := s).
      * apply Hoth. intros ->. destruct (S3 t (or_intror Hy)) as (_ & E & _). congruence.
      * apply S3. right; auto.
    + intros y Hy. apply in_app_or in Hy. destruct Hy as [Hy|[<-|[]]].
      * destruct (S4 y Hy) as [B1 B2]. split; auto. apply asleep_keep with (s := s); auto.
        apply Hoth. intros ->. contradiction.
      * split; [|exact Hxa0]. apply asleep_keep with (s := s); [apply Hoth; auto|].
        repeat split; auto.
  - destruct Hslp as (P1 & P2). split; [apply remove_nodup; auto|]. intros y Hy.
    apply in_remove_iff in Hy. destruct Hy as [Hy _]. unfold mn. rewrite Hoth by (intros ->; auto).
    apply P2; auto.
  - destruct Hwk as (P1 & P2). split; auto. intros y Hy. rewrite G5 in Hy. destruct Hy.
  - destruct Hsum as (Q1 & Q2). split; [intros E; lia|]. intros _. destruct (Q2 TR) as [_ Q3]. split; auto.
    rewrite app_length. cbn [length]. rewrite G5, G6. cbn [length]. lia.
  - intros _. unfold GL, mn. cbn [ldr arrs slp acc wk zret stk snap]. rewrite <- Tl. rewrite Hme. cbn [set_main main].
    rewrite Hnx'.
    assert (Hla : Z.of_nat (length (acc h ++ [x])) = (i + 1)%Z).
    { rewrite app_length. cbn [length]. lia. }
    destruct Hpc as [[-> Hlt]|[-> Heq]].
    + repeat split; auto; try lia. rewrite last_opt_snoc. reflexivity.
    + repeat split; auto; try lia. apply length_zero_iff_nil. lia.
  - destruct Hlog as (Q1 & Q2 & Q3). refine (conj Q1 (conj Q2 _)).
    intros _. destruct (Q3 TR) as [Q3a Q3b]. split; [|exact Q3b]. rewrite Q3a. unfold mn.
    rewrite <- Tl. rewrite Hme. cbn [set_main main]. destruct Hrel as [_ ->]. unfold mn in Hmt. rewrite Hmt. reflexivity.
Qed.

(** ---- the last arriver pushes a popped sleeper to the run queue ---- *)
Lemma inv_wpush N s h t th n i x :
  Inv N s h -> t < N -> thr_at s t = th -> main th = WPush n i (Some x) ->
  Inv N (set_thread (set_thread s x (set_main (thr_at s x) (Done 0))) t
           (set_main th (if (i + 1 <? n)%Z then WPush n (i + 1) (get_next s x) else Done SERIAL)))
        (mkG (gR h) (ar h) (cl h) (ldr h) (arrs h) (slp h) (List.tl (acc h)) (x :: wk h) (zret h) (stk h) (snap h)
             (rets h))
  /\ mn s x = Susp /\ x < N /\ x <> t.
Proof.
  intros HI Ht Hth Hm.
  assert (Hmt : mn s t = WPush n i (Some x)) by (unfold mn; rewrite Hth; exact Hm).
  pose proof (not_susp_notin_stk N s h t HI ltac:(rewrite Hmt; discriminate)) as (Hn1 & Hn2 & Hn3).
  pose proof (not_done0_notin_wk N s h t HI ltac:(rewrite Hmt; discriminate)) as Hn4.
  inv_open HI.
  pose proof (HT t Ht) as HTt. unfold T in HTt. rewrite Hmt in HTt.
  destruct HTt as (Tc & Tcl & Ta & TR & Tl).
  pose proof (Hldr TR) as HG. unfold GL in HG. rewrite <- Tl, Hmt in HG.
  destruct HG as (G1 & G2 & G3 & G4 & G5).
  destruct Hstk as (S1 & S2 & S3 & S4).
  destruct (acc h) as [|x0 acc'] eqn:Eacc; [cbn [chain] in G5; congruence|].
  cbn [chain] in G5. destruct G5 as [E1 G5]. inversion E1; subst x0. clear E1. cbn [List.tl].
  destruct (S4 x (or_introl eq_refl)) as ((Hxn & Hxm & Hxc) & Hxa).
  assert (Hxt : x <> t) by (intros ->; congruence).
  assert (Hnd : ~ In x (stk h) /\ ~ In x acc' /\ NoDup (stk h ++ acc')).
  { split; [|split].
    - intros Hin. eapply NoDup_app_disj; eauto. left; auto.
    - apply NoDup_app_r in S2. apply NoDup_cons_iff in S2. tauto.
    - eapply NoDup_remove_1; eauto. }
  destruct Hnd as (Hxs & Hxa' & Hnd).
  assert (Hxw : ~ In x (wk h)).
  { intros Hin. destruct Hwk as (_ & P2). destruct (P2 x Hin). congruence. }
  split; [|auto].
  set (pc' := if (i + 1 <? n)%Z then WPush n (i + 1) (get_next s x) else Done SERIAL).
  set (s' := set_thread (set_thread s x (set_main (thr_at s x) (Done 0))) t (set_main th pc')).
  assert (Hoth : forall u, u <> t -> u <> x -> thr_at s' u = thr_at s u).
  { intros u Hu1 Hu2. subst s'. vw. updsimp. reflexivity. }
  assert (Hme : thr_at s' t = set_main th pc').
  { subst s'. vw. updsimp. reflexivity. }
  assert (Hmx : thr_at s' x = set_main (thr_at s x) (Done 0)).
  { subst s'. vw. rewrite nth_upd_neq by auto. updsimp. reflexivity. }
  assert (Hcb : cb th = CbNone) by (unfold cbk in Tc; rewrite Hth in Tc; exact Tc).
  assert (Hpc : (pc' = WPush n (i + 1) (nth x (nxt s) None) /\ (i + 1 < n)%Z) \/ (pc' = Done 1 /\ (i + 1 = n)%Z)).
  { subst pc'. unfold get_next, SERIAL. destruct (Z.ltb_spec (i + 1) n); [left; split; auto|right; split; auto; lia]. }
  assert (Hrel : in_release pc' = true) by (destruct Hpc as [[-> _]|[-> _]]; reflexivity).
  cbn [length] in G3.
  assert (Hkeep : forall y, y <> x -> asleep N s y -> asleep N s' y).
  { intros y Hy Hay. apply asleep_keep with (s := s); auto. apply Hoth; auto.
    intros ->. destruct Hay as (_ & E & _). congruence. }
  constructor; cbn [gR ar cl ldr arrs slp acc wk zret stk snap rets].
  - subst s'. cbn [set_thread thr nxt nthr]. rewrite !upd_length. repeat split; auto.
  - intros u Hu. destruct (Nat.eq_dec u t) as [->|Hne]; [|destruct (Nat.eq_dec u x) as [->|Hnx]].
    + unfold T, mn, cbk. rewrite Hme. cbn [set_main main cb gR ldr wk]. rewrite Hcb. unfold arv, clv in *. cbn [ar cl].
      destruct Hpc as [[-> _]|[-> _]]; repeat split; auto.
    + pose proof (HT x Hu) as HTx. unfold T in *. unfold mn, cbk in *. rewrite Hmx. cbn [set_main main cb].
      rewrite Hxm in HTx. unfold cbk in Hxc. rewrite Hxc in *. unfold arv, clv in *. cbn [gR ar cl ldr wk].
      destruct HTx as (U1 & U2 & U3). repeat split; auto. right. repeat split; auto; try congruence. left; auto.
    + eapply T_frame; try apply (HT u Hu); try reflexivity; auto.
      * cbn [acc]. rewrite Eacc. cbn [In]. split; [auto|intros [H|H]; [congruence|auto]].
      * cbn [wk]. cbn [In]. split; [intros [H|H]; [congruence|auto]|auto].
  - exact Harrs.
  - refine (conj _ (conj _ (conj _ _))); auto.
    + intros y Hy. apply Hkeep; auto. intros ->; auto.
    + intros y Hy. destruct (S4 y (or_intror Hy)) as [B1 B2]. split; auto. apply Hkeep; auto. intros ->; auto.
  - destruct Hslp as (P1 & P2). rewrite G4. split; [constructor|intros y []].
  - destruct Hwk as (P1 & P2). split; [constructor; auto|]. intros y [<-|Hy].
    + split; auto. unfold mn. rewrite Hmx. reflexivity.
    + destruct (P2 y Hy) as [B1 B2]. split; auto. unfold mn. rewrite Hoth; auto; intros ->; congruence.
  - destruct Hsum as (Q1 & Q2). split; [intros E; lia|]. intros _. destruct (Q2 TR) as [Q3 Q4]. split; auto.
    cbn [length] in *. lia.
  - intros _. unfold GL, mn. cbn [ldr arrs slp acc wk zret stk snap]. rewrite <- Tl. rewrite Hme. cbn [set_main main].
    destruct Hpc as [[-> Hlt]|[-> Heq]].
    + repeat split; auto; try lia.
    + split; auto. apply length_zero_iff_nil. lia.
  - destruct Hlog as (Q1 & Q2 & Q3). refine (conj Q1 (conj Q2 _)).
    intros _. destruct (Q3 TR) as [Q3a Q3b]. split; [|exact Q3b]. rewrite Q3a. unfold mn.
    rewrite <- Tl. rewrite Hme. cbn [set_main main]. rewrite Hrel. unfold mn in Hmt. rewrite Hmt. reflexivity.
Qed.
