(** Preservation of [Inv] by the steps that touch shared words or several ghost lists:
    the arrival CAS, the reset, the popper's CAS, the wake-up push, the sleeper's push, return. *)
From Coq Require Import ZArith List Bool Lia Arith Permutation.
From MT Require Import Lib.Interleave Barrier.BarrierModel Barrier.BarrierLib Barrier.BarrierGhost
  Barrier.BarrierInv.
Import ListNotations.

Ltac inv_open HI :=
  let Hlen := fresh "Hlen" in
  destruct HI as [Hlen HT Harrs Hstk Hslp Hwk Hsum Hldr Hlog];
  destruct Hlen as (L1 & L2 & L3 & L4 & L5 & L6).

(** ---- successful arrival CAS ---- *)
Lemma inv_bcas_ok N s h t c th' :
  Inv N s h -> t < N -> mn s t = BCas c -> bstate s = c ->
  th' = (if (c =? nthr s - 1)%Z then {| main := BReset c; cb := CbNone |} else {| main := Susp; cb := CbPushRead |}) ->
  Inv N (set_thread (set_bstate s (c + 1)) t th')
        (mkG (gR h) (upd (ar h) t (S (nth t (ar h) 0))) (cl h) (ldr h) (t :: arrs h) (slp h) (acc h) (wk h)
             (zret h) (stk h) (snap h) (rets h)).
Proof.
  intros HI Ht Hm Hb Hth'.
  pose proof (not_susp_notin_stk N s h t HI ltac:(rewrite Hm; discriminate)) as (Hn1 & Hn2 & Hn3).
  pose proof (not_done0_notin_wk N s h t HI ltac:(rewrite Hm; discriminate)) as Hn4.
  inv_open HI.
  pose proof (HT t Ht) as HTt. unfold T in HTt. rewrite Hm in HTt.
  destruct HTt as (Tc & Tcl & Ta & Tz & Tlt).
  destruct Harrs as (A1 & A2 & A3).
  assert (Hnotin : ~ In t (arrs h)).
  { intros Hin. apply A3 in Hin. lia. }
  assert (Hlt : length (arrs h) < N) by (rewrite A1 in Hb; lia).
  assert (Hnb : forall u c0, u < N -> mn s u <> BReset c0).
  { intros u c0 Hu E. specialize (HT u Hu). unfold T in HT. rewrite E in HT. lia. }
  set (s' := set_thread (set_bstate s (c + 1)) t th').
  assert (Hoth : forall x, x <> t -> thr_at s' x = thr_at s x).
  { intros x Hx. subst s'. vw. updsimp. reflexivity. }
  assert (Hme : thr_at s' t = th').
  { subst s'. vw. updsimp. reflexivity. }
  assert (Harv : forall x, x <> t -> nth x (upd (ar h) t (S (nth t (ar h) 0))) 0 = arv h x).
  { intros x Hx. unfold arv. updsimp. reflexivity. }
  assert (Harvt : nth t (upd (ar h) t (S (nth t (ar h) 0))) 0 = S (gR h)).
  { updsimp. unfold arv in Ta. lia. }
  assert (Hmain' : main th' <> Done 0 /\ in_release (main th') = false /\ (main th' = Susp \/ exists c0, main th' = BReset c0)).
  { subst th'. destruct (c =? nthr s - 1)%Z; cbn [main]; repeat split; try discriminate; eauto. }
  destruct Hmain' as (Hnd & Hnr & Hms).
  constructor; cbn [gR ar cl ldr arrs slp acc wk zret stk snap rets].
  - subst s'. cbn [set_thread set_bstate thr nxt nthr]. rewrite !upd_length. repeat split; auto.
  - intros u Hu. destruct (Nat.eq_dec u t) as [->|Hne].
    + unfold T, mn, cbk. rewrite Hme. unfold arv, clv. cbn [ar cl gR arrs stk acc]. rewrite Harvt.
      unfold clv in Tcl. unfold arv in Tcl, Ta. subst th'.
      destruct (Z.eqb_spec c (nthr s - 1)) as [E|E]; cbn [main cb].
      * repeat split; auto; try lia. cbn [length]. rewrite A1 in Hb. lia.
      * repeat split; auto; try lia. left. split; [lia|left; reflexivity].
    + eapply T_frame; try apply (HT u Hu); try reflexivity; auto.
      * unfold arv. cbn [ar]. apply Harv; auto.
      * cbn [arrs]. split; [intros [E|H]; [congruence|auto]|intros H; right; auto].
  - refine (conj _ (conj _ _)).
    + subst s'. cbn [set_thread set_bstate bstate length]. rewrite Nat2Z.inj_succ. lia.
    + constructor; auto.
    + intros u [<-|Hin].
      * split; auto.
      * destruct (A3 u Hin) as [B1 B2]. split; auto. unfold arv. cbn [ar]. rewrite Harv; auto. congruence.
  - destruct Hstk as (S1 & S2 & S3 & S4). refine (conj _ (conj _ (conj _ _))); auto.
    + intros x Hx. apply asleep_keep with (s := s); auto. apply Hoth. intros ->; auto.
    + intros x Hx. assert (x <> t) by (intros ->; auto). split.
      * apply asleep_keep with (s := s); [|apply S4; auto]. apply Hoth; auto.
      * unfold arv. cbn [ar]. rewrite Harv by auto. apply S4; auto.
  - destruct Hslp as (S1 & S2). split; auto. intros x Hx. assert (x <> t) by (intros ->; auto).
    unfold mn, arv. cbn [ar]. rewrite Hoth, Harv by auto. apply S2; auto.
  - destruct Hwk as (S1 & S2). split; auto. intros x Hx. assert (x <> t) by (intros ->; auto).
    unfold mn. rewrite Hoth by auto. apply S2; auto.
  - exact Hsum.
  - intros HR. specialize (Hldr HR). unfold GL in *. cbn [ldr arrs slp acc wk zret stk snap].
    destruct (Nat.eq_dec (ldr h) t) as [E|E].
    + unfold mn in *. rewrite E in *. rewrite Hme. rewrite Hm in Hldr.
      destruct Hms as [-> | [c0 ->]]; exact Hldr.
    + unfold mn in *. rewrite Hoth by auto.
      assert (Hz : In t (zret h)) by (destruct (Tz HR); congruence).
      destruct (main (thr_at s (ldr h))); auto.
      * destruct Hldr as (_ & _ & _ & _ & _ & Z0 & _). rewrite Z0 in Hz. destruct Hz.
      * destruct Hldr as (_ & _ & _ & _ & _ & Z0 & _). rewrite Z0 in Hz. destruct Hz.
  - destruct Hlog as (G1 & G2 & G3). refine (conj G1 (conj G2 _)).
    intros HR. destruct (G3 HR) as [G3a G3b]. split; [|exact G3b]. rewrite G3a. unfold mn.
    destruct (Nat.eq_dec (ldr h) t) as [E|E].
    + rewrite E. rewrite Hme, Hnr. unfold mn in Hm. rewrite Hm. reflexivity.
    + rewrite Hoth; auto.
Qed.
