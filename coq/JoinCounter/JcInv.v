(** The inductive invariant of the join counter (DESIGN.md Appendix B.5) and its preservation
    by every step of JcModel.step, for every N in the representable range, every number of
    threads and every schedule. *)
From Coq Require Import ZArith List Bool Lia Permutation.
From MT Require Import Lib.Interleave JoinCounter.JcModel JoinCounter.JcProofs.
Import ListNotations.
Local Open Scope Z_scope.

(* ---- quantities the invariant speaks about ---- *)
Definition gD (s : state) : Z := gdec (gh s).          (* successful dec CASes *)
Definition gU (s : state) : Z := gpush (gh s).         (* pushes *)
Definition gC (s : state) : Z := gcalls (gh s).        (* Dec calls *)
Definition gF (s : state) : option nat := gfinal (gh s).

Definition regz (th : thread) : Z := if reg th then 1 else 0.
Definition pendz (th : thread) : Z := match cb th with CbEnq => 1 | CbNone => 0 end.
Definition inflp (p : pc) : Z := match p with DRead | DCas _ => 1 | _ => 0 end.
Definition inflz (th : thread) : Z := inflp (main th).

Definition nreg (s : state) : Z := sumf regz (thr s).    (* threads whose registration CAS succeeded *)
Definition npend (s : state) : Z := sumf pendz (thr s).  (* registered, enqueue still pending *)
Definition ninfl (s : state) : Z := sumf inflz (thr s).  (* Dec calls before their successful CAS *)

(** the private list of the final decrementer *)
Definition fheldl (g : option nat) (l : list thread) : list nat :=
  match g with
  | Some f => match nth_error l f with Some th => held (main th) | None => [] end
  | None => []
  end.
Definition fheld (s : state) : list nat := fheldl (gF s) (thr s).

Definition lenz {A} (l : list A) : Z := Z.of_nat (length l).

(** where the final decrementer is in its wake-up phase *)
Definition fphase (s : state) (p : pc) : Prop :=
  match p with
  | KDeq n i acc => n = nreg s /\ gU s = 0
  | KPush n i rest => n = nreg s /\ gU s = i
  | _ => gU s = nreg s
  end.

(** per-thread part: what the thread's own locals say *)
Definition tloc (s : state) (t : nat) (th : thread) : Prop :=
  match main th with
  | WCas s0 => Z.land s0 (jmask s) <> jn s /\ reg th = false
  | DCas s0 => Z.land s0 (jmask s) < jn s
  | KDeq n i acc => gF s = Some t /\ i = lenz acc /\ 0 <= i < n
  | KPush n i rest => gF s = Some t /\ 0 <= i /\ i + lenz rest = n /\ i < n
  | Excess => jn s < gC s
  | Done Wait r => r = 0 /\ gD s = jn s
  | _ => True
  end.

Definition tinv (s : state) (t : nat) (th : thread) : Prop :=
  (cb th = CbEnq -> main th = Susp) /\
  (main th = Susp -> reg th = true /\ (cb th = CbEnq \/ In t (sq s) \/ In t (fheld s))) /\
  (reg th = true -> main th = Susp \/ gD s = jn s) /\
  tloc s t th.

(** global part *)
Record ginv (s : state) : Prop := {
  iv_bits : 0 <= jbits s <= 62;
  iv_n : 0 <= jn s < 2 ^ jbits s;
  iv_mask : jmask s = 2 ^ jbits s - 1;
  iv_fit : lenz (thr s) < 2 ^ (63 - jbits s);
  iv_word : word s = nreg s * 2 ^ jbits s + gD s;
  iv_dec : 0 <= gD s <= jn s;
  iv_count : nreg s = npend s + lenz (sq s) + lenz (fheld s) + gU s;
  iv_nofinal : gF s = None -> gU s = 0 /\ (gD s = jn s -> nreg s = 0);
  iv_final : forall f, gF s = Some f ->
            gD s = jn s /\ exists th, get_thread s f = Some th /\ fphase s (main th);
  iv_budget : gD s + ninfl s <= gC s;
  iv_members : forall x, In x (sq s ++ fheld s) ->
              exists th, get_thread s x = Some th /\ main th = Susp /\ cb th = CbNone;
  iv_nodup : NoDup (sq s ++ fheld s)
}.

Definition Inv (s : state) : Prop :=
  ginv s /\ forall t th, get_thread s t = Some th -> tinv s t th.

(* ---- small facts ---- *)
Ltac sred :=
  cbn [set_thread set_thr set_word set_sq set_gh g_dec g_call g_push g_final
       thr sq word jn jbits jmask gh gcalls gdec gpush gfinal set_main set_cb main cb reg] in *.

Ltac unf := unfold nreg, npend, ninfl, fheld, gD, gU, gC, gF, get_thread, lenz in *.

Lemma held_nonwaker p : waker p = false -> held p = [].
Proof. destruct p; cbn; intros H; try reflexivity; discriminate. Qed.

Lemma regz_bounds th : 0 <= regz th <= 1.
Proof. unfold regz. destruct (reg th); lia. Qed.
Lemma pendz_bounds th : 0 <= pendz th <= 1.
Proof. unfold pendz. destruct (cb th); lia. Qed.
Lemma inflz_bounds th : 0 <= inflz th <= 1.
Proof. unfold inflz, inflp. destruct (main th); lia. Qed.

Lemma fheldl_upd_keep g l t th th' :
  nth_error l t = Some th -> held (main th') = held (main th) -> fheldl g (upd l t th') = fheldl g l.
Proof.
  intros H Hh. destruct g as [f|]; [|reflexivity]. cbn [fheldl].
  destruct (Nat.eq_dec t f) as [e|ne].
  - subst f. rewrite (nth_upd_same l t th' th H), H. exact Hh.
  - rewrite nth_upd_other by exact ne. reflexivity.
Qed.

Lemma fheldl_upd_final l t th th' :
  nth_error l t = Some th -> fheldl (Some t) (upd l t th') = held (main th').
Proof. intros H. cbn [fheldl]. rewrite (nth_upd_same l t th' th H). reflexivity. Qed.

Lemma fheldl_upd_other g l t th' : g <> Some t -> fheldl g (upd l t th') = fheldl g l.
Proof.
  intros H. destruct g as [f|]; [|reflexivity]. cbn [fheldl].
  rewrite nth_upd_other; [reflexivity|]. intros e. apply H. subst. reflexivity.
Qed.

Lemma fphase_ext s s' p : nreg s' = nreg s -> gU s' = gU s -> fphase s p -> fphase s' p.
Proof. intros H1 H2. unfold fphase. destruct p; rewrite ?H1, ?H2; auto. Qed.

(** the part of the state other threads' local invariants depend on may change as follows *)
Lemma tinv_stable s s' u th :
  jn s' = jn s -> jmask s' = jmask s ->
  (main th = Susp -> In u (sq s) \/ In u (fheld s) -> In u (sq s') \/ In u (fheld s')) ->
  (gD s = jn s -> gD s' = jn s) ->
  (gF s = Some u -> gF s' = Some u) ->
  gC s <= gC s' ->
  tinv s u th -> tinv s' u th.
Proof.
  intros Hn Hm Hmem Hd Hf Hc (T1 & T2 & T3 & T4).
  unfold tinv, tloc in *. rewrite Hn, Hm. repeat split.
  - exact T1.
  - apply T2. assumption.
  - destruct (T2 H) as (_ & [c | m]); [left; exact c | right; apply Hmem; assumption].
  - intros Hr. destruct (T3 Hr) as [a | b]; [left; exact a | right; apply Hd; exact b].
  - destruct (main th) as [ | | | | | | | | | o r]; try exact T4.
    + destruct T4 as (a & b & c). repeat split; auto; lia.
    + destruct T4 as (a & b & c & d). repeat split; auto; lia.
    + lia.
    + destruct o; [|exact I]. destruct T4 as (a & b). split; [exact a | apply Hd; exact b].
Qed.

Lemma low_is_dec s : ginv s -> Z.land (word s) (jmask s) = gD s.
Proof.
  intros G. rewrite (iv_word s G), (iv_mask s G). apply low_of_pack.
  - apply (iv_bits s G).
  - pose proof (iv_dec s G). pose proof (iv_n s G). lia.
Qed.

Lemma high_is_reg s : ginv s -> Z.shiftr (word s) (jbits s) = nreg s.
Proof.
  intros G. rewrite (iv_word s G). apply high_of_pack.
  - apply (iv_bits s G).
  - pose proof (iv_dec s G). pose proof (iv_n s G). lia.
Qed.

Lemma nreg_bounds s : 0 <= nreg s <= lenz (thr s).
Proof. unfold nreg, lenz. apply sumf_bounds. exact regz_bounds. Qed.

Lemma final_when_below s : ginv s -> gD s <> jn s -> gF s = None.
Proof.
  intros G H. destruct (gF s) as [f|] eqn:E; [|reflexivity].
  destruct (iv_final s G f E) as (Hd & _). contradiction.
Qed.

Lemma not_susp_cbnone s t th : tinv s t th -> main th <> Susp -> cb th = CbNone.
Proof.
  intros (T1 & _) H. destruct (cb th) eqn:E; [reflexivity|]. exfalso. apply H. apply T1. reflexivity.
Qed.

(* ------------------------------------------------------------------------------------ *)
(** * preservation, step kind by step kind *)

(** a step that only moves thread [t] between pcs that are neither suspended nor inside the
    wake-up loops, touches nothing shared, and possibly counts a new Dec call (ghost) *)
Definition with_calls (s : state) (c : Z) : state :=
  set_gh s {| gcalls := c; gdec := gD s; gpush := gU s; gfinal := gF s |}.

Lemma with_calls_id s : with_calls s (gC s) = s.
Proof. destruct s as [a b c d e f g]. destruct g. reflexivity. Qed.

Lemma inv_local_gen s t th p' c' :
  Inv s -> get_thread s t = Some th ->
  waker (main th) = false -> main th <> Susp -> waker p' = false -> p' <> Susp ->
  gC s <= c' -> gC s + inflp p' - inflp (main th) <= c' ->
  tinv s t (set_main th p') ->
  Inv (set_thread (with_calls s c') t (set_main th p')).
Proof.
  intros (G & T) Hg Hw Hs Hw' Hs' Hc1 Hc2 Hnew.
  set (s' := set_thread (with_calls s c') t (set_main th p')).
  assert (Ereg : nreg s' = nreg s).
  { unfold s', with_calls. unf. sred. rewrite (sumf_upd _ _ _ _ _ Hg). unfold regz. sred. lia. }
  assert (Epend : npend s' = npend s).
  { unfold s', with_calls. unf. sred. rewrite (sumf_upd _ _ _ _ _ Hg). unfold pendz. sred. lia. }
  assert (Einfl : ninfl s' = ninfl s - inflp (main th) + inflp p').
  { unfold s', with_calls. unf. sred. rewrite (sumf_upd _ _ _ _ _ Hg). unfold inflz. sred. lia. }
  assert (Eheld : fheld s' = fheld s).
  { unfold s', with_calls. unf. sred. apply (fheldl_upd_keep _ _ _ th); [exact Hg|].
    sred. rewrite (held_nonwaker _ Hw), (held_nonwaker _ Hw'). reflexivity. }
  assert (Eother : forall u, u <> t -> get_thread s' u = get_thread s u).
  { intros u Hu. unfold s', with_calls. unf. sred. apply nth_upd_other. auto. }
  assert (Esame : get_thread s' t = Some (set_main th p')).
  { unfold s', with_calls. unf. sred. apply (nth_upd_same _ _ _ th). exact Hg. }
  assert (EC : gC s' = c') by reflexivity.
  split.
  - constructor.
    + apply (iv_bits s G).
    + apply (iv_n s G).
    + apply (iv_mask s G).
    + unfold s', with_calls. unf. sred. rewrite upd_length. apply (iv_fit s G).
    + rewrite Ereg. apply (iv_word s G).
    + apply (iv_dec s G).
    + rewrite Ereg, Epend, Eheld. apply (iv_count s G).
    + rewrite Ereg. apply (iv_nofinal s G).
    + intros f Hf. destruct (iv_final s G f Hf) as (Hd & thf & Hgf & Hph). split; [exact Hd|].
      destruct (Nat.eq_dec f t) as [e|ne].
      * subst f. exists (set_main th p'). split; [exact Esame|].
        rewrite Hg in Hgf. inversion Hgf; subst thf. sred.
        unfold fphase in *. destruct (main th); try discriminate; destruct p'; try discriminate;
          try contradiction; rewrite Ereg; exact Hph.
      * exists thf. split; [rewrite Eother by exact ne; exact Hgf|].
        apply (fphase_ext s); [exact Ereg | reflexivity | exact Hph].
    + pose proof (iv_budget s G). rewrite EC, Einfl. change (gD s') with (gD s). lia.
    + intros x Hx. change (sq s') with (sq s) in Hx. rewrite Eheld in Hx.
      destruct (iv_members s G x Hx) as (thx & Hgx & Hmx & Hcx).
      exists thx. split; [|split; assumption].
      rewrite Eother; [exact Hgx|]. intros e. subst x. rewrite Hg in Hgx. inversion Hgx; subst thx. contradiction.
    + change (sq s') with (sq s). rewrite Eheld. apply (iv_nodup s G).
  - intros u thu Hgu. destruct (Nat.eq_dec u t) as [e|ne].
    + subst u. rewrite Esame in Hgu. inversion Hgu; subst thu.
      apply (tinv_stable s); try reflexivity; auto;
        try (intros _; rewrite Eheld; auto); try (rewrite EC; exact Hc1).
    + rewrite Eother in Hgu by exact ne.
      apply (tinv_stable s); try reflexivity; auto;
        try (intros _; rewrite Eheld; auto); try (rewrite EC; exact Hc1).
Qed.

Lemma inv_local s t th p' :
  Inv s -> get_thread s t = Some th ->
  waker (main th) = false -> main th <> Susp -> waker p' = false -> p' <> Susp ->
  inflp p' <= inflp (main th) ->
  tinv s t (set_main th p') ->
  Inv (set_thread s t (set_main th p')).
Proof.
  intros HI Hg Hw Hs Hw' Hs' Hinf Hnew.
  rewrite <- (with_calls_id s) at 1. apply inv_local_gen; try assumption; lia.
Qed.

(* ---- helpers for the per-thread part ---- *)
Lemma tinv_move s t th p' :
  tinv s t th -> main th <> Susp -> p' <> Susp -> tloc s t (set_main th p') ->
  tinv s t (set_main th p').
Proof.
  intros (T1 & T2 & T3 & T4) Hs Hs' Hloc. unfold tinv. sred. repeat split.
  - intros Hc. exfalso. apply Hs. apply T1. exact Hc.
  - contradiction.
  - contradiction.
  - intros Hr. right. destruct (T3 Hr) as [a|b]; [contradiction | exact b].
  - exact Hloc.
Qed.

Lemma sumf_nonneg f l : (forall x, 0 <= f x) -> 0 <= sumf f l.
Proof. intros Hf. induction l as [|y r IH]; cbn [sumf]; [lia | pose proof (Hf y); lia]. Qed.

Lemma sumf_ge_elem f l t th : (forall x, 0 <= f x) -> nth_error l t = Some th -> f th <= sumf f l.
Proof.
  intros Hf. revert t. induction l as [|z r IH]; intros t H; destruct t as [|j]; cbn in *; try discriminate.
  - inversion H; subst. pose proof (sumf_nonneg f r Hf). lia.
  - specialize (IH j H). pose proof (Hf z). lia.
Qed.

Definition same_params (s s' : state) : Prop :=
  jn s' = jn s /\ jbits s' = jbits s /\ jmask s' = jmask s.

Lemma lenz_app {A} (l1 l2 : list A) : lenz (l1 ++ l2) = lenz l1 + lenz l2.
Proof. unfold lenz. rewrite app_length. lia. Qed.

Lemma lenz_cons {A} (x : A) l : lenz (x :: l) = lenz l + 1.
Proof. unfold lenz. cbn [length]. lia. Qed.

Lemma lenz_nonneg {A} (l : list A) : 0 <= lenz l.
Proof. unfold lenz. lia. Qed.

(* ------------------------------------------------------------------------------------ *)
(** registration: the wait CAS succeeds *)
Lemma inv_reg s s' t th s0 :
  Inv s -> get_thread s t = Some th -> main th = WCas s0 -> word s = s0 ->
  same_params s s' -> word s' = add64 s0 (shl1 (jbits s)) -> sq s' = sq s -> gh s' = gh s ->
  thr s' = upd (thr s) t {| main := Susp; cb := CbEnq; reg := true |} ->
  Inv s'.
Proof.
  intros (G & T) Hg Hm Hw (Pn & Pb & Pm) Ew Eq Eg Et.
  pose proof (T t th Hg) as Tt. destruct Tt as (T1 & T2 & T3 & T4).
  unfold tloc in T4. rewrite Hm in T4. destruct T4 as (Hlow & Hreg).
  assert (Hcb : cb th = CbNone).
  { apply (not_susp_cbnone s t th (T t th Hg)). rewrite Hm. discriminate. }
  assert (HD : gD s <> jn s). { rewrite <- (low_is_dec s G), Hw. exact Hlow. }
  assert (HF : gF s = None) by (apply final_when_below; assumption).
  pose proof (iv_dec s G) as Hdec. pose proof (iv_n s G) as Hn. pose proof (iv_bits s G) as Hb.
  assert (Ereg : nreg s' = nreg s + 1).
  { unf. rewrite Et. rewrite (sumf_upd _ _ _ _ _ Hg). unfold regz. sred. rewrite Hreg. lia. }
  assert (Epend : npend s' = npend s + 1).
  { unf. rewrite Et. rewrite (sumf_upd _ _ _ _ _ Hg). unfold pendz. sred. rewrite Hcb. lia. }
  assert (Einfl : ninfl s' = ninfl s).
  { unf. rewrite Et. rewrite (sumf_upd _ _ _ _ _ Hg). unfold inflz, inflp. sred. rewrite Hm. lia. }
  assert (EF : gF s' = None). { unfold gF. rewrite Eg. exact HF. }
  assert (Eheld : fheld s' = []). { unfold fheld. rewrite EF. reflexivity. }
  assert (Eheld0 : fheld s = []). { unfold fheld. rewrite HF. reflexivity. }
  assert (Elen : lenz (thr s') = lenz (thr s)). { unfold lenz. rewrite Et, upd_length. reflexivity. }
  assert (Eother : forall u, u <> t -> get_thread s' u = get_thread s u).
  { intros u Hu. unfold get_thread. rewrite Et. apply nth_upd_other. auto. }
  assert (Esame : get_thread s' t = Some {| main := Susp; cb := CbEnq; reg := true |}).
  { unfold get_thread. rewrite Et. apply (nth_upd_same _ _ _ th). exact Hg. }
  assert (ED : gD s' = gD s) by (unfold gD; rewrite Eg; reflexivity).
  assert (EU : gU s' = gU s) by (unfold gU; rewrite Eg; reflexivity).
  assert (EC : gC s' = gC s) by (unfold gC; rewrite Eg; reflexivity).
  split.
  - constructor.
    + rewrite Pb. exact Hb.
    + rewrite Pn, Pb. exact Hn.
    + rewrite Pm, Pb. apply (iv_mask s G).
    + rewrite Elen, Pb. apply (iv_fit s G).
    + rewrite Ew, <- Hw, (iv_word s G), Ereg, ED, Pb.
      apply reg_no_carry; try lia.
      * apply nreg_bounds.
      * pose proof (nreg_bounds s') as Hb'. rewrite Ereg, Elen in Hb'. pose proof (iv_fit s G). lia.
    + rewrite ED, Pn. exact Hdec.
    + rewrite Ereg, Epend, Eq, Eheld, EU. pose proof (iv_count s G) as Hc. rewrite Eheld0 in Hc.
      unfold lenz in *. cbn [length] in *. lia.
    + intros _. rewrite EU, ED, Pn. split; [apply (iv_nofinal s G HF) | intros; contradiction].
    + intros f Hf. rewrite EF in Hf. discriminate.
    + rewrite ED, Einfl, EC. apply (iv_budget s G).
    + intros x Hx. rewrite Eq, Eheld in Hx. rewrite <- Eheld0 in Hx.
      destruct (iv_members s G x Hx) as (thx & Hgx & Hmx & Hcx).
      exists thx. split; [|split; assumption].
      rewrite Eother; [exact Hgx|]. intros e. subst x. rewrite Hg in Hgx. inversion Hgx; subst thx.
      rewrite Hm in Hmx. discriminate.
    + rewrite Eq, Eheld, <- Eheld0. apply (iv_nodup s G).
  - intros u thu Hgu. destruct (Nat.eq_dec u t) as [e|ne].
    + subst u. rewrite Esame in Hgu. inversion Hgu; subst thu. unfold tinv, tloc. sred.
      repeat split; auto.
    + rewrite Eother in Hgu by exact ne.
      apply (tinv_stable s); auto.
      * intros _. rewrite Eq, Eheld, Eheld0. auto.
      * rewrite ED. auto.
      * unfold gF in *. rewrite Eg. auto.
      * lia.
Qed.

(** the callback enqueues the thread *)
Lemma inv_enq s s' t th :
  Inv s -> get_thread s t = Some th -> cb th = CbEnq ->
  same_params s s' -> word s' = word s -> sq s' = sq s ++ [t] -> gh s' = gh s ->
  thr s' = upd (thr s) t (set_cb th CbNone) ->
  Inv s'.
Proof.
  intros (G & T) Hg Hcb (Pn & Pb & Pm) Ew Eq Eg Et.
  pose proof (T t th Hg) as Tt. destruct Tt as (T1 & T2 & T3 & T4).
  pose proof (T1 Hcb) as Hm. destruct (T2 Hm) as (Hreg & _).
  assert (Ereg : nreg s' = nreg s).
  { unf. rewrite Et. rewrite (sumf_upd _ _ _ _ _ Hg). unfold regz. sred. lia. }
  assert (Epend : npend s' = npend s - 1).
  { unf. rewrite Et. rewrite (sumf_upd _ _ _ _ _ Hg). unfold pendz. sred. rewrite Hcb. lia. }
  assert (Einfl : ninfl s' = ninfl s).
  { unf. rewrite Et. rewrite (sumf_upd _ _ _ _ _ Hg). unfold inflz. sred. lia. }
  assert (EF : gF s' = gF s). { unfold gF. rewrite Eg. reflexivity. }
  assert (Eheld : fheld s' = fheld s).
  { unfold fheld. rewrite EF, Et. apply (fheldl_upd_keep _ _ _ th); [exact Hg | reflexivity]. }
  assert (Elen : lenz (thr s') = lenz (thr s)). { unfold lenz. rewrite Et, upd_length. reflexivity. }
  assert (Eother : forall u, u <> t -> get_thread s' u = get_thread s u).
  { intros u Hu. unfold get_thread. rewrite Et. apply nth_upd_other. auto. }
  assert (Esame : get_thread s' t = Some (set_cb th CbNone)).
  { unfold get_thread. rewrite Et. apply (nth_upd_same _ _ _ th). exact Hg. }
  assert (ED : gD s' = gD s) by (unfold gD; rewrite Eg; reflexivity).
  assert (EU : gU s' = gU s) by (unfold gU; rewrite Eg; reflexivity).
  assert (EC : gC s' = gC s) by (unfold gC; rewrite Eg; reflexivity).
  assert (Hnotin : ~ In t (sq s ++ fheld s)).
  { intros Hin. destruct (iv_members s G t Hin) as (thx & Hgx & _ & Hcx).
    rewrite Hg in Hgx. inversion Hgx; subst thx. rewrite Hcb in Hcx. discriminate. }
  split.
  - constructor.
    + rewrite Pb. apply (iv_bits s G).
    + rewrite Pn, Pb. apply (iv_n s G).
    + rewrite Pm, Pb. apply (iv_mask s G).
    + rewrite Elen, Pb. apply (iv_fit s G).
    + rewrite Ew, Ereg, ED, Pb. apply (iv_word s G).
    + rewrite ED, Pn. apply (iv_dec s G).
    + rewrite Ereg, Epend, Eq, Eheld, EU, lenz_app. pose proof (iv_count s G) as Hc.
      change (lenz [t]) with 1. lia.
    + rewrite EF, EU, ED, Pn, Ereg. apply (iv_nofinal s G).
    + intros f Hf. rewrite EF in Hf. destruct (iv_final s G f Hf) as (Hd & thf & Hgf & Hph).
      rewrite ED, Pn. split; [exact Hd|].
      destruct (Nat.eq_dec f t) as [e|ne].
      * subst f. exists (set_cb th CbNone). split; [exact Esame|].
        rewrite Hg in Hgf. inversion Hgf; subst thf. sred.
        apply (fphase_ext s); assumption.
      * exists thf. split; [rewrite Eother by exact ne; exact Hgf|].
        apply (fphase_ext s); assumption.
    + rewrite ED, Einfl, EC. apply (iv_budget s G).
    + intros x Hx. rewrite Eq, Eheld in Hx.
      destruct (Nat.eq_dec x t) as [e|ne].
      * subst x. exists (set_cb th CbNone). split; [exact Esame|]. sred. split; [exact Hm | reflexivity].
      * assert (Hx' : In x (sq s ++ fheld s)).
        { apply in_app_or in Hx. destruct Hx as [Hx|Hx]; [|apply in_or_app; right; exact Hx].
          apply in_app_or in Hx. destruct Hx as [Hx|Hx]; [apply in_or_app; left; exact Hx|].
          cbn in Hx. destruct Hx as [Hx|[]]. congruence. }
        destruct (iv_members s G x Hx') as (thx & Hgx & Hmx & Hcx).
        exists thx. split; [rewrite Eother by exact ne; exact Hgx | split; assumption].
    + rewrite Eq, Eheld. apply (Permutation_NoDup (l := t :: sq s ++ fheld s)).
      * rewrite <- app_assoc. cbn [app]. apply Permutation_middle.
      * constructor; [exact Hnotin | apply (iv_nodup s G)].
  - intros u thu Hgu. destruct (Nat.eq_dec u t) as [e|ne].
    + subst u. rewrite Esame in Hgu. inversion Hgu; subst thu. unfold tinv, tloc. sred.
      rewrite Hm. split; [intros Hc; discriminate|]. split; [|split; [auto | exact I]].
      intros _. split; [exact Hreg|]. right. left. rewrite Eq. apply in_or_app. right. left. reflexivity.
    + rewrite Eother in Hgu by exact ne.
      apply (tinv_stable s); auto.
      * intros _ [Hi|Hi]; [left; rewrite Eq; apply in_or_app; left; exact Hi | right; rewrite Eheld; exact Hi].
      * rewrite ED. auto.
      * rewrite EF. auto.
      * lia.
Qed.

(** a decrement CAS succeeds; [fin] = it was the N-th *)
Lemma inv_dec s s' t th s0 (fin : bool) p' :
  Inv s -> get_thread s t = Some th -> main th = DCas s0 -> word s = s0 ->
  (fin = false -> gD s <> jn s - 1 /\ p' = Done Dec 0) ->
  (fin = true -> gD s = jn s - 1 /\
                 ((0 < nreg s /\ p' = KDeq (nreg s) 0 []) \/ (nreg s <= 0 /\ p' = Done Dec 0))) ->
  same_params s s' -> word s' = add64 s0 1 -> sq s' = sq s ->
  gC s' = gC s -> gD s' = gD s + 1 -> gU s' = gU s -> gF s' = (if fin then Some t else gF s) ->
  thr s' = upd (thr s) t (set_main th p') ->
  Inv s'.
Proof.
  intros (G & T) Hg Hm Hw Hnf Hf (Pn & Pb & Pm) Ew Eq EC ED EU EF Et.
  pose proof (T t th Hg) as Tt. destruct Tt as (T1 & T2 & T3 & T4).
  unfold tloc in T4. rewrite Hm in T4.
  assert (Hcb : cb th = CbNone).
  { apply (not_susp_cbnone s t th (T t th Hg)). rewrite Hm. discriminate. }
  assert (HD : gD s < jn s). { rewrite <- (low_is_dec s G), Hw. exact T4. }
  assert (HF : gF s = None) by (apply final_when_below; [assumption | lia]).
  pose proof (iv_dec s G) as Hdec. pose proof (iv_n s G) as Hn. pose proof (iv_bits s G) as Hb.
  destruct (iv_nofinal s G HF) as (HU0 & _).
  assert (Hreg : reg th = false).
  { destruct (reg th) eqn:E; [|reflexivity]. destruct (T3 eq_refl) as [a|b]; [rewrite Hm in a; discriminate | lia]. }
  assert (Hp' : waker p' = true /\ p' = KDeq (nreg s) 0 [] /\ 0 < nreg s /\ fin = true \/ p' = Done Dec 0).
  { destruct fin.
    - destruct (Hf eq_refl) as (_ & [(a & b) | (a & b)]); [left; rewrite b; cbn; auto | right; exact b].
    - right. apply (Hnf eq_refl). }
  assert (Hheld' : held p' = []). { destruct Hp' as [(_ & e & _) | e]; rewrite e; reflexivity. }
  assert (Hsusp' : p' <> Susp). { destruct Hp' as [(_ & e & _) | e]; rewrite e; discriminate. }
  assert (Hinf' : inflp p' = 0). { destruct Hp' as [(_ & e & _) | e]; rewrite e; reflexivity. }
  assert (Ereg : nreg s' = nreg s).
  { unf. rewrite Et. rewrite (sumf_upd _ _ _ _ _ Hg). unfold regz. sred. lia. }
  assert (Epend : npend s' = npend s).
  { unf. rewrite Et. rewrite (sumf_upd _ _ _ _ _ Hg). unfold pendz. sred. lia. }
  assert (Einfl : ninfl s' = ninfl s - 1).
  { unf. rewrite Et. rewrite (sumf_upd _ _ _ _ _ Hg). unfold inflz. sred. rewrite Hinf', Hm. cbn [inflp]. lia. }
  assert (Eheld0 : fheld s = []). { unfold fheld. rewrite HF. reflexivity. }
  assert (Eheld : fheld s' = []).
  { unfold fheld. rewrite EF, Et. destruct fin.
    - rewrite (fheldl_upd_final _ _ th) by exact Hg. sred. exact Hheld'.
    - rewrite HF. reflexivity. }
  assert (Elen : lenz (thr s') = lenz (thr s)). { unfold lenz. rewrite Et, upd_length. reflexivity. }
  assert (Eother : forall u, u <> t -> get_thread s' u = get_thread s u).
  { intros u Hu. unfold get_thread. rewrite Et. apply nth_upd_other. auto. }
  assert (Esame : get_thread s' t = Some (set_main th p')).
  { unfold get_thread. rewrite Et. apply (nth_upd_same _ _ _ th). exact Hg. }
  split.
  - constructor.
    + rewrite Pb. exact Hb.
    + rewrite Pn, Pb. exact Hn.
    + rewrite Pm, Pb. apply (iv_mask s G).
    + rewrite Elen, Pb. apply (iv_fit s G).
    + rewrite Ew, <- Hw, (iv_word s G), Ereg, ED, Pb.
      apply (dec_no_carry _ _ _ (jn s)); try lia.
      pose proof (nreg_bounds s). pose proof (iv_fit s G). lia.
    + rewrite ED, Pn. lia.
    + rewrite Ereg, Epend, Eq, Eheld, EU. pose proof (iv_count s G) as Hc. rewrite Eheld0 in Hc. exact Hc.
    + rewrite EF, EU, ED, Pn. intros Hnone. destruct fin; [discriminate|].
      split; [exact HU0|]. intros Hd. destruct (Hnf eq_refl) as (a & _). lia.
    + intros f Hff. rewrite EF in Hff. destruct fin; [|rewrite HF in Hff; discriminate].
      inversion Hff; subst f. destruct (Hf eq_refl) as (Hd1 & Hcase).
      rewrite ED, Pn. split; [lia|].
      exists (set_main th p'). split; [exact Esame|]. sred.
      destruct Hcase as [(a & b) | (a & b)]; rewrite b; unfold fphase; rewrite Ereg, EU.
      * split; [reflexivity | exact HU0].
      * pose proof (nreg_bounds s). lia.
    + rewrite ED, Einfl, EC. pose proof (iv_budget s G). lia.
    + intros x Hx. rewrite Eq, Eheld in Hx. rewrite <- Eheld0 in Hx.
      destruct (iv_members s G x Hx) as (thx & Hgx & Hmx & Hcx).
      exists thx. split; [|split; assumption].
      rewrite Eother; [exact Hgx|]. intros e. subst x. rewrite Hg in Hgx. inversion Hgx; subst thx.
      rewrite Hm in Hmx. discriminate.
    + rewrite Eq, Eheld, <- Eheld0. apply (iv_nodup s G).
  - intros u thu Hgu. destruct (Nat.eq_dec u t) as [e|ne].
    + subst u. rewrite Esame in Hgu. inversion Hgu; subst thu. unfold tinv, tloc. sred.
      split; [intros Hc; rewrite Hcb in Hc; discriminate|].
      split; [intros Hc; contradiction|].
      split; [intros Hc; rewrite Hreg in Hc; discriminate|].
      destruct Hp' as [(_ & e & Hpos & Hfin) | e]; rewrite e; [|exact I].
      subst fin. rewrite EF. split; [reflexivity|]. split; [reflexivity | lia].
    + rewrite Eother in Hgu by exact ne.
      apply (tinv_stable s); auto.
      * intros _. rewrite Eq, Eheld, Eheld0. auto.
      * intros Hd. lia.
      * intros Hfu. rewrite HF in Hfu. discriminate.
      * lia.
Qed.

(** the final decrementer dequeues one sleeper *)
Lemma inv_deq s s' t th n i acc x r p' :
  Inv s -> get_thread s t = Some th -> main th = KDeq n i acc -> sq s = x :: r ->
  (i + 1 < n /\ p' = KDeq n (i + 1) (acc ++ [x]) \/ ~ i + 1 < n /\ p' = KPush n 0 (acc ++ [x])) ->
  same_params s s' -> word s' = word s -> sq s' = r -> gh s' = gh s ->
  thr s' = upd (thr s) t (set_main th p') ->
  Inv s'.
Proof.
  intros (G & T) Hg Hm Hq Hp' (Pn & Pb & Pm) Ew Eq Eg Et.
  pose proof (T t th Hg) as Tt. destruct Tt as (T1 & T2 & T3 & T4).
  unfold tloc in T4. rewrite Hm in T4. destruct T4 as (HF & Hi & Hin).
  assert (Hcb : cb th = CbNone).
  { apply (not_susp_cbnone s t th (T t th Hg)). rewrite Hm. discriminate. }
  destruct (iv_final s G t HF) as (HD & thf & Hgf & Hph).
  rewrite Hg in Hgf. inversion Hgf; subst thf. rewrite Hm in Hph. cbn [fphase] in Hph. destruct Hph as (Hn & HU).
  assert (Eheld0 : fheld s = acc).
  { unfold fheld. rewrite HF. cbn [fheldl]. unfold get_thread in Hg. rewrite Hg, Hm. reflexivity. }
  assert (Hheld' : held p' = acc ++ [x]). { destruct Hp' as [(_ & e) | (_ & e)]; rewrite e; reflexivity. }
  assert (Hsusp' : p' <> Susp). { destruct Hp' as [(_ & e) | (_ & e)]; rewrite e; discriminate. }
  assert (Hinf' : inflp p' = 0). { destruct Hp' as [(_ & e) | (_ & e)]; rewrite e; reflexivity. }
  assert (Ereg : nreg s' = nreg s).
  { unf. rewrite Et. rewrite (sumf_upd _ _ _ _ _ Hg). unfold regz. sred. lia. }
  assert (Epend : npend s' = npend s).
  { unf. rewrite Et. rewrite (sumf_upd _ _ _ _ _ Hg). unfold pendz. sred. lia. }
  assert (Einfl : ninfl s' = ninfl s).
  { unf. rewrite Et. rewrite (sumf_upd _ _ _ _ _ Hg). unfold inflz. sred. rewrite Hinf', Hm. cbn [inflp]. lia. }
  assert (EF : gF s' = Some t). { unfold gF in *. rewrite Eg. exact HF. }
  assert (Eheld : fheld s' = acc ++ [x]).
  { unfold fheld. rewrite EF, Et. rewrite (fheldl_upd_final _ _ th) by exact Hg. sred. exact Hheld'. }
  assert (Elen : lenz (thr s') = lenz (thr s)). { unfold lenz. rewrite Et, upd_length. reflexivity. }
  assert (Eother : forall u, u <> t -> get_thread s' u = get_thread s u).
  { intros u Hu. unfold get_thread. rewrite Et. apply nth_upd_other. auto. }
  assert (Esame : get_thread s' t = Some (set_main th p')).
  { unfold get_thread. rewrite Et. apply (nth_upd_same _ _ _ th). exact Hg. }
  assert (ED : gD s' = gD s) by (unfold gD; rewrite Eg; reflexivity).
  assert (EU : gU s' = gU s) by (unfold gU; rewrite Eg; reflexivity).
  assert (EC : gC s' = gC s) by (unfold gC; rewrite Eg; reflexivity).
  assert (Hperm : Permutation (sq s ++ fheld s) (sq s' ++ fheld s')).
  { rewrite Hq, Eq, Eheld0, Eheld. cbn [app]. rewrite app_assoc. apply Permutation_cons_append. }
  split.
  - constructor.
    + rewrite Pb. apply (iv_bits s G).
    + rewrite Pn, Pb. apply (iv_n s G).
    + rewrite Pm, Pb. apply (iv_mask s G).
    + rewrite Elen, Pb. apply (iv_fit s G).
    + rewrite Ew, Ereg, ED, Pb. apply (iv_word s G).
    + rewrite ED, Pn. apply (iv_dec s G).
    + rewrite Ereg, Epend, Eq, Eheld, EU, lenz_app. pose proof (iv_count s G) as Hc.
      rewrite Hq, Eheld0, lenz_cons in Hc. change (lenz [x]) with 1. lia.
    + intros Hnone. rewrite EF in Hnone. discriminate.
    + intros f Hff. rewrite EF in Hff. inversion Hff; subst f. rewrite ED, Pn. split; [exact HD|].
      exists (set_main th p'). split; [exact Esame|]. sred.
      destruct Hp' as [(_ & e) | (_ & e)]; rewrite e; unfold fphase; rewrite Ereg, EU; split; auto.
    + rewrite ED, Einfl, EC. apply (iv_budget s G).
    + intros y Hy. apply (Permutation_in _ (Permutation_sym Hperm)) in Hy.
      destruct (iv_members s G y Hy) as (thy & Hgy & Hmy & Hcy).
      exists thy. split; [|split; assumption].
      rewrite Eother; [exact Hgy|]. intros e. subst y. rewrite Hg in Hgy. inversion Hgy; subst thy.
      rewrite Hm in Hmy. discriminate.
    + apply (Permutation_NoDup Hperm). apply (iv_nodup s G).
  - intros u thu Hgu. destruct (Nat.eq_dec u t) as [e|ne].
    + subst u. rewrite Esame in Hgu. inversion Hgu; subst thu. unfold tinv, tloc. sred.
      split; [intros Hc; rewrite Hcb in Hc; discriminate|].
      split; [intros Hc; contradiction|].
      split; [intros _; right; rewrite ED, Pn; exact HD|].
      destruct Hp' as [(Hlt & e) | (Hge & e)]; rewrite e.
      * split; [exact EF|]. rewrite lenz_app. change (lenz [x]) with 1. lia.
      * split; [exact EF|]. rewrite lenz_app. change (lenz [x]) with 1. lia.
    + rewrite Eother in Hgu by exact ne.
      apply (tinv_stable s); auto.
      * intros _ Hin'. apply in_or_app in Hin'. apply (Permutation_in _ Hperm) in Hin'.
        apply in_app_or in Hin'. exact Hin'.
      * rewrite ED. auto.
      * intros Hfu. rewrite HF in Hfu. exfalso. apply ne. inversion Hfu. reflexivity.
      * lia.
Qed.

(** the final decrementer pushes one collected thread back to a run queue *)
Lemma inv_push s s' t th n i x r thx p' :
  Inv s -> get_thread s t = Some th -> main th = KPush n i (x :: r) ->
  get_thread s x = Some thx -> main thx = Susp ->
  (i + 1 < n /\ p' = KPush n (i + 1) r \/ ~ i + 1 < n /\ p' = Done Dec 0) ->
  same_params s s' -> word s' = word s -> sq s' = sq s ->
  gC s' = gC s -> gD s' = gD s -> gU s' = gU s + 1 -> gF s' = gF s ->
  thr s' = upd (upd (thr s) x (set_main thx WRead)) t (set_main th p') ->
  Inv s'.
Proof.
  intros (G & T) Hg Hm Hgx Hmx Hp' (Pn & Pb & Pm) Ew Eq EC ED EU EF Et.
  pose proof (T t th Hg) as Tt. destruct Tt as (T1 & T2 & T3 & T4).
  unfold tloc in T4. rewrite Hm in T4. destruct T4 as (HF & Hi0 & Hi & Hin).
  rewrite lenz_cons in Hi.
  assert (Hxt : x <> t).
  { intros e. subst x. rewrite Hg in Hgx. inversion Hgx; subst thx. rewrite Hm in Hmx. discriminate. }
  assert (Hcb : cb th = CbNone).
  { apply (not_susp_cbnone s t th (T t th Hg)). rewrite Hm. discriminate. }
  destruct (iv_final s G t HF) as (HD & thf & Hgf & Hph).
  rewrite Hg in Hgf. inversion Hgf; subst thf. rewrite Hm in Hph. cbn [fphase] in Hph. destruct Hph as (Hn & HU).
  assert (Eheld0 : fheld s = x :: r).
  { unfold fheld. rewrite HF. cbn [fheldl]. unfold get_thread in Hg. rewrite Hg, Hm. reflexivity. }
  assert (Hxmem : In x (sq s ++ fheld s)). { rewrite Eheld0. apply in_or_app. right. left. reflexivity. }
  destruct (iv_members s G x Hxmem) as (thx0 & Hgx0 & _ & Hcbx).
  rewrite Hgx in Hgx0. inversion Hgx0; subst thx0.
  assert (Hr : r = [] \/ i + 1 < n).
  { destruct r as [|y r']; [left; reflexivity | right]. rewrite lenz_cons in Hi. pose proof (lenz_nonneg r'). lia. }
  assert (Hheld' : held p' = r).
  { destruct Hp' as [(_ & e) | (Hge & e)]; rewrite e; cbn [held]; [reflexivity|].
    destruct Hr as [e0|lt]; [symmetry; exact e0 | contradiction]. }
  assert (Hsusp' : p' <> Susp). { destruct Hp' as [(_ & e) | (_ & e)]; rewrite e; discriminate. }
  assert (Hinf' : inflp p' = 0). { destruct Hp' as [(_ & e) | (_ & e)]; rewrite e; reflexivity. }
  assert (Hg1 : nth_error (upd (thr s) x (set_main thx WRead)) t = Some th).
  { rewrite nth_upd_other by exact Hxt. exact Hg. }
  assert (Ereg : nreg s' = nreg s).
  { unf. rewrite Et. rewrite (sumf_upd _ _ _ _ _ Hg1), (sumf_upd _ _ _ _ _ Hgx). unfold regz. sred. lia. }
  assert (Epend : npend s' = npend s).
  { unf. rewrite Et. rewrite (sumf_upd _ _ _ _ _ Hg1), (sumf_upd _ _ _ _ _ Hgx). unfold pendz. sred. lia. }
  assert (Einfl : ninfl s' = ninfl s).
  { unf. rewrite Et. rewrite (sumf_upd _ _ _ _ _ Hg1), (sumf_upd _ _ _ _ _ Hgx). unfold inflz. sred.
    rewrite Hinf', Hm, Hmx. cbn [inflp]. lia. }
  assert (Eheld : fheld s' = r).
  { unfold fheld. rewrite EF, HF, Et. rewrite (fheldl_upd_final _ _ th) by exact Hg1. sred. exact Hheld'. }
  assert (Elen : lenz (thr s') = lenz (thr s)). { unfold lenz. rewrite Et, !upd_length. reflexivity. }
  assert (Eother : forall u, u <> t -> u <> x -> get_thread s' u = get_thread s u).
  { intros u Hu Hux. unfold get_thread. rewrite Et. rewrite !nth_upd_other by auto. reflexivity. }
  assert (Esame : get_thread s' t = Some (set_main th p')).
  { unfold get_thread. rewrite Et. apply (nth_upd_same _ _ _ th). exact Hg1. }
  assert (Ex : get_thread s' x = Some (set_main thx WRead)).
  { unfold get_thread. rewrite Et. rewrite nth_upd_other by auto. apply (nth_upd_same _ _ _ thx). exact Hgx. }
  pose proof (iv_nodup s G) as Hnd. rewrite Eheld0 in Hnd.
  pose proof (NoDup_remove_1 _ _ _ Hnd) as Hnd1. pose proof (NoDup_remove_2 _ _ _ Hnd) as Hnd2.
  split.
  - constructor.
    + rewrite Pb. apply (iv_bits s G).
    + rewrite Pn, Pb. apply (iv_n s G).
    + rewrite Pm, Pb. apply (iv_mask s G).
    + rewrite Elen, Pb. apply (iv_fit s G).
    + rewrite Ew, Ereg, ED, Pb. apply (iv_word s G).
    + rewrite ED, Pn. apply (iv_dec s G).
    + rewrite Ereg, Epend, Eq, Eheld, EU. pose proof (iv_count s G) as Hc.
      rewrite Eheld0, lenz_cons in Hc. lia.
    + intros Hnone. rewrite EF, HF in Hnone. discriminate.
    + intros f Hff. rewrite EF, HF in Hff. inversion Hff; subst f. rewrite ED, Pn. split; [exact HD|].
      exists (set_main th p'). split; [exact Esame|]. sred.
      destruct Hp' as [(_ & e) | (Hge & e)]; rewrite e; unfold fphase; rewrite Ereg, EU.
      * split; [exact Hn | lia].
      * destruct Hr as [e0|lt]; [|contradiction]. subst r. change (lenz []) with 0 in Hi. lia.
    + rewrite ED, Einfl, EC. apply (iv_budget s G).
    + intros y Hy. rewrite Eq, Eheld in Hy.
      assert (Hy' : In y (sq s ++ fheld s)).
      { rewrite Eheld0. apply in_app_or in Hy. apply in_or_app. destruct Hy; [left | right; right]; assumption. }
      destruct (iv_members s G y Hy') as (thy & Hgy & Hmy & Hcy).
      exists thy. split; [|split; assumption].
      rewrite Eother; [exact Hgy | | ].
      * intros e. subst y. rewrite Hg in Hgy. inversion Hgy; subst thy. rewrite Hm in Hmy. discriminate.
      * intros e. subst y. contradiction.
    + rewrite Eq, Eheld. exact Hnd1.
  - intros u thu Hgu. destruct (Nat.eq_dec u t) as [e|ne].
    + subst u. rewrite Esame in Hgu. inversion Hgu; subst thu. unfold tinv, tloc. sred.
      split; [intros Hc; rewrite Hcb in Hc; discriminate|].
      split; [intros Hc; contradiction|].
      split; [intros _; right; rewrite ED, Pn; exact HD|].
      destruct Hp' as [(Hlt & e) | (Hge & e)]; rewrite e; [|exact I].
      rewrite EF. split; [exact HF|]. lia.
    + destruct (Nat.eq_dec u x) as [ex|nex].
      * subst u. rewrite Ex in Hgu. inversion Hgu; subst thu. unfold tinv, tloc. sred.
        split; [intros Hc; rewrite Hcbx in Hc; discriminate|].
        split; [intros Hc; discriminate|].
        split; [intros _; right; rewrite ED, Pn; exact HD | exact I].
      * rewrite Eother in Hgu by assumption.
        apply (tinv_stable s); auto.
        -- intros _ [Hi1|Hi1]; [left; rewrite Eq; exact Hi1|]. right. rewrite Eheld. rewrite Eheld0 in Hi1.
           destruct Hi1 as [e1|Hi1]; [congruence | exact Hi1].
        -- rewrite ED. auto.
        -- rewrite EF. auto.
        -- lia.
Qed.

(* ------------------------------------------------------------------------------------ *)
(** * every step preserves the invariant *)

Ltac params := repeat split; reflexivity.

Ltac norm_get Hst s t :=
  repeat match type of Hst with
         | context [get_thread ?s1 t] =>
             lazymatch s1 with
             | s => fail
             | _ => change (get_thread s1 t) with (get_thread s t) in Hst
             end
         end.

Ltac local_step Hm :=
  apply inv_local;
  [ assumption | assumption | rewrite Hm; reflexivity | rewrite Hm; discriminate | reflexivity | discriminate
  | rewrite Hm; cbn [inflp]; lia
  | apply tinv_move; [assumption | rewrite Hm; discriminate | discriminate | ] ].

Lemma step_inv s a s' : Inv s -> step s a = Some s' -> Inv s'.
Proof.
  intros HI Hst. pose proof HI as (G & T). destruct a as [t e].
  destruct e as [o | | | v]; cbn [step] in Hst.
  - (* call *)
    unfold call in Hst. destruct (get_thread s t) as [th|] eqn:Hg; [|discriminate].
    destruct (main th) eqn:Hm; try discriminate. destruct (cb th) eqn:Hc; try discriminate.
    pose proof (T t th Hg) as Tt.
    destruct o; inversion Hst; subst s'; clear Hst.
    + local_step Hm. exact I.
    + change (g_call s) with (with_calls s (gC s + 1)).
      apply inv_local_gen;
        [ assumption | assumption | rewrite Hm; reflexivity | rewrite Hm; discriminate | reflexivity | discriminate
        | lia | rewrite Hm; cbn [inflp]; lia
        | apply tinv_move; [assumption | rewrite Hm; discriminate | discriminate | exact I] ].
  - (* tick *)
    unfold tick in Hst. destruct (get_thread s t) as [th|] eqn:Hg; [|discriminate].
    pose proof (T t th Hg) as Tt. pose proof Tt as (T1 & T2 & T3 & T4).
    destruct (main th) eqn:Hm; try discriminate.
    + (* WRead *)
      unfold low_of in Hst. destruct (Z.land (word s) (jmask s) =? jn s) eqn:E;
        unfold put in Hst; rewrite Hg in Hst; inversion Hst; subst s'; clear Hst.
      * apply Z.eqb_eq in E. local_step Hm.
        unfold tloc. sred. split; [reflexivity|]. rewrite <- (low_is_dec s G). exact E.
      * apply Z.eqb_neq in E.
        local_step Hm.
        unfold tloc. sred. split; [exact E|].
        destruct (reg th) eqn:Er; [|reflexivity]. exfalso.
        destruct (T3 eq_refl) as [a|b]; [discriminate a|].
        apply E. rewrite (low_is_dec s G). exact b.
    + (* WCas *)
      destruct (word s =? s0) eqn:E.
      * apply Z.eqb_eq in E. inversion Hst; subst s'; clear Hst.
        apply (inv_reg s _ t th s0); try assumption; try reflexivity. params.
      * unfold put in Hst; rewrite Hg in Hst; inversion Hst; subst s'; clear Hst.
        local_step Hm. exact I.
    + (* DRead *)
      unfold low_of in Hst. destruct (Z.land (word s) (jmask s) >=? jn s) eqn:E;
        unfold put in Hst; rewrite Hg in Hst; inversion Hst; subst s'; clear Hst.
      * apply Z.geb_le in E.
        local_step Hm.
        unfold tloc. sred. rewrite (low_is_dec s G) in E.
        pose proof (iv_dec s G). pose proof (iv_budget s G).
        assert (1 <= ninfl s).
        { unfold ninfl. pose proof (sumf_ge_elem inflz (thr s) t th (fun x => proj1 (inflz_bounds x)) Hg) as Hge.
          unfold inflz at 1 in Hge. rewrite Hm in Hge. cbn [inflp] in Hge. exact Hge. }
        lia.
      * rewrite Z.geb_leb in E. apply Z.leb_gt in E.
        local_step Hm.
        unfold tloc. sred. exact E.
    + (* DCas *)
      destruct (word s =? s0) eqn:E.
      * apply Z.eqb_eq in E. unfold tloc in T4. rewrite Hm in T4.
        assert (Hlow : Z.land s0 (jmask s) = gD s) by (rewrite <- E; apply (low_is_dec s G)).
        assert (Hhigh : Z.shiftr s0 (jbits s) = nreg s) by (rewrite <- E; apply (high_is_reg s G)).
        unfold low_of, high_of in Hst. rewrite Hlow, Hhigh in Hst.
        destruct (gD s =? jn s - 1) eqn:E1.
        -- apply Z.eqb_eq in E1. destruct (0 <? nreg s) eqn:E2;
             unfold put in Hst; norm_get Hst s t; rewrite Hg in Hst; inversion Hst; subst s'; clear Hst.
           ++ apply Z.ltb_lt in E2.
              apply (inv_dec s _ t th s0 true (KDeq (nreg s) 0 [])); try assumption; try reflexivity; try params.
              ** intros; discriminate.
              ** intros _. split; [exact E1|]. left. split; [exact E2 | reflexivity].
           ++ apply Z.ltb_ge in E2.
              apply (inv_dec s _ t th s0 true (Done Dec 0)); try assumption; try reflexivity; try params.
              ** intros; discriminate.
              ** intros _. split; [exact E1|]. right. split; [exact E2 | reflexivity].
        -- apply Z.eqb_neq in E1.
           unfold put in Hst; norm_get Hst s t; rewrite Hg in Hst; inversion Hst; subst s'; clear Hst.
           apply (inv_dec s _ t th s0 false (Done Dec 0)); try assumption; try reflexivity; try params.
           ++ intros _. split; [exact E1 | reflexivity].
           ++ intros; discriminate.
      * unfold put in Hst; rewrite Hg in Hst; inversion Hst; subst s'; clear Hst.
        local_step Hm. exact I.
    + (* KDeq *)
      destruct (sq s) as [|x r] eqn:Hq.
      * inversion Hst; subst s'. exact HI.
      * destruct (i + 1 <? n) eqn:E;
          unfold put in Hst; norm_get Hst s t; rewrite Hg in Hst; inversion Hst; subst s'; clear Hst.
        -- apply Z.ltb_lt in E.
           apply (inv_deq s _ t th n i acc x r (KDeq n (i + 1) (acc ++ [x]))); try assumption; try reflexivity; try params.
           left. split; [exact E | reflexivity].
        -- apply Z.ltb_ge in E.
           apply (inv_deq s _ t th n i acc x r (KPush n 0 (acc ++ [x]))); try assumption; try reflexivity; try params.
           right. split; [lia | reflexivity].
    + (* KPush *)
      destruct rest as [|x r]; [discriminate|].
      unfold wake in Hst. destruct (get_thread s x) as [thx|] eqn:Hgx; [|discriminate].
      destruct (main thx) eqn:Hmx; try discriminate.
      assert (Hxt : x <> t).
      { intros e. subst x. rewrite Hg in Hgx. inversion Hgx; subst thx. rewrite Hm in Hmx. discriminate. }
      assert (Hg1 : nth_error (upd (thr s) x (set_main thx WRead)) t = Some th).
      { rewrite nth_upd_other by exact Hxt. exact Hg. }
      destruct (i + 1 <? n) eqn:E;
        unfold put in Hst;
        change (get_thread (g_push (set_thread s x (set_main thx WRead))) t)
          with (nth_error (upd (thr s) x (set_main thx WRead)) t) in Hst;
        rewrite Hg1 in Hst; inversion Hst; subst s'; clear Hst.
      * apply Z.ltb_lt in E.
        apply (inv_push s _ t th n i x r thx (KPush n (i + 1) r)); try assumption; try reflexivity; try params.
        left. split; [exact E | reflexivity].
      * apply Z.ltb_ge in E.
        apply (inv_push s _ t th n i x r thx (Done Dec 0)); try assumption; try reflexivity; try params.
        right. split; [lia | reflexivity].
  - (* cbtick *)
    unfold cbtick in Hst. destruct (get_thread s t) as [th|] eqn:Hg; [|discriminate].
    destruct (cb th) eqn:Hc; [discriminate|]. inversion Hst; subst s'; clear Hst.
    apply (inv_enq s _ t th); try assumption; try reflexivity. params.
  - (* ret *)
    unfold ret in Hst. destruct (ret_ok s t v) eqn:Hr; [|discriminate].
    unfold ret_ok in Hr. destruct (get_thread s t) as [th|] eqn:Hg; [|discriminate].
    destruct (main th) eqn:Hm; try discriminate. inversion Hst; subst s'; clear Hst.
    pose proof (T t th Hg) as Tt.
    local_step Hm. exact I.
Qed.

(* ------------------------------------------------------------------------------------ *)
(** * initial states and reachability *)

Definition jc_initial (s : state) : Prop :=
  exists n nt, representable n nt = true /\ init_state n nt = Some s.

Definition jc_reachable : state -> Prop := reachable jc_initial step.

Lemma representable_range n nt : representable n nt = true ->
  0 <= n < 2 ^ 62 /\ exists b, calc_bits n = Some b /\ Z.of_nat nt < 2 ^ (63 - b).
Proof.
  unfold representable. destruct (calc_bits n) as [b|] eqn:E; [|discriminate].
  intros H. apply andb_true_iff in H. destruct H as (H0 & H1).
  apply Z.leb_le in H0. apply Z.ltb_lt in H1.
  split.
  - split; [exact H0|]. destruct (Z_lt_le_dec n (2 ^ 62)) as [ok|bad]; [exact ok|].
    rewrite (calc_bits_out_of_range n bad) in E. discriminate.
  - exists b. split; [reflexivity | exact H1].
Qed.

Lemma init_inv s : jc_initial s -> Inv s.
Proof.
  intros (n & nt & Hrep & Hinit).
  destruct (representable_range n nt Hrep) as (Hn & b & Hcb & Hfit).
  destruct (jc_init_spec n Hn) as (b' & Hcb' & Hb & Hlt & _ & Hji).
  rewrite Hcb in Hcb'. inversion Hcb'; subst b'.
  unfold init_state in Hinit. rewrite Hji in Hinit. injection Hinit as Hs. subst s.
  assert (Er : sumf regz (repeat thread0 nt) = 0) by (apply sumf_repeat; reflexivity).
  assert (Ep : sumf pendz (repeat thread0 nt) = 0) by (apply sumf_repeat; reflexivity).
  assert (Ei : sumf inflz (repeat thread0 nt) = 0) by (apply sumf_repeat; reflexivity).
  split.
  - constructor; unf; cbn [jn jbits jmask word sq thr gh f_n f_bits f_mask f_state ghost0 gcalls gdec gpush gfinal fheldl app length];
      rewrite ?Er, ?Ep, ?Ei, ?repeat_length; try lia;
      try (intros f Hf; discriminate Hf); try (intros x Hx; destruct Hx); try (apply NoDup_nil);
      try (intros _; split; [reflexivity | intros; reflexivity]).
  - intros t th Hg. unfold get_thread in Hg. cbn [thr] in Hg.
    apply nth_error_In in Hg. apply repeat_spec in Hg. subst th.
    unfold tinv, tloc, thread0. cbn [main cb reg].
    repeat split; intros; discriminate.
Qed.

(** C07_inv_reachable *)
Theorem inv_reachable s : jc_reachable s -> Inv s.
Proof.
  apply invariant_rule.
  - exact init_inv.
  - intros s0 a s1 HI Hst. exact (step_inv s0 a s1 HI Hst).
Qed.
