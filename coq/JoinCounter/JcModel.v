(** Abs(join counter): the model behind C07.

    Source: src/myth_sync_func.h  calc_bits, myth_join_counter_init_body,
    myth_join_counter_wait_body, myth_join_counter_dec_body, myth_block_on_queue(_cb),
    myth_wake_many_from_queue.

    Part 1 (pure): the 64-bit arithmetic of [calc_bits] / the init fields.
    Part 2 (protocol): one join counter, any number of threads.  One model step
    ([ETick] / [ECbTick]) = the code between two consecutive MYTH_VERIF_POINTs = exactly one
    access to a shared word or to the sleep queue; [label] returns the id of the POINT the
    activity executes next.  The correspondence check replays traces of the real library
    (harness/lib_interp.c) through [step], comparing labels, hook values and the object's
    words ([word], [jn], [jbits], [jmask], [sq]) before every step.

    A thread has two activities: its own code ([main]) and, after it saved its context in
    myth_block_on_queue, the context-switch callback that runs on the worker it just left
    ([cb]: the enqueue on the sleep queue).

    Sleep-queue enqueue / dequeue are one step each (they run under the queue's internal
    spinlock, modelled separately); thread numbers are the program's thread tags.

    Ghost components ([reg] of a thread, the record [ghost]) are history variables: they are
    written but never read by [step]; the invariants of JcProofs.v are stated with them. *)
From Coq Require Import ZArith List Bool String.
Import ListNotations.
Local Open Scope Z_scope.

(* ------------------------------------------------------------------------------------ *)
(** * Part 1: machine arithmetic, calc_bits, init fields *)

(** value of a C [long] expression whose mathematical value is [z] (two's complement wrap) *)
Definition wrap64 (z : Z) : Z := (z + 2 ^ 63) mod 2 ^ 64 - 2 ^ 63.
Definition add64 (a b : Z) : Z := wrap64 (a + b).
Definition sub64 (a b : Z) : Z := wrap64 (a - b).

(** [1L << b] for a shift count 0 <= b < 64 (b = 63 gives LONG_MIN on the supported
    compilers; b >= 64 is undefined in C and never evaluated by the model, see [calc_bits]) *)
Definition shl1 (b : Z) : Z := wrap64 (Z.shiftl 1 b).

(** [int b = 0; while (x >= (1L << b)) b++; return b;]
    The fuel is the number of defined shift counts (0..63).  For 0 <= x < 2^62 the loop
    stops with b <= 62.  For x >= 2^62 the comparison is still true at b = 62, at b = 63 the
    shift overflows to LONG_MIN (so [x >= ...] holds again) and the next iteration would
    shift by 64: the model returns [None] = "outside the representable range" (the real
    code does not terminate there). *)
Fixpoint calc_bits_loop (fuel : nat) (x b : Z) : option Z :=
  match fuel with
  | O => None
  | S f => if x >=? shl1 b then calc_bits_loop f x (b + 1) else Some b
  end.

Definition calc_bits (x : Z) : option Z := calc_bits_loop 64 x 0.

Record jcfields := { f_n : Z; f_bits : Z; f_mask : Z; f_state : Z }.

(** myth_join_counter_init_body: [None] = calc_bits does not terminate, or the
    [assert((n_threads & mask) == n_threads)] fails (negative n_threads). *)
Definition jc_init (n : Z) : option jcfields :=
  match calc_bits n with
  | None => None
  | Some b =>
      let mask := sub64 (shl1 b) 1 in
      if Z.land n mask =? n then Some {| f_n := n; f_bits := b; f_mask := mask; f_state := 0 |}
      else None
  end.

(* ------------------------------------------------------------------------------------ *)
(** * Part 2: the protocol *)

Inductive op := Wait | Dec.

Inductive pc :=
| Idle
| WRead                                  (* jc.wait.read : s := state *)
| WCas (s0 : Z)                          (* jc.wait.cas  : CAS(state, s0, s0 + (1L << bits)) *)
| Susp                                   (* context saved by myth_block_on_queue; resumes at WRead *)
| DRead                                  (* jc.dec.read  : s := state *)
| DCas (s0 : Z)                          (* jc.dec.cas   : CAS(state, s0, s0 + 1) *)
| KDeq (n i : Z) (acc : list nat)        (* wakemany.deq : first loop, iteration i; acc = private list *)
| KPush (n i : Z) (rest : list nat)      (* wakemany.push: second loop, iteration i *)
| Excess                                 (* the exit(1) branch of dec ("excess threads") *)
| Done (o : op) (r : Z).

Inductive cbpc := CbNone | CbEnq.       (* blockq.enq pending *)

Record thread := {
  main : pc;
  cb : cbpc;
  reg : bool                             (* ghost: its registration CAS succeeded at some time *)
}.

Record ghost := {
  gcalls : Z;                            (* Dec calls made so far *)
  gdec : Z;                              (* successful dec CASes so far *)
  gpush : Z;                             (* wakemany.push steps so far *)
  gfinal : option nat                    (* the thread whose dec CAS was the N-th *)
}.

Record state := {
  jn : Z;                                (* jc->n_threads *)
  jbits : Z;                             (* jc->n_threads_bits *)
  jmask : Z;                             (* jc->state_mask *)
  word : Z;                              (* jc->state = (waiters << bits) | decrements *)
  sq : list nat;                         (* jc->sleep_q, head first *)
  thr : list thread;
  gh : ghost
}.

Inductive ev := ECall (o : op) | ETick | ECbTick | ERet (v : Z).

Definition thread0 : thread := {| main := Idle; cb := CbNone; reg := false |}.
Definition ghost0 : ghost := {| gcalls := 0; gdec := 0; gpush := 0; gfinal := None |}.

Definition init_state (n : Z) (nthreads : nat) : option state :=
  match jc_init n with
  | None => None
  | Some f => Some {| jn := f_n f; jbits := f_bits f; jmask := f_mask f; word := f_state f;
                      sq := []; thr := repeat thread0 nthreads; gh := ghost0 |}
  end.

(** "representable in the packed word": N is in the range of calc_bits and a waiter count as
    large as the number of threads fits into the 63 - bits value bits above the low field *)
Definition representable (n : Z) (nthreads : nat) : bool :=
  match calc_bits n with
  | Some b => (0 <=? n) && (Z.of_nat nthreads <? 2 ^ (63 - b))
  | None => false
  end.

(* ---- list / record helpers ---- *)
Fixpoint upd {A} (l : list A) (i : nat) (x : A) : list A :=
  match l, i with
  | [], _ => []
  | _ :: r, O => x :: r
  | y :: r, S j => y :: upd r j x
  end.

Definition set_word (s : state) (w : Z) : state :=
  {| jn := jn s; jbits := jbits s; jmask := jmask s; word := w; sq := sq s; thr := thr s; gh := gh s |}.
Definition set_sq (s : state) (l : list nat) : state :=
  {| jn := jn s; jbits := jbits s; jmask := jmask s; word := word s; sq := l; thr := thr s; gh := gh s |}.
Definition set_thr (s : state) (l : list thread) : state :=
  {| jn := jn s; jbits := jbits s; jmask := jmask s; word := word s; sq := sq s; thr := l; gh := gh s |}.
Definition set_gh (s : state) (g : ghost) : state :=
  {| jn := jn s; jbits := jbits s; jmask := jmask s; word := word s; sq := sq s; thr := thr s; gh := g |}.

Definition g_call (s : state) : state :=
  let g := gh s in set_gh s {| gcalls := gcalls g + 1; gdec := gdec g; gpush := gpush g; gfinal := gfinal g |}.
Definition g_dec (s : state) : state :=
  let g := gh s in set_gh s {| gcalls := gcalls g; gdec := gdec g + 1; gpush := gpush g; gfinal := gfinal g |}.
Definition g_push (s : state) : state :=
  let g := gh s in set_gh s {| gcalls := gcalls g; gdec := gdec g; gpush := gpush g + 1; gfinal := gfinal g |}.
Definition g_final (s : state) (t : nat) : state :=
  let g := gh s in set_gh s {| gcalls := gcalls g; gdec := gdec g; gpush := gpush g; gfinal := Some t |}.

Definition get_thread (s : state) (t : nat) : option thread := nth_error (thr s) t.
Definition set_thread (s : state) (t : nat) (x : thread) : state := set_thr s (upd (thr s) t x).
Definition set_main (th : thread) (p : pc) : thread := {| main := p; cb := cb th; reg := reg th |}.
Definition set_cb (th : thread) (c : cbpc) : thread := {| main := main th; cb := c; reg := reg th |}.

Definition put (s : state) (t : nat) (p : pc) : option state :=
  match get_thread s t with
  | Some th => Some (set_thread s t (set_main th p))
  | None => None
  end.

(** the low field (decrements so far) and the high field (registered waiters) of a word *)
Definition low_of (s : state) (w : Z) : Z := Z.land w (jmask s).
Definition high_of (s : state) (w : Z) : Z := Z.shiftr w (jbits s).

(** myth_queue_push of a dequeued thread: it must be suspended (context saved); it resumes
    after myth_block_on_queue, i.e. at the top of the wait loop *)
Definition wake (s : state) (x : nat) : option state :=
  match get_thread s x with
  | Some th => match main th with
               | Susp => Some (set_thread s x (set_main th WRead))
               | _ => None
               end
  | None => None
  end.

(** main-activity step of thread [t] *)
Definition tick (s : state) (t : nat) : option state :=
  match get_thread s t with
  | None => None
  | Some th =>
    match main th with
    | WRead =>
        let w := word s in
        if low_of s w =? jn s then put s t (Done Wait 0) else put s t (WCas w)
    | WCas s0 =>
        if word s =? s0 then
          Some (set_thread (set_word s (add64 s0 (shl1 (jbits s)))) t
                           {| main := Susp; cb := CbEnq; reg := true |})
        else put s t WRead
    | DRead =>
        let w := word s in
        if low_of s w >=? jn s then put s t Excess else put s t (DCas w)
    | DCas s0 =>
        if word s =? s0 then
          let s1 := g_dec (set_word s (add64 s0 1)) in
          (* n_threads - 1 cannot overflow: n_threads > n_decs >= 0 on this branch *)
          if low_of s s0 =? jn s - 1 then
            let n := high_of s s0 in
            let s2 := g_final s1 t in
            if 0 <? n then put s2 t (KDeq n 0 []) else put s2 t (Done Dec 0)
          else put s1 t (Done Dec 0)
        else put s t DRead
    | KDeq n i acc =>
        match sq s with
        | [] => Some s                                         (* wakemany.spin, then retry *)
        | x :: r =>
            let s1 := set_sq s r in
            if i + 1 <? n then put s1 t (KDeq n (i + 1) (acc ++ [x]))
            else put s1 t (KPush n 0 (acc ++ [x]))
        end
    | KPush n i rest =>
        match rest with
        | [] => None                                           (* assert(to_wake) *)
        | x :: r =>
            match wake s x with
            | None => None
            | Some s1 =>
                let s2 := g_push s1 in
                if i + 1 <? n then put s2 t (KPush n (i + 1) r) else put s2 t (Done Dec 0)
            end
        end
    | Idle | Susp | Excess | Done _ _ => None
    end
  end.

(** callback-activity step of thread [t]: myth_block_on_queue_cb enqueues it *)
Definition cbtick (s : state) (t : nat) : option state :=
  match get_thread s t with
  | None => None
  | Some th =>
    match cb th with
    | CbNone => None
    | CbEnq => Some (set_thread (set_sq s (sq s ++ [t])) t (set_cb th CbNone))
    end
  end.

(** a call is enabled when the thread is idle and has no callback pending.  There is no usage
    contract on the caller: the "at most N decrements" rule of the API is a hypothesis of the
    theorem that needs it (the ghost [gcalls] counts the Dec calls). *)
Definition call (s : state) (t : nat) (o : op) : option state :=
  match get_thread s t with
  | None => None
  | Some th =>
    match main th, cb th with
    | Idle, CbNone =>
      match o with
      | Wait => Some (set_thread s t (set_main th WRead))
      | Dec => Some (set_thread (g_call s) t (set_main th DRead))
      end
    | _, _ => None
    end
  end.

Definition ret_ok (s : state) (t : nat) (v : Z) : bool :=
  match get_thread s t with
  | Some th => match main th with
               | Done _ r => v =? r
               | _ => false
               end
  | None => false
  end.

Definition ret (s : state) (t : nat) (v : Z) : option state :=
  if ret_ok s t v then
    match get_thread s t with
    | Some th => Some (set_thread s t (set_main th Idle))
    | None => None
    end
  else None.

Definition step (s : state) (a : nat * ev) : option state :=
  let (t, e) := a in
  match e with
  | ECall o => call s t o
  | ETick => tick s t
  | ECbTick => cbtick s t
  | ERet v => ret s t v
  end.

(** the POINT id the activity executes at its next step ("" = none) *)
Definition label (s : state) (t : nat) (in_cb : bool) : string :=
  match get_thread s t with
  | None => ""
  | Some th =>
    if in_cb then
      match cb th with
      | CbNone => ""
      | CbEnq => "blockq.enq"
      end
    else
      match main th with
      | WRead => "jc.wait.read"
      | WCas _ => "jc.wait.cas"
      | DRead => "jc.dec.read"
      | DCas _ => "jc.dec.cas"
      | KDeq _ _ _ => "wakemany.deq"
      | KPush _ _ _ => "wakemany.push"
      | Idle | Susp | Excess | Done _ _ => ""
      end
  end%string.

(** the value the hook reports (CAS operand, loop index, thread handed over) *)
Definition lval (s : state) (t : nat) (in_cb : bool) : option Z :=
  match get_thread s t with
  | None => None
  | Some th =>
    if in_cb then
      match cb th with
      | CbEnq => Some (Z.of_nat t)
      | CbNone => None
      end
    else
      match main th with
      | WCas s0 | DCas s0 => Some s0
      | KDeq _ i _ => Some i
      | KPush _ _ (x :: _) => Some (Z.of_nat x)
      | _ => None
      end
  end.

(** the thread took the exit(1) branch of dec *)
Definition in_excess (s : state) (t : nat) : bool :=
  match get_thread s t with
  | Some th => match main th with Excess => true | _ => false end
  | None => false
  end.

(* ---- derived notions used by the theorems ---- *)
Definition low (s : state) : Z := low_of s (word s).
Definition high (s : state) : Z := high_of s (word s).

(** suspended on the counter: context saved, not yet pushed back by a waker (its enqueue
    may still be pending) *)
Definition suspended (th : thread) : bool :=
  match main th with Susp => true | _ => false end.

(** inside myth_wake_many_from_queue *)
Definition waker (p : pc) : bool :=
  match p with KDeq _ _ _ | KPush _ _ _ => true | _ => false end.

(** the private list of dequeued, not yet pushed threads *)
Definition held (p : pc) : list nat :=
  match p with KDeq _ _ acc => acc | KPush _ _ rest => rest | _ => [] end.
