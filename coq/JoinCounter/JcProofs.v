(** Proofs about the join counter model (JcModel.v): calc_bits, field independence of the
    packed word, the inductive invariant B.5 of DESIGN.md and the C07 theorems. *)
From Coq Require Import ZArith List Bool Lia Permutation.
From MT Require Import Lib.Interleave JoinCounter.JcModel.
Import ListNotations.
Local Open Scope Z_scope.

(* ------------------------------------------------------------------------------------ *)
(** * 64-bit arithmetic *)

Lemma two63 : 2 ^ 63 = 9223372036854775808. Proof. reflexivity. Qed.
Lemma two64 : 2 ^ 64 = 18446744073709551616. Proof. reflexivity. Qed.

Lemma wrap64_id z : - 2 ^ 63 <= z < 2 ^ 63 -> wrap64 z = z.
Proof.
  intros H. unfold wrap64. rewrite two63 in *. rewrite two64.
  rewrite Z.mod_small by lia. lia.
Qed.

Lemma pow2_pos b : 0 <= b -> 0 < 2 ^ b.
Proof. intros H. apply Z.pow_pos_nonneg; lia. Qed.

Lemma pow2_le a b : 0 <= a <= b -> 2 ^ a <= 2 ^ b.
Proof. intros H. apply Z.pow_le_mono_r; lia. Qed.

Lemma pow2_lt a b : 0 <= a < b -> 2 ^ a < 2 ^ b.
Proof. intros H. apply Z.pow_lt_mono_r; lia. Qed.

Lemma shl1_small b : 0 <= b <= 62 -> shl1 b = 2 ^ b.
Proof.
  intros H. unfold shl1. rewrite Z.shiftl_1_l. apply wrap64_id.
  pose proof (pow2_pos b (proj1 H)). pose proof (pow2_lt b 63 ltac:(lia)). lia.
Qed.

Lemma shl1_63 : shl1 63 = - 2 ^ 63.
Proof. reflexivity. Qed.

Lemma mask_small b : 0 <= b <= 62 -> sub64 (shl1 b) 1 = 2 ^ b - 1.
Proof.
  intros H. unfold sub64. rewrite shl1_small by exact H. apply wrap64_id.
  pose proof (pow2_pos b (proj1 H)). pose proof (pow2_lt b 63 ltac:(lia)). lia.
Qed.

(* ------------------------------------------------------------------------------------ *)
(** * calc_bits *)

Lemma calc_bits_loop_spec x : 0 <= x < 2 ^ 62 ->
  forall fuel b, 0 <= b -> (0 < b -> 2 ^ (b - 1) <= x) -> 63 <= b + Z.of_nat fuel ->
  exists r, calc_bits_loop fuel x b = Some r /\ b <= r <= 62 /\ x < 2 ^ r /\ (0 < r -> 2 ^ (r - 1) <= x).
Proof.
  intros Hx fuel. induction fuel as [|f IH]; intros b Hb0 Hlow Hfuel.
  - (* no fuel: b >= 63, impossible because 2^(b-1) <= x < 2^62 *)
    exfalso. assert (Hb : 0 < b) by lia. specialize (Hlow Hb).
    pose proof (pow2_le 62 (b - 1) ltac:(lia)). lia.
  - assert (Hb62 : b <= 62).
    { destruct (Z_lt_le_dec 0 b) as [Hb|Hb]; [|lia]. specialize (Hlow Hb).
      destruct (Z_le_gt_dec b 62) as [ok|bad]; [exact ok|].
      pose proof (pow2_le 62 (b - 1) ltac:(lia)). lia. }
    cbn [calc_bits_loop]. rewrite shl1_small by lia.
    destruct (x >=? 2 ^ b) eqn:E.
    + apply Z.geb_le in E.
      destruct (IH (b + 1)) as (r & Hr & Hbr & Hlt & Hge).
      * lia.
      * intros _. replace (b + 1 - 1) with b by lia. exact E.
      * lia.
      * exists r. repeat split; try assumption; lia.
    + rewrite Z.geb_leb in E. apply Z.leb_gt in E.
      exists b. repeat split; try lia; try exact Hlow.
Qed.

(** calc_bits_spec: inside the representable range the result is the width of x *)
Lemma calc_bits_spec x : 0 <= x < 2 ^ 62 ->
  exists b, calc_bits x = Some b /\ 0 <= b <= 62 /\ x < 2 ^ b /\ (x > 0 -> 2 ^ (b - 1) <= x).
Proof.
  intros Hx. destruct (calc_bits_loop_spec x Hx 64 0) as (r & Hr & Hb & Hlt & Hge); try lia.
  exists r. unfold calc_bits. repeat split; try assumption; try lia.
  intros Hpos. apply Hge. destruct (Z_lt_le_dec 0 r) as [ok|bad]; [exact ok|].
  assert (r = 0) by lia. subst r. change (2 ^ 0) with 1 in Hlt. lia.
Qed.

Lemma calc_bits_loop_none x : 2 ^ 62 <= x ->
  forall fuel b, 0 <= b -> b + Z.of_nat fuel = 64 -> calc_bits_loop fuel x b = None.
Proof.
  intros Hx fuel. induction fuel as [|f IH]; intros b Hb Hsum; [reflexivity|].
  cbn [calc_bits_loop].
  assert (Hge : (x >=? shl1 b) = true).
  { apply Z.geb_le. destruct (Z_le_gt_dec b 62) as [small|big].
    - rewrite shl1_small by lia. pose proof (pow2_le b 62 ltac:(lia)). lia.
    - assert (b = 63) by lia. subst b. rewrite shl1_63. rewrite two63 in *. lia. }
  rewrite Hge. apply IH; lia.
Qed.

(** outside the range (x >= 2^62) the loop of the real code never exits: at b = 63 the shift
    overflows to LONG_MIN and the next shift count is out of range *)
Lemma calc_bits_out_of_range x : 2 ^ 62 <= x -> calc_bits x = None.
Proof. intros Hx. unfold calc_bits. apply (calc_bits_loop_none x Hx 64 0); lia. Qed.

Lemma calc_bits_negative x : x < 0 -> calc_bits x = Some 0.
Proof.
  intros Hx. unfold calc_bits. cbn [calc_bits_loop]. rewrite shl1_small by lia.
  change (2 ^ 0) with 1. destruct (x >=? 1) eqn:E; [apply Z.geb_le in E; lia | reflexivity].
Qed.

(* ------------------------------------------------------------------------------------ *)
(** * the packed word: field independence *)

Lemma land_mask w b : 0 <= b -> Z.land w (2 ^ b - 1) = w mod 2 ^ b.
Proof.
  intros Hb. rewrite <- Z.land_ones by exact Hb. f_equal. rewrite Z.ones_equiv. lia.
Qed.

(** a word with [W] in the high field and [d] in the low field *)
Lemma low_of_pack W d b : 0 <= b -> 0 <= d < 2 ^ b -> Z.land (W * 2 ^ b + d) (2 ^ b - 1) = d.
Proof.
  intros Hb Hd. rewrite land_mask by exact Hb.
  rewrite Z.add_comm, Z_mod_plus_full. apply Z.mod_small. exact Hd.
Qed.

Lemma high_of_pack W d b : 0 <= b -> 0 <= d < 2 ^ b -> Z.shiftr (W * 2 ^ b + d) b = W.
Proof.
  intros Hb Hd. rewrite Z.shiftr_div_pow2 by exact Hb.
  rewrite Z.add_comm, Z_div_plus_full by (pose proof (pow2_pos b Hb); lia).
  rewrite Z.div_small by exact Hd. lia.
Qed.

(** registration does not touch the decrement field (for every word, no overflow assumed on
    the mathematical sum) *)
Lemma reg_keeps_low s b : 0 <= b -> Z.land (s + 2 ^ b) (2 ^ b - 1) = Z.land s (2 ^ b - 1).
Proof.
  intros Hb. rewrite !land_mask by exact Hb.
  replace (s + 2 ^ b) with (s + 1 * 2 ^ b) by lia. apply Z_mod_plus_full.
Qed.

(** a decrement adds one to the low field and leaves the high field alone, as long as the low
    field is below N <= mask (the assertion in myth_join_counter_dec_body) *)
Lemma dec_low s b n : 0 <= b -> n < 2 ^ b -> Z.land s (2 ^ b - 1) < n ->
  Z.land (s + 1) (2 ^ b - 1) = Z.land s (2 ^ b - 1) + 1.
Proof.
  intros Hb Hn Hlow. rewrite !land_mask in * by exact Hb.
  pose proof (Z.mod_pos_bound s (2 ^ b) (pow2_pos b Hb)) as Hm.
  rewrite (Z.div_mod s (2 ^ b)) at 1 by (pose proof (pow2_pos b Hb); lia).
  replace (2 ^ b * (s / 2 ^ b) + s mod 2 ^ b + 1) with ((s mod 2 ^ b + 1) + (s / 2 ^ b) * 2 ^ b) by lia.
  rewrite Z_mod_plus_full. apply Z.mod_small. lia.
Qed.

Lemma dec_keeps_high s b n : 0 <= b -> n < 2 ^ b -> Z.land s (2 ^ b - 1) < n ->
  Z.shiftr (s + 1) b = Z.shiftr s b.
Proof.
  intros Hb Hn Hlow. rewrite !Z.shiftr_div_pow2 by exact Hb. rewrite land_mask in Hlow by exact Hb.
  pose proof (pow2_pos b Hb) as Hp.
  pose proof (Z.mod_pos_bound s (2 ^ b) Hp) as Hm.
  symmetry. apply (Z.div_unique (s + 1) (2 ^ b) (s / 2 ^ b) (s mod 2 ^ b + 1)); [lia|].
  pose proof (Z.div_mod s (2 ^ b)). lia.
Qed.

Lemma reg_high s b : 0 <= b -> Z.shiftr (s + 2 ^ b) b = Z.shiftr s b + 1.
Proof.
  intros Hb. rewrite !Z.shiftr_div_pow2 by exact Hb.
  replace (s + 2 ^ b) with (s + 1 * 2 ^ b) by lia.
  rewrite Z_div_plus_full by (pose proof (pow2_pos b Hb); lia). reflexivity.
Qed.

(** "representable in the packed word": with [W] registered waiters and [W + 1 < 2^(63-b)]
    the registration sum does not carry into the sign bit, so the machine addition is the
    mathematical one *)
Lemma pack_bound W d b : 0 <= b <= 62 -> 0 <= W < 2 ^ (63 - b) -> 0 <= d < 2 ^ b ->
  0 <= W * 2 ^ b + d < 2 ^ 63.
Proof.
  intros Hb HW Hd. pose proof (pow2_pos b (proj1 Hb)) as Hp.
  assert (H63 : 2 ^ 63 = 2 ^ (63 - b) * 2 ^ b).
  { rewrite <- Z.pow_add_r by lia. f_equal. lia. }
  rewrite H63. nia.
Qed.

Lemma reg_no_carry W d b : 0 <= b <= 62 -> 0 <= W -> W + 1 < 2 ^ (63 - b) -> 0 <= d < 2 ^ b ->
  add64 (W * 2 ^ b + d) (shl1 b) = (W + 1) * 2 ^ b + d.
Proof.
  intros Hb HW Hfit Hd. unfold add64. rewrite shl1_small by exact Hb.
  replace (W * 2 ^ b + d + 2 ^ b) with ((W + 1) * 2 ^ b + d) by lia.
  apply wrap64_id. pose proof (pack_bound (W + 1) d b Hb ltac:(lia) Hd). lia.
Qed.

(** the guard of DESIGN.md: waiters < 2^(62-b) *)
Lemma reg_no_carry_62 W d b : 0 <= b <= 62 -> 0 <= W < 2 ^ (62 - b) -> 0 <= d < 2 ^ b ->
  add64 (W * 2 ^ b + d) (shl1 b) = (W + 1) * 2 ^ b + d.
Proof.
  intros Hb HW Hd. apply reg_no_carry; try assumption; try lia.
  assert (H : 2 ^ (63 - b) = 2 * 2 ^ (62 - b)).
  { replace (63 - b) with (Z.succ (62 - b)) by lia. rewrite Z.pow_succ_r by lia. reflexivity. }
  pose proof (pow2_pos (62 - b) ltac:(lia)). lia.
Qed.

Lemma dec_no_carry W d b n : 0 <= b <= 62 -> 0 <= W < 2 ^ (63 - b) -> n < 2 ^ b -> 0 <= d < n ->
  add64 (W * 2 ^ b + d) 1 = W * 2 ^ b + (d + 1).
Proof.
  intros Hb HW Hn Hd. unfold add64.
  replace (W * 2 ^ b + d + 1) with (W * 2 ^ b + (d + 1)) by lia.
  apply wrap64_id. pose proof (pack_bound W (d + 1) b Hb HW ltac:(lia)). lia.
Qed.

(** the init fields *)
Lemma jc_init_spec n : 0 <= n < 2 ^ 62 ->
  exists b, calc_bits n = Some b /\ 0 <= b <= 62 /\ n < 2 ^ b /\ (n > 0 -> 2 ^ (b - 1) <= n) /\
            jc_init n = Some {| f_n := n; f_bits := b; f_mask := 2 ^ b - 1; f_state := 0 |}.
Proof.
  intros Hn. destruct (calc_bits_spec n Hn) as (b & Hc & Hb & Hlt & Hge).
  exists b. repeat split; try assumption; try lia.
  unfold jc_init. rewrite Hc. rewrite mask_small by exact Hb.
  assert (Hl : Z.land n (2 ^ b - 1) = n).
  { replace n with (0 * 2 ^ b + n) at 1 by lia. apply low_of_pack; lia. }
  rewrite Hl, Z.eqb_refl. reflexivity.
Qed.

(* ------------------------------------------------------------------------------------ *)
(** * lists: upd, sums over the thread table *)

Lemma upd_length {A} (l : list A) i x : length (upd l i x) = length l.
Proof.
  revert i. induction l as [|y r IH]; intros i; [reflexivity|].
  destruct i as [|j]; cbn [upd length]; [reflexivity | rewrite IH; reflexivity].
Qed.

Lemma nth_upd_same {A} (l : list A) i x y : nth_error l i = Some y -> nth_error (upd l i x) i = Some x.
Proof.
  revert i. induction l as [|z r IH]; intros i H; destruct i as [|j]; cbn in *; try discriminate.
  - reflexivity.
  - apply IH. exact H.
Qed.

Lemma nth_upd_other {A} (l : list A) i j x : i <> j -> nth_error (upd l i x) j = nth_error l j.
Proof.
  revert i j. induction l as [|z r IH]; intros i j H; [reflexivity|].
  destruct i as [|i']; destruct j as [|j']; cbn; try reflexivity; try lia.
  apply IH. lia.
Qed.

Fixpoint sumf (f : thread -> Z) (l : list thread) : Z :=
  match l with [] => 0 | x :: r => f x + sumf f r end.

Lemma sumf_upd f l t th th' : nth_error l t = Some th -> sumf f (upd l t th') = sumf f l - f th + f th'.
Proof.
  revert t. induction l as [|z r IH]; intros t H; destruct t as [|j]; cbn in *; try discriminate.
  - inversion H; subst. lia.
  - rewrite (IH j H). lia.
Qed.

Lemma sumf_bounds f l : (forall x, 0 <= f x <= 1) -> 0 <= sumf f l <= Z.of_nat (length l).
Proof.
  intros Hf. induction l as [|z r IH]; cbn [sumf length]; [lia|].
  specialize (Hf z). lia.
Qed.

Lemma sumf_repeat f x n : f x = 0 -> sumf f (repeat x n) = 0.
Proof. intros H. induction n as [|n IH]; cbn; [reflexivity | lia]. Qed.
