(** The C07 theorems, derived from the inductive invariant of JcInv.v.  Everything here is
    for every N in the representable range, every number of threads and every schedule
    ([jc_reachable] = reachable from an initial state by any sequence of enabled steps). *)
From Coq Require Import ZArith List Bool Lia Permutation.
From MT Require Import Lib.Interleave JoinCounter.JcModel JoinCounter.JcProofs JoinCounter.JcInv.
Import ListNotations.
Local Open Scope Z_scope.

Lemma low_eq s : Inv s -> low s = gD s.
Proof. intros (G & _). unfold low, low_of. apply low_is_dec. exact G. Qed.

Lemma high_eq s : Inv s -> high s = nreg s.
Proof. intros (G & _). unfold high, high_of. apply high_is_reg. exact G. Qed.

(* ------------------------------------------------------------------------------------ *)
(** * what a step does to the thread table and to the ghost counters (no invariant needed) *)

Lemma upd_id {A} (l : list A) t x : nth_error l t = Some x -> upd l t x = l.
Proof.
  revert t. induction l as [|y r IH]; intros t H; destruct t as [|j]; cbn in *; try discriminate.
  - inversion H; subst. reflexivity.
  - rewrite (IH j H). reflexivity.
Qed.

(** every step rewrites the actor's entry; a push additionally turns the pushed thread from
    [Susp] to [WRead] *)
Lemma step_shape s t e s' : step s (t, e) = Some s' ->
  exists tht, get_thread s t = Some tht /\
   ((exists th', thr s' = upd (thr s) t th' /\ (main tht = Susp -> main th' = Susp)) \/
    (exists n i x0 r thx th', e = ETick /\ main tht = KPush n i (x0 :: r) /\
        get_thread s x0 = Some thx /\ main thx = Susp /\ x0 <> t /\
        thr s' = upd (upd (thr s) x0 (set_main thx WRead)) t th')).
Proof.
  intros Hst. destruct e as [o | | | v]; cbn [step] in Hst.
  - unfold call in Hst. destruct (get_thread s t) as [th|] eqn:Hg; [|discriminate].
    exists th. split; [reflexivity|]. left.
    destruct (main th) eqn:Hm; try discriminate. destruct (cb th); try discriminate.
    destruct o; inversion Hst; subst s'; eexists; (split; [reflexivity | intros; discriminate]).
  - unfold tick in Hst. destruct (get_thread s t) as [th|] eqn:Hg; [|discriminate].
    exists th. split; [reflexivity|].
    destruct (main th) eqn:Hm; try discriminate.
    + left. destruct (low_of s (word s) =? jn s); unfold put in Hst; rewrite Hg in Hst;
        inversion Hst; subst s'; eexists; (split; [reflexivity | intros; discriminate]).
    + left. destruct (word s =? s0).
      * inversion Hst; subst s'. eexists. split; [reflexivity | intros; discriminate].
      * unfold put in Hst; rewrite Hg in Hst. inversion Hst; subst s'. eexists. split; [reflexivity | intros; discriminate].
    + left. destruct (low_of s (word s) >=? jn s); unfold put in Hst; rewrite Hg in Hst;
        inversion Hst; subst s'; eexists; (split; [reflexivity | intros; discriminate]).
    + left. destruct (word s =? s0).
      * destruct (low_of s s0 =? jn s - 1); [destruct (0 <? high_of s s0)|];
          unfold put in Hst; norm_get Hst s t; rewrite Hg in Hst; inversion Hst; subst s';
          eexists; (split; [reflexivity | intros; discriminate]).
      * unfold put in Hst; rewrite Hg in Hst. inversion Hst; subst s'. eexists. split; [reflexivity | intros; discriminate].
    + left. destruct (sq s) as [|x r].
      * inversion Hst; subst s'. exists th. split; [|intros Hs; discriminate].
        symmetry. apply upd_id. exact Hg.
      * destruct (i + 1 <? n); unfold put in Hst; norm_get Hst s t; rewrite Hg in Hst;
          inversion Hst; subst s'; eexists; (split; [reflexivity | intros; discriminate]).
    + right. destruct rest as [|x r]; [discriminate|].
      unfold wake in Hst. destruct (get_thread s x) as [thx|] eqn:Hgx; [|discriminate].
      destruct (main thx) eqn:Hmx; try discriminate.
      assert (Hxt : x <> t).
      { intros e. subst x. rewrite Hg in Hgx. inversion Hgx; subst thx. rewrite Hm in Hmx. discriminate. }
      assert (Hg1 : nth_error (upd (thr s) x (set_main thx WRead)) t = Some th).
      { rewrite nth_upd_other by exact Hxt. exact Hg. }
      destruct (i + 1 <? n); unfold put in Hst;
        change (get_thread (g_push (set_thread s x (set_main thx WRead))) t)
          with (nth_error (upd (thr s) x (set_main thx WRead)) t) in Hst;
        rewrite Hg1 in Hst; inversion Hst; subst s';
        exists n, i, x, r, thx; eexists; repeat split; try reflexivity; assumption.
  - unfold cbtick in Hst. destruct (get_thread s t) as [th|] eqn:Hg; [|discriminate].
    exists th. split; [reflexivity|]. left. destruct (cb th); [discriminate|].
    inversion Hst; subst s'. eexists. split; [reflexivity | intros H; exact H].
  - unfold ret in Hst. destruct (ret_ok s t v) eqn:Hr; [|discriminate].
    unfold ret_ok in Hr. destruct (get_thread s t) as [th|] eqn:Hg; [|discriminate].
    exists th. split; [reflexivity|]. left. destruct (main th) eqn:Hm; try discriminate.
    inversion Hst; subst s'. eexists. split; [reflexivity | intros; discriminate].
Qed.

(** a thread other than the actor is unchanged unless it is the suspended thread being pushed *)
Lemma step_other s u e s' t th : step s (u, e) = Some s' -> u <> t ->
  get_thread s t = Some th ->
  get_thread s' t = Some th \/
  (main th = Susp /\ get_thread s' t = Some (set_main th WRead) /\ e = ETick /\
   exists thu n i r, get_thread s u = Some thu /\ main thu = KPush n i (t :: r)).
Proof.
  intros Hst Hne Hg. destruct (step_shape s u e s' Hst) as (thu & Hgu & [(th' & Et & _) | Hpush]).
  - left. unfold get_thread. rewrite Et. rewrite nth_upd_other by exact Hne. exact Hg.
  - destruct Hpush as (n & i & x0 & r & thx & th' & He & Hm & Hgx & Hmx & Hx0 & Et).
    destruct (Nat.eq_dec x0 t) as [e0|ne0].
    + subst x0. right. rewrite Hg in Hgx. inversion Hgx; subst thx. split; [exact Hmx|].
      split.
      * unfold get_thread. rewrite Et. rewrite nth_upd_other by exact Hne.
        apply (nth_upd_same _ _ _ th). exact Hg.
      * split; [exact He|]. exists thu, n, i, r. split; assumption.
    + left. unfold get_thread. rewrite Et. rewrite !nth_upd_other by auto. exact Hg.
Qed.

(** a suspended thread does not leave [Susp] by a step of its own *)
Lemma step_self_susp s t e s' th : step s (t, e) = Some s' -> get_thread s t = Some th ->
  main th = Susp -> exists th', get_thread s' t = Some th' /\ main th' = Susp.
Proof.
  intros Hst Hg Hm. destruct (step_shape s t e s' Hst) as (tht & Hgt & [(th' & Et & Hk) | Hpush]).
  - rewrite Hg in Hgt. inversion Hgt; subst tht. exists th'. split; [|apply Hk; exact Hm].
    unfold get_thread. rewrite Et. apply (nth_upd_same _ _ _ th). exact Hg.
  - destruct Hpush as (n & i & x0 & r & thx & th' & _ & Hm' & _).
    rewrite Hg in Hgt. inversion Hgt; subst tht. rewrite Hm in Hm'. discriminate.
Qed.

Ltac bm H :=
  repeat match type of H with
         | context [match ?x with _ => _ end] => destruct x eqn:?; try discriminate H
         end.

Lemma wake_fields s x s1 : wake s x = Some s1 ->
  jn s1 = jn s /\ jbits s1 = jbits s /\ jmask s1 = jmask s /\ gh s1 = gh s /\
  length (thr s1) = length (thr s).
Proof.
  unfold wake. intros H. bm H; inversion H; subst s1. sred. rewrite upd_length. repeat split; reflexivity.
Qed.

(** the parameters never change; the ghost counters only grow *)
Lemma step_mono s a s' : step s a = Some s' ->
  jn s' = jn s /\ jbits s' = jbits s /\ jmask s' = jmask s /\
  gD s <= gD s' /\ gU s <= gU s' /\ gC s <= gC s' /\ length (thr s') = length (thr s).
Proof.
  intros H. destruct a as [t e]. destruct e as [o | | | v]; cbn [step] in H.
  - unfold call in H. bm H; inversion H; subst s'; unfold gD, gU, gC; sred; rewrite ?upd_length;
      repeat split; try reflexivity; lia.
  - unfold tick, put in H. bm H; inversion H; subst s'; unfold gD, gU, gC; sred; rewrite ?upd_length;
      try (match goal with
           | Hw : wake _ _ = Some _ |- _ =>
               destruct (wake_fields _ _ _ Hw) as (W1 & W2 & W3 & W4 & W5); rewrite W1, W2, W3, W4, W5
           end);
      repeat split; try reflexivity; lia.
  - unfold cbtick in H. bm H; inversion H; subst s'; unfold gD, gU, gC; sred; rewrite ?upd_length;
      repeat split; try reflexivity; lia.
  - unfold ret in H. bm H; inversion H; subst s'; unfold gD, gU, gC; sred; rewrite ?upd_length;
      repeat split; try reflexivity; lia.
Qed.

Lemma gU_nonneg s : jc_reachable s -> 0 <= gU s.
Proof.
  revert s. apply (@invariant_rule state (nat * ev) jc_initial step (fun s => 0 <= gU s)).
  - intros s0 (n & nt & _ & Hi). unfold init_state in Hi. destruct (jc_init n); [|discriminate].
    inversion Hi; subst s0. unfold gU. cbn. lia.
  - intros s0 a s1 H0 Hst. pose proof (step_mono s0 a s1 Hst). lia.
Qed.

(* ------------------------------------------------------------------------------------ *)
(** * C07_inv_reachable: the packed word counts what it should *)

Theorem inv_summary s : jc_reachable s ->
  low s = gD s /\ 0 <= gD s <= jn s /\
  high s = nreg s /\
  nreg s = npend s + lenz (sq s) + lenz (fheld s) + gU s /\
  0 <= npend s /\ 0 <= gU s /\
  (forall t th s0, get_thread s t = Some th -> main th = WCas s0 -> low s = jn s -> word s <> s0).
Proof.
  intros Hr. pose proof (inv_reachable s Hr) as HI. pose proof HI as (G & T).
  split; [apply low_eq; exact HI|]. split; [apply (iv_dec s G)|].
  split; [apply high_eq; exact HI|]. split; [apply (iv_count s G)|].
  split; [apply sumf_nonneg; intros x; apply pendz_bounds|].
  split; [apply gU_nonneg; exact Hr|].
  intros t th s0 Hg Hm Hlow Hw. destruct (T t th Hg) as (_ & _ & _ & T4).
  unfold tloc in T4. rewrite Hm in T4. destruct T4 as (Hne & _).
  apply Hne. rewrite <- Hw. exact Hlow.
Qed.

(* ------------------------------------------------------------------------------------ *)
(** * C07_no_early_release *)

(** a completed Wait returned 0 and all N decrements have been performed *)
Theorem wait_done_after_n s t th r : jc_reachable s ->
  get_thread s t = Some th -> main th = Done Wait r ->
  r = 0 /\ low s = jn s /\ gD s = jn s.
Proof.
  intros Hr Hg Hm. pose proof (inv_reachable s Hr) as HI. destruct HI as (G & T).
  destruct (T t th Hg) as (_ & _ & _ & T4). unfold tloc in T4. rewrite Hm in T4.
  destruct T4 as (H0 & HD). split; [exact H0|]. split; [|exact HD].
  rewrite (low_eq s (conj G T)). exact HD.
Qed.

(** whoever is inside the wake-up loops is the N-th decrementer, after its CAS *)
Theorem waker_after_n s t th : jc_reachable s ->
  get_thread s t = Some th -> waker (main th) = true ->
  low s = jn s /\ gD s = jn s /\ gF s = Some t.
Proof.
  intros Hr Hg Hw. pose proof (inv_reachable s Hr) as HI. pose proof HI as (G & T).
  destruct (T t th Hg) as (_ & _ & _ & T4). unfold tloc in T4.
  assert (HF : gF s = Some t).
  { destruct (main th); try discriminate; destruct T4 as (a & _); exact a. }
  destruct (iv_final s G t HF) as (HD & _).
  split; [rewrite (low_eq s HI); exact HD|]. split; [exact HD | exact HF].
Qed.

(** a suspended thread stops being suspended only by a wakemany.push step of the N-th
    decrementer, i.e. when the low field already equals N *)
Theorem wake_only_by_final s a s' x th th' : jc_reachable s -> step s a = Some s' ->
  get_thread s x = Some th -> main th = Susp ->
  get_thread s' x = Some th' -> main th' <> Susp ->
  low s = jn s /\ gD s = jn s /\ main th' = WRead /\
  exists t tht n i r, a = (t, ETick) /\ get_thread s t = Some tht /\ main tht = KPush n i (x :: r).
Proof.
  intros Hr Hst Hg Hm Hg' Hm'. destruct a as [t e].
  destruct (Nat.eq_dec t x) as [e0|ne].
  - subst t. destruct (step_self_susp s x e s' th Hst Hg Hm) as (th2 & Hg2 & Hm2).
    rewrite Hg' in Hg2. inversion Hg2; subst th2. contradiction.
  - destruct (step_other s t e s' x th Hst ne Hg) as [Hsame | (_ & Hnew & He & thu & n & i & r & Hgu & Hmu)].
    + rewrite Hg' in Hsame. inversion Hsame; subst th'. contradiction.
    + rewrite Hg' in Hnew. inversion Hnew; subst th'.
      destruct (waker_after_n s t thu Hr Hgu) as (Hl & HD & _); [rewrite Hmu; reflexivity|].
      split; [exact Hl|]. split; [exact HD|]. split; [reflexivity|].
      exists t, thu, n, i, r. subst e. repeat split; assumption.
Qed.

(** the assertion after myth_block_on_queue in the wait loop: a woken thread sees low = N *)
Theorem woken_sees_n s t th : jc_reachable s ->
  get_thread s t = Some th -> reg th = true -> main th <> Susp -> low s = jn s.
Proof.
  intros Hr Hg Hreg Hm. pose proof (inv_reachable s Hr) as HI. pose proof HI as (G & T).
  destruct (T t th Hg) as (_ & _ & T3 & _). rewrite (low_eq s HI).
  destruct (T3 Hreg) as [a|b]; [contradiction | exact b].
Qed.

(* ------------------------------------------------------------------------------------ *)
(** * C07_all_released *)

Lemma sumf_zero_elem f l t th : (forall x, 0 <= f x) -> sumf f l = 0 -> nth_error l t = Some th -> f th = 0.
Proof.
  intros Hf H0 Hg. pose proof (sumf_ge_elem f l t th Hf Hg). pose proof (Hf th). lia.
Qed.

(** once the N-th decrementer has left the wake-up loops (nobody is inside them and the low
    field is N), every registered thread has been pushed: the queue is empty, no enqueue is
    pending, nobody is suspended *)
Theorem all_released s : jc_reachable s -> low s = jn s ->
  (forall t th, get_thread s t = Some th -> waker (main th) = false) ->
  sq s = [] /\ gU s = nreg s /\
  forall t th, get_thread s t = Some th -> suspended th = false /\ cb th = CbNone.
Proof.
  intros Hr Hlow Hnw. pose proof (inv_reachable s Hr) as HI. pose proof HI as (G & T).
  rewrite (low_eq s HI) in Hlow.
  assert (Hnp : 0 <= npend s) by (apply sumf_nonneg; intros x; apply pendz_bounds).
  assert (Hcore : gU s = nreg s /\ fheld s = []).
  { destruct (gF s) as [f|] eqn:EF.
    - destruct (iv_final s G f EF) as (_ & th & Hg & Hph).
      pose proof (Hnw f th Hg) as Hw. unfold fphase in Hph.
      split.
      + destruct (main th); try discriminate; exact Hph.
      + unfold fheld. rewrite EF. cbn [fheldl]. unfold get_thread in Hg. rewrite Hg.
        apply held_nonwaker. exact Hw.
    - destruct (iv_nofinal s G EF) as (H0 & H1). rewrite H0, (H1 Hlow).
      split; [reflexivity|]. unfold fheld. rewrite EF. reflexivity. }
  destruct Hcore as (HU & Hheld).
  pose proof (iv_count s G) as Hc. rewrite Hheld, HU in Hc. change (lenz []) with 0 in Hc.
  pose proof (lenz_nonneg (sq s)) as Hq.
  assert (Hq0 : sq s = []).
  { destruct (sq s) as [|x r]; [reflexivity|]. rewrite lenz_cons in *. pose proof (lenz_nonneg r). lia. }
  assert (Hp0 : npend s = 0) by lia.
  split; [exact Hq0|]. split; [exact HU|].
  intros t th Hg.
  assert (Hcb : cb th = CbNone).
  { pose proof (sumf_zero_elem pendz (thr s) t th (fun x => proj1 (pendz_bounds x)) Hp0 Hg) as Hz.
    unfold pendz in Hz. destruct (cb th); [reflexivity | discriminate]. }
  split; [|exact Hcb].
  unfold suspended. destruct (main th) eqn:Hm; try reflexivity.
  destruct (T t th Hg) as (_ & T2 & _). destruct (T2 Hm) as (_ & [c | [c | c]]).
  - rewrite Hcb in c. discriminate.
  - rewrite Hq0 in c. destruct c.
  - rewrite Hheld in c. destruct c.
Qed.

(* ------------------------------------------------------------------------------------ *)
(** * C07_late_wait_immediate *)

(** low = N is stable *)
Theorem low_n_stable s a s' : jc_reachable s -> low s = jn s -> step s a = Some s' -> low s' = jn s'.
Proof.
  intros Hr Hlow Hst.
  assert (Hr' : jc_reachable s') by (eapply reach_step; eassumption).
  pose proof (inv_reachable s Hr) as HI. pose proof (inv_reachable s' Hr') as HI'.
  rewrite (low_eq s HI) in Hlow. rewrite (low_eq s' HI').
  destruct (step_mono s a s' Hst) as (Pn & _ & _ & HD & _).
  destruct HI' as (G' & _). pose proof (iv_dec s' G'). lia.
Qed.

Lemma low_n_run s sched : jc_reachable s -> low s = jn s ->
  jc_reachable (run step sched s) /\ low (run step sched s) = jn (run step sched s).
Proof.
  revert s. induction sched as [|a sched IH]; intros s Hr Hlow; cbn [run fold_left].
  - split; assumption.
  - unfold exec1. destruct (step s a) as [s1|] eqn:E.
    + apply IH; [eapply reach_step; eassumption | eapply low_n_stable; eassumption].
    + apply IH; assumption.
Qed.

(** the first read of a Wait that finds low = N returns 0 and changes nothing shared *)
Theorem late_wait_read s t th : low s = jn s ->
  get_thread s t = Some th -> main th = WRead ->
  tick s t = Some (set_thread s t (set_main th (Done Wait 0))).
Proof.
  intros Hlow Hg Hm. unfold tick. rewrite Hg, Hm. unfold low in Hlow. rewrite Hlow, Z.eqb_refl.
  unfold put. rewrite Hg. reflexivity.
Qed.

(** steps of other threads do not disturb a thread that is not suspended *)
Lemma run_others_frame sched : forall s t th, (forall a, In a sched -> fst a <> t) ->
  get_thread s t = Some th -> main th <> Susp -> get_thread (run step sched s) t = Some th.
Proof.
  induction sched as [|a sched IH]; intros s t th Hno Hg Hm; cbn [run fold_left]; [exact Hg|].
  apply IH; try assumption.
  - intros b Hb. apply Hno. right. exact Hb.
  - unfold exec1. destruct (step s a) as [s1|] eqn:E; [|exact Hg].
    destruct a as [u e]. assert (Hu : u <> t) by (apply (Hno (u, e)); left; reflexivity).
    destruct (step_other s u e s1 t th E Hu Hg) as [ok | (bad & _)]; [exact ok | contradiction].
Qed.

(** a Wait called when low = N: whatever the other threads do in between (any schedule of
    theirs), the caller's first step returns 0 without registering and without touching the
    word or the queue *)
Theorem late_wait_immediate s t s1 sched : jc_reachable s -> low s = jn s ->
  call s t Wait = Some s1 -> (forall a, In a sched -> fst a <> t) ->
  let s2 := run step sched s1 in
  exists th s3, get_thread s2 t = Some th /\ main th = WRead /\
    tick s2 t = Some s3 /\ get_thread s3 t = Some (set_main th (Done Wait 0)) /\
    word s3 = word s2 /\ sq s3 = sq s2 /\ cb th = CbNone.
Proof.
  intros Hr Hlow Hcall Hno s2.
  assert (Hst : step s (t, ECall Wait) = Some s1) by exact Hcall.
  assert (Hr1 : jc_reachable s1) by (eapply reach_step; [exact Hr | exact Hst]).
  assert (Hlow1 : low s1 = jn s1) by (exact (low_n_stable s _ s1 Hr Hlow Hst)).
  destruct (low_n_run s1 sched Hr1 Hlow1) as (Hr2 & Hlow2). fold s2 in Hr2, Hlow2.
  unfold call in Hcall. destruct (get_thread s t) as [th0|] eqn:Hg0; [|discriminate].
  destruct (main th0) eqn:Hm0; try discriminate. destruct (cb th0) eqn:Hc0; try discriminate.
  inversion Hcall; subst s1; clear Hcall.
  set (th := set_main th0 WRead).
  assert (Hg1 : get_thread (set_thread s t th) t = Some th).
  { unfold get_thread, set_thread. sred. apply (nth_upd_same _ _ _ th0). exact Hg0. }
  assert (Hg2 : get_thread s2 t = Some th).
  { unfold s2. apply run_others_frame; [exact Hno | exact Hg1 | discriminate]. }
  exists th, (set_thread s2 t (set_main th (Done Wait 0))).
  split; [exact Hg2|]. split; [reflexivity|].
  split; [apply late_wait_read; [exact Hlow2 | exact Hg2 | reflexivity]|].
  split; [unfold get_thread, set_thread; sred; apply (nth_upd_same _ _ _ th); exact Hg2|].
  split; [reflexivity|]. split; [reflexivity | exact Hc0].
Qed.

(* ------------------------------------------------------------------------------------ *)
(** * C07_quiescent_no_sleeper *)

(** nothing can move: no callback step is enabled and every enabled main step is the
    queue-empty spin of the wake-up loop (which leaves the state unchanged) *)
Definition quiescent (s : state) : Prop :=
  forall t, cbtick s t = None /\ (tick s t = None \/ tick s t = Some s).

Lemma sumf_pos_exists f l : 0 < sumf f l -> exists t th, nth_error l t = Some th /\ 0 < f th.
Proof.
  induction l as [|y r IH]; cbn [sumf]; intros H; [lia|].
  destruct (Z_lt_le_dec 0 (f y)) as [pos|npos].
  - exists O, y. split; [reflexivity | exact pos].
  - destruct IH as (t & th & Hg & Hp); [lia|]. exists (S t), th. split; assumption.
Qed.

(** the wake-up loops never block: a push step is always enabled *)
Theorem push_enabled s t th n i rest : jc_reachable s ->
  get_thread s t = Some th -> main th = KPush n i rest ->
  exists s', tick s t = Some s' /\ gU s' = gU s + 1.
Proof.
  intros Hr Hg Hm. pose proof (inv_reachable s Hr) as HI. pose proof HI as (G & T).
  destruct (T t th Hg) as (_ & _ & _ & T4). unfold tloc in T4. rewrite Hm in T4.
  destruct T4 as (HF & Hi0 & Hi & Hin).
  destruct rest as [|x r]; [change (lenz []) with 0 in Hi; lia|].
  assert (Eheld : fheld s = x :: r).
  { unfold fheld. rewrite HF. cbn [fheldl]. unfold get_thread in Hg. rewrite Hg, Hm. reflexivity. }
  assert (Hxm : In x (sq s ++ fheld s)) by (rewrite Eheld; apply in_or_app; right; left; reflexivity).
  destruct (iv_members s G x Hxm) as (thx & Hgx & Hmx & _).
  assert (Hxt : x <> t).
  { intros e. subst x. rewrite Hg in Hgx. inversion Hgx; subst thx. rewrite Hm in Hmx. discriminate. }
  assert (Hg1 : nth_error (upd (thr s) x (set_main thx WRead)) t = Some th).
  { rewrite nth_upd_other by exact Hxt. exact Hg. }
  unfold tick. rewrite Hg, Hm. unfold wake. rewrite Hgx, Hmx.
  destruct (i + 1 <? n); unfold put;
    change (get_thread (g_push (set_thread s x (set_main thx WRead))) t)
      with (nth_error (upd (thr s) x (set_main thx WRead)) t);
    rewrite Hg1; eexists; (split; [reflexivity | unfold gU; sred; reflexivity]).
Qed.

Theorem quiescent_no_sleeper s : jc_reachable s -> low s = jn s -> quiescent s ->
  sq s = [] /\ forall t th, get_thread s t = Some th -> suspended th = false /\ cb th = CbNone.
Proof.
  intros Hr Hlow Hq. pose proof (inv_reachable s Hr) as HI. pose proof HI as (G & T).
  assert (Hnw : forall t th, get_thread s t = Some th -> waker (main th) = false).
  { intros t th Hg. destruct (waker (main th)) eqn:Hw; [exfalso | reflexivity].
    destruct (T t th Hg) as (_ & _ & _ & T4). unfold tloc in T4.
    destruct (Hq t) as (_ & Htick).
    destruct (main th) eqn:Hm; try discriminate.
    - (* KDeq *)
      destruct T4 as (HF & Hi & Hin).
      destruct (iv_final s G t HF) as (_ & thf & Hgf & Hph).
      rewrite Hg in Hgf. inversion Hgf; subst thf. rewrite Hm in Hph. cbn [fphase] in Hph.
      destruct Hph as (Hn & HU).
      destruct (sq s) as [|x r] eqn:Eq.
      + (* queue empty: some enqueue is pending, its callback step is enabled *)
        pose proof (iv_count s G) as Hc.
        assert (Eheld : fheld s = acc).
        { unfold fheld. rewrite HF. cbn [fheldl]. unfold get_thread in Hg. rewrite Hg, Hm. reflexivity. }
        rewrite Eq, Eheld, HU in Hc. change (lenz []) with 0 in Hc.
        assert (Hpos : 0 < npend s) by lia.
        destruct (sumf_pos_exists pendz (thr s) Hpos) as (u & thu & Hgu & Hpu).
        destruct (Hq u) as (Hcbu & _). unfold cbtick, get_thread in Hcbu. rewrite Hgu in Hcbu.
        unfold pendz in Hpu. destruct (cb thu); [lia | discriminate].
      + (* queue non-empty: the dequeue changes the queue *)
        unfold tick in Htick. rewrite Hg, Hm, Eq in Htick.
        assert (Hne : forall s1, sq s1 = r -> Some s1 <> Some s).
        { intros s1 H1 H2. inversion H2; subst s1. rewrite Eq in H1.
          apply (f_equal (@length nat)) in H1. cbn [length] in H1. lia. }
        destruct (i + 1 <? n); unfold put in Htick; norm_get Htick s t; rewrite Hg in Htick;
          (destruct Htick as [H|H]; [discriminate | eapply Hne; [|exact H]; reflexivity]).
    - (* KPush *)
      destruct (push_enabled s t th n i rest Hr Hg Hm) as (s' & Hs' & HU').
      rewrite Hs' in Htick. destruct Htick as [H|H]; [discriminate|].
      inversion H; subst s'. lia. }
  destruct (all_released s Hr Hlow Hnw) as (Hq0 & _ & Hall). split; assumption.
Qed.

(* ------------------------------------------------------------------------------------ *)
(** * C07_excess_unreachable *)

(** programs that issue at most N decrements never take the exit(1) branch *)
Theorem excess_unreachable s : jc_reachable s -> gC s <= jn s ->
  forall t, in_excess s t = false.
Proof.
  intros Hr Hc t. pose proof (inv_reachable s Hr) as (G & T).
  unfold in_excess. destruct (get_thread s t) as [th|] eqn:Hg; [|reflexivity].
  destruct (main th) eqn:Hm; try reflexivity.
  destruct (T t th Hg) as (_ & _ & _ & T4). unfold tloc in T4. rewrite Hm in T4. lia.
Qed.

(** and the decrement count of the word equals the number of completed decrements then *)
Theorem dec_count_budget s : jc_reachable s -> gD s + ninfl s <= gC s /\ 0 <= ninfl s.
Proof.
  intros Hr. pose proof (inv_reachable s Hr) as (G & T). split; [apply (iv_budget s G)|].
  apply sumf_nonneg. intros x. apply inflz_bounds.
Qed.

(* ------------------------------------------------------------------------------------ *)
(** * strict execution of a schedule (for the non-vacuity examples) *)

Fixpoint run_strict (sched : list (nat * ev)) (s : state) : option state :=
  match sched with
  | [] => Some s
  | a :: r => match step s a with Some s' => run_strict r s' | None => None end
  end.

Lemma run_strict_reachable sched : forall s s', jc_reachable s -> run_strict sched s = Some s' -> jc_reachable s'.
Proof.
  induction sched as [|a r IH]; intros s s' Hr H; cbn [run_strict] in H.
  - inversion H; subst. exact Hr.
  - destruct (step s a) as [s1|] eqn:E; [|discriminate].
    apply (IH s1); [eapply reach_step; eassumption | exact H].
Qed.

Definition mains (s : state) : list pc := map main (thr s).

(* ---- concrete schedules for the non-vacuity examples (N = 2, four threads) ---- *)
Definition xW (t : nat) : nat * ev := (t, ECall Wait).
Definition xD (t : nat) : nat * ev := (t, ECall Dec).
Definition xT (t : nat) : nat * ev := (t, ETick).
Definition xC (t : nat) : nat * ev := (t, ECbTick).
Definition xR (t : nat) : nat * ev := (t, ERet 0).

(** t0 waits and falls asleep; t2 decrements; t1 reads the word (low = 1) and is about to
    announce itself when t3 performs the final decrement: t1's CAS fails, its second read
    sees low = 2 and it returns without ever sleeping; t3 dequeues and pushes t0. *)
Definition sched_race : list (nat * ev) :=
  [xW 0; xT 0; xT 0; xC 0;
   xD 2; xT 2; xT 2; xR 2;
   xW 1; xT 1;
   xD 3; xT 3; xT 3;
   xT 1; xT 1; xR 1;
   xT 3; xT 3; xR 3;
   xT 0; xR 0]%nat.

(** t0 has registered but its enqueue callback has not run yet when the final decrementer t3
    starts dequeuing: t3 spins on the empty queue (the state does not change) until the
    callback has enqueued t0. *)
Definition sched_spin : list (nat * ev) :=
  [xW 0; xT 0; xT 0;
   xD 2; xT 2; xT 2; xR 2;
   xD 3; xT 3; xT 3; xT 3; xT 3; xC 0; xT 3; xT 3; xR 3; xT 0; xR 0]%nat.

Definition go (n : Z) (nt : nat) (sched : list (nat * ev)) : option state :=
  match init_state n nt with Some s => run_strict sched s | None => None end.

Definition view (o : option state) : option (Z * list nat * list pc) :=
  match o with Some s => Some (word s, sq s, mains s) | None => None end.

Lemma go_reachable n nt sched s : representable n nt = true -> go n nt sched = Some s -> jc_reachable s.
Proof.
  unfold go. intros Hrep H. destruct (init_state n nt) as [s0|] eqn:E; [|discriminate].
  apply (run_strict_reachable sched s0 s); [|exact H].
  apply reach_init. exists n, nt. split; assumption.
Qed.
