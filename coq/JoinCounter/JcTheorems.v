(** The C07 theorems, derived from the inductive invariant of JcInv.v.  Everything here is
    for every N in the representable range, every number of threads and every schedule
    ([jc_reachable] = reachable from an initial state by any sequence of enabled steps). *)
From Coq Require Import ZArith List Bool Lia Permutation String.
From MT Require Import Lib.Interleave JoinCounter.JcModel JoinCounter.JcProofs JoinCounter.JcInv.
Import ListNotations.
Local Open Scope Z_scope.

Lemma low_eq s : Inv s -> low s = gD s.
Proof. intros (G & _). unfold low, low_of. apply low_is_dec. exact G. Qed.

Lemma high_eq s : Inv s -> high s = nreg s.
Proof. intros (G & _). unfold high, high_of. apply high_is_reg. exact G. Qed.

(* ------------------------------------------------------------------------------------ *)
(** * C07_inv_reachable *)

Theorem inv_summary s : jc_reachable s ->
  low s = gD s /\ 0 <= gD s <= jn s /\
  high s = nreg s /\
  nreg s = npend s + lenz (sq s) + lenz (fheld s) + gU s /\
  0 <= npend s /\ 0 <= gU s /\
  (forall t th s0, get_thread s t = Some th -> main th = WCas s0 -> low s = jn s -> word s <> s0).
Proof.
  intros Hr. pose proof (inv_reachable s Hr) as HI. pose proof HI as (G & T).
  split; [apply low_eq; exact HI|]. split; [apply (g_dec s G)|].
  split; [apply high_eq; exact HI|]. split; [apply (g_count s G)|].
  split; [apply sumf_nonneg; intros x; apply pendz_bounds|].
  split.
  - destruct (gF s) as [f|] eqn:EF.
    + destruct (g_final s G f EF) as (_ & th & _ & Hph). unfold fphase in Hph.
      pose proof (nreg_bounds s). destruct (main th); try lia.
      destruct (T f th) as (_ & _ & _ & T4).
      { destruct (g_final s G f EF) as (_ & th' & Hg' & _). admit. }
      admit.
    + destruct (g_nofinal s G EF) as (H0 & _). lia.
  - intros t th s0 Hg Hm Hlow Hw. destruct (T t th Hg) as (_ & _ & _ & T4).
    unfold tloc in T4. rewrite Hm in T4. destruct T4 as (Hne & _).
    apply Hne. rewrite <- Hw. exact Hlow.
Abort.
