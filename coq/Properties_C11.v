(** C11 — thread-specific data destructors run exactly once, with the right value.
    Statements only; every proof is [exact] of a lemma of Tls/TlsDestroyProofs.v.

    [fini false dt t] is the thread-exit walk of the CURRENT source
    ([myth_tls_tree_fini]: destructor walk, then teardown walk) on the tree [t]
    of the terminating thread with destructor column [dt] of the key table;
    [fini true] is the walk as it was before commit 90cf288.  All three ways of
    terminating (return, [myth_exit], acted-on cancellation) enter
    [myth_entry_point_cleanup], whose first action is this walk.  [reach t]:
    [t] is the result of any sequence of [myth_setspecific] calls (any keys, any
    values, also NULL, also out-of-range keys) on a fresh thread. *)
From Coq Require Import ZArith List Permutation.
From MT Require Import Tls.TlsTreeModel Tls.TlsTreeProofs Tls.TlsDestroyModel Tls.TlsDestroyProofs.
Import ListNotations.
Local Open Scope Z_scope.

(** For every reachable tree and every destructor table the walk completes (no
    assertion fails) and
    - every call is the call of the destructor of a key [k] of the valid range
      that HAS a destructor, with [k]'s own current value (never another key's
      value, never for a key registered without destructor);
    - for every key with destructor and a non-NULL value that call occurs
      exactly once;
    - no key gets two calls (a call with a NULL value, which the library makes
      for the other slots of a touched leaf and which tests/myth_key_destructor.c
      relies on, is allowed but also happens at most once and only through the
      key's own destructor);
    - every key-table cell read is inside the 1024-cell table;
    - the nodes handed to [myth_free] are exactly the malloc-ed nodes of the
      tree, each exactly once; no node of the embedded pool is freed. *)
Theorem C11_exact : forall dt t, reach t ->
  exists evs, fini false dt t = Some evs /\
    (forall k v, In (k, v) (calls_of evs) -> in_range k /\ dt k <> 0 /\ get t k = Some v) /\
    (forall k v, in_range k -> dt k <> 0 -> get t k = Some v -> v <> 0 ->
                 count_occ zz_eq_dec (calls_of evs) (k, v) = 1%nat) /\
    NoDup (map fst (calls_of evs)) /\
    (forall k, In k (reads_of evs) -> in_range k) /\
    NoDup (frees_of evs) /\
    (forall o, In o (frees_of evs) <-> exists id sz, o = Heap id /\ In (o, sz) (nodes (root t))).
Proof. exact fini_property. Qed.
Print Assumptions C11_exact.

(** the exact sequences: calls in ascending key order for exactly the keys of
    allocated leaves that have a destructor; cells read = the keys of allocated
    leaves; frees = a permutation of the tree's nodes minus the pool nodes *)
Theorem C11_trace_exact : forall dt t, reach t ->
  exists evs, fini false dt t = Some evs /\
    calls_of evs = flat_map (call_slot dt t) (zrange 0 1024) /\
    reads_of evs = flat_map (read_slot t) (zrange 0 1024) /\
    exists os, frees_of evs = filter freed os /\ Permutation os (map fst (nodes (root t))).
Proof. exact fini_exact. Qed.
Print Assumptions C11_trace_exact.

(** a thread that never stored anything: no call, no read, no free *)
Theorem C11_nothing_stored : forall old dt, fini old dt empty = Some [].
Proof. exact fini_empty. Qed.
Print Assumptions C11_nothing_stored.

(** The walk before commit 90cf288 violates the property; the model exhibits
    the three failures recorded in known_findings.json (and the leak of the
    teardown walk).  The check replays the first three on the real code and so
    detects a revert of that commit. *)
Theorem C11_prefix_walk_refuted :
  (exists t, set_all empty [(16, 777)] = Some t /\ reach t /\ get t 16 = Some 777 /\
             option_map calls_of (fini true (fun _ => 1) t) = Some []) /\
  (exists t, set_all empty [(0, 5); (16, 6)] = Some t /\ reach t /\
             option_map calls_of (fini true (dt_of [0; 16; 64]) t) = Some [(0, 5); (64, 6)]) /\
  (exists t evs, set_all empty [(0, 5); (256, 6)] = Some t /\ reach t /\
             fini true (dt_of [0; 256]) t = Some evs /\ In 1024 (reads_of evs) /\
             calls_of evs = [(0, 5)]) /\
  (exists t evs, set_all empty [(16, 1); (17, 2); (300, 3)] = Some t /\ reach t /\
             fini true (fun _ => 0) t = Some evs /\
             exists id sz, In (Heap id, sz) (nodes (root t)) /\ ~ In (Heap id) (frees_of evs)).
Proof. exact prefix_walk_refuted. Qed.
Print Assumptions C11_prefix_walk_refuted.

(** every list of stores yields a reachable tree, and every reachable tree is
    produced by some list of stores: "every subset of keys" *)
Theorem C11_every_subset : forall kvs, exists t, set_all empty kvs = Some t /\ reach t.
Proof. exact (fun kvs => set_all_reach kvs empty reach_empty). Qed.
Print Assumptions C11_every_subset.

(** non-vacuity: keys in four different subtrees, mixed destructors, a NULL
    value; the same input under the old walk loses key 1023 and 256 *)
Example C11_example :
  match set_all empty [(0, 11); (16, 12); (256, 13); (1023, 14); (5, 0)] with
  | Some t =>
      option_map calls_of (fini false (dt_of [0; 5; 16; 1023; 700]) t)
        = Some [(0, 11); (5, 0); (16, 12); (1023, 14)] /\
      option_map frees_of (fini false (dt_of [0; 5; 16; 1023; 700]) t)
        = Some [Heap 0; Heap 3; Heap 2; Heap 1; Heap 6; Heap 5; Heap 4] /\
      option_map calls_of (fini true (dt_of [0; 5; 16; 1023; 700]) t)
        = Some [(0, 11); (5, 0)]
  | None => False
  end.
Proof. vm_compute. repeat split; reflexivity. Qed.
