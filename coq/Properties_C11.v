(** C11 — thread-specific data destructors run exactly once, with the right value.
    Statements only; every proof is [exact] of a lemma of Tls/TlsDestroyProofs.v.

    [fini false c dt kg t] is the thread-exit walk of the CURRENT source
    ([myth_tls_tree_fini]: destructor walk, then teardown walk) on the tree [t]
    of the terminating thread, with layout [c], destructor column [dt] and
    generation column [kg] of the key table; [fini true] is the walk as it was
    before commit 90cf288.  The theorems hold for every layout with a positive
    leaf size and for every generation column, i.e. both for the code without
    generation tags ([cfg_plain], [kg0]: all generations 0) and for the code
    with them ([cfg_tagged]; which of the two the library is, is probed by the
    check on every run).  All three ways of
    terminating (return, [myth_exit], acted-on cancellation) enter
    [myth_entry_point_cleanup], whose first action is this walk.  [reach c t]:
    [t] is the result of any sequence of [myth_setspecific] calls (any keys, any
    values, also NULL, also out-of-range keys) on a fresh thread. *)
From Coq Require Import ZArith List Permutation.
From MT Require Import Tls.TlsKeysModel Tls.TlsKeysProofs.
From MT Require Import Tls.TlsTreeModel Tls.TlsTreeProofs Tls.TlsDestroyModel Tls.TlsDestroyProofs.
Import ListNotations.
Local Open Scope Z_scope.

(** For every reachable tree, every destructor table and every generation column
    the walk completes (no assertion fails) and
    - every call is the call of the destructor of a key [k] of the valid range
      that HAS a destructor, with what [myth_getspecific(k)] would return to the
      thread at that moment (never another key's value - in particular, with
      generation tags, never a value left under an earlier incarnation of the
      index -, never for a key registered without destructor);
    - for every key with destructor and a non-NULL value that call occurs
      exactly once;
    - no key gets two calls (a call with a NULL value, which the library makes
      for the other slots of a touched leaf and which tests/myth_key_destructor.c
      relies on, is allowed but also happens at most once and only through the
      key's own destructor);
    - every key-table cell read is inside the 1024-cell table;
    - the nodes handed to [myth_free] are exactly the malloc-ed nodes of the
      tree, each exactly once; no node of the embedded pool is freed. *)
Theorem C11_exact : forall c, 0 < c_leaf c -> 0 <= c_pool c -> forall dt kg t, reach c t ->
  exists evs, fini false c dt kg t = Some evs /\
    (forall k v, In (k, v) (calls_of evs) -> in_range k /\ dt k <> 0 /\ get kg t k = Some v) /\
    (forall k v, in_range k -> dt k <> 0 -> get kg t k = Some v -> v <> 0 ->
                 count_occ zz_eq_dec (calls_of evs) (k, v) = 1%nat) /\
    NoDup (map fst (calls_of evs)) /\
    (forall k, In k (reads_of evs) -> in_range k) /\
    NoDup (frees_of evs) /\
    (forall o, In o (frees_of evs) <-> exists id sz, o = Heap id /\ In (o, sz) (nodes c (root t))).
Proof. exact fini_property. Qed.
Print Assumptions C11_exact.

(** The property speaks about LIVE keys.  [C11_exact] holds for every destructor column; what links the
    column to liveness is the key allocator: [myth_key_delete] clears the destructor cell (commit 7f58d46),
    so after every history of creates and deletes the column is NULL outside the live keys
    ([C10_deleted_key_no_destructor]).  With the column and the generation column the thread exit really
    reads - those of the allocator state [s] reached by any history, [h] = the keys live at that moment:
    every destructor call is for a LIVE key, with that key's own current value; a live key with destructor
    and non-NULL value gets its call exactly once; a key that was deleted (and not created again) gets none,
    whatever the thread still holds under it.  (Added with 7f58d46: before, the theorem had no liveness
    clause and the model - like the code - kept the destructor of a deleted key.) *)
Theorem C11_exact_live : forall tagged os s h rs c, 0 < c_leaf c -> 0 <= c_pool c ->
  seq_hist tagged kinit [] os = Some (s, h, rs) -> forall t, reach c t ->
  exists evs, fini false c (kdtor s) (kgen s) t = Some evs /\
    (forall k v, In (k, v) (calls_of evs) -> In k h /\ kdtor s k <> 0 /\ get (kgen s) t k = Some v) /\
    (forall k v, In k h -> kdtor s k <> 0 -> get (kgen s) t k = Some v -> v <> 0 ->
                 count_occ zz_eq_dec (calls_of evs) (k, v) = 1%nat) /\
    (forall k v, ~ In k h -> ~ In (k, v) (calls_of evs)) /\
    NoDup (map fst (calls_of evs)).
Proof. exact fini_live. Qed.
Print Assumptions C11_exact_live.

(** the exact sequences: calls in ascending key order for exactly the keys of
    allocated leaves that have a destructor; cells read = the keys of allocated
    leaves; frees = a permutation of the tree's nodes minus the pool nodes *)
Theorem C11_trace_exact : forall c dt kg t, reach c t ->
  exists evs, fini false c dt kg t = Some evs /\
    calls_of evs = flat_map (call_slot dt kg t) (zrange 0 1024) /\
    reads_of evs = flat_map (read_slot t) (zrange 0 1024) /\
    exists os, frees_of evs = filter (freed c) os /\ Permutation os (map fst (nodes c (root t))).
Proof. exact fini_exact. Qed.
Print Assumptions C11_trace_exact.

(** with generation tags: a value sitting in a slot under another generation
    than the index' current one never reaches a destructor *)
Theorem C11_stale_not_passed : forall c, 0 < c_leaf c -> 0 <= c_pool c ->
  forall dt kg t k v0 g evs, reach c t ->
  fini false c dt kg t = Some evs -> look_tree t k = Found v0 g -> g <> kg k ->
  forall v, In (k, v) (calls_of evs) -> v = 0.
Proof. exact stale_not_passed. Qed.
Print Assumptions C11_stale_not_passed.

(** a thread that never stored anything: no call, no read, no free *)
Theorem C11_nothing_stored : forall old c dt kg, fini old c dt kg empty = Some [].
Proof. exact fini_empty. Qed.
Print Assumptions C11_nothing_stored.

(** The walk before commit 90cf288 violates the property; the model exhibits
    the three failures recorded in known_findings.json (and the leak of the
    teardown walk).  The check replays the first three on the real code and so
    detects a revert of that commit. *)
Theorem C11_prefix_walk_refuted :
  (exists t, set_all cfg_plain kg0 empty [(16, 777)] = Some t /\ reach cfg_plain t /\
             get kg0 t 16 = Some 777 /\
             option_map calls_of (fini true cfg_plain (fun _ => 1) kg0 t) = Some []) /\
  (exists t, set_all cfg_plain kg0 empty [(0, 5); (16, 6)] = Some t /\ reach cfg_plain t /\
             option_map calls_of (fini true cfg_plain (dt_of [0; 16; 64]) kg0 t) = Some [(0, 5); (64, 6)]) /\
  (exists t evs, set_all cfg_plain kg0 empty [(0, 5); (256, 6)] = Some t /\ reach cfg_plain t /\
             fini true cfg_plain (dt_of [0; 256]) kg0 t = Some evs /\ In 1024 (reads_of evs) /\
             calls_of evs = [(0, 5)]) /\
  (exists t evs, set_all cfg_plain kg0 empty [(16, 1); (17, 2); (300, 3)] = Some t /\ reach cfg_plain t /\
             fini true cfg_plain (fun _ => 0) kg0 t = Some evs /\
             exists id sz, In (Heap id, sz) (nodes cfg_plain (root t)) /\ ~ In (Heap id) (frees_of evs)).
Proof. exact prefix_walk_refuted. Qed.
Print Assumptions C11_prefix_walk_refuted.

(** every list of stores yields a reachable tree: "every subset of keys" *)
Theorem C11_every_subset : forall c kg kvs, exists t, set_all c kg empty kvs = Some t /\ reach c t.
Proof. exact (fun c kg kvs => set_all_reach c kg kvs empty (reach_empty c)). Qed.
Print Assumptions C11_every_subset.

(** non-vacuity: keys in four different subtrees, mixed destructors, a NULL
    value; the same input under the old walk loses key 1023 and 256 *)
Example C11_example :
  match set_all cfg_plain kg0 empty [(0, 11); (16, 12); (256, 13); (1023, 14); (5, 0)] with
  | Some t =>
      option_map calls_of (fini false cfg_plain (dt_of [0; 5; 16; 1023; 700]) kg0 t)
        = Some [(0, 11); (5, 0); (16, 12); (1023, 14)] /\
      option_map frees_of (fini false cfg_plain (dt_of [0; 5; 16; 1023; 700]) kg0 t)
        = Some [Heap 0; Heap 3; Heap 2; Heap 1; Heap 6; Heap 5; Heap 4] /\
      option_map calls_of (fini true cfg_plain (dt_of [0; 5; 16; 1023; 700]) kg0 t)
        = Some [(0, 11); (5, 0)]
  | None => False
  end.
Proof. vm_compute. repeat split; reflexivity. Qed.

(** non-vacuity with generation tags: keys 0 and 16 stored under generation 1;
    index 16 has since been deleted and created again (generation 2): its
    destructor is called with NULL, not with the old incarnation's 12 *)
Example C11_example_tagged :
  match set_all cfg_tagged (fun _ => 1) empty [(0, 11); (16, 12)] with
  | Some t =>
      option_map calls_of (fini false cfg_tagged (dt_of [0; 16]) (fun k => if k =? 16 then 2 else 1) t)
        = Some [(0, 11); (16, 0)] /\
      get (fun k => if k =? 16 then 2 else 1) t 16 = Some 0 /\ get (fun _ => 1) t 16 = Some 12 /\
      pp t = 384
  | None => False
  end.
Proof. vm_compute. repeat split; reflexivity. Qed.
