From Coq Require Import ExtrOcamlBasic.
From Coq Require Import ZArith.
From MT Require Import Sync.SyncModel.
Extraction Language OCaml.
Separate Extraction BinNums.N BinInt.Z.add BinInt.Z.mul BinInt.Z.opp BinInt.Z.div_eucl init_state step label lval lqueue ret_ok ncbs holds mword mq cqs festat thr.
