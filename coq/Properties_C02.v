(** C02 - runnable threads are never lost or duplicated by the work-stealing queues.
    Statements only; every proof is [exact] of a lemma of Wsq/WsqProofs.v or Wsq/TsoProofs.v.

    Model: Wsq/WsqModel.v (one step per MYTH_VERIF_POINT of src/myth_wsqueue_func.h; one
    owner, any number of thieves, any capacity >= 2); the same program under store buffers:
    Wsq/TsoModel.v.  [pushed] / [returned] are ghost lists: items whose insertion has been
    published (push's store to top, put's / trypass's store to base), items handed to a
    caller by pop / take.

      Teff s = top  + [owner has stored the decremented top in pop, decision pending]
      Beff s = base - [the lock-holding thief has stored base+1, decision pending]
      live s = slots [Beff, Teff)       inflight s = slots already claimed, not yet read *)
From Coq Require Import ZArith List Permutation.
From MT Require Import Lib.Interleave Wsq.WsqModel Wsq.WsqLists Wsq.WsqInv Wsq.WsqProofs
                       Wsq.TsoModel Wsq.TsoProofs.
Import ListNotations.
Local Open Scope Z_scope.

(** ** The invariant (sequential consistency): every reachable state, i.e. every capacity,
    every number of thieves, every interleaving, every sequence of operations *)
Theorem C02_inv_reachable : forall s, reachable init step s ->
  qsize s = Z.of_nat (length (ptr (mm s))) /\
  0 <= Beff s /\ Beff s <= Teff s /\ Teff s <= qsize s /\
  Permutation (pushed s) (returned s ++ live s ++ inflight s) /\
  (NoDup (pushed s) -> NoDup (returned s ++ live s ++ inflight s)) /\
  lck (mm s) = holders s /\ 0 <= holders s <= 1 /\
  (forall t i m b, own s = OPopFast t -> nth_error (thv s) i = Some (TSlot m b) -> 0 <= b < t).
Proof. exact inv_reachable_expanded. Qed.
Print Assumptions C02_inv_reachable.

(** the same, spelled out over schedules *)
Theorem C02_inv_every_schedule : forall sz n (sched : list actor),
  2 <= sz -> StateInv (run step sched (init_state sz n)).
Proof. exact inv_every_schedule. Qed.
Print Assumptions C02_inv_every_schedule.

(** a non-trivial reachable state: capacity 4, two thieves; two pushes, then a pop and a take
    race for the items while the second thief passes an item in *)
Definition ex_sched : list actor :=
  do_push 1 ++ do_push 2 ++
  [(O, CallO Pop); (1%nat, CallT Take); (O, Tick); (1%nat, Tick); (O, Tick); (1%nat, Tick);
   (O, Tick); (1%nat, Tick); (2%nat, CallT (Pass 7)); (1%nat, Tick); (O, Tick); (1%nat, Tick)].
Example C02_inv_example :
  let s := run step ex_sched (init_state 4 2) in
  own s = OPopLock 3 /\ nth_error (thv s) 0 = Some (TSlot MTake 2) /\
  Teff s = 4 /\ Beff s = 3 /\ live s = [2] /\ inflight s = [1] /\ holders s = 1.
Proof. vm_compute. repeat split; reflexivity. Qed.

(** ** No loss, no duplication: when no operation is in flight, what was inserted is exactly
    what was handed out plus what the queue holds, each item once *)
Theorem C02_no_loss_no_dup : forall s, reachable init step s -> quiescent s ->
  0 <= base (mm s) /\ base (mm s) <= top (mm s) /\ top (mm s) <= qsize s /\
  lck (mm s) = 0 /\
  Permutation (pushed s) (returned s ++ zseg (ptr (mm s)) (base (mm s)) (top (mm s))) /\
  (NoDup (pushed s) -> NoDup (returned s ++ zseg (ptr (mm s)) (base (mm s)) (top (mm s)))).
Proof. exact no_loss_no_dup. Qed.
Print Assumptions C02_no_loss_no_dup.

Example C02_no_loss_example :
  let s := run step (do_push 1 ++ do_push 2) (init_state 4 2) in
  oquiet (own s) = true /\ forallb tquiet (thv s) = true /\ pushed s = [1; 2] /\
  zseg (ptr (mm s)) (base (mm s)) (top (mm s)) = [1; 2].
Proof. vm_compute. repeat split; reflexivity. Qed.

(** ** A steal whose decision callback declines leaves everything as it was: memory
    (top, base, all slots, lock, hint cache), ghosts and the other participants *)
Theorem C02_declined_steal : forall s i k r,
  aborted s = false -> nth_error (thv s) i = Some TIdle ->
  let s' := run step (solo i (WTake false) k) s in
  nth_error (thv s') i = Some (TDone r) ->
  r = 0 /\ mm s' = mm s /\ pushed s' = pushed s /\ returned s' = returned s /\
  own s' = own s /\ (forall j, j <> i -> nth_error (thv s') j = nth_error (thv s) j).
Proof. exact declined_steal. Qed.
Print Assumptions C02_declined_steal.

Example C02_declined_example :
  let s := run step (do_push 1 ++ do_push 2) (init_state 4 2) in
  let s' := run step (solo 0 (WTake false) 7) s in
  nth_error (thv s') 0 = Some (TDone 0) /\ mm s' = mm s /\
  (* ... and the same candidate is handed out when the callback accepts *)
  nth_error (thv (run step (solo 0 (WTake true) 7) s)) 0 = Some (TDone 1).
Proof. vm_compute. repeat split; reflexivity. Qed.

(** ** Re-centring (push at the upper boundary, put at the lower one) keeps content and
    order; the overflow abort happens only when all [qsize] slots are live *)
Theorem C02_recentre : forall s s',
  reachable init step s -> recentring (own s) = true -> step s (O, Tick) = Some s' ->
  (aborted s' = true ->
     base (mm s) = 0 /\ top (mm s) = qsize s /\
     Z.of_nat (length (live s)) = qsize s /\ mm s' = mm s) /\
  (aborted s' = false ->
     zseg (ptr (mm s')) (base (mm s')) (top (mm s')) = zseg (ptr (mm s)) (base (mm s)) (top (mm s)) /\
     top (mm s') - base (mm s') = top (mm s) - base (mm s) /\
     0 <= base (mm s') /\ top (mm s') <= qsize s /\
     length (ptr (mm s')) = length (ptr (mm s)) /\
     pushed s' = pushed s /\ returned s' = returned s /\
     match own s with
     | OPushRecentre _ => top (mm s') < qsize s
     | _ => 0 < base (mm s')
     end).
Proof. exact recentre. Qed.
Print Assumptions C02_recentre.

Example C02_recentre_example :
  let s := run step (do_push 1 ++ do_push 2 ++ [(O, CallO (Push 3)); (O, Tick); (O, Tick)]) (init_state 4 1) in
  recentring (own s) = true /\ top (mm s) = 4 /\
  match step s (O, Tick) with
  | Some s' => aborted s' = false /\ base (mm s') = 1 /\ top (mm s') = 3 /\ ptr (mm s') = [0; 1; 2; 2]
  | None => False
  end.
Proof. vm_compute. repeat split; reflexivity. Qed.

(** ** A thief alone at a non-empty quiescent queue obtains the oldest item: a runnable
    thread cannot be stranded while a worker looks for work *)
Theorem C02_solo_take : forall s i,
  reachable init step s -> quiescent s -> aborted s = false ->
  nth_error (thv s) i = Some TIdle -> base (mm s) < top (mm s) ->
  let x := znth (ptr (mm s)) (base (mm s)) in
  let s' := run step (solo i Take 7) s in
  nth_error (thv s') i = Some (TDone x) /\
  returned s' = returned s ++ [x] /\ pushed s' = pushed s /\ In x (pushed s) /\
  top (mm s') = top (mm s) /\ base (mm s') = base (mm s) + 1 /\
  ptr (mm s') = ptr (mm s) /\ lck (mm s') = 0 /\
  live s' = zseg (ptr (mm s)) (base (mm s) + 1) (top (mm s)).
Proof. exact solo_take. Qed.
Print Assumptions C02_solo_take.

Example C02_solo_take_example :
  let s := run step (do_push 1 ++ do_push 2) (init_state 4 2) in
  base (mm s) < top (mm s) /\ nth_error (thv s) 1 = Some TIdle /\
  nth_error (thv (run step (solo 1 Take 7) s)) 1 = Some (TDone 1).
Proof. vm_compute. repeat split; reflexivity. Qed.

(** ** x86-TSO *)

(** with pop's rwbarrier only a compiler barrier the model exhibits the failure: owner and
    thief both hand out item 3 (explicit schedule, capacity 8, one thief) *)
Theorem C02_tso_fence_needed :
  fence_table_ok weak_table = false /\
  let s := fst (tso_run weak_table wit_sched (tso_init 8 1) wit_prog) in
  pushed (sc s) = [1; 2; 3] /\ returned (sc s) = [3; 1; 2; 3] /\
  has_dup (returned (sc s)) = true /\
  own (sc s) = ODone 3 /\ nth_error (thv (sc s)) 0 = Some (TUnlock 3).
Proof. exact tso_fence_needed. Qed.
Print Assumptions C02_tso_fence_needed.

(** the same schedule under the pinned placement: the owner is held at its base read *)
Theorem C02_tso_fence_blocks_witness :
  fence_table_ok pinned_table = true /\
  let s := fst (tso_run pinned_table wit_sched (tso_init 8 1) wit_prog) in
  returned (sc s) = [1; 2; 3] /\ own (sc s) = OPopReadBase 6 /\ obuf s = [WTop 6].
Proof. exact tso_fence_blocks_witness. Qed.
Print Assumptions C02_tso_fence_blocks_witness.

(** litmus: store -> full fence -> load on two words: never both loads stale (all executions) *)
Theorem C02_tso_sb_fenced : forall s, lreach (linit (sb_prog Full)) s -> lfinal s = true ->
  ~ (reg s 0 0 = 0 /\ reg s 1 0 = 0).
Proof. exact tso_sb_fenced. Qed.
Print Assumptions C02_tso_sb_fenced.

(** ... and with a compiler-only barrier both can be stale *)
Theorem C02_tso_sb_unfenced_witness : exists s, lreach (linit (sb_prog CompilerOnly)) s /\
  lfinal s = true /\ reg s 0 0 = 0 /\ reg s 1 0 = 0.
Proof. exact tso_sb_unfenced_witness. Qed.
Print Assumptions C02_tso_sb_unfenced_witness.

(** litmus: message passing needs no fence (FIFO buffers): push's slot-then-top order *)
Theorem C02_tso_mp : forall s, lreach (linit mp_prog) s -> lfinal s = true ->
  reg s 1 0 = 1 -> reg s 1 1 = 1.
Proof. exact tso_mp. Qed.
Print Assumptions C02_tso_mp.
