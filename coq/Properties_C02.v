(** C02 - runnable threads are never lost or duplicated by the work-stealing queues.
    Statements only; every proof is [exact] of a lemma of Wsq/WsqProofs.v or Wsq/TsoProofs.v.

    Model: Wsq/WsqModel.v (one step per MYTH_VERIF_POINT of src/myth_wsqueue_func.h; one
    owner, any number of thieves, any capacity >= 2); the same program under store buffers:
    Wsq/TsoModel.v.  [pushed] / [returned] are ghost lists: items whose insertion has been
    published (push's store to top, put's / trypass's store to base), items handed to a
    caller by pop / take.

      Teff s = top  + [owner has stored the decremented top in pop, decision pending]
      Beff s = base - [the lock-holding thief has stored base+1, decision pending]
      live s = slots [Beff, Teff)       inflight s = slots already claimed, not yet read *)
From Coq Require Import ZArith List Permutation.
From MT Require Import Lib.Interleave Wsq.WsqModel Wsq.WsqLists Wsq.WsqInv Wsq.WsqProofs
                       Wsq.WsqRefine Wsq.TsoModel Wsq.TsoProofs Wsq.TsoLock Wsq.TsoInv Wsq.TsoSound.
Import ListNotations.
Local Open Scope Z_scope.

(** ** The invariant (sequential consistency): every reachable state, i.e. every capacity,
    every number of thieves, every interleaving, every sequence of operations *)
Theorem C02_inv_reachable : forall s, reachable init step s ->
  qsize s = Z.of_nat (length (ptr (mm s))) /\
  0 <= Beff s /\ Beff s <= Teff s /\ Teff s <= qsize s /\
  Permutation (pushed s) (returned s ++ live s ++ inflight s) /\
  (NoDup (pushed s) -> NoDup (returned s ++ live s ++ inflight s)) /\
  lck (mm s) = holders s /\ 0 <= holders s <= 1 /\
  (forall t i m b, own s = OPopFast t -> nth_error (thv s) i = Some (TSlot m b) -> 0 <= b < t).
Proof. exact inv_reachable_expanded. Qed.
Print Assumptions C02_inv_reachable.

(** the same, spelled out over schedules *)
Theorem C02_inv_every_schedule : forall sz n (sched : list actor),
  2 <= sz -> StateInv (run step sched (init_state sz n)).
Proof. exact inv_every_schedule. Qed.
Print Assumptions C02_inv_every_schedule.

(** a non-trivial reachable state: capacity 4, two thieves; two pushes, then a pop and a take
    race for the items while the second thief passes an item in *)
Example C02_inv_example :
  let s := run step ex_sched (init_state 4 2) in
  own s = OPopLock 3 /\ nth_error (thv s) 0 = Some (TSlot MTake 2) /\
  Teff s = 4 /\ Beff s = 3 /\ live s = [2] /\ inflight s = [1] /\ holders s = 1.
Proof. vm_compute. repeat split; reflexivity. Qed.

(** ** No loss, no duplication: when no operation is in flight, what was inserted is exactly
    what was handed out plus what the queue holds, each item once *)
Theorem C02_no_loss_no_dup : forall s, reachable init step s -> quiescent s ->
  0 <= base (mm s) /\ base (mm s) <= top (mm s) /\ top (mm s) <= qsize s /\
  lck (mm s) = 0 /\
  Permutation (pushed s) (returned s ++ zseg (ptr (mm s)) (base (mm s)) (top (mm s))) /\
  (NoDup (pushed s) -> NoDup (returned s ++ zseg (ptr (mm s)) (base (mm s)) (top (mm s)))).
Proof. exact no_loss_no_dup. Qed.
Print Assumptions C02_no_loss_no_dup.

Example C02_no_loss_example :
  let s := run step (do_push 1 ++ do_push 2) (init_state 4 2) in
  oquiet (own s) = true /\ forallb tquiet (thv s) = true /\ pushed s = [1; 2] /\
  zseg (ptr (mm s)) (base (mm s)) (top (mm s)) = [1; 2].
Proof. vm_compute. repeat split; reflexivity. Qed.

(** ** A steal whose decision callback declines leaves everything as it was: memory
    (top, base, all slots, lock, hint cache), ghosts and the other participants *)
Theorem C02_declined_steal : forall s i k r,
  aborted s = false -> nth_error (thv s) i = Some TIdle ->
  let s' := run step (solo i (WTake false) k) s in
  nth_error (thv s') i = Some (TDone r) ->
  r = 0 /\ mm s' = mm s /\ pushed s' = pushed s /\ returned s' = returned s /\
  own s' = own s /\ (forall j, j <> i -> nth_error (thv s') j = nth_error (thv s) j).
Proof. exact declined_steal. Qed.
Print Assumptions C02_declined_steal.

Example C02_declined_example :
  let s := run step (do_push 1 ++ do_push 2) (init_state 4 2) in
  let s' := run step (solo 0 (WTake false) 8) s in
  nth_error (thv s') 0 = Some (TDone 0) /\ mm s' = mm s /\
  (* ... and the same candidate is handed out when the callback accepts *)
  nth_error (thv (run step (solo 0 (WTake true) 8) s)) 0 = Some (TDone 1).
Proof. vm_compute. repeat split; reflexivity. Qed.

(** ** The wsapi peek (refill of the steal-hint cache with the take-and-roll-back idiom, then the
    seqlock read) leaves top, base, every slot and the lock as they were *)
Theorem C02_peek_harmless : forall s i k r,
  aborted s = false -> nth_error (thv s) i = Some TIdle ->
  let s' := run step (solo i WPeek k) s in
  nth_error (thv s') i = Some (TDone r) ->
  top (mm s') = top (mm s) /\ base (mm s') = base (mm s) /\ ptr (mm s') = ptr (mm s) /\
  lck (mm s') = lck (mm s) /\ pushed s' = pushed s /\ returned s' = returned s /\
  own s' = own s /\ (forall j, j <> i -> nth_error (thv s') j = nth_error (thv s) j).
Proof. exact peek_harmless. Qed.
Print Assumptions C02_peek_harmless.

Example C02_peek_example :
  let s := run step (do_push 1 ++ do_push 2) (init_state 4 2) in
  let s' := run step (solo 0 WPeek 9) s in
  nth_error (thv s') 0 = Some (TDone 1) /\ wptr (mm s') = 1 /\ wseq (mm s') = 2 /\
  base (mm s') = base (mm s).
Proof. vm_compute. repeat split; reflexivity. Qed.

(** ** Re-centring (push at the upper boundary, put at the lower one) keeps content and
    order; the overflow abort happens only when all [qsize] slots are live *)
Theorem C02_recentre : forall s s',
  reachable init step s -> recentring (own s) = true -> step s (O, Tick) = Some s' ->
  (aborted s' = true ->
     base (mm s) = 0 /\ top (mm s) = qsize s /\
     Z.of_nat (length (live s)) = qsize s /\ mm s' = mm s) /\
  (aborted s' = false ->
     zseg (ptr (mm s')) (base (mm s')) (top (mm s')) = zseg (ptr (mm s)) (base (mm s)) (top (mm s)) /\
     top (mm s') - base (mm s') = top (mm s) - base (mm s) /\
     0 <= base (mm s') /\ top (mm s') <= qsize s /\
     length (ptr (mm s')) = length (ptr (mm s)) /\
     pushed s' = pushed s /\ returned s' = returned s /\
     match own s with
     | OPushRecentre _ => top (mm s') < qsize s
     | _ => 0 < base (mm s')
     end).
Proof. exact recentre. Qed.
Print Assumptions C02_recentre.

Example C02_recentre_example :
  let s := run step (do_push 1 ++ do_push 2 ++ [(O, CallO (Push 3)); (O, Tick); (O, Tick)]) (init_state 4 1) in
  recentring (own s) = true /\ top (mm s) = 4 /\
  match step s (O, Tick) with
  | Some s' => aborted s' = false /\ base (mm s') = 1 /\ top (mm s') = 3 /\ ptr (mm s') = [0; 1; 2; 2]
  | None => False
  end.
Proof. vm_compute. repeat split; reflexivity. Qed.

(** ** A thief alone at a non-empty quiescent queue obtains the oldest item: a runnable
    thread cannot be stranded while a worker looks for work *)
Theorem C02_solo_take : forall s i,
  reachable init step s -> quiescent s -> aborted s = false ->
  nth_error (thv s) i = Some TIdle -> base (mm s) < top (mm s) ->
  let x := znth (ptr (mm s)) (base (mm s)) in
  let s' := run step (solo i Take 7) s in
  nth_error (thv s') i = Some (TDone x) /\
  returned s' = returned s ++ [x] /\ pushed s' = pushed s /\ In x (pushed s) /\
  top (mm s') = top (mm s) /\ base (mm s') = base (mm s) + 1 /\
  ptr (mm s') = ptr (mm s) /\ lck (mm s') = 0 /\
  live s' = zseg (ptr (mm s)) (base (mm s) + 1) (top (mm s)).
Proof. exact solo_take. Qed.
Print Assumptions C02_solo_take.

Example C02_solo_take_example :
  let s := run step (do_push 1 ++ do_push 2) (init_state 4 2) in
  base (mm s) < top (mm s) /\ nth_error (thv s) 1 = Some TIdle /\
  nth_error (thv (run step (solo 1 Take 7) s)) 1 = Some (TDone 1).
Proof. vm_compute. repeat split; reflexivity. Qed.

(** ** Refinement: every step of the fine-grained deque is a stutter or exactly one operation
    of an atomic deque ([live s], base end first): push / put / trypass commit at their store to
    top / base, pop at the decision after reading base (lock-free) or inside the locked region,
    take when it reads top; a declined wsapi take puts its candidate back at the base end.
    This licenses treating one deque operation as one step in the scheduler-level machine. *)
Theorem C02_refines_deque : forall s a s',
  reachable init step s -> step s a = Some s' ->
  dq_step (live s) (step_event s a) (live s').
Proof. exact refines_deque. Qed.
Print Assumptions C02_refines_deque.

(** ... and the slot an operation has claimed is not overwritten before the operation reads it:
    the value handed to the caller is the one removed from [live] at the commit point *)
Theorem C02_claim_stable : forall s a s',
  reachable init step s -> step s a = Some s' ->
  (forall t, own s = OPopFast t -> own s' = OPopFast t ->
             znth (ptr (mm s')) t = znth (ptr (mm s)) t) /\
  (forall i m b, nth_error (thv s) i = Some (TSlot m b) -> nth_error (thv s') i = Some (TSlot m b) ->
             znth (ptr (mm s')) b = znth (ptr (mm s)) b).
Proof. exact claim_stable. Qed.
Print Assumptions C02_claim_stable.

(** in the example state the owner is about to enter its locked region with [live = [2]]:
    the next two owner steps are a stutter (lock held by the thief: disabled) ... *)
Example C02_refines_example :
  let s := run step (do_push 1 ++ do_push 2 ++ do_push 3 ++
                     [(O, CallO Pop); (O, Tick); (O, Tick); (O, Tick)]) (init_state 8 1) in
  own s = OPopReadBase 6 /\ live s = [1; 2; 3] /\ step_event s (O, Tick) = DPopTop 3 /\
  match step s (O, Tick) with Some s' => live s' = [1; 2] /\ inflight s' = [3] | None => False end.
Proof. vm_compute. repeat split; reflexivity. Qed.

(** ** x86-TSO *)

(** with pop's rwbarrier only a compiler barrier the model exhibits the failure: owner and
    thief both hand out item 3 (explicit schedule, capacity 8, one thief) *)
Theorem C02_tso_fence_needed :
  fence_table_ok weak_table = false /\
  let s := fst (tso_run weak_table wit_sched (tso_init 8 1) wit_prog) in
  pushed (sc s) = [1; 2; 3] /\ returned (sc s) = [3; 1; 2; 3] /\
  has_dup (returned (sc s)) = true /\
  own (sc s) = ODone 3 /\ nth_error (thv (sc s)) 0 = Some (TUnlock 3).
Proof. exact tso_fence_needed. Qed.
Print Assumptions C02_tso_fence_needed.

(** the same schedule under the pinned placement: the owner is held at its base read *)
Theorem C02_tso_fence_blocks_witness :
  fence_table_ok pinned_table = true /\
  let s := fst (tso_run pinned_table wit_sched (tso_init 8 1) wit_prog) in
  returned (sc s) = [1; 2; 3] /\ own (sc s) = OPopReadBase 6 /\ obuf s = [WTop 6].
Proof. exact tso_fence_blocks_witness. Qed.
Print Assumptions C02_tso_fence_blocks_witness.

(** the two memory models run the same program: from drained buffers, a TSO program step followed
    by draining the stepper's buffer is the SC step (so every SC behaviour is a TSO behaviour) *)
Theorem C02_tso_contains_sc_owner : forall t s s1 e,
  drained s -> tso_step t s (O, Do e) = Some s1 ->
  step (sc s) (O, e) = Some (with_mem (sc s1) (apply_wrs (mm (sc s1)) (obuf s1))) /\ tbufs s1 = tbufs s.
Proof. exact tso_owner_step_sc. Qed.
Print Assumptions C02_tso_contains_sc_owner.

Theorem C02_tso_contains_sc_thief : forall t s s1 i,
  drained s -> tso_step t s (S i, Do Tick) = Some s1 ->
  exists buf1, nth_error (tbufs s1) i = Some buf1 /\
  step (sc s) (S i, Tick) = Some (with_mem (sc s1) (apply_wrs (mm (sc s1)) buf1)) /\ obuf s1 = obuf s.
Proof. exact tso_thief_tick_sc. Qed.
Print Assumptions C02_tso_contains_sc_thief.

(** ** Soundness of the accepted fence placements under x86-TSO.

    [fence_table_ok tbl]: a Full fence between pop's store to top and its load of base, between
    take's store to base and its load of top, and before the unlocking store (the other positions
    are arbitrary).  Then EVERY state reachable by the store-buffer machine - any capacity, any
    number of thieves, any schedule of program steps and flushes - satisfies the deque invariant
    on its logical memory [lmem] (memory overridden by the buffered stores): conservation
    [pushed = returned + live + in flight], no duplicates, bounds, single lock holder.
    The check evaluates [fence_table_ok] on the table regenerated from the current tree
    (build/C02/gen/Fences.v: C02_tso_current, C02_tso_sound_current). *)
Theorem C02_tso_sound : forall t s, fence_table_ok t = true ->
  reachable tso_initial (tso_step t) s ->
  let l := logical s in
  qsize l = Z.of_nat (length (ptr (mm l))) /\
  0 <= Beff l /\ Beff l <= Teff l /\ Teff l <= qsize l /\
  Permutation (pushed l) (returned l ++ live l ++ inflight l) /\
  (NoDup (pushed l) -> NoDup (returned l ++ live l ++ inflight l)) /\
  lck (mm l) = holders l /\ 0 <= holders l <= 1 /\
  (forall x i m b, own l = OPopFast x -> nth_error (thv l) i = Some (TSlot m b) -> 0 <= b < x).
Proof. exact tso_sound_expanded. Qed.
Print Assumptions C02_tso_sound.

(** with no operation in flight and all store buffers drained: nothing lost, nothing duplicated,
    on the real memory *)
Theorem C02_tso_no_loss_no_dup : forall t s, fence_table_ok t = true ->
  reachable tso_initial (tso_step t) s -> all_drained s -> quiescent (sc s) ->
  let c := sc s in
  0 <= base (mm c) /\ base (mm c) <= top (mm c) /\ top (mm c) <= qsize c /\ lck (mm c) = 0 /\
  Permutation (pushed c) (returned c ++ zseg (ptr (mm c)) (base (mm c)) (top (mm c))) /\
  (NoDup (pushed c) -> NoDup (returned c ++ zseg (ptr (mm c)) (base (mm c)) (top (mm c)))).
Proof. exact tso_no_loss_no_dup. Qed.
Print Assumptions C02_tso_no_loss_no_dup.

(** the pinned placement is accepted; the witness of [C02_tso_fence_needed] is a reachable TSO
    state (so the hypothesis of [C02_tso_sound] cannot be dropped) *)
Example C02_tso_sound_example :
  fence_table_ok pinned_table = true /\
  fence_table_ok (mkFT CompilerOnly CompilerOnly Full Full CompilerOnly CompilerOnly Full) = true /\
  fence_table_ok weak_table = false.
Proof. vm_compute. repeat split; reflexivity. Qed.

(** mutual exclusion of the regions under q->lock holds for EVERY fence table (also those not
    accepted by [fence_table_ok]) *)
Theorem C02_tso_lock_any_table : forall t s, reachable tso_initial (tso_step t) s ->
  0 <= holders (sc s) <= 1 /\
  (lck (mm (sc s)) = 0 \/ lck (mm (sc s)) = 1) /\
  (holders (sc s) = 1 -> lck (mm (sc s)) = 1) /\
  (forall i j pi pj, nth_error (thv (sc s)) i = Some pi -> nth_error (thv (sc s)) j = Some pj ->
     holds_t pi = true -> holds_t pj = true -> i = j) /\
  (forall i pi, holds_o (own (sc s)) = true -> nth_error (thv (sc s)) i = Some pi -> holds_t pi = false).
Proof. exact tso_lock_excl. Qed.
Print Assumptions C02_tso_lock_any_table.

(** litmus: store -> full fence -> load on two words: never both loads stale (all executions) *)
Theorem C02_tso_sb_fenced : forall s, lreach (linit (sb_prog Full)) s -> lfinal s = true ->
  ~ (reg s 0 0 = 0 /\ reg s 1 0 = 0).
Proof. exact tso_sb_fenced. Qed.
Print Assumptions C02_tso_sb_fenced.

(** ... and with a compiler-only barrier both can be stale *)
Theorem C02_tso_sb_unfenced_witness : exists s, lreach (linit (sb_prog CompilerOnly)) s /\
  lfinal s = true /\ reg s 0 0 = 0 /\ reg s 1 0 = 0.
Proof. exact tso_sb_unfenced_witness. Qed.
Print Assumptions C02_tso_sb_unfenced_witness.

(** litmus: message passing needs no fence (FIFO buffers): push's slot-then-top order *)
Theorem C02_tso_mp : forall s, lreach (linit mp_prog) s -> lfinal s = true ->
  reg s 1 0 = 1 -> reg s 1 1 = 1.
Proof. exact tso_mp. Qed.
Print Assumptions C02_tso_mp.
