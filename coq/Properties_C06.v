(** C06 - barrier: nobody passes round k before all N arrived; exactly one serial thread per round;
    immediately reusable.

    Model: Barrier/BarrierModel.v (extracted; every trace of the real library is replayed through
    its [step]).  Program class: N >= 1 participants, thread numbers 0..N-1, a barrier initialised for
    N; each participant calls wait whenever it is idle, any number of times ([ECall] is enabled iff the
    thread exists and is idle); any interleaving of main and callback steps.

    [mreach N s]: s is reachable in the extracted model from [init_state N N].
    [greach N g]: the same system with ghost state next to it (Barrier/BarrierGhost.v: [gstep] runs
    [step] on the model component, never blocks, never changes it - C06_ghost_erasure).  Ghost used in
    the statements: [clv h t] = calls of wait by t so far, [arv h t] = successful arrival CASes of t so
    far, [gR h] = resets so far, [ldr h] = the thread that did the latest reset, [rets h] = log of
    (thread, its call number, returned value), [stk h] = the list the links represent, [snap h] = that
    list at the popper's latest read of top. *)
From Coq Require Import ZArith List Bool Lia Arith.
From MT Require Import Lib.Interleave Barrier.BarrierModel Barrier.BarrierLib Barrier.BarrierGhost
  Barrier.BarrierProofs Barrier.BarrierLive.
Import ListNotations.

(** the ghost is only an observer *)
Theorem C06_ghost_erasure :
  (forall g a g', gstep g a = Some g' -> step (st g) a = Some (st g')) /\
  (forall g a s', step (st g) a = Some s' -> exists g', gstep g a = Some g' /\ st g' = s') /\
  (forall N s, mreach N s -> exists g, greach N g /\ st g = s).
Proof. exact (conj gstep_erasure (conj gstep_total reachable_lift)). Qed.
Print Assumptions C06_ghost_erasure.

(** nobody passes round k before all N arrived: if thread t's k-th wait has produced its return value
    (pc [Done r]) or returned, every one of the N participants has performed its k-th successful
    arrival CAS.  Second form: whenever a return event is enabled, all have arrived in that round. *)
Theorem C06_no_early_pass :
  forall N g t k, greach N g -> t < N -> 1 <= k -> passed g t k -> forall u, u < N -> k <= arv (gh g) u.
Proof. exact no_early_pass. Qed.
Print Assumptions C06_no_early_pass.

Theorem C06_no_early_pass_ret :
  forall N g t v, greach N g -> t < N -> ret_ok (st g) t v = true ->
  1 <= clv (gh g) t /\ forall u, u < N -> clv (gh g) t <= arv (gh g) u.
Proof. exact ret_needs_all. Qed.
Print Assumptions C06_no_early_pass_ret.

(** exactly one serial thread per round: every returned value is 0 or 1; no round ever has two 1s;
    once all N participants have returned from their k-th wait the log holds exactly one 1 and N-1
    zeros for round k *)
Theorem C06_one_serial :
  forall N g, greach N g ->
  (forall u k v, In (u, k, v) (rets (gh g)) -> (v = 0 \/ v = 1)%Z) /\
  (forall k, cnt k 1 (rets (gh g)) <= 1) /\
  (forall k, 1 <= k -> (forall u, u < N -> returned g u k) ->
             cnt k 1 (rets (gh g)) = 1 /\ cnt k 0 (rets (gh g)) = N - 1).
Proof. exact one_serial. Qed.
Print Assumptions C06_one_serial.

(** everybody is released: when the last arriver of round gR has left its pop / wake loops, no
    participant of that round is suspended any more (a suspended thread then waits in round gR+1);
    log form: once round k's serial 1 has been returned, every suspended thread waits in a later round *)
Theorem C06_all_released :
  forall N g, greach N g -> 1 <= gR (gh g) -> releasing (mn (st g) (ldr (gh g))) = false ->
  forall u, u < N -> mn (st g) u = Susp -> arv (gh g) u = S (gR (gh g)).
Proof. exact all_released. Qed.
Print Assumptions C06_all_released.

Theorem C06_all_released_log :
  forall N g w k, greach N g -> In (w, k, 1%Z) (rets (gh g)) ->
  forall u, u < N -> mn (st g) u = Susp -> k < arv (gh g) u.
Proof. exact all_released_log. Qed.
Print Assumptions C06_all_released_log.

(** reusable: (a) one popper / waker at a time: two threads in the release phase are the same thread
    (a [Done 0] is a woken sleeper's pending return); (b) while the popper runs nobody has arrived in
    the next round, the count is 0, and the stack holds only sleepers of the popper's own round;
    (c) while it wakes them, a participant may already have re-arrived (Example below) and the stack
    holds only next-round sleepers; (d) the popper's CAS is ABA-free: since its read of top the stack
    only grew at the front, and if top still equals the value read the stack is exactly the list read,
    so the CAS installs that list's second element *)
Theorem C06_reusable :
  forall N g t, greach N g -> t < N ->
  (forall u, u < N -> in_release (mn (st g) t) = true -> releasing (mn (st g) u) = true ->
             (exists r, mn (st g) t = Done r /\ r <> 1%Z) \/ t = u) /\
  (popping (mn (st g) t) = true ->
   t = ldr (gh g) /\ arrs (gh g) = [] /\ bstate (st g) = 0%Z /\
   forall x, In x (stk (gh g)) -> arv (gh g) x = gR (gh g) /\ In x (slp (gh g))) /\
  (forall n i cur, mn (st g) t = WPush n i cur -> forall x, In x (stk (gh g)) -> arv (gh g) x = S (gR (gh g))) /\
  (forall n i hd tl x, mn (st g) t = PopCas n i hd tl x ->
   (exists pre, stk (gh g) = pre ++ snap (gh g)) /\ hd_error (snap (gh g)) = Some x /\
   (top (st g) = Some x ->
    stk (gh g) = snap (gh g) /\ exists rest, stk (gh g) = x :: rest /\ chain (nxt (st g)) (nx (st g) x) rest)).
Proof. exact reusable. Qed.
Print Assumptions C06_reusable.

(** the exit(1) branch ("excess threads") and the assert in the wake loop are never reached *)
Theorem C06_excess_unreachable :
  forall N s t, mreach N s -> mn s t <> Excess /\ mn s t <> AssertFail.
Proof. exact excess_unreachable. Qed.
Print Assumptions C06_excess_unreachable.

(** the top / next links always represent an acyclic, duplicate-free list of participants that are
    suspended with their callback finished; the executable walk used by the trace validator yields
    exactly this list *)
Theorem C06_stack_repr :
  forall N s, mreach N s ->
  exists l, chain (nxt s) (top s) l /\ NoDup l /\
            (forall x, In x l -> x < N /\ mn s x = Susp /\ cbk s x = CbNone) /\
            stack_list s = (l, true).
Proof. exact stack_repr. Qed.
Print Assumptions C06_stack_repr.

(** "when they are released every participant returns", possibility form.  [nocall]: the schedule contains
    no new calls of wait; [returned g u k]: u has returned from its k-th wait.
    (a) the only thread without an enabled step is a sleeper waiting for its wake-up (suspended, callback
    finished); (b) the popper's CAS fails only because a push succeeded since its read of top;
    (c) from EVERY reachable state some schedule without calls, at most 27 N + 3 steps long, leads to a state
    in which every thread is idle or asleep; (d) if all N participants have entered their k-th wait, that
    schedule ends with all N returned from it, and if nobody has entered wait k+1 yet the barrier is back in its
    initial state (everybody idle, count 0, empty stack, k resets) *)
Theorem C06_enabled :
  forall N g t, greach N g -> t < N ->
  (mn (st g) t = Susp /\ cbk (st g) t = CbNone) \/ exists e s', step (st g) (t, e) = Some s'.
Proof. exact enabled_or_asleep. Qed.
Print Assumptions C06_enabled.

Theorem C06_pop_cas_fails_only_after_push :
  forall N g t n i hd tl x, greach N g -> t < N -> mn (st g) t = PopCas n i hd tl x -> top (st g) <> Some x ->
  exists p pre, stk (gh g) = (p :: pre) ++ snap (gh g) /\ top (st g) = Some p.
Proof. exact pop_cas_fails_only_after_push. Qed.
Print Assumptions C06_pop_cas_fails_only_after_push.

Theorem C06_settles :
  forall N g, greach N g ->
  exists sched g', length sched <= 27 * N + 3 /\ nocall sched /\ grun sched g = Some g' /\ settled N (st g').
Proof. exact settle. Qed.
Print Assumptions C06_settles.

Theorem C06_round_completes :
  forall N g k, greach N g -> (forall u, u < N -> k <= clv (gh g) u) ->
  exists sched g',
    length sched <= 27 * N + 3 /\ nocall sched /\ grun sched g = Some g' /\
    (forall u, u < N -> returned g' u k) /\
    ((forall u, u < N -> clv (gh g) u = k) ->
     (forall u, u < N -> mn (st g') u = Idle) /\ bstate (st g') = 0%Z /\ top (st g') = None /\ gR (gh g') = k).
Proof. exact round_completes. Qed.
Print Assumptions C06_round_completes.

(** object lifecycle: once the last arriver of round gR has left its loops and nobody has called wait again, the
    round's participants never touch the barrier's words again - every thread is idle or only has its already fixed
    return value to deliver, no callback pending, no POINT ahead - and the words are what myth_barrier_init writes.
    A participant whose own wait has returned may therefore destroy and re-initialise the object (any count): the
    participants that are released but not yet resumed cannot observe it.  (Each incarnation is then one instance
    of this model; the trace tie replays it per incarnation and compares the returned values.) *)
Theorem C06_destroy_after_release_unobservable :
  forall N g, greach N g -> 1 <= gR (gh g) -> (forall u, u < N -> clv (gh g) u = gR (gh g)) ->
  releasing (mn (st g) (ldr (gh g))) = false ->
  bstate (st g) = 0%Z /\ top (st g) = None /\
  forall t, t < N ->
    cbk (st g) t = CbNone /\ (mn (st g) t = Idle \/ exists r, mn (st g) t = Done r) /\
    label (st g) t false = String.EmptyString /\ label (st g) t true = String.EmptyString.
Proof. exact quiescent_after_release. Qed.
Print Assumptions C06_destroy_after_release_unobservable.

(** the inductive invariant itself (DESIGN.md Appendix B.4) *)
Theorem C06_invariant : forall N g, greach N g -> Inv N (st g) (gh g).
Proof. exact BarrierPres.inv_reachable. Qed.
Print Assumptions C06_invariant.

(** ---- non-vacuity: N = 3, two rounds, a racer ---- *)

(** after [ex_sched_racer]: thread 0 has returned from round 1, called again and done its round-2
    arrival CAS (count 1, suspended, push pending) while thread 1 of round 1 is still on thread 2's
    private list, not yet woken *)
Example C06_ex_racer :
  exists g, grun ex_sched_racer (ginit_state 3) = Some g /\ greach 3 g /\
            mn (st g) 2 = WPush 2 1 (Some 1) /\ acc (gh g) = [1] /\ mn (st g) 1 = Susp /\ arv (gh g) 1 = 1 /\
            arrs (gh g) = [0] /\ arv (gh g) 0 = 2 /\ mn (st g) 0 = Susp /\ bstate (st g) = 1%Z /\
            passed g 0 1.
Proof.
  destruct (grun ex_sched_racer (ginit_state 3)) as [g|] eqn:E; [|vm_compute in E; discriminate].
  exists g. split; [reflexivity|]. split.
  - eapply grun_reach; [apply ginit_reach; lia|exact E].
  - vm_compute in E. inversion E; subst g. vm_compute. repeat split; auto.
Qed.

(** the complete run: two rounds, everybody idle again, six returns: per round one 1 and two 0s *)
Example C06_ex_two_rounds :
  exists g, grun (ex_sched_racer ++ ex_sched_rest) (ginit_state 3) = Some g /\ greach 3 g /\
            map main (thr (st g)) = [Idle; Idle; Idle] /\ gR (gh g) = 2 /\ length (rets (gh g)) = 6 /\
            cnt 1 1 (rets (gh g)) = 1 /\ cnt 1 0 (rets (gh g)) = 2 /\
            cnt 2 1 (rets (gh g)) = 1 /\ cnt 2 0 (rets (gh g)) = 2 /\
            (forall u, u < 3 -> returned g u 2) /\ bstate (st g) = 0%Z /\ top (st g) = None.
Proof.
  destruct (grun (ex_sched_racer ++ ex_sched_rest) (ginit_state 3)) as [g|] eqn:E; [|vm_compute in E; discriminate].
  exists g. split; [reflexivity|]. split.
  - eapply grun_reach; [apply ginit_reach; lia|exact E].
  - vm_compute in E. inversion E; subst g. repeat split; try reflexivity.
    intros u Hu. right. destruct u as [|[|[|u]]]; try lia; vm_compute; auto.
Qed.

(** the ABA clause is not vacuous: a state where the popper is between its read and its CAS and a
    push has happened in between (stack [1;0], list read [0]): top <> value read, the CAS will fail *)
Example C06_ex_push_between_read_and_cas :
  exists g, grun ex_sched_popfail (ginit_state 3) = Some g /\ greach 3 g /\
            mn (st g) 2 = PopCas 2 0 None None 0 /\ stk (gh g) = [1; 0] /\ snap (gh g) = [0] /\
            top (st g) = Some 1 /\ stack_list (st g) = ([1; 0], true).
Proof.
  destruct (grun ex_sched_popfail (ginit_state 3)) as [g|] eqn:E; [|vm_compute in E; discriminate].
  exists g. split; [reflexivity|]. split.
  - eapply grun_reach; [apply ginit_reach; lia|exact E].
  - vm_compute in E. inversion E; subst g. vm_compute. repeat split; reflexivity.
Qed.

(** the Excess outcome is live in the model: with one participant too many it is reached *)
Example C06_ex_excess_with_extra_thread :
  option_map (fun s => map main (thr s)) (mrun ex_sched_excess (init_state 3 2)) =
  Some [Susp; BReset 1; Excess].
Proof. vm_compute. reflexivity. Qed.

(** hypotheses of C06_round_completes are satisfiable in non-trivial states: after [ex_sched_racer] all three
    have entered their first wait (one is already in its second); after [ex_sched_popfail] all three are in
    their first wait, nobody has returned, the popper is in the middle of a failed CAS *)
Example C06_ex_round_completes_hyp :
  (exists g, grun ex_sched_racer (ginit_state 3) = Some g /\ (forall u, u < 3 -> 1 <= clv (gh g) u) /\
             ~ settled 3 (st g)) /\
  (exists g, grun ex_sched_popfail (ginit_state 3) = Some g /\ (forall u, u < 3 -> clv (gh g) u = 1) /\
             ~ (forall u, u < 3 -> returned g u 1)).
Proof.
  split.
  - destruct (grun ex_sched_racer (ginit_state 3)) as [g|] eqn:E; [|vm_compute in E; discriminate].
    exists g. split; [reflexivity|]. vm_compute in E. inversion E; subst g. split.
    + intros u Hu. destruct u as [|[|[|u]]]; try lia; vm_compute; lia.
    + intros H. destruct (H 2 ltac:(lia)) as [H2|[H2 _]]; vm_compute in H2; discriminate.
  - destruct (grun ex_sched_popfail (ginit_state 3)) as [g|] eqn:E; [|vm_compute in E; discriminate].
    exists g. split; [reflexivity|]. vm_compute in E. inversion E; subst g. split.
    + intros u Hu. destruct u as [|[|[|u]]]; try lia; reflexivity.
    + intros H. destruct (H 0 ltac:(lia)) as [H0|[_ H0]]; vm_compute in H0; [lia|discriminate].
Qed.
