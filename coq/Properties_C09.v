(** C09 - full/empty lock: status hand-off between producers and consumers.
    Statements only; every proof is [exact] of a lemma of Sync/Felock*.v.

    System: [SyncModel.step] restricted to the four felock operations with status values 0/1
    ([fstep]; the mutex and the two condition variables of a felock are reachable through
    myth_felock_{lock,unlock,wait_and_lock,mark_and_signal} only), from [init_state nt 2],
    for EVERY number of threads [nt], every program and every schedule ([freach]).
    Programs ([greach pl]): every thread runs a list of actions (the four operations plus the
    local put / take on a one-slot mailbox); [discs] = every FeWL is closed by a FeMS and every
    Lock by an Unlock; [mboxes] = producers FeWL 0; put v; FeMS 1, consumers FeWL 1; take;
    FeMS 0, others Lock; Unlock - any number of each, any interleaving.

    NOT claimed: liveness ("no participant sleeps forever") as an eventuality: that an enabled
    step is eventually taken needs scheduler fairness.  Its liveness-free content is proved:
    a responsible thread always exists (C09_no_lost_wakeup), and the states in which nothing is
    enabled are characterised exactly (C09_quiescent_*, C09_mailbox_quiescent_*, using the mutex
    theorem C04_quiescent_no_sleeper of Sync/MutexProofs.v). *)
From Coq Require Import ZArith List Bool Permutation.
From MT Require Import Lib.Interleave Sync.SyncModel Sync.FelockBase Sync.FelockOwn Sync.FelockInv
  Sync.FelockProofs Sync.FelockExchange Sync.FelockMailbox Sync.FelockQuiet.
Import ListNotations.
Local Open Scope Z_scope.

(** lock bit = number of owners <= 1; the owner-only program points (status test, status
    write, signal, unlock before the bit-clearing step) are reached by the owner only *)
Theorem C09_owner_unique : forall s, freach s ->
  (forall u v, holds s u = true -> holds s v = true -> u = v) /\
  (Z.odd (mword s) = true <-> exists u, holds s u = true) /\
  (forall t th, get_thread s t = Some th -> needown (main th) = true -> own th = true).
Proof. exact owner_unique. Qed.
Print Assumptions C09_owner_unique.

(** wait_and_lock(st): the status test either completes the call (status = st) or suspends
    the caller on cond[st]; when it completes, status = st and the caller holds the lock
    exclusively, and both stay so in every continuation until the caller's OWN next status
    write (mark_and_signal) or bit-clearing step (unlock) *)
Theorem C09_wait_and_lock_post : forall s t th st s',
  freach s -> get_thread s t = Some th -> main th = FeRead st -> fstep s (t, ETick) = Some s' ->
  ((festat s = st /\ exists th', get_thread s' t = Some th' /\ main th' = Done 0) \/
   (festat s <> st /\ exists th', get_thread s' t = Some th' /\ main th' = Susp (ALFe st) /\
                      In (CbEnq (QC (Z.to_nat st)) true) (cbs th'))) /\
  (festat s = st ->
   forall s2, keeps t s' s2 ->
     festat s2 = st /\ holds s2 t = true /\ forall u, holds s2 u = true -> u = t).
Proof. exact wait_and_lock_post. Qed.
Print Assumptions C09_wait_and_lock_post.

(** a FeWL st call leaves its program points (lock path with continuation "test st", the
    test itself) only through the successful test: it returns only with status = st *)
Theorem C09_wait_and_lock_returns_only_via_test : forall s t th st u e s',
  freach s -> get_thread s t = Some th -> fewl_pc st (main th) -> fstep s (u, e) = Some s' ->
  exists th', get_thread s' t = Some th' /\
    (fewl_pc st (main th') \/
     (u = t /\ e = ETick /\ main th = FeRead st /\ festat s = st /\ main th' = Done 0)).
Proof. exact fewl_path_closed_reach. Qed.
Print Assumptions C09_wait_and_lock_returns_only_via_test.

(** mark_and_signal(v), step by step: (1) the owner publishes v (nothing else changes);
    (2) it dequeues the head of cond[v] if there is one - the status is still the one it wrote -
    and touches nobody if the queue is empty; (3) it wakes exactly the dequeued thread, which
    is suspended; then the unlock micro-program runs *)
Theorem C09_mark : forall s t th, freach s -> get_thread s t = Some th ->
  (forall v, main th = FeWrite v ->
     holds s t = true /\
     fstep s (t, ETick) = Some (set_thread (set_festat s v) t (set_main th (SigDeq (Z.to_nat v) ASUnlock)))) /\
  (forall c, main th = SigDeq c ASUnlock ->
     holds s t = true /\ festat s = Z.of_nat c /\
     (getq s (QC c) = [] ->
        fstep s (t, ETick) = Some (set_thread s t (set_main th (Unl (URead 0))))) /\
     (forall x r, getq s (QC c) = x :: r ->
        fstep s (t, ETick) = Some (set_thread (setq s (QC c) r) t (set_main th (SigPush c ASUnlock x))))) /\
  (forall c x, main th = SigPush c ASUnlock x ->
     holds s t = true /\
     exists thx k, x <> t /\ get_thread s x = Some thx /\ main thx = Susp k /\
       fstep s (t, ETick) =
       Some (set_thread (set_thread s x (set_main thx (LockRead k))) t (set_main th (Unl (URead 0))))).
Proof. exact mark_and_signal_steps. Qed.
Print Assumptions C09_mark.

(** mark_and_signal / unlock never block and never reach the exit(1) path *)
Theorem C09_mark_never_stuck : forall s t th,
  freach s -> get_thread s t = Some th -> fems_pc (main th) -> exists s', fstep s (t, ETick) = Some s'.
Proof. exact mark_never_stuck_reach. Qed.
Print Assumptions C09_mark_never_stuck.

(** ... and release the lock: the step at which the owner flag drops is a bit-clearing step
    of the owner itself; afterwards the lock bit is clear and nobody holds the lock *)
Theorem C09_mark_releases : forall s u e s' t,
  freach s -> fstep s (u, e) = Some s' -> holds s t = true -> holds s' t = false ->
  u = t /\ (exists th, get_thread s t = Some th /\ at_release th e = true) /\
  Z.odd (mword s') = false /\ forall v, holds s' v = false.
Proof. exact mark_releases. Qed.
Print Assumptions C09_mark_releases.

(** the status word is changed by no other step than the status write of the owner *)
Theorem C09_status_written_by_owner_only : forall s u e s',
  freach s -> fstep s (u, e) = Some s' -> festat s' <> festat s ->
  e = ETick /\ exists thu, get_thread s u = Some thu /\ main thu = FeWrite (festat s') /\ own thu = true.
Proof. exact status_written_by_owner_reach. Qed.
Print Assumptions C09_status_written_by_owner_only.

(** no lost wake-up (safety form), disciplined programs: whenever status = st and somebody
    waits on cond[st], some thread [z] is responsible ([Resp]): it is on its way to the status
    test for st (lock path / woken / in a waker's hand / asleep on the MUTEX, not on a condition
    queue) or it is inside its full/empty section (test passed, mark_and_signal's dequeue not
    yet done) *)
Theorem C09_no_lost_wakeup : forall pl g st,
  discs pl -> greach pl g -> valid_st st = true ->
  festat (base g) = st -> getq (base g) (QC (Z.to_nat st)) <> [] ->
  exists z gt th, nth_error (gth g) z = Some gt /\ get_thread (base g) z = Some th /\
    ((onway st (main th) /\ (is_susp (main th) = true -> ~ cwaiting (base g) z th)) \/
     (pend gt = true /\ (exists s0 r, prog gt = AFeWL s0 :: r) /\ main th = Done 0) \/
     (pend gt = false /\ head_mode (prog gt) = MFe) \/
     (pend gt = true /\ (exists s0 r, prog gt = AFeMS s0 :: r) /\
      ((exists v, main th = FeWrite v) \/ (exists c, main th = SigDeq c ASUnlock)))).
Proof. exact no_lost_wakeup_explicit. Qed.
Print Assumptions C09_no_lost_wakeup.

(** quiescent states (NOTHING is enabled: no call, step, callback step, return or local action
    of any thread) of disciplined programs, using the mutex theorem C04_quiescent_no_sleeper
    (Sync/MutexProofs.v): the mutex queue is empty, nobody holds the lock, and every thread has
    either finished its program or sleeps inside a wait_and_lock(st) on cond[st] while the
    status is NOT st.  So no thread sleeps on the queue of the current status: *)
Theorem C09_quiescent_no_matching_waiter : forall pl g st,
  discs pl -> greach pl g -> gquiet g -> valid_st st = true ->
  festat (base g) = st -> getq (base g) (QC (Z.to_nat st)) = [].
Proof. exact quiescent_no_matching_waiter. Qed.
Print Assumptions C09_quiescent_no_matching_waiter.

Theorem C09_quiescent_characterisation : forall pl g,
  discs pl -> greach pl g -> gquiet g ->
  mq (base g) = [] /\ (forall u, holds (base g) u = false) /\ Z.odd (mword (base g)) = false /\
  forall t gt th, nth_error (gth g) t = Some gt -> get_thread (base g) t = Some th ->
    (prog gt = [] /\ pend gt = false /\ main th = Idle) \/
    (pend gt = true /\ exists st r, prog gt = AFeWL st :: r /\ main th = Susp (ALFe st) /\
       In t (getq (base g) (QC (Z.to_nat st))) /\ festat (base g) <> st).
Proof. exact quiescent_characterisation. Qed.
Print Assumptions C09_quiescent_characterisation.

(** a thread woken from cond[c] resumes at the status test for c: at the push step of
    mark_and_signal the thread in hand is suspended with continuation "test c", and after the
    push it is at the top of the lock path of wait_and_lock(c), which it leaves only through
    the successful test (C09_wait_and_lock_returns_only_via_test) *)
Theorem C09_woken_resumes_at_test : forall s t th c x s',
  freach s -> get_thread s t = Some th -> main th = SigPush c ASUnlock x -> fstep s (t, ETick) = Some s' ->
  (exists thx, get_thread s x = Some thx /\ main thx = Susp (ALFe (Z.of_nat c))) /\
  exists thx', get_thread s' x = Some thx' /\ main thx' = LockRead (ALFe (Z.of_nat c)) /\
               fewl_pc (Z.of_nat c) (main thx').
Proof. exact woken_resumes_at_test. Qed.
Print Assumptions C09_woken_resumes_at_test.

(** when every program has finished nobody sleeps: all queues are
    empty and the lock is free *)
Theorem C09_done_queues_empty : forall pl g,
  discs pl -> greach pl g -> all_done g ->
  mq (base g) = [] /\ (forall c, nth c (cqs (base g)) [] = []) /\ Z.odd (mword (base g)) = false.
Proof. exact done_queues_empty. Qed.
Print Assumptions C09_done_queues_empty.

(** the exchange, any numbers of producers / consumers / plain lockers, any schedule:
    no take from an empty slot, no put into a full slot, produced = slot + consumed as
    multisets (each item consumed at most once and only after it was produced),
    |produced| - |consumed| = |slot| <= 1, and the put / take counts add up *)
Theorem C09_exchange : forall pl g,
  mboxes pl -> greach pl g ->
  uflow g = false /\ oflow g = false /\
  Permutation (produced g) (slot_list g ++ consumed g) /\
  (forall v, (count_occ Z.eq_dec (consumed g) v <= count_occ Z.eq_dec (produced g) v)%nat) /\
  (List.length (produced g) = List.length (consumed g) + List.length (slot_list g))%nat /\
  (List.length (slot_list g) <= 1)%nat /\
  (puts_left g + List.length (produced g) = total_puts pl)%nat /\
  (takes_left g + List.length (consumed g) = total_takes pl)%nat.
Proof. exact exchange_safe. Qed.
Print Assumptions C09_exchange.

(** the exact invariant linking status and slot: (status = 0 and slot empty) or (status = 1
    and slot full), except while ONE participant - the owner of the lock - is between its
    put / take and its status write: then the status is still the one it waited for *)
Theorem C09_exchange_status : forall pl g,
  mboxes pl -> greach pl g ->
  coh g \/ exists t gt th st, nth_error (gth g) t = Some gt /\ get_thread (base g) t = Some th /\
                              dirty gt th st /\ anti g st /\ holds (base g) t = true.
Proof. exact exchange_status. Qed.
Print Assumptions C09_exchange_status.

(** all participants done and as many takes as puts: consumed = produced as multisets,
    the slot is empty and the status is 0 again *)
Theorem C09_exchange_complete : forall pl g,
  mboxes pl -> greach pl g -> all_done g -> total_puts pl = total_takes pl ->
  Permutation (produced g) (consumed g) /\ slot g = None /\ festat (base g) = 0.
Proof. exact exchange_complete. Qed.
Print Assumptions C09_exchange_complete.

(** the only quiescent states of a mailbox program (liveness-free): nobody holds the lock,
    status and slot agree, and every unfinished thread sleeps at the head of a block of the
    other kind - status 0: slot empty, consumed = produced, the sleepers are at [FeWL 1; take];
    status 1: slot full, the sleepers are at [FeWL 0; put v] *)
Theorem C09_mailbox_quiescent_characterisation : forall pl g,
  mboxes pl -> greach pl g -> gquiet g ->
  ((festat (base g) = 0 /\ slot g = None /\ Permutation (produced g) (consumed g)) \/
   (festat (base g) = 1 /\ exists v, slot g = Some v /\ Permutation (produced g) (v :: consumed g))) /\
  forall t gt th, nth_error (gth g) t = Some gt -> get_thread (base g) t = Some th ->
    (prog gt = [] /\ pend gt = false) \/
    (pend gt = true /\ main th = Susp (ALFe (1 - festat (base g))) /\
     In t (getq (base g) (QC (Z.to_nat (1 - festat (base g))))) /\
     ((festat (base g) = 0 /\ exists r, prog gt = AFeWL 1 :: ATake :: r) \/
      (festat (base g) = 1 /\ exists v r, prog gt = AFeWL 0 :: APut v :: r))).
Proof. exact mailbox_quiescent_characterisation. Qed.
Print Assumptions C09_mailbox_quiescent_characterisation.

(** hence, when every thread is a pure producer, consumer or plain locker and there are as
    many takes as puts, the only quiescent state is the final one: a run can stop only when
    every produced item has been consumed and everybody is done (no participant is left asleep;
    that a run does stop is liveness and not claimed) *)
Theorem C09_mailbox_quiescent_is_final : forall pl g,
  mboxes pl -> (forall p, In p pl -> pure p) -> total_puts pl = total_takes pl ->
  greach pl g -> gquiet g -> all_done g.
Proof. exact mailbox_quiescent_is_final. Qed.
Print Assumptions C09_mailbox_quiescent_is_final.

(* ------------------------------------------------------------------------------------------ *)
(** non-vacuity: concrete reachable states (deterministic scheduler [auto_run], vm_compute) *)

Definition pl1 : list (list action) :=
  [[AFeWL 0; APut 11; AFeMS 1; AFeWL 0; APut 12; AFeMS 1];
   [AFeWL 1; ATake; AFeMS 0]; [AFeWL 1; ATake; AFeMS 0]; [ALock; AUnlock]].

Example pl1_is_mailbox : forallb mbox_out pl1 = true.
Proof. vm_compute. reflexivity. Qed.

(** consumers first (both wait on cond[1]), then the producer, then the plain locker:
    a complete exchange; hypotheses of C09_exchange_complete hold *)
Example ex_exchange_complete :
  let g := auto_run 400 [1;2;0;3]%nat (g0 pl1) in
  greach pl1 g /\ produced g = [12; 11] /\ consumed g = [12; 11] /\ slot g = None /\
  forallb (fun gt => match prog gt with [] => negb (pend gt) | _ => false end) (gth g) = true /\
  total_puts pl1 = total_takes pl1.
Proof. split; [apply auto_run_reach, g0_reach|vm_compute; repeat split; reflexivity]. Qed.

(** a state inside mark_and_signal: status = 1 just written, consumer 2 still waits on
    cond[1], consumer 1 was dequeued and is in the producer's hand: hypotheses of
    C09_no_lost_wakeup hold (and thread 1 is the responsible thread) *)
Example ex_no_lost_wakeup_premise :
  let g := auto_run 30 [1;2;0;3]%nat (g0 pl1) in
  greach pl1 g /\ festat (base g) = 1 /\ getq (base g) (QC 1) = [2%nat] /\
  map main (thr (base g)) = [Unl (UClear 0 1); Susp (ALFe 1); Susp (ALFe 1); Idle].
Proof. split; [apply auto_run_reach, g0_reach|vm_compute; repeat split; reflexivity]. Qed.

(** the waiting path of wait_and_lock: consumer first, status 0 <> 1: suspended on cond[1]
    with the enqueue-then-unlock callback in flight *)
Example ex_wait_path :
  let g := auto_run 4 [1]%nat (g0 pl1) in
  greach pl1 g /\
  nth_error (thr (base g)) 1 =
    Some {| main := Susp (ALFe 1); cbs := [CbEnq (QC 1) true]; own := true |}.
Proof. split; [apply auto_run_reach, g0_reach|vm_compute; reflexivity]. Qed.

(** the fast path: producer alone: the test step from [FeRead 0] completes the call *)
Example ex_fast_path :
  let g := auto_run 3 [0]%nat (g0 pl1) in
  nth_error (thr (base g)) 0 = Some {| main := FeRead 0; cbs := []; own := true |} /\
  exists s', fstep (base g) (0%nat, ETick) = Some s' /\
             nth_error (thr s') 0 = Some {| main := Done 0; cbs := []; own := true |}.
Proof. split; [vm_compute; reflexivity|eexists; split; vm_compute; reflexivity]. Qed.

(** the three program points of mark_and_signal of C09_mark in reachable states: consumers
    first, then the producer's mark(1): at step 21 it is about to write the status, at 22 about
    to dequeue from cond[1] = [1; 2] (status already 1), at 23 it holds thread 1 - the head -
    in its hand; with nobody waiting (producer alone, step 8) the queue is empty *)
Example ex_mark_points :
  let g n := auto_run n [1;2;0;3]%nat (g0 pl1) in
  nth_error (map main (thr (base (g 21%nat)))) 0 = Some (FeWrite 1) /\
  festat (base (g 21%nat)) = 0 /\
  nth_error (map main (thr (base (g 22%nat)))) 0 = Some (SigDeq 1 ASUnlock) /\
  festat (base (g 22%nat)) = 1 /\ getq (base (g 22%nat)) (QC 1) = [1; 2]%nat /\
  nth_error (map main (thr (base (g 23%nat)))) 0 = Some (SigPush 1 ASUnlock 1) /\
  getq (base (g 23%nat)) (QC 1) = [2%nat] /\
  nth_error (map main (thr (base (g 24%nat)))) 1 = Some (LockRead (ALFe 1)) /\
  (let h := auto_run 8 [0]%nat (g0 pl1) in
   nth_error (map main (thr (base h))) 0 = Some (SigDeq 1 ASUnlock) /\ getq (base h) (QC 1) = []).
Proof. vm_compute. repeat split; reflexivity. Qed.

(** OUTSIDE the program class: a wait_and_lock closed by a plain unlock instead of
    mark_and_signal strands a sibling.  Threads 0 and 1 wait for status 1, thread 2 marks 1
    (waking thread 0 only); thread 0 leaves by plain Unlock: the run ends with nothing
    enabled, status = 1, thread 1 asleep on cond[1] although the status it waits for is set.
    This is how full/empty locks are defined (the status hand-off is the wake-up), not a
    defect of the library; [discs] excludes such programs. *)
Definition pl_strand : list (list action) := [[AFeWL 1; AUnlock]; [AFeWL 1; AFeMS 0]; [AFeWL 0; AFeMS 1]].

Example ex_stranded_sibling :
  let g := auto_run 400 [0;1;2]%nat (g0 pl_strand) in
  forallb (disc MOut) pl_strand = false /\
  stuck g 3 = true /\ festat (base g) = 1 /\ cqs (base g) = [[]; [1%nat]] /\ mword (base g) = 0 /\
  map main (thr (base g)) = [Idle; Susp (ALFe 1); Idle] /\
  map prog (gth g) = [[]; [AFeWL 1; AFeMS 0]; []].
Proof. vm_compute. repeat split; reflexivity. Qed.

(** a quiescent NON-final state of a mailbox program (more takes than puts): two consumers,
    one producer; the run stops with status 0, slot empty, consumed = produced and the second
    consumer asleep on cond[1] at its [FeWL 1; take] block - exactly the shape given by
    C09_mailbox_quiescent_characterisation; [gquiet] is proved for this concrete state *)
Definition pl_short : list (list action) :=
  [[AFeWL 0; APut 7; AFeMS 1]; [AFeWL 1; ATake; AFeMS 0]; [AFeWL 1; ATake; AFeMS 0]].

Example ex_quiescent_non_final :
  let g := auto_run 400 [1;2;0]%nat (g0 pl_short) in
  greach pl_short g /\ gquiet g /\ forallb mbox_out pl_short = true /\
  festat (base g) = 0 /\ slot g = None /\ produced g = [7] /\ consumed g = [7] /\
  cqs (base g) = [[]; [2%nat]] /\ mq (base g) = [] /\ mword (base g) = 0 /\
  map prog (gth g) = [[]; []; [AFeWL 1; ATake; AFeMS 0]] /\
  map main (thr (base g)) = [Idle; Idle; Susp (ALFe 1)].
Proof.
  split; [apply auto_run_reach, g0_reach|]. split; [|vm_compute; repeat split; reflexivity].
  intros t e.
  match goal with |- gstep ?G _ = None =>
    let g' := eval vm_compute in G in replace G with g' by (vm_compute; reflexivity) end.
  destruct t as [|[|[|t]]]; [| | |destruct t; reflexivity]; destruct e as [| |i|v|]; try reflexivity;
    try (destruct i as [|[|i]]; reflexivity); cbn; try reflexivity; destruct v; reflexivity.
Qed.
