(** C18 — DAG Recorder totals do not depend on how the DAG was contracted.
    Statements only; every proof is [exact] of a lemma of Dag/DagProofs.v.

    [tree]        a recorded execution: task ::= (section | other)* end,
                  section ::= (section | create task | other)* wait; every interval carries its
                  start / end clock and its worker (Dag/DagTreeModel.v)
    [well_nested] the grammar above;  [nonneg]: no interval has negative length
    [record oc summ p t]  the in-memory DAG the recorder builds: every closed section / task is
                  accumulated from its children (dr_accumulate_stats) and then handed to the
                  summariser [summ] (dr_summarize_section_or_task)
    [contracting summ]    [summ] only ever replaces closed subgraphs below the node it is given (or
                  that node) by their summaries - ANY set of them, chosen in any way, differently at
                  every close: the over-approximation of all contraction policies
    [summ_setting st]     the recorder's own policies for option values [st] (collapse_max /
                  uncollapse_min, collapse_max_count, node_count_target + prune_threshold)
    [summ_choice ch]      an arbitrary contraction choice function
    [oc], [fe]    the two variants of the library with respect to finding C18-stat-edges-lost:
                  [false] = as found, [true] = with the proposed repair (notes/C18.md) *)
From Coq Require Import ZArith List.
From MT Require Import Dag.DagTreeModel Dag.DagRecordModel Dag.DagProofs.
Import ListNotations.
Local Open Scope Z_scope.

(** the recorder's policies, for all option values, and all choice functions are instances of the
    over-approximation *)
Theorem C18_policies_contract : forall st, contracting (summ_setting st).
Proof. exact contracting_setting. Qed.
Print Assumptions C18_policies_contract.

Theorem C18_choices_contract : forall ch, contracting (summ_choice ch).
Proof. exact contracting_choice. Qed.
Print Assumptions C18_choices_contract.

(** headline: for every tree (even ill-formed), every assignment of workers (the leaves are
    arbitrary), every contraction choice sequence: every field of the root summary except
    cur_node_count equals that of the run without contraction *)
Theorem C18_contraction_invariant : forall oc summ, contracting summ -> forall t,
  i_kind (root_info oc summ t) = i_kind (root_info oc summ_none t) /\
  i_start (root_info oc summ t) = i_start (root_info oc summ_none t) /\
  i_end (root_info oc summ t) = i_end (root_info oc summ_none t) /\
  i_worker (root_info oc summ t) = i_worker (root_info oc summ_none t) /\
  i_t1 (root_info oc summ t) = i_t1 (root_info oc summ_none t) /\
  i_tinf (root_info oc summ t) = i_tinf (root_info oc summ_none t) /\
  i_nodes (root_info oc summ t) = i_nodes (root_info oc summ_none t) /\
  i_edges (root_info oc summ t) = i_edges (root_info oc summ_none t) /\
  i_min (root_info oc summ t) = i_min (root_info oc summ_none t) /\
  i_nchild (root_info oc summ t) = i_nchild (root_info oc summ_none t).
Proof. exact contraction_invariant_fields. Qed.
Print Assumptions C18_contraction_invariant.

(** ... in particular for every setting of the recorder's options ... *)
Theorem C18_contraction_invariant_settings : forall oc st t,
  i_t1 (root_info oc (summ_setting st) t) = i_t1 (root_info oc summ_none t) /\
  i_tinf (root_info oc (summ_setting st) t) = i_tinf (root_info oc summ_none t) /\
  i_nodes (root_info oc (summ_setting st) t) = i_nodes (root_info oc summ_none t) /\
  i_edges (root_info oc (summ_setting st) t) = i_edges (root_info oc summ_none t).
Proof. exact contraction_invariant_settings. Qed.
Print Assumptions C18_contraction_invariant_settings.

(** ... and every choice function *)
Theorem C18_contraction_invariant_choices : forall oc ch t,
  i_t1 (root_info oc (summ_choice ch) t) = i_t1 (root_info oc summ_none t) /\
  i_tinf (root_info oc (summ_choice ch) t) = i_tinf (root_info oc summ_none t) /\
  i_nodes (root_info oc (summ_choice ch) t) = i_nodes (root_info oc summ_none t) /\
  i_edges (root_info oc (summ_choice ch) t) = i_edges (root_info oc summ_none t).
Proof. exact contraction_invariant_choices. Qed.
Print Assumptions C18_contraction_invariant_choices.

(** work = sum of all interval lengths *)
Theorem C18_work : forall oc summ, contracting summ -> forall t, well_nested t ->
  i_t1 (root_info oc summ t) = work t.
Proof. exact root_work. Qed.
Print Assumptions C18_work.

(** logical node counts = numbers of intervals by kind *)
Theorem C18_counts : forall oc summ, contracting summ -> forall t, well_nested t ->
  i_nodes (root_info oc summ t) =
  mkNC (count_kind KCreate t) (count_kind KWait t) (count_kind KOther t) (count_kind KEnd t).
Proof. exact root_counts. Qed.
Print Assumptions C18_counts.

(** logical edge counts = edge counts by kind of the explicit uncontracted DAG: full strength,
    holds for the repaired accumulation *)
Theorem C18_edges : forall summ, contracting summ -> forall t, well_nested t ->
  i_edges (root_info true summ t) =
  mkEC (edge_count EEnd (dag_of t)) (edge_count ECreate (dag_of t)) (edge_count ECreateCont (dag_of t))
       (edge_count EWaitCont (dag_of t)) (edge_count EOtherCont (dag_of t)).
Proof. exact root_edges_dag. Qed.
Print Assumptions C18_edges.

(** the library as found: the statement above fails (an [other] interval is enough) ... *)
Theorem C18_edges_refuted : exists t, well_nested t /\
  i_edges (root_info false summ_none t) <>
  mkEC (edge_count EEnd (dag_of t)) (edge_count ECreate (dag_of t)) (edge_count ECreateCont (dag_of t))
       (edge_count EWaitCont (dag_of t)) (edge_count EOtherCont (dag_of t)).
Proof. exact root_edges_refuted. Qed.
Print Assumptions C18_edges_refuted.

(** ... exactly in the other_cont kind, which is never counted; missing for the full statement:
    other_cont = number of [other] intervals *)
Theorem C18_edges_partial : forall summ, contracting summ -> forall t, well_nested t ->
  i_edges (root_info false summ t) =
  mkEC (edge_count EEnd (dag_of t)) (edge_count ECreate (dag_of t)) (edge_count ECreateCont (dag_of t))
       (edge_count EWaitCont (dag_of t)) 0.
Proof. exact root_edges_dag_partial. Qed.
Print Assumptions C18_edges_partial.

(** critical path = weight of the heaviest path of the explicit DAG (target form): it is the value
    the one-pass computation [longest_path] yields, it bounds every path, and a path attains it *)
Theorem C18_tinf : forall oc summ, contracting summ -> forall t, well_nested t -> nonneg t ->
  i_tinf (root_info oc summ t) = longest_path (dag_of t) /\
  (forall p, is_path (dag_of t) p -> path_weight (dag_of t) p <= i_tinf (root_info oc summ t)) /\
  (exists p, is_path (dag_of t) p /\ path_weight (dag_of t) p = i_tinf (root_info oc summ t)).
Proof. exact root_tinf. Qed.
Print Assumptions C18_tinf.

Theorem C18_tinf_le_work : forall oc summ, contracting summ -> forall t, well_nested t -> nonneg t ->
  0 <= i_tinf (root_info oc summ t) <= i_t1 (root_info oc summ t).
Proof. exact root_tinf_le_work. Qed.
Print Assumptions C18_tinf_le_work.

(** the generated report: its work line (sum over what is materialised) is the work, however the
    DAG was contracted *)
Theorem C18_stat_work : forall oc summ, contracting summ -> forall t, well_nested t ->
  stat_work (record oc summ [] t) = work t.
Proof. exact stat_work_invariant. Qed.
Print Assumptions C18_stat_work.

(** its edge totals: full strength for the repaired library *)
Theorem C18_stat_edges : forall summ, contracting summ -> forall t, well_nested t ->
  stat_edges true (record true summ [] t) =
  mkEC (edge_count EEnd (dag_of t)) (edge_count ECreate (dag_of t)) (edge_count ECreateCont (dag_of t))
       (edge_count EWaitCont (dag_of t)) (edge_count EOtherCont (dag_of t)).
Proof. exact stat_edges_dag. Qed.
Print Assumptions C18_stat_edges.

(** the library as found: the end and other_cont totals of the report change with the contraction
    (witnesses: the library's default options against no contraction) ... *)
Theorem C18_stat_edges_refuted :
  (exists t st, well_nested t /\
     ec_end (stat_edges false (record false (summ_setting st) [] t)) <>
     ec_end (stat_edges false (record false summ_none [] t))) /\
  (exists t st, well_nested t /\
     ec_ocont (stat_edges false (record false (summ_setting st) [] t)) <>
     ec_ocont (stat_edges false (record false summ_none [] t))).
Proof. exact stat_edges_refuted. Qed.
Print Assumptions C18_stat_edges_refuted.

(** ... while create, create_cont and wait_cont are exact in every variant, end is exact as soon as
    the report is repaired and other_cont as soon as the accumulation is *)
Theorem C18_stat_edges_partial : forall oc fe summ, contracting summ -> forall t, well_nested t ->
  ec_create (stat_edges fe (record oc summ [] t)) = edge_count ECreate (dag_of t) /\
  ec_ccont (stat_edges fe (record oc summ [] t)) = edge_count ECreateCont (dag_of t) /\
  ec_wcont (stat_edges fe (record oc summ [] t)) = edge_count EWaitCont (dag_of t) /\
  (fe = true -> ec_end (stat_edges fe (record oc summ [] t)) = edge_count EEnd (dag_of t)) /\
  (oc = true -> ec_ocont (stat_edges fe (record oc summ [] t)) = edge_count EOtherCont (dag_of t)).
Proof. exact stat_edges_dag_partial. Qed.
Print Assumptions C18_stat_edges_partial.

(** non-vacuity: a two-level fork-join with an [other] interval, a nested and an empty section, on
    three workers, satisfies the hypotheses; its totals; what the default options do to it *)
Definition ex_tree : tree :=
  Task [Other (lf 1 2 0);
        Sect [Create (lf 2 4 0) (Task [Sect [] (lf 4 4 1)] (lf 4 9 1));
              Other (lf 4 5 0);
              Sect [Create (lf 5 6 2) (Task [] (lf 6 8 0))] (lf 6 7 2)]
             (lf 8 10 2)]
       (lf 10 11 0).
Example ex_well_nested : well_nested ex_tree /\ nonnegb ex_tree = true.
Proof. split; reflexivity. Qed.
Example ex_totals :
  work ex_tree = 16 /\ longest_path (dag_of ex_tree) = 10 /\
  i_t1 (root_info false (summ_setting st_default) ex_tree) = 16 /\
  i_tinf (root_info false (summ_setting st_default) ex_tree) = 10 /\
  i_nodes (root_info false (summ_setting st_default) ex_tree) = mkNC 2 3 2 3 /\
  i_cur (root_info false (summ_setting st_default) ex_tree) <> i_cur (root_info false summ_none ex_tree).
Proof. vm_compute. repeat split; discriminate. Qed.
Example ex_contracting_hyp : contracting (summ_setting st_default) /\ contracting summ_none.
Proof. split; [exact (contracting_setting st_default)|exact contracting_none]. Qed.
