(** C13 - each thread is reaped exactly once and reaping recycles its resources.
    Statements only; every proof is [exact] of a lemma of Sched/DescProofs.v.
    [Reach s] as in Properties_C01.v: any number of threads, any program respecting "each thread is
    the target of at most one reaping operation at a time and of none after one succeeded", any
    schedule. *)
From Coq Require Import ZArith List Bool Arith.
From MT Require Import Lib.Interleave Sched.DescModel Sched.DescInv Sched.DescProofs.
Import ListNotations.

(** whatever the order of finish vs join / tryjoin / timedjoin / detach / detached attribute: never
    reaped twice, record and stack each released at most once; the stack exactly when the finish is
    complete; the record exactly when the finish is complete AND a reaping request has completed *)
Theorem C13_reaped_once : forall s t, Reach s ->
  reaped (gh (gt s t)) <= 1 /\ desc_freed (gh (gt s t)) = reaped (gh (gt s t)) /\ stack_freed (gh (gt s t)) <= 1 /\
  (finish_complete (gt s t) = true -> stack_freed (gh (gt s t)) = 1) /\
  (finish_complete (gt s t) = true -> rdone (gh (gt s t)) = true -> reaped (gh (gt s t)) = 1) /\
  (reaped (gh (gt s t)) = 1 -> finish_complete (gt s t) = true /\ rdone (gh (gt s t)) = true) /\
  (stack_freed (gh (gt s t)) = 1 -> main (gt s t) = Finished).
Proof. exact reaped_once. Qed.
Print Assumptions C13_reaped_once.

Theorem C13_reaped_once_sched : forall n sched t,
  reaped (gh (gt (run step sched (init_state n)) t)) <= 1 /\
  desc_freed (gh (gt (run step sched (init_state n)) t)) <= 1 /\
  stack_freed (gh (gt (run step sched (init_state n)) t)) <= 1.
Proof. exact reaped_once_sched. Qed.
Print Assumptions C13_reaped_once_sched.

(** the record is never released while status <> FREE_READY2, except by the finisher of a detached
    thread (a decision it took under the descriptor lock); and only by the one claimed reaper *)
Theorem C13_free_guard : forall s j e s' t, Reach s -> step s (j, e) = Some s' ->
  desc_freed (gh (gt s' t)) <> desc_freed (gh (gt s t)) ->
  desc_freed (gh (gt s' t)) = S (desc_freed (gh (gt s t))) /\ desc_freed (gh (gt s t)) = 0 /\
  ((e = ETick /\ (main (gt s j) = JReap t \/ main (gt s j) = DReap t) /\ status (gt s t) = ST_FREE_READY2 /\
    claimed (gh (gt s t)) = Some j) \/
   (e = ECbTick /\ j = t /\ cb (gt s t) = CbFreeDesc /\ detached (gt s t) = true /\ main (gt s t) = Finished)).
Proof. exact free_guard. Qed.
Print Assumptions C13_free_guard.

(** tryjoin (and every attempt of timedjoin) holds the lock at its test; EBUSY iff the target has
    not finished at that test, and then nothing of the target but the lock word changes; otherwise
    exactly join's step *)
Theorem C13_tryjoin_busy_iff : forall s j t timed s', Reach s -> main (gt s j) = TCheck t timed -> step s (j, ETick) = Some s' ->
  lockh (gt s t) = Some j /\
  (is_finished (status (gt s t)) = false ->
     main (gt s' j) = (if timed then TBusy t else Done EBUSY None) /\
     ret_ok s' j EBUSY = true /\ joined s' j = None /\
     status (gt s' t) = status (gt s t) /\ join_thread (gt s' t) = join_thread (gt s t) /\
     detached (gt s' t) = detached (gt s t) /\ result (gt s' t) = result (gt s t) /\
     reaped (gh (gt s' t)) = reaped (gh (gt s t)) /\ desc_freed (gh (gt s' t)) = desc_freed (gh (gt s t)) /\
     (t <> j -> main (gt s' t) = main (gt s t)) /\ cb (gt s' t) = cb (gt s t) /\
     lockh (gt s' t) = None) /\
  (is_finished (status (gt s t)) = true ->
     main (gt s' j) = JSpin t /\ ret_ok s' j EBUSY = false /\
     forall sj sj', (forall k, gt sj k = if k =? j then set_main (gt s j) (JCheck t) else gt s k) ->
                    length (thr sj) = length (thr s) -> crashed sj = false ->
                    step sj (j, ETick) = Some sj' -> forall k, gt sj' k = gt s' k).
Proof. exact tryjoin_decision. Qed.
Print Assumptions C13_tryjoin_busy_iff.

(** detaching never disturbs the target *)
Theorem C13_detach_harmless : forall s j t s', Reach s -> detach_pc (main (gt s j)) t = true -> step s (j, ETick) = Some s' ->
  forall k,
    status (gt s' k) = status (gt s k) /\ join_thread (gt s' k) = join_thread (gt s k) /\
    result (gt s' k) = result (gt s k) /\ cb (gt s' k) = cb (gt s k) /\
    runs (gh (gt s' k)) = runs (gh (gt s k)) /\ retv (gh (gt s' k)) = retv (gh (gt s k)) /\
    stack_freed (gh (gt s' k)) = stack_freed (gh (gt s k)) /\
    (k <> j -> main (gt s' k) = main (gt s k)) /\
    (detached (gt s' k) <> detached (gt s k) ->
       k = t /\ main (gt s j) = DSet t /\ detached (gt s' k) = true /\ status (gt s t) <> ST_FREE_READY2 /\
       lockh (gt s t) = Some j) /\
    (desc_freed (gh (gt s' k)) <> desc_freed (gh (gt s k)) ->
       k = t /\ main (gt s j) = DReap t /\ status (gt s t) = ST_FREE_READY2) /\
    (lockh (gt s' k) <> lockh (gt s k) -> k = t).
Proof. exact detach_harmless. Qed.
Print Assumptions C13_detach_harmless.

(** creation with detachstate = detached behaves as default-detachstate creation followed by detach *)
Theorem C13_detached_attr : forall s p c a a' nullid argv ss cf s1,
  Reach s ->
  create_settings a = Some (mkSettings ss cf true) ->
  create_settings a' = Some (mkSettings ss cf false) ->
  step s (p, ECall (Create c a nullid argv)) = Some s1 ->
  exists s2, steps (detach_after_create p c a' nullid argv) s = Some s2 /\
    crashed s1 = false /\ crashed s2 = false /\ joins s2 = joins s1 /\ badwake s2 = badwake s1 /\
    forall k, gt s2 k = gt s1 k.
Proof. exact detached_attr. Qed.
Print Assumptions C13_detached_attr.

(** ... which was false before commit e6d6e48 (attr->detachstate never read): the record leaks *)
Theorem C13_detached_attr_prefix_refuted :
  let s := run_cfg cfg_prefix_det leak_sched (init_state 1) in
  let s' := run_cfg cfg_now leak_sched (init_state 1) in
  (finish_complete (gt s 1) = true /\ rdone (gh (gt s 1)) = true /\ desc_freed (gh (gt s 1)) = 0 /\
   stack_freed (gh (gt s 1)) = 1 /\ crashed s = false /\
   (forall j, tick s j = None /\ cbtick s j = None) /\
   (forall j, call_cfg cfg_prefix_det s j (Join 1) = None /\ call_cfg cfg_prefix_det s j (TryJoin 1) = None /\
              call_cfg cfg_prefix_det s j (TimedJoin 1) = None /\ call_cfg cfg_prefix_det s j (Detach 1) = None)) /\
  (finish_complete (gt s' 1) = true /\ desc_freed (gh (gt s' 1)) = 1 /\ stack_freed (gh (gt s' 1)) = 1).
Proof. exact detached_attr_prefix_refuted. Qed.
Print Assumptions C13_detached_attr_prefix_refuted.

(** one worker (one free list of records, one of stacks; allocation takes from the list first):
    along ANY history of creations, finishes, reaps and detaches the number of records and of stacks
    ever obtained from the system is at most the peak number of simultaneously unreaped threads;
    everything obtained is on the free list or owned *)
Theorem C13_bounded_memory : forall h,
  nd (arun h ainit) <= peak_unreaped h ainit /\ ns (arun h ainit) <= peak_unreaped h ainit /\
  nd (arun h ainit) = length (fd (arun h ainit)) + unreaped (arun h ainit) /\
  ns (arun h ainit) = length (fs (arun h ainit)) + running (arun h ainit).
Proof. exact bounded_memory. Qed.
Print Assumptions C13_bounded_memory.

(** at quiescence every record / stack obtained is owned by a live or unreaped thread, or has been
    released exactly once *)
Theorem C13_quiescent_ledger : forall s, Reach s -> quiescent s -> forall k, main (gt s k) <> NoThread ->
  cb (gt s k) = CbNone /\
  desc_alloc (gh (gt s k)) = 1 /\ stack_alloc (gh (gt s k)) = 1 /\
  ((main (gt s k) <> Finished /\ stack_freed (gh (gt s k)) = 0 /\ desc_freed (gh (gt s k)) = 0) \/
   (main (gt s k) = Finished /\ stack_freed (gh (gt s k)) = 1 /\
    ((rdone (gh (gt s k)) = false /\ desc_freed (gh (gt s k)) = 0 /\ status (gt s k) = ST_FREE_READY2) \/
     (rdone (gh (gt s k)) = true /\ desc_freed (gh (gt s k)) = 1 /\ reaped (gh (gt s k)) = 1)))).
Proof. exact quiescent_ledger. Qed.
Print Assumptions C13_quiescent_ledger.

(* ---- non-vacuity ---- *)

(** detach of a running thread, then the thread finishes and releases its own record *)
Definition ex13_sched : list (nat * ev) :=
  [(0, ECall (Create 1 None false 9%Z)); (1, ETick); (0, ERet 0%Z); (0, ECall (Detach 1)); (0, ETick); (0, ETick);
   (0, ETick); (0, ETick); (0, ERet 0%Z);
   (1, ECall (Exit 5%Z)); (1, ETick); (1, ETick); (1, ECbTick); (1, ECbTick); (1, ECbTick)].
Example ex13_detach_then_finish :
  let s := run step ex13_sched (init_state 1) in
  Reach s /\ finish_complete (gt s 1) = true /\ rdone (gh (gt s 1)) = true /\ reaped (gh (gt s 1)) = 1 /\
  desc_freed (gh (gt s 1)) = 1 /\ stack_freed (gh (gt s 1)) = 1 /\ status (gt s 1) = ST_READY.
Proof. cbv zeta. split; [apply run_reach|]. repeat split; vm_compute; reflexivity. Qed.

(** the final state above is quiescent (hypothesis of C13_quiescent_ledger) *)
Example ex13_quiescent : quiescent (run step ex13_sched (init_state 1)).
Proof.
  intros j. destruct j as [|[|j]]; try (split; vm_compute; reflexivity).
  unfold tick, cbtick, gt. split; destruct j; vm_compute; reflexivity.
Qed.

(** tryjoin at its locked test, target not finished (hypotheses of C13_tryjoin_busy_iff) *)
Example ex13_trycheck :
  let s := run step [(0, ECall (Create 1 None false 9%Z)); (0, ERet 0%Z); (0, ECall (TryJoin 1)); (0, ETick)] (init_state 1) in
  Reach s /\ main (gt s 0) = TCheck 1 false /\ is_finished (status (gt s 1)) = false /\
  exists s', step s (0, ETick) = Some s' /\ ret_ok s' 0 EBUSY = true.
Proof. cbv zeta. split; [apply run_reach|]. repeat split; try (vm_compute; reflexivity). eexists. split; vm_compute; reflexivity. Qed.

(** detach in progress (hypothesis of C13_detach_harmless) and the attribute pair of C13_detached_attr *)
Example ex13_detach_pc :
  let s := run step (firstn 7 ex13_sched) (init_state 1) in
  Reach s /\ detach_pc (main (gt s 0)) 1 = true /\ main (gt s 0) = DSet 1.
Proof. cbv zeta. split; [apply run_reach|]. split; vm_compute; reflexivity. Qed.

Example ex13_attr_pair :
  let g := mkGlobals 131072 0 1 in
  create_settings (Some (attr_setdetachstate (attr_init g attr_dirty) 1)) = Some (mkSettings 131072 true true) /\
  create_settings (Some (attr_init g attr_dirty)) = Some (mkSettings 131072 true false).
Proof. split; reflexivity. Qed.

(** a history with recycling: three threads, peak two unreaped, two records and two stacks from the system *)
Example ex13_history :
  let h := [HCreate false; HCreate true; HFinish 1; HCreate false; HFinish 0; HReap 0; HFinish 2; HDetach 2; HReap 2] in
  nd (arun h ainit) = 2 /\ ns (arun h ainit) = 2 /\ peak_unreaped h ainit = 2.
Proof. cbv zeta. repeat split; vm_compute; reflexivity. Qed.
