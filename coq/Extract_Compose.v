From Coq Require Import ExtrOcamlBasic.
From Coq Require Import ZArith.
From MT Require Import Sync.SyncModel Machine.MachineModel Compose.ComposeModel.
Extraction Language OCaml.
Separate Extraction BinNums.N BinInt.Z.add BinInt.Z.mul BinInt.Z.opp BinInt.Z.div_eucl cinit cstep sy ma label lval ncbs mword mq cqs festat thr cur hand dq stat places parked.
