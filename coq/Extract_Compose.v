From Coq Require Import ExtrOcamlBasic.
From Coq Require Import ZArith.
From MT Require Import Sync.SyncModel Machine.MachineModel Compose.GenericModel Compose.Instances Compose.ComposeModel.
From MT Require Barrier.BarrierModel JoinCounter.JcModel Uncond.UncondModel.
Extraction Language OCaml.
Separate Extraction BinNums.N BinInt.Z.add BinInt.Z.mul BinInt.Z.opp BinInt.Z.div_eucl
  gp gm SyncI.pstep SyncI.pinit BarrierI.pstep BarrierI.pinit JcI.pstep JcI.pinit UncondI.pstep UncondI.pinit
  SyncModel.label SyncModel.lval SyncModel.ncbs SyncModel.mword SyncModel.mq SyncModel.cqs SyncModel.festat SyncModel.thr
  BarrierModel.label JcModel.label JcModel.init_state UncondModel.label
  cur hand dq stat places parked.
