(** C08 - uncondition variable: signal always hands over the one waiter, early or late.
    Statements only; every proof is [exact] of a lemma of Uncond/UncondProofs.v.

    [reach s] = s is reachable in the transition system of Uncond/UncondModel.v from [init_state n]
    for SOME number of threads n, by ANY sequence of steps [(t, e)]: announcements and calls that the
    documented protocol admits (enabledness of EAnnounce / ECall), main-activity steps, callback
    steps and returns of any thread in any order, i.e. every program of the protocol class, every
    schedule, any number of repeated rendezvous on the variable. *)
From Coq Require Import ZArith List Bool.
From MT Require Import Lib.Interleave Uncond.UncondModel Uncond.UncondProofs.
Import ListNotations.

(** the quantification made explicit: the state after any schedule from any initial state is
    reachable, and every reachable state is obtained that way *)
Theorem C08_every_schedule : forall n sched, reach (run step sched (init_state n)).
Proof. exact every_schedule_reach. Qed.
Print Assumptions C08_every_schedule.

Theorem C08_reach_is_run : forall s, reach s -> exists n sched, run step sched (init_state n) = s.
Proof. exact reach_is_run. Qed.
Print Assumptions C08_reach_is_run.

(** each rendezvous resumes the waiter exactly once: per thread, resumptions = wait calls, minus one
    while it is suspended; at most one wait is outstanding; it belongs to the last announcement *)
Theorem C08_one_resume : forall s, reach s ->
  (pushes s <= waits s /\ waits s <= ann s /\ ann s <= pushes s + 1) /\
  (forall t x, thr_at s t x -> nwait x = nres x + b2n (suspended x)) /\
  (forall t1 x1 t2 x2, thr_at s t1 x1 -> thr_at s t2 x2 ->
     suspended x1 = true -> suspended x2 = true -> t1 = t2) /\
  (waits s = pushes s + 1 <-> exists t x, thr_at s t x /\ suspended x = true).
Proof. exact one_resume. Qed.
Print Assumptions C08_one_resume.

(** the slot only ever holds a suspended thread whose switch callback is complete (context saved) *)
Theorem C08_published_saved : forall s, reach s ->
  forall w, th s = Some w -> exists x, thr_at s w x /\ main x = Susp /\ cb x = CbNone.
Proof. exact published_saved. Qed.
Print Assumptions C08_published_saved.

(** ... and a thread gets into the slot only through its own callback step *)
Theorem C08_published_by_callback : forall s t e s' w, reach s -> step s (t, e) = Some s' ->
  th s' = Some w -> th s = Some w \/
  (e = ECbTick /\ t = w /\ exists me, thr_at s t me /\ main me = Susp /\ cb me = CbPublish).
Proof. exact publish_only_by_callback. Qed.
Print Assumptions C08_published_by_callback.

(** suspended -> runnable, and nres + 1, only by the push step of a signaller naming the thread *)
Theorem C08_no_spurious : forall s t e s' w x x', reach s -> step s (t, e) = Some s' ->
  thr_at s w x -> thr_at s' w x' ->
  (main x = Susp /\ main x' <> Susp) \/ nres x' <> nres x ->
  e = ETick /\ t <> w /\ (exists me, thr_at s t me /\ main me = SigPush w) /\ th s = None /\
  main x = Susp /\ cb x = CbNone /\ main x' = WaitDone /\ nres x' = S (nres x).
Proof. exact no_spurious. Qed.
Print Assumptions C08_no_spurious.

(** signal returns only after its push (and wait only after having been handed over) *)
Theorem C08_signal_hands_over : forall s t v s', reach s -> step s (t, ERet v) = Some s' ->
  v = 0%Z /\ exists me, thr_at s t me /\
    ((main me = WaitDone /\ nwait me = nres me) \/ (main me = SigDone /\ nsig me = npush me)).
Proof. exact ret_only_when_done. Qed.
Print Assumptions C08_signal_hands_over.

(** every signal call pushes exactly once; at most one signal is in progress *)
Theorem C08_signal_pushes_once : forall s, reach s ->
  (pushes s <= sigs s /\ sigs s <= ann s) /\
  (forall t x, thr_at s t x -> nsig x = npush x + b2n (in_signal x)) /\
  (forall t1 x1 t2 x2, thr_at s t1 x1 -> thr_at s t2 x2 ->
     in_signal x1 = true -> in_signal x2 = true -> t1 = t2) /\
  (sigs s = pushes s + 1 <-> exists t x, thr_at s t x /\ in_signal x = true).
Proof. exact signal_counts. Qed.
Print Assumptions C08_signal_pushes_once.

(** the completion point of signal is reached only by the push step, which makes exactly the
    suspended thread it read runnable *)
Theorem C08_push_hands_over : forall s t e s' me me', reach s -> step s (t, e) = Some s' ->
  thr_at s t me -> thr_at s' t me' ->
  (main me' = SigDone /\ main me <> SigDone) \/ npush me' <> npush me ->
  e = ETick /\ main me' = SigDone /\ npush me' = S (npush me) /\ pushes s' = S (pushes s) /\
  exists w x x', main me = SigPush w /\ thr_at s w x /\ main x = Susp /\ cb x = CbNone /\
                 thr_at s' w x' /\ main x' = WaitDone.
Proof. exact signal_done_by_push. Qed.
Print Assumptions C08_push_hands_over.

(** clearing precedes the push: at the clear step the slot holds exactly the thread read, at the push
    step it is empty, and in both the thread held is suspended with its context saved *)
Theorem C08_repeat : forall s, reach s ->
  (forall t x y, thr_at s t x -> main x = SigClear y ->
     th s = Some y /\ exists z, thr_at s y z /\ main z = Susp /\ cb z = CbNone) /\
  (forall t x y, thr_at s t x -> main x = SigPush y ->
     th s = None /\ exists z, thr_at s y z /\ main z = Susp /\ cb z = CbNone).
Proof. exact clear_then_push. Qed.
Print Assumptions C08_repeat.

(** ... so a publication (in particular that of a waiter which waits again immediately after being
    handed over, while the previous signal call has not returned) is erased only by the clear step of
    the signaller that read it *)
Theorem C08_repeat_not_erased : forall s t e s' w, reach s -> step s (t, e) = Some s' ->
  th s = Some w -> th s' <> Some w ->
  e = ETick /\ exists me, thr_at s t me /\ main me = SigClear w /\ th s' = None.
Proof. exact erased_only_by_own_signal. Qed.
Print Assumptions C08_repeat_not_erased.

(** the early signal: a signal issued before the publication spins without any effect, and commits
    to exactly the published thread as soon as there is one *)
Theorem C08_early_signal_spins : forall s t me, thr_at s t me -> main me = SigRead ->
  (th s = None -> step s (t, ETick) = Some s) /\
  (forall x, th s = Some x -> step s (t, ETick) = Some (set_thread s t (set_main me (SigClear x)))).
Proof. exact early_signal_spins. Qed.
Print Assumptions C08_early_signal_spins.

(** once a signaller holds a thread its clear and push steps are always enabled *)
Theorem C08_handover_enabled : forall s t me, reach s -> thr_at s t me ->
  (forall y, main me = SigClear y -> exists s', step s (t, ETick) = Some s') /\
  (forall y, main me = SigPush y -> exists s', step s (t, ETick) = Some s').
Proof. exact handover_enabled. Qed.
Print Assumptions C08_handover_enabled.

(** ---- non-vacuity ---- *)

(** an early signal: thread 1 signals before thread 0 has called wait, spins three times (twice
    before the call, once between the call and the callback's publication), then hands over *)
Example C08_early_example :
  run step [(0, EAnnounce); (1, ECall Signal); (1, ETick); (1, ETick); (0, ECall Wait); (1, ETick);
            (0, ECbTick); (1, ETick); (1, ETick); (1, ETick); (1, ERet 0%Z); (0, ERet 0%Z)] (init_state 2) =
  {| th := None;
     thr := [ {| main := Idle; cb := CbNone; nwait := 1; nres := 1; nsig := 0; npush := 0 |};
              {| main := Idle; cb := CbNone; nwait := 0; nres := 0; nsig := 1; npush := 1 |} ];
     ann := 1; waits := 1; sigs := 1; pushes := 1 |}.
Proof. vm_compute. reflexivity. Qed.

(** repeat: thread 0 is handed over, returns, announces and waits again and publishes itself while the
    signal call of thread 1 has not returned yet (SigDone; schedule [repeat_sched]); the publication
    survives thread 1's return and is picked up by the next signal *)
Example C08_repeat_example :
  run step repeat_sched (init_state 2) =
  {| th := Some 0;
     thr := [ {| main := Susp; cb := CbNone; nwait := 2; nres := 1; nsig := 0; npush := 0 |};
              {| main := SigDone; cb := CbNone; nwait := 0; nres := 0; nsig := 1; npush := 1 |} ];
     ann := 2; waits := 2; sigs := 1; pushes := 1 |} /\
  th (run step (repeat_sched ++ [(1, ERet 0%Z); (1, ECall Signal); (1, ETick)]) (init_state 2)) = Some 0 /\
  nth_error (thr (run step (repeat_sched ++ [(1, ERet 0%Z); (1, ECall Signal); (1, ETick)]) (init_state 2))) 1 =
  Some {| main := SigClear 0; cb := CbNone; nwait := 0; nres := 0; nsig := 2; npush := 1 |}.
Proof. vm_compute. repeat split; reflexivity. Qed.

(** the contract is enforced: a second wait while one is outstanding, a signal without announcement
    and a second announcement before the hand-over are not steps of the system *)
Example C08_contract_example :
  step (run step [(0, EAnnounce); (0, ECall Wait)] (init_state 3)) (1, ECall Wait) = None /\
  step (init_state 3) (1, ECall Signal) = None /\
  step (run step [(0, EAnnounce); (0, ECall Wait)] (init_state 3)) (2, EAnnounce) = None.
Proof. vm_compute. repeat split; reflexivity. Qed.
