From Coq Require Import ZArith List.
From MT Require Import Init.EnvModel Init.CpuListModel Init.InitProtoModel.
Theorem C15_placeholder : True.
Proof. exact I. Qed.
