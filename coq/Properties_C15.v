(** C15 — initialisation, worker count, finalisation, configuration parsing.
    Statements only; every proof is [exact] of a lemma of Init/*Proofs.v. *)
From Coq Require Import ZArith List Bool.
From MT Require Import Lib.Interleave Init.EnvModel Init.EnvProofs Init.CpuListModel Init.CpuListProofs
     Init.InitProtoModel Init.InitProtoProofs Init.InitEpochProofs Init.InitTableModel Init.InitTableProofs.
Import ListNotations.
Local Open Scope Z_scope.

(** ** worker count and ranks *)

(** The attributes the real initialisation uses: the caller's attribute if given, else the
    library's own attribute if already initialised, else the environment - MYTH_NUM_WORKERS
    (or the old MYTH_WORKER_NUM) if atoi of it is positive, else the CPU count.  The workers
    get exactly the ranks 0 .. n_workers-1, each once. *)
Theorem C15_workers : forall d ncpu ev attr g, 0 < ncpu < 2147483648 ->
  let a := effective_attr d ncpu ev attr g in
  ga_nw a = match attr with
            | Some a' => ga_nw a'
            | None => if ga_init g =? 0
                      then (if 0 <? requested_nw (e_num_workers ev) (e_worker_num ev)
                            then requested_nw (e_num_workers ev) (e_worker_num ev) else ncpu)
                      else ga_nw g
            end /\
  (attr = None -> ga_init g = 0 -> 0 < ga_nw a < 2147483648) /\
  (0 < ga_nw a ->
   (forall r, In r (worker_ranks (ga_nw a)) <-> 0 <= r < ga_nw a) /\
   NoDup (worker_ranks (ga_nw a)) /\
   Z.of_nat (length (worker_ranks (ga_nw a))) = ga_nw a).
Proof. exact workers_spec. Qed.
Print Assumptions C15_workers.

(** ** the environment defaults, for EVERY byte string in every variable *)
Theorem C15_env_total : forall d ncpu ev, good_defaults d -> 0 < ncpu < 2147483648 ->
  let a := globalattr_init d ncpu ev in
  (0 < ga_stack a < 18446744073709551616 /\
   ga_stack a = (if 0 <? env_int (e_stksize ev) then env_int (e_stksize ev) else d_stack d) /\
   (ga_stack a < 2147483648 \/ ga_stack a = d_stack d)) /\
  (0 < ga_nw a < 2147483648 /\
   ga_nw a = (if 0 <? requested_nw (e_num_workers ev) (e_worker_num ev)
              then requested_nw (e_num_workers ev) (e_worker_num ev) else ncpu)) /\
  (0 < ga_guard a < 18446744073709551616 /\
   (env_int (e_guardsize ev) = 0 -> ga_guard a = d_guard d) /\
   (0 < env_int (e_guardsize ev) -> ga_guard a = env_int (e_guardsize ev))) /\
  (ga_bind a = match e_bind ev with Some s => atoi s | None => to_int (d_bind d) end /\
   ga_cf a = match e_child_first ev with Some s => atoi s | None => to_int (d_cf d) end /\
   ga_init a = 1) /\
  (env_has_number (e_stksize ev) = false -> ga_stack a = d_stack d) /\
  (env_has_number (e_guardsize ev) = false -> ga_guard a = d_guard d) /\
  (env_has_number (e_num_workers ev) = false -> env_has_number (e_worker_num ev) = false -> ga_nw a = ncpu) /\
  (forall s, e_bind ev = Some s -> has_number s = false -> binds a = false).
Proof. exact env_total. Qed.
Print Assumptions C15_env_total.

(** what [atoi] means on a numeral (blanks, optional sign, digits, anything): the decimal
    value, saturated to a 64-bit long, truncated to int *)
Theorem C15_atoi_numeral : forall ws sg neg ds rest,
  forallb is_space ws = true ->
  (sg = [] /\ neg = false) \/ (sg = [43] /\ neg = false) \/ (sg = [45] /\ neg = true) ->
  forallb is_digit ds = true -> ds <> [] ->
  match rest with c :: _ => is_digit c | [] => false end = false ->
  atoi (ws ++ sg ++ ds ++ rest) = to_int (saturate neg (dec_value ds)).
Proof. exact atoi_numeral. Qed.
Print Assumptions C15_atoi_numeral.

(** the stack-size function as it was before commit 210245e: "-1" gives 2^64-1 bytes; the
    repaired function gives the default *)
Theorem C15_stksize_prefix_refuted :
  exists s, has_number s = true /\ atoi s < 0 /\
            default_stacksize_prefix 131072 (Some s) = 18446744073709551615 /\
            default_stacksize 131072 (Some s) = 131072.
Proof. exact stksize_prefix_refuted. Qed.
Print Assumptions C15_stksize_prefix_refuted.

(** ** the CPU-list parser *)

(** for EVERY byte string and capacity: termination within the fuel, a list that fits the
    capacity or a diagnostic whose positions lie inside the string; never an assertion failure *)
Theorem C15_cpulist_total : forall s n,
  match parse_cpu_list (Some s) n with
  | Val l => Z.of_nat (length l) <= Z.max 0 n
  | Err d => 0 <= d_ok d <= d_i d /\ d_i d <= Z.of_nat (length s)
  | AssertFail => False
  | OutOfFuel => False
  end.
Proof. exact cpulist_total. Qed.
Print Assumptions C15_cpulist_total.

(** acceptance implies the grammar  range (, range)*  followed by the end of the C string *)
Theorem C15_cpulist_sound : forall s n l, parse_cpu_list (Some s) n = Val l ->
  exists t rs rest, list_text t rs /\ s = t ++ rest /\ end_hd rest.
Proof. exact cpulist_sound. Qed.
Print Assumptions C15_cpulist_sound.

(** a string of the grammar whose numbers do not overflow an int: the result is the
    concatenation of the expansions a, a+c, a+2c, ... (below b) of its ranges, or the
    "too many" diagnostic exactly when that does not fit the capacity *)
Theorem C15_cpulist_complete : forall t rs rest n,
  list_text t rs -> Forall guard3 rs -> end_hd rest ->
  match parse_cpu_list (Some (t ++ rest)) n with
  | Val l => exists ls, Forall2 is_expansion rs ls /\ l = concat ls
  | Err d => d_msg d = TooMany /\ forall ls, Forall2 is_expansion rs ls -> n < Z.of_nat (length (concat ls))
  | AssertFail => False
  | OutOfFuel => False
  end.
Proof. exact cpulist_complete. Qed.
Print Assumptions C15_cpulist_complete.

(** the expansion of a range is unique, and a zero stride over a non-empty interval has none
    (so such a list always ends in "too many") *)
Theorem C15_expansion_unique : forall r l l', (let '(_, _, c) := r in 0 <= c) ->
  is_expansion r l -> is_expansion r l' -> l = l'.
Proof. exact is_expansion_unique. Qed.
Print Assumptions C15_expansion_unique.

Theorem C15_stride_zero : forall a b l, a < b -> ~ is_expansion (a, b, 0) l.
Proof. exact stride_zero_no_expansion. Qed.
Print Assumptions C15_stride_zero.

(** the parser before commit a5dd2b3 fails its assertion on "0\n"; the current one reports junk *)
Theorem C15_cpulist_prefix_refuted :
  exists s, parse_cpu_list_prefix (Some s) 1024 = AssertFail /\
            exists d, parse_cpu_list (Some s) 1024 = Err d /\ d_msg d = Junk.
Proof. exact cpulist_prefix_refuted. Qed.
Print Assumptions C15_cpulist_prefix_refuted.

(** whatever MYTH_CPU_LIST holds: a worker is left unbound or bound to a CPU of the affinity mask *)
Theorem C15_bind_total : forall e n ncpu aff rank,
  let tbl := available_cpus (parse_cpu_list e n) ncpu aff in
  worker_cpu tbl rank = -1 \/ aff (worker_cpu tbl rank) = true.
Proof. exact bind_total. Qed.
Print Assumptions C15_bind_total.

(** ** initialise once / finalise, any number of callers, any schedule *)
Theorem C15_init_once : forall n s, reachable (initial n) step s ->
  (n_fini s <= n_really s <= S (n_fini s))%nat /\
  (n_really s <= n_cas s <= S (n_really s))%nat /\
  (forall i j ti tj, nth_error (threads s) i = Some ti -> nth_error (threads s) j = Some tj ->
                     initialiser ti = true -> initialiser tj = true -> i = j) /\
  (forall i t r, nth_error (threads s) i = Some t -> t_pc t = DoneI r ->
                 r = 1 /\ st s = 2 /\ n_really s = S (n_fini s) /\ gnw s = Some (nworkers s) /\
                 flags s = start_flags (nworkers s) /\ no_fini s = true) /\
  (forall i t r, nth_error (threads s) i = Some t -> t_pc t = DoneF r ->
                 st s = 0 /\ n_really s = n_fini s /\ nworkers s = 0) /\
  (st s = 0 -> n_cas s = n_really s /\ n_really s = n_fini s /\ nworkers s = 0).
Proof. exact init_once. Qed.
Print Assumptions C15_init_once.

(** after finalisation (state uninit) a new epoch can start with a different worker count *)
Theorem C15_new_epoch : forall s i t a d,
  st s = 0 -> nth_error (threads s) i = Some t -> t_pc t = Idle -> no_fini s = true ->
  let s' := run step [(i, Call (OpInit (Some a) d)); (i, Tick); (i, Tick); (i, Tick); (i, Tick)] s in
  st s' = 2 /\ nworkers s' = a /\ gnw s' = Some a /\ flags s' = start_flags a /\
  n_really s' = S (n_really s) /\ n_fini s' = n_fini s /\ result s' i = Some 1 /\ rank_of s' i = 0.
Proof. exact new_epoch. Qed.
Print Assumptions C15_new_epoch.

(** myth_init() / myth_init_ex(&attr) on an already initialised library is ignored: it returns 1 and
    leaves the library's attribute object, the worker set, the counters and every other caller unchanged,
    whatever attribute it carries *)
Theorem C15_reinit_ignored : forall s i t a d,
  st s = 2 -> nth_error (threads s) i = Some t -> t_pc t = Idle -> no_fini s = true ->
  let s' := run step [(i, Call (OpInit a d)); (i, Tick)] s in
  st s' = 2 /\ gnw s' = gnw s /\ nworkers s' = nworkers s /\ flags s' = flags s /\
  n_cas s' = n_cas s /\ n_really s' = n_really s /\ n_fini s' = n_fini s /\
  result s' i = Some 1 /\ rank_of s' i = rank_of s i /\
  threads s' = set_nth (threads s) i {| t_pc := DoneI 1; t_rank := t_rank t |}.
Proof. exact reinit_ignored. Qed.
Print Assumptions C15_reinit_ignored.

(** in every interleaving: while the state is "initialized", no step of any caller except the tear-down of
    myth_fini changes the attribute object or the number of workers *)
Theorem C15_initialised_attr_stable : forall n s i e s' t, reachable (initial n) step s ->
  st s = 2 -> step s (i, e) = Some s' -> nth_error (threads s) i = Some t ->
  t_pc t = FJoin \/ (gnw s' = gnw s /\ nworkers s' = nworkers s).
Proof. exact initialised_attr_stable. Qed.
Print Assumptions C15_initialised_attr_stable.

(** PARTIAL.  Full statement: a finalisation issued while the main thread runs on any worker
    terminates, with the main thread back on worker 0, every exit flag raised and all worker OS
    threads stopped.  Proved: when the migration loop exits the caller is on worker 0; after
    myth_notify_workers_exit every other worker's flag is 1; nothing is torn down before.
    Missing: that the loop exits (needs fairness of the schedule's choice of the worker that
    resumes the caller) and that the worker OS threads then stop (the scheduler loop and
    pthread_join are outside the model). *)
Theorem C15_fini_on_worker0_partial : forall n s, reachable (initial n) step s ->
  forall i t, nth_error (threads s) i = Some t ->
  (t_pc t = FFlags \/ t_pc t = FJoin -> t_rank t = Some 0) /\
  (t_pc t = FJoin -> st s = 2 /\ flags s = (-1) :: repeat 1 (Z.to_nat (nworkers s - 1))) /\
  (t_pc t = FMigrate \/ t_pc t = FFlags -> st s = 2 /\ flags s = start_flags (nworkers s) /\ n_really s = S (n_fini s)).
Proof. exact fini_on_worker0_partial. Qed.
Print Assumptions C15_fini_on_worker0_partial.

(** with the CAS replaced by a test followed by a store, two callers both initialise *)
Theorem C15_test_then_set_refuted : exists sched, ts_really (run_ts sched (ts_init 2)) = 2%nat.
Proof. exact test_then_set_refuted. Qed.
Print Assumptions C15_test_then_set_refuted.

(** ** implicit initialisation on first use, for the whole public API

    The table ([funcs], [entries]) is regenerated from the current sources on every run; the generated
    file build/C15/gen/InitTableCheck.v closes [init_table_ok known_unprotected funcs entries fuel = true] by
    vm_compute and instantiates this theorem (C15_init_table_current, C15_first_use_initialises).
    Read with C15_init_once: an ensure-init call returns only after the real initialisation completed. *)
Theorem C15_init_table_sound : forall exempt funcs entries fuel,
  init_table_ok exempt funcs entries fuel = true ->
  forall e, In e entries -> e_first e = true -> mem (e_name e) exempt = false ->
  exists body, lookup funcs (e_name e) = Some body /\
               (forall o, exec funcs body o -> o <> OBad) /\
               (classify funcs fuel (e_name e) = Safe true -> forall o, exec funcs body o -> o = OInit).
Proof. exact init_table_sound. Qed.
Print Assumptions C15_init_table_sound.

(** ** non-vacuity *)
Example C15_env_example :
  let d := {| d_stack := 131072; d_guard := 4096; d_bind := 1; d_cf := 1 |} in
  let ev := {| e_stksize := Some [45; 49]; e_guardsize := None; e_num_workers := Some [32; 43; 51; 120];
               e_worker_num := None; e_bind := Some [97]; e_child_first := None |} in
  good_defaults d /\
  globalattr_init d 16 ev = {| ga_stack := 131072; ga_guard := 4096; ga_nw := 3; ga_bind := 0; ga_cf := 1; ga_init := 1 |}.
Proof. split; [constructor; cbn; split; reflexivity|vm_compute; reflexivity]. Qed.

(** "0-3,7,10-20:5" and "0-4:0" *)
Example C15_cpulist_example :
  parse_cpu_list (Some [48;45;51;44;55;44;49;48;45;50;48;58;53]) 1024 = Val [0;1;2;7;10;15] /\
  (exists d, parse_cpu_list (Some [48;45;52;58;48]) 1024 = Err d /\ d_msg d = TooMany) /\
  list_text [48;45;51;44;55] [(0, 3, 1); (7, 8, 1)] /\
  is_expansion (10, 20, 5) [10; 15].
Proof.
  split; [vm_compute; reflexivity|]. split; [eexists; split; [vm_compute; reflexivity|reflexivity]|]. split.
  - exists [48;45;51], (0, 3, 1), [44;55], [(7, 8, 1)]. repeat split.
    + apply (RT_range [48] [51]); split; try discriminate; reflexivity.
    + apply (TT_cons [55] (7, 8, 1) [] []); [|constructor]. apply (RT_single [55]). split; try discriminate; reflexivity.
  - cbn. split; [reflexivity|]. split; [intros x [<-|[<-|[]]]; reflexivity|discriminate].
Qed.

(** three callers race for the first use; one initialises with 4 workers, all return 1;
    then the winner finalises after having migrated to worker 2 *)
Example C15_proto_example :
  let sched := [(0%nat, Call (OpInit (Some 4) 8)); (1%nat, Call (OpInit None 8)); (2%nat, Call (OpInit None 8));
                (0%nat, Tick); (1%nat, Tick); (2%nat, Tick); (1%nat, Tick); (0%nat, Tick); (2%nat, Tick);
                (1%nat, Tick); (1%nat, Tick); (0%nat, Tick); (2%nat, Tick); (1%nat, Tick); (0%nat, Tick); (2%nat, Tick)] in
  let s := run step sched (init_state 3) in
  (st s, nworkers s, n_cas s, n_really s, map (result s) [0%nat; 1%nat; 2%nat], rank_of s 1) =
  (2, 8, 1%nat, 1%nat, [Some 1; Some 1; Some 1], 0) /\
  let s2 := run step [(0%nat, Ret); (1%nat, Ret); (2%nat, Ret); (1%nat, Call (OpMove 2)); (1%nat, Ret);
                      (1%nat, Call OpFini); (1%nat, Tick); (1%nat, Tick); (1%nat, Mig 5); (1%nat, Mig 0);
                      (1%nat, Tick); (1%nat, Tick)] s in
  (result s2 1, rank_of s2 1, flags s2) = (None, 0, [-1; 1; 1; 1; 1; 1; 1; 1]).
Proof. vm_compute. split; reflexivity. Qed.
