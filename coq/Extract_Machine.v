From Coq Require Import ExtrOcamlBasic ZArith.
From MT Require Import Machine.MachineModel Machine.VictimModel.
Extraction Language OCaml.
Separate Extraction BinNums.N BinInt.Z.add BinInt.Z.mul BinInt.Z.opp BinInt.Z.div_eucl victim minit mmove places parked cur hand dq stat.
