(** The internal spin lock (src/myth_spinlock_func.h) and the sleep queue it protects
    (src/myth_sleep_queue_func.h, myth_sleep_queue_enq / _deq).

    Spin lock: one word [locked]; [myth_spin_lock_body] loops on [myth_spin_trylock_body]
    (POINT "spin.trylock": CAS 0 -> 1; on failure SPIN "spin.wait" and retry);
    [myth_spin_unlock_body] is POINT "spin.unlock": locked := 0.  One model step per POINT, any
    number of threads.

    Sleep queue: an intrusive singly linked FIFO with [head] and [tail] pointers and a [next] link
    in every item; enq and deq run entirely under the queue's spin lock.  The model keeps the
    pointers (items are numbers, [next] is an association list), so that a wrong link update is
    expressible; [qabs] is the abstraction to the list of items from head to tail.  The protocol
    models (coq/Sync, coq/JoinCounter, ...) use that list with enq / deq as single steps, which is
    what the two theorems of Spin/SpinProofs.v (mutual exclusion of the lock; enq / deq implement
    FIFO append / take-head on [qabs]) justify. *)
From Coq Require Import List Bool Arith.
Import ListNotations.

(* ------------------------------------------------------------------ spin lock *)
Inductive spc := SIdle | STry | SHeld | SUnlock.

Record sstate := { locked : bool; sthr : list spc }.

Inductive sev := SCallLock | SCallTry | SCallUnlock | STick | SRet.

Fixpoint upd {A} (l : list A) (i : nat) (x : A) : list A :=
  match l, i with
  | [], _ => []
  | _ :: r, O => x :: r
  | y :: r, S j => y :: upd r j x
  end.

Definition sinit (n : nat) : sstate := {| locked := false; sthr := repeat SIdle n |}.

(** [STry]: about to execute the CAS of trylock (lock() retries it until it succeeds);
    [SHeld]: holds the lock; [SUnlock]: about to execute the unlocking store. *)
Definition sstep (s : sstate) (a : nat * sev) : option sstate :=
  let (t, e) := a in
  match nth_error (sthr s) t with
  | None => None
  | Some p =>
    match e, p with
    | SCallLock, SIdle => Some {| locked := locked s; sthr := upd (sthr s) t STry |}
    | STick, STry =>
        if locked s then Some s                                  (* CAS fails: spin, retry *)
        else Some {| locked := true; sthr := upd (sthr s) t SHeld |}
    | SCallUnlock, SHeld => Some {| locked := locked s; sthr := upd (sthr s) t SUnlock |}
    | STick, SUnlock => Some {| locked := false; sthr := upd (sthr s) t SIdle |}
    | _, _ => None
    end
  end.

Definition holder (p : spc) : bool := match p with SHeld | SUnlock => true | _ => false end.
Definition nholders (s : sstate) : nat := length (filter holder (sthr s)).

(* ------------------------------------------------------------------ sleep queue *)
Record squeue := { qhead : option nat; qtail : option nat; qnext : list (nat * option nat) }.

Definition qempty : squeue := {| qhead := None; qtail := None; qnext := [] |}.

Fixpoint lookup (l : list (nat * option nat)) (x : nat) : option nat :=
  match l with
  | [] => None
  | (y, n) :: r => if Nat.eqb x y then n else lookup r x
  end.

Definition set_next (l : list (nat * option nat)) (x : nat) (n : option nat) := (x, n) :: l.

(** myth_sleep_queue_enq: t->next = 0; if (tail) tail->next = t; else head = t; tail = t; *)
Definition enq (q : squeue) (t : nat) : squeue :=
  let nx := set_next (qnext q) t None in
  match qtail q with
  | Some tl => {| qhead := qhead q; qtail := Some t; qnext := set_next nx tl (Some t) |}
  | None => {| qhead := Some t; qtail := Some t; qnext := nx |}
  end.

(** myth_sleep_queue_deq: head = q->head; if (head) { next = head->next; q->head = next;
    if (!next) q->tail = 0; } return head; *)
Definition deq (q : squeue) : squeue * option nat :=
  match qhead q with
  | None => (q, None)
  | Some h =>
      let n := lookup (qnext q) h in
      ({| qhead := n; qtail := (match n with None => None | Some _ => qtail q end); qnext := qnext q |}, Some h)
  end.

(** the list of items from [x] following [next], at most [fuel] of them *)
Fixpoint walk (nx : list (nat * option nat)) (x : option nat) (fuel : nat) : list nat :=
  match fuel, x with
  | S f, Some y => y :: walk nx (lookup nx y) f
  | _, _ => []
  end.

(** abstraction used by the correspondence run: walk from the head (bounded by the number of
    link updates ever made, which bounds the length of any acyclic chain) *)
Definition qabs (q : squeue) : list nat := walk (qnext q) (qhead q) (S (length (qnext q))).

Inductive qop := QEnq (t : nat) | QDeq.

(** run a history of operations; returns the final queue and the values dequeued, oldest first *)
Fixpoint qrun (q : squeue) (ops : list qop) : squeue * list (option nat) :=
  match ops with
  | [] => (q, [])
  | QEnq t :: r => qrun (enq q t) r
  | QDeq :: r => let (q', v) := deq q in let (q'', vs) := qrun q' r in (q'', v :: vs)
  end.
