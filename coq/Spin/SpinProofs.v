(** Proofs about the spin lock and the sleep queue (see Spin/SpinModel.v). *)
From Coq Require Import List Bool Arith Lia.
From MT Require Import Lib.Interleave Spin.SpinModel.
Import ListNotations.

(* ------------------------------------------------------------------ spin lock *)
Lemma filter_upd_len {A} (f : A -> bool) l i x y :
  nth_error l i = Some y ->
  length (filter f (upd l i x)) + (if f y then 1 else 0) = length (filter f l) + (if f x then 1 else 0).
Proof.
  revert i; induction l as [|z l IH]; intros i H.
  - destruct i; discriminate H.
  - destruct i as [|i]; cbn [upd filter].
    + cbn in H. injection H as ->. destruct (f y), (f x); cbn [length]; lia.
    + cbn in H. specialize (IH i H). destruct (f z); cbn [length]; lia.
Qed.

Definition SInv (s : sstate) : Prop :=
  nholders s = (if locked s then 1 else 0).

Lemma sstep_inv s a s' : SInv s -> sstep s a = Some s' -> SInv s'.
Proof.
  unfold SInv, sstep, nholders. destruct a as [t e]. intros HI.
  destruct (nth_error (sthr s) t) as [p|] eqn:E; [|discriminate].
  destruct e, p; try discriminate; intros H.
  - (* lock called *)
    injection H as <-. cbn [locked sthr]. pose proof (filter_upd_len holder _ _ STry _ E) as F. cbn [holder] in F. lia.
  - (* unlock called *)
    injection H as <-. cbn [locked sthr]. pose proof (filter_upd_len holder _ _ SUnlock _ E) as F. cbn [holder] in F. lia.
  - (* the CAS *)
    destruct (locked s) eqn:L.
    + injection H as <-. rewrite L. exact HI.
    + injection H as <-. cbn [locked sthr]. pose proof (filter_upd_len holder _ _ SHeld _ E) as F. cbn [holder] in F. lia.
  - (* the unlocking store *)
    injection H as <-. cbn [locked sthr]. pose proof (filter_upd_len holder _ _ SIdle _ E) as F. cbn [holder] in F.
    destruct (locked s); lia.
Qed.

Lemma filter_repeat_nil {A} (f : A -> bool) x n : f x = false -> filter f (repeat x n) = [].
Proof. intros H; induction n as [|n IH]; cbn [repeat filter]; [reflexivity | rewrite H; exact IH]. Qed.

Lemma sinit_inv n : SInv (sinit n).
Proof. unfold SInv, sinit, nholders; cbn [locked sthr]. rewrite filter_repeat_nil by reflexivity. reflexivity. Qed.

(** every schedule, any number of threads: the number of threads between a successful
    trylock CAS and their unlocking store equals the lock word, hence is at most one *)
Theorem spin_mutual_exclusion n (sched : list (nat * sev)) :
  let s := run sstep sched (sinit n) in
  nholders s = (if locked s then 1 else 0) /\ nholders s <= 1.
Proof.
  intros s.
  assert (H : SInv s).
  { apply (run_invariant (fun s0 => s0 = sinit n) sstep SInv).
    - intros s0 ->. apply sinit_inv.
    - intros s0 a s1. apply sstep_inv.
    - reflexivity. }
  split; [exact H|]. unfold SInv in H. destruct (locked s); lia.
Qed.

(** two distinct threads are never both holders *)
Lemma count_two {A} (f : A -> bool) l i j x y :
  i <> j -> nth_error l i = Some x -> nth_error l j = Some y -> f x = true -> f y = true ->
  2 <= length (filter f l).
Proof.
  revert i j; induction l as [|z l IH]; intros i j Hne Hi Hj Hx Hy.
  - destruct i; discriminate Hi.
  - destruct i as [|i], j as [|j]; cbn in Hi, Hj; cbn [filter].
    + congruence.
    + injection Hi as ->. rewrite Hx. cbn [length].
      assert (1 <= length (filter f l)).
      { clear IH Hne. revert j Hj. induction l as [|w l IH2]; intros j Hj; [destruct j; discriminate|].
        destruct j as [|j]; cbn in Hj; cbn [filter].
        - injection Hj as ->. rewrite Hy. cbn; lia.
        - specialize (IH2 j Hj). destruct (f w); cbn [length]; lia. }
      lia.
    + injection Hj as ->. rewrite Hy. cbn [length].
      assert (1 <= length (filter f l)).
      { clear IH Hne. revert i Hi. induction l as [|w l IH2]; intros i Hi; [destruct i; discriminate|].
        destruct i as [|i]; cbn in Hi; cbn [filter].
        - injection Hi as ->. rewrite Hx. cbn; lia.
        - specialize (IH2 i Hi). destruct (f w); cbn [length]; lia. }
      lia.
    + assert (i <> j) by congruence. specialize (IH i j H Hi Hj Hx Hy). destruct (f z); cbn [length]; lia.
Qed.

Theorem spin_no_two_holders n (sched : list (nat * sev)) i j pi pj :
  let s := run sstep sched (sinit n) in
  i <> j -> nth_error (sthr s) i = Some pi -> nth_error (sthr s) j = Some pj ->
  holder pi = true -> holder pj = true -> False.
Proof.
  intros s Hne Hi Hj Hpi Hpj.
  destruct (spin_mutual_exclusion n sched) as [_ H]. fold s in H.
  pose proof (count_two holder (sthr s) i j pi pj Hne Hi Hj Hpi Hpj) as H2. unfold nholders in H. lia.
Qed.

(* ------------------------------------------------------------------ sleep queue *)
Fixpoint chain (nx : list (nat * option nat)) (l : list nat) : Prop :=
  match l with
  | [] => True
  | x :: r => match r with
              | [] => lookup nx x = None
              | y :: _ => lookup nx x = Some y /\ chain nx r
              end
  end.

Definition last_error (l : list nat) : option nat :=
  match rev l with [] => None | x :: _ => Some x end.

(** [q] represents the FIFO [l] *)
Definition Rep (q : squeue) (l : list nat) : Prop :=
  NoDup l /\ qhead q = hd_error l /\ qtail q = last_error l /\ chain (qnext q) l /\
  length l <= S (length (qnext q)).

Lemma last_error_app l x : last_error (l ++ [x]) = Some x.
Proof. unfold last_error. rewrite rev_app_distr. reflexivity. Qed.

Lemma last_error_cons x y r : last_error (x :: y :: r) = last_error (y :: r).
Proof.
  unfold last_error. cbn [rev]. destruct (rev r ++ [y]) eqn:E.
  - destruct (rev r); discriminate E.
  - reflexivity.
Qed.

Lemma last_in l x : last_error l = Some x -> In x l.
Proof.
  unfold last_error. destruct (rev l) as [|y r] eqn:E; [discriminate|].
  intros H; injection H as ->. apply in_rev. rewrite E. left; reflexivity.
Qed.

(** a chain is unaffected by a new binding for an item outside it *)
Lemma chain_frame nx l z v : ~ In z l -> chain nx l -> chain ((z, v) :: nx) l.
Proof.
  induction l as [|x r IH]; intros Hz Hc; [exact I|].
  assert (Hx : Nat.eqb x z = false) by (apply Nat.eqb_neq; intros ->; apply Hz; left; reflexivity).
  cbn [chain] in *. destruct r as [|y r'].
  - cbn [lookup]. rewrite Hx. exact Hc.
  - destruct Hc as [H1 H2]. split.
    + cbn [lookup]. rewrite Hx. exact H1.
    + apply IH; [intros H; apply Hz; right; exact H | exact H2].
Qed.

Lemma chain_append nx l tl t :
  NoDup l -> last_error l = Some tl -> ~ In t l -> chain nx l ->
  chain ((tl, Some t) :: (t, None) :: nx) (l ++ [t]).
Proof.
  induction l as [|x r IH]; intros Hnd Hl Ht Hc; [discriminate Hl|].
  destruct r as [|y r'].
  - (* l = [x], tl = x *)
    unfold last_error in Hl; cbn in Hl. injection Hl as <-.
    cbn [app chain lookup]. rewrite Nat.eqb_refl. split; [reflexivity|].
    assert (Nat.eqb t x = false) by (apply Nat.eqb_neq; intros ->; apply Ht; left; reflexivity).
    rewrite H, Nat.eqb_refl. reflexivity.
  - rewrite last_error_cons in Hl.
    cbn [chain] in Hc. destruct Hc as [H1 H2].
    inversion Hnd as [|? ? Hx Hnd']; subst.
    assert (Hxt : Nat.eqb x t = false) by (apply Nat.eqb_neq; intros ->; apply Ht; left; reflexivity).
    assert (Hxtl : Nat.eqb x tl = false).
    { apply Nat.eqb_neq; intros ->. apply Hx. apply last_in. exact Hl. }
    change ((x :: y :: r') ++ [t]) with (x :: (y :: r') ++ [t]).
    cbn [chain]. change ((y :: r') ++ [t]) with (y :: (r' ++ [t])) at 1.
    split.
    + cbn [lookup]. rewrite Hxtl, Hxt. exact H1.
    + apply IH; [exact Hnd' | exact Hl | intros H; apply Ht; right; exact H | exact H2].
Qed.

Lemma NoDup_snoc (l : list nat) t : NoDup l -> ~ In t l -> NoDup (l ++ [t]).
Proof.
  induction l as [|x r IH]; intros Hnd Ht; cbn [app].
  - constructor; [intros []|constructor].
  - inversion Hnd as [|? ? Hx Hnd']; subst. constructor.
    + intros Hin. apply in_app_or in Hin as [Hin|[<-|[]]]; [exact (Hx Hin)|]. apply Ht. left; reflexivity.
    + apply IH; [exact Hnd' | intros H; apply Ht; right; exact H].
Qed.

Theorem enq_fifo q l t : Rep q l -> ~ In t l -> Rep (enq q t) (l ++ [t]).
Proof.
  intros (Hnd & Hh & Htl & Hc & Hlen) Ht. unfold enq.
  destruct (qtail q) as [tl|] eqn:Et.
  - assert (Hl : last_error l = Some tl) by (rewrite <- Htl; reflexivity).
    assert (l <> []) by (intros ->; discriminate Hl).
    repeat split; cbn [qhead qtail qnext].
    + apply NoDup_snoc; [exact Hnd | exact Ht].
    + rewrite Hh. destruct l; [contradiction|reflexivity].
    + rewrite last_error_app. reflexivity.
    + unfold set_next. apply chain_append; assumption.
    + unfold set_next. rewrite app_length. cbn [length]. lia.
  - assert (l = []).
    { destruct l as [|x r]; [reflexivity|]. exfalso.
      assert (exists y, last_error (x :: r) = Some y) as [y Hy].
      { unfold last_error. destruct (rev (x :: r)) eqn:E; [|eauto].
        apply (f_equal (@length nat)) in E. rewrite rev_length in E. discriminate E. }
      rewrite Hy in Htl. discriminate Htl. }
    subst l. cbn [app]. repeat split; cbn [qhead qtail qnext hd_error].
    + constructor; [intros []|constructor].
    + unfold set_next. cbn [chain lookup]. rewrite Nat.eqb_refl. reflexivity.
    + cbn [length]. lia.
Qed.

Theorem deq_fifo q l : Rep q l -> fst (deq q) = fst (deq q) /\ snd (deq q) = hd_error l /\ Rep (fst (deq q)) (tl l).
Proof.
  intros (Hnd & Hh & Htl & Hc & Hlen). split; [reflexivity|]. unfold deq. rewrite Hh.
  destruct l as [|x r]; cbn [hd_error tl fst snd].
  - split; [reflexivity|]. repeat split; try assumption.
  - split; [reflexivity|].
    inversion Hnd as [|? ? Hx Hnd']; subst.
    destruct r as [|y r'].
    + cbn [chain] in Hc. rewrite Hc. repeat split; cbn [qhead qtail qnext hd_error]; try constructor.
      cbn [length]. lia.
    + cbn [chain] in Hc. destruct Hc as [H1 H2]. rewrite H1.
      repeat split; cbn [qhead qtail qnext hd_error].
      * exact Hnd'.
      * rewrite Htl. apply last_error_cons.
      * exact H2.
      * cbn [length] in *. lia.
Qed.

Lemma rep_empty : Rep qempty [].
Proof. unfold Rep, qempty; cbn. repeat split; try constructor; lia. Qed.

(** walking from the head reproduces the represented list *)
Lemma walk_chain nx l fuel : chain nx l -> length l <= fuel -> walk nx (hd_error l) fuel = l.
Proof.
  revert fuel; induction l as [|x r IH]; intros fuel Hc Hf.
  - destruct fuel; reflexivity.
  - destruct fuel as [|f]; [cbn in Hf; lia|]. cbn [hd_error walk]. f_equal.
    cbn [chain] in Hc. destruct r as [|y r'].
    + rewrite Hc. destruct f; reflexivity.
    + destruct Hc as [H1 H2]. rewrite H1. apply (IH f H2). cbn [length] in *. lia.
Qed.

Theorem qabs_rep q l : Rep q l -> qabs q = l.
Proof.
  intros (_ & Hh & _ & Hc & Hlen). unfold qabs. rewrite Hh. apply walk_chain; assumption.
Qed.

(** specification of a history: the abstract FIFO *)
Fixpoint spec_run (l : list nat) (ops : list qop) : list nat * list (option nat) :=
  match ops with
  | [] => (l, [])
  | QEnq t :: r => spec_run (l ++ [t]) r
  | QDeq :: r => let (l'', vs) := spec_run (tl l) r in (l'', hd_error l :: vs)
  end.

(** a history is well formed if nothing is enqueued while it is already in the queue (an item has
    one [next] field: the library enqueues a thread only after it has left every queue) *)
Fixpoint wf_hist (l : list nat) (ops : list qop) : Prop :=
  match ops with
  | [] => True
  | QEnq t :: r => ~ In t l /\ wf_hist (l ++ [t]) r
  | QDeq :: r => wf_hist (tl l) r
  end.

Theorem queue_refines_fifo ops : forall q l, Rep q l -> wf_hist l ops ->
  snd (qrun q ops) = snd (spec_run l ops) /\ Rep (fst (qrun q ops)) (fst (spec_run l ops)).
Proof.
  induction ops as [|o r IH]; intros q l HR Hw.
  - cbn. split; [reflexivity|exact HR].
  - destruct o as [t|]; cbn [qrun spec_run wf_hist] in *.
    + destruct Hw as [Ht Hw]. apply IH; [apply enq_fifo; assumption | exact Hw].
    + destruct (deq_fifo q l HR) as (_ & Hv & HR').
      destruct (deq q) as [q' v] eqn:Ed. cbn [fst snd] in Hv, HR'.
      specialize (IH q' (tl l) HR' Hw).
      destruct (qrun q' r) as [q'' vs]. destruct (spec_run (tl l) r) as [l'' vs'].
      cbn [fst snd] in *. destruct IH as [-> HR'']. split; [rewrite Hv; reflexivity | exact HR''].
Qed.
