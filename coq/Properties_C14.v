(** C14 - myth_once runs the initialiser exactly once and everyone waits for it.
    Statements only; every proof is [exact] of a lemma of Once/OnceProofs.v.

    [reach s] = s is reachable in the transition system of Once/OnceModel.v from [init_state n] for
    SOME number of threads n by ANY sequence of steps [(t, e)]: calls by any idle thread at any time,
    main-activity steps, init-routine events (begin, any number of opaque steps, end) and returns, in
    any order - every number of callers, every schedule, every init length. *)
From Coq Require Import ZArith List Bool String.
From MT Require Import Lib.Interleave Once.OnceModel Once.OnceProofs.
From MT Require Machine.MachineModel Machine.MachineProofs.
From MT Require Import Once.OnceMachine Once.OnceMachineProofs.
Import ListNotations.
Local Open Scope Z_scope.

Theorem C14_every_schedule : forall n sched, reach (run step sched (init_state n)).
Proof. exact every_schedule_reach. Qed.
Print Assumptions C14_every_schedule.

Theorem C14_reach_is_run : forall s, reach s -> exists n sched, run step sched (init_state n) = s.
Proof. exact reach_is_run. Qed.
Print Assumptions C14_reach_is_run.

(** the init routine is begun at most once, and exactly once (and completed) as soon as any caller has
    returned or stands at its return point *)
Theorem C14_runs_once : forall s, reach s ->
  (runs s <= 1)%nat /\ (fins s <= runs s)%nat /\
  (((0 < rets s)%nat \/ exists t x r, thr_at s t x /\ main x = Done r) ->
   runs s = 1%nat /\ fins s = 1%nat).
Proof. exact runs_once. Qed.
Print Assumptions C14_runs_once.

(** a return implies state = completed and the single execution has ended ... *)
Theorem C14_return_after_complete : forall s t v s', reach s -> step s (t, ERet v) = Some s' ->
  v = 0 /\ word s = 2 /\ runs s = 1%nat /\ fins s = 1%nat /\ word s' = 2 /\ rets s' = S (rets s).
Proof. exact ret_after_complete. Qed.
Print Assumptions C14_return_after_complete.

Theorem C14_done_after_complete : forall s t x r, reach s -> thr_at s t x -> main x = Done r ->
  r = 0 /\ word s = 2 /\ runs s = 1%nat /\ fins s = 1%nat.
Proof. exact done_after_complete. Qed.
Print Assumptions C14_done_after_complete.

(** ... and completed is set only by the runner's once.done step, after the last step of the script;
    in progress is set only by the winning CAS; nothing else ever changes the word *)
Theorem C14_state_changes : forall s t e s', reach s -> step s (t, e) = Some s' -> word s' <> word s ->
  e = ETick /\ exists me, thr_at s t me /\
  ((word s = 0 /\ word s' = 1 /\ main me = Cas /\ thr_at s' t {| main := InitPre |} /\ runs s = 0%nat) \/
   (word s = 1 /\ word s' = 2 /\ main me = AtDone /\ thr_at s' t {| main := Done 0 |} /\
    runs s = 1%nat /\ fins s = 1%nat)).
Proof. exact word_changes. Qed.
Print Assumptions C14_state_changes.

(** from completed: no CAS succeeds, the script is never run, the control stays completed, and a
    caller moves call -> once.read -> once.wait.read -> return without ever waiting *)
Theorem C14_later_calls_immediate : forall s t e s', reach s -> word s = 2 -> step s (t, e) = Some s' ->
  word s' = 2 /\ runs s' = runs s /\ fins s' = fins s /\
  (forall u, u <> t -> nth_error (thr s') u = nth_error (thr s) u) /\
  exists x x', thr_at s t x /\ thr_at s' t x' /\
    ((main x = Idle /\ e = ECall /\ main x' = Read) \/
     (main x = Read /\ e = ETick /\ main x' = WaitRead) \/
     (main x = Cas /\ e = ETick /\ main x' = WaitRead) \/
     (main x = WaitRead /\ e = ETick /\ main x' = Done 0) \/
     (main x = Done 0 /\ e = ERet 0 /\ main x' = Idle /\ rets s' = S (rets s))).
Proof. exact completed_steps. Qed.
Print Assumptions C14_later_calls_immediate.

Theorem C14_later_call_path : forall s t, reach s -> word s = 2 -> thr_at s t {| main := Idle |} ->
  exists s1 s2 s3,
    step s (t, ECall) = Some s1 /\ label s1 t = "once.read"%string /\
    step s1 (t, ETick) = Some s2 /\ label s2 t = "once.wait.read"%string /\
    step s2 (t, ETick) = Some s3 /\ label s3 t = ""%string /\
    step s3 (t, ERet 0) =
      Some {| word := word s; thr := thr s; runs := runs s; fins := fins s; rets := S (rets s) |}.
Proof. exact later_call_path. Qed.
Print Assumptions C14_later_call_path.

(** safety form of "no caller is stuck": while the control is in progress the runner exists, is
    unique and is about to enter, inside, or about to leave the init routine; nobody has returned; a
    thread in the wait loop implies the CAS has been won; the runner's remaining steps are always
    enabled and end in completed *)
Theorem C14_no_caller_stuck : forall s, reach s -> word s = 1 ->
  exists t x, thr_at s t x /\ runner x = true /\
    (forall u z, thr_at s u z -> runner z = true -> u = t) /\ rets s = 0%nat.
Proof. exact in_progress_runner. Qed.
Print Assumptions C14_no_caller_stuck.

Theorem C14_runner_in_progress : forall s t x, reach s -> thr_at s t x -> runner x = true ->
  word s = 1 /\ runs s = b2n (started x) /\ fins s = b2n (finished x).
Proof. exact runner_means_in_progress. Qed.
Print Assumptions C14_runner_in_progress.

Theorem C14_waiter_not_in_vain : forall s t x, reach s -> thr_at s t x -> main x = WaitRead ->
  word s = 1 \/ word s = 2.
Proof. exact waiter_not_in_vain. Qed.
Print Assumptions C14_waiter_not_in_vain.

Theorem C14_runner_completes : forall s, reach s -> word s = 1 ->
  exists t, word (run step [(t, EInitBegin); (t, EInitEnd); (t, ETick)] s) = 2.
Proof. exact runner_completes. Qed.
Print Assumptions C14_runner_completes.

(** ---- non-vacuity ---- *)
Local Close Scope Z_scope.

(** threads 0 and 1 both read 0; 0 wins the CAS, runs an init routine of two steps while 1 fails its CAS
    and polls; 1 returns only after 0's once.done; thread 2 calls afterwards and returns at once *)
Example C14_example :
  run step [(0, ECall); (1, ECall); (0, ETick); (1, ETick); (0, ETick); (1, ETick); (0, EInitBegin);
            (1, ETick); (0, EInitStep); (0, EInitStep); (0, EInitEnd); (1, ETick); (0, ETick); (1, ETick);
            (0, ERet 0%Z); (1, ERet 0%Z); (2, ECall); (2, ETick); (2, ETick); (2, ERet 0%Z)] (init_state 3) =
  {| word := 2%Z; thr := [ {| main := Idle |}; {| main := Idle |}; {| main := Idle |} ];
     runs := 1; fins := 1; rets := 3 |}.
Proof. vm_compute. reflexivity. Qed.

(** in the middle of that run: in progress, thread 0 inside the routine, thread 1 in the wait loop, its
    return not enabled *)
Example C14_example_in_progress :
  let s := run step [(0, ECall); (1, ECall); (0, ETick); (1, ETick); (0, ETick); (1, ETick); (0, EInitBegin);
                     (1, ETick); (0, EInitStep)] (init_state 3) in
  s = {| word := 1%Z; thr := [ {| main := InInit |}; {| main := WaitRead |}; {| main := Idle |} ];
         runs := 1; fins := 0; rets := 0 |} /\
  step s (1, ERet 0%Z) = None /\ step s (1, EInitBegin) = None /\ step s (2, EInitStep) = None.
Proof. vm_compute. repeat split; reflexivity. Qed.

(** ---- "1..N workers": the once protocol composed with the scheduler-level machine (coq/Machine) ----
    Once/OnceMachine.v: every once step is an own-context step of the thread that is current on a worker
    ([cur w = Run t]); a waiter's myth_yield is the machine's yield sequence [PopOwn; SaveCtx; PutBase; EndCb]. *)

(** (a) a waiter that polls a control in progress gives the worker to the newest queued thread [x] and goes to
    the BASE of the queue, below everything that was queued: in particular below the initialiser if it is queued
    on that worker; nothing else changes ... *)
Theorem C14_waiter_gives_way : forall s w t r x, MachineProofs.Inv (ms s) ->
  nth_error (MachineModel.cur (ms s)) w = Some (MachineModel.Run t) ->
  nth_error (MachineModel.hand (ms s)) w = Some None ->
  nth_error (MachineModel.dq (ms s)) w = Some (r ++ [x]) ->
  thr_at (os s) t {| main := WaitRead |} -> word (os s) <> 2%Z ->
  prun s (poll w) =
    Some {| os := os s;
            ms := {| MachineModel.cur := MachineModel.upd (MachineModel.cur (ms s)) w (MachineModel.Run x);
                     MachineModel.hand := MachineModel.hand (ms s);
                     MachineModel.dq := MachineModel.upd (MachineModel.dq (ms s)) w (t :: r);
                     MachineModel.stat := MachineModel.stat (ms s) |} |}.
Proof. exact waiter_gives_way. Qed.
Print Assumptions C14_waiter_gives_way.

(** ... and the owner takes from the top: as long as anything is queued above the waiter [t], the next thread the
    worker takes is that one, not [t] - so everything queued before the poll (the initialiser included) runs, or
    is stolen, before the waiter polls again on this worker *)
Theorem C14_owner_pops_above_base : forall m w c t r y,
  nth_error (MachineModel.cur m) w = Some c -> (forall u, c <> MachineModel.Cb u) ->
  nth_error (MachineModel.hand m) w = Some None ->
  nth_error (MachineModel.dq m) w = Some (t :: r ++ [y]) ->
  MachineModel.mmove m w MachineModel.PopOwn =
    Some (MachineModel.set_hand (MachineModel.set_dq m w (t :: r)) w (Some y)).
Proof. exact owner_pops_above_base. Qed.
Print Assumptions C14_owner_pops_above_base.

(** (b) ONE worker, k waiters and an initialiser whose routine yields j times (thread 0 current, threads 1..k
    queued, everybody about to call once; [drive] = the deterministic execution of that program): within
    [bound k j = (k+1)(j+5) + j + 8] driver steps everything has completed - control completed, routine run
    exactly once, all k+1 calls returned, every thread finished, worker idle with an empty queue.  For every k
    and every j: the round-robin of the base-insertion discipline reaches the initialiser once per round. *)
Theorem C14_one_worker_terminates : forall k j,
  exists n d, n <= bound k j /\ drive n (dstart k j) = Some d /\
    MachineModel.cur (ms (ps d)) = [MachineModel.Sched] /\ MachineModel.hand (ms (ps d)) = [None] /\
    MachineModel.dq (ms (ps d)) = [[]] /\
    word (os (ps d)) = 2%Z /\ runs (os (ps d)) = 1 /\ fins (os (ps d)) = 1 /\ rets (os (ps d)) = S k.
Proof. exact one_worker_terminates. Qed.
Print Assumptions C14_one_worker_terminates.

(** the same as a schedule of the product: at most 5 actions per driver step, every action enabled *)
Theorem C14_one_worker_schedule : forall k j,
  exists sched p, List.length sched <= 5 * bound k j /\ prun (ps (dstart k j)) sched = Some p /\
    MachineModel.cur (ms p) = [MachineModel.Sched] /\ MachineModel.dq (ms p) = [[]] /\
    word (os p) = 2%Z /\ runs (os p) = 1 /\ fins (os p) = 1 /\ rets (os p) = S k.
Proof. exact one_worker_schedule. Qed.
Print Assumptions C14_one_worker_schedule.

(** non-vacuity: two waiters and a routine that yields once complete in exactly 22 driver steps (bound 27);
    after 12 steps the initialiser (thread 0) is current again, inside its routine, the waiters queued *)
Example C14_one_worker_example :
  bound 2 1 = 27 /\
  (exists d, drive 22 (dstart 2 1) = Some d /\ MachineModel.cur (ms (ps d)) = [MachineModel.Sched] /\
             word (os (ps d)) = 2%Z /\ rets (os (ps d)) = 3) /\
  (exists d, drive 12 (dstart 2 1) = Some d /\ MachineModel.cur (ms (ps d)) = [MachineModel.Run 0] /\
             MachineModel.dq (ms (ps d)) = [[1; 2]] /\ word (os (ps d)) = 1%Z /\ jrem d = 0).
Proof. vm_compute. repeat split; eexists; repeat split; reflexivity. Qed.

(** a state that satisfies the hypotheses of [C14_waiter_gives_way]: one worker, waiter 2 current, the
    initialiser 0 (inside its routine) and waiter 1 queued; after the poll 1 runs and 2 is at the base *)
Example C14_gives_way_example :
  let s := {| os := {| word := 1%Z; thr := [ {| main := InInit |}; {| main := WaitRead |}; {| main := WaitRead |} ];
                       runs := 1; fins := 0; rets := 0 |};
              ms := {| MachineModel.cur := [MachineModel.Run 2]; MachineModel.hand := [None];
                       MachineModel.dq := [[0; 1]];
                       MachineModel.stat := [MachineModel.Live; MachineModel.Live; MachineModel.Live] |} |} in
  MachineProofs.Inv (ms s) /\
  prun s (poll 0) =
    Some {| os := os s;
            ms := {| MachineModel.cur := [MachineModel.Run 1]; MachineModel.hand := [None];
                     MachineModel.dq := [[2; 0]];
                     MachineModel.stat := [MachineModel.Live; MachineModel.Live; MachineModel.Live] |} |}.
Proof.
  split; [|vm_compute; reflexivity].
  intros t. do 3 (destruct t as [|t]; [vm_compute; split; [repeat constructor | discriminate]|]).
  vm_compute. split; [repeat constructor | reflexivity].
Qed.
