(** C14 - myth_once runs the initialiser exactly once and everyone waits for it.
    Statements only; every proof is [exact] of a lemma of Once/OnceProofs.v.

    [reach s] = s is reachable in the transition system of Once/OnceModel.v from [init_state n] for
    SOME number of threads n by ANY sequence of steps [(t, e)]: calls by any idle thread at any time,
    main-activity steps, init-routine events (begin, any number of opaque steps, end) and returns, in
    any order - every number of callers, every schedule, every init length. *)
From Coq Require Import ZArith List Bool String.
From MT Require Import Lib.Interleave Once.OnceModel Once.OnceProofs.
Import ListNotations.
Local Open Scope Z_scope.

Theorem C14_every_schedule : forall n sched, reach (run step sched (init_state n)).
Proof. exact every_schedule_reach. Qed.
Print Assumptions C14_every_schedule.

Theorem C14_reach_is_run : forall s, reach s -> exists n sched, run step sched (init_state n) = s.
Proof. exact reach_is_run. Qed.
Print Assumptions C14_reach_is_run.

(** the init routine is begun at most once, and exactly once (and completed) as soon as any caller has
    returned or stands at its return point *)
Theorem C14_runs_once : forall s, reach s ->
  (runs s <= 1)%nat /\ (fins s <= runs s)%nat /\
  (((0 < rets s)%nat \/ exists t x r, thr_at s t x /\ main x = Done r) ->
   runs s = 1%nat /\ fins s = 1%nat).
Proof. exact runs_once. Qed.
Print Assumptions C14_runs_once.

(** a return implies state = completed and the single execution has ended ... *)
Theorem C14_return_after_complete : forall s t v s', reach s -> step s (t, ERet v) = Some s' ->
  v = 0 /\ word s = 2 /\ runs s = 1%nat /\ fins s = 1%nat /\ word s' = 2 /\ rets s' = S (rets s).
Proof. exact ret_after_complete. Qed.
Print Assumptions C14_return_after_complete.

Theorem C14_done_after_complete : forall s t x r, reach s -> thr_at s t x -> main x = Done r ->
  r = 0 /\ word s = 2 /\ runs s = 1%nat /\ fins s = 1%nat.
Proof. exact done_after_complete. Qed.
Print Assumptions C14_done_after_complete.

(** ... and completed is set only by the runner's once.done step, after the last step of the script;
    in progress is set only by the winning CAS; nothing else ever changes the word *)
Theorem C14_state_changes : forall s t e s', reach s -> step s (t, e) = Some s' -> word s' <> word s ->
  e = ETick /\ exists me, thr_at s t me /\
  ((word s = 0 /\ word s' = 1 /\ main me = Cas /\ thr_at s' t {| main := InitPre |} /\ runs s = 0%nat) \/
   (word s = 1 /\ word s' = 2 /\ main me = AtDone /\ thr_at s' t {| main := Done 0 |} /\
    runs s = 1%nat /\ fins s = 1%nat)).
Proof. exact word_changes. Qed.
Print Assumptions C14_state_changes.

(** from completed: no CAS succeeds, the script is never run, the control stays completed, and a
    caller moves call -> once.read -> once.wait.read -> return without ever waiting *)
Theorem C14_later_calls_immediate : forall s t e s', reach s -> word s = 2 -> step s (t, e) = Some s' ->
  word s' = 2 /\ runs s' = runs s /\ fins s' = fins s /\
  (forall u, u <> t -> nth_error (thr s') u = nth_error (thr s) u) /\
  exists x x', thr_at s t x /\ thr_at s' t x' /\
    ((main x = Idle /\ e = ECall /\ main x' = Read) \/
     (main x = Read /\ e = ETick /\ main x' = WaitRead) \/
     (main x = Cas /\ e = ETick /\ main x' = WaitRead) \/
     (main x = WaitRead /\ e = ETick /\ main x' = Done 0) \/
     (main x = Done 0 /\ e = ERet 0 /\ main x' = Idle /\ rets s' = S (rets s))).
Proof. exact completed_steps. Qed.
Print Assumptions C14_later_calls_immediate.

Theorem C14_later_call_path : forall s t, reach s -> word s = 2 -> thr_at s t {| main := Idle |} ->
  exists s1 s2 s3,
    step s (t, ECall) = Some s1 /\ label s1 t = "once.read"%string /\
    step s1 (t, ETick) = Some s2 /\ label s2 t = "once.wait.read"%string /\
    step s2 (t, ETick) = Some s3 /\ label s3 t = ""%string /\
    step s3 (t, ERet 0) =
      Some {| word := word s; thr := thr s; runs := runs s; fins := fins s; rets := S (rets s) |}.
Proof. exact later_call_path. Qed.
Print Assumptions C14_later_call_path.

(** safety form of "no caller is stuck": while the control is in progress the runner exists, is
    unique and is about to enter, inside, or about to leave the init routine; nobody has returned; a
    thread in the wait loop implies the CAS has been won; the runner's remaining steps are always
    enabled and end in completed *)
Theorem C14_no_caller_stuck : forall s, reach s -> word s = 1 ->
  exists t x, thr_at s t x /\ runner x = true /\
    (forall u z, thr_at s u z -> runner z = true -> u = t) /\ rets s = 0%nat.
Proof. exact in_progress_runner. Qed.
Print Assumptions C14_no_caller_stuck.

Theorem C14_runner_in_progress : forall s t x, reach s -> thr_at s t x -> runner x = true ->
  word s = 1 /\ runs s = b2n (started x) /\ fins s = b2n (finished x).
Proof. exact runner_means_in_progress. Qed.
Print Assumptions C14_runner_in_progress.

Theorem C14_waiter_not_in_vain : forall s t x, reach s -> thr_at s t x -> main x = WaitRead ->
  word s = 1 \/ word s = 2.
Proof. exact waiter_not_in_vain. Qed.
Print Assumptions C14_waiter_not_in_vain.

Theorem C14_runner_completes : forall s, reach s -> word s = 1 ->
  exists t, word (run step [(t, EInitBegin); (t, EInitEnd); (t, ETick)] s) = 2.
Proof. exact runner_completes. Qed.
Print Assumptions C14_runner_completes.

(** ---- non-vacuity ---- *)
Local Close Scope Z_scope.

(** threads 0 and 1 both read 0; 0 wins the CAS, runs an init routine of two steps while 1 fails its CAS
    and polls; 1 returns only after 0's once.done; thread 2 calls afterwards and returns at once *)
Example C14_example :
  run step [(0, ECall); (1, ECall); (0, ETick); (1, ETick); (0, ETick); (1, ETick); (0, EInitBegin);
            (1, ETick); (0, EInitStep); (0, EInitStep); (0, EInitEnd); (1, ETick); (0, ETick); (1, ETick);
            (0, ERet 0%Z); (1, ERet 0%Z); (2, ECall); (2, ETick); (2, ETick); (2, ERet 0%Z)] (init_state 3) =
  {| word := 2%Z; thr := [ {| main := Idle |}; {| main := Idle |}; {| main := Idle |} ];
     runs := 1; fins := 1; rets := 3 |}.
Proof. vm_compute. reflexivity. Qed.

(** in the middle of that run: in progress, thread 0 inside the routine, thread 1 in the wait loop, its
    return not enabled *)
Example C14_example_in_progress :
  let s := run step [(0, ECall); (1, ECall); (0, ETick); (1, ETick); (0, ETick); (1, ETick); (0, EInitBegin);
                     (1, ETick); (0, EInitStep)] (init_state 3) in
  s = {| word := 1%Z; thr := [ {| main := InInit |}; {| main := WaitRead |}; {| main := Idle |} ];
         runs := 1; fins := 0; rets := 0 |} /\
  step s (1, ERet 0%Z) = None /\ step s (1, EInitBegin) = None /\ step s (2, EInitStep) = None.
Proof. vm_compute. repeat split; reflexivity. Qed.
