(** C10 / C11 — the per-thread radix tree of thread-specific data.

    Source: src/myth_tls.h (layout constants, [myth_tls_tree_t]) and
    src/myth_tls_func.h: [myth_tls_tree_node_alloc], [.._alloc_node],
    [.._alloc_leaf], [myth_tls_tree_init], [myth_tls_tree_get],
    [myth_tls_tree_set].

    Layout as in the code: [DEPTH = 3] internal levels with [NCH = 4] children
    each (2 index bits per level), leaves with [NLEAF = 16] entries (4 index
    bits), [NKEYS = 16 * 4^3 = 1024].  A node is 40 bytes; the leaf size and the
    size of the pool embedded in the thread descriptor (one root-to-leaf spine:
    [3 * 40 + leaf]) depend on the variant of the source, see [cfg] below (the
    harness prints the real [sizeof]s and the check compares them with [consts]
    on every run).

    Memory: a node carries its [origin] - the offset inside the embedded bump
    pool ([Pool off]) or the serial number of the [myth_malloc] call that
    produced it ([Heap id]).  The C code mutates nodes in place; the model
    rebuilds the path functionally, which is observationally the same because
    a tree is owned by one thread.  [None] stands for a failed [assert] of the
    C code (node type tags); the theorems show it never happens.

    Values are C pointers seen as integers; [0] is NULL.  Keys are C [int]s.

    Two variants of the source are covered by ONE model:
    - the code without generation tags: a leaf entry is a bare value; layout
      [cfg_plain] (leaf 136 bytes, pool 256 bytes).  It is the instance in which
      every generation is 0: [kg = fun _ => 0];
    - the code with generation tags (repair of the stale-value finding): a leaf
      entry is [{value, gen}], layout [cfg_tagged] (leaf 264 bytes, pool 384
      bytes); [set] records the key's current generation [kg idx] next to the
      value and [get] returns NULL when the recorded generation is not the
      key's current one.  [kg] is the [gen] column of the key table at the time
      of the call. *)
From Coq Require Import ZArith List Bool.
Import ListNotations.
Local Open Scope Z_scope.

Definition LOGC : Z := 2.     (* myth_tls_tree_node_log_n_children *)
Definition NCH : Z := 4.      (* myth_tls_tree_node_n_children *)
Definition LOGL : Z := 4.     (* myth_tls_tree_node_log_n_entries_in_leaf *)
Definition NLEAF : Z := 16.   (* myth_tls_tree_node_n_entries_in_leaf *)
Definition DEPTH : nat := 3.  (* myth_tls_tree_depth *)
Definition NKEYS : Z := 1024. (* myth_tls_n_keys *)
Definition SZ_NODE : Z := 40. (* myth_tls_tree_node_sz_node *)
Definition EINVAL : Z := 22.

(** layout: [myth_tls_tree_node_sz_leaf], [myth_tls_tree_pre_alloc_sz] *)
Record cfg := mkCfg { c_leaf : Z; c_pool : Z }.
Definition cfg_plain : cfg := mkCfg 136 256.     (* entries are bare pointers *)
Definition cfg_tagged : cfg := mkCfg 264 384.    (* entries are {pointer, unsigned} *)

(** printed by the model driver, compared with the harness' [sizeof]s *)
Definition consts (c : cfg) : list Z :=
  [Z.of_nat DEPTH; LOGC; LOGL; NKEYS; SZ_NODE; c_leaf c; c_pool c].

Inductive origin := Pool (off : Z) | Heap (id : Z).

Inductive node :=
| Nil
| Leaf (o : origin) (es : list (Z * Z))      (* 16 entries (value, generation) *)
| Inner (o : origin) (c0 c1 c2 c3 : node).

(** [root], [pre_alloc_p - pre_alloc_buf], number of [myth_malloc] calls so far *)
Record tree := mkTree { root : node; pp : Z; nheap : Z }.

(** [myth_tls_tree_init] *)
Definition empty : tree := mkTree Nil 0 0.

(** ** allocation: bump pool first, then [myth_malloc] *)
Definition ast := (Z * Z)%type.   (* pool pointer offset, heap serial *)

Definition node_alloc (c : cfg) (a : ast) (sz : Z) : origin * ast :=
  let '(p, h) := a in
  if p + sz <=? c_pool c then (Pool p, (p + sz, h)) else (Heap h, (p, h + 1)).

Definition alloc_node (c : cfg) (a : ast) : node * ast :=
  let '(o, a') := node_alloc c a SZ_NODE in (Inner o Nil Nil Nil Nil, a').

Definition alloc_leaf (c : cfg) (a : ast) : node * ast :=
  let '(o, a') := node_alloc c a (c_leaf c) in (Leaf o (repeat (0, 0) (Z.to_nat NLEAF)), a').

(** ** index arithmetic, as written in the C code
    at a node with [S l] levels below it (l = depth - i - 1):
    [shift = l * log_n_children + log_n_entries_in_leaf],
    [cidx = (idx >> shift) & (n_children - 1)] *)
Definition cidx (idx : Z) (l : nat) : Z :=
  Z.land (Z.shiftr idx (Z.of_nat l * LOGC + LOGL)) (NCH - 1).
Definition lidx (idx : Z) : Z := Z.land idx (NLEAF - 1).

Definition child (n : node) (c : Z) : node :=
  match n with
  | Inner _ c0 c1 c2 c3 =>
      if c =? 0 then c0 else if c =? 1 then c1 else if c =? 2 then c2 else c3
  | _ => Nil
  end.

Definition set_child (n : node) (c : Z) (x : node) : node :=
  match n with
  | Inner o c0 c1 c2 c3 =>
      if c =? 0 then Inner o x c1 c2 c3
      else if c =? 1 then Inner o c0 x c2 c3
      else if c =? 2 then Inner o c0 c1 x c3
      else Inner o c0 c1 c2 x
  | _ => n
  end.

Fixpoint upd (l : list (Z * Z)) (i : nat) (v : Z * Z) : list (Z * Z) :=
  match l, i with
  | [], _ => []
  | _ :: r, O => v :: r
  | x :: r, S j => x :: upd r j v
  end.

Definition is_nil (n : node) : bool := match n with Nil => true | _ => false end.

Definition out_of_range (idx : Z) : bool := (idx <? 0) || (idx >=? NKEYS).

(** ** lookup.  [Absent]: the path to the leaf is not allocated. *)
Inductive look := Absent | Found (v g : Z) | Bad.

Fixpoint find_rec (levels : nat) (n : node) (idx : Z) : look :=
  match levels with
  | O => match n with
         | Leaf _ es => let e := nth (Z.to_nat (lidx idx)) es (0, 0) in Found (fst e) (snd e)
         | _ => Bad
         end
  | S l => match n with
           | Inner _ _ _ _ _ =>
               let c := child n (cidx idx l) in
               if is_nil c then Absent else find_rec l c idx
           | _ => Bad
           end
  end.

Definition look_tree (t : tree) (idx : Z) : look :=
  if out_of_range idx then Absent
  else if is_nil (root t) then Absent else find_rec DEPTH (root t) idx.

(** [myth_tls_tree_get]: NULL when out of range, when the path is missing, or
    when the slot was written under another incarnation of the index *)
Definition get (kg : Z -> Z) (t : tree) (idx : Z) : option Z :=
  match look_tree t idx with
  | Absent => Some 0
  | Found v g => Some (if g =? kg idx then v else 0)
  | Bad => None
  end.

(** ** [myth_tls_tree_set] *)
Fixpoint set_rec (c : cfg) (levels : nat) (n : node) (idx : Z) (e : Z * Z) (a : ast)
  : option (node * ast) :=
  match levels with
  | O => match n with
         | Leaf o es => Some (Leaf o (upd es (Z.to_nat (lidx idx)) e), a)
         | _ => None
         end
  | S l => match n with
           | Inner _ _ _ _ _ =>
               let ci := cidx idx l in
               let ch := child n ci in
               let '(c1, a1) :=
                 if is_nil ch
                 then match l with O => alloc_leaf c a | S _ => alloc_node c a end
                 else (ch, a) in
               match set_rec c l c1 idx e a1 with
               | Some (c2, a2) => Some (set_child n ci c2, a2)
               | None => None
               end
           | _ => None
           end
  end.

(** returns the new tree and the C return value (0 or EINVAL) *)
Definition set (c : cfg) (kg : Z -> Z) (t : tree) (idx v : Z) : option (tree * Z) :=
  if out_of_range idx then Some (t, EINVAL)
  else
    let '(r, a) :=
      if is_nil (root t) then alloc_node c (pp t, nheap t)
      else (root t, (pp t, nheap t)) in
    match set_rec c DEPTH r idx (v, kg idx) a with
    | Some (r', (p', h')) => Some (mkTree r' p' h', 0)
    | None => None
    end.

(** ** every node of the tree with its size, in pre-order (for dumps, for the
    pool theorem and for the teardown theorem of C11) *)
Fixpoint nodes (c : cfg) (n : node) : list (origin * Z) :=
  match n with
  | Nil => []
  | Leaf o _ => [(o, c_leaf c)]
  | Inner o c0 c1 c2 c3 => (o, SZ_NODE) :: nodes c c0 ++ nodes c c1 ++ nodes c c2 ++ nodes c c3
  end.

(** shape checker (executable): [levels] levels of internal nodes above leaves
    of exactly 16 entries *)
Fixpoint shapeb (levels : nat) (n : node) : bool :=
  match levels with
  | O => match n with Leaf _ es => (length es =? 16)%nat | _ => false end
  | S l => match n with
           | Inner _ c0 c1 c2 c3 =>
               let ok c := match c with Nil => true | _ => shapeb l c end in
               ok c0 && ok c1 && ok c2 && ok c3
           | _ => false
           end
  end.

(** a sequence of sets from the empty tree (used by drivers and examples);
    [None] = an assertion of the C code would fail *)
Fixpoint set_all (c : cfg) (kg : Z -> Z) (t : tree) (kvs : list (Z * Z)) : option tree :=
  match kvs with
  | [] => Some t
  | (k, v) :: r => match set c kg t k v with
                   | Some (t', _) => set_all c kg t' r
                   | None => None
                   end
  end.

(** the generation column of the code without tags *)
Definition kg0 : Z -> Z := fun _ => 0.

Fixpoint zrange (lo : Z) (n : nat) : list Z :=
  match n with O => [] | S m => lo :: zrange (lo + 1) m end.
