(** Proofs about the thread-exit walks (C11). *)
From Coq Require Import ZArith List Bool Lia Permutation.
From MT Require Import Tls.TlsTreeModel Tls.TlsTreeProofs Tls.TlsDestroyModel.
Import ListNotations.
Local Open Scope Z_scope.

(** ** list helpers *)
Lemma flat_map_ext_in {A B} (f g : A -> list B) l :
  (forall a, In a l -> f a = g a) -> flat_map f l = flat_map g l.
Proof.
  induction l as [|x r IH]; intros H; cbn [flat_map]; [reflexivity|].
  rewrite (H x (or_introl eq_refl)), IH; [reflexivity|]. intros a Ha. apply H. right. exact Ha.
Qed.

Lemma flat_map_nil_in {A B} (f : A -> list B) l : (forall a, In a l -> f a = []) -> flat_map f l = [].
Proof.
  induction l as [|x r IH]; intros H; cbn [flat_map]; [reflexivity|].
  rewrite (H x (or_introl eq_refl)), IH; [reflexivity|]. intros a Ha. apply H. right. exact Ha.
Qed.

Lemma flat_map_map {A B C} (g : A -> B) (f : B -> list C) l :
  flat_map f (map g l) = flat_map (fun a => f (g a)) l.
Proof. induction l as [|x r IH]; cbn [map flat_map]; [reflexivity|]. rewrite IH. reflexivity. Qed.

Lemma flat_map_flat_map {A B C} (g : A -> list B) (f : B -> list C) l :
  flat_map f (flat_map g l) = flat_map (fun a => flat_map f (g a)) l.
Proof.
  induction l as [|x r IH]; cbn [flat_map]; [reflexivity|]. rewrite flat_map_app, IH. reflexivity.
Qed.

(** ** strides *)
Fixpoint sn (l : nat) : nat := match l with O => 16 | S j => 4 * sn j end.
Definition stride_of (l : nat) : Z := Z.of_nat (sn l).

Lemma stride_S l : stride_of (S l) = 4 * stride_of l.
Proof. unfold stride_of. cbn [sn]. lia. Qed.

Lemma stride_pos l : 0 < stride_of l.
Proof. induction l as [|l IH]; [reflexivity|]. rewrite stride_S. lia. Qed.

Lemma stride_pow l : stride_of l = 2 ^ (Z.of_nat l * 2 + 4).
Proof.
  induction l as [|l IH]; [reflexivity|]. rewrite stride_S, IH.
  replace (Z.of_nat (S l) * 2 + 4) with ((Z.of_nat l * 2 + 4) + 2) by lia.
  rewrite (Z.pow_add_r 2 (Z.of_nat l * 2 + 4) 2) by lia. change (2 ^ 2) with 4. apply Z.mul_comm.
Qed.

Lemma shiftr_stride l : Z.shiftr (stride_of (S l)) LOGC = stride_of l.
Proof.
  unfold LOGC. rewrite Z.shiftr_div_pow2 by lia. change (2 ^ 2) with 4. rewrite stride_S.
  rewrite Z.mul_comm. apply Z.div_mul. lia.
Qed.

Lemma stride_depth : stride_of DEPTH = NKEYS.
Proof. reflexivity. Qed.

(** a key inside the [i]-th child's range selects child [i] *)
Lemma cidx_in_child l m i k : 0 <= i < 4 ->
  (m * 4 + i) * stride_of l <= k < (m * 4 + i) * stride_of l + stride_of l ->
  cidx k l = i.
Proof.
  intros Hi Hk. rewrite cidx_eq, <- stride_pow. pose proof (stride_pos l) as Hs.
  assert (E : k / stride_of l = m * 4 + i).
  { symmetry. apply (Z.div_unique k (stride_of l) (m * 4 + i) (k - (m * 4 + i) * stride_of l)); lia. }
  rewrite E. symmetry. apply (Z.mod_unique (m * 4 + i) 4 m i); lia.
Qed.

Lemma lidx_in_leaf m i : (i < 16)%nat -> lidx (m * 16 + Z.of_nat i) = Z.of_nat i.
Proof.
  intros Hi. rewrite lidx_eq. symmetry. apply (Z.mod_unique _ 16 m (Z.of_nat i)); lia.
Qed.

(** ** the destructor walk: the whole trace, exactly *)
Section Calls.
  Variable dt kg : Z -> Z.

  Definition slot_evs (levels : nat) (n : node) (k : Z) : list ev :=
    match find_rec levels n k with
    | Found v g => ERead k :: (if dt k =? 0 then [] else [ECall k (if g =? kg k then v else 0)])
    | _ => []
    end.

  Lemma leaf_exact o es m : length es = 16%nat ->
    leaf_loop (m * 16) es dt kg = flat_map (slot_evs 0 (Leaf o es)) (zrange (m * 16) 16).
  Proof.
    intros Hlen. unfold leaf_loop. change (Z.to_nat NLEAF) with 16%nat.
    replace (zrange (m * 16) 16) with (zrange (m * 16 + Z.of_nat 0) 16) by (f_equal; lia).
    rewrite zrange_map_seq, flat_map_map. apply flat_map_ext_in. intros i Hi.
    apply in_seq in Hi. unfold leaf_slot, slot_evs. cbn [find_rec].
    rewrite lidx_in_leaf by lia. rewrite Nat2Z.id. reflexivity.
  Qed.

  (** one child of an internal node *)
  Lemma child_exact l o c0 c1 c2 c3 m i
    (IH : forall n m', shapeb l n = true ->
          calls_rec false dt kg l n (m' * stride_of l) (stride_of l) =
          Some (flat_map (slot_evs l n) (zrange (m' * stride_of l) (sn l)))) :
    shapeb (S l) (Inner o c0 c1 c2 c3) = true -> 0 <= i < 4 ->
    let n := Inner o c0 c1 c2 c3 in
    let c := child n i in
    (if is_nil c then Some [] else calls_rec false dt kg l c ((m * 4 + i) * stride_of l) (stride_of l)) =
    Some (flat_map (slot_evs (S l) n) (zrange ((m * 4 + i) * stride_of l) (sn l))).
  Proof.
    intros Hs Hi n c.
    assert (Hfind : forall k, In k (zrange ((m * 4 + i) * stride_of l) (sn l)) ->
                    find_rec (S l) n k = if is_nil c then Absent else find_rec l c k).
    { intros k Hk. apply zrange_in in Hk. fold (stride_of l) in Hk.
      unfold n. rewrite find_rec_step. rewrite (cidx_in_child l m i k Hi Hk). reflexivity. }
    destruct (is_nil c) eqn:En.
    - f_equal. symmetry. apply flat_map_nil_in. intros k Hk. unfold slot_evs.
      rewrite (Hfind k Hk). reflexivity.
    - apply is_nil_false in En.
      destruct (okc_child l o c0 c1 c2 c3 i Hs) as [E|E]; [contradiction|].
      fold n in E. fold c in E. rewrite (IH c (m * 4 + i) E). f_equal.
      apply flat_map_ext_in. intros k Hk. unfold slot_evs. rewrite (Hfind k Hk). reflexivity.
  Qed.

  Lemma calls_rec_exact levels : forall n m, shapeb levels n = true ->
    calls_rec false dt kg levels n (m * stride_of levels) (stride_of levels) =
    Some (flat_map (slot_evs levels n) (zrange (m * stride_of levels) (sn levels))).
  Proof.
    induction levels as [|l IH]; intros n m Hs.
    - apply shape_O_inv in Hs. destruct Hs as (o & es & -> & Hlen). cbn [calls_rec].
      change (stride_of 0) with 16. change (16 =? NLEAF) with true. cbv iota.
      rewrite (leaf_exact o es m Hlen). reflexivity.
    - destruct (shape_S_inv _ _ Hs) as (o & c0 & c1 & c2 & c3 & ->).
      cbn [calls_rec]. rewrite shiftr_stride. unfold loop. cbn [children child_loop].
      pose proof (child_exact l o c0 c1 c2 c3 m 0 IH Hs ltac:(lia)) as H0.
      pose proof (child_exact l o c0 c1 c2 c3 m 1 IH Hs ltac:(lia)) as H1.
      pose proof (child_exact l o c0 c1 c2 c3 m 2 IH Hs ltac:(lia)) as H2.
      pose proof (child_exact l o c0 c1 c2 c3 m 3 IH Hs ltac:(lia)) as H3.
      cbv zeta in H0, H1, H2, H3.
      change (child (Inner o c0 c1 c2 c3) 0) with c0 in H0.
      change (child (Inner o c0 c1 c2 c3) 1) with c1 in H1.
      change (child (Inner o c0 c1 c2 c3) 2) with c2 in H2.
      change (child (Inner o c0 c1 c2 c3) 3) with c3 in H3.
      rewrite stride_S.
      replace (m * (4 * stride_of l)) with ((m * 4 + 0) * stride_of l) by lia.
      replace ((m * 4 + 0) * stride_of l + stride_of l) with ((m * 4 + 1) * stride_of l) by lia.
      replace ((m * 4 + 1) * stride_of l + stride_of l) with ((m * 4 + 2) * stride_of l) by lia.
      replace ((m * 4 + 2) * stride_of l + stride_of l) with ((m * 4 + 3) * stride_of l) by lia.
      rewrite H0, H1, H2, H3. cbn [opt_app]. f_equal. rewrite app_nil_r.
      cbn [sn]. replace (4 * sn l)%nat with (sn l + (sn l + (sn l + sn l)))%nat by lia.
      rewrite !zrange_app, !flat_map_app. fold (stride_of l).
      replace ((m * 4 + 0) * stride_of l + stride_of l) with ((m * 4 + 1) * stride_of l) by lia.
      replace ((m * 4 + 1) * stride_of l + stride_of l) with ((m * 4 + 2) * stride_of l) by lia.
      replace ((m * 4 + 2) * stride_of l + stride_of l) with ((m * 4 + 3) * stride_of l) by lia.
      reflexivity.
  Qed.
End Calls.

(** ** the teardown walk *)
Section Destroy.
Variable c : cfg.

Definition freed (o : origin) : bool :=
  match o with Pool off => (off <? 0) || (off >=? c_pool c) | Heap _ => true end.

Lemma node_free_eq o : node_free c o = if freed o then [EFree o] else [].
Proof. destruct o; reflexivity. Qed.

Definition free_evs (os : list origin) : list ev := map EFree (filter freed os).

Lemma free_evs_app a b : free_evs (a ++ b) = free_evs a ++ free_evs b.
Proof. unfold free_evs. rewrite filter_app, map_app. reflexivity. Qed.

Lemma free_node_evs o : flat_map (node_free c) [o] = free_evs [o].
Proof. cbn [flat_map]. rewrite app_nil_r, node_free_eq. unfold free_evs. cbn [filter]. destruct (freed o); reflexivity. Qed.

Lemma destroy_rec_exact levels : forall n base stride, shapeb levels n = true ->
  exists os, destroy_rec false c levels n base stride = Some (free_evs os) /\
             Permutation os (map fst (nodes c n)).
Proof.
  induction levels as [|l IH]; intros n base stride Hs.
  - apply shape_O_inv in Hs. destruct Hs as (o & es & -> & _). exists [o].
    cbn [destroy_rec origin_of nodes map fst]. rewrite free_node_evs. split; reflexivity.
  - destruct (shape_S_inv _ _ Hs) as (o & c0 & c1 & c2 & c3 & ->).
    apply shape_inner in Hs. destruct Hs as (H0 & H1 & H2 & H3).
    cbn [destroy_rec origin_of]. unfold loop. cbn [children child_loop].
    set (cs := Z.shiftr stride LOGC).
    assert (G : forall ch b, okc l ch -> exists os,
              (if is_nil ch then Some [] else destroy_rec false c l ch b cs) = Some (free_evs os) /\
              Permutation os (map fst (nodes c ch))).
    { intros ch b [-> |Hc]; [exists []; split; reflexivity|].
      assert (En : is_nil ch = false).
      { apply is_nil_false. intros ->. rewrite shapeb_not_nil in Hc. discriminate. }
      rewrite En. apply IH. exact Hc. }
    destruct (G c0 base H0) as (o0 & E0 & P0).
    destruct (G c1 (base + cs) H1) as (o1 & E1 & P1).
    destruct (G c2 (base + cs + cs) H2) as (o2 & E2 & P2).
    destruct (G c3 (base + cs + cs + cs) H3) as (o3 & E3 & P3).
    rewrite E0, E1, E2, E3. cbn [opt_app]. rewrite free_node_evs, app_nil_r, <- !free_evs_app.
    eexists. split; [reflexivity|]. cbn [nodes map fst]. rewrite !map_app.
    rewrite P0, P1, P2, P3. rewrite <- !app_assoc.
    symmetry. rewrite !app_assoc. apply Permutation_cons_append.
Qed.

(** ** [fini] on reachable trees *)
Definition call_slot (dt kg : Z -> Z) (t : tree) (k : Z) : list (Z * Z) :=
  match look_tree t k with
  | Found v g => if dt k =? 0 then [] else [(k, if g =? kg k then v else 0)]
  | _ => []
  end.

Definition read_slot (t : tree) (k : Z) : list Z :=
  match look_tree t k with Found _ _ => [k] | _ => [] end.

Lemma calls_of_app a b : calls_of (a ++ b) = calls_of a ++ calls_of b.
Proof. apply flat_map_app. Qed.
Lemma reads_of_app a b : reads_of (a ++ b) = reads_of a ++ reads_of b.
Proof. apply flat_map_app. Qed.
Lemma frees_of_app a b : frees_of (a ++ b) = frees_of a ++ frees_of b.
Proof. apply flat_map_app. Qed.

Lemma calls_of_free_evs os : calls_of (free_evs os) = [].
Proof. unfold free_evs, calls_of. rewrite flat_map_map. apply flat_map_nil_in. reflexivity. Qed.
Lemma reads_of_free_evs os : reads_of (free_evs os) = [].
Proof. unfold free_evs, reads_of. rewrite flat_map_map. apply flat_map_nil_in. reflexivity. Qed.
Lemma frees_of_free_evs os : frees_of (free_evs os) = filter freed os.
Proof.
  unfold free_evs, frees_of. rewrite flat_map_map. induction (filter freed os) as [|x r IH]; [reflexivity|].
  cbn [flat_map app]. rewrite IH. reflexivity.
Qed.

Lemma look_tree_non_nil t k : in_range k -> root t <> Nil -> look_tree t k = find_rec DEPTH (root t) k.
Proof.
  intros Hk Hnn. rewrite look_tree_in by exact Hk. apply find_non_nil. exact Hnn.
Qed.

Theorem fini_exact dt kg t : reach c t ->
  exists evs, fini false c dt kg t = Some evs /\
    calls_of evs = flat_map (call_slot dt kg t) (zrange 0 1024) /\
    reads_of evs = flat_map (read_slot t) (zrange 0 1024) /\
    exists os, frees_of evs = filter freed os /\ Permutation os (map fst (nodes c (root t))).
Proof.
  intros Hr. unfold fini. destruct (is_nil (root t)) eqn:En.
  - exists []. split; [reflexivity|].
    assert (Hl : forall k, look_tree t k = Absent).
    { intros k. unfold look_tree. rewrite En. destruct (out_of_range k); reflexivity. }
    split; [symmetry; apply flat_map_nil_in; intros k _; unfold call_slot; rewrite Hl; reflexivity|].
    split; [symmetry; apply flat_map_nil_in; intros k _; unfold read_slot; rewrite Hl; reflexivity|].
    exists []. split; [reflexivity|]. apply is_nil_true in En. rewrite En. reflexivity.
  - apply is_nil_false in En.
    destruct (reach_wf c t Hr) as [E|Hs]; [contradiction|].
    pose proof (calls_rec_exact dt kg DEPTH (root t) 0 Hs) as Hc.
    rewrite stride_depth in Hc. cbn [Z.mul] in Hc. rewrite Hc.
    destruct (destroy_rec_exact DEPTH (root t) 0 NKEYS Hs) as (os & Hd & P). rewrite Hd.
    cbn [opt_app]. eexists. split; [reflexivity|].
    change (sn DEPTH) with 1024%nat.
    rewrite calls_of_app, reads_of_app, frees_of_app.
    rewrite calls_of_free_evs, reads_of_free_evs, frees_of_free_evs, !app_nil_r.
    split; [|split].
    + unfold calls_of. rewrite flat_map_flat_map. apply flat_map_ext_in. intros k Hk.
      apply zrange_in in Hk. unfold slot_evs, call_slot.
      rewrite look_tree_non_nil by (try exact En; unfold in_range; lia).
      destruct (find_rec DEPTH (root t) k); [reflexivity| |reflexivity].
      cbn [flat_map app]. destruct (dt k =? 0); reflexivity.
    + unfold reads_of. rewrite flat_map_flat_map. apply flat_map_ext_in. intros k Hk.
      apply zrange_in in Hk. unfold slot_evs, read_slot.
      rewrite look_tree_non_nil by (try exact En; unfold in_range; lia).
      destruct (find_rec DEPTH (root t) k); [reflexivity| |reflexivity].
      cbn [flat_map app]. destruct (dt k =? 0); reflexivity.
    + exists os. split; [|exact P].
      assert (Hz : frees_of (flat_map (slot_evs dt kg DEPTH (root t)) (zrange 0 1024)) = []).
      { unfold frees_of. rewrite flat_map_flat_map. apply flat_map_nil_in. intros k _.
        unfold slot_evs. destruct (find_rec DEPTH (root t) k); [reflexivity| |reflexivity].
        cbn [flat_map app]. destruct (dt k =? 0); reflexivity. }
      rewrite Hz. reflexivity.
Qed.

(** ** consequences in the words of the property *)
Definition touched (t : tree) (k : Z) : Prop := exists v g, look_tree t k = Found v g.

Lemma in_call_slots dt kg t k v :
  In (k, v) (flat_map (call_slot dt kg t) (zrange 0 1024)) <->
  in_range k /\ dt k <> 0 /\ touched t k /\ get kg t k = Some v.
Proof.
  rewrite in_flat_map. split.
  - intros (k' & Hk' & Hin). apply zrange_in in Hk'. unfold call_slot in Hin.
    destruct (look_tree t k') as [|v' g'|] eqn:El; [contradiction| |contradiction].
    destruct (dt k' =? 0) eqn:Ed; [contradiction|]. destruct Hin as [Heq|[]].
    inversion Heq; subst. apply Z.eqb_neq in Ed. unfold in_range. split; [lia|]. split; [exact Ed|].
    split; [exists v', g'; exact El|]. unfold get. rewrite El. reflexivity.
  - intros (Hk & Hd & (v0 & g & Hl) & Hg). exists k. split; [apply zrange_in; unfold in_range in Hk; lia|].
    unfold call_slot. rewrite Hl. apply Z.eqb_neq in Hd. rewrite Hd. left.
    unfold get in Hg. rewrite Hl in Hg. inversion Hg. reflexivity.
Qed.

Lemma nodup_slots {B} (F : Z -> list (Z * B)) l :
  NoDup l -> (forall k x, In x (F k) -> fst x = k) -> (forall k, (length (F k) <= 1)%nat) ->
  NoDup (map fst (flat_map F l)).
Proof.
  intros Hnd Hk Hlen. induction Hnd as [|a r Hnin Hnd IH]; cbn [flat_map map]; [constructor|].
  rewrite map_app. specialize (Hlen a).
  destruct (F a) as [|x [|y rest]] eqn:Ea; cbn [map app]; [exact IH| |cbn in Hlen; lia].
  constructor; [|exact IH]. intros Hin. apply in_map_iff in Hin. destruct Hin as (z & Hz & Hin).
  apply in_flat_map in Hin. destruct Hin as (k' & Hk' & Hin'). apply Hk in Hin'.
  assert (fst x = a) by (apply Hk; rewrite Ea; left; reflexivity). apply Hnin. congruence.
Qed.

Lemma call_slots_nodup dt kg t : NoDup (map fst (flat_map (call_slot dt kg t) (zrange 0 1024))).
Proof.
  apply nodup_slots; [apply zrange_nodup| |].
  - intros k x Hin. unfold call_slot in Hin. destruct (look_tree t k); try contradiction.
    destruct (dt k =? 0); [contradiction|]. destruct Hin as [<-|[]]. reflexivity.
  - intros k. unfold call_slot. destruct (look_tree t k); cbn; try lia. destruct (dt k =? 0); cbn; lia.
Qed.

Lemma read_slots_in_table t k : In k (flat_map (read_slot t) (zrange 0 1024)) -> in_range k.
Proof.
  rewrite in_flat_map. intros (k' & Hk' & Hin). apply zrange_in in Hk'. unfold read_slot in Hin.
  destruct (look_tree t k'); try contradiction. destruct Hin as [<-|[]]. unfold in_range. lia.
Qed.

Lemma get_nonnull_touched kg t k v : get kg t k = Some v -> v <> 0 -> touched t k.
Proof.
  unfold get, touched. destruct (look_tree t k) as [|v' g'|]; intros H Hv; inversion H; subst;
    [contradiction|eauto].
Qed.

Hypothesis leaf_pos : 0 < c_leaf c.
Hypothesis pool_nonneg : 0 <= c_pool c.

Lemma freed_of_pool_inv t : reach c t -> forall os, Permutation os (map fst (nodes c (root t))) ->
  NoDup (filter freed os) /\
  forall o, In o (filter freed os) <-> exists id sz, o = Heap id /\ In (o, sz) (nodes c (root t)).
Proof.
  intros Hr os P. destruct (pool_never_overruns c leaf_pos pool_nonneg t Hr) as (Hp & Hpool & Hheap & Hnd).
  split.
  - apply NoDup_filter. eapply Permutation_NoDup; [symmetry; exact P|exact Hnd].
  - intros o. rewrite filter_In. split.
    + intros [Hin Hf]. eapply Permutation_in in Hin; [|exact P]. apply in_map_iff in Hin.
      destruct Hin as ([o' sz] & Heq & Hin). cbn in Heq. subst o'. destruct o as [off|id].
      * exfalso. destruct (Hpool off sz Hin) as (H1 & H2 & H3). cbn [freed] in Hf.
        apply orb_true_iff in Hf.
        destruct Hf as [Hf|Hf]; [apply Z.ltb_lt in Hf; lia|]. rewrite Z.geb_leb in Hf. apply Z.leb_le in Hf. lia.
      * eauto.
    + intros (id & sz & -> & Hin). split; [|reflexivity].
      eapply Permutation_in; [symmetry; exact P|]. apply in_map_iff. exists (Heap id, sz). split; [reflexivity|exact Hin].
Qed.

Definition zz_eq_dec (a b : Z * Z) : {a = b} + {a <> b}.
Proof. decide equality; apply Z.eq_dec. Defined.

Theorem fini_property dt kg t : reach c t ->
  exists evs, fini false c dt kg t = Some evs /\
    (forall k v, In (k, v) (calls_of evs) -> in_range k /\ dt k <> 0 /\ get kg t k = Some v) /\
    (forall k v, in_range k -> dt k <> 0 -> get kg t k = Some v -> v <> 0 ->
                 count_occ zz_eq_dec (calls_of evs) (k, v) = 1%nat) /\
    NoDup (map fst (calls_of evs)) /\
    (forall k, In k (reads_of evs) -> in_range k) /\
    NoDup (frees_of evs) /\
    (forall o, In o (frees_of evs) <-> exists id sz, o = Heap id /\ In (o, sz) (nodes c (root t))).
Proof.
  intros Hr. destruct (fini_exact dt kg t Hr) as (evs & Hf & Hc & Hrd & os & Hfr & P).
  exists evs. split; [exact Hf|]. rewrite Hc, Hrd, Hfr.
  pose proof (call_slots_nodup dt kg t) as Hnd.
  split; [|split; [|split; [exact Hnd|split; [intros k; apply read_slots_in_table|]]]].
  - intros k v Hin. apply in_call_slots in Hin. destruct Hin as (H1 & H2 & _ & H3). tauto.
  - intros k v Hk Hd Hg Hv.
    assert (Hin : In (k, v) (flat_map (call_slot dt kg t) (zrange 0 1024))).
    { apply in_call_slots. split; [exact Hk|]. split; [exact Hd|]. split; [|exact Hg].
      eapply get_nonnull_touched; eassumption. }
    assert (Hnd2 : NoDup (flat_map (call_slot dt kg t) (zrange 0 1024))).
    { eapply NoDup_map_inv. exact Hnd. }
    apply (proj1 (NoDup_count_occ' _ _) Hnd2). exact Hin.
  - apply freed_of_pool_inv; assumption.
Qed.

(** with generation tags: a value left in a slot under an earlier incarnation
    of the index never reaches a destructor - whatever is called for that key
    is called with NULL *)
Corollary stale_not_passed dt kg t k v0 g evs : reach c t ->
  fini false c dt kg t = Some evs -> look_tree t k = Found v0 g -> g <> kg k ->
  forall v, In (k, v) (calls_of evs) -> v = 0.
Proof.
  intros Hr Hf Hl Hg v Hin. destruct (fini_property dt kg t Hr) as (evs' & Hf' & H1 & _).
  rewrite Hf in Hf'. inversion Hf'; subst evs'. destruct (H1 k v Hin) as (_ & _ & Hget).
  rewrite (stale_hidden kg t k v0 g Hl Hg) in Hget. inversion Hget. reflexivity.
Qed.
End Destroy.

(** ** the walk as it was before commit 90cf288 (code without generation tags) *)
Theorem prefix_walk_refuted :
  (* key 16 alone, with a destructor and a non-NULL value: no call at all *)
  (exists t, set_all cfg_plain kg0 empty [(16, 777)] = Some t /\ reach cfg_plain t /\
             get kg0 t 16 = Some 777 /\
             option_map calls_of (fini true cfg_plain (fun _ => 1) kg0 t) = Some []) /\
  (* keys {0, 16}: leaf 1 is looked up at table cell 64: the destructor of key 64 receives
     key 16's value, key 16's own destructor is not called *)
  (exists t, set_all cfg_plain kg0 empty [(0, 5); (16, 6)] = Some t /\ reach cfg_plain t /\
             option_map calls_of (fini true cfg_plain (dt_of [0; 16; 64]) kg0 t) = Some [(0, 5); (64, 6)]) /\
  (* keys {0, 256}: the second subtree is walked with base 1024: cells past the table are read *)
  (exists t evs, set_all cfg_plain kg0 empty [(0, 5); (256, 6)] = Some t /\ reach cfg_plain t /\
             fini true cfg_plain (dt_of [0; 256]) kg0 t = Some evs /\ In 1024 (reads_of evs) /\
             calls_of evs = [(0, 5)]) /\
  (* and the teardown walk leaked the nodes behind the first empty child *)
  (exists t evs, set_all cfg_plain kg0 empty [(16, 1); (17, 2); (300, 3)] = Some t /\ reach cfg_plain t /\
             fini true cfg_plain (fun _ => 0) kg0 t = Some evs /\
             exists id sz, In (Heap id, sz) (nodes cfg_plain (root t)) /\ ~ In (Heap id) (frees_of evs)).
Proof.
  split; [|split; [|split]].
  - eexists. split; [vm_compute; reflexivity|]. split; [|split; vm_compute; reflexivity].
    apply (set_all_some_reach cfg_plain kg0 [(16, 777)] empty _ (reach_empty _)). vm_compute. reflexivity.
  - eexists. split; [vm_compute; reflexivity|]. split; [|vm_compute; reflexivity].
    apply (set_all_some_reach cfg_plain kg0 [(0, 5); (16, 6)] empty _ (reach_empty _)). vm_compute. reflexivity.
  - eexists _, _. split; [vm_compute; reflexivity|]. split;
      [apply (set_all_some_reach cfg_plain kg0 [(0, 5); (256, 6)] empty _ (reach_empty _)); vm_compute; reflexivity|].
    split; [vm_compute; reflexivity|]. split; [|vm_compute; reflexivity].
    vm_compute. do 16 right. left. reflexivity.
  - eexists _, _. split; [vm_compute; reflexivity|]. split;
      [apply (set_all_some_reach cfg_plain kg0 [(16, 1); (17, 2); (300, 3)] empty _ (reach_empty _)); vm_compute; reflexivity|].
    split; [vm_compute; reflexivity|].
    exists 2, 136. split; [vm_compute; tauto|]. vm_compute. intros [H|[H|[]]]; discriminate H.
Qed.

Lemma fini_empty old c dt kg : fini old c dt kg empty = Some [].
Proof. reflexivity. Qed.

(** ** the property in terms of LIVE keys: the destructor column of a reachable allocator state *)
From MT Require Import Tls.TlsKeysModel Tls.TlsKeysProofs.
Theorem fini_live tagged os s h rs c : 0 < c_leaf c -> 0 <= c_pool c ->
  seq_hist tagged kinit [] os = Some (s, h, rs) -> forall t, reach c t ->
  exists evs, fini false c (kdtor s) (kgen s) t = Some evs /\
    (forall k v, In (k, v) (calls_of evs) -> In k h /\ kdtor s k <> 0 /\ get (kgen s) t k = Some v) /\
    (forall k v, In k h -> kdtor s k <> 0 -> get (kgen s) t k = Some v -> v <> 0 ->
                 count_occ zz_eq_dec (calls_of evs) (k, v) = 1%nat) /\
    (forall k v, ~ In k h -> ~ In (k, v) (calls_of evs)) /\
    NoDup (map fst (calls_of evs)).
Proof.
  intros Hl Hp Hh t Hr.
  pose proof (seq_history_dead_no_dtor tagged os s h rs Hh) as Hdead.
  destruct (seq_history_distinct tagged os s h rs Hh) as (_ & Hin & _).
  destruct (fini_property c Hl Hp (kdtor s) (kgen s) t Hr) as (evs & Hf & H1 & H2 & H3 & _).
  exists evs. split; [exact Hf|].
  assert (Hlive : forall k v, In (k, v) (calls_of evs) -> In k h).
  { intros k v Hc. destruct (H1 k v Hc) as (_ & Hd & _).
    destruct (in_dec Z.eq_dec k h) as [Hi|Hn]; [exact Hi|]. exfalso. apply Hd. apply Hdead. exact Hn. }
  split; [|split; [|split; [|exact H3]]].
  - intros k v Hc. destruct (H1 k v Hc) as (_ & Hd & Hg). split; [eapply Hlive; exact Hc|]. split; assumption.
  - intros k v Hk Hd Hg Hv. apply H2; try assumption. apply Hin. exact Hk.
  - intros k v Hn Hc. apply Hn. eapply Hlive. exact Hc.
Qed.
