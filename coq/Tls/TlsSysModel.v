(** C10 — the thread-specific-data API as a whole: one key allocator, one tree
    per thread (the tree lives inside the thread descriptor, so it is the
    thread's wherever the thread runs; [myth_create_ex_body] resets it with
    [myth_tls_tree_init] when a descriptor starts a new thread).

    Source: src/myth_tls_func.h [myth_key_create_body], [myth_key_delete_body],
    [myth_setspecific_body], [myth_getspecific_body]; src/myth_sched_func.h
    (the [myth_tls_tree_init] call in thread creation).

    Operations are executed one at a time here (the interleavings of the
    allocator are the subject of Tls/TlsKeysModel.v; set/get only touch the
    calling thread's own tree).

    Two variants of the source ([variant]): without generation tags nothing
    links a tree slot to the incarnation of the key it was written under
    ([key_delete] does not visit any tree) - this is the stale-value finding;
    with generation tags ([v_tagged = true], layout [cfg_tagged]) every creation
    increments the index' generation and a slot written under another
    generation reads NULL. *)
From Coq Require Import ZArith List Bool.
From MT Require Import Tls.TlsTreeModel Tls.TlsKeysModel.
Import ListNotations.
Local Open Scope Z_scope.

Record variant := mkVariant { v_tagged : bool; v_cfg : cfg }.
Definition variant_plain : variant := mkVariant false cfg_plain.
Definition variant_tagged : variant := mkVariant true cfg_tagged.

Record sys := mkSys { sk : kst; sh : list Z; trees : list tree }.

Inductive sop :=
| KCreate (d : Z)              (* myth_key_create(&k, d): result = k, or -1 when it fails (EINVAL) *)
| KDelete (k : Z)              (* myth_key_delete(k): result = 0 or EINVAL *)
| TSet (t : nat) (k v : Z)     (* thread t: myth_setspecific(k, v): result = 0 or EINVAL *)
| TGet (t : nat) (k : Z)       (* thread t: myth_getspecific(k): result = the value *)
| TSpawn (t : nat).            (* descriptor t starts a new thread: myth_tls_tree_init *)

Fixpoint set_tree (l : list tree) (t : nat) (x : tree) : list tree :=
  match l, t with
  | [], _ => []
  | _ :: r, O => x :: r
  | y :: r, S j => y :: set_tree r j x
  end.

(** [None]: no such thread, or an assertion of the C code fails, or out of fuel *)
Section Variant.
Variable var : variant.

Definition sys_step (s : sys) (o : sop) : option (sys * Z) :=
  match o with
  | KCreate d =>
      match seq_op (v_tagged var) (sk s) (sh s) (Create d) with
      | Some (k', h', r) => Some (mkSys k' h' (trees s), r)
      | None => None
      end
  | KDelete k =>
      match seq_op (v_tagged var) (sk s) (sh s) (Delete k) with
      | Some (k', h', r) => Some (mkSys k' h' (trees s), if r =? ERR then EINVAL else 0)
      | None => None
      end
  | TSet t k v =>
      match nth_error (trees s) t with
      | Some tr => match set (v_cfg var) (kgen (sk s)) tr k v with
                   | Some (tr', rc) => Some (mkSys (sk s) (sh s) (set_tree (trees s) t tr'), rc)
                   | None => None
                   end
      | None => None
      end
  | TGet t k =>
      match nth_error (trees s) t with
      | Some tr => match get (kgen (sk s)) tr k with
                   | Some v => Some (s, v)
                   | None => None
                   end
      | None => None
      end
  | TSpawn t =>
      match nth_error (trees s) t with
      | Some _ => Some (mkSys (sk s) (sh s) (set_tree (trees s) t empty), 0)
      | None => None
      end
  end.

Fixpoint sys_run (s : sys) (os : list sop) : option (sys * list Z) :=
  match os with
  | [] => Some (s, [])
  | o :: r =>
      match sys_step s o with
      | Some (s1, x) =>
          match sys_run s1 r with
          | Some (s2, xs) => Some (s2, x :: xs)
          | None => None
          end
      | None => None
      end
  end.

Definition sys_init (nthreads : nat) : sys := mkSys kinit [] (repeat empty nthreads).

(** executable form of the guard of [C10_fresh_key_null_partial]: a key is
    deleted only when no thread holds a non-NULL value under it, and values
    are stored only under live keys *)
Definition guardb (s : sys) (o : sop) : bool :=
  match o with
  | KDelete k => forallb (fun tr => match get (kgen (sk s)) tr k with Some 0 => true | _ => false end) (trees s)
  | TSet _ k _ => existsb (Z.eqb k) (sh s)
  | _ => true
  end.

Fixpoint guarded_run (s : sys) (os : list sop) : bool :=
  match os with
  | [] => true
  | o :: r => guardb s o && match sys_step s o with
                            | Some (s1, _) => guarded_run s1 r
                            | None => false
                            end
  end.

End Variant.

(** the witness of the stale-value finding *)
Definition stale_history : list sop :=
  [KCreate 0; TSet 0 0 777; KDelete 0; KCreate 0; TGet 0 0].
