(** Proofs about the lock-protected key allocator (C10 part 3, repaired code):
    mutual exclusion of the locked region + the sequential theorems give the
    FULL distinctness statement for every number of threads, every program and
    every schedule. *)
From Coq Require Import ZArith List Bool Lia Permutation.
From MT Require Import Lib.Interleave Tls.TlsTreeModel Tls.TlsTreeProofs.
From MT Require Import Tls.TlsKeysModel Tls.TlsKeysProofs Tls.TlsKeysLockModel.
Import ListNotations.
Local Open Scope Z_scope.

Lemma lnth_set_same l : forall t p q, nth_error l t = Some q -> nth_error (lset_nth l t p) t = Some p.
Proof.
  induction l as [|x r IH]; intros [|t] p q H; cbn in *; try discriminate; [reflexivity|]. eapply IH; exact H.
Qed.

Lemma lnth_set_other l : forall t u p, u <> t -> nth_error (lset_nth l t p) u = nth_error l u.
Proof.
  induction l as [|x r IH]; intros [|t] [|u] p H; cbn; try reflexivity; try congruence. apply IH. congruence.
Qed.

Lemma lnth_set_inv l t p q0 u q : nth_error l t = Some q0 ->
  nth_error (lset_nth l t p) u = Some q -> (u = t /\ q = p) \/ (u <> t /\ nth_error l u = Some q).
Proof.
  intros H0 H. destruct (Nat.eq_dec u t) as [->|Hne].
  - left. rewrite (lnth_set_same l t p q0 H0) in H. inversion H. split; reflexivity.
  - right. rewrite lnth_set_other in H by exact Hne. split; assumption.
Qed.

Section LockProofs.
Variable tagged : bool.

(** the explicit states of a sequential pop / push satisfy the sequential invariant *)
Lemma kinv_pop s h d : kinv s h -> kfree s <> NULL ->
  kinv (mkK (knext s (kfree s)) (fupd (knext s) (kfree s) LIVE) (fupd (kdtor s) (kfree s) d)
            (bump tagged s (kfree s))) (kfree s :: h).
Proof.
  intros Hi Hne. pose proof (seq_create_pop tagged s h d Hne) as E.
  destruct (seq_create_spec tagged s h d Hi) as [[_ E1]|[_ (k & s' & E1 & _ & _ & _ & _ & Hi' & _)]];
    rewrite E in E1; inversion E1; subst.
  - exfalso. clear -H1. induction h as [|x r IH]; [discriminate|]. inversion H1. apply IH. congruence.
  - exact Hi'.
Qed.

Lemma kinv_push s h k : kinv s h -> In k h ->
  kinv (mkK k (fupd (knext s) k (kfree s)) (kdtor s) (kgen s)) (remove1 k h).
Proof.
  intros Hi Hk. destruct (seq_delete_spec tagged s h k Hi) as [[_ (s' & E & Hi' & _)]|[Hn _]]; [|contradiction].
  assert (Hr : in_range k /\ knext s k = LIVE).
  { destruct Hi as (fl & _ & _ & Hin & Hl). split; [apply Hin, in_or_app; right; exact Hk|apply Hl; exact Hk]. }
  rewrite (seq_delete_live tagged s h k (proj1 Hr) (proj2 Hr)) in E. inversion E; subst. exact Hi'.
Qed.

Lemma kinv_held s h : kinv s h -> NoDup h /\ forall x, In x h -> in_range x /\ knext s x = LIVE.
Proof.
  intros Hi. destruct (kinv_distinct s h Hi) as (H1 & H2 & _). split; [exact H1|].
  intros x Hx. split; [apply H2; exact Hx|]. destruct Hi as (fl & _ & _ & _ & Hl). apply Hl. exact Hx.
Qed.

(** what holds while thread [p] is inside the locked region *)
Definition cs_inv (s : kst) (h : list Z) (p : lpc) : Prop :=
  match p with
  | LAHead _ => kinv s h
  | LANext ke _ => kinv s h /\ ke = kfree s /\ ke <> NULL
  | LAStore ke n _ => kinv s h /\ ke = kfree s /\ ke <> NULL /\ n = knext s ke
  | LDCheck k => kinv s h /\ in_range k
  | LDHead k f => exists h0, kinv s h0 /\ In k h0 /\ h = remove1 k h0
  | LDStore k f => exists s0 h0, kinv s0 h0 /\ In k h0 /\ h = remove1 k h0 /\
                     s = mkK (kfree s0) (fupd (knext s0) k (kfree s0)) (kdtor s0) (kgen s0)
  | LUnlock _ => kinv s h
  | _ => True
  end.

Definition wait_ok (p : lpc) : Prop :=
  match p with
  | LTry (Delete k) => in_range k
  | LWait (Delete k) => in_range k
  | _ => True
  end.

Record linv (s : lstate) : Prop := {
  li_cs : forall t p, nth_error (lthreads s) t = Some p -> in_cs p = true ->
          llock s = true /\ cs_inv (lks s) (lheld s) p;
  li_uniq : forall t1 t2 p1 p2, nth_error (lthreads s) t1 = Some p1 -> nth_error (lthreads s) t2 = Some p2 ->
            in_cs p1 = true -> in_cs p2 = true -> t1 = t2;
  li_free : (forall t p, nth_error (lthreads s) t = Some p -> in_cs p = false) -> kinv (lks s) (lheld s);
  li_wait : forall t p, nth_error (lthreads s) t = Some p -> wait_ok p
}.

Lemma lnth_repeat_idle n t p : nth_error (repeat LIdle n) t = Some p -> p = LIdle.
Proof. intros H. apply nth_error_In in H. apply repeat_spec in H. exact H. Qed.

Lemma linv_init n : linv (linit n).
Proof.
  constructor; unfold linit; cbn [lthreads llock lks lheld].
  - intros t p H Hc. apply lnth_repeat_idle in H. subst. discriminate.
  - intros t1 t2 p1 p2 H1 _ Hc. apply lnth_repeat_idle in H1. subst. discriminate.
  - intros _. exact kinv_init.
  - intros t p H. apply lnth_repeat_idle in H. subst. exact I.
Qed.

(** a thread outside the locked region moves to another place outside it *)
Lemma linv_outside s t p p' :
  linv s -> nth_error (lthreads s) t = Some p -> in_cs p = false -> in_cs p' = false -> wait_ok p' ->
  linv (mkL (llock s) (lks s) (lheld s) (lset_nth (lthreads s) t p')).
Proof.
  intros [Hcs Hu Hf Hw] Ht Hp Hp' Hw'. constructor; cbn [lthreads llock lks lheld].
  - intros u q Hu' Hq. destruct (lnth_set_inv _ _ _ _ _ _ Ht Hu') as [[-> ->]|[Hne Hu'']]; [congruence|].
    apply (Hcs u q Hu'' Hq).
  - intros t1 t2 p1 p2 H1 H2 C1 C2.
    destruct (lnth_set_inv _ _ _ _ _ _ Ht H1) as [[-> ->]|[Hne1 H1']]; [congruence|].
    destruct (lnth_set_inv _ _ _ _ _ _ Ht H2) as [[-> ->]|[Hne2 H2']]; [congruence|].
    apply (Hu t1 t2 p1 p2 H1' H2' C1 C2).
  - intros Hall. apply Hf. intros u q Hu'. destruct (Nat.eq_dec u t) as [->|Hne].
    + rewrite Ht in Hu'. inversion Hu'; subst. exact Hp.
    + apply (Hall u q). rewrite lnth_set_other by exact Hne. exact Hu'.
  - intros u q Hu'. destruct (lnth_set_inv _ _ _ _ _ _ Ht Hu') as [[-> ->]|[Hne Hu'']]; [exact Hw'|].
    apply (Hw u q Hu'').
Qed.

(** the owner of the lock takes a step inside the locked region *)
Lemma linv_inside s t p p' ks' h' :
  linv s -> nth_error (lthreads s) t = Some p -> in_cs p = true -> in_cs p' = true ->
  cs_inv ks' h' p' ->
  linv (mkL (llock s) ks' h' (lset_nth (lthreads s) t p')).
Proof.
  intros [Hcs Hu Hf Hw] Ht Hp Hp' Hi'. destruct (Hcs t p Ht Hp) as [Hlock _].
  constructor; cbn [lthreads llock lks lheld].
  - intros u q Hu' Hq. destruct (lnth_set_inv _ _ _ _ _ _ Ht Hu') as [[-> ->]|[Hne Hu'']].
    + split; [exact Hlock|exact Hi'].
    + exfalso. apply Hne. apply (Hu u t q p Hu'' Ht Hq Hp).
  - intros t1 t2 p1 p2 H1 H2 C1 C2.
    destruct (lnth_set_inv _ _ _ _ _ _ Ht H1) as [[-> ->]|[Hne1 H1']];
      destruct (lnth_set_inv _ _ _ _ _ _ Ht H2) as [[-> ->]|[Hne2 H2']].
    + reflexivity.
    + symmetry. apply (Hu t2 t p2 p H2' Ht C2 Hp).
    + apply (Hu t1 t p1 p H1' Ht C1 Hp).
    + apply (Hu t1 t2 p1 p2 H1' H2' C1 C2).
  - intros Hall. exfalso. specialize (Hall t p' (lnth_set_same _ _ _ _ Ht)). congruence.
  - intros u q Hu'. destruct (lnth_set_inv _ _ _ _ _ _ Ht Hu') as [[-> ->]|[Hne Hu'']].
    + destruct p'; try exact I; discriminate.
    + apply (Hw u q Hu'').
Qed.

Theorem linv_step s a s' : linv s -> lstep tagged s a = Some s' -> linv s'.
Proof.
  intros Hi Hs. destruct a as [t e]. unfold lstep in Hs.
  destruct (nth_error (lthreads s) t) as [p|] eqn:Ht; [|discriminate].
  destruct e as [o| |].
  - (* Call *)
    destruct p; try discriminate. inversion Hs; subst; clear Hs.
    apply (linv_outside s t LIdle); try assumption; try reflexivity.
    + unfold lstart. destruct o as [d|k]; [reflexivity|]. destruct (key_out_of_range k); reflexivity.
    + unfold lstart. destruct o as [d|k]; [exact I|].
      destruct (key_out_of_range k) eqn:E; [exact I|]. cbn [wait_ok].
      destruct (in_range_dec k) as [Hr|Hr]; [exact Hr|]. rewrite (key_oor_true k Hr) in E. discriminate.
  - (* Tick *)
    destruct p; cbn [lrunning] in Hs; try discriminate; cbn [ltick] in Hs.
    + (* LTry *)
      destruct (llock s) eqn:El.
      * inversion Hs; subst; clear Hs. rewrite <- El.
        apply (linv_outside s t (LTry o)); try assumption; try reflexivity.
        pose proof (li_wait s Hi t _ Ht) as Hw. destruct o; exact Hw.
      * inversion Hs; subst; clear Hs.
        (* nobody is inside the locked region *)
        assert (Hnone : forall u q, nth_error (lthreads s) u = Some q -> in_cs q = false).
        { intros u q Hu. destruct (in_cs q) eqn:Eq; [|reflexivity].
          destruct (li_cs s Hi u q Hu Eq) as [Hl _]. congruence. }
        pose proof (li_free s Hi Hnone) as Hk.
        pose proof (li_wait s Hi t _ Ht) as Hw.
        destruct Hi as [Hcs Hu Hf Hwt]. constructor; cbn [lthreads llock lks lheld].
        -- intros u q Hu' Hq. destruct (lnth_set_inv _ _ _ _ _ _ Ht Hu') as [[-> ->]|[Hne Hu'']].
           ++ split; [reflexivity|]. destruct o as [d|k]; cbn [enter cs_inv]; [exact Hk|split; [exact Hk|exact Hw]].
           ++ rewrite (Hnone u q Hu'') in Hq. discriminate.
        -- intros t1 t2 p1 p2 H1 H2 C1 C2.
           destruct (lnth_set_inv _ _ _ _ _ _ Ht H1) as [[-> ->]|[Hne1 H1']];
             destruct (lnth_set_inv _ _ _ _ _ _ Ht H2) as [[-> ->]|[Hne2 H2']]; try reflexivity.
           ++ rewrite (Hnone t2 p2 H2') in C2. discriminate.
           ++ rewrite (Hnone t1 p1 H1') in C1. discriminate.
           ++ rewrite (Hnone t1 p1 H1') in C1. discriminate.
        -- intros Hall. exfalso. specialize (Hall t (enter o) (lnth_set_same _ _ _ _ Ht)).
           destruct o; discriminate.
        -- intros u q Hu'. destruct (lnth_set_inv _ _ _ _ _ _ Ht Hu') as [[-> ->]|[Hne Hu'']].
           ++ destruct o; exact I.
           ++ apply (Hwt u q Hu'').
    + (* LWait *)
      inversion Hs; subst; clear Hs.
      apply (linv_outside s t (LWait o)); try assumption; try reflexivity.
      pose proof (li_wait s Hi t _ Ht) as Hw. destruct o; exact Hw.
    + (* LAHead *)
      destruct (li_cs s Hi t _ Ht eq_refl) as [_ Hc]. cbn [cs_inv] in Hc.
      destruct (kfree (lks s) =? NULL) eqn:E; inversion Hs; subst; clear Hs.
      * apply (linv_inside s t (LAHead d)); try assumption; try reflexivity.
      * apply (linv_inside s t (LAHead d)); try assumption; try reflexivity.
        cbn [cs_inv]. split; [exact Hc|]. split; [reflexivity|]. apply Z.eqb_neq. exact E.
    + (* LANext *)
      destruct (li_cs s Hi t _ Ht eq_refl) as [_ (Hc & He & Hn)].
      inversion Hs; subst; clear Hs.
      apply (linv_inside s t (LANext (kfree (lks s)) d)); try assumption; try reflexivity.
      cbn [cs_inv]. tauto.
    + (* LAStore *)
      destruct (li_cs s Hi t _ Ht eq_refl) as [_ (Hc & He & Hn & Hx)]. subst ke n.
      inversion Hs; subst; clear Hs.
      apply (linv_inside s t (LAStore (kfree (lks s)) (knext (lks s) (kfree (lks s))) d));
        try assumption; try reflexivity.
      cbn [cs_inv]. apply kinv_pop; assumption.
    + (* LDCheck *)
      destruct (li_cs s Hi t _ Ht eq_refl) as [_ (Hc & Hr)].
      destruct (knext (lks s) k =? LIVE) eqn:E; inversion Hs; subst; clear Hs.
      * apply Z.eqb_eq in E.
        apply (linv_inside s t (LDCheck k)); try assumption; try reflexivity.
        cbn [cs_inv]. exists (lheld s). split; [exact Hc|]. split; [|reflexivity].
        (* a cell of the valid range that carries the live mark is held *)
        destruct Hc as (fl & Hch & Hnd & Hin & Hl).
        assert (Hfr : forall x, In x fl -> in_range x) by (intros x Hx; apply Hin, in_or_app; left; exact Hx).
        apply Hin in Hr. apply in_app_or in Hr. destruct Hr as [Hr|Hr]; [|exact Hr].
        exfalso. apply (chain_not_live _ _ _ Hch Hfr k Hr). exact E.
      * apply (linv_inside s t (LDCheck k)); try assumption; try reflexivity.
    + (* LDHead *)
      destruct (li_cs s Hi t _ Ht eq_refl) as [_ (h0 & Hc & Hk & Hh)].
      inversion Hs; subst; clear Hs.
      apply (linv_inside s t (LDHead k f)); try assumption; try reflexivity.
      cbn [cs_inv]. exists (lks s), h0. tauto.
    + (* LDStore *)
      destruct (li_cs s Hi t _ Ht eq_refl) as [_ (s0 & h0 & Hc & Hk & Hh & Es)].
      inversion Hs; subst; clear Hs.
      apply (linv_inside s t (LDStore k f)); try assumption; try reflexivity.
      cbn [cs_inv]. rewrite Es, Hh. cbn [knext kdtor kgen]. apply kinv_push; assumption.
    + (* LUnlock *)
      destruct (li_cs s Hi t _ Ht eq_refl) as [_ Hc]. cbn [cs_inv] in Hc.
      inversion Hs; subst; clear Hs.
      destruct Hi as [Hcs Hu Hf Hwt]. constructor; cbn [lthreads llock lks lheld].
      * intros u q Hu' Hq. destruct (lnth_set_inv _ _ _ _ _ _ Ht Hu') as [[-> ->]|[Hne Hu'']]; [discriminate|].
        exfalso. apply Hne. apply (Hu u t q _ Hu'' Ht Hq eq_refl).
      * intros t1 t2 p1 p2 H1 H2 C1 C2.
        destruct (lnth_set_inv _ _ _ _ _ _ Ht H1) as [[-> ->]|[Hne1 H1']]; [discriminate|].
        destruct (lnth_set_inv _ _ _ _ _ _ Ht H2) as [[-> ->]|[Hne2 H2']]; [discriminate|].
        apply (Hu t1 t2 p1 p2 H1' H2' C1 C2).
      * intros _. exact Hc.
      * intros u q Hu'. destruct (lnth_set_inv _ _ _ _ _ _ Ht Hu') as [[-> ->]|[Hne Hu'']]; [exact I|].
        apply (Hwt u q Hu'').
  - (* Ret *)
    destruct p; try discriminate. inversion Hs; subst; clear Hs.
    apply (linv_outside s t (LDone r)); try assumption; reflexivity.
Qed.

Definition lis_init (s : lstate) : Prop := exists n, s = linit n.

Theorem linv_reachable s : reachable lis_init (lstep tagged) s -> linv s.
Proof.
  apply invariant_rule.
  - intros s0 [n ->]. apply linv_init.
  - intros s0 a s1 Hi Hst. eapply linv_step; eassumption.
Qed.

Lemma classic_cs_list (l : list lpc) :
  (exists t p, nth_error l t = Some p /\ in_cs p = true) \/
  (forall t p, nth_error l t = Some p -> in_cs p = false).
Proof.
  induction l as [|x r IH].
  - right. intros [|t] p H; discriminate H.
  - destruct (in_cs x) eqn:E; [left; exists 0%nat, x; split; [reflexivity|exact E]|].
    destruct IH as [(t & p & Ht & Hp)|Hn].
    + left. exists (S t), p. split; assumption.
    + right. intros [|t] p H; cbn in H; [inversion H; subst; exact E|apply (Hn t p H)].
Qed.

Lemma classic_cs s :
  (exists t p, nth_error (lthreads s) t = Some p /\ in_cs p = true) \/
  (forall t p, nth_error (lthreads s) t = Some p -> in_cs p = false).
Proof. apply classic_cs_list. Qed.

(** the keys handed out are distinct, valid and marked live in EVERY reachable
    state; and whenever no thread is inside the locked region the free list and
    the keys handed out partition the 1024 indices *)
Theorem linv_property s : linv s ->
  (NoDup (lheld s) /\ forall x, In x (lheld s) -> in_range x /\ knext (lks s) x = LIVE) /\
  ((forall t p, nth_error (lthreads s) t = Some p -> in_cs p = false) ->
   exists fl, chain (knext (lks s)) (kfree (lks s)) fl /\
              Permutation (fl ++ lheld s) (zrange 0 1024)) /\
  (forall t1 t2 p1 p2, nth_error (lthreads s) t1 = Some p1 -> nth_error (lthreads s) t2 = Some p2 ->
     in_cs p1 = true -> in_cs p2 = true -> t1 = t2) /\
  (llock s = false -> forall t p, nth_error (lthreads s) t = Some p -> in_cs p = false).
Proof.
  intros Hi. split; [|split; [|split]].
  - (* held keys *)
    destruct (classic_cs s) as [(t & p & Ht & Hp)|Hnone].
    + destruct (li_cs s Hi t p Ht Hp) as [_ Hc].
      destruct p; try discriminate; cbn [cs_inv] in Hc.
      * apply kinv_held; exact Hc.
      * apply kinv_held; tauto.
      * apply kinv_held; tauto.
      * apply kinv_held; tauto.
      * destruct Hc as (h0 & Hc & Hk & ->). destruct (kinv_held _ _ Hc) as [Hnd Hl].
        split; [apply remove1_nodup; exact Hnd|]. intros x Hx. apply Hl. eapply remove1_in; exact Hx.
      * destruct Hc as (s0 & h0 & Hc & Hk & -> & ->). destruct (kinv_held _ _ Hc) as [Hnd Hl].
        destruct (remove1_nodup k h0 Hnd) as [Hnd' Hnk].
        split; [exact Hnd'|]. intros x Hx. pose proof (remove1_in _ _ _ Hx) as Hx0.
        destruct (Hl x Hx0) as [H1 H2]. split; [exact H1|]. cbn [knext].
        rewrite fupd_other; [exact H2|]. intros ->. contradiction.
      * apply kinv_held; exact Hc.
    + apply kinv_held. apply (li_free s Hi). exact Hnone.
  - intros Hnone. destruct (kinv_distinct _ _ (li_free s Hi Hnone)) as (_ & _ & fl & H1 & H2). eauto.
  - apply (li_uniq s Hi).
  - intros Hl t p Ht. destruct (in_cs p) eqn:E; [|reflexivity].
    destruct (li_cs s Hi t p Ht E) as [Hl' _]. congruence.
Qed.
End LockProofs.

(** run alone, a call of the locked allocator does exactly what the sequential
    model of Tls/TlsKeysModel.v does, and leaves the lock free *)
Theorem lseq_op_eq tagged s h o :
  lseq_op tagged s h o =
  match seq_op tagged s h o with
  | Some (s', h', r) => Some (false, s', h', r)
  | None => None
  end.
Proof.
  unfold lseq_op, seq_op, lstart, start. destruct o as [d|k].
  - cbn [lrun_thread ltick enter run_thread tick].
    destruct (kfree s =? NULL) eqn:E; [reflexivity|].
    cbn [lrun_thread ltick run_thread tick]. rewrite Z.eqb_refl. reflexivity.
  - destruct (key_out_of_range k); [reflexivity|].
    cbn [lrun_thread ltick enter run_thread tick].
    destruct (knext s k =? LIVE) eqn:E; [|reflexivity].
    cbn [lrun_thread ltick run_thread tick kfree]. rewrite Z.eqb_refl. reflexivity.
Qed.

(** the schedule that breaks the lock-free allocator is harmless here *)
Theorem aba_schedule_locked_ok tagged :
  let s := run (lstep tagged) aba_schedule_locked (linit 3) in
  lheld s = [1; 2; 0] /\ lresult s 2 = Some 1 /\ llock s = false /\ kfree (lks s) = 3.
Proof. destruct tagged; vm_compute; repeat split; reflexivity. Qed.
