(** C11 — the walks executed when a thread terminates.

    Source: src/myth_tls_func.h [myth_tls_call_destructors_rec],
    [myth_tls_call_destructors], [myth_tls_tree_destroy_rec],
    [myth_tls_tree_destroy], [myth_tls_tree_node_free], [myth_tls_tree_fini];
    called from [myth_entry_point_cleanup] (src/myth_sched_func.h), which is
    entered when the thread function returns, from [myth_exit_body] and from
    [myth_testcancel_body] once a cancellation is acted on.

    The walks are transliterated as they are NOW (after commit 90cf288: an
    empty child is skipped and the key base advances by the child's stride) and,
    as a second pair of definitions [*_old], as they were before that commit
    (the loop stopped at the first empty child and the base advanced by the
    parent's stride), so that the model can exhibit the old failure.

    Effects are recorded as a trace of events:
      [ERead k]    the destructor cell [ka->keys[k]] is read,
      [ECall k v]  the destructor found in cell [k] is called with value [v],
      [EFree o]    the node of origin [o] is handed to [myth_free].
    The destructor table [dt] is the [destructor] column of the key table as it
    is when the thread terminates ([0] = NULL).  It is a total function on [Z]:
    whether a read stays inside the 1024 cells is a theorem about the trace,
    not a built-in of the model.  [None] = an [assert] of the C code fails.

    [kg] is the [gen] column of the key table (see Tls/TlsTreeModel.v): with
    generation tags the leaf loop replaces a value recorded under another
    incarnation of the index by NULL before it looks at the destructor; the
    code without tags is the instance [kg = fun _ => 0]. *)
From Coq Require Import ZArith List Bool.
From MT Require Import Tls.TlsTreeModel.
Import ListNotations.
Local Open Scope Z_scope.

Inductive ev := ERead (k : Z) | ECall (k v : Z) | EFree (o : origin).

(** the leaf loop: [for (i = 0; i < 16; i++, k++)]: read the value, read the
    destructor of cell [k], call it when it is not NULL (also when the value
    is NULL - this is what the code does, and what tests/myth_key_destructor.c
    relies on) *)
Definition leaf_slot (base : Z) (es : list (Z * Z)) (dt kg : Z -> Z) (i : nat) : list ev :=
  let k := base + Z.of_nat i in
  let e := nth i es (0, 0) in
  let val := if snd e =? kg k then fst e else 0 in
  ERead k :: (if dt k =? 0 then [] else [ECall k val]).

Definition leaf_loop (base : Z) (es : list (Z * Z)) (dt kg : Z -> Z) : list ev :=
  flat_map (leaf_slot base es dt kg) (seq 0 (Z.to_nat NLEAF)).

Definition children (n : node) : list node :=
  match n with Inner _ c0 c1 c2 c3 => [c0; c1; c2; c3] | _ => [] end.

Definition opt_app {A} (a b : option (list A)) : option (list A) :=
  match a, b with Some x, Some y => Some (x ++ y) | _, _ => None end.

(** the child loop of the repaired walks:
    [for (i..) { c = n->children[i]; if (c) rec(c, c_base); c_base += c_stride; }] *)
Fixpoint child_loop (f : node -> Z -> option (list ev)) (cs : list node) (c_base c_stride : Z)
  : option (list ev) :=
  match cs with
  | [] => Some []
  | c :: r =>
      opt_app (if is_nil c then Some [] else f c c_base)
              (child_loop f r (c_base + c_stride) c_stride)
  end.

(** the child loop before commit 90cf288:
    [for (i..) { c = n->children[i]; if (!c) break; rec(c, c_base); c_base += stride; }]
    ([stride] is the PARENT's stride) *)
Fixpoint child_loop_old (f : node -> Z -> option (list ev)) (cs : list node) (c_base stride : Z)
  : option (list ev) :=
  match cs with
  | [] => Some []
  | c :: r =>
      if is_nil c then Some []
      else opt_app (f c c_base) (child_loop_old f r (c_base + stride) stride)
  end.

Section Walks.
  Variable old : bool.       (* true: the walk as it was before 90cf288 *)
  Variable c : cfg.          (* layout: size of the embedded pool *)
  Variable dt : Z -> Z.      (* destructor column *)
  Variable kg : Z -> Z.      (* generation column *)

  Definition loop f cs c_base stride c_stride :=
    if old then child_loop_old f cs c_base stride else child_loop f cs c_base c_stride.

  (** [myth_tls_call_destructors_rec]; [levels = myth_tls_tree_depth - depth] *)
  Fixpoint calls_rec (levels : nat) (n : node) (base stride : Z) : option (list ev) :=
    match levels with
    | O => match n with
           | Leaf _ es => if stride =? NLEAF then Some (leaf_loop base es dt kg) else None
           | _ => None
           end
    | S l => match n with
             | Inner _ _ _ _ _ =>
                 let c_stride := Z.shiftr stride LOGC in
                 loop (fun ch b => calls_rec l ch b c_stride) (children n) base stride c_stride
             | _ => None
             end
    end.

  (** [myth_tls_tree_node_free]: nothing when the address lies inside the
      embedded buffer *)
  Definition node_free (o : origin) : list ev :=
    match o with
    | Pool off => if (off <? 0) || (off >=? c_pool c) then [EFree o] else []
    | Heap _ => [EFree o]
    end.

  Definition origin_of (n : node) : list origin :=
    match n with Nil => [] | Leaf o _ => [o] | Inner o _ _ _ _ => [o] end.

  (** [myth_tls_tree_destroy_rec]: children first, then the node itself; no
      type assertion in this walk ([depth < myth_tls_tree_depth] decides) *)
  Fixpoint destroy_rec (levels : nat) (n : node) (base stride : Z) : option (list ev) :=
    match levels with
    | O => Some (flat_map node_free (origin_of n))
    | S l =>
        let c_stride := Z.shiftr stride LOGC in
        opt_app (loop (fun ch b => destroy_rec l ch b c_stride) (children n) base stride c_stride)
                (Some (flat_map node_free (origin_of n)))
    end.

  (** [myth_tls_tree_fini] *)
  Definition fini (t : tree) : option (list ev) :=
    if is_nil (root t) then Some []
    else opt_app (calls_rec DEPTH (root t) 0 NKEYS) (destroy_rec DEPTH (root t) 0 NKEYS).
End Walks.

(** projections of a trace *)
Definition calls_of (evs : list ev) : list (Z * Z) :=
  flat_map (fun e => match e with ECall k v => [(k, v)] | _ => [] end) evs.
Definition reads_of (evs : list ev) : list Z :=
  flat_map (fun e => match e with ERead k => [k] | _ => [] end) evs.
Definition frees_of (evs : list ev) : list origin :=
  flat_map (fun e => match e with EFree o => [o] | _ => [] end) evs.

(** destructor table given as the list of keys that have a destructor *)
Definition dt_of (ks : list Z) (k : Z) : Z := if existsb (Z.eqb k) ks then 1 else 0.
