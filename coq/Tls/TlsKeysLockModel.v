(** C10 — the key allocator with its free list protected by a spin lock
    (repair of finding C10-key-freelist-aba).

    Source (repaired): src/myth_tls.h [myth_tls_key_allocator_t] gains
    [myth_spinlock_t lock]; src/myth_tls_func.h [myth_tls_key_allocator_alloc] /
    [_dealloc] take the lock ([myth_spin_lock_body], src/myth_spinlock_func.h),
    pop / push the list with plain loads and stores, and release it.

    One [ltick] = the code between two consecutive MYTH_VERIF hooks:
      "spin.trylock" (POINT, before the CAS on the lock word),
      "spin.wait"    (SPIN, after a failed CAS, before the next attempt),
      "key.alloc.readhead" / "key.alloc.readnext" / "key.alloc.cas" and
      "key.dealloc.check" / "key.dealloc.readhead" / "key.dealloc.cas"
                     (kept inside the locked region; the two ".cas" points now
                      precede the plain store that installs the new head),
      "spin.unlock"  (POINT, before the store that releases the lock).
    The cell operations are those of Tls/TlsKeysModel.v (same [kst], same ghost
    [held]).  No usage contract is needed any more: two concurrent deletes of
    the same key are serialised and the second one fails its liveness check. *)
From Coq Require Import ZArith List Bool String.
From MT Require Import Tls.TlsTreeModel Tls.TlsKeysModel.
Import ListNotations.
Local Open Scope Z_scope.

Inductive lpc :=
| LIdle
| LTry (o : op)             (* at "spin.trylock" *)
| LWait (o : op)            (* at "spin.wait" *)
| LAHead (d : Z)            (* lock held; at "key.alloc.readhead" *)
| LANext (ke d : Z)         (* at "key.alloc.readnext" *)
| LAStore (ke n d : Z)      (* at "key.alloc.cas" *)
| LDCheck (k : Z)           (* lock held; at "key.dealloc.check" *)
| LDHead (k f : Z)          (* at "key.dealloc.readhead" *)
| LDStore (k f : Z)         (* at "key.dealloc.cas" *)
| LUnlock (r : Z)           (* at "spin.unlock" *)
| LDone (r : Z).

Definition in_cs (p : lpc) : bool :=
  match p with
  | LAHead _ => true | LANext _ _ => true | LAStore _ _ _ => true
  | LDCheck _ => true | LDHead _ _ => true | LDStore _ _ => true
  | LUnlock _ => true
  | _ => false
  end.

(** first statement after the lock has been taken *)
Definition enter (o : op) : lpc :=
  match o with Create d => LAHead d | Delete k => LDCheck k end.

(** entry of a call up to its first hook ([dealloc] checks the range before
    it touches the lock) *)
Definition lstart (o : op) : lpc :=
  match o with
  | Create _ => LTry o
  | Delete k => if key_out_of_range k then LDone ERR else LTry o
  end.

Definition ltick (tagged : bool) (lk : bool) (s : kst) (h : list Z) (p : lpc)
  : bool * kst * list Z * lpc :=
  match p with
  | LTry o => if lk then (lk, s, h, LWait o) else (true, s, h, enter o)
  | LWait o => (lk, s, h, LTry o)
  | LAHead d =>
      let ke := kfree s in
      if ke =? NULL then (lk, s, h, LUnlock (-1)) else (lk, s, h, LANext ke d)
  | LANext ke d => (lk, s, h, LAStore ke (knext s ke) d)
  | LAStore ke n d =>
      (lk, mkK n (fupd (knext s) ke LIVE) (fupd (kdtor s) ke d) (bump tagged s ke), ke :: h, LUnlock ke)
  | LDCheck k =>
      if knext s k =? LIVE
      then (lk, mkK (kfree s) (knext s) (fupd (kdtor s) k 0) (kgen s), remove1 k h, LDHead k (kdtor s k))
      else (lk, s, h, LUnlock ERR)
  | LDHead k f => (lk, mkK (kfree s) (fupd (knext s) k (kfree s)) (kdtor s) (kgen s), h, LDStore k f)
  | LDStore k f => (lk, mkK k (knext s) (kdtor s) (kgen s), h, LUnlock f)
  | LUnlock r => (false, s, h, LDone r)
  | LIdle => (lk, s, h, LIdle)
  | LDone r => (lk, s, h, LDone r)
  end.

Definition lrunning (p : lpc) : bool :=
  match p with LIdle => false | LDone _ => false | _ => true end.

Record lstate := mkL { llock : bool; lks : kst; lheld : list Z; lthreads : list lpc }.

Fixpoint lset_nth (l : list lpc) (t : nat) (p : lpc) : list lpc :=
  match l, t with
  | [], _ => []
  | _ :: r, O => p :: r
  | x :: r, S j => x :: lset_nth r j p
  end.

Section Variant.
Variable tagged : bool.

(** every call is enabled for an idle thread: no usage contract *)
Definition lstep (s : lstate) (a : nat * ev) : option lstate :=
  let '(t, e) := a in
  match nth_error (lthreads s) t with
  | None => None
  | Some p =>
      match e with
      | Call o =>
          match p with
          | LIdle => Some (mkL (llock s) (lks s) (lheld s) (lset_nth (lthreads s) t (lstart o)))
          | _ => None
          end
      | Tick =>
          if lrunning p then
            let '(lk', s', h', p') := ltick tagged (llock s) (lks s) (lheld s) p in
            Some (mkL lk' s' h' (lset_nth (lthreads s) t p'))
          else None
      | Ret =>
          match p with
          | LDone _ => Some (mkL (llock s) (lks s) (lheld s) (lset_nth (lthreads s) t LIdle))
          | _ => None
          end
      end
  end.

(** one call run to completion by a single thread (lock initially free) *)
Fixpoint lrun_thread (fuel : nat) (lk : bool) (s : kst) (h : list Z) (p : lpc)
  : option (bool * kst * list Z * Z) :=
  match p with
  | LDone r => Some (lk, s, h, r)
  | LIdle => None
  | _ => match fuel with
         | O => None
         | S f => let '(lk', s', h', p') := ltick tagged lk s h p in lrun_thread f lk' s' h' p'
         end
  end.

Definition lseq_op (s : kst) (h : list Z) (o : op) : option (bool * kst * list Z * Z) :=
  lrun_thread 6 false s h (lstart o).
End Variant.

Definition linit (n : nat) : lstate := mkL false kinit [] (repeat LIdle n).

(** ** interface for the trace validator *)
Definition llabel_of (p : lpc) : string :=
  match p with
  | LTry _ => "spin.trylock"
  | LWait _ => "spin.wait"
  | LAHead _ => "key.alloc.readhead"
  | LANext _ _ => "key.alloc.readnext"
  | LAStore _ _ _ => "key.alloc.cas"
  | LDCheck _ => "key.dealloc.check"
  | LDHead _ _ => "key.dealloc.readhead"
  | LDStore _ _ => "key.dealloc.cas"
  | LUnlock _ => "spin.unlock"
  | _ => ""
  end%string.

Definition llabel_val (p : lpc) : Z :=
  match p with
  | LANext ke _ => ke
  | LAStore ke _ _ => ke
  | LDCheck k => k
  | LDHead k _ => k
  | LDStore k _ => k
  | _ => 0
  end.

Definition llabel (s : lstate) (t : nat) : string :=
  match nth_error (lthreads s) t with Some p => llabel_of p | None => ""%string end.

Definition lresult (s : lstate) (t : nat) : option Z :=
  match nth_error (lthreads s) t with Some (LDone r) => Some r | _ => None end.

(** the object's words: lock, head index, then the 1024 [next] fields *)
Definition lobs (s : lstate) : list Z :=
  (if llock s then 1 else 0) :: kfree (lks s) :: map (knext (lks s)) (zrange 0 1024).

(** the schedule that breaks the lock-free allocator (aba_schedule), replayed
    on the locked one: T0 is suspended inside the locked region, T1 and T2 spin *)
Definition lcall_run (t : nat) (o : op) (ticks : nat) : list (nat * ev) :=
  (t, Call o) :: repeat (t, Tick) ticks.

Definition aba_schedule_locked : list (nat * ev) :=
  lcall_run 0 (Create 7) 3 ++          (* T0: lock taken, head 0 and its successor 1 read *)
  lcall_run 1 (Create 8) 6 ++          (* T1 spins *)
  lcall_run 2 (Create 10) 4 ++         (* T2 spins *)
  repeat (0%nat, Tick) 2 ++ [(0%nat, Ret)] ++          (* T0 pops 0, unlocks *)
  repeat (1%nat, Tick) 8 ++ [(1%nat, Ret)] ++          (* T1 gets 1 *)
  lcall_run 1 (Create 9) 5 ++ [(1%nat, Ret)] ++        (* T1 gets 2 *)
  lcall_run 1 (Delete 1) 5 ++ [(1%nat, Ret)] ++        (* T1 deletes 1 *)
  repeat (2%nat, Tick) 8.                               (* T2 gets 1 again - no longer held by anyone *)
