(** Proofs about the radix tree model (C10 part 1; shared by C11). *)
From Coq Require Import ZArith List Bool Lia Permutation.
From MT Require Import Tls.TlsTreeModel.
Import ListNotations.
Local Open Scope Z_scope.

(** ** [zrange] *)
Lemma zrange_app a : forall lo b, zrange lo (a + b) = zrange lo a ++ zrange (lo + Z.of_nat a) b.
Proof.
  induction a as [|a IH]; intros lo b.
  - cbn [plus zrange app]. replace (lo + Z.of_nat 0) with lo by lia. reflexivity.
  - cbn [plus zrange app]. rewrite IH. replace (lo + 1 + Z.of_nat a) with (lo + Z.of_nat (S a)) by lia.
    reflexivity.
Qed.

Lemma zrange_in n : forall lo k, In k (zrange lo n) <-> lo <= k < lo + Z.of_nat n.
Proof.
  induction n as [|n IH]; intros lo k; cbn [zrange In].
  - split; [tauto|lia].
  - rewrite IH. lia.
Qed.

Lemma zrange_map_seq n : forall lo s, zrange (lo + Z.of_nat s) n = map (fun i => lo + Z.of_nat i) (seq s n).
Proof.
  induction n as [|n IH]; intros lo s; cbn [zrange seq map]; [reflexivity|].
  f_equal. replace (lo + Z.of_nat s + 1) with (lo + Z.of_nat (S s)) by lia. apply IH.
Qed.

Lemma zrange_nodup n : forall lo, NoDup (zrange lo n).
Proof.
  induction n as [|n IH]; intros lo; cbn [zrange]; constructor; [|apply IH].
  rewrite zrange_in. lia.
Qed.

(** ** index arithmetic *)
Lemma cidx_eq idx l : cidx idx l = (idx / 2 ^ (Z.of_nat l * 2 + 4)) mod 4.
Proof.
  unfold cidx, LOGC, LOGL, NCH. rewrite Z.shiftr_div_pow2 by lia.
  change (4 - 1) with (Z.ones 2). rewrite Z.land_ones by lia. reflexivity.
Qed.

Lemma lidx_eq idx : lidx idx = idx mod 16.
Proof.
  unfold lidx, NLEAF. change (16 - 1) with (Z.ones 4). rewrite Z.land_ones by lia. reflexivity.
Qed.

Lemma cidx_range idx l : 0 <= cidx idx l < 4.
Proof. rewrite cidx_eq. apply Z.mod_pos_bound. lia. Qed.

Lemma lidx_range idx : 0 <= lidx idx < 16.
Proof. rewrite lidx_eq. apply Z.mod_pos_bound. lia. Qed.

Lemma key_decomp k : 0 <= k < 1024 ->
  k = cidx k 2 * 256 + cidx k 1 * 64 + cidx k 0 * 16 + lidx k.
Proof.
  intros Hk. rewrite !cidx_eq, lidx_eq.
  change (2 ^ (Z.of_nat 2 * 2 + 4)) with 256.
  change (2 ^ (Z.of_nat 1 * 2 + 4)) with 64.
  change (2 ^ (Z.of_nat 0 * 2 + 4)) with 16.
  pose proof (Z.div_mod k 256 ltac:(lia)). pose proof (Z.mod_pos_bound k 256 ltac:(lia)).
  pose proof (Z.div_mod k 64 ltac:(lia)). pose proof (Z.mod_pos_bound k 64 ltac:(lia)).
  pose proof (Z.div_mod k 16 ltac:(lia)). pose proof (Z.mod_pos_bound k 16 ltac:(lia)).
  pose proof (Z.div_mod (k / 256) 4 ltac:(lia)). pose proof (Z.mod_pos_bound (k / 256) 4 ltac:(lia)).
  pose proof (Z.div_mod (k / 64) 4 ltac:(lia)). pose proof (Z.mod_pos_bound (k / 64) 4 ltac:(lia)).
  pose proof (Z.div_mod (k / 16) 4 ltac:(lia)). pose proof (Z.mod_pos_bound (k / 16) 4 ltac:(lia)).
  assert (k / 64 / 4 = k / 256) by (rewrite Z.div_div by lia; reflexivity).
  assert (k / 16 / 4 = k / 64) by (rewrite Z.div_div by lia; reflexivity).
  assert (0 <= k / 256 < 4) by (split; [apply Z.div_pos; lia | apply Z.div_lt_upper_bound; lia]).
  lia.
Qed.

(** two keys of the valid range with the same path are the same key *)
Definition same_path (levels : nat) (a b : Z) : Prop :=
  lidx a = lidx b /\ forall l, (l < levels)%nat -> cidx a l = cidx b l.

Lemma same_path_eq a b : 0 <= a < 1024 -> 0 <= b < 1024 -> same_path DEPTH a b -> a = b.
Proof.
  intros Ha Hb [Hl Hc]. rewrite (key_decomp a Ha), (key_decomp b Hb).
  rewrite Hl, (Hc 0%nat), (Hc 1%nat), (Hc 2%nat) by (unfold DEPTH; lia). reflexivity.
Qed.

Lemma same_path_dec levels a b : {same_path levels a b} + {~ same_path levels a b}.
Proof.
  induction levels as [|l IH].
  - destruct (Z.eq_dec (lidx a) (lidx b)) as [E|E].
    + left. split; [exact E|]. intros l Hl. lia.
    + right. intros [H _]. contradiction.
  - destruct IH as [[Hl Hc]|IH].
    + destruct (Z.eq_dec (cidx a l) (cidx b l)) as [E|E].
      * left. split; [exact Hl|]. intros j Hj.
        destruct (Nat.eq_dec j l) as [-> | Hne]; [exact E | apply Hc; lia].
      * right. intros [_ H]. apply E. apply H. lia.
    + right. intros [Hl Hc]. apply IH. split; [exact Hl|]. intros j Hj. apply Hc. lia.
Qed.

(** ** children *)
Lemma four c : 0 <= c < 4 -> c = 0 \/ c = 1 \/ c = 2 \/ c = 3.
Proof. lia. Qed.

Lemma child_set_same o c0 c1 c2 c3 c x : 0 <= c < 4 ->
  child (set_child (Inner o c0 c1 c2 c3) c x) c = x.
Proof. intros H. destruct (four c H) as [-> | [-> | [-> | ->]]]; reflexivity. Qed.

Lemma child_set_other o c0 c1 c2 c3 c c' x : 0 <= c < 4 -> 0 <= c' < 4 -> c <> c' ->
  child (set_child (Inner o c0 c1 c2 c3) c x) c' = child (Inner o c0 c1 c2 c3) c'.
Proof.
  intros H H' Hne.
  destruct (four c H) as [-> | [-> | [-> | ->]]]; destruct (four c' H') as [-> | [-> | [-> | ->]]];
    try reflexivity; exfalso; apply Hne; reflexivity.
Qed.

Lemma set_child_inner o c0 c1 c2 c3 c x :
  exists d0 d1 d2 d3, set_child (Inner o c0 c1 c2 c3) c x = Inner o d0 d1 d2 d3.
Proof.
  cbn [set_child].
  destruct (c =? 0); [eauto|]. destruct (c =? 1); [eauto|]. destruct (c =? 2); eauto.
Qed.

(** ** shape *)
Definition okc (l : nat) (c : node) : Prop := c = Nil \/ shapeb l c = true.

Lemma shapeb_not_nil l : shapeb l Nil = false.
Proof. destruct l; reflexivity. Qed.

Lemma shape_inner l o c0 c1 c2 c3 :
  shapeb (S l) (Inner o c0 c1 c2 c3) = true <-> okc l c0 /\ okc l c1 /\ okc l c2 /\ okc l c3.
Proof.
  cbn [shapeb]. rewrite !andb_true_iff. unfold okc.
  assert (E : forall c, match c with Nil => true | _ => shapeb l c end = true <-> c = Nil \/ shapeb l c = true).
  { intros c. destruct c; split; intros H; auto;
      destruct H as [H|H]; try discriminate; try exact H; try reflexivity. }
  rewrite !E. tauto.
Qed.

Lemma okc_child l o c0 c1 c2 c3 c :
  shapeb (S l) (Inner o c0 c1 c2 c3) = true -> okc l (child (Inner o c0 c1 c2 c3) c).
Proof.
  intros H. apply shape_inner in H. destruct H as (H0 & H1 & H2 & H3). cbn [child].
  destruct (c =? 0); [exact H0|]. destruct (c =? 1); [exact H1|]. destruct (c =? 2); [exact H2|exact H3].
Qed.

Lemma shape_set_child l o c0 c1 c2 c3 c x :
  shapeb (S l) (Inner o c0 c1 c2 c3) = true -> shapeb l x = true ->
  shapeb (S l) (set_child (Inner o c0 c1 c2 c3) c x) = true.
Proof.
  intros H Hx. apply shape_inner in H. destruct H as (H0 & H1 & H2 & H3).
  assert (Ho : okc l x) by (right; exact Hx).
  cbn [set_child].
  destruct (c =? 0); [apply shape_inner; tauto|].
  destruct (c =? 1); [apply shape_inner; tauto|].
  destruct (c =? 2); apply shape_inner; tauto.
Qed.

Lemma shape_S_inv l n : shapeb (S l) n = true -> exists o c0 c1 c2 c3, n = Inner o c0 c1 c2 c3.
Proof. destruct n; cbn [shapeb]; try discriminate. eauto 6. Qed.

Lemma shape_O_inv n : shapeb 0 n = true -> exists o es, n = Leaf o es /\ length es = 16%nat.
Proof.
  destruct n; cbn [shapeb]; try discriminate. intros H. apply Nat.eqb_eq in H. eauto.
Qed.

(** ** fresh nodes; entries *)
Lemma is_nil_true c : is_nil c = true <-> c = Nil.
Proof. destruct c; cbn; split; intros H; try reflexivity; discriminate. Qed.

Lemma is_nil_false c : is_nil c = false <-> c <> Nil.
Proof. destruct c; cbn; split; intros H; try reflexivity; try discriminate; contradiction H; reflexivity. Qed.

(** what a reader with generation column [kg] sees in a slot *)
Definition val_of (kg : Z -> Z) (idx : Z) (r : look) : option Z :=
  match r with
  | Absent => Some 0
  | Found v g => Some (if g =? kg idx then v else 0)
  | Bad => None
  end.

(** a slot is unchanged, or its (missing) leaf has been allocated and zeroed *)
Definition entry_ext (r r' : look) : Prop := r' = r \/ (r = Absent /\ r' = Found 0 0).

Lemma val_of_ext kg idx r r' : entry_ext r r' -> val_of kg idx r' = val_of kg idx r.
Proof.
  intros [-> | [-> ->]]; [reflexivity|]. cbn [val_of]. destruct (0 =? kg idx); reflexivity.
Qed.

Lemma entry_ext_refl r : entry_ext r r.
Proof. left. reflexivity. Qed.

Lemma nth_repeat_00 i n : nth i (repeat (0, 0) n) (0, 0) = (0, 0).
Proof. revert i; induction n as [|n IH]; intros i; destruct i; cbn; auto. Qed.

Lemma upd_length l : forall i v, length (upd l i v) = length l.
Proof. induction l as [|x r IH]; intros [|i] v; cbn; auto. Qed.

Lemma nth_upd_same l : forall i v, (i < length l)%nat -> nth i (upd l i v) (0, 0) = v.
Proof.
  induction l as [|x r IH]; intros [|i] v H; cbn in *; try lia; auto. apply IH. lia.
Qed.

Lemma nth_upd_other l : forall i j v, i <> j -> nth j (upd l i v) (0, 0) = nth j l (0, 0).
Proof.
  induction l as [|x r IH]; intros [|i] [|j] v H; cbn; auto; try congruence.
Qed.

Lemma find_rec_step l o c0 c1 c2 c3 idx :
  find_rec (S l) (Inner o c0 c1 c2 c3) idx =
  if is_nil (child (Inner o c0 c1 c2 c3) (cidx idx l)) then Absent
  else find_rec l (child (Inner o c0 c1 c2 c3) (cidx idx l)) idx.
Proof. reflexivity. Qed.

Lemma find_non_nil l c idx : c <> Nil ->
  (if is_nil c then Absent else find_rec l c idx) = find_rec l c idx.
Proof. intros H. apply is_nil_false in H. rewrite H. reflexivity. Qed.

Definition in_range (k : Z) : Prop := 0 <= k < 1024.

Lemma out_of_range_false k : in_range k -> out_of_range k = false.
Proof.
  unfold in_range, out_of_range, NKEYS. intros H.
  apply orb_false_iff. split; [apply Z.ltb_ge; lia|]. rewrite Z.geb_leb. apply Z.leb_gt. lia.
Qed.

Lemma out_of_range_true k : ~ in_range k -> out_of_range k = true.
Proof.
  unfold in_range, out_of_range, NKEYS. intros H. apply orb_true_iff.
  destruct (Z.ltb_spec k 0) as [E|E]; [left; reflexivity|right].
  rewrite Z.geb_leb. apply Z.leb_le. lia.
Qed.

Lemma look_tree_in t k : in_range k ->
  look_tree t k = if is_nil (root t) then Absent else find_rec DEPTH (root t) k.
Proof. intros H. unfold look_tree. rewrite (out_of_range_false k H). reflexivity. Qed.

Lemma look_tree_out t k : ~ in_range k -> look_tree t k = Absent.
Proof. intros H. unfold look_tree. rewrite (out_of_range_true k H). reflexivity. Qed.

Lemma get_val_of kg t k : get kg t k = val_of kg k (look_tree t k).
Proof. reflexivity. Qed.

Lemma get_of_look kg t k v : look_tree t k = Found v (kg k) -> get kg t k = Some v.
Proof. unfold get. intros ->. rewrite Z.eqb_refl. reflexivity. Qed.

(** a slot written under another generation reads NULL *)
Lemma stale_hidden kg t k v g : look_tree t k = Found v g -> g <> kg k -> get kg t k = Some 0.
Proof. unfold get. intros -> H. apply Z.eqb_neq in H. rewrite H. reflexivity. Qed.

Lemma get_kg_ext kg kg' t k : kg k = kg' k -> get kg t k = get kg' t k.
Proof. unfold get. intros ->. reflexivity. Qed.

Theorem get_empty kg k : get kg empty k = Some 0.
Proof. unfold get, look_tree. destruct (out_of_range k); reflexivity. Qed.

Lemma find_not_bad l : forall n idx, shapeb l n = true -> find_rec l n idx <> Bad.
Proof.
  induction l as [|l IH]; intros n idx Hs.
  - apply shape_O_inv in Hs. destruct Hs as (o' & es' & -> & _). discriminate.
  - destruct (shape_S_inv _ _ Hs) as (o' & d0 & d1 & d2 & d3 & ->). rewrite find_rec_step.
    destruct (is_nil (child (Inner o' d0 d1 d2 d3) (cidx idx l))) eqn:En; [discriminate|].
    apply is_nil_false in En.
    destruct (okc_child l o' d0 d1 d2 d3 (cidx idx l) Hs) as [Hc|Hc]; [contradiction|].
    apply IH. exact Hc.
Qed.

Definition wf (t : tree) : Prop := root t = Nil \/ shapeb DEPTH (root t) = true.

Lemma wf_empty : wf empty.
Proof. left. reflexivity. Qed.

Section WithCfg.
Variable c : cfg.

Lemma alloc_leaf_spec a n a' : alloc_leaf c a = (n, a') ->
  exists o, node_alloc c a (c_leaf c) = (o, a') /\ n = Leaf o (repeat (0, 0) 16).
Proof.
  unfold alloc_leaf. destruct (node_alloc c a (c_leaf c)) as [o a1]. intros H; inversion H; subst. eauto.
Qed.

Lemma alloc_node_spec a n a' : alloc_node c a = (n, a') ->
  exists o, node_alloc c a SZ_NODE = (o, a') /\ n = Inner o Nil Nil Nil Nil.
Proof.
  unfold alloc_node. destruct (node_alloc c a SZ_NODE) as [o a1]. intros H; inversion H; subst. eauto.
Qed.

(** the node allocated for a missing child at a position with [l] levels below *)
Definition alloc_at (l : nat) (a : ast) : node * ast :=
  match l with O => alloc_leaf c a | S _ => alloc_node c a end.

Lemma alloc_at_shape l a n a' : alloc_at l a = (n, a') -> shapeb l n = true.
Proof.
  destruct l as [|l]; cbn [alloc_at]; intros H.
  - apply alloc_leaf_spec in H. destruct H as (o & _ & ->). reflexivity.
  - apply alloc_node_spec in H. destruct H as (o & _ & ->). reflexivity.
Qed.

Lemma alloc_at_find l a n a' idx : alloc_at l a = (n, a') ->
  find_rec l n idx = Absent \/ find_rec l n idx = Found 0 0.
Proof.
  destruct l as [|l]; cbn [alloc_at]; intros H.
  - apply alloc_leaf_spec in H. destruct H as (o & _ & ->). right. cbn [find_rec].
    rewrite nth_repeat_00. reflexivity.
  - apply alloc_node_spec in H. destruct H as (o & _ & ->). left. cbn [find_rec child].
    destruct (cidx idx l =? 0); [reflexivity|]. destruct (cidx idx l =? 1); [reflexivity|].
    destruct (cidx idx l =? 2); reflexivity.
Qed.

(** ** set / find at one subtree *)
Lemma set_rec_step l o c0 c1 c2 c3 idx e a :
  set_rec c (S l) (Inner o c0 c1 c2 c3) idx e a =
  let n := Inner o c0 c1 c2 c3 in
  let ci := cidx idx l in
  let '(x, a1) := if is_nil (child n ci) then alloc_at l a else (child n ci, a) in
  match set_rec c l x idx e a1 with
  | Some (c2', a2) => Some (set_child n ci c2', a2)
  | None => None
  end.
Proof. reflexivity. Qed.

(** the child that [set] descends into: the existing one, or a fresh one *)
Lemma descend_cases l n ci a x a1 :
  (if is_nil (child n ci) then alloc_at l a else (child n ci, a)) = (x, a1) ->
  (child n ci = Nil /\ alloc_at l a = (x, a1)) \/ (child n ci <> Nil /\ x = child n ci /\ a1 = a).
Proof.
  destruct (is_nil (child n ci)) eqn:E; intros H.
  - left. split; [apply is_nil_true; exact E|exact H].
  - right. inversion H; subst. split; [apply is_nil_false; exact E|split; reflexivity].
Qed.

Lemma set_rec_spec levels : forall n idx e a, shapeb levels n = true ->
  exists n' a', set_rec c levels n idx e a = Some (n', a') /\
    shapeb levels n' = true /\
    find_rec levels n' idx = Found (fst e) (snd e) /\
    (forall idx', ~ same_path levels idx idx' ->
       entry_ext (find_rec levels n idx') (find_rec levels n' idx')).
Proof.
  induction levels as [|l IH]; intros n idx e a Hs.
  - apply shape_O_inv in Hs. destruct Hs as (o & es & -> & Hlen).
    eexists _, _. split; [reflexivity|]. cbn [shapeb find_rec].
    pose proof (lidx_range idx) as Hr.
    split; [rewrite upd_length, Hlen; reflexivity|].
    split; [rewrite nth_upd_same by (rewrite Hlen; lia); reflexivity|].
    intros idx' Hd. left. rewrite nth_upd_other; [reflexivity|].
    intros E. apply Hd. split; [|intros j Hj; lia].
    pose proof (lidx_range idx'). apply Z2Nat.inj; lia.
  - destruct (shape_S_inv _ _ Hs) as (o & c0 & c1 & c2 & c3 & ->).
    rewrite set_rec_step. cbv zeta.
    set (n := Inner o c0 c1 c2 c3) in *. set (ci := cidx idx l).
    pose proof (cidx_range idx l) as Hci. fold ci in Hci.
    destruct (if is_nil (child n ci) then alloc_at l a else (child n ci, a)) as [x a1] eqn:Ed.
    assert (Hx : shapeb l x = true).
    { destruct (descend_cases _ _ _ _ _ _ Ed) as [[_ Ha]|[Hnn [-> _]]].
      - eapply alloc_at_shape; exact Ha.
      - destruct (okc_child l o c0 c1 c2 c3 ci Hs) as [E|E]; [contradiction|exact E]. }
    destruct (IH x idx e a1 Hx) as (x' & a2 & Hset & Hs' & Hf & Hfr).
    rewrite Hset. eexists _, _. split; [reflexivity|].
    assert (Hx'nn : x' <> Nil) by (intros ->; rewrite shapeb_not_nil in Hs'; discriminate).
    split; [apply shape_set_child; assumption|].
    destruct (set_child_inner o c0 c1 c2 c3 ci x') as (d0 & d1 & d2 & d3 & Esc).
    split.
    + unfold n. rewrite Esc, find_rec_step, <- Esc. fold ci. rewrite child_set_same by exact Hci.
      rewrite find_non_nil by exact Hx'nn. exact Hf.
    + intros idx' Hd. unfold n. rewrite Esc, !find_rec_step, <- Esc.
      pose proof (cidx_range idx' l) as Hci'.
      destruct (Z.eq_dec ci (cidx idx' l)) as [E|E].
      * rewrite <- E, child_set_same by exact Hci. rewrite (find_non_nil l x') by exact Hx'nn.
        assert (Hd' : ~ same_path l idx idx').
        { intros [Hl Hc]. apply Hd. split; [exact Hl|]. intros j Hj.
          destruct (Nat.eq_dec j l) as [-> | Hne]; [exact E|apply Hc; lia]. }
        specialize (Hfr idx' Hd').
        destruct (descend_cases _ _ _ _ _ _ Ed) as [[Hnil Ha]|[Hnn [-> _]]].
        -- fold n. rewrite Hnil. cbn [is_nil].
           destruct (alloc_at_find l a x a1 idx' Ha) as [Ef|Ef]; rewrite Ef in Hfr;
             destruct Hfr as [Hr | [Hr1 Hr2]]; rewrite ?Hr, ?Hr2;
             try (left; reflexivity); try (right; split; reflexivity); discriminate Hr1.
        -- fold n. rewrite find_non_nil by exact Hnn. exact Hfr.
      * rewrite child_set_other by (try exact Hci; try exact Hci'; exact E). left. reflexivity.
Qed.

(** ** whole trees *)
Inductive reach : tree -> Prop :=
| reach_empty : reach empty
| reach_set : forall kg t k v t' rc, reach t -> set c kg t k v = Some (t', rc) -> reach t'.

(** the root that [set] works on *)
Definition root_for_set (t : tree) : node * ast :=
  if is_nil (root t) then alloc_node c (pp t, nheap t) else (root t, (pp t, nheap t)).

Lemma set_unfold kg t k v : in_range k ->
  set c kg t k v = let '(r, a) := root_for_set t in
              match set_rec c DEPTH r k (v, kg k) a with
              | Some (r', (p', h')) => Some (mkTree r' p' h', 0)
              | None => None
              end.
Proof. intros H. unfold set, root_for_set. rewrite (out_of_range_false k H). reflexivity. Qed.

Lemma root_for_set_cases t r a : root_for_set t = (r, a) ->
  (root t = Nil /\ alloc_at DEPTH (pp t, nheap t) = (r, a)) \/
  (root t <> Nil /\ r = root t /\ a = (pp t, nheap t)).
Proof.
  unfold root_for_set. destruct (is_nil (root t)) eqn:E; intros H.
  - left. split; [apply is_nil_true; exact E|exact H].
  - right. inversion H; subst. split; [apply is_nil_false; exact E|split; reflexivity].
Qed.

Theorem set_in_range_spec kg t k v : wf t -> in_range k ->
  exists t', set c kg t k v = Some (t', 0) /\ wf t' /\ root t' <> Nil /\
    look_tree t' k = Found v (kg k) /\
    (forall k', k' <> k -> entry_ext (look_tree t k') (look_tree t' k')).
Proof.
  intros Hwf Hk. rewrite (set_unfold kg t k v Hk).
  destruct (root_for_set t) as [r a] eqn:Er.
  assert (Hr : shapeb DEPTH r = true).
  { destruct (root_for_set_cases _ _ _ Er) as [[_ Ha]|[Hnn [-> _]]].
    - eapply alloc_at_shape; exact Ha.
    - destruct Hwf as [E|E]; [contradiction|exact E]. }
  destruct (set_rec_spec DEPTH r k (v, kg k) a Hr) as (r' & [p' h'] & Hset & Hs' & Hf & Hfr).
  rewrite Hset. eexists. split; [reflexivity|].
  assert (Hnn : r' <> Nil) by (intros ->; rewrite shapeb_not_nil in Hs'; discriminate).
  split; [right; exact Hs'|]. split; [exact Hnn|].
  split.
  - rewrite look_tree_in by exact Hk. cbn [root]. rewrite find_non_nil by exact Hnn. exact Hf.
  - intros k' Hne.
    destruct (Z_lt_dec k' 0) as [Hlo|Hlo];
      [rewrite !look_tree_out by (unfold in_range; lia); apply entry_ext_refl|].
    destruct (Z_lt_dec k' 1024) as [Hhi|Hhi];
      [|rewrite !look_tree_out by (unfold in_range; lia); apply entry_ext_refl].
    assert (Hk' : in_range k') by (unfold in_range; lia).
    rewrite !look_tree_in by exact Hk'. cbn [root]. rewrite (find_non_nil DEPTH r') by exact Hnn.
    assert (Hd : ~ same_path DEPTH k k').
    { intros Hp. apply Hne. symmetry. apply same_path_eq; assumption. }
    specialize (Hfr k' Hd).
    destruct (root_for_set_cases _ _ _ Er) as [[Hnil Ha]|[Hnn' [-> _]]].
    + rewrite Hnil. cbn [is_nil].
      destruct (alloc_at_find DEPTH _ r a k' Ha) as [Ef|Ef]; rewrite Ef in Hfr;
        destruct Hfr as [Hr0 | [Hr1 Hr2]]; rewrite ?Hr0, ?Hr2;
        try (left; reflexivity); try (right; split; reflexivity); discriminate Hr1.
    + rewrite find_non_nil by exact Hnn'. exact Hfr.
Qed.

Lemma set_out_of_range kg t k v : ~ in_range k -> set c kg t k v = Some (t, EINVAL).
Proof. intros H. unfold set. rewrite (out_of_range_true k H). reflexivity. Qed.

(** either the key is out of range and nothing happens, or it is in range *)
Lemma set_cases kg t k v t' rc : set c kg t k v = Some (t', rc) ->
  (~ in_range k /\ t' = t /\ rc = EINVAL) \/ in_range k.
Proof.
  intros Hset.
  destruct (Z_lt_dec k 0) as [Hlo|Hlo];
    [rewrite set_out_of_range in Hset by (unfold in_range; lia); inversion Hset; subst;
     left; unfold in_range; split; [lia|split; reflexivity]|].
  destruct (Z_lt_dec k 1024) as [Hhi|Hhi];
    [right; unfold in_range; lia|].
  rewrite set_out_of_range in Hset by (unfold in_range; lia). inversion Hset; subst.
  left; unfold in_range; split; [lia|split; reflexivity].
Qed.

Lemma reach_wf t : reach t -> wf t.
Proof.
  induction 1 as [|kg t k v t' rc Hr IH Hset]; [exact wf_empty|].
  destruct (set_cases _ _ _ _ _ _ Hset) as [(_ & -> & _)|Hk]; [exact IH|].
  destruct (set_in_range_spec kg t k v IH Hk) as (t2 & H1 & H2 & _).
  rewrite H1 in Hset. inversion Hset; subst. exact H2.
Qed.

(** *** the theorems of C10 part 1 *)
Theorem get_after_set kg t k v : reach t -> in_range k ->
  exists t', set c kg t k v = Some (t', 0) /\ get kg t' k = Some v.
Proof.
  intros Hr Hk. destruct (set_in_range_spec kg t k v (reach_wf t Hr) Hk) as (t' & H1 & _ & _ & H2 & _).
  exists t'. split; [exact H1|apply get_of_look; exact H2].
Qed.

(** a store leaves every other slot as it was (or allocates and zeroes its leaf) *)
Lemma set_entries kg t k v t' rc k' : reach t -> set c kg t k v = Some (t', rc) -> k' <> k ->
  entry_ext (look_tree t k') (look_tree t' k').
Proof.
  intros Hr Hset Hne.
  destruct (set_cases _ _ _ _ _ _ Hset) as [(_ & -> & _)|Hk]; [apply entry_ext_refl|].
  destruct (set_in_range_spec kg t k v (reach_wf t Hr) Hk) as (t2 & H1 & _ & _ & _ & H2).
  rewrite H1 in Hset. inversion Hset; subst. apply H2. exact Hne.
Qed.

(** ... so whoever reads, with whatever generation column, reads the same under every other key *)
Theorem set_frame kg t k v t' rc k' kg' : reach t -> set c kg t k v = Some (t', rc) -> k' <> k ->
  get kg' t' k' = get kg' t k'.
Proof.
  intros Hr Hset Hne. rewrite !get_val_of. apply val_of_ext. eapply set_entries; eassumption.
Qed.

(** what a slot can hold after a store *)
Lemma set_slot kg t k v t' rc k' v' g' : reach t -> set c kg t k v = Some (t', rc) ->
  look_tree t' k' = Found v' g' ->
  (k' = k /\ in_range k /\ v' = v /\ g' = kg k) \/ look_tree t k' = Found v' g' \/ (v' = 0 /\ g' = 0).
Proof.
  intros Hr Hset Hl. destruct (Z.eq_dec k' k) as [->|Hne].
  - destruct (set_cases _ _ _ _ _ _ Hset) as [(_ & -> & _)|Hk]; [right; left; exact Hl|].
    destruct (set_in_range_spec kg t k v (reach_wf t Hr) Hk) as (t2 & H1 & _ & _ & H2 & _).
    rewrite H1 in Hset. inversion Hset; subst. rewrite H2 in Hl. inversion Hl; subst. left. tauto.
  - destruct (set_entries kg t k v t' rc k' Hr Hset Hne) as [E|[E1 E2]].
    + right. left. rewrite <- E. exact Hl.
    + rewrite E2 in Hl. inversion Hl; subst. right. right. tauto.
Qed.

Theorem out_of_range_rejected kg t k v : ~ in_range k ->
  set c kg t k v = Some (t, EINVAL) /\ get kg t k = Some 0.
Proof.
  intros H. split; [apply set_out_of_range; exact H|].
  unfold get. rewrite look_tree_out by exact H. reflexivity.
Qed.

Theorem set_total kg t k v : reach t ->
  exists t' rc, set c kg t k v = Some (t', rc) /\ (rc = 0 <-> in_range k).
Proof.
  intros Hr.
  destruct (Z_lt_dec k 0) as [Hlo|Hlo].
  { exists t, EINVAL. split; [apply set_out_of_range; unfold in_range; lia|].
    unfold EINVAL, in_range. split; [discriminate|lia]. }
  destruct (Z_lt_dec k 1024) as [Hhi|Hhi].
  2:{ exists t, EINVAL. split; [apply set_out_of_range; unfold in_range; lia|].
      unfold EINVAL, in_range. split; [discriminate|lia]. }
  assert (Hk : in_range k) by (unfold in_range; lia).
  destruct (set_in_range_spec kg t k v (reach_wf t Hr) Hk) as (t' & H1 & _).
  exists t', 0. split; [exact H1|]. split; [intros _; exact Hk|reflexivity].
Qed.

Theorem get_total kg t k : reach t -> exists v, get kg t k = Some v.
Proof.
  intros Hr. pose proof (reach_wf t Hr) as Hwf. unfold get, look_tree.
  destruct (out_of_range k); [eauto|].
  destruct (is_nil (root t)) eqn:En; [eauto|]. apply is_nil_false in En.
  destruct Hwf as [E|E]; [contradiction|].
  pose proof (find_not_bad DEPTH (root t) k E) as G.
  destruct (find_rec DEPTH (root t) k); [eauto|eauto|contradiction].
Qed.

(** every list of (key, value) pairs drives the empty tree to a reachable tree *)
Lemma set_all_reach kg kvs : forall t, reach t -> exists t', set_all c kg t kvs = Some t' /\ reach t'.
Proof.
  induction kvs as [|[k v] r IH]; intros t Hr; cbn [set_all]; [eauto|].
  destruct (set_total kg t k v Hr) as (t1 & rc & H1 & _). rewrite H1.
  apply IH. eapply reach_set; eassumption.
Qed.

Lemma set_all_some_reach kg kvs : forall t t', reach t -> set_all c kg t kvs = Some t' -> reach t'.
Proof.
  induction kvs as [|[k v] r IH]; intros t t' Hr H; cbn [set_all] in H.
  - inversion H; subst; exact Hr.
  - destruct (set c kg t k v) as [[t1 rc]|] eqn:E; [|discriminate].
    eapply IH; [|exact H]. eapply reach_set; eassumption.
Qed.

(** ... and every reachable tree arises from a list of stores (each with the
    generation column of its moment) *)
Fixpoint set_steps (t : tree) (l : list ((Z -> Z) * Z * Z)) : option tree :=
  match l with
  | [] => Some t
  | (kg, k, v) :: r => match set c kg t k v with
                       | Some (t', _) => set_steps t' r
                       | None => None
                       end
  end.

Lemma set_steps_app a : forall t t1, set_steps t a = Some t1 -> forall b, set_steps t (a ++ b) = set_steps t1 b.
Proof.
  induction a as [|[[kg k] v] r IH]; intros t t1 H b; cbn [set_steps app] in *.
  - inversion H; reflexivity.
  - destruct (set c kg t k v) as [[t2 rc]|]; [|discriminate]. apply IH. exact H.
Qed.

Lemma reach_set_steps t : reach t -> exists l, set_steps empty l = Some t.
Proof.
  induction 1 as [|kg t k v t' rc Hr [l IH] Hset]; [exists []; reflexivity|].
  exists (l ++ [(kg, k, v)]). rewrite (set_steps_app _ _ _ IH). cbn [set_steps]. rewrite Hset. reflexivity.
Qed.

(** ** the bump pool *)
Hypothesis leaf_pos : 0 < c_leaf c.
Hypothesis pool_nonneg : 0 <= c_pool c.

Definition org_ok (a : ast) (x : origin * Z) : Prop :=
  match fst x with
  | Pool off => 0 <= off /\ off + snd x <= fst a
  | Heap id => 0 <= id < snd a
  end.

Definition pool_inv (ns : list (origin * Z)) (a : ast) : Prop :=
  0 <= fst a <= c_pool c /\ 0 <= snd a /\ Forall (org_ok a) ns /\ NoDup (map fst ns) /\
  Forall (fun x => 0 < snd x) ns.

Inductive fresh_chain : ast -> list (origin * Z) -> ast -> Prop :=
| fc_nil : forall a, fresh_chain a [] a
| fc_cons : forall a sz o a1 rest a', 0 < sz -> node_alloc c a sz = (o, a1) ->
    fresh_chain a1 rest a' -> fresh_chain a ((o, sz) :: rest) a'.

Lemma org_ok_mono a a' x : fst a <= fst a' -> snd a <= snd a' -> org_ok a x -> org_ok a' x.
Proof. unfold org_ok. destruct (fst x); lia. Qed.

Lemma pool_inv_alloc ns a sz o a1 : pool_inv ns a -> 0 < sz -> node_alloc c a sz = (o, a1) ->
  pool_inv ((o, sz) :: ns) a1.
Proof.
  intros (Hp & Hh & Hok & Hnd & Hsz) Hpos Ha. destruct a as [p h]. cbn [fst snd] in *.
  unfold node_alloc in Ha. destruct (p + sz <=? c_pool c) eqn:E; inversion Ha; subst; clear Ha.
  - apply Z.leb_le in E. unfold pool_inv. cbn [fst snd map].
    split; [lia|]. split; [lia|]. split.
    + constructor; [unfold org_ok; cbn; lia|].
      eapply Forall_impl; [|exact Hok]. intros x. apply org_ok_mono; cbn; lia.
    + split; [|constructor; [cbn; lia|exact Hsz]].
      constructor; [|exact Hnd]. intros Hin. apply in_map_iff in Hin.
      destruct Hin as ([o' s'] & Heq & Hin). cbn in Heq. subst o'.
      rewrite Forall_forall in Hok, Hsz. specialize (Hok _ Hin). specialize (Hsz _ Hin).
      unfold org_ok in Hok. cbn in Hok, Hsz. lia.
  - unfold pool_inv. cbn [fst snd map].
    split; [lia|]. split; [lia|]. split.
    + constructor; [unfold org_ok; cbn; lia|].
      eapply Forall_impl; [|exact Hok]. intros x. apply org_ok_mono; cbn; lia.
    + split; [|constructor; [cbn; lia|exact Hsz]].
      constructor; [|exact Hnd]. intros Hin. apply in_map_iff in Hin.
      destruct Hin as ([o' s'] & Heq & Hin). cbn in Heq. subst o'.
      rewrite Forall_forall in Hok. specialize (Hok _ Hin). unfold org_ok in Hok. cbn in Hok. lia.
Qed.

Lemma pool_inv_perm ns ns' a : Permutation ns ns' -> pool_inv ns a -> pool_inv ns' a.
Proof.
  intros P (Hp & Hh & Hok & Hnd & Hsz). unfold pool_inv.
  split; [exact Hp|]. split; [exact Hh|]. split; [eapply Permutation_Forall; eassumption|].
  split; [|eapply Permutation_Forall; eassumption].
  eapply Permutation_NoDup; [|exact Hnd]. apply Permutation_map. exact P.
Qed.

Lemma pool_inv_chain new : forall a ns a', fresh_chain a new a' -> pool_inv ns a ->
  pool_inv (rev new ++ ns) a'.
Proof.
  induction new as [|[o sz] r IH]; intros a ns a' Hc Hi.
  - inversion Hc; subst. exact Hi.
  - inversion Hc; subst. cbn [rev]. rewrite <- app_assoc. cbn [app].
    eapply IH; [eassumption|]. eapply pool_inv_alloc; eassumption.
Qed.

Lemma fresh_chain_app a x a1 y a2 : fresh_chain a x a1 -> fresh_chain a1 y a2 -> fresh_chain a (x ++ y) a2.
Proof.
  induction 1 as [|a sz o a1' rest a' Hpos Ha Hc IH]; intros H2; cbn [app]; [exact H2|].
  econstructor; [exact Hpos|exact Ha|]. apply IH. exact H2.
Qed.

Lemma alloc_at_chain l a n a' : alloc_at l a = (n, a') ->
  exists o sz, fresh_chain a [(o, sz)] a' /\ nodes c n = [(o, sz)].
Proof.
  destruct l as [|l]; cbn [alloc_at]; intros H.
  - apply alloc_leaf_spec in H. destruct H as (o & Ha & ->). exists o, (c_leaf c).
    split; [|reflexivity]. econstructor; [exact leaf_pos|exact Ha|constructor].
  - apply alloc_node_spec in H. destruct H as (o & Ha & ->). exists o, SZ_NODE.
    split; [|reflexivity]. econstructor; [unfold SZ_NODE; lia|exact Ha|constructor].
Qed.

Lemma perm_ins {T} (A X N C D : list T) :
  Permutation X (N ++ C) -> Permutation (A ++ X ++ D) (N ++ A ++ C ++ D).
Proof.
  intros P. rewrite P. rewrite <- app_assoc. rewrite app_assoc, (app_assoc N).
  apply Permutation_app_tail. apply Permutation_app_comm.
Qed.

Lemma nodes_set_child o c0 c1 c2 c3 ci x new : 0 <= ci < 4 ->
  Permutation (nodes c x) (new ++ nodes c (child (Inner o c0 c1 c2 c3) ci)) ->
  Permutation (nodes c (set_child (Inner o c0 c1 c2 c3) ci x)) (new ++ nodes c (Inner o c0 c1 c2 c3)).
Proof.
  intros Hc P. destruct (four ci Hc) as [-> | [-> | [-> | ->]]]; cbn in P |- *;
    (eapply Permutation_trans; [|apply Permutation_middle]); apply perm_skip.
  - apply (perm_ins [] (nodes c x) new (nodes c c0) (nodes c c1 ++ nodes c c2 ++ nodes c c3) P).
  - apply (perm_ins (nodes c c0) (nodes c x) new (nodes c c1) (nodes c c2 ++ nodes c c3) P).
  - pose proof (perm_ins (nodes c c0 ++ nodes c c1) (nodes c x) new (nodes c c2) (nodes c c3) P) as G.
    rewrite <- !app_assoc in G. exact G.
  - pose proof (perm_ins (nodes c c0 ++ nodes c c1 ++ nodes c c2) (nodes c x) new (nodes c c3) [] P) as G.
    rewrite <- !app_assoc in G. rewrite !app_nil_r in G. exact G.
Qed.

Lemma set_rec_nodes levels : forall n idx e a n' a', shapeb levels n = true ->
  set_rec c levels n idx e a = Some (n', a') ->
  exists new, fresh_chain a new a' /\ Permutation (nodes c n') (new ++ nodes c n).
Proof.
  induction levels as [|l IH]; intros n idx e a n' a' Hs Hset.
  - apply shape_O_inv in Hs. destruct Hs as (o & es & -> & _). cbn [set_rec] in Hset.
    inversion Hset; subst. exists []. split; [constructor|reflexivity].
  - destruct (shape_S_inv _ _ Hs) as (o & c0 & c1 & c2 & c3 & ->).
    rewrite set_rec_step in Hset. cbv zeta in Hset.
    pose proof (cidx_range idx l) as Hci.
    destruct (if is_nil (child (Inner o c0 c1 c2 c3) (cidx idx l)) then alloc_at l a
              else (child (Inner o c0 c1 c2 c3) (cidx idx l), a)) as [x a1] eqn:Ed.
    destruct (set_rec c l x idx e a1) as [[x' a2]|] eqn:Er; [|discriminate].
    inversion Hset; subst; clear Hset.
    destruct (descend_cases _ _ _ _ _ _ Ed) as [[Hnil Ha]|[Hnn [-> ->]]].
    + pose proof (alloc_at_shape _ _ _ _ Ha) as Hx.
      destruct (IH _ _ _ _ _ _ Hx Er) as (new & Hc & P).
      destruct (alloc_at_chain _ _ _ _ Ha) as (o1 & sz1 & Hc1 & En).
      exists ((o1, sz1) :: new). split; [apply (fresh_chain_app _ _ _ _ _ Hc1 Hc)|].
      apply nodes_set_child; [exact Hci|]. rewrite Hnil. cbn [nodes]. rewrite app_nil_r.
      rewrite P, En. change ((o1, sz1) :: new) with ([(o1, sz1)] ++ new). apply Permutation_app_comm.
    + assert (Hx : shapeb l (child (Inner o c0 c1 c2 c3) (cidx idx l)) = true).
      { destruct (okc_child l o c0 c1 c2 c3 (cidx idx l) Hs) as [E|E]; [contradiction|exact E]. }
      destruct (IH _ _ _ _ _ _ Hx Er) as (new & Hc & P).
      exists new. split; [exact Hc|]. apply nodes_set_child; [exact Hci|exact P].
Qed.

Definition tree_pool_inv (t : tree) : Prop := pool_inv (nodes c (root t)) (pp t, nheap t).

Theorem reach_pool_inv t : reach t -> tree_pool_inv t.
Proof.
  induction 1 as [|kg t k v t' rc Hr IH Hset].
  - unfold tree_pool_inv, pool_inv, empty. cbn.
    repeat split; try lia; try exact pool_nonneg; constructor.
  - destruct (set_cases _ _ _ _ _ _ Hset) as [(_ & -> & _)|Hk]; [exact IH|].
    rewrite (set_unfold kg t k v Hk) in Hset.
    destruct (root_for_set t) as [r a] eqn:Er.
    destruct (set_rec c DEPTH r k (v, kg k) a) as [[r' [p' h']]|] eqn:Es; [|discriminate].
    inversion Hset; subst; clear Hset. unfold tree_pool_inv in *. cbn [root pp nheap].
    destruct (root_for_set_cases _ _ _ Er) as [[Hnil Ha]|[Hnn [-> ->]]].
    + pose proof (alloc_at_shape _ _ _ _ Ha) as Hs.
      destruct (set_rec_nodes _ _ _ _ _ _ _ Hs Es) as (new & Hc & P).
      destruct (alloc_at_chain _ _ _ _ Ha) as (o1 & sz1 & Hc1 & En).
      rewrite Hnil in IH. cbn [nodes] in IH.
      pose proof (pool_inv_chain _ _ _ _ (fresh_chain_app _ _ _ _ _ Hc1 Hc) IH) as G.
      eapply pool_inv_perm; [|exact G]. rewrite app_nil_r. rewrite P, En.
      etransitivity; [symmetry; apply Permutation_rev|apply Permutation_app_comm].
    + assert (Hs : shapeb DEPTH (root t) = true).
      { destruct (reach_wf t Hr) as [E|E]; [contradiction|exact E]. }
      destruct (set_rec_nodes _ _ _ _ _ _ _ Hs Es) as (new & Hc & P).
      pose proof (pool_inv_chain _ _ _ _ Hc IH) as G.
      eapply pool_inv_perm; [|exact G]. rewrite P.
      apply Permutation_app_tail. symmetry. apply Permutation_rev.
Qed.

(** C10: the pool never overruns its buffer - every node carved from the pool
    lies inside [0, c_pool), the bump pointer stays inside [0, c_pool], and
    no two nodes share their memory origin *)
Theorem pool_never_overruns t : reach t ->
  0 <= pp t <= c_pool c /\
  (forall off sz, In (Pool off, sz) (nodes c (root t)) -> 0 <= off /\ off + sz <= pp t /\ 0 < sz) /\
  (forall id sz, In (Heap id, sz) (nodes c (root t)) -> 0 <= id < nheap t) /\
  NoDup (map fst (nodes c (root t))).
Proof.
  intros Hr. destruct (reach_pool_inv t Hr) as (Hp & Hh & Hok & Hnd & Hsz). cbn [fst snd] in *.
  rewrite Forall_forall in Hok, Hsz.
  split; [exact Hp|]. split; [|split; [|exact Hnd]].
  - intros off sz Hin. pose proof (Hok _ Hin) as H1. pose proof (Hsz _ Hin) as H2.
    unfold org_ok in H1. cbn in H1, H2. lia.
  - intros id sz Hin. pose proof (Hok _ Hin) as H1. unfold org_ok in H1. cbn in H1. exact H1.
Qed.
End WithCfg.

Lemma cfg_plain_ok : 0 < c_leaf cfg_plain /\ 0 <= c_pool cfg_plain.
Proof. cbn. lia. Qed.
Lemma cfg_tagged_ok : 0 < c_leaf cfg_tagged /\ 0 <= c_pool cfg_tagged.
Proof. cbn. lia. Qed.
