(** Proofs about the key allocator (C10 parts 2 and 3). *)
From Coq Require Import ZArith List Bool Lia Permutation.
From MT Require Import Lib.Interleave Tls.TlsTreeModel Tls.TlsTreeProofs Tls.TlsKeysModel.
Import ListNotations.
Local Open Scope Z_scope.

(** ** small facts *)
Lemma fupd_same f k v : fupd f k v k = v.
Proof. unfold fupd. rewrite Z.eqb_refl. reflexivity. Qed.

Lemma fupd_other f k v x : x <> k -> fupd f k v x = f x.
Proof. intros H. unfold fupd. apply Z.eqb_neq in H. rewrite H. reflexivity. Qed.

Lemma zrange_length n : forall lo, length (zrange lo n) = n.
Proof. induction n as [|n IH]; intros lo; cbn [zrange length]; [reflexivity|]. rewrite IH. reflexivity. Qed.

Lemma in_range_zrange k : In k (zrange 0 1024) <-> in_range k.
Proof. rewrite zrange_in. unfold in_range. lia. Qed.

Lemma key_oor_false k : in_range k -> key_out_of_range k = false.
Proof.
  unfold in_range, key_out_of_range, NK. intros H. apply orb_false_iff.
  split; [apply Z.ltb_ge; lia|]. rewrite Z.geb_leb. apply Z.leb_gt. lia.
Qed.

Lemma key_oor_true k : ~ in_range k -> key_out_of_range k = true.
Proof.
  unfold in_range, key_out_of_range, NK. intros H. apply orb_true_iff.
  destruct (Z.ltb_spec k 0) as [E|E]; [left; reflexivity|right]. rewrite Z.geb_leb. apply Z.leb_le. lia.
Qed.

Lemma in_range_dec k : {in_range k} + {~ in_range k}.
Proof.
  unfold in_range. destruct (Z_le_dec 0 k); [|right; lia]. destruct (Z_lt_dec k 1024); [left|right]; lia.
Qed.

Lemma nodup_app_r {A} (a b : list A) : NoDup (a ++ b) -> NoDup b.
Proof.
  induction a as [|x r IH]; cbn [app]; intros H; [exact H|]. apply IH. apply NoDup_cons_iff in H. tauto.
Qed.

Lemma nodup_app_disj {A} (a b : list A) x : NoDup (a ++ b) -> In x a -> In x b -> False.
Proof.
  intros H Ha Hb. apply in_split in Ha. destruct Ha as (l1 & l2 & ->).
  rewrite <- app_assoc in H. cbn [app] in H. apply NoDup_remove_2 in H. apply H.
  apply in_or_app. right. apply in_or_app. right. exact Hb.
Qed.

(** [remove1] *)
Lemma remove1_in x k l : In x (remove1 k l) -> In x l.
Proof.
  induction l as [|y r IH]; cbn [remove1]; [tauto|].
  destruct (y =? k); cbn [In]; [tauto|]. intros [H|H]; [left; exact H|right; apply IH; exact H].
Qed.

Lemma remove1_in_other x k l : x <> k -> In x l -> In x (remove1 k l).
Proof.
  intros Hne. induction l as [|y r IH]; cbn [remove1 In]; [tauto|].
  destruct (Z.eqb_spec y k) as [->|E]; intros [H|H].
  - congruence.
  - exact H.
  - left; exact H.
  - right; apply IH; exact H.
Qed.

Lemma remove1_nodup k l : NoDup l -> NoDup (remove1 k l) /\ ~ In k (remove1 k l).
Proof.
  induction 1 as [|y r Hn Hnd [IH1 IH2]]; cbn [remove1]; [split; [constructor|tauto]|].
  destruct (Z.eqb_spec y k) as [->|E]; [split; assumption|].
  split.
  - constructor; [|exact IH1]. intros H. apply Hn. eapply remove1_in; exact H.
  - intros [H|H]; [congruence|contradiction].
Qed.

Lemma remove1_perm k l : In k l -> Permutation l (k :: remove1 k l).
Proof.
  induction l as [|y r IH]; cbn [In remove1]; [tauto|].
  destruct (Z.eqb_spec y k) as [->|E]; intros H; [reflexivity|].
  destruct H as [H|H]; [congruence|]. rewrite (IH H) at 1. apply perm_swap.
Qed.

Lemma remove1_notin k l : ~ In k l -> remove1 k l = l.
Proof.
  induction l as [|y r IH]; cbn [In remove1]; [reflexivity|]. intros H.
  destruct (Z.eqb_spec y k) as [->|E]; [tauto|]. rewrite IH; tauto.
Qed.

(** ** the free chain *)
Fixpoint chain (nx : Z -> Z) (h : Z) (fl : list Z) : Prop :=
  match fl with
  | [] => h = NULL
  | x :: r => h = x /\ chain nx (nx x) r
  end.

Lemma chain_fupd nx k v : forall fl h, ~ In k fl -> chain nx h fl -> chain (fupd nx k v) h fl.
Proof.
  induction fl as [|x r IH]; intros h Hn Hc; cbn [chain] in *; [exact Hc|].
  destruct Hc as [-> Hc]. split; [reflexivity|].
  rewrite fupd_other by (intros ->; apply Hn; left; reflexivity).
  apply IH; [|exact Hc]. intros H. apply Hn. right. exact H.
Qed.

Lemma chain_head_ok nx : forall fl h, chain nx h fl -> (forall x, In x fl -> in_range x) ->
  h = NULL \/ in_range h.
Proof.
  intros [|x r] h Hc Hr; cbn [chain] in Hc; [left; exact Hc|].
  destruct Hc as [-> _]. right. apply Hr. left. reflexivity.
Qed.

Lemma chain_not_live nx : forall fl h, chain nx h fl -> (forall x, In x fl -> in_range x) ->
  forall x, In x fl -> nx x <> LIVE.
Proof.
  induction fl as [|y r IH]; intros h Hc Hr x Hin; [contradiction|].
  cbn [chain] in Hc. destruct Hc as [-> Hc].
  assert (Hr' : forall z, In z r -> in_range z) by (intros z Hz; apply Hr; right; exact Hz).
  destruct Hin as [<-|Hin]; [|eapply IH; eassumption].
  destruct (chain_head_ok nx r (nx y) Hc Hr') as [E|E]; rewrite ?E; unfold LIVE, NULL, in_range in *; lia.
Qed.

Lemma chain_nil_iff nx fl h : chain nx h fl -> (forall x, In x fl -> in_range x) -> (h = NULL <-> fl = []).
Proof.
  destruct fl as [|x r]; cbn [chain]; intros Hc Hr; [tauto|]. destruct Hc as [-> _].
  split; [|discriminate]. intros E. specialize (Hr x (or_introl eq_refl)). unfold in_range, NULL in *. lia.
Qed.

Lemma chain_init n : forall lo, 0 <= lo -> lo + Z.of_nat n = 1024 ->
  chain (knext kinit) (if (n =? 0)%nat then NULL else lo) (zrange lo n).
Proof.
  induction n as [|n IH]; intros lo Hlo Hsum; cbn [zrange chain Nat.eqb]; [reflexivity|].
  split; [reflexivity|]. specialize (IH (lo + 1) ltac:(lia) ltac:(lia)).
  cbn [knext kinit]. change (NK - 1) with 1023.
  destruct n as [|m].
  - cbn [zrange chain]. destruct (Z.ltb_spec lo 1023); [lia|reflexivity].
  - cbn [Nat.eqb] in IH. destruct (Z.ltb_spec lo 1023); [exact IH|lia].
Qed.

Section KeysProofs.
Variable tagged : bool.

(** ** sequential allocator *)
Definition kinv (s : kst) (h : list Z) : Prop :=
  exists fl, chain (knext s) (kfree s) fl /\ NoDup (fl ++ h) /\
             (forall k, In k (fl ++ h) <-> in_range k) /\
             (forall k, In k h -> knext s k = LIVE).

Lemma kinv_init : kinv kinit [].
Proof.
  exists (zrange 0 1024). rewrite app_nil_r. split; [|split; [apply zrange_nodup|split]].
  - apply (chain_init 1024 0); lia.
  - apply in_range_zrange.
  - intros k [].
Qed.

Lemma kinv_perm (h fl : list Z) : NoDup (fl ++ h) -> (forall k, In k (fl ++ h) <-> in_range k) ->
  Permutation (fl ++ h) (zrange 0 1024).
Proof.
  intros Hnd Hin. apply NoDup_Permutation; [exact Hnd|apply zrange_nodup|].
  intros k. rewrite Hin, in_range_zrange. tauto.
Qed.

Lemma kinv_length (h fl : list Z) : NoDup (fl ++ h) -> (forall k, In k (fl ++ h) <-> in_range k) ->
  (length fl + length h = 1024)%nat.
Proof.
  intros Hnd Hin. pose proof (Permutation_length (kinv_perm h fl Hnd Hin)) as E.
  rewrite app_length, zrange_length in E. exact E.
Qed.

Lemma seq_create_empty s h d : kfree s = NULL -> seq_op tagged s h (Create d) = Some (s, h, -1).
Proof. intros E. unfold seq_op, start. cbn [run_thread tick]. rewrite E. reflexivity. Qed.

Lemma seq_create_pop s h d : kfree s <> NULL ->
  seq_op tagged s h (Create d) =
  Some (mkK (knext s (kfree s)) (fupd (knext s) (kfree s) LIVE) (fupd (kdtor s) (kfree s) d) (bump tagged s (kfree s)),
        kfree s :: h, kfree s).
Proof.
  intros E. unfold seq_op, start. cbn [run_thread tick]. apply Z.eqb_neq in E. rewrite E.
  cbn [run_thread tick]. rewrite Z.eqb_refl. reflexivity.
Qed.

Lemma seq_delete_oor s h k : ~ in_range k -> seq_op tagged s h (Delete k) = Some (s, h, ERR).
Proof. intros H. unfold seq_op, start. rewrite key_oor_true by exact H. reflexivity. Qed.

Lemma seq_delete_dead s h k : in_range k -> knext s k <> LIVE -> seq_op tagged s h (Delete k) = Some (s, h, ERR).
Proof.
  intros H E. unfold seq_op, start. rewrite key_oor_false by exact H. cbn [run_thread tick].
  apply Z.eqb_neq in E. rewrite E. reflexivity.
Qed.

Lemma seq_delete_live s h k : in_range k -> knext s k = LIVE ->
  seq_op tagged s h (Delete k) =
  Some (mkK k (fupd (knext s) k (kfree s)) (fupd (kdtor s) k 0) (kgen s), remove1 k h, kdtor s k).
Proof.
  intros H E. unfold seq_op, start. rewrite key_oor_false by exact H. cbn [run_thread tick].
  rewrite E. change (LIVE =? LIVE) with true. cbn [run_thread tick kfree]. rewrite Z.eqb_refl. reflexivity.
Qed.

Theorem seq_create_spec s h d : kinv s h ->
  (length h = 1024%nat /\ seq_op tagged s h (Create d) = Some (s, h, -1)) \/
  ((length h < 1024)%nat /\ exists k s', seq_op tagged s h (Create d) = Some (s', k :: h, k) /\
     in_range k /\ ~ In k h /\ kdtor s' k = d /\ (forall k', k' <> k -> kdtor s' k' = kdtor s k') /\
     kinv s' (k :: h) /\ kgen s' = bump tagged s k).
Proof.
  intros (fl & Hc & Hnd & Hin & Hlive).
  pose proof (kinv_length h fl Hnd Hin) as Hlen.
  assert (Hfr : forall x, In x fl -> in_range x) by (intros x Hx; apply Hin, in_or_app; left; exact Hx).
  destruct fl as [|x fl'].
  - left. cbn [chain] in Hc. cbn [length plus] in Hlen. split; [exact Hlen|apply seq_create_empty; exact Hc].
  - right. cbn [chain] in Hc. destruct Hc as [Ehead Hc]. cbn [length] in Hlen. split; [lia|].
    assert (Hx : in_range x) by (apply Hfr; left; reflexivity).
    assert (Hne : kfree s <> NULL) by (rewrite Ehead; unfold in_range, NULL in *; lia).
    rewrite (seq_create_pop s h d Hne), Ehead. eexists _, _. split; [reflexivity|].
    cbn [app] in Hnd. apply NoDup_cons_iff in Hnd. destruct Hnd as [Hxn Hnd].
    split; [exact Hx|]. split; [intros H; apply Hxn, in_or_app; right; exact H|].
    cbn [kdtor]. split; [apply fupd_same|]. split; [intros k' Hk'; apply fupd_other; exact Hk'|].
    split; [|reflexivity].
    exists fl'. cbn [knext kfree]. split; [|split; [|split]].
    + apply chain_fupd; [|exact Hc]. intros H. apply Hxn, in_or_app. left. exact H.
    + eapply Permutation_NoDup; [apply Permutation_middle|]. constructor; assumption.
    + intros k. rewrite <- Hin. split; intros H.
      * eapply Permutation_in; [symmetry; apply Permutation_middle|exact H].
      * eapply Permutation_in; [apply (Permutation_middle fl' h x)|exact H].
    + intros k [<-|Hk]; [apply fupd_same|].
      rewrite fupd_other; [apply Hlive; exact Hk|]. intros ->. apply Hxn, in_or_app. right. exact Hk.
Qed.

Theorem seq_delete_spec s h k : kinv s h ->
  (In k h /\ exists s', seq_op tagged s h (Delete k) = Some (s', remove1 k h, kdtor s k) /\
                        kinv s' (remove1 k h) /\ kgen s' = kgen s /\ kdtor s' = fupd (kdtor s) k 0) \/
  (~ In k h /\ seq_op tagged s h (Delete k) = Some (s, h, ERR)).
Proof.
  intros (fl & Hc & Hnd & Hin & Hlive).
  assert (Hfr : forall x, In x fl -> in_range x) by (intros x Hx; apply Hin, in_or_app; left; exact Hx).
  destruct (in_dec Z.eq_dec k h) as [Hk|Hk].
  - left. split; [exact Hk|].
    assert (Hr : in_range k) by (apply Hin, in_or_app; right; exact Hk).
    rewrite (seq_delete_live s h k Hr (Hlive k Hk)). eexists. split; [reflexivity|].
    assert (Hkfl : ~ In k fl) by (intros H; eapply nodup_app_disj; eassumption).
    pose proof (remove1_perm k h Hk) as Pk.
    assert (P : Permutation ((k :: fl) ++ remove1 k h) (fl ++ h)).
    { cbn [app]. rewrite Pk at 2. apply Permutation_middle. }
    split; [|split; reflexivity].
    exists (k :: fl). cbn [knext kfree chain]. split; [|split; [|split]].
    + split; [reflexivity|]. rewrite fupd_same. apply chain_fupd; assumption.
    + eapply Permutation_NoDup; [symmetry; exact P|exact Hnd].
    + intros k'. rewrite <- Hin. split; intros H; eapply Permutation_in; try exact H; [exact P|symmetry; exact P].
    + intros k' Hk'. pose proof (remove1_in _ _ _ Hk') as Hk'h.
      assert (Hndh : NoDup h) by (eapply nodup_app_r; exact Hnd).
      destruct (remove1_nodup k h Hndh) as [_ Hnk].
      rewrite fupd_other; [apply Hlive; exact Hk'h|]. intros ->. contradiction.
  - right. split; [exact Hk|].
    destruct (in_range_dec k) as [Hr|Hr]; [|apply seq_delete_oor; exact Hr].
    apply seq_delete_dead; [exact Hr|].
    assert (Hkfl : In k fl).
    { apply Hin in Hr. apply in_app_or in Hr. destruct Hr; [assumption|contradiction]. }
    eapply chain_not_live; eassumption.
Qed.

(** every history *)
Theorem seq_hist_spec os : forall s h, kinv s h ->
  exists s' h' rs, seq_hist tagged s h os = Some (s', h', rs) /\ kinv s' h' /\ length rs = length os.
Proof.
  induction os as [|o r IH]; intros s h Hi; cbn [seq_hist]; [eauto 6|].
  assert (Hstep : exists s1 h1 x, seq_op tagged s h o = Some (s1, h1, x) /\ kinv s1 h1).
  { destruct o as [d|k].
    - destruct (seq_create_spec s h d Hi) as [[_ E]|[_ (k & s' & E & _ & _ & _ & _ & Hi' & _)]]; eauto 6.
    - destruct (seq_delete_spec s h k Hi) as [[_ (s' & E & Hi' & _ & _)]|[_ E]]; eauto 6. }
  destruct Hstep as (s1 & h1 & x & E & Hi1). rewrite E.
  destruct (IH s1 h1 Hi1) as (s2 & h2 & rs & E2 & Hi2 & Hl). rewrite E2.
  eexists _, _, _. split; [reflexivity|]. split; [exact Hi2|]. cbn [length]. rewrite Hl. reflexivity.
Qed.

Theorem kinv_distinct s h : kinv s h ->
  NoDup h /\ (forall k, In k h -> in_range k) /\
  exists fl, chain (knext s) (kfree s) fl /\ Permutation (fl ++ h) (zrange 0 1024).
Proof.
  intros (fl & Hc & Hnd & Hin & Hlive). split; [eapply nodup_app_r; exact Hnd|].
  split; [intros k Hk; apply Hin, in_or_app; right; exact Hk|].
  exists fl. split; [exact Hc|]. eapply kinv_perm; eassumption.
Qed.


(** the state after any history satisfies the invariant *)
Lemma seq_hist_kinv os s h rs : seq_hist tagged kinit [] os = Some (s, h, rs) -> kinv s h.
Proof.
  intros H. destruct (seq_hist_spec os kinit [] kinv_init) as (s' & h' & rs' & E & Hi & _).
  rewrite E in H. inversion H; subst. exact Hi.
Qed.

Theorem seq_history_total os : exists s h rs, seq_hist tagged kinit [] os = Some (s, h, rs) /\ length rs = length os.
Proof.
  destruct (seq_hist_spec os kinit [] kinv_init) as (s' & h' & rs' & E & _ & Hl). eauto 6.
Qed.

Theorem seq_history_distinct os s h rs : seq_hist tagged kinit [] os = Some (s, h, rs) ->
  NoDup h /\ (forall k, In k h -> in_range k /\ knext s k = LIVE) /\
  exists fl, chain (knext s) (kfree s) fl /\ Permutation (fl ++ h) (zrange 0 1024).
Proof.
  intros H. pose proof (seq_hist_kinv os s h rs H) as Hi.
  destruct (kinv_distinct s h Hi) as (H1 & H2 & H3). split; [exact H1|]. split; [|exact H3].
  intros k Hk. split; [apply H2; exact Hk|]. destruct Hi as (fl & _ & _ & _ & Hl). apply Hl. exact Hk.
Qed.

Theorem seq_history_create os s h rs d : seq_hist tagged kinit [] os = Some (s, h, rs) ->
  (length h = 1024%nat /\ seq_op tagged s h (Create d) = Some (s, h, -1)) \/
  ((length h < 1024)%nat /\ exists k s', seq_op tagged s h (Create d) = Some (s', k :: h, k) /\
     in_range k /\ ~ In k h /\ kdtor s' k = d /\ (forall k', k' <> k -> kdtor s' k' = kdtor s k')).
Proof.
  intros H. destruct (seq_create_spec s h d (seq_hist_kinv os s h rs H)) as [G|[G1 (k & s' & G2 & G3 & G4 & G5 & G6 & _ & _)]];
    [left; exact G|right]. split; [exact G1|]. exists k, s'. tauto.
Qed.

Theorem seq_history_delete os s h rs k : seq_hist tagged kinit [] os = Some (s, h, rs) ->
  (In k h /\ exists s', seq_op tagged s h (Delete k) = Some (s', remove1 k h, kdtor s k) /\ ~ In k (remove1 k h)) \/
  (~ In k h /\ seq_op tagged s h (Delete k) = Some (s, h, ERR)).
Proof.
  intros H. pose proof (seq_hist_kinv os s h rs H) as Hi.
  destruct (seq_delete_spec s h k Hi) as [[G1 (s' & G2 & _ & _ & _)]|G]; [left|right; exact G].
  split; [exact G1|]. exists s'. split; [exact G2|].
  destruct (kinv_distinct s h Hi) as (Hnd & _). apply remove1_nodup. exact Hnd.
Qed.

(** a deleted key has no destructor: in every state reached by a history the
    destructor column is NULL outside the live keys *)
Definition dead_no_dtor (s : kst) (h : list Z) : Prop := forall k, ~ In k h -> kdtor s k = 0.

Lemma seq_hist_dead_no_dtor os : forall s h s' h' rs, kinv s h -> dead_no_dtor s h ->
  seq_hist tagged s h os = Some (s', h', rs) -> dead_no_dtor s' h'.
Proof.
  induction os as [|o r IH]; intros s h s' h' rs Hi Hd H; cbn [seq_hist] in H.
  - inversion H; subst. exact Hd.
  - destruct (seq_op tagged s h o) as [[[s1 h1] x]|] eqn:E; [|discriminate].
    destruct (seq_hist tagged s1 h1 r) as [[[s2 h2] xs]|] eqn:E2; [|discriminate].
    inversion H; subst; clear H.
    assert (G : kinv s1 h1 /\ dead_no_dtor s1 h1).
    { destruct o as [d|k].
      - destruct (seq_create_spec s h d Hi) as [[_ E1]|[_ (k & sa & E1 & _ & _ & Hdk & Hdo & Hi' & _)]];
          rewrite E1 in E; inversion E; subst; [split; assumption|].
        split; [exact Hi'|]. intros k' Hn. rewrite Hdo; [apply Hd; intros H; apply Hn; right; exact H|].
        intros ->. apply Hn. left. reflexivity.
      - destruct (seq_delete_spec s h k Hi) as [[Hin (sa & E1 & Hi' & _ & Ed)]|[_ E1]];
          rewrite E1 in E; inversion E; subst; [|split; assumption].
        split; [exact Hi'|]. intros k' Hn. rewrite Ed. unfold fupd.
        destruct (Z.eqb_spec k' k) as [->|Hne]; [reflexivity|].
        apply Hd. intros H. apply Hn. apply remove1_in_other; assumption. }
    destruct G as [G1 G2]. eapply IH; eassumption.
Qed.

Theorem seq_history_dead_no_dtor os s h rs : seq_hist tagged kinit [] os = Some (s, h, rs) ->
  forall k, ~ In k h -> kdtor s k = 0.
Proof.
  intros H. eapply (seq_hist_dead_no_dtor os kinit [] s h rs kinv_init); [|exact H].
  intros k _. reflexivity.
Qed.

(** ** many create/delete cycles of one index: the closed form *)
Definition kst_ext (a b : kst) : Prop :=
  kfree a = kfree b /\ (forall i, knext a i = knext b i) /\ (forall i, kdtor a i = kdtor b i) /\
  (forall i, kgen a i = kgen b i).

Lemma one_cycle s h d : in_range (kfree s) ->
  exists s', seq_hist tagged s h [Create d; Delete (kfree s)] = Some (s', h, [kfree s; d]) /\
             kst_ext s' (cycle_n tagged s d 1).
Proof.
  intros Hr. assert (Hne : kfree s <> NULL) by (unfold in_range, NULL in *; lia).
  cbn [seq_hist]. rewrite (seq_create_pop s h d Hne).
  set (k := kfree s) in *.
  set (s1 := mkK (knext s k) (fupd (knext s) k LIVE) (fupd (kdtor s) k d) (bump tagged s k)).
  assert (Hl : knext s1 k = LIVE) by (unfold s1; cbn [knext]; apply fupd_same).
  rewrite (seq_delete_live s1 (k :: h) k Hr Hl). cbn [remove1]. rewrite Z.eqb_refl.
  eexists. split; [unfold s1; cbn [kdtor]; rewrite fupd_same; reflexivity|].
  unfold kst_ext, cycle_n, s1. cbn [kfree knext kdtor kgen]. fold k.
  split; [reflexivity|]. split; [|split].
  - intros i. unfold fupd. destruct (i =? k) eqn:E; [apply Z.eqb_eq in E; subst; reflexivity|reflexivity].
  - intros i. unfold fupd. destruct (i =? k); reflexivity.
  - intros i. unfold bump. destruct tagged; reflexivity.
Qed.

Theorem cycles_closed_form d n : forall s h, in_range (kfree s) ->
  exists s', seq_hist tagged s h (cyc (kfree s) d (S n)) = Some (s', h, cyc_results (kfree s) d (S n)) /\
             kst_ext s' (cycle_n tagged s d (Z.of_nat (S n))).
Proof.
  induction n as [|n IH]; intros s h Hr.
  - destruct (one_cycle s h d Hr) as (s' & E & Hx). exists s'. split; [exact E|exact Hx].
  - destruct (one_cycle s h d Hr) as (s1 & E1 & Hx1).
    unfold kst_ext, cycle_n in Hx1. cbn [kfree knext kdtor kgen] in Hx1. destruct Hx1 as (Hf & Hn & Hd & Hg).
    assert (Hr1 : in_range (kfree s1)) by (rewrite Hf; exact Hr).
    destruct (IH s1 h Hr1) as (s2 & E2 & Hx2).
    unfold kst_ext, cycle_n in Hx2. cbn [kfree knext kdtor kgen] in Hx2. destruct Hx2 as (Hf2 & Hn2 & Hd2 & Hg2).
    exists s2. split.
    + change (cyc (kfree s) d (S (S n))) with (Create d :: Delete (kfree s) :: cyc (kfree s) d (S n)).
      change (cyc_results (kfree s) d (S (S n))) with (kfree s :: d :: cyc_results (kfree s) d (S n)).
      cbn [seq_hist] in E1 |- *.
      destruct (seq_op tagged s h (Create d)) as [[[sa ha] xa]|]; [|discriminate].
      destruct (seq_op tagged sa ha (Delete (kfree s))) as [[[sb hb] xb]|]; [|discriminate].
      inversion E1; subst. rewrite <- Hf. rewrite E2. reflexivity.
    + unfold kst_ext, cycle_n. cbn [kfree knext kdtor kgen].
      split; [rewrite Hf2; exact Hf|]. split; [intros i; rewrite Hn2; apply Hn|]. split.
      * intros i. rewrite Hd2, Hf. unfold fupd. destruct (i =? kfree s) eqn:E; [reflexivity|].
        rewrite Hd. unfold fupd. rewrite E. reflexivity.
      * intros i. rewrite Hg2. destruct tagged; [|apply Hg].
        rewrite Hf. unfold fupd. destruct (i =? kfree s) eqn:E.
        -- rewrite Hg. unfold fupd. rewrite Z.eqb_refl.
           rewrite Zplus_mod_idemp_l. f_equal. lia.
        -- rewrite Hg. unfold fupd. rewrite E. reflexivity.
Qed.

(** ** the interleaving system *)
Lemma nth_set_nth_same l : forall t p q, nth_error l t = Some q -> nth_error (set_nth l t p) t = Some p.
Proof.
  induction l as [|x r IH]; intros [|t] p q H; cbn in *; try discriminate; [reflexivity|].
  eapply IH; exact H.
Qed.

Lemma nth_set_nth_other l : forall t u p, u <> t -> nth_error (set_nth l t p) u = nth_error l u.
Proof.
  induction l as [|x r IH]; intros [|t] [|u] p H; cbn; try reflexivity; try congruence.
  apply IH. congruence.
Qed.

Lemma nth_set_nth_inv l t p q0 u q : nth_error l t = Some q0 ->
  nth_error (set_nth l t p) u = Some q -> (u = t /\ q = p) \/ (u <> t /\ nth_error l u = Some q).
Proof.
  intros H0 H. destruct (Nat.eq_dec u t) as [->|Hne].
  - left. rewrite (nth_set_nth_same l t p q0 H0) in H. inversion H. split; reflexivity.
  - right. rewrite nth_set_nth_other in H by exact Hne. split; assumption.
Qed.

Definition detached (k : Z) (p : pc) : Prop :=
  match p with DHead k' _ => k' = k | DCas k' _ _ => k' = k | _ => False end.

Definition deleting (k : Z) (p : pc) : Prop :=
  match p with DCheck k' => k' = k | DHead k' _ => k' = k | DCas k' _ _ => k' = k | _ => False end.

Definition local_ok (s : kst) (fl : list Z) (p : pc) : Prop :=
  match p with
  | ANext ke _ => ke <> NULL
  | ACas ke n _ => ke <> NULL /\ (In ke fl -> knext s ke = n)
  | DCheck k => in_range k
  | DCas k h _ => knext s k = h
  | _ => True
  end.

Record cinv_at (fl : list Z) (s : state) : Prop := {
  ci_chain : chain (knext (ks s)) (kfree (ks s)) fl;
  ci_ndfl : NoDup fl;
  ci_ndheld : NoDup (held s);
  ci_flr : forall k, In k fl -> in_range k;
  ci_held : forall k, In k (held s) -> in_range k /\ knext (ks s) k = LIVE;
  ci_disj : forall k, In k fl -> ~ In k (held s);
  ci_det : forall t p k, nth_error (threads s) t = Some p -> detached k p ->
           in_range k /\ ~ In k fl /\ ~ In k (held s);
  ci_uniq : forall t1 t2 p1 p2 k, nth_error (threads s) t1 = Some p1 -> nth_error (threads s) t2 = Some p2 ->
            deleting k p1 -> deleting k p2 -> t1 = t2;
  ci_cover : forall k, in_range k ->
             In k fl \/ In k (held s) \/ exists t p, nth_error (threads s) t = Some p /\ detached k p;
  ci_local : forall t p, nth_error (threads s) t = Some p -> local_ok (ks s) fl p
}.

Definition cinv (s : state) : Prop := exists fl, cinv_at fl s.

Lemma detached_deleting k p : detached k p -> deleting k p.
Proof. destruct p; cbn; tauto. Qed.

Lemma nth_repeat_idle n t p : nth_error (repeat Idle n) t = Some p -> p = Idle.
Proof.
  intros H. apply nth_error_In in H. apply repeat_spec in H. exact H.
Qed.

Lemma cinv_init n : cinv (init n).
Proof.
  exists (zrange 0 1024). unfold init. constructor; cbn [ks held threads knext kfree].
  - apply (chain_init 1024 0); lia.
  - apply zrange_nodup.
  - constructor.
  - intros k. apply in_range_zrange.
  - intros k [].
  - intros k _ [].
  - intros t p k H Hd. apply nth_repeat_idle in H. subst p. contradiction.
  - intros t1 t2 p1 p2 k H1 _ Hd. apply nth_repeat_idle in H1. subst p1. contradiction.
  - intros k Hk. left. apply in_range_zrange. exact Hk.
  - intros t p H. apply nth_repeat_idle in H. subst p. exact I.
Qed.

(** a step that changes only the program counter of thread [t], to a counter
    that claims nothing new *)
Lemma cinv_pc_only fl s t p p' :
  cinv_at fl s -> nth_error (threads s) t = Some p ->
  (forall k, deleting k p' -> deleting k p) ->
  (forall k, detached k p' <-> detached k p) ->
  local_ok (ks s) fl p' ->
  cinv_at fl (mkS (ks s) (held s) (set_nth (threads s) t p')).
Proof.
  intros [Hc Hnf Hnh Hflr Hheld Hdisj Hdet Huniq Hcov Hloc] Ht Hdel Hdt Hl.
  constructor; cbn [ks held threads]; try assumption.
  - intros u q k Hu Hq. destruct (nth_set_nth_inv _ _ _ _ _ _ Ht Hu) as [[-> ->]|[Hne Hu']].
    + apply (Hdet t p k Ht). apply Hdt. exact Hq.
    + apply (Hdet u q k Hu' Hq).
  - intros t1 t2 p1 p2 k H1 H2 D1 D2.
    destruct (nth_set_nth_inv _ _ _ _ _ _ Ht H1) as [[-> ->]|[Hne1 H1']];
      destruct (nth_set_nth_inv _ _ _ _ _ _ Ht H2) as [[-> ->]|[Hne2 H2']].
    + reflexivity.
    + apply (Huniq t t2 p p2 k Ht H2' (Hdel k D1) D2).
    + apply (Huniq t1 t p1 p k H1' Ht D1 (Hdel k D2)).
    + apply (Huniq t1 t2 p1 p2 k H1' H2' D1 D2).
  - intros k Hk. destruct (Hcov k Hk) as [H|[H|(u & q & Hu & Hq)]]; [left; exact H|right; left; exact H|].
    right. right. destruct (Nat.eq_dec u t) as [->|Hne].
    + exists t, p'. split; [eapply nth_set_nth_same; exact Ht|]. rewrite Ht in Hu. inversion Hu; subst q.
      apply Hdt. exact Hq.
    + exists u, q. split; [rewrite nth_set_nth_other by exact Hne; exact Hu|exact Hq].
  - intros u q Hu. destruct (nth_set_nth_inv _ _ _ _ _ _ Ht Hu) as [[-> ->]|[Hne Hu']]; [exact Hl|].
    apply Hloc with u. exact Hu'.
Qed.

Lemma existsb_inside_false k l : existsb (inside_delete k) l = false ->
  forall t p, nth_error l t = Some p -> ~ deleting k p.
Proof.
  intros H t p Hp Hd. apply nth_error_In in Hp.
  assert (E : existsb (inside_delete k) l = true).
  { apply existsb_exists. exists p. split; [exact Hp|].
    destruct p; cbn in Hd |- *; try contradiction; subst; apply Z.eqb_refl. }
  congruence.
Qed.

Lemma existsb_at_cas_false k l : existsb (at_cas_of k) l = false ->
  forall t ke n d, nth_error l t = Some (ACas ke n d) -> ke <> k.
Proof.
  intros H t ke n d Hp ->. apply nth_error_In in Hp.
  assert (E : existsb (at_cas_of k) l = true).
  { apply existsb_exists. eexists. split; [exact Hp|]. cbn. apply Z.eqb_refl. }
  congruence.
Qed.

(** *** the four steps that change the shared state *)

(* successful CAS of a create: pops [ke], marks it live, hands it out *)
Lemma cinv_pop fl s t ke n d :
  cinv_at fl s -> nth_error (threads s) t = Some (ACas ke n d) -> kfree (ks s) = ke ->
  exists fl', cinv_at fl'
    (mkS (mkK n (fupd (knext (ks s)) ke LIVE) (fupd (kdtor (ks s)) ke d) (bump tagged (ks s) ke)) (ke :: held s)
         (set_nth (threads s) t (Done ke))).
Proof.
  intros [Hc Hnf Hnh Hflr Hheld Hdisj Hdet Huniq Hcov Hloc] Ht Hfree.
  destruct (Hloc t _ Ht) as [Hnn Hnx].
  destruct fl as [|x fl']; cbn [chain] in Hc; [congruence|].
  destruct Hc as [Ex Hc]. rewrite Hfree in Ex. subst x.
  specialize (Hnx (or_introl eq_refl)). rewrite Hnx in Hc.
  apply NoDup_cons_iff in Hnf. destruct Hnf as [Hkn Hnf].
  exists fl'. constructor; cbn [ks held threads knext kfree].
  - apply chain_fupd; assumption.
  - exact Hnf.
  - constructor; [apply Hdisj; left; reflexivity|exact Hnh].
  - intros k Hk. apply Hflr. right. exact Hk.
  - intros k [<-|Hk].
    + split; [apply Hflr; left; reflexivity|apply fupd_same].
    + destruct (Hheld k Hk) as [H1 H2]. split; [exact H1|].
      rewrite fupd_other; [exact H2|]. intros ->. apply (Hdisj ke (or_introl eq_refl)). exact Hk.
  - intros k Hk [<-|Hh]; [contradiction|]. apply (Hdisj k (or_intror Hk) Hh).
  - intros u q k Hu Hq. destruct (nth_set_nth_inv _ _ _ _ _ _ Ht Hu) as [[-> ->]|[Hne Hu']]; [contradiction|].
    destruct (Hdet u q k Hu' Hq) as (H1 & H2 & H3). split; [exact H1|]. split.
    + intros H. apply H2. right. exact H.
    + intros [<-|H]; [apply H2; left; reflexivity|contradiction].
  - intros t1 t2 p1 p2 k H1 H2 D1 D2.
    destruct (nth_set_nth_inv _ _ _ _ _ _ Ht H1) as [[-> ->]|[Hne1 H1']]; [contradiction|].
    destruct (nth_set_nth_inv _ _ _ _ _ _ Ht H2) as [[-> ->]|[Hne2 H2']]; [contradiction|].
    apply (Huniq t1 t2 p1 p2 k H1' H2' D1 D2).
  - intros k Hk. destruct (Hcov k Hk) as [[<-|H]|[H|(u & q & Hu & Hq)]].
    + right. left. left. reflexivity.
    + left. exact H.
    + right. left. right. exact H.
    + right. right. exists u, q. split; [|exact Hq].
      destruct (Nat.eq_dec u t) as [->|Hne]; [rewrite Ht in Hu; inversion Hu; subst q; contradiction|].
      rewrite nth_set_nth_other by exact Hne. exact Hu.
  - intros u q Hu. destruct (nth_set_nth_inv _ _ _ _ _ _ Ht Hu) as [[-> ->]|[Hne Hu']]; [exact I|].
    pose proof (Hloc u q Hu') as Hl. destruct q; cbn [local_ok knext] in Hl |- *; try exact Hl.
    + destruct Hl as [Hl1 Hl2]. split; [exact Hl1|]. intros Hin.
      rewrite fupd_other; [apply Hl2; right; exact Hin|]. intros ->. contradiction.
    + rewrite fupd_other; [exact Hl|]. intros ->.
      destruct (Hdet u _ ke Hu' eq_refl) as (_ & H2 & _). apply H2. left. reflexivity.
Qed.

(* a delete passes its liveness check *)
Lemma cinv_check fl s t k :
  cinv_at fl s -> nth_error (threads s) t = Some (DCheck k) -> knext (ks s) k = LIVE ->
  cinv_at fl (mkS (mkK (kfree (ks s)) (knext (ks s)) (fupd (kdtor (ks s)) k 0) (kgen (ks s)))
                  (remove1 k (held s)) (set_nth (threads s) t (DHead k (kdtor (ks s) k)))).
Proof.
  intros [Hc Hnf Hnh Hflr Hheld Hdisj Hdet Huniq Hcov Hloc] Ht Hlive.
  pose proof (Hloc t _ Ht) as Hr. cbn [local_ok] in Hr.
  destruct (remove1_nodup k (held s) Hnh) as [Hnd' Hnk].
  assert (Hkfl : ~ In k fl).
  { intros H. apply (chain_not_live _ _ _ Hc Hflr k H). exact Hlive. }
  constructor; cbn [ks held threads knext kfree]; try assumption.
  - intros k' Hk'. apply Hheld. eapply remove1_in; exact Hk'.
  - intros k' Hk' H. apply (Hdisj k' Hk'). eapply remove1_in; exact H.
  - intros u q k' Hu Hq. destruct (nth_set_nth_inv _ _ _ _ _ _ Ht Hu) as [[-> ->]|[Hne Hu']].
    + cbn in Hq. subst k'. split; [exact Hr|]. split; assumption.
    + destruct (Hdet u q k' Hu' Hq) as (H1 & H2 & H3). split; [exact H1|]. split; [exact H2|].
      intros H. apply H3. eapply remove1_in; exact H.
  - intros t1 t2 p1 p2 k' H1 H2 D1 D2.
    destruct (nth_set_nth_inv _ _ _ _ _ _ Ht H1) as [[-> ->]|[Hne1 H1']];
      destruct (nth_set_nth_inv _ _ _ _ _ _ Ht H2) as [[-> ->]|[Hne2 H2']].
    + reflexivity.
    + apply (Huniq t t2 _ p2 k' Ht H2' D1 D2).
    + apply (Huniq t1 t p1 _ k' H1' Ht D1 D2).
    + apply (Huniq t1 t2 p1 p2 k' H1' H2' D1 D2).
  - intros k' Hk'. destruct (Z.eq_dec k' k) as [->|Hne].
    + right. right. exists t, (DHead k (kdtor (ks s) k)). split; [eapply nth_set_nth_same; exact Ht|reflexivity].
    + destruct (Hcov k' Hk') as [H|[H|(u & q & Hu & Hq)]]; [left; exact H| |].
      * right. left. apply remove1_in_other; assumption.
      * right. right. exists u, q. split; [|exact Hq].
        destruct (Nat.eq_dec u t) as [->|Hne']; [rewrite Ht in Hu; inversion Hu; subst q; contradiction|].
        rewrite nth_set_nth_other by exact Hne'. exact Hu.
  - intros u q Hu. destruct (nth_set_nth_inv _ _ _ _ _ _ Ht Hu) as [[-> ->]|[Hne Hu']]; [exact I|].
    apply (Hloc u q Hu').
Qed.

(* a delete reads the head and links its cell in front of it *)
Lemma cinv_link fl s t k f :
  cinv_at fl s -> nth_error (threads s) t = Some (DHead k f) ->
  cinv_at fl (mkS (mkK (kfree (ks s)) (fupd (knext (ks s)) k (kfree (ks s))) (kdtor (ks s)) (kgen (ks s))) (held s)
                  (set_nth (threads s) t (DCas k (kfree (ks s)) f))).
Proof.
  intros [Hc Hnf Hnh Hflr Hheld Hdisj Hdet Huniq Hcov Hloc] Ht.
  destruct (Hdet t _ k Ht eq_refl) as (Hr & Hkfl & Hkh).
  constructor; cbn [ks held threads knext kfree]; try assumption.
  - apply chain_fupd; assumption.
  - intros k' Hk'. destruct (Hheld k' Hk') as [H1 H2]. split; [exact H1|].
    rewrite fupd_other; [exact H2|]. intros ->. contradiction.
  - intros u q k' Hu Hq. destruct (nth_set_nth_inv _ _ _ _ _ _ Ht Hu) as [[-> ->]|[Hne Hu']].
    + cbn in Hq. subst k'. split; [exact Hr|]. split; assumption.
    + apply (Hdet u q k' Hu' Hq).
  - intros t1 t2 p1 p2 k' H1 H2 D1 D2.
    destruct (nth_set_nth_inv _ _ _ _ _ _ Ht H1) as [[-> ->]|[Hne1 H1']];
      destruct (nth_set_nth_inv _ _ _ _ _ _ Ht H2) as [[-> ->]|[Hne2 H2']].
    + reflexivity.
    + apply (Huniq t t2 _ p2 k' Ht H2' D1 D2).
    + apply (Huniq t1 t p1 _ k' H1' Ht D1 D2).
    + apply (Huniq t1 t2 p1 p2 k' H1' H2' D1 D2).
  - intros k' Hk'. destruct (Hcov k' Hk') as [H|[H|(u & q & Hu & Hq)]]; [left; exact H|right; left; exact H|].
    right. right. destruct (Nat.eq_dec u t) as [->|Hne].
    + rewrite Ht in Hu. inversion Hu; subst q. cbn in Hq. subst k'.
      exists t, (DCas k (kfree (ks s)) f). split; [eapply nth_set_nth_same; exact Ht|reflexivity].
    + exists u, q. split; [rewrite nth_set_nth_other by exact Hne; exact Hu|exact Hq].
  - intros u q Hu. destruct (nth_set_nth_inv _ _ _ _ _ _ Ht Hu) as [[-> ->]|[Hne Hu']].
    + cbn [local_ok knext]. apply fupd_same.
    + pose proof (Hloc u q Hu') as Hl. destruct q; cbn [local_ok knext] in Hl |- *; try exact Hl.
      * destruct Hl as [Hl1 Hl2]. split; [exact Hl1|]. intros Hin.
        rewrite fupd_other; [apply Hl2; exact Hin|]. intros ->. contradiction.
      * rewrite fupd_other; [exact Hl|]. intros ->. apply Hne.
        apply (Huniq u t _ _ k Hu' Ht); reflexivity.
Qed.

(* successful CAS of a delete: [k] becomes the head of the free list.  Needs
   the guard: no create holds [k] as a CAS operand. *)
Lemma cinv_push fl s t k h f :
  cinv_at fl s -> nth_error (threads s) t = Some (DCas k h f) -> kfree (ks s) = h ->
  existsb (at_cas_of k) (threads s) = false ->
  cinv_at (k :: fl) (mkS (mkK k (knext (ks s)) (kdtor (ks s)) (kgen (ks s))) (held s) (set_nth (threads s) t (Done f))).
Proof.
  intros [Hc Hnf Hnh Hflr Hheld Hdisj Hdet Huniq Hcov Hloc] Ht Hfree Hguard.
  destruct (Hdet t _ k Ht eq_refl) as (Hr & Hkfl & Hkh).
  pose proof (Hloc t _ Ht) as Hnx. cbn [local_ok] in Hnx.
  constructor; cbn [ks held threads knext kfree].
  - cbn [chain]. split; [reflexivity|]. rewrite Hnx, <- Hfree. exact Hc.
  - constructor; assumption.
  - exact Hnh.
  - intros k' [<-|Hk']; [exact Hr|apply Hflr; exact Hk'].
  - exact Hheld.
  - intros k' [<-|Hk']; [exact Hkh|apply Hdisj; exact Hk'].
  - intros u q k' Hu Hq. destruct (nth_set_nth_inv _ _ _ _ _ _ Ht Hu) as [[-> ->]|[Hne Hu']]; [contradiction|].
    destruct (Hdet u q k' Hu' Hq) as (H1 & H2 & H3). split; [exact H1|]. split; [|exact H3].
    intros [<-|H]; [|contradiction]. apply Hne.
    apply (Huniq u t q _ k Hu' Ht); [apply detached_deleting; exact Hq|reflexivity].
  - intros t1 t2 p1 p2 k' H1 H2 D1 D2.
    destruct (nth_set_nth_inv _ _ _ _ _ _ Ht H1) as [[-> ->]|[Hne1 H1']]; [contradiction|].
    destruct (nth_set_nth_inv _ _ _ _ _ _ Ht H2) as [[-> ->]|[Hne2 H2']]; [contradiction|].
    apply (Huniq t1 t2 p1 p2 k' H1' H2' D1 D2).
  - intros k' Hk'. destruct (Hcov k' Hk') as [H|[H|(u & q & Hu & Hq)]];
      [left; right; exact H|right; left; exact H|].
    destruct (Nat.eq_dec u t) as [->|Hne].
    + rewrite Ht in Hu. inversion Hu; subst q. cbn in Hq. subst k'. left. left. reflexivity.
    + right. right. exists u, q. split; [rewrite nth_set_nth_other by exact Hne; exact Hu|exact Hq].
  - intros u q Hu. destruct (nth_set_nth_inv _ _ _ _ _ _ Ht Hu) as [[-> ->]|[Hne Hu']]; [exact I|].
    pose proof (Hloc u q Hu') as Hl. destruct q; cbn [local_ok knext] in Hl |- *; try exact Hl.
    destruct Hl as [Hl1 Hl2]. split; [exact Hl1|]. intros [E|Hin]; [|apply Hl2; exact Hin].
    exfalso. apply (existsb_at_cas_false k _ Hguard u _ _ _ Hu'). symmetry. exact E.
Qed.

(** *** every step of the guarded system preserves the invariant *)
Lemma gstep_sub s a s' : gstep tagged s a = Some s' -> step tagged s a = Some s'.
Proof.
  destruct a as [t e]. unfold gstep. destruct e; try tauto.
  destruct (aba_window s t); [discriminate|tauto].
Qed.

Theorem cinv_gstep s a s' : cinv s -> gstep tagged s a = Some s' -> cinv s'.
Proof.
  intros [fl Hi] Hg. pose proof (gstep_sub s a s' Hg) as Hs.
  destruct a as [t e]. unfold step in Hs.
  destruct (nth_error (threads s) t) as [p|] eqn:Ht; [|discriminate].
  destruct e as [o| |].
  - (* Call *)
    destruct p; try discriminate. destruct o as [d|k].
    + inversion Hs; subst. exists fl. apply (cinv_pc_only fl s t Idle); try assumption.
      * intros k Hk; exact Hk.
      * intros k; cbn; tauto.
      * exact I.
    + destruct (in_range_dec k) as [Hr|Hr].
      * rewrite (key_oor_false k Hr) in Hs. cbn [negb andb] in Hs.
        destruct (existsb (inside_delete k) (threads s)) eqn:Ex; [discriminate|].
        inversion Hs; subst; clear Hs. unfold start. rewrite (key_oor_false k Hr).
        pose proof (existsb_inside_false k _ Ex) as Hnone.
        destruct Hi as [Hc Hnf Hnh Hflr Hheld Hdisj Hdet Huniq Hcov Hloc].
        exists fl. constructor; cbn [ks held threads]; try assumption.
        -- intros u q k' Hu Hq. destruct (nth_set_nth_inv _ _ _ _ _ _ Ht Hu) as [[-> ->]|[Hne Hu']]; [contradiction|].
           apply (Hdet u q k' Hu' Hq).
        -- intros t1 t2 p1 p2 k' H1 H2 D1 D2.
           destruct (nth_set_nth_inv _ _ _ _ _ _ Ht H1) as [[-> ->]|[Hne1 H1']];
             destruct (nth_set_nth_inv _ _ _ _ _ _ Ht H2) as [[-> ->]|[Hne2 H2']].
           ++ reflexivity.
           ++ cbn in D1. subst k'. exfalso. apply (Hnone t2 p2 H2' D2).
           ++ cbn in D2. subst k'. exfalso. apply (Hnone t1 p1 H1' D1).
           ++ apply (Huniq t1 t2 p1 p2 k' H1' H2' D1 D2).
        -- intros k' Hk'. destruct (Hcov k' Hk') as [H|[H|(u & q & Hu & Hq)]]; [left; exact H|right; left; exact H|].
           right. right. exists u, q. split; [|exact Hq].
           destruct (Nat.eq_dec u t) as [->|Hne]; [rewrite Ht in Hu; inversion Hu; subst q; contradiction|].
           rewrite nth_set_nth_other by exact Hne. exact Hu.
        -- intros u q Hu. destruct (nth_set_nth_inv _ _ _ _ _ _ Ht Hu) as [[-> ->]|[Hne Hu']]; [exact Hr|].
           apply (Hloc u q Hu').
      * rewrite (key_oor_true k Hr) in Hs. cbn [negb andb] in Hs. inversion Hs; subst; clear Hs.
        unfold start. rewrite (key_oor_true k Hr).
        exists fl. apply (cinv_pc_only fl s t Idle); try assumption.
        -- intros k' Hk'; exact Hk'.
        -- intros k'; cbn; tauto.
        -- exact I.
  - (* Tick *)
    destruct p; cbn [running] in Hs; try discriminate; cbn [tick] in Hs.
    + (* AHead *)
      destruct (kfree (ks s) =? NULL) eqn:E; inversion Hs; subst; clear Hs; exists fl;
        replace (mkS (ks s) (held s)) with (mkS (ks s) (held s)) by reflexivity.
      * apply (cinv_pc_only fl s t (AHead d)); try assumption; [tauto|intros k; cbn; tauto|exact I].
      * apply (cinv_pc_only fl s t (AHead d)); try assumption; [tauto|intros k; cbn; tauto|].
        cbn [local_ok]. apply Z.eqb_neq. exact E.
    + (* ANext *)
      inversion Hs; subst; clear Hs. exists fl.
      apply (cinv_pc_only fl s t (ANext ke d)); try assumption; [tauto|intros k; cbn; tauto|].
      cbn [local_ok]. split; [|intros _; reflexivity].
      apply (ci_local fl s Hi t _ Ht).
    + (* ACas *)
      destruct (kfree (ks s) =? ke) eqn:E.
      * apply Z.eqb_eq in E. inversion Hs; subst s'; clear Hs. eapply cinv_pop; eassumption.
      * inversion Hs; subst; clear Hs. exists fl.
        apply (cinv_pc_only fl s t (ACas ke n d)); try assumption; [tauto|intros k; cbn; tauto|exact I].
    + (* DCheck *)
      destruct (knext (ks s) k =? LIVE) eqn:E.
      * apply Z.eqb_eq in E. inversion Hs; subst s'; clear Hs. exists fl. apply cinv_check; assumption.
      * inversion Hs; subst; clear Hs. exists fl.
        apply (cinv_pc_only fl s t (DCheck k)); try assumption; [intros k' []|intros k'; cbn; tauto|exact I].
    + (* DHead *)
      inversion Hs; subst s'; clear Hs. exists fl. apply cinv_link; assumption.
    + (* DCas *)
      destruct (kfree (ks s) =? h) eqn:E.
      * apply Z.eqb_eq in E. inversion Hs; subst s'; clear Hs. exists (k :: fl).
        apply cinv_push with (h := h); try assumption.
        unfold gstep, aba_window in Hg. rewrite Ht in Hg. apply Z.eqb_eq in E. rewrite E in Hg.
        cbn [andb] in Hg. destruct (existsb (at_cas_of k) (threads s)); [discriminate|reflexivity].
      * inversion Hs; subst; clear Hs. exists fl.
        apply (cinv_pc_only fl s t (DCas k h f)); try assumption;
          [intros k' Hk'; exact Hk'|intros k'; cbn; tauto|exact I].
  - (* Ret *)
    destruct p; try discriminate. inversion Hs; subst; clear Hs. exists fl.
    apply (cinv_pc_only fl s t (Done r)); try assumption; [intros k []|intros k; cbn; tauto|exact I].
Qed.

Definition is_init (s : state) : Prop := exists n, s = init n.

Theorem cinv_reachable s : reachable is_init (gstep tagged) s -> cinv s.
Proof.
  apply invariant_rule.
  - intros s0 [n ->]. apply cinv_init.
  - intros s0 a s1 Hi Hst. eapply cinv_gstep; eassumption.
Qed.

(** what the invariant says in the words of the property *)
Theorem cinv_property s : cinv s ->
  NoDup (held s) /\
  (forall k, In k (held s) -> in_range k /\ knext (ks s) k = LIVE) /\
  exists fl, chain (knext (ks s)) (kfree (ks s)) fl /\ NoDup fl /\
             (forall k, In k fl -> in_range k /\ ~ In k (held s)) /\
             (forall k, in_range k -> In k fl \/ In k (held s) \/
                        exists t p, nth_error (threads s) t = Some p /\ detached k p).
Proof.
  intros [fl [Hc Hnf Hnh Hflr Hheld Hdisj Hdet Huniq Hcov Hloc]].
  split; [exact Hnh|]. split; [exact Hheld|]. exists fl. split; [exact Hc|]. split; [exact Hnf|].
  split; [|exact Hcov]. intros k Hk. split; [apply Hflr; exact Hk|apply Hdisj; exact Hk].
Qed.

(** the guarded system is a sub-system of the real one *)
Lemma greachable_reachable s : reachable is_init (gstep tagged) s -> reachable is_init (step tagged) s.
Proof.
  induction 1 as [s H0|s a s' Hr IH Hst]; [apply reach_init; exact H0|].
  eapply reach_step; [exact IH|apply gstep_sub; exact Hst].
Qed.

(** ** the ABA witness *)
Lemma distinctb_spec l : distinctb l = true <-> NoDup l.
Proof.
  induction l as [|x r IH]; cbn [distinctb]; [split; [constructor|reflexivity]|].
  rewrite andb_true_iff, negb_true_iff, IH. split.
  - intros [H1 H2]. constructor; [|exact H2]. intros Hin.
    assert (E : existsb (Z.eqb x) r = true) by (apply existsb_exists; exists x; split; [exact Hin|apply Z.eqb_refl]).
    congruence.
  - intros H. apply NoDup_cons_iff in H. destruct H as [H1 H2]. split; [|exact H2].
    destruct (existsb (Z.eqb x) r) eqn:E; [|reflexivity]. apply existsb_exists in E.
    destruct E as (y & Hy & Exy). apply Z.eqb_eq in Exy. subst y. contradiction.
Qed.

Theorem aba_witness :
  let s := run (step tagged) aba_schedule (init 3) in
  reachable is_init (step tagged) s /\
  held s = [1; 0; 1] /\ result s 0 = Some 0 /\ result s 2 = Some 1 /\
  kfree (ks s) = LIVE /\ ~ NoDup (held s).
Proof.
  cbv zeta. split; [apply run_reachable, reach_init; exists 3%nat; reflexivity|].
  split; [vm_compute; reflexivity|]. split; [vm_compute; reflexivity|].
  split; [vm_compute; reflexivity|]. split; [vm_compute; reflexivity|].
  intros H. apply distinctb_spec in H. vm_compute in H. discriminate.
Qed.

Theorem distinct_concurrent_refuted : ~ (forall s, reachable is_init (step tagged) s -> NoDup (held s)).
Proof.
  intros H. destruct aba_witness as (Hr & _ & _ & _ & _ & Hn). apply Hn. apply H. exact Hr.
Qed.

(** what the guard removes from the real system: exactly the successful push of
    a key that a create holds as the operand of its pending CAS *)
Theorem guard_exact s t : 
  (gstep tagged s (t, Tick) = None /\ step tagged s (t, Tick) <> None) <->
  exists k h f, nth_error (threads s) t = Some (DCas k h f) /\ kfree (ks s) = h /\
                exists u n d, nth_error (threads s) u = Some (ACas k n d).
Proof.
  unfold gstep, aba_window. split.
  - intros [Hg Hs]. destruct (nth_error (threads s) t) as [p|] eqn:Ht; [|contradiction Hs; unfold step; rewrite Ht; reflexivity].
    destruct p; try (rewrite Hg in Hs; contradiction Hs; reflexivity).
    destruct ((kfree (ks s) =? h) && existsb (at_cas_of k) (threads s)) eqn:E;
      [|rewrite Hg in Hs; contradiction Hs; reflexivity].
    apply andb_true_iff in E. destruct E as [E1 E2]. apply Z.eqb_eq in E1.
    exists k, h, f. split; [reflexivity|]. split; [exact E1|].
    apply existsb_exists in E2. destruct E2 as (q & Hq & Eq). apply In_nth_error in Hq. destruct Hq as (u & Hu).
    destruct q; cbn in Eq; try discriminate. apply Z.eqb_eq in Eq. subst ke. eauto.
  - intros (k & h & f & Ht & Hf & u & n & d & Hu). rewrite Ht.
    assert (E : (kfree (ks s) =? h) && existsb (at_cas_of k) (threads s) = true).
    { apply andb_true_iff. split; [apply Z.eqb_eq; exact Hf|]. apply existsb_exists.
      exists (ACas k n d). split; [eapply nth_error_In; exact Hu|cbn; apply Z.eqb_refl]. }
    rewrite E. split; [reflexivity|]. unfold step. rewrite Ht. cbn [running tick].
    apply Z.eqb_eq in Hf. rewrite Hf. discriminate.
Qed.
End KeysProofs.
