(** C10 — the key allocator.

    Source: src/myth_tls.h [myth_tls_key_allocator_t] (a [free] head pointer
    and 1024 cells [{next, destructor}]), src/myth_tls_func.h
    [myth_tls_key_allocator_init], [myth_tls_key_allocator_alloc],
    [myth_tls_key_allocator_dealloc].

    Pointers to cells are modelled by cell indices; [NULL = -1]; the mark
    [(myth_tls_key_entry_t * )-1] that the code stores in [next] of a live key
    is [LIVE = -2].  [dealloc] returns the destructor or [(fun)-1 = ERR].

    Granularity: one [tick] = the code between two consecutive
    MYTH_VERIF_POINTs of the source, i.e. one access to the shared head
    ("key.alloc.readhead", "key.alloc.readnext", "key.alloc.cas",
    "key.dealloc.check", "key.dealloc.readhead", "key.dealloc.cas").  The two
    stores that follow a successful CAS in [alloc] ([ke->next = -1;
    ke->destructor = d]) have no POINT between them and the CAS and are part
    of the CAS tick; the store [ke->next = head] belongs to the
    "key.dealloc.readhead" tick.

    [held] is a ghost list: the keys handed out by a create and not yet
    accepted by a delete (a key is appended when the create's CAS succeeds and
    one occurrence is removed when a delete passes its liveness check). *)
From Coq Require Import ZArith List Bool String.
From MT Require Import Tls.TlsTreeModel.   (* only for [zrange] *)
Import ListNotations.
Local Open Scope Z_scope.

Definition NULL : Z := -1.
Definition LIVE : Z := -2.
Definition ERR : Z := -1.
Definition NK : Z := 1024.

(** [kgen]: the [gen] column of the repair with generation tags (an [unsigned
    int] per cell, incremented by every creation of the index); in the code
    without tags ([tagged = false]) it stays constantly 0 and nothing reads it *)
Record kst := mkK { kfree : Z; knext : Z -> Z; kdtor : Z -> Z; kgen : Z -> Z }.
Definition GEN_MOD : Z := 4294967296.

Definition fupd (f : Z -> Z) (k v : Z) : Z -> Z := fun x => if x =? k then v else f x.

(** [myth_tls_key_allocator_init]; the destructor column of the global
    allocator starts zeroed *)
Definition kinit : kst :=
  mkK 0 (fun i => if i <? NK - 1 then i + 1 else NULL) (fun _ => 0) (fun _ => 0).

Inductive pc :=
| Idle
| AHead (d : Z)             (* at "key.alloc.readhead" *)
| ANext (ke d : Z)          (* at "key.alloc.readnext" *)
| ACas (ke n d : Z)         (* at "key.alloc.cas" *)
| DCheck (k : Z)            (* at "key.dealloc.check" *)
| DHead (k f : Z)           (* at "key.dealloc.readhead" *)
| DCas (k h f : Z)          (* at "key.dealloc.cas" *)
| Done (r : Z).             (* the call has returned r *)

Fixpoint remove1 (k : Z) (l : list Z) : list Z :=
  match l with
  | [] => []
  | x :: r => if x =? k then r else x :: remove1 k r
  end.

Definition bump (tagged : bool) (s : kst) (ke : Z) : Z -> Z :=
  if tagged then fupd (kgen s) ke ((kgen s ke + 1) mod GEN_MOD) else kgen s.

Definition tick (tagged : bool) (s : kst) (held : list Z) (p : pc) : kst * list Z * pc :=
  match p with
  | AHead d =>
      let ke := kfree s in
      if ke =? NULL then (s, held, Done (-1)) else (s, held, ANext ke d)
  | ANext ke d => (s, held, ACas ke (knext s ke) d)
  | ACas ke n d =>
      if kfree s =? ke
      then (mkK n (fupd (knext s) ke LIVE) (fupd (kdtor s) ke d) (bump tagged s ke), ke :: held, Done ke)
      else (s, held, AHead d)
  | DCheck k =>
      (* [f = ke->destructor; ke->destructor = 0;] (commit 7f58d46): a deleted key has no destructor *)
      if knext s k =? LIVE
      then (mkK (kfree s) (knext s) (fupd (kdtor s) k 0) (kgen s), remove1 k held, DHead k (kdtor s k))
      else (s, held, Done ERR)
  | DHead k f =>
      let h := kfree s in
      (mkK (kfree s) (fupd (knext s) k h) (kdtor s) (kgen s), held, DCas k h f)
  | DCas k h f =>
      if kfree s =? h then (mkK k (knext s) (kdtor s) (kgen s), held, Done f)
      else (s, held, DHead k f)
  | Idle => (s, held, Idle)
  | Done r => (s, held, Done r)
  end.

Inductive op := Create (d : Z) | Delete (k : Z).

Definition key_out_of_range (k : Z) : bool := (k <? 0) || (k >=? NK).

(** entry of a call up to its first POINT *)
Definition start (o : op) : pc :=
  match o with
  | Create d => AHead d
  | Delete k => if key_out_of_range k then Done ERR else DCheck k
  end.

(** ** sequential execution: one call runs to completion *)
Section Variant.
Variable tagged : bool.

Fixpoint run_thread (fuel : nat) (s : kst) (h : list Z) (p : pc) : option (kst * list Z * Z) :=
  match p with
  | Done r => Some (s, h, r)
  | Idle => None
  | _ => match fuel with
         | O => None                         (* out of fuel: excluded by the theorems *)
         | S f => let '(s', h', p') := tick tagged s h p in run_thread f s' h' p'
         end
  end.

Definition seq_op (s : kst) (h : list Z) (o : op) : option (kst * list Z * Z) :=
  run_thread 4 s h (start o).

Fixpoint seq_hist (s : kst) (h : list Z) (os : list op) : option (kst * list Z * list Z) :=
  match os with
  | [] => Some (s, h, [])
  | o :: r =>
      match seq_op s h o with
      | Some (s1, h1, x) =>
          match seq_hist s1 h1 r with
          | Some (s2, h2, xs) => Some (s2, h2, x :: xs)
          | None => None
          end
      | None => None
      end
  end.

(** closed form of [n >= 1] create/delete cycles of the index at the head of the
    free list ([Create d; Delete k] repeated; the list is LIFO, so every creation
    returns the same index [k = kfree s]): only the destructor (cleared by the last
    delete) and the generation of that cell change.  Proved equal (field by field) to running the [2 n]
    calls in Tls/TlsKeysProofs.v ([cycles_closed_form]); the driver uses it for the
    long histories (tens of thousands of cycles) of the correspondence runs. *)
Definition cycle_n (s : kst) (d n : Z) : kst :=
  let k := kfree s in
  mkK k (knext s) (fupd (kdtor s) k 0)
      (if tagged then fupd (kgen s) k ((kgen s k + n) mod GEN_MOD) else kgen s).

Fixpoint cyc (k d : Z) (n : nat) : list op :=
  match n with O => [] | S m => Create d :: Delete k :: cyc k d m end.

Fixpoint cyc_results (k d : Z) (n : nat) : list Z :=
  match n with O => [] | S m => k :: d :: cyc_results k d m end.

(** ** interleaving system (coq/Lib/Interleave.v): any number of threads *)
Record state := mkS { ks : kst; held : list Z; threads : list pc }.
Inductive ev := Call (o : op) | Tick | Ret.

Fixpoint set_nth (l : list pc) (t : nat) (p : pc) : list pc :=
  match l, t with
  | [], _ => []
  | _ :: r, O => p :: r
  | x :: r, S j => x :: set_nth r j p
  end.

Definition inside_delete (k : Z) (p : pc) : bool :=
  match p with
  | DCheck k' => k' =? k
  | DHead k' _ => k' =? k
  | DCas k' _ _ => k' =? k
  | _ => false
  end.

Definition running (p : pc) : bool :=
  match p with Idle => false | Done _ => false | _ => true end.

(** Usage contract (enabledness of [Call]): a thread does not call
    [key_delete(k)] while another thread is inside [key_delete] of the same
    key.  Everything else is allowed, in particular deleting a key that is not
    live and creating/deleting concurrently. *)
Definition step (s : state) (a : nat * ev) : option state :=
  let '(t, e) := a in
  match nth_error (threads s) t with
  | None => None
  | Some p =>
      match e with
      | Call o =>
          match p with
          | Idle =>
              match o with
              | Create _ => Some (mkS (ks s) (held s) (set_nth (threads s) t (start o)))
              | Delete k =>
                  if negb (key_out_of_range k) && existsb (inside_delete k) (threads s) then None
                  else Some (mkS (ks s) (held s) (set_nth (threads s) t (start o)))
              end
          | _ => None
          end
      | Tick =>
          if running p then
            let '(s', h', p') := tick tagged (ks s) (held s) p in
            Some (mkS s' h' (set_nth (threads s) t p'))
          else None
      | Ret =>
          match p with
          | Done _ => Some (mkS (ks s) (held s) (set_nth (threads s) t Idle))
          | _ => None
          end
      end
  end.

Definition init (n : nat) : state := mkS kinit [] (repeat Idle n).

(** the serialising guard of the partial theorem: the step that would
    COMPLETE the push of key [k] (a successful "key.dealloc.cas") is not taken
    while some create sits at "key.alloc.cas" holding [k] as its CAS operand
    (i.e. has read [k]'s successor and not yet executed its CAS) *)
Definition at_cas_of (k : Z) (p : pc) : bool :=
  match p with ACas ke _ _ => ke =? k | _ => false end.

Definition aba_window (s : state) (t : nat) : bool :=
  match nth_error (threads s) t with
  | Some (DCas k h _) => (kfree (ks s) =? h) && existsb (at_cas_of k) (threads s)
  | _ => false
  end.

Definition gstep (s : state) (a : nat * ev) : option state :=
  match a with
  | (t, Tick) => if aba_window s t then None else step s a
  | _ => step s a
  end.
End Variant.

(** ** interface for the trace validator *)
Definition label_of (p : pc) : string :=
  match p with
  | AHead _ => "key.alloc.readhead"
  | ANext _ _ => "key.alloc.readnext"
  | ACas _ _ _ => "key.alloc.cas"
  | DCheck _ => "key.dealloc.check"
  | DHead _ _ => "key.dealloc.readhead"
  | DCas _ _ _ => "key.dealloc.cas"
  | _ => ""
  end%string.

(** the [val] argument of the POINT the thread waits at *)
Definition label_val (p : pc) : Z :=
  match p with
  | ANext ke _ => ke
  | ACas ke _ _ => ke
  | DCheck k => k
  | DHead k _ => k
  | DCas k _ _ => k
  | _ => 0
  end.

Definition label (s : state) (t : nat) : string :=
  match nth_error (threads s) t with Some p => label_of p | None => ""%string end.

Definition result (s : state) (t : nat) : option Z :=
  match nth_error (threads s) t with Some (Done r) => Some r | _ => None end.

(** the object's words: head index, then the 1024 [next] fields *)
Definition obs (s : state) : list Z :=
  kfree (ks s) :: map (knext (ks s)) (zrange 0 1024).

(** the free chain followed from the head, at most [fuel] cells *)
Fixpoint chain_list (fuel : nat) (nx : Z -> Z) (h : Z) : list Z :=
  match fuel with
  | O => []
  | S f => if (h <? 0) || (h >=? NK) then [] else h :: chain_list f nx (nx h)
  end.

Fixpoint distinctb (l : list Z) : bool :=
  match l with
  | [] => true
  | x :: r => negb (existsb (Z.eqb x) r) && distinctb r
  end.

(** the schedule of the ABA witness (3 threads): T0 starts a create and is
    preempted between "key.alloc.readnext" and "key.alloc.cas" holding
    (ke, next) = (0, 1); T1 creates twice (0, 1) and deletes 0; T0's CAS then
    succeeds and installs the live key 1 as the head; T2's create returns 1. *)
Definition call_run (t : nat) (o : op) (ticks : nat) : list (nat * ev) :=
  (t, Call o) :: repeat (t, Tick) ticks.

Definition aba_schedule : list (nat * ev) :=
  call_run 0 (Create 7) 2 ++
  call_run 1 (Create 8) 3 ++ [(1%nat, Ret)] ++
  call_run 1 (Create 9) 3 ++ [(1%nat, Ret)] ++
  call_run 1 (Delete 0) 3 ++ [(1%nat, Ret)] ++
  [(0%nat, Tick)] ++
  call_run 2 (Create 10) 3.
