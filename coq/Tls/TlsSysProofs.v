(** Proofs about the API-level machine (C10 part 4 and the privacy frame). *)
From Coq Require Import ZArith List Bool Lia Permutation.
From MT Require Import Tls.TlsTreeModel Tls.TlsTreeProofs Tls.TlsKeysModel Tls.TlsKeysProofs Tls.TlsSysModel.
Import ListNotations.
Local Open Scope Z_scope.

Lemma nth_set_tree_same l : forall t x y, nth_error l t = Some y -> nth_error (set_tree l t x) t = Some x.
Proof.
  induction l as [|z r IH]; intros [|t] x y H; cbn in *; try discriminate; [reflexivity|]. eapply IH; exact H.
Qed.

Lemma nth_set_tree_other l : forall t u x, u <> t -> nth_error (set_tree l t x) u = nth_error l u.
Proof.
  induction l as [|z r IH]; intros [|t] [|u] x H; cbn; try reflexivity; try congruence. apply IH. congruence.
Qed.

Lemma Forall_set_tree (P : tree -> Prop) l : forall t x, Forall P l -> P x -> Forall P (set_tree l t x).
Proof.
  induction l as [|z r IH]; intros [|t] x Hl Hx; cbn [set_tree]; try exact Hl.
  - inversion Hl; subst. constructor; assumption.
  - inversion Hl; subst. constructor; [assumption|]. apply IH; assumption.
Qed.

(** ** privacy: a store by thread [t] changes nothing but [t]'s own tree *)
Theorem set_private s t k v s' rc : sys_step s (TSet t k v) = Some (s', rc) ->
  sk s' = sk s /\ sh s' = sh s /\ length (trees s') = length (trees s) /\
  forall t', t' <> t -> nth_error (trees s') t' = nth_error (trees s) t'.
Proof.
  cbn [sys_step]. destruct (nth_error (trees s) t) as [tr|] eqn:Et; [|discriminate].
  destruct (set tr k v) as [[tr' rc']|]; [|discriminate]. intros H; inversion H; subst; clear H.
  cbn [sk sh trees]. split; [reflexivity|]. split; [reflexivity|]. split.
  - clear Et. revert t. induction (trees s) as [|z r IH]; intros [|t]; cbn [set_tree length]; try reflexivity.
    rewrite IH. reflexivity.
  - intros t' Hne. apply nth_set_tree_other. exact Hne.
Qed.

Theorem get_pure s t k s' v : sys_step s (TGet t k) = Some (s', v) -> s' = s.
Proof.
  cbn [sys_step]. destruct (nth_error (trees s) t) as [tr|]; [|discriminate].
  destruct (get tr k); [|discriminate]. intros H; inversion H; reflexivity.
Qed.

(** ** the invariant of guarded histories *)
Definition sinv (s : sys) : Prop :=
  kinv (sk s) (sh s) /\ Forall reach (trees s) /\
  (forall k, in_range k -> ~ In k (sh s) -> Forall (fun tr => get tr k = Some 0) (trees s)).

Lemma sinv_init n : sinv (sys_init n).
Proof.
  unfold sys_init. split; [exact kinv_init|]. cbn [trees sh]. split.
  - apply Forall_forall. intros tr H. apply repeat_spec in H. subst. apply reach_empty.
  - intros k _ _. apply Forall_forall. intros tr H. apply repeat_spec in H. subst. apply get_empty.
Qed.

Lemma existsb_eqb_in k l : existsb (Z.eqb k) l = true -> In k l.
Proof.
  intros H. apply existsb_exists in H. destruct H as (x & Hx & E). apply Z.eqb_eq in E. subst. exact Hx.
Qed.

Lemma sinv_step s o : sinv s -> guardb s o = true ->
  (exists s' r, sys_step s o = Some (s', r) /\ sinv s') \/ sys_step s o = None.
Proof.
  intros (Hk & Hr & Hclean) Hg. destruct o as [d|k|t k v|t k|t]; cbn [sys_step guardb] in *.
  - left. destruct (seq_create_spec (sk s) (sh s) d Hk) as [[_ E]|[_ (k & s1 & E & _ & _ & _ & _ & Hk')]];
      rewrite E; eexists _, _; (split; [reflexivity|]).
    + split; [exact Hk|]. split; [exact Hr|exact Hclean].
    + split; [exact Hk'|]. cbn [sh trees]. split; [exact Hr|].
      intros k' Hk'r Hn. apply Hclean; [exact Hk'r|]. intros H. apply Hn. right. exact H.
  - left. destruct (seq_delete_spec (sk s) (sh s) k Hk) as [[Hin (s1 & E & Hk')]|[_ E]];
      rewrite E; eexists _, _; (split; [reflexivity|]).
    + split; [exact Hk'|]. cbn [sh trees]. split; [exact Hr|].
      intros k' Hk'r Hn. destruct (Z.eq_dec k' k) as [->|Hne].
      * rewrite forallb_forall in Hg. apply Forall_forall. intros tr Htr. specialize (Hg tr Htr).
        destruct (get tr k) as [[| |]|]; try discriminate. reflexivity.
      * apply Hclean; [exact Hk'r|]. intros H. apply Hn. apply remove1_in_other; assumption.
    + split; [exact Hk|]. split; [exact Hr|exact Hclean].
  - destruct (nth_error (trees s) t) as [tr|] eqn:Et; [|right; reflexivity]. left.
    assert (Htr : reach tr) by (rewrite Forall_forall in Hr; apply Hr; eapply nth_error_In; exact Et).
    destruct (set_total tr k v Htr) as (tr' & rc & Es & _). rewrite Es.
    eexists _, _. split; [reflexivity|]. cbn [sk sh trees]. split; [exact Hk|]. split.
    + apply Forall_set_tree; [exact Hr|]. eapply reach_set; eassumption.
    + intros k' Hk'r Hn. apply Forall_set_tree; [apply Hclean; assumption|].
      assert (Hne : k' <> k) by (intros ->; apply Hn; apply existsb_eqb_in; exact Hg).
      rewrite (set_frame tr k v tr' rc k' Htr Es Hne).
      specialize (Hclean k' Hk'r Hn). rewrite Forall_forall in Hclean. apply Hclean.
      eapply nth_error_In; exact Et.
  - destruct (nth_error (trees s) t) as [tr|] eqn:Et; [|right; reflexivity]. left.
    assert (Htr : reach tr) by (rewrite Forall_forall in Hr; apply Hr; eapply nth_error_In; exact Et).
    destruct (get_total tr k Htr) as (v & Ev). rewrite Ev. eexists _, _. split; [reflexivity|].
    split; [exact Hk|]. split; [exact Hr|exact Hclean].
  - destruct (nth_error (trees s) t) as [tr|] eqn:Et; [|right; reflexivity]. left.
    eexists _, _. split; [reflexivity|]. cbn [sk sh trees]. split; [exact Hk|]. split.
    + apply Forall_set_tree; [exact Hr|apply reach_empty].
    + intros k' Hk'r Hn. apply Forall_set_tree; [apply Hclean; assumption|apply get_empty].
Qed.

Lemma sinv_run os : forall s, sinv s -> guarded_run s os = true ->
  exists s' rs, sys_run s os = Some (s', rs) /\ sinv s'.
Proof.
  induction os as [|o r IH]; intros s Hi Hg; cbn [sys_run guarded_run] in *; [eauto|].
  apply andb_true_iff in Hg. destruct Hg as [Hg1 Hg2].
  destruct (sinv_step s o Hi Hg1) as [(s1 & x & E & Hi1)|E]; rewrite E in *; [|discriminate].
  destruct (IH s1 Hi1 Hg2) as (s2 & rs & E2 & Hi2). rewrite E2. eauto.
Qed.

(** a key handed out by a create reads NULL in every thread, provided the
    history so far was guarded *)
Theorem fresh_key_null n os s rs d s' k :
  guarded_run (sys_init n) os = true ->
  sys_run (sys_init n) os = Some (s, rs) ->
  sys_step s (KCreate d) = Some (s', k) -> k <> -1 ->
  forall t tr, nth_error (trees s') t = Some tr -> get tr k = Some 0.
Proof.
  intros Hg Hrun Hc Hk t tr Ht.
  destruct (sinv_run os (sys_init n) (sinv_init n) Hg) as (s0 & rs0 & E & (Hkinv & Hr & Hclean)).
  rewrite E in Hrun. inversion Hrun; subst s0 rs0; clear Hrun.
  cbn [sys_step] in Hc.
  destruct (seq_create_spec (sk s) (sh s) d Hkinv) as [[_ E1]|[_ (k1 & s1 & E1 & Hkr & Hkn & _)]];
    rewrite E1 in Hc; inversion Hc; subst; clear Hc; [contradiction Hk; reflexivity|].
  cbn [trees] in Ht. specialize (Hclean k Hkr Hkn). rewrite Forall_forall in Hclean.
  apply Hclean. eapply nth_error_In; exact Ht.
Qed.

(** the unguarded statement is false: the slot written under the old
    incarnation of the index is still there *)
Theorem stale_witness :
  option_map snd (sys_run (sys_init 1) stale_history) = Some [0; 0; 0; 0; 777] /\
  guarded_run (sys_init 1) stale_history = false /\
  guarded_run (sys_init 1) [KCreate 0; TSet 0 0 777] = true.
Proof. split; [vm_compute; reflexivity|split; vm_compute; reflexivity]. Qed.
