(** Proofs about the API-level machine (C10 part 4 and the privacy frame). *)
From Coq Require Import ZArith List Bool Lia Permutation.
From MT Require Import Tls.TlsTreeModel Tls.TlsTreeProofs Tls.TlsKeysModel Tls.TlsKeysProofs Tls.TlsSysModel.
Import ListNotations.
Local Open Scope Z_scope.

Lemma nth_set_tree_same l : forall t x y, nth_error l t = Some y -> nth_error (set_tree l t x) t = Some x.
Proof.
  induction l as [|z r IH]; intros [|t] x y H; cbn in *; try discriminate; [reflexivity|]. eapply IH; exact H.
Qed.

Lemma nth_set_tree_other l : forall t u x, u <> t -> nth_error (set_tree l t x) u = nth_error l u.
Proof.
  induction l as [|z r IH]; intros [|t] [|u] x H; cbn; try reflexivity; try congruence. apply IH. congruence.
Qed.

Lemma Forall_set_tree (P : tree -> Prop) l : forall t x, Forall P l -> P x -> Forall P (set_tree l t x).
Proof.
  induction l as [|z r IH]; intros [|t] x Hl Hx; cbn [set_tree]; try exact Hl.
  - inversion Hl; subst. constructor; assumption.
  - inversion Hl; subst. constructor; [assumption|]. apply IH; assumption.
Qed.

Lemma existsb_eqb_in k l : existsb (Z.eqb k) l = true -> In k l.
Proof.
  intros H. apply existsb_exists in H. destruct H as (x & Hx & E). apply Z.eqb_eq in E. subst. exact Hx.
Qed.

Section SysProofs.
Variable var : variant.
Let c := v_cfg var.
Let tagged := v_tagged var.

(** ** privacy: a store by thread [t] changes nothing but [t]'s own tree *)
Theorem set_private s t k v s' rc : sys_step var s (TSet t k v) = Some (s', rc) ->
  sk s' = sk s /\ sh s' = sh s /\ length (trees s') = length (trees s) /\
  forall t', t' <> t -> nth_error (trees s') t' = nth_error (trees s) t'.
Proof.
  cbn [sys_step]. destruct (nth_error (trees s) t) as [tr|] eqn:Et; [|discriminate].
  destruct (set (v_cfg var) (kgen (sk s)) tr k v) as [[tr' rc']|]; [|discriminate].
  intros H; inversion H; subst; clear H.
  cbn [sk sh trees]. split; [reflexivity|]. split; [reflexivity|]. split.
  - clear Et. revert t. induction (trees s) as [|z r IH]; intros [|t]; cbn [set_tree length]; try reflexivity.
    rewrite IH. reflexivity.
  - intros t' Hne. apply nth_set_tree_other. exact Hne.
Qed.

Theorem get_pure s t k s' v : sys_step var s (TGet t k) = Some (s', v) -> s' = s.
Proof.
  cbn [sys_step]. destruct (nth_error (trees s) t) as [tr|]; [|discriminate].
  destruct (get (kgen (sk s)) tr k); [|discriminate]. intros H; inversion H; reflexivity.
Qed.

(** ** the invariant of guarded histories (either variant) *)
Definition sinv (s : sys) : Prop :=
  kinv (sk s) (sh s) /\ Forall (reach c) (trees s) /\
  (forall k, in_range k -> ~ In k (sh s) -> Forall (fun tr => get (kgen (sk s)) tr k = Some 0) (trees s)).

Lemma sinv_init n : sinv (sys_init n).
Proof.
  unfold sys_init. split; [exact kinv_init|]. cbn [trees sh sk]. split.
  - apply Forall_forall. intros tr H. apply repeat_spec in H. subst. apply reach_empty.
  - intros k _ _. apply Forall_forall. intros tr H. apply repeat_spec in H. subst. apply get_empty.
Qed.

Lemma bump_other s k k' : k' <> k -> bump tagged s k k' = kgen s k'.
Proof. intros H. unfold bump. destruct tagged; [apply fupd_other; exact H|reflexivity]. Qed.

Lemma sinv_step s o : sinv s -> guardb s o = true ->
  (exists s' r, sys_step var s o = Some (s', r) /\ sinv s') \/ sys_step var s o = None.
Proof.
  intros (Hk & Hr & Hclean) Hg. destruct o as [d|k|t k v|t k|t]; cbn [sys_step guardb] in *.
  - left. fold tagged.
    destruct (seq_create_spec tagged (sk s) (sh s) d Hk) as [[_ E]|[_ (k & s1 & E & Hkr & _ & _ & _ & Hk' & Eg)]];
      rewrite E; eexists _, _; (split; [reflexivity|]).
    + split; [exact Hk|]. split; [exact Hr|exact Hclean].
    + split; [exact Hk'|]. cbn [sh trees sk]. split; [exact Hr|].
      intros k' Hk'r Hn.
      assert (Hne : k' <> k) by (intros ->; apply Hn; left; reflexivity).
      assert (Hold : ~ In k' (sh s)) by (intros H; apply Hn; right; exact H).
      specialize (Hclean k' Hk'r Hold). rewrite Forall_forall in Hclean |- *. intros tr Htr.
      rewrite <- (Hclean tr Htr). apply get_kg_ext. rewrite Eg. apply bump_other. exact Hne.
  - left. fold tagged.
    destruct (seq_delete_spec tagged (sk s) (sh s) k Hk) as [[Hin (s1 & E & Hk' & Eg & _)]|[_ E]];
      rewrite E; eexists _, _; (split; [reflexivity|]).
    + split; [exact Hk'|]. cbn [sh trees sk]. rewrite Eg. split; [exact Hr|].
      intros k' Hk'r Hn. destruct (Z.eq_dec k' k) as [->|Hne].
      * rewrite forallb_forall in Hg. apply Forall_forall. intros tr Htr. specialize (Hg tr Htr).
        destruct (get (kgen (sk s)) tr k) as [[| |]|]; try discriminate. reflexivity.
      * apply Hclean; [exact Hk'r|]. intros H. apply Hn. apply remove1_in_other; assumption.
    + split; [exact Hk|]. split; [exact Hr|exact Hclean].
  - destruct (nth_error (trees s) t) as [tr|] eqn:Et; [|right; reflexivity]. left.
    assert (Htr : reach c tr) by (rewrite Forall_forall in Hr; apply Hr; eapply nth_error_In; exact Et).
    destruct (set_total c (kgen (sk s)) tr k v Htr) as (tr' & rc & Es & _). fold c. rewrite Es.
    eexists _, _. split; [reflexivity|]. cbn [sk sh trees]. split; [exact Hk|]. split.
    + apply Forall_set_tree; [exact Hr|]. eapply reach_set; eassumption.
    + intros k' Hk'r Hn. apply Forall_set_tree; [apply Hclean; assumption|].
      assert (Hne : k' <> k) by (intros ->; apply Hn; apply existsb_eqb_in; exact Hg).
      cbn [sk sh trees] in Hn |- *. rewrite (set_frame c (kgen (sk s)) tr k v tr' rc k' (kgen (sk s)) Htr Es Hne).
      specialize (Hclean k' Hk'r Hn). rewrite Forall_forall in Hclean. apply Hclean.
      eapply nth_error_In; exact Et.
  - destruct (nth_error (trees s) t) as [tr|] eqn:Et; [|right; reflexivity]. left.
    assert (Htr : reach c tr) by (rewrite Forall_forall in Hr; apply Hr; eapply nth_error_In; exact Et).
    destruct (get_total c (kgen (sk s)) tr k Htr) as (v & Ev). rewrite Ev. eexists _, _. split; [reflexivity|].
    split; [exact Hk|]. split; [exact Hr|exact Hclean].
  - destruct (nth_error (trees s) t) as [tr|] eqn:Et; [|right; reflexivity]. left.
    eexists _, _. split; [reflexivity|]. cbn [sk sh trees]. split; [exact Hk|]. split.
    + apply Forall_set_tree; [exact Hr|apply reach_empty].
    + intros k' Hk'r Hn. apply Forall_set_tree; [apply Hclean; assumption|apply get_empty].
Qed.

Lemma sinv_run os : forall s, sinv s -> guarded_run var s os = true ->
  exists s' rs, sys_run var s os = Some (s', rs) /\ sinv s'.
Proof.
  induction os as [|o r IH]; intros s Hi Hg; cbn [sys_run guarded_run] in *; [eauto|].
  apply andb_true_iff in Hg. destruct Hg as [Hg1 Hg2].
  destruct (sinv_step s o Hi Hg1) as [(s1 & x & E & Hi1)|E]; rewrite E in *; [|discriminate].
  destruct (IH s1 Hi1 Hg2) as (s2 & rs & E2 & Hi2). rewrite E2. eauto.
Qed.

(** PARTIAL (the code without tags): a key handed out by a create reads NULL in
    every thread, provided the history so far was guarded *)
Theorem fresh_key_null_guarded n os s rs d s' k : v_tagged var = false ->
  guarded_run var (sys_init n) os = true ->
  sys_run var (sys_init n) os = Some (s, rs) ->
  sys_step var s (KCreate d) = Some (s', k) -> k <> -1 ->
  forall t tr, nth_error (trees s') t = Some tr -> get (kgen (sk s')) tr k = Some 0.
Proof.
  intros Htag Hg Hrun Hc Hk t tr Ht.
  destruct (sinv_run os (sys_init n) (sinv_init n) Hg) as (s0 & rs0 & E & (Hkinv & _ & Hclean)).
  rewrite E in Hrun. inversion Hrun; subst s0 rs0; clear Hrun.
  cbn [sys_step] in Hc. fold tagged in Hc.
  destruct (seq_create_spec tagged (sk s) (sh s) d Hkinv) as [[_ E2]|[_ (k1 & s1 & E2 & Hkr & Hkn & _ & _ & _ & Eg)]];
    rewrite E2 in Hc; inversion Hc; subst; clear Hc; [contradiction Hk; reflexivity|].
  cbn [trees sk] in *.
  specialize (Hclean k Hkr Hkn). rewrite Forall_forall in Hclean.
  rewrite <- (Hclean tr (nth_error_In _ _ Ht)). apply get_kg_ext.
  rewrite Eg. unfold bump. unfold tagged. rewrite Htag. reflexivity.
Qed.

(** ** generation tags: the FULL statement, no guard and no usage contract *)
Hypothesis is_tagged : v_tagged var = true.

(** after [n] operations no generation exceeds [n], and no slot carries a
    generation above the current one of its index *)
Definition ginv (n : Z) (s : sys) : Prop :=
  kinv (sk s) (sh s) /\ Forall (reach c) (trees s) /\
  (forall k, 0 <= kgen (sk s) k <= n) /\
  (forall tr, In tr (trees s) -> forall k v g, look_tree tr k = Found v g -> 0 <= g <= kgen (sk s) k).

Lemma ginv_init n : ginv 0 (sys_init n).
Proof.
  unfold sys_init. split; [exact kinv_init|]. cbn [trees sh sk]. split; [|split].
  - apply Forall_forall. intros tr H. apply repeat_spec in H. subst. apply reach_empty.
  - intros k. cbn. lia.
  - intros tr H k v g Hl. apply repeat_spec in H. subst. unfold look_tree in Hl. cbn in Hl.
    destruct (out_of_range k); discriminate.
Qed.

Lemma in_set_tree l : forall t x y, In y (set_tree l t x) -> y = x \/ In y l.
Proof.
  induction l as [|z r IH]; intros [|t] x y H; cbn [set_tree In] in *; try contradiction.
  - destruct H as [H|H]; [left; symmetry; exact H|right; right; exact H].
  - destruct H as [H|H]; [right; left; exact H|]. destruct (IH t x y H); tauto.
Qed.

Lemma ginv_step n s o s' r : ginv n s -> 0 <= n -> n + 1 < GEN_MOD ->
  sys_step var s o = Some (s', r) -> ginv (n + 1) s'.
Proof.
  intros (Hk & Hr & Hgen & Hent) Hn0 Hn Hs. destruct o as [d|k|t k v|t k|t]; cbn [sys_step] in Hs.
  - fold tagged in Hs.
    destruct (seq_create_spec tagged (sk s) (sh s) d Hk) as [[_ E]|[_ (k & s1 & E & Hkr & _ & _ & _ & Hk' & Eg)]];
      rewrite E in Hs; injection Hs as <- <-; unfold ginv; cbn [sk sh trees].
    + cbn [sk sh trees]. split; [exact Hk|]. split; [exact Hr|]. split; [intros k; specialize (Hgen k); lia|exact Hent].
    + cbn [sk sh trees]. split; [exact Hk'|]. split; [exact Hr|].
      assert (Hb : forall x, kgen (sk s) x <= bump tagged (sk s) k x <= n + 1).
      { intros x. unfold bump, tagged. rewrite is_tagged. unfold fupd.
        destruct (x =? k) eqn:Ex; [|specialize (Hgen x); lia].
        apply Z.eqb_eq in Ex. subst x. specialize (Hgen k).
        rewrite Z.mod_small by (unfold GEN_MOD in *; lia). lia. }
      rewrite Eg. split.
      * intros x. specialize (Hb x). specialize (Hgen x). lia.
      * intros tr Htr x v g Hl. specialize (Hent tr Htr x v g Hl). specialize (Hb x). lia.
  - fold tagged in Hs.
    destruct (seq_delete_spec tagged (sk s) (sh s) k Hk) as [[_ (s1 & E & Hk' & Eg & _)]|[_ E]];
      rewrite E in Hs; injection Hs as <- <-; unfold ginv; cbn [sk sh trees].
    + split; [exact Hk'|]. split; [exact Hr|]. rewrite Eg.
      split; [intros x; specialize (Hgen x); lia|exact Hent].
    + split; [exact Hk|]. split; [exact Hr|]. split; [intros x; specialize (Hgen x); lia|exact Hent].
  - destruct (nth_error (trees s) t) as [tr|] eqn:Et; [|discriminate].
    assert (Htr : reach c tr) by (rewrite Forall_forall in Hr; apply Hr; eapply nth_error_In; exact Et).
    fold c in Hs. destruct (set c (kgen (sk s)) tr k v) as [[tr' rc]|] eqn:Es; [|discriminate].
    injection Hs as <- <-; unfold ginv; cbn [sk sh trees]. cbn [sk sh trees]. split; [exact Hk|]. split.
    + apply Forall_set_tree; [exact Hr|]. eapply reach_set; eassumption.
    + split; [intros x; specialize (Hgen x); lia|].
      intros y Hy x v' g' Hl. destruct (in_set_tree _ _ _ _ Hy) as [->|Hy']; [|apply (Hent y Hy' x v' g' Hl)].
      destruct (set_slot c (kgen (sk s)) tr k v tr' rc x v' g' Htr Es Hl) as [(-> & _ & _ & ->)|[Hold|[_ ->]]].
      * specialize (Hgen k). lia.
      * apply (Hent tr (nth_error_In _ _ Et) x v' g' Hold).
      * specialize (Hgen x). lia.
  - destruct (nth_error (trees s) t) as [tr|]; [|discriminate].
    destruct (get (kgen (sk s)) tr k); [|discriminate]. injection Hs as <- <-; unfold ginv; cbn [sk sh trees].
    split; [exact Hk|]. split; [exact Hr|]. split; [intros x; specialize (Hgen x); lia|exact Hent].
  - destruct (nth_error (trees s) t) as [tr|] eqn:Et; [|discriminate]. injection Hs as <- <-; unfold ginv; cbn [sk sh trees].
    cbn [sk sh trees]. split; [exact Hk|]. split; [apply Forall_set_tree; [exact Hr|apply reach_empty]|].
    split; [intros x; specialize (Hgen x); lia|].
    intros y Hy x v g Hl. destruct (in_set_tree _ _ _ _ Hy) as [->|Hy']; [|apply (Hent y Hy' x v g Hl)].
    unfold look_tree in Hl. cbn in Hl. destruct (out_of_range x); discriminate.
Qed.

Lemma ginv_run os : forall n s s' rs, ginv n s -> 0 <= n -> n + Z.of_nat (length os) < GEN_MOD ->
  sys_run var s os = Some (s', rs) -> ginv (n + Z.of_nat (length os)) s'.
Proof.
  induction os as [|o r IH]; intros n s s' rs Hi Hn0 Hn Hrun; cbn [sys_run length] in *.
  - inversion Hrun; subst. replace (n + Z.of_nat 0) with n by lia. exact Hi.
  - destruct (sys_step var s o) as [[s1 x]|] eqn:E; [|discriminate].
    destruct (sys_run var s1 r) as [[s2 xs]|] eqn:E2; [|discriminate]. inversion Hrun; subst; clear Hrun.
    replace (n + Z.of_nat (S (length r))) with ((n + 1) + Z.of_nat (length r)) by lia.
    apply (IH (n + 1) s1 s' xs); [|lia|lia|exact E2].
    eapply ginv_step; [exact Hi|exact Hn0|lia|exact E].
Qed.

(** FULL: after ANY history (any number of threads; stores under dead keys,
    deletes of keys that threads still hold values under - everything allowed)
    of fewer than 2^32 - 1 operations, the key returned by a create reads NULL
    in every thread *)
Theorem fresh_key_null n os s rs d s' k :
  Z.of_nat (length os) + 1 < GEN_MOD ->
  sys_run var (sys_init n) os = Some (s, rs) ->
  sys_step var s (KCreate d) = Some (s', k) -> k <> -1 ->
  forall t tr, nth_error (trees s') t = Some tr -> get (kgen (sk s')) tr k = Some 0.
Proof.
  intros Hlen Hrun Hc Hk t tr Ht.
  pose proof (ginv_run os 0 (sys_init n) s rs (ginv_init n) ltac:(lia) ltac:(lia) Hrun) as (Hkinv & Hr & Hgen & Hent).
  cbn [Z.add] in Hgen, Hent.
  cbn [sys_step] in Hc. fold tagged in Hc.
  destruct (seq_create_spec tagged (sk s) (sh s) d Hkinv) as [[_ E2]|[_ (k1 & s1 & E2 & Hkr & Hkn & _ & _ & _ & Eg)]];
    rewrite E2 in Hc; inversion Hc; subst; clear Hc; [contradiction Hk; reflexivity|].
  cbn [trees sk] in *.
  unfold get. destruct (look_tree tr k) as [|v g|] eqn:El; [reflexivity| |].
  - specialize (Hent tr (nth_error_In _ _ Ht) k v g El). specialize (Hgen k).
    rewrite Eg. unfold bump, tagged. rewrite is_tagged, fupd_same.
    rewrite Z.mod_small by (unfold GEN_MOD in *; lia).
    destruct (Z.eqb_spec g (kgen (sk s) k + 1)) as [E|E]; [lia|reflexivity].
  - exfalso. assert (Htr : reach c tr) by (rewrite Forall_forall in Hr; apply Hr; eapply nth_error_In; exact Ht).
    destruct (get_total c (fun _ => 0) tr k Htr) as (v & Hv). unfold get in Hv. rewrite El in Hv. discriminate.
Qed.
End SysProofs.

(** the unguarded statement is false for the code without tags: the slot written
    under the old incarnation of the index is still there ... *)
Theorem stale_witness :
  option_map snd (sys_run variant_plain (sys_init 1) stale_history) = Some [0; 0; 0; 0; 777] /\
  guarded_run variant_plain (sys_init 1) stale_history = false /\
  guarded_run variant_plain (sys_init 1) [KCreate 0; TSet 0 0 777] = true.
Proof. split; [vm_compute; reflexivity|split; vm_compute; reflexivity]. Qed.

(** ... and with generation tags the same history reads NULL *)
Theorem stale_witness_tagged :
  option_map snd (sys_run variant_tagged (sys_init 1) stale_history) = Some [0; 0; 0; 0; 0].
Proof. vm_compute. reflexivity. Qed.
