(** C10 — thread-specific data is private to (thread, key) and follows the thread.
    Statements only; every proof is [exact] of a lemma of Tls/Tls*Proofs.v.

    Part 1: the per-thread radix tree (Tls/TlsTreeModel.v), every key, every tree
            reachable by stores.
    Part 2: the key allocator, sequentially, every history of create/delete.
    Part 3: the key allocator at the grain of the MYTH_VERIF_POINTs, any number
            of threads, every schedule: the full statement is FALSE (ABA on the
            free list) - refuted with an explicit 3-thread schedule, and proved
            under the guard that excludes exactly the ABA window.
    Part 4: values stored under an index survive deletion and re-creation of
            the key (stale value) - refuted, and proved under its guard. *)
From Coq Require Import ZArith List Permutation.
From MT Require Import Lib.Interleave.
From MT Require Import Tls.TlsTreeModel Tls.TlsTreeProofs Tls.TlsKeysModel Tls.TlsKeysProofs.
From MT Require Import Tls.TlsSysModel Tls.TlsSysProofs.
Import ListNotations.
Local Open Scope Z_scope.

(** * Part 1 - the tree.  [reach t]: [t] results from any sequence of
    [myth_tls_tree_set] calls (any keys, also out of range, any values) on the
    tree of a fresh thread.  [in_range k] is [0 <= k < 1024]. *)

(** a stored value is what the thread reads back under that key *)
Theorem C10_get_after_set : forall t k v, reach t -> in_range k ->
  exists t', set t k v = Some (t', 0) /\ get t' k = Some v.
Proof. exact get_after_set. Qed.
Print Assumptions C10_get_after_set.

(** a store changes the value of no other key (in or out of range) *)
Theorem C10_set_frame : forall t k v t' rc k', reach t -> set t k v = Some (t', rc) -> k' <> k ->
  get t' k' = get t k'.
Proof. exact set_frame. Qed.
Print Assumptions C10_set_frame.

(** a thread that never stored reads NULL, under every key *)
Theorem C10_get_empty : forall k, get empty k = Some 0.
Proof. exact get_empty. Qed.
Print Assumptions C10_get_empty.

(** key indices outside the valid range are rejected: the store returns EINVAL
    and leaves the tree untouched (no node is allocated), the load returns NULL *)
Theorem C10_out_of_range_rejected : forall t k v, ~ in_range k ->
  set t k v = Some (t, EINVAL) /\ get t k = Some 0.
Proof. exact out_of_range_rejected. Qed.
Print Assumptions C10_out_of_range_rejected.

(** no [assert] of the C code fails; the return value is 0 exactly for valid keys *)
Theorem C10_set_total : forall t k v, reach t ->
  exists t' rc, set t k v = Some (t', rc) /\ (rc = 0 <-> in_range k).
Proof. exact set_total. Qed.
Print Assumptions C10_set_total.

Theorem C10_get_total : forall t k, reach t -> exists v, get t k = Some v.
Proof. exact get_total. Qed.
Print Assumptions C10_get_total.

(** the embedded bump pool never overruns its 256-byte buffer: the bump pointer
    stays inside it, every node carved from it lies below the bump pointer, every
    other node comes from a distinct [myth_malloc] call, and no two nodes of the
    tree have the same memory origin *)
Theorem C10_pool_never_overruns : forall t, reach t ->
  0 <= pp t <= POOL_SZ /\
  (forall off sz, In (Pool off, sz) (nodes (root t)) -> 0 <= off /\ off + sz <= pp t /\ 0 < sz) /\
  (forall id sz, In (Heap id, sz) (nodes (root t)) -> 0 <= id < nheap t) /\
  NoDup (map fst (nodes (root t))).
Proof. exact pool_never_overruns. Qed.
Print Assumptions C10_pool_never_overruns.

(** "every subset of keys": every list of stores is executable and lands in
    [reach]; every reachable tree comes from such a list *)
Theorem C10_every_history_reachable : forall kvs, exists t, set_all empty kvs = Some t /\ reach t.
Proof. exact (fun kvs => set_all_reach kvs empty reach_empty). Qed.
Print Assumptions C10_every_history_reachable.

Theorem C10_reachable_by_history : forall t, reach t -> exists kvs, set_all empty kvs = Some t.
Proof. exact reach_set_all. Qed.
Print Assumptions C10_reachable_by_history.

(** privacy across threads: a store by thread [t] changes neither the key
    allocator nor any other thread's tree (the tree is a field of the thread
    descriptor: it is the thread's on whichever worker the thread runs); a load
    changes nothing *)
Theorem C10_set_private : forall s t k v s' rc, sys_step s (TSet t k v) = Some (s', rc) ->
  sk s' = sk s /\ sh s' = sh s /\ length (trees s') = length (trees s) /\
  forall t', t' <> t -> nth_error (trees s') t' = nth_error (trees s) t'.
Proof. exact set_private. Qed.
Print Assumptions C10_set_private.

Theorem C10_get_pure : forall s t k s' v, sys_step s (TGet t k) = Some (s', v) -> s' = s.
Proof. exact get_pure. Qed.
Print Assumptions C10_get_pure.

(** * Part 2 - the key allocator, one call at a time.  [seq_hist kinit [] os]
    runs the history [os] of creates and deletes from the initialised
    allocator; it yields the allocator state, the list [h] of keys handed out and
    not yet deleted, and the results. *)

(** every history runs to completion (no call runs out of fuel) *)
Theorem C10_seq_total : forall os,
  exists s h rs, seq_hist kinit [] os = Some (s, h, rs) /\ length rs = length os.
Proof. exact seq_history_total. Qed.
Print Assumptions C10_seq_total.

(** live keys are pairwise distinct, inside the range and marked live; the
    free list is a NULL-terminated chain and free ⊎ live = all 1024 indices *)
Theorem C10_seq_distinct : forall os s h rs, seq_hist kinit [] os = Some (s, h, rs) ->
  NoDup h /\ (forall k, In k h -> in_range k /\ knext s k = LIVE) /\
  exists fl, chain (knext s) (kfree s) fl /\ Permutation (fl ++ h) (zrange 0 1024).
Proof. exact seq_history_distinct. Qed.
Print Assumptions C10_seq_distinct.

(** creation fails exactly when 1024 keys are live (and then changes nothing);
    otherwise it returns a fresh index and records the destructor there only *)
Theorem C10_seq_create : forall os s h rs d, seq_hist kinit [] os = Some (s, h, rs) ->
  (length h = 1024%nat /\ seq_op s h (Create d) = Some (s, h, -1)) \/
  ((length h < 1024)%nat /\ exists k s', seq_op s h (Create d) = Some (s', k :: h, k) /\
     in_range k /\ ~ In k h /\ kdtor s' k = d /\ (forall k', k' <> k -> kdtor s' k' = kdtor s k')).
Proof. exact seq_history_create. Qed.
Print Assumptions C10_seq_create.

(** deleting a live key removes exactly that key and returns its destructor;
    deleting a dead or out-of-range key is an error and a no-op *)
Theorem C10_seq_delete : forall os s h rs k, seq_hist kinit [] os = Some (s, h, rs) ->
  (In k h /\ exists s', seq_op s h (Delete k) = Some (s', remove1 k h, kdtor s k) /\ ~ In k (remove1 k h)) \/
  (~ In k h /\ seq_op s h (Delete k) = Some (s, h, ERR)).
Proof. exact seq_history_delete. Qed.
Print Assumptions C10_seq_delete.

(** * Part 3 - concurrent create/delete.  [step] is the interleaving system of
    Tls/TlsKeysModel.v (one [Tick] per MYTH_VERIF_POINT); [held s] is the ghost
    list of keys handed out and not yet accepted by a delete.

    FULL STATEMENT (false):
      forall s, reachable is_init step s -> NoDup (held s). *)

(** the explicit schedule: T0's create is preempted between "key.alloc.readnext"
    and "key.alloc.cas"; T1 creates 0, creates 1, deletes 0; T0's CAS succeeds;
    T2's create returns the live key 1 (and leaves the head at the live mark) *)
Theorem C10_aba_refuted :
  let s := run step aba_schedule (init 3) in
  reachable is_init step s /\
  held s = [1; 0; 1] /\ result s 0 = Some 0 /\ result s 2 = Some 1 /\
  kfree (ks s) = LIVE /\ ~ NoDup (held s).
Proof. exact aba_witness. Qed.
Print Assumptions C10_aba_refuted.

Theorem C10_distinct_concurrent_refuted : ~ (forall s, reachable is_init step s -> NoDup (held s)).
Proof. exact distinct_concurrent_refuted. Qed.
Print Assumptions C10_distinct_concurrent_refuted.

(** PARTIAL: in the system [gstep] - the same system minus one kind of step -
    for any number of threads, any programs (respecting the usage contract that
    two threads are not inside [key_delete] of the same key at once) and any
    schedule: the keys handed out are pairwise distinct, in range and marked
    live; the free list is a duplicate-free NULL-terminated chain disjoint from
    them; every index is free, handed out, or detached by a delete in progress.
    Missing w.r.t. the full statement: the schedules containing the excluded
    step (see [C10_guard_exact]). *)
Theorem C10_distinct_concurrent_partial : forall s, reachable is_init gstep s ->
  NoDup (held s) /\
  (forall k, In k (held s) -> in_range k /\ knext (ks s) k = LIVE) /\
  exists fl, chain (knext (ks s)) (kfree (ks s)) fl /\ NoDup fl /\
             (forall k, In k fl -> in_range k /\ ~ In k (held s)) /\
             (forall k, in_range k -> In k fl \/ In k (held s) \/
                        exists t p, nth_error (threads s) t = Some p /\ detached k p).
Proof. exact (fun s H => cinv_property s (cinv_reachable s H)). Qed.
Print Assumptions C10_distinct_concurrent_partial.

(** the guarded system only removes steps ... *)
Theorem C10_guard_subsystem : forall s a s', gstep s a = Some s' -> step s a = Some s'.
Proof. exact gstep_sub. Qed.
Print Assumptions C10_guard_subsystem.

(** ... namely exactly this one: the successful "key.dealloc.cas" that pushes key
    [k] while some create waits at "key.alloc.cas" with [k] as its operand *)
Theorem C10_guard_exact : forall s t,
  (gstep s (t, Tick) = None /\ step s (t, Tick) <> None) <->
  exists k h f, nth_error (threads s) t = Some (DCas k h f) /\ kfree (ks s) = h /\
                exists u n d, nth_error (threads s) u = Some (ACas k n d).
Proof. exact guard_exact. Qed.
Print Assumptions C10_guard_exact.

(** * Part 4 - deleting a key does not clear the slots written under it.

    FULL STATEMENT (false): after any history, a key returned by a create reads
    NULL in every thread (no thread has stored under this incarnation yet). *)
Theorem C10_stale_refuted :
  option_map snd (sys_run (sys_init 1) stale_history) = Some [0; 0; 0; 0; 777] /\
  guarded_run (sys_init 1) stale_history = false /\
  guarded_run (sys_init 1) [KCreate 0; TSet 0 0 777] = true.
Proof. exact stale_witness. Qed.
Print Assumptions C10_stale_refuted.

(** PARTIAL: under the guard "a key is deleted only when no thread holds a
    non-NULL value under it, and values are stored only under live keys", for
    any number of threads and any history, the key returned by a create reads
    NULL in every thread.  Missing: histories that delete a key while some
    thread still holds a value under it (then the stale value is read). *)
Theorem C10_fresh_key_null_partial : forall n os s rs d s' k,
  guarded_run (sys_init n) os = true ->
  sys_run (sys_init n) os = Some (s, rs) ->
  sys_step s (KCreate d) = Some (s', k) -> k <> -1 ->
  forall t tr, nth_error (trees s') t = Some tr -> get tr k = Some 0.
Proof. exact fresh_key_null. Qed.
Print Assumptions C10_fresh_key_null_partial.

(** * non-vacuity *)

(** keys in all four top-level subtrees; the first path uses up the pool, every
    later node is malloc-ed *)
Example C10_tree_example :
  match set_all empty [(0, 11); (16, 12); (256, 13); (1023, 14); (1024, 99); (-1, 98)] with
  | Some t => map (get t) [0; 16; 256; 1023; 1; 255; 1024; -1]
                = [Some 11; Some 12; Some 13; Some 14; Some 0; Some 0; Some 0; Some 0] /\
              pp t = 256 /\ nheap t = 7 /\ shapeb DEPTH (root t) = true
  | None => False
  end.
Proof. vm_compute. repeat split; reflexivity. Qed.

Example C10_seq_example :
  option_map (fun x => (snd (fst x), snd x))
    (seq_hist kinit [] [Create 1; Create 2; Delete 0; Delete 0; Delete 5000; Create 3; Create 4])
  = Some ([2; 0; 1], [0; 1; 1; -1; -1; 0; 2]).
Proof. vm_compute. reflexivity. Qed.

(** a guarded concurrent run: two creates and a delete interleaved, one CAS
    fails and retries; reachable in [gstep] *)
Definition guarded_schedule : list (nat * ev) :=
  [(0%nat, Call (Create 7)); (1%nat, Call (Create 8)); (0%nat, Tick); (1%nat, Tick);
   (0%nat, Tick); (1%nat, Tick); (1%nat, Tick); (0%nat, Tick); (0%nat, Tick); (0%nat, Tick);
   (0%nat, Tick); (1%nat, Ret); (1%nat, Call (Delete 0)); (1%nat, Tick); (1%nat, Tick);
   (0%nat, Ret); (0%nat, Call (Create 9)); (0%nat, Tick); (0%nat, Tick); (1%nat, Tick);
   (0%nat, Tick); (0%nat, Tick); (0%nat, Tick); (0%nat, Tick)].

Example C10_guarded_example :
  let s := run gstep guarded_schedule (init 2) in
  reachable is_init gstep s /\ held s = [0; 1] /\ result s 0 = Some 0 /\ result s 1 = Some 8.
Proof.
  cbv zeta. split; [apply run_reachable, reach_init; exists 2%nat; reflexivity|].
  vm_compute. repeat split; reflexivity.
Qed.

(** a guarded API history: a key is deleted after its value was reset to NULL *)
Example C10_guarded_history_example :
  guarded_run (sys_init 2)
    [KCreate 0; KCreate 0; TSet 0 0 5; TSet 1 1 6; TSet 0 0 0; KDelete 0; KCreate 3; TGet 0 0; TGet 1 1] = true /\
  option_map snd (sys_run (sys_init 2)
    [KCreate 0; KCreate 0; TSet 0 0 5; TSet 1 1 6; TSet 0 0 0; KDelete 0; KCreate 3; TGet 0 0; TGet 1 1])
  = Some [0; 1; 0; 0; 0; 0; 0; 0; 6].
Proof. vm_compute. split; reflexivity. Qed.
