(** C10 — thread-specific data is private to (thread, key) and follows the thread.
    Statements only; every proof is [exact] of a lemma of Tls/Tls*Proofs.v.

    The models cover the source with and without the two repairs; the check
    probes on every run which variant the library is and says so in its evidence:
    - layout / generation tags: [cfg_plain] + [kg0] (no tags) or [cfg_tagged] + the
      allocator's generation column (repair of the stale-value finding);
    - the key free list: lock-free CAS loops ([step], Tls/TlsKeysModel.v) or
      serialised by a spin lock ([lstep], Tls/TlsKeysLockModel.v; repair of the ABA
      finding).

    Part 1: the per-thread radix tree, every key, every tree reachable by stores,
            every layout, every generation column.
    Part 2: the key allocator, sequentially, every history of create/delete.
    Part 3: the key allocator at the grain of the MYTH_VERIF hooks, any number of
            threads, every schedule.  Lock-free code: the full statement is FALSE
            (ABA) - refuted with an explicit 3-thread schedule and proved under the
            guard that excludes exactly the ABA window.  Locked code: the FULL
            statement is proved.
    Part 4: a fresh key reads NULL.  Code without tags: FALSE (stale value) -
            refuted, and proved under its guard.  Code with tags: the FULL
            statement is proved. *)
From Coq Require Import ZArith List Permutation.
From MT Require Import Lib.Interleave.
From MT Require Import Tls.TlsTreeModel Tls.TlsTreeProofs Tls.TlsKeysModel Tls.TlsKeysProofs.
From MT Require Import Tls.TlsKeysLockModel Tls.TlsKeysLockProofs.
From MT Require Import Tls.TlsSysModel Tls.TlsSysProofs.
Import ListNotations.
Local Open Scope Z_scope.

(** * Part 1 - the tree.  [reach c t]: [t] results from any sequence of
    [myth_tls_tree_set] calls (any keys, also out of range, any values, each with
    the generation column of its moment) on the tree of a fresh thread.
    [in_range k] is [0 <= k < 1024]. *)

(** a stored value is what the thread reads back under that key *)
Theorem C10_get_after_set : forall c kg t k v, reach c t -> in_range k ->
  exists t', set c kg t k v = Some (t', 0) /\ get kg t' k = Some v.
Proof. exact get_after_set. Qed.
Print Assumptions C10_get_after_set.

(** a store changes the value of no other key (in or out of range), whatever
    generation column the reader uses *)
Theorem C10_set_frame : forall c kg t k v t' rc k' kg', reach c t -> set c kg t k v = Some (t', rc) ->
  k' <> k -> get kg' t' k' = get kg' t k'.
Proof. exact set_frame. Qed.
Print Assumptions C10_set_frame.

(** a thread that never stored reads NULL, under every key *)
Theorem C10_get_empty : forall kg k, get kg empty k = Some 0.
Proof. exact get_empty. Qed.
Print Assumptions C10_get_empty.

(** key indices outside the valid range are rejected: the store returns EINVAL
    and leaves the tree untouched (no node is allocated), the load returns NULL *)
Theorem C10_out_of_range_rejected : forall c kg t k v, ~ in_range k ->
  set c kg t k v = Some (t, EINVAL) /\ get kg t k = Some 0.
Proof. exact out_of_range_rejected. Qed.
Print Assumptions C10_out_of_range_rejected.

(** no [assert] of the C code fails; the return value is 0 exactly for valid keys *)
Theorem C10_set_total : forall c kg t k v, reach c t ->
  exists t' rc, set c kg t k v = Some (t', rc) /\ (rc = 0 <-> in_range k).
Proof. exact set_total. Qed.
Print Assumptions C10_set_total.

Theorem C10_get_total : forall c kg t k, reach c t -> exists v, get kg t k = Some v.
Proof. exact get_total. Qed.
Print Assumptions C10_get_total.

(** a slot written under another generation than the index' current one reads NULL *)
Theorem C10_stale_hidden : forall kg t k v g, look_tree t k = Found v g -> g <> kg k -> get kg t k = Some 0.
Proof. exact stale_hidden. Qed.
Print Assumptions C10_stale_hidden.

(** the embedded bump pool never overruns its buffer (256 bytes without tags, 384
    with): the bump pointer stays inside it, every node carved from it lies below
    the bump pointer, every other node comes from a distinct [myth_malloc] call,
    and no two nodes of the tree have the same memory origin *)
Theorem C10_pool_never_overruns : forall c, 0 < c_leaf c -> 0 <= c_pool c -> forall t, reach c t ->
  0 <= pp t <= c_pool c /\
  (forall off sz, In (Pool off, sz) (nodes c (root t)) -> 0 <= off /\ off + sz <= pp t /\ 0 < sz) /\
  (forall id sz, In (Heap id, sz) (nodes c (root t)) -> 0 <= id < nheap t) /\
  NoDup (map fst (nodes c (root t))).
Proof. exact pool_never_overruns. Qed.
Print Assumptions C10_pool_never_overruns.

(** "every subset of keys": every list of stores is executable and lands in
    [reach]; every reachable tree comes from a list of stores *)
Theorem C10_every_history_reachable : forall c kg kvs, exists t, set_all c kg empty kvs = Some t /\ reach c t.
Proof. exact (fun c kg kvs => set_all_reach c kg kvs empty (reach_empty c)). Qed.
Print Assumptions C10_every_history_reachable.

Theorem C10_reachable_by_history : forall c t, reach c t -> exists l, set_steps c empty l = Some t.
Proof. exact reach_set_steps. Qed.
Print Assumptions C10_reachable_by_history.

(** privacy across threads: a store by thread [t] changes neither the key
    allocator nor any other thread's tree (the tree is a field of the thread
    descriptor: it is the thread's on whichever worker the thread runs); a load
    changes nothing *)
Theorem C10_set_private : forall var s t k v s' rc, sys_step var s (TSet t k v) = Some (s', rc) ->
  sk s' = sk s /\ sh s' = sh s /\ length (trees s') = length (trees s) /\
  forall t', t' <> t -> nth_error (trees s') t' = nth_error (trees s) t'.
Proof. exact set_private. Qed.
Print Assumptions C10_set_private.

Theorem C10_get_pure : forall var s t k s' v, sys_step var s (TGet t k) = Some (s', v) -> s' = s.
Proof. exact get_pure. Qed.
Print Assumptions C10_get_pure.

(** * Part 2 - the key allocator, one call at a time.  [seq_hist tagged kinit [] os]
    runs the history [os] of creates and deletes from the initialised allocator; it
    yields the allocator state, the list [h] of keys handed out and not yet
    deleted, and the results.  ([tagged]: with or without the generation column;
    run alone, a call of the locked allocator does the same: [C10_locked_sequential].) *)

(** every history runs to completion (no call runs out of fuel) *)
Theorem C10_seq_total : forall tagged os,
  exists s h rs, seq_hist tagged kinit [] os = Some (s, h, rs) /\ length rs = length os.
Proof. exact seq_history_total. Qed.
Print Assumptions C10_seq_total.

(** live keys are pairwise distinct, inside the range and marked live; the
    free list is a NULL-terminated chain and free ⊎ live = all 1024 indices *)
Theorem C10_seq_distinct : forall tagged os s h rs, seq_hist tagged kinit [] os = Some (s, h, rs) ->
  NoDup h /\ (forall k, In k h -> in_range k /\ knext s k = LIVE) /\
  exists fl, chain (knext s) (kfree s) fl /\ Permutation (fl ++ h) (zrange 0 1024).
Proof. exact seq_history_distinct. Qed.
Print Assumptions C10_seq_distinct.

(** creation fails exactly when 1024 keys are live (and then changes nothing);
    otherwise it returns a fresh index and records the destructor there only *)
Theorem C10_seq_create : forall tagged os s h rs d, seq_hist tagged kinit [] os = Some (s, h, rs) ->
  (length h = 1024%nat /\ seq_op tagged s h (Create d) = Some (s, h, -1)) \/
  ((length h < 1024)%nat /\ exists k s', seq_op tagged s h (Create d) = Some (s', k :: h, k) /\
     in_range k /\ ~ In k h /\ kdtor s' k = d /\ (forall k', k' <> k -> kdtor s' k' = kdtor s k')).
Proof. exact seq_history_create. Qed.
Print Assumptions C10_seq_create.

(** deleting a live key removes exactly that key and returns its destructor;
    deleting a dead or out-of-range key is an error and a no-op *)
Theorem C10_seq_delete : forall tagged os s h rs k, seq_hist tagged kinit [] os = Some (s, h, rs) ->
  (In k h /\ exists s', seq_op tagged s h (Delete k) = Some (s', remove1 k h, kdtor s k) /\ ~ In k (remove1 k h)) \/
  (~ In k h /\ seq_op tagged s h (Delete k) = Some (s, h, ERR)).
Proof. exact seq_history_delete. Qed.
Print Assumptions C10_seq_delete.

(** long histories: [n >= 1] create/delete cycles of the index at the head of the
    free list return that index every time, restore the free list and the set of
    live keys, and leave the cell with generation [(g + n) mod 2^32] - the closed
    form [cycle_n] that the model driver uses for tens of thousands of cycles *)
Theorem C10_cycles_closed_form : forall tagged d n s h, in_range (kfree s) ->
  exists s', seq_hist tagged s h (cyc (kfree s) d (S n)) = Some (s', h, cyc_results (kfree s) d (S n)) /\
             kst_ext s' (cycle_n tagged s d (Z.of_nat (S n))).
Proof. exact cycles_closed_form. Qed.
Print Assumptions C10_cycles_closed_form.

(** a deleted key has no destructor (commit 7f58d46: [key_delete] clears the cell): after
    every history the destructor column is NULL outside the live keys *)
Theorem C10_deleted_key_no_destructor : forall tagged os s h rs, seq_hist tagged kinit [] os = Some (s, h, rs) ->
  forall k, ~ In k h -> kdtor s k = 0.
Proof. exact seq_history_dead_no_dtor. Qed.
Print Assumptions C10_deleted_key_no_destructor.

Theorem C10_locked_sequential : forall tagged s h o,
  lseq_op tagged s h o =
  match seq_op tagged s h o with Some (s', h', r) => Some (false, s', h', r) | None => None end.
Proof. exact lseq_op_eq. Qed.
Print Assumptions C10_locked_sequential.

(** * Part 3a - concurrent create/delete, LOCK-FREE code.  [step] is the
    interleaving system of Tls/TlsKeysModel.v (one [Tick] per MYTH_VERIF_POINT);
    [held s] is the ghost list of keys handed out and not yet accepted by a delete.

    FULL STATEMENT (false for this code):
      forall s, reachable is_init (step tagged) s -> NoDup (held s). *)

(** the explicit schedule: T0's create is preempted between "key.alloc.readnext"
    and "key.alloc.cas"; T1 creates 0, creates 1, deletes 0; T0's CAS succeeds;
    T2's create returns the live key 1 (and leaves the head at the live mark) *)
Theorem C10_aba_refuted : forall tagged,
  let s := run (step tagged) aba_schedule (init 3) in
  reachable is_init (step tagged) s /\
  held s = [1; 0; 1] /\ result s 0 = Some 0 /\ result s 2 = Some 1 /\
  kfree (ks s) = LIVE /\ ~ NoDup (held s).
Proof. exact aba_witness. Qed.
Print Assumptions C10_aba_refuted.

Theorem C10_distinct_concurrent_refuted : forall tagged,
  ~ (forall s, reachable is_init (step tagged) s -> NoDup (held s)).
Proof. exact distinct_concurrent_refuted. Qed.
Print Assumptions C10_distinct_concurrent_refuted.

(** PARTIAL: in the system [gstep] - the same system minus one kind of step -
    for any number of threads, any programs (respecting the usage contract that
    two threads are not inside [key_delete] of the same key at once) and any
    schedule: the keys handed out are pairwise distinct, in range and marked
    live; the free list is a duplicate-free NULL-terminated chain disjoint from
    them; every index is free, handed out, or detached by a delete in progress.
    Missing w.r.t. the full statement: the schedules containing the excluded
    step (see [C10_guard_exact]). *)
Theorem C10_distinct_concurrent_partial : forall tagged s, reachable is_init (gstep tagged) s ->
  NoDup (held s) /\
  (forall k, In k (held s) -> in_range k /\ knext (ks s) k = LIVE) /\
  exists fl, chain (knext (ks s)) (kfree (ks s)) fl /\ NoDup fl /\
             (forall k, In k fl -> in_range k /\ ~ In k (held s)) /\
             (forall k, in_range k -> In k fl \/ In k (held s) \/
                        exists t p, nth_error (threads s) t = Some p /\ detached k p).
Proof. exact (fun tagged s H => cinv_property s (cinv_reachable tagged s H)). Qed.
Print Assumptions C10_distinct_concurrent_partial.

(** the guarded system only removes steps ... *)
Theorem C10_guard_subsystem : forall tagged s a s', gstep tagged s a = Some s' -> step tagged s a = Some s'.
Proof. exact gstep_sub. Qed.
Print Assumptions C10_guard_subsystem.

(** ... namely exactly this one: the successful "key.dealloc.cas" that pushes key
    [k] while some create waits at "key.alloc.cas" with [k] as its operand *)
Theorem C10_guard_exact : forall tagged s t,
  (gstep tagged s (t, Tick) = None /\ step tagged s (t, Tick) <> None) <->
  exists k h f, nth_error (threads s) t = Some (DCas k h f) /\ kfree (ks s) = h /\
                exists u n d, nth_error (threads s) u = Some (ACas k n d).
Proof. exact guard_exact. Qed.
Print Assumptions C10_guard_exact.

(** * Part 3b - concurrent create/delete, LOCKED code: the FULL statement.
    [lstep] is the interleaving system of Tls/TlsKeysLockModel.v (one tick per
    hook: "spin.trylock", "spin.wait", the six key.* points inside the locked
    region, "spin.unlock").  Any number of threads, any programs (NO usage
    contract: also two deletes of the same key at once), any schedule - also
    schedules that suspend a thread inside the locked region for as long as they
    like.  In every reachable state the keys handed out are pairwise distinct,
    valid and marked live; whenever no thread is inside the locked region the
    free list is a NULL-terminated chain and free ⊎ handed-out = all 1024
    indices; at most one thread is inside the locked region, and none when the
    lock is free. *)
Theorem C10_distinct_concurrent : forall tagged s, reachable lis_init (lstep tagged) s ->
  (NoDup (lheld s) /\ forall x, In x (lheld s) -> in_range x /\ knext (lks s) x = LIVE) /\
  ((forall t p, nth_error (lthreads s) t = Some p -> in_cs p = false) ->
   exists fl, chain (knext (lks s)) (kfree (lks s)) fl /\
              Permutation (fl ++ lheld s) (zrange 0 1024)) /\
  (forall t1 t2 p1 p2, nth_error (lthreads s) t1 = Some p1 -> nth_error (lthreads s) t2 = Some p2 ->
     in_cs p1 = true -> in_cs p2 = true -> t1 = t2) /\
  (llock s = false -> forall t p, nth_error (lthreads s) t = Some p -> in_cs p = false).
Proof. exact (fun tagged s H => linv_property s (linv_reachable tagged s H)). Qed.
Print Assumptions C10_distinct_concurrent.

(** * Part 4a - a fresh key reads NULL, code WITHOUT generation tags.

    FULL STATEMENT (false for this code): after any history, a key returned by a
    create reads NULL in every thread. *)
Theorem C10_stale_refuted :
  option_map snd (sys_run variant_plain (sys_init 1) stale_history) = Some [0; 0; 0; 0; 777] /\
  guarded_run variant_plain (sys_init 1) stale_history = false /\
  guarded_run variant_plain (sys_init 1) [KCreate 0; TSet 0 0 777] = true.
Proof. exact stale_witness. Qed.
Print Assumptions C10_stale_refuted.

(** PARTIAL: under the guard "a key is deleted only when no thread holds a
    non-NULL value under it, and values are stored only under live keys", for
    any number of threads and any history, the key returned by a create reads
    NULL in every thread.  Missing: histories that delete a key while some
    thread still holds a value under it (then the stale value is read). *)
Theorem C10_fresh_key_null_partial : forall var n os s rs d s' k, v_tagged var = false ->
  guarded_run var (sys_init n) os = true ->
  sys_run var (sys_init n) os = Some (s, rs) ->
  sys_step var s (KCreate d) = Some (s', k) -> k <> -1 ->
  forall t tr, nth_error (trees s') t = Some tr -> get (kgen (sk s')) tr k = Some 0.
Proof. exact fresh_key_null_guarded. Qed.
Print Assumptions C10_fresh_key_null_partial.

(** * Part 4b - code WITH generation tags: the FULL statement.  Any number of
    threads, ANY history (no guard, no usage contract: stores under dead keys and
    deletes of keys that threads still hold values under included) of fewer than
    2^32 - 1 operations (the generation is an [unsigned int]): the key returned
    by a create reads NULL in every thread. *)
Theorem C10_fresh_key_null : forall var, v_tagged var = true -> forall n os s rs d s' k,
  Z.of_nat (length os) + 1 < GEN_MOD ->
  sys_run var (sys_init n) os = Some (s, rs) ->
  sys_step var s (KCreate d) = Some (s', k) -> k <> -1 ->
  forall t tr, nth_error (trees s') t = Some tr -> get (kgen (sk s')) tr k = Some 0.
Proof. exact fresh_key_null. Qed.
Print Assumptions C10_fresh_key_null.

Theorem C10_stale_witness_repaired :
  option_map snd (sys_run variant_tagged (sys_init 1) stale_history) = Some [0; 0; 0; 0; 0].
Proof. exact stale_witness_tagged. Qed.
Print Assumptions C10_stale_witness_repaired.

(** * non-vacuity *)

(** keys in all four top-level subtrees; the first path uses up the pool, every
    later node is malloc-ed *)
Example C10_tree_example :
  match set_all cfg_plain kg0 empty [(0, 11); (16, 12); (256, 13); (1023, 14); (1024, 99); (-1, 98)] with
  | Some t => map (get kg0 t) [0; 16; 256; 1023; 1; 255; 1024; -1]
                = [Some 11; Some 12; Some 13; Some 14; Some 0; Some 0; Some 0; Some 0] /\
              pp t = 256 /\ nheap t = 7 /\ shapeb DEPTH (root t) = true
  | None => False
  end.
Proof. vm_compute. repeat split; reflexivity. Qed.

Example C10_tree_example_tagged :
  match set_all cfg_tagged (fun _ => 3) empty [(0, 11); (16, 12); (256, 13)] with
  | Some t => map (get (fun k => if k =? 16 then 4 else 3) t) [0; 16; 256] = [Some 11; Some 0; Some 13] /\
              pp t = 384 /\ nheap t = 4
  | None => False
  end.
Proof. vm_compute. repeat split; reflexivity. Qed.

Example C10_seq_example :
  option_map (fun x => (snd (fst x), snd x))
    (seq_hist true kinit [] [Create 1; Create 2; Delete 0; Delete 0; Delete 5000; Create 3; Create 4])
  = Some ([2; 0; 1], [0; 1; 1; -1; -1; 0; 2]).
Proof. vm_compute. reflexivity. Qed.

(** a guarded concurrent run of the lock-free code: two creates and a delete
    interleaved, one CAS fails and retries; reachable in [gstep] *)
Definition guarded_schedule : list (nat * ev) :=
  [(0%nat, Call (Create 7)); (1%nat, Call (Create 8)); (0%nat, Tick); (1%nat, Tick);
   (0%nat, Tick); (1%nat, Tick); (1%nat, Tick); (0%nat, Tick); (0%nat, Tick); (0%nat, Tick);
   (0%nat, Tick); (1%nat, Ret); (1%nat, Call (Delete 0)); (1%nat, Tick); (1%nat, Tick);
   (0%nat, Ret); (0%nat, Call (Create 9)); (0%nat, Tick); (0%nat, Tick); (1%nat, Tick);
   (0%nat, Tick); (0%nat, Tick); (0%nat, Tick); (0%nat, Tick)].

Example C10_guarded_example :
  let s := run (gstep false) guarded_schedule (init 2) in
  reachable is_init (gstep false) s /\ held s = [0; 1] /\ result s 0 = Some 0 /\ result s 1 = Some 8.
Proof.
  cbv zeta. split; [apply run_reachable, reach_init; exists 2%nat; reflexivity|].
  vm_compute. repeat split; reflexivity.
Qed.

(** the schedule of the ABA witness on the locked code: T0 is suspended inside
    the locked region, T1 and T2 spin, nothing goes wrong *)
Example C10_locked_example : forall tagged,
  let s := run (lstep tagged) aba_schedule_locked (linit 3) in
  lheld s = [1; 2; 0] /\ lresult s 2 = Some 1 /\ llock s = false /\ kfree (lks s) = 3.
Proof. exact aba_schedule_locked_ok. Qed.

(** a guarded API history: a key is deleted after its value was reset to NULL *)
Example C10_guarded_history_example :
  guarded_run variant_plain (sys_init 2)
    [KCreate 0; KCreate 0; TSet 0 0 5; TSet 1 1 6; TSet 0 0 0; KDelete 0; KCreate 3; TGet 0 0; TGet 1 1] = true /\
  option_map snd (sys_run variant_plain (sys_init 2)
    [KCreate 0; KCreate 0; TSet 0 0 5; TSet 1 1 6; TSet 0 0 0; KDelete 0; KCreate 3; TGet 0 0; TGet 1 1])
  = Some [0; 1; 0; 0; 0; 0; 0; 0; 6].
Proof. vm_compute. split; reflexivity. Qed.
