(** C18 — recorded executions as trees, and the explicit (uncontracted) DAG of a tree.

    Source: src/profiler/dag_recorder_inl.h (the grammar in its header comment and the
    instrumentation entry points), src/profiler/dr_dump.c (dr_pi_dag_enum_edges: which
    edges the uncontracted DAG has).

    A recorded execution is a tree

        task    ::= (section | other)* end
        section ::= (section | create task | other)* wait

    whose leaves are the *intervals*: maximal stretches of one task executed by one worker
    between two instrumentation calls; a leaf carries the clock readings at its start and
    end and the worker, and is classified by the call that ended it (create_task,
    wait_tasks, other, end_task).  One inductive type with a well-formedness predicate is
    used instead of four mutually inductive ones.

    The explicit DAG of a tree has one node per leaf (numbered in serial, depth-first
    order, which is a topological order) and the edges that dr_pi_dag_enum_edges lists for
    a DAG in which nothing was contracted:
      - last leaf of x -> first leaf of the next sibling, of kind create_cont / other_cont /
        wait_cont according to how x ended;
      - create leaf -> first leaf of the created task (create);
      - end leaf of a task created directly in section x -> first leaf after x (end).
    It is represented by predecessor lists ([row]).  [dp] computes, in one pass in
    topological order, the weight of the heaviest path ending at each node. *)
From Coq Require Import ZArith List Bool.
Import ListNotations.
Local Open Scope Z_scope.

Inductive nkind := KCreate | KWait | KOther | KEnd | KSection | KTask.
Inductive ekind := EEnd | ECreate | ECreateCont | EWaitCont | EOtherCont.

Definition nkind_eqb (a b : nkind) : bool :=
  match a, b with
  | KCreate, KCreate | KWait, KWait | KOther, KOther | KEnd, KEnd
  | KSection, KSection | KTask, KTask => true
  | _, _ => false
  end.

Definition ekind_eqb (a b : ekind) : bool :=
  match a, b with
  | EEnd, EEnd | ECreate, ECreate | ECreateCont, ECreateCont
  | EWaitCont, EWaitCont | EOtherCont, EOtherCont => true
  | _, _ => false
  end.

Record leaf := mkLeaf { l_start : Z; l_end : Z; l_worker : Z }.
Definition llen (l : leaf) : Z := l_end l - l_start l.

Inductive tree :=
| Other (l : leaf)
| Create (l : leaf) (child : tree)
| Sect (items : list tree) (w : leaf)
| Task (items : list tree) (e : leaf).

(** where a tree stands: as an item of a task, as an item of a section, or as a whole
    task (the root, or the child of a create) *)
Inductive ctx := CTask | CSect | CChild.

Fixpoint wf (c : ctx) (t : tree) : bool :=
  match t with
  | Other _ => match c with CChild => false | _ => true end
  | Create _ ch => match c with CSect => wf CChild ch | _ => false end
  | Sect items _ => match c with CChild => false | _ => forallb (wf CSect) items end
  | Task items _ => match c with CChild => forallb (wf CTask) items | _ => false end
  end.

Definition well_nested (t : tree) : Prop := wf CChild t = true.

(** the intervals in serial (depth-first) order *)
Fixpoint leaves (t : tree) : list (nkind * leaf) :=
  match t with
  | Other l => [(KOther, l)]
  | Create l c => (KCreate, l) :: leaves c
  | Sect items w => flat_map leaves items ++ [(KWait, w)]
  | Task items e => flat_map leaves items ++ [(KEnd, e)]
  end.

Definition zsum (l : list Z) : Z := fold_right Z.add 0 l.
Definition max0 (l : list Z) : Z := fold_right Z.max 0 l.

Definition work (t : tree) : Z := zsum (map (fun kl => llen (snd kl)) (leaves t)).
Definition count_kind (k : nkind) (t : tree) : Z :=
  Z.of_nat (length (filter (fun kl => nkind_eqb (fst kl) k) (leaves t))).

(** every interval has a non-negative length (the clock does not run backwards) *)
Definition nonneg (t : tree) : Prop := Forall (fun kl => 0 <= llen (snd kl)) (leaves t).
Definition nonnegb (t : tree) : bool := forallb (fun kl => 0 <=? llen (snd kl)) (leaves t).

(** ** the explicit DAG *)
Definition pred := (nat * ekind)%type.
Record row := mkRow { r_kind : nkind; r_leaf : leaf; r_preds : list pred }.
(** [d_rows]: the nodes of the subgraph with their incoming edges; [d_outs]: the edges that
    leave the subgraph towards whatever follows it serially; [d_pend]: the end edges of
    tasks created by the subgraph, which go to whatever follows the enclosing section
    (in a well-nested tree a task has none left: every create sits in a section) *)
Record dagres := mkDag { d_rows : list row; d_outs : list pred; d_pend : list pred }.

Section DagItems.
  Variable f : tree -> nat -> list pred -> dagres.
  Fixpoint dag_items (items : list tree) (o : nat) (ins : list pred) : dagres :=
    match items with
    | [] => mkDag [] ins []
    | x :: r =>
        let a := f x o ins in
        let b := dag_items r (o + length (d_rows a))%nat (d_outs a) in
        mkDag (d_rows a ++ d_rows b) (d_outs b) (d_pend a ++ d_pend b)
    end.
End DagItems.

(** [dag t o ins]: [o] = number of the first leaf of [t], [ins] = the edges entering it *)
Fixpoint dag (t : tree) (o : nat) (ins : list pred) : dagres :=
  match t with
  | Other l => mkDag [mkRow KOther l ins] [(o, EOtherCont)] []
  | Create l c =>
      let a := dag c (S o) [(o, ECreate)] in
      mkDag (mkRow KCreate l ins :: d_rows a) [(o, ECreateCont)] (d_outs a ++ d_pend a)
  | Sect items w =>
      let a := dag_items dag items o ins in
      mkDag (d_rows a ++ [mkRow KWait w (d_outs a)])
            (((o + length (d_rows a))%nat, EWaitCont) :: d_pend a) []
  | Task items e =>
      let a := dag_items dag items o ins in
      mkDag (d_rows a ++ [mkRow KEnd e (d_outs a)])
            [((o + length (d_rows a))%nat, EEnd)] (d_pend a)
  end.

Definition dag_of (t : tree) : list row := d_rows (dag t 0%nat []).

(** number of edges of one kind *)
Definition edge_count (k : ekind) (rows : list row) : Z :=
  Z.of_nat (length (filter (fun p : pred => ekind_eqb (snd p) k) (flat_map r_preds rows))).

(** heaviest path ending at each node, one pass in topological order *)
Definition look (ds : list Z) (p : pred) : Z := nth (fst p) ds 0.
Fixpoint dp (acc : list Z) (rows : list row) : list Z :=
  match rows with
  | [] => acc
  | r :: rs => dp (acc ++ [llen (r_leaf r) + max0 (map (look acc) (r_preds r))]) rs
  end.
Definition longest_path (rows : list row) : Z := max0 (dp [] rows).

(** paths of the explicit DAG, for the statement of the critical-path theorem *)
Definition edge_in (rows : list row) (u v : nat) : Prop :=
  exists r, nth_error rows v = Some r /\ In u (map fst (r_preds r)).
Inductive is_path (rows : list row) : list nat -> Prop :=
| path_one : forall v, (v < length rows)%nat -> is_path rows [v]
| path_cons : forall u v p, (u < length rows)%nat -> edge_in rows u v ->
                            is_path rows (v :: p) -> is_path rows (u :: v :: p).
Definition node_weight (rows : list row) (v : nat) : Z :=
  match nth_error rows v with Some r => llen (r_leaf r) | None => 0 end.
Definition path_weight (rows : list row) (p : list nat) : Z := zsum (map (node_weight rows) p).
