(** C18 — model of the DAG Recorder's bottom-up accumulation and contraction.

    Source: src/profiler/dag_recorder_inl.h
      dr_end_interval_            -> [leaf_info]
      dr_accumulate_stats         -> [acc_init] / [acc_step] / [acc_finish] / [accumulate]
      dr_collapse_subgraph        -> [collapse]
      dr_prune_nodes_norec        -> [prune]   (the explicit stack written as recursion)
      dr_summarize_section_or_task-> [summarize]
      the dr_*__ entry points     -> [record]: every closed section / task is accumulated from
                                     its children, then handed to the contraction policy.
    Source: src/profiler/gen_stat.c, src/profiler/dr_dump.c (the report)
      dr_calc_inner_delay (total_t_1)              -> [stat_work]
      dr_calc_edges + dr_pi_dag_enum_edges, summed
      over the worker matrix                       -> [stat_edges]
    The library exists in two variants with respect to finding C18-stat-edges-lost (flags [oc],
    [fe]; notes/C18.md); tools/props/c18.py probes which one it is linked against.

    [info] keeps the fields of dr_dag_node_info that the reported totals are made of
    (t_1, t_inf, logical node counts, logical edge counts) and the fields that drive the
    contraction policies (start / end clock, worker, cur_node_count, min_node_count,
    n_child_create_tasks).  est, first_ready_t, last_start_t, t_ready, counters, cpu,
    in_edge_kind and code positions are not modelled.

    Clock values are [Z]; the C type is a 64-bit unsigned integer and the subtraction in the
    span test of [summarize] is taken modulo 2^64 as in C.  Sums of interval lengths are
    assumed not to exceed 2^64 (a recorded run would have to last centuries).

    The in-memory DAG is a [node]: a materialised section / task keeps its children, a
    contracted one ([NSub i []]) keeps only its summary [i].

    [record] is parametric in the summariser applied at each close; [contracts] is the
    over-approximation of every contraction policy: any set of closed subgraphs below the
    node just closed (or that node itself) is replaced by its summary. *)
From Coq Require Import ZArith List Bool.
From MT Require Import Dag.DagTreeModel.
Import ListNotations.
Local Open Scope Z_scope.

Record ncounts := mkNC { nc_create : Z; nc_wait : Z; nc_other : Z; nc_end : Z }.
Record ecounts := mkEC { ec_end : Z; ec_create : Z; ec_ccont : Z; ec_wcont : Z; ec_ocont : Z }.

Definition nc_zero := mkNC 0 0 0 0.
Definition ec_zero := mkEC 0 0 0 0 0.
Definition nc_add (a b : ncounts) :=
  mkNC (nc_create a + nc_create b) (nc_wait a + nc_wait b) (nc_other a + nc_other b) (nc_end a + nc_end b).
Definition ec_add (a b : ecounts) :=
  mkEC (ec_end a + ec_end b) (ec_create a + ec_create b) (ec_ccont a + ec_ccont b)
       (ec_wcont a + ec_wcont b) (ec_ocont a + ec_ocont b).
Definition nc_unit (k : nkind) : ncounts :=
  match k with
  | KCreate => mkNC 1 0 0 0 | KWait => mkNC 0 1 0 0 | KOther => mkNC 0 0 1 0 | KEnd => mkNC 0 0 0 1
  | _ => nc_zero   (* logical_node_counts has no slot for section / task *)
  end.
Definition nc_total (a : ncounts) : Z := nc_create a + nc_wait a + nc_other a + nc_end a.

Record info := mkInfo {
  i_kind : nkind;
  i_start : Z;          (* info.start.t *)
  i_end : Z;            (* info.end.t *)
  i_worker : Z;         (* info.worker; -1 = more than one *)
  i_t1 : Z;             (* work *)
  i_tinf : Z;           (* critical path *)
  i_nodes : ncounts;    (* logical_node_counts *)
  i_edges : ecounts;    (* logical_edge_counts *)
  i_cur : Z;            (* cur_node_count *)
  i_min : Z;            (* min_node_count *)
  i_nchild : Z          (* n_child_create_tasks *)
}.

Definition set_cur (i : info) (c : Z) : info :=
  mkInfo (i_kind i) (i_start i) (i_end i) (i_worker i) (i_t1 i) (i_tinf i) (i_nodes i) (i_edges i)
         c (i_min i) (i_nchild i).

(** dr_end_interval_ *)
Definition leaf_info (k : nkind) (l : leaf) : info :=
  mkInfo k (l_start l) (l_end l) (l_worker l) (llen l) (llen l) (nc_unit k) ec_zero 1 1 0.

Inductive node :=
| NLeaf (i : info)
| NCreate (i : info) (child : node)
| NSub (i : info) (children : list node).

Definition ninfo (n : node) : info :=
  match n with NLeaf i => i | NCreate i _ => i | NSub i _ => i end.

Definition meet (x y : Z) : Z := if x =? y then x else -1.

(** the loop state of dr_accumulate_stats: [s->info] and the local [t_inf] *)
Record accst := mkAcc { a_info : info; a_alt : Z }.

Definition acc_init (k : nkind) (first last : info) : accst :=
  mkAcc (mkInfo k (i_start first) (i_end last) (i_worker first) 0 0 nc_zero ec_zero 1 1 0) 0.

(** The library exists in two variants as far as edge counting goes (notes/C18.md):
    [oc = false]: the tree as found - [case dr_dag_node_kind_other: break;], no other_cont edge is
                  ever counted in logical_edge_counts;
    [oc = true] : with the proposed repair - an [other] interval that has a successor counts one
                  other_cont edge.
    The check probes which variant the library under test is and runs the matching branch. *)
Section Variant.
Variable oc : bool.

(** one iteration of the loop over the subgraphs; [hasnext] = [x->next != 0] *)
Definition acc_step (hasnext : bool) (st : accst) (x : node) : accst :=
  let s := a_info st in
  let xi := ninfo x in
  (* common part *)
  let t1 := i_t1 s + i_t1 xi in
  let tinf := i_tinf s + i_tinf xi in
  let worker := meet (i_worker s) (i_worker xi) in
  let nodes := nc_add (i_nodes s) (i_nodes xi) in
  let edges := ec_add (i_edges s) (i_edges xi) in
  let cur := i_cur s + i_cur xi in
  let mn := i_min s + i_min xi in
  match x with
  | NCreate _ c =>
      let ci := ninfo c in
      let edges1 := ec_add edges (mkEC 0 1 1 0 0) in
      mkAcc (mkInfo (i_kind s) (i_start s) (Z.max (i_end ci) (i_end s)) (meet worker (i_worker ci))
                    (t1 + i_t1 ci) tinf (nc_add nodes (i_nodes ci)) (ec_add edges1 (i_edges ci))
                    (cur + i_cur ci) (mn + i_min ci) (i_nchild s + 1))
            (Z.max (tinf + i_tinf ci) (a_alt st))
  | _ =>
      let edges1 :=
        match i_kind xi with
        | KSection => if hasnext then ec_add edges (mkEC (i_nchild xi) 0 0 1 0) else edges
        | KOther => if oc && hasnext then ec_add edges (mkEC 0 0 0 0 1) else edges
        | _ => edges      (* wait, end: no edge is counted *)
        end in
      mkAcc (mkInfo (i_kind s) (i_start s) (i_end s) worker t1 tinf nodes edges1 cur mn (i_nchild s))
            (a_alt st)
  end.

Fixpoint acc_loop (st : accst) (l : list node) : accst :=
  match l with
  | [] => st
  | x :: r => acc_loop (acc_step (match r with [] => false | _ => true end) st x) r
  end.

Definition acc_finish (st : accst) : info :=
  let s := a_info st in
  mkInfo (i_kind s) (i_start s) (i_end s) (i_worker s) (i_t1 s) (Z.max (a_alt st) (i_tinf s))
         (i_nodes s) (i_edges s) (i_cur s) (if i_worker s =? -1 then i_min s else 1) (i_nchild s).

(** dr_accumulate_stats; a closed section / task always has at least its wait / end interval *)
Definition accumulate (k : nkind) (ch : list node) : info :=
  match ch with
  | [] => mkInfo k 0 0 0 0 0 nc_zero ec_zero 1 1 0
  | first :: _ => acc_finish (acc_loop (acc_init k (ninfo first) (ninfo (last ch first))) ch)
  end.

End Variant.

(** ** contraction *)
(** dr_collapse_subgraph: free the descendants, keep the summary *)
Definition collapse (n : node) : node :=
  match n with NSub i _ => NSub (set_cur i 1) [] | _ => n end.

(** dr_cur_nodes_below / dr_min_nodes_below *)
Definition cur_below (n : node) : Z :=
  match n with NCreate _ c => 1 + i_cur (ninfo c) | _ => i_cur (ninfo n) end.
Definition min_below (n : node) : Z :=
  match n with NCreate _ c => 1 + i_min (ninfo c) | _ => i_min (ninfo n) end.

(** dr_prune_nodes_norec: the loop over the children of a section / task that is being pruned.
    [bl] = budget_left, [nl] = nodes_left; each child gets a share of the remaining budget
    proportional to its current size (C long division truncates: [Z.quot]) *)
Section PruneList.
  Variable P : Z -> node -> node.
  Fixpoint prune_list (bl nl : Z) (l : list node) {struct l} : list node * Z :=
    match l with
    | [] => ([], bl)
    | x :: r =>
        let nodes_ch := cur_below x in
        let x' := P (Z.quot (bl * nodes_ch) nl) x in
        let res := prune_list (bl - cur_below x') (nl - nodes_ch) r in
        (x' :: fst res, snd res)
    end.
End PruneList.

Fixpoint prune (budget : Z) (n : node) {struct n} : node :=
  match n with
  | NLeaf _ => n
  | NCreate i c => NCreate i (prune (budget - 1) c)
  | NSub i ch =>
      if i_cur i <=? budget then n                 (* within budget *)
      else if i_min i >=? i_cur i then n           (* already minimum *)
      else if (budget <? zsum (map min_below ch) + 1) && (i_min i =? 1)
      then NSub (set_cur i 1) []                   (* just collapsed *)
      else
        let res := prune_list prune (budget - 1) (i_cur i - 1) ch in
        NSub (set_cur i (budget - snd res)) (fst res)
  end.

Record setting := mkSetting {
  s_umin : Z;     (* uncollapse_min *)
  s_cmax : Z;     (* collapse_max *)
  s_nct : Z;      (* node_count_target *)
  s_prune : Z;    (* prune_threshold *)
  s_cmc : Z       (* collapse_max_count *)
}.

Definition two64 : Z := 18446744073709551616.

(** dr_summarize_section_or_task, after dr_accumulate_stats *)
Definition summarize (st : setting) (n : node) : node :=
  let i := ninfo n in
  if negb (s_nct st =? 0) then
    if i_cur i >? s_prune st then prune (s_nct st) n else n
  else if negb (s_cmc st =? 0) then
    if nc_total (i_nodes i) <? s_cmc st then collapse n else n
  else
    let span := (i_end i - i_start i) mod two64 in
    if (span <? s_umin st) || (negb (i_worker i =? -1) && (span <? s_cmax st))
    then collapse n else n.

(** the over-approximated policy as a function: [sel] says which subgraphs (addressed by
    their position below the node just closed) are replaced by their summary *)
Section ContractList.
  Variable C : list nat -> node -> node.
  Variable rel : list nat.
  Fixpoint contract_list (k : nat) (l : list node) {struct l} : list node :=
    match l with
    | [] => []
    | x :: r => C (rel ++ [k]) x :: contract_list (S k) r
    end.
End ContractList.

Section Contract.
  Variable sel : list nat -> bool.
  Fixpoint contract (rel : list nat) (n : node) {struct n} : node :=
    match n with
    | NLeaf _ => n
    | NCreate i c => NCreate i (contract (rel ++ [0%nat]) c)
    | NSub i ch =>
        if sel rel then NSub (set_cur i 1) []
        else
          let ch' := contract_list contract rel 0%nat ch in
          NSub (set_cur i (1 + zsum (map cur_below ch'))) ch'
    end.
End Contract.

(** ** the recorder *)
Section Record.
  Variable oc : bool.
  (** the summariser applied when the subgraph at position [p] of the tree closes *)
  Variable summ : list nat -> node -> node.

  Section Items.
    Variable f : list nat -> tree -> node.
    Variable p : list nat.
    Fixpoint record_items (k : nat) (items : list tree) : list node :=
      match items with
      | [] => []
      | x :: r => f (p ++ [k]) x :: record_items (S k) r
      end.
  End Items.

  Fixpoint record (p : list nat) (t : tree) {struct t} : node :=
    match t with
    | Other l => NLeaf (leaf_info KOther l)
    | Create l c => NCreate (leaf_info KCreate l) (record (p ++ [0%nat]) c)
    | Sect items w =>
        let ch := record_items record p 0%nat items ++ [NLeaf (leaf_info KWait w)] in
        summ p (NSub (accumulate oc KSection ch) ch)
    | Task items e =>
        let ch := record_items record p 0%nat items ++ [NLeaf (leaf_info KEnd e)] in
        summ p (NSub (accumulate oc KTask ch) ch)
    end.
End Record.

Definition summ_none : list nat -> node -> node := fun _ n => n.
Definition summ_setting (st : setting) : list nat -> node -> node := fun _ n => summarize st n.
(** one contraction choice per (position of the closing subgraph, position below it) *)
Definition summ_choice (ch : list nat -> list nat -> bool) : list nat -> node -> node :=
  fun p n => contract (ch p) [] n.

Definition root_info (oc : bool) (summ : list nat -> node -> node) (t : tree) : info :=
  ninfo (record oc summ [] t).

(** number of materialised nodes of an in-memory DAG (what dr_check_cur_node_count walks) *)
Fixpoint materialized (n : node) : Z :=
  match n with
  | NLeaf _ => 1
  | NCreate _ c => 1 + materialized c
  | NSub _ ch => 1 + zsum (map materialized ch)
  end.

(** ** the generated report (.stat) *)
(** gen_stat.c dr_calc_inner_delay: [total_t_1] = sum of t_1 over the intervals and the contracted
    nodes of the dumped DAG (this is the "work (T1)" line) *)
Fixpoint stat_work (n : node) : Z :=
  match n with
  | NLeaf i => i_t1 i
  | NCreate i c => i_t1 i + stat_work c
  | NSub i [] => i_t1 i
  | NSub i ch => zsum (map stat_work ch)
  end.

(** the edge x -> next sibling that dr_pi_dag_enum_edges lists (its kind is the in_edge_kind of the
    first interval of the sibling, which is determined by how x ended) *)
Definition cont_edge (x : node) : ecounts :=
  match x with
  | NCreate _ _ => mkEC 0 0 1 0 0
  | _ => match i_kind (ninfo x) with
         | KOther => mkEC 0 0 0 0 1
         | KSection | KWait => mkEC 0 0 0 1 0
         | _ => ec_zero
         end
  end.

Definition is_create (x : node) : bool := match x with NCreate _ _ => true | _ => false end.
Definition n_creates (l : list node) : Z := Z.of_nat (length (filter is_create l)).

(** for a materialised section x that has a next sibling: one create edge and one end edge per
    create_task interval directly in x *)
Definition sect_create_edges (x : node) : ecounts :=
  match x with
  | NSub i (y :: r) =>
      match i_kind i with
      | KSection => mkEC (n_creates (y :: r)) (n_creates (y :: r)) 0 0 0
      | _ => ec_zero
      end
  | _ => ec_zero
  end.

(** gen_stat.c dr_calc_edges, summed over the worker matrix: the logical counts of the contracted
    nodes plus the edges enumerated by dr_dump.c dr_pi_dag_enum_edges on what is materialised.
    [fe = false]: the tree as found; [fe = true]: with the proposed repair (a contracted section
    also contributes the end edges of the tasks created in it, which lead to its successor). *)
Section StatList.
  Variable E : node -> ecounts.
  Fixpoint stat_edges_list (l : list node) {struct l} : ecounts :=
    match l with
    | [] => ec_zero
    | x :: r =>
        ec_add (ec_add (E x)
                       (match r with
                        | [] => ec_zero
                        | _ => ec_add (cont_edge x) (sect_create_edges x)
                        end))
               (stat_edges_list r)
    end.
End StatList.

Section Stat.
  Variable fe : bool.
  Fixpoint stat_edges (n : node) {struct n} : ecounts :=
    match n with
    | NLeaf _ => ec_zero
    | NCreate _ c => stat_edges c
    | NSub i [] =>
        match i_kind i with
        | KSection => if fe then ec_add (i_edges i) (mkEC (i_nchild i) 0 0 0 0) else i_edges i
        | _ => i_edges i
        end
    | NSub i ch => stat_edges_list stat_edges ch
    end.
End Stat.
