(** C18 — proofs about the DAG Recorder model (Dag/DagTreeModel.v, Dag/DagRecordModel.v). *)
From Coq Require Import ZArith List Bool Lia.
From MT Require Import Dag.DagTreeModel Dag.DagRecordModel.
Import ListNotations.
Local Open Scope Z_scope.

(** * 0. Basics *)

Lemma zsum_app : forall a b, zsum (a ++ b) = zsum a + zsum b.
Proof.
  induction a as [|x a IH]; intros b; [reflexivity|].
  change (zsum ((x :: a) ++ b)) with (x + zsum (a ++ b)). change (zsum (x :: a)) with (x + zsum a).
  rewrite IH. lia.
Qed.

Lemma zsum_cons : forall x l, zsum (x :: l) = x + zsum l.
Proof. reflexivity. Qed.

Lemma max0_cons : forall x l, max0 (x :: l) = Z.max x (max0 l).
Proof. reflexivity. Qed.

Lemma max0_nonneg : forall l, 0 <= max0 l.
Proof. induction l as [|x l IH]; [cbn; lia|]. rewrite max0_cons. lia. Qed.

Lemma max0_app : forall a b, max0 (a ++ b) = Z.max (max0 a) (max0 b).
Proof.
  induction a as [|x a IH]; intros b.
  - cbn [app]. change (max0 []) with 0. pose proof (max0_nonneg b). lia.
  - cbn [app]. rewrite !max0_cons, IH. lia.
Qed.

Lemma max0_ge : forall l x, In x l -> x <= max0 l.
Proof.
  induction l as [|y l IH]; intros x Hin; [contradiction|].
  rewrite max0_cons. destruct Hin as [->|Hin]; [lia|]. specialize (IH _ Hin). lia.
Qed.

Lemma max0_le : forall l b, 0 <= b -> (forall x, In x l -> x <= b) -> max0 l <= b.
Proof.
  induction l as [|y l IH]; intros b Hb H; [cbn; lia|].
  rewrite max0_cons. assert (y <= b) by (apply H; left; reflexivity).
  assert (max0 l <= b) by (apply IH; [lia|]; intros x Hx; apply H; right; exact Hx). lia.
Qed.

Lemma max0_attained : forall l, max0 l = 0 \/ In (max0 l) l.
Proof.
  induction l as [|y l IH]; [left; reflexivity|].
  rewrite max0_cons. destruct (Z.max_spec y (max0 l)) as [[_ ->]|[_ ->]].
  - destruct IH as [IH|IH]; [left; exact IH|right; right; exact IH].
  - right; left; reflexivity.
Qed.

(** ** counts are commutative monoids *)
Lemma nc_add_zero_l : forall a, nc_add nc_zero a = a.
Proof. destruct a; reflexivity. Qed.
Lemma nc_add_zero_r : forall a, nc_add a nc_zero = a.
Proof. destruct a; unfold nc_add; cbn; f_equal; lia. Qed.
Lemma nc_add_assoc : forall a b c, nc_add (nc_add a b) c = nc_add a (nc_add b c).
Proof. destruct a, b, c; unfold nc_add; cbn; f_equal; lia. Qed.
Lemma nc_add_comm : forall a b, nc_add a b = nc_add b a.
Proof. destruct a, b; unfold nc_add; cbn; f_equal; lia. Qed.
Lemma ec_add_zero_l : forall a, ec_add ec_zero a = a.
Proof. destruct a; reflexivity. Qed.
Lemma ec_add_zero_r : forall a, ec_add a ec_zero = a.
Proof. destruct a; unfold ec_add; cbn; f_equal; lia. Qed.
Lemma ec_add_assoc : forall a b c, ec_add (ec_add a b) c = ec_add a (ec_add b c).
Proof. destruct a, b, c; unfold ec_add; cbn; f_equal; lia. Qed.
Lemma ec_add_comm : forall a b, ec_add a b = ec_add b a.
Proof. destruct a, b; unfold ec_add; cbn; f_equal; lia. Qed.

Definition nc_sum (l : list ncounts) : ncounts := fold_right nc_add nc_zero l.
Definition ec_sum (l : list ecounts) : ecounts := fold_right ec_add ec_zero l.

Lemma nc_sum_app : forall a b, nc_sum (a ++ b) = nc_add (nc_sum a) (nc_sum b).
Proof.
  induction a as [|x a IH]; intros b; cbn [app nc_sum fold_right].
  - symmetry; apply nc_add_zero_l.
  - fold (nc_sum (a ++ b)); fold (nc_sum a). rewrite IH, nc_add_assoc. reflexivity.
Qed.
Lemma ec_sum_app : forall a b, ec_sum (a ++ b) = ec_add (ec_sum a) (ec_sum b).
Proof.
  induction a as [|x a IH]; intros b; cbn [app ec_sum fold_right].
  - symmetry; apply ec_add_zero_l.
  - fold (ec_sum (a ++ b)); fold (ec_sum a). rewrite IH, ec_add_assoc. reflexivity.
Qed.

(** ** induction principles for the nested types *)
Section TreeInd.
  Variable P : tree -> Prop.
  Hypothesis HO : forall l, P (Other l).
  Hypothesis HC : forall l c, P c -> P (Create l c).
  Hypothesis HS : forall items w, Forall P items -> P (Sect items w).
  Hypothesis HT : forall items e, Forall P items -> P (Task items e).
  Fixpoint tree_ind' (t : tree) : P t :=
    match t with
    | Other l => HO l
    | Create l c => HC l c (tree_ind' c)
    | Sect items w =>
        HS items w ((fix go (l : list tree) : Forall P l :=
                       match l with [] => Forall_nil P | x :: r => Forall_cons x (tree_ind' x) (go r) end) items)
    | Task items e =>
        HT items e ((fix go (l : list tree) : Forall P l :=
                       match l with [] => Forall_nil P | x :: r => Forall_cons x (tree_ind' x) (go r) end) items)
    end.
End TreeInd.

Section NodeInd.
  Variable P : node -> Prop.
  Hypothesis HL : forall i, P (NLeaf i).
  Hypothesis HC : forall i c, P c -> P (NCreate i c).
  Hypothesis HS : forall i ch, Forall P ch -> P (NSub i ch).
  Fixpoint node_ind' (n : node) : P n :=
    match n with
    | NLeaf i => HL i
    | NCreate i c => HC i c (node_ind' c)
    | NSub i ch =>
        HS i ch ((fix go (l : list node) : Forall P l :=
                    match l with [] => Forall_nil P | x :: r => Forall_cons x (node_ind' x) (go r) end) ch)
    end.
End NodeInd.

(** * 1. Contraction does not change any summary *)

(** [contracts n n']: [n'] is [n] with an arbitrary set of closed subgraphs replaced by their
    summaries (and cur_node_count adjusted in any way) *)
Inductive contracts : node -> node -> Prop :=
| ct_leaf : forall i, contracts (NLeaf i) (NLeaf i)
| ct_create : forall i c c', contracts c c' -> contracts (NCreate i c) (NCreate i c')
| ct_collapse : forall i ch cur', contracts (NSub i ch) (NSub (set_cur i cur') [])
| ct_sub : forall i ch ch' cur', Forall2 contracts ch ch' -> contracts (NSub i ch) (NSub (set_cur i cur') ch').

Definition contracting (summ : list nat -> node -> node) : Prop :=
  forall p n, contracts n (summ p n).

(** equality of summaries up to cur_node_count *)
Definition info_eqc (a b : info) : Prop := set_cur a 0 = set_cur b 0.

Lemma info_eqc_refl : forall a, info_eqc a a.
Proof. reflexivity. Qed.
Lemma info_eqc_sym : forall a b, info_eqc a b -> info_eqc b a.
Proof. unfold info_eqc; intros; symmetry; assumption. Qed.
Lemma info_eqc_trans : forall a b c, info_eqc a b -> info_eqc b c -> info_eqc a c.
Proof. unfold info_eqc; intros; congruence. Qed.
Lemma info_eqc_set_cur : forall a c, info_eqc (set_cur a c) a.
Proof. destruct a; reflexivity. Qed.
Lemma set_cur_same : forall a, set_cur a (i_cur a) = a.
Proof. destruct a; reflexivity. Qed.

Lemma info_eqc_fields : forall a b, info_eqc a b ->
  i_kind a = i_kind b /\ i_start a = i_start b /\ i_end a = i_end b /\ i_worker a = i_worker b /\
  i_t1 a = i_t1 b /\ i_tinf a = i_tinf b /\ i_nodes a = i_nodes b /\ i_edges a = i_edges b /\
  i_min a = i_min b /\ i_nchild a = i_nchild b.
Proof.
  intros [] [] H. unfold info_eqc, set_cur in H. cbn in H. inversion H; subst. cbn. repeat split.
Qed.

(** what the parent's accumulation reads of a child: its summary, and for a create_task
    interval the summary of the created task *)
Definition node_eqc (n n' : node) : Prop :=
  match n, n' with
  | NLeaf i, NLeaf i' => info_eqc i i'
  | NSub i _, NSub i' _ => info_eqc i i'
  | NLeaf i, NSub i' _ => info_eqc i i'
  | NSub i _, NLeaf i' => info_eqc i i'
  | NCreate i c, NCreate i' c' => info_eqc i i' /\ info_eqc (ninfo c) (ninfo c')
  | _, _ => False
  end.

Lemma node_eqc_info : forall n n', node_eqc n n' -> info_eqc (ninfo n) (ninfo n').
Proof. intros [] [] H; cbn in *; try contradiction; try exact H. exact (proj1 H). Qed.

Lemma contracts_info : forall n n', contracts n n' -> info_eqc (ninfo n) (ninfo n').
Proof.
  intros n n' H; destruct H; cbn; try apply info_eqc_refl; apply info_eqc_sym, info_eqc_set_cur.
Qed.

Lemma contracts_node_eqc : forall n n', contracts n n' -> node_eqc n n'.
Proof.
  intros n n' H; destruct H; cbn.
  - apply info_eqc_refl.
  - split; [apply info_eqc_refl|apply contracts_info; assumption].
  - apply info_eqc_sym, info_eqc_set_cur.
  - apply info_eqc_sym, info_eqc_set_cur.
Qed.

Lemma contracts_refl : forall n, contracts n n.
Proof.
  induction n as [i|i c IH|i ch IH] using node_ind'.
  - constructor.
  - constructor; exact IH.
  - rewrite <- (set_cur_same i) at 2. apply ct_sub.
    induction IH as [|x r Hx _ IHr]; constructor; assumption.
Qed.

Definition accst_eqc (a b : accst) : Prop := info_eqc (a_info a) (a_info b) /\ a_alt a = a_alt b.

Lemma acc_step_eqc : forall oc h st st' x x',
  accst_eqc st st' -> node_eqc x x' -> accst_eqc (acc_step oc h st x) (acc_step oc h st' x').
Proof.
  intros oc h [s alt] [s' alt'] x x' [Hs Ha] Hx. cbn in Hs, Ha. subst alt'.
  apply info_eqc_fields in Hs.
  destruct Hs as (Hk & Hst & He & Hw & Ht1 & Hti & Hn & Hed & Hm & Hnc).
  destruct x as [xi|xi c|xi ch]; destruct x' as [xi'|xi' c'|xi' ch']; cbn in Hx; try contradiction.
  all: try (destruct Hx as [Hx Hc]; apply info_eqc_fields in Hc;
            destruct Hc as (Hck & Hcst & Hce & Hcw & Hct1 & Hcti & Hcn & Hced & Hcm & Hcnc)).
  all: apply info_eqc_fields in Hx;
    destruct Hx as (Hxk & Hxst & Hxe & Hxw & Hxt1 & Hxti & Hxn & Hxed & Hxm & Hxnc).
  all: unfold acc_step, accst_eqc, info_eqc, set_cur; cbn [ninfo a_info a_alt i_kind i_start i_end i_worker i_t1 i_tinf i_nodes i_edges i_cur i_min i_nchild].
  all: rewrite ?Hk, ?Hst, ?He, ?Hw, ?Ht1, ?Hti, ?Hn, ?Hed, ?Hm, ?Hnc,
         ?Hxk, ?Hxst, ?Hxe, ?Hxw, ?Hxt1, ?Hxti, ?Hxn, ?Hxed, ?Hxm, ?Hxnc.
  all: try rewrite ?Hck, ?Hcst, ?Hce, ?Hcw, ?Hct1, ?Hcti, ?Hcn, ?Hced, ?Hcm, ?Hcnc.
  all: split; reflexivity.
Qed.

Lemma acc_loop_eqc : forall oc l l' st st',
  Forall2 node_eqc l l' -> accst_eqc st st' -> accst_eqc (acc_loop oc st l) (acc_loop oc st' l').
Proof.
  intros oc l l' st st' H; revert st st'.
  induction H as [|x x' r r' Hx Hr IH]; intros st st' Hst; cbn [acc_loop]; [exact Hst|].
  apply IH.
  assert (Hnil : (match r with [] => false | _ => true end) = (match r' with [] => false | _ => true end))
    by (destruct Hr; reflexivity).
  rewrite Hnil. apply acc_step_eqc; assumption.
Qed.

Lemma last_eqc : forall l l' d d', Forall2 node_eqc l l' -> node_eqc d d' -> node_eqc (last l d) (last l' d').
Proof.
  intros l l' d d' H; revert d d'. induction H as [|x x' r r' Hx Hr IH]; intros d d' Hd; [exact Hd|].
  cbn [last]. destruct Hr as [|y y' r2 r2' Hy Hr2]; [exact Hx|]. apply IH; exact Hd.
Qed.

Lemma acc_finish_eqc : forall st st', accst_eqc st st' -> info_eqc (acc_finish st) (acc_finish st').
Proof.
  intros [s alt] [s' alt'] [Hs Ha]. cbn in Hs, Ha. subst alt'.
  apply info_eqc_fields in Hs. destruct Hs as (Hk & Hst & He & Hw & Ht1 & Hti & Hn & Hed & Hm & Hnc).
  unfold acc_finish, info_eqc, set_cur. cbn [a_info a_alt i_kind i_start i_end i_worker i_t1 i_tinf i_nodes i_edges i_cur i_min i_nchild].
  rewrite Hk, Hst, He, Hw, Ht1, Hti, Hn, Hed, Hm, Hnc. reflexivity.
Qed.

Lemma accumulate_eqc : forall oc k l l', Forall2 node_eqc l l' -> info_eqc (accumulate oc k l) (accumulate oc k l').
Proof.
  intros oc k l l' H. destruct H as [|x x' r r' Hx Hr]; [apply info_eqc_refl|].
  unfold accumulate. apply acc_finish_eqc. apply acc_loop_eqc; [constructor; assumption|].
  assert (Hl : node_eqc (last (x :: r) x) (last (x' :: r') x')) by (apply last_eqc; [constructor; assumption|exact Hx]).
  apply node_eqc_info in Hl. apply node_eqc_info in Hx.
  apply info_eqc_fields in Hl. apply info_eqc_fields in Hx.
  destruct Hl as (_ & _ & Hle & _). destruct Hx as (_ & Hxs & _ & Hxw & _).
  unfold acc_init, accst_eqc, info_eqc, set_cur. cbn [a_info a_alt i_kind i_start i_end i_worker i_t1 i_tinf i_nodes i_edges i_cur i_min i_nchild].
  rewrite Hle, Hxs, Hxw. split; reflexivity.
Qed.

(** the recorder without contraction, without the positions *)
Section Rec0.
  Variable oc : bool.
  Fixpoint rec0 (t : tree) : node :=
    match t with
    | Other l => NLeaf (leaf_info KOther l)
    | Create l c => NCreate (leaf_info KCreate l) (rec0 c)
    | Sect items w => let ch := map rec0 items ++ [NLeaf (leaf_info KWait w)] in NSub (accumulate oc KSection ch) ch
    | Task items e => let ch := map rec0 items ++ [NLeaf (leaf_info KEnd e)] in NSub (accumulate oc KTask ch) ch
    end.
End Rec0.

Lemma record_items_Forall2 : forall (R : node -> node -> Prop) f g p items k,
  Forall (fun x => forall q, R (f q x) (g x)) items ->
  Forall2 R (record_items f p k items) (map g items).
Proof.
  intros R f g p items; induction items as [|x r IH]; intros k H; cbn [record_items map]; [constructor|].
  inversion H as [|? ? Hx Hr]; subst. constructor; [apply Hx|apply IH; exact Hr].
Qed.

Lemma Forall2_app_one : forall (R : node -> node -> Prop) l l' x x',
  Forall2 R l l' -> R x x' -> Forall2 R (l ++ [x]) (l' ++ [x']).
Proof. intros R l l' x x' H Hx. apply Forall2_app; [exact H|constructor; [exact Hx|constructor]]. Qed.

Lemma contracts_sub_eqc : forall i i' ch ch0 n',
  info_eqc i i' -> contracts (NSub i ch) n' -> node_eqc n' (NSub i' ch0).
Proof.
  intros i i' ch ch0 n' Hi H. inversion H; subst; cbn.
  - eapply info_eqc_trans; [apply info_eqc_set_cur|exact Hi].
  - eapply info_eqc_trans; [apply info_eqc_set_cur|exact Hi].
Qed.

Theorem record_eqc : forall oc summ, contracting summ ->
  forall t p, node_eqc (record oc summ p t) (rec0 oc t).
Proof.
  intros oc summ Hs t. induction t as [l|l c IH|items w IH|items e IH] using tree_ind'; intros p.
  - cbn. apply info_eqc_refl.
  - cbn [record rec0 node_eqc]. split; [apply info_eqc_refl|]. apply node_eqc_info, IH.
  - cbn [record rec0].
    eapply contracts_sub_eqc; [|apply Hs].
    apply accumulate_eqc. apply Forall2_app_one; [|apply info_eqc_refl].
    apply record_items_Forall2. exact IH.
  - cbn [record rec0].
    eapply contracts_sub_eqc; [|apply Hs].
    apply accumulate_eqc. apply Forall2_app_one; [|apply info_eqc_refl].
    apply record_items_Forall2. exact IH.
Qed.

Lemma contracting_none : contracting summ_none.
Proof. intros p n; apply contracts_refl. Qed.

(** the headline: every summary field except cur_node_count *)
Theorem contraction_invariant : forall oc summ, contracting summ ->
  forall t, info_eqc (root_info oc summ t) (root_info oc summ_none t).
Proof.
  intros oc summ Hs t. unfold root_info.
  eapply info_eqc_trans; [apply node_eqc_info, record_eqc; exact Hs|].
  apply info_eqc_sym, node_eqc_info, record_eqc, contracting_none.
Qed.

Lemma root_info_rec0 : forall oc summ, contracting summ ->
  forall t, info_eqc (root_info oc summ t) (ninfo (rec0 oc t)).
Proof. intros oc summ Hs t. apply node_eqc_info, record_eqc; exact Hs. Qed.

(** * 2. Every policy of the recorder, and every choice function, only contracts *)

Lemma contracts_collapse : forall n, contracts n (collapse n).
Proof. intros [i|i c|i ch]; cbn; [apply contracts_refl|apply contracts_refl|apply ct_collapse]. Qed.

Lemma prune_contracts : forall n b, contracts n (prune b n).
Proof.
  induction n as [i|i c IH|i ch IH] using node_ind'; intros b.
  - cbn. constructor.
  - cbn [prune]. constructor. apply IH.
  - cbn [prune].
    destruct (i_cur i <=? b); [apply contracts_refl|].
    destruct (i_min i >=? i_cur i); [apply contracts_refl|].
    destruct ((b <? zsum (map min_below ch) + 1) && (i_min i =? 1)); [apply ct_collapse|].
    apply ct_sub.
    generalize (b - 1) (i_cur i - 1).
    induction IH as [|x r Hx _ IHr]; intros bl nl; cbn [prune_list fst]; constructor; [apply Hx|apply IHr].
Qed.

Lemma summarize_contracts : forall st n, contracts n (summarize st n).
Proof.
  intros st n. unfold summarize.
  destruct (negb (s_nct st =? 0)).
  - destruct (i_cur (ninfo n) >? s_prune st); [apply prune_contracts|apply contracts_refl].
  - destruct (negb (s_cmc st =? 0)).
    + destruct (nc_total (i_nodes (ninfo n)) <? s_cmc st); [apply contracts_collapse|apply contracts_refl].
    + match goal with |- contracts _ (if ?c then _ else _) => destruct c end;
        [apply contracts_collapse|apply contracts_refl].
Qed.

Lemma contract_contracts : forall sel n rel, contracts n (contract sel rel n).
Proof.
  intros sel. induction n as [i|i c IH|i ch IH] using node_ind'; intros rel.
  - cbn. constructor.
  - cbn [contract]. constructor. apply IH.
  - cbn [contract]. destruct (sel rel); [apply ct_collapse|].
    apply ct_sub. generalize 0%nat.
    induction IH as [|x r Hx _ IHr]; intros k; cbn [contract_list]; constructor; [apply Hx|apply IHr].
Qed.

Lemma contracting_setting : forall st, contracting (summ_setting st).
Proof. intros st p n. apply summarize_contracts. Qed.

Lemma contracting_choice : forall ch, contracting (summ_choice ch).
Proof. intros ch p n. apply contract_contracts. Qed.
